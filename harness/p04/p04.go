// Package p04 ties the Lean model of C04 (crash recovery of the chain state)
// to the real btcd code: real ffldb + real blockchain.BlockChain, a crash image
// (copy of the database directory) after every committed db.Update of a
// workload, reopened with blockchain.New and then fed the whole workload again.
package p04

import (
	"errors"
	"runtime"
	"sync"
	"bufio"
	"bytes"
	"os/exec"
	"encoding/binary"
	"fmt"
	"io"
	"os"
	"path/filepath"
	"sort"
	"strconv"
	"strings"
	"time"

	"github.com/btcsuite/btcd/blockchain"
	"github.com/btcsuite/btcd/btcutil/v2"
	"github.com/btcsuite/btcd/chaincfg/v2"
	"github.com/btcsuite/btcd/chainhash/v2"
	"github.com/btcsuite/btcd/database"
	"github.com/btcsuite/btcd/database/ffldb"
	"github.com/btcsuite/btcd/txscript/v2"
	"github.com/btcsuite/btcd/wire/v2"

	"verifharness/core"
)

type P struct{}

func (P) ID() string { return "C04" }

// Facts: the names of the metadata buckets/keys that make up the persisted
// chain state, the bucket versions and the (persisted) block status bits.  Only values that
// are written to disk are facts; in-memory enums (FlushMode) and harness parameters are not.
func (P) Facts() []core.Fact {
	uv, jv := blockchain.VerifC04Versions()
	return []core.Fact{
		{Name: "names", Value: blockchain.VerifC04Names()},
		{Name: "utxoSetVersion", Value: uv},
		{Name: "spendJournalVersion", Value: jv},
		{Name: "statusBits", Value: blockchain.VerifC04StatusBits()},
	}
}

// ---------------------------------------------------------------------------
// Abstract workload on the line.
//
//	C04 img <cache> <prune> <blocks> <ops> <k>
//
// cache  : 0 (every FlushIfNeeded flushes) | 1 (cache never fills up); a>b or a>b>c
//          gives the later process lives (reopen, second reopen) their own size
// prune  : 0 | <target>:<maxfile>
// blocks : b1,b2,…  with  b = id:parent:spends[:x]   (spends = o1.o2… | -)
//          abstract outpoint  o = 8*blockid + txindex  (tx 0 = coinbase; tx j>0
//          spends one outpoint and creates one output)
// ops    : d<id> (ProcessBlock) | h<id> (ProcessBlockHeader) | f (FlushUtxoCache Required) | i (IfNeeded) | p (Periodic)
// k      : crash image after the k-th committed db.Update (1-based, counted
//          from the creation of the database).

type blkDesc struct {
	id, parent int
	spends     []int
	bad        bool
}

const opsPerBlock = 8

func parseBlocks(s string) ([]blkDesc, bool) {
	var out []blkDesc
	if s == "-" {
		return out, true
	}
	seen := map[int]bool{0: true}
	for _, t := range strings.Split(s, ",") {
		f := strings.Split(t, ":")
		if len(f) < 3 || len(f) > 4 {
			return nil, false
		}
		id, e1 := strconv.Atoi(f[0])
		par, e2 := strconv.Atoi(f[1])
		if e1 != nil || e2 != nil || id <= 0 || id > 4000 || seen[id] || !seen[par] {
			return nil, false
		}
		seen[id] = true
		d := blkDesc{id: id, parent: par}
		if f[2] != "-" {
			for _, o := range strings.Split(f[2], ".") {
				v, err := strconv.Atoi(o)
				if err != nil || v < 0 {
					return nil, false
				}
				d.spends = append(d.spends, v)
			}
		}
		if len(d.spends) >= opsPerBlock {
			return nil, false
		}
		if len(f) == 4 {
			if f[3] != "x" {
				return nil, false
			}
			d.bad = true
		}
		out = append(out, d)
	}
	return out, true
}

// ---------------------------------------------------------------------------
// Real blocks for the abstract descriptors.

var opTrue = []byte{txscript.OP_TRUE}

// created once and handed to every chain of the process, sequentially and from the
// concurrent instances of `par`
var (
	sharedSig  = txscript.NewSigCache(100)
	sharedHash = txscript.NewHashCache(100)
)

func newParams() *chaincfg.Params {
	p := chaincfg.RegressionNetParams
	p.CoinbaseMaturity = 1
	p.Checkpoints = nil
	for i := range p.Deployments {
		p.Deployments[i].DeploymentStarter = chaincfg.NewMedianTimeDeploymentStarter(time.Time{})
		p.Deployments[i].DeploymentEnder = chaincfg.NewMedianTimeDeploymentEnder(time.Time{})
	}
	return &p
}

type world struct {
	params *chaincfg.Params
	descs  []blkDesc
	byID   map[int]*btcutil.Block
	height map[int]int32
	parent map[int]int
	idOf   map[chainhash.Hash]int
	// abstract outpoint -> real outpoint and its value
	ops map[int]wire.OutPoint
	val map[int]int64
	// serialization of every block as built (the caller's inputs must stay unchanged)
	raw map[int][]byte
}

// inputsChanged counts inputs handed to btcd that no longer have the value they were created with.
func (w *world) inputsChanged() int {
	n := 0
	for id, want := range w.raw {
		var buf bytes.Buffer
		if err := w.byID[id].MsgBlock().Serialize(&buf); err != nil || !bytes.Equal(buf.Bytes(), want) {
			n++
		}
	}
	ref := newParams()
	if w.params.Name != ref.Name || w.params.Net != ref.Net || w.params.CoinbaseMaturity != ref.CoinbaseMaturity ||
		w.params.PowLimitBits != ref.PowLimitBits || *w.params.GenesisHash != *ref.GenesisHash ||
		len(w.params.Checkpoints) != len(ref.Checkpoints) || w.params.SubsidyReductionInterval != ref.SubsidyReductionInterval {
		n++
	}
	return n
}

func solve(h *wire.BlockHeader, limit *chaincfg.Params) {
	target := blockchain.CompactToBig(h.Bits)
	for {
		hash := h.BlockHash()
		if blockchain.HashToBig(&hash).Cmp(target) <= 0 {
			return
		}
		h.Nonce++
	}
}

func buildWorld(descs []blkDesc) *world {
	w := &world{params: newParams(), descs: descs, byID: map[int]*btcutil.Block{}, height: map[int]int32{0: 0},
		parent: map[int]int{}, idOf: map[chainhash.Hash]int{}, ops: map[int]wire.OutPoint{}, val: map[int]int64{}, raw: map[int][]byte{}}
	gen := btcutil.NewBlock(w.params.GenesisBlock)
	w.byID[0] = gen
	w.idOf[*gen.Hash()] = 0
	times := map[int]int64{0: 1600000000}
	for _, d := range descs {
		ph := w.byID[d.parent].Hash()
		height := w.height[d.parent] + 1
		w.height[d.id] = height
		w.parent[d.id] = d.parent
		// different per block so that two branches never share timestamps / median times
		times[d.id] = times[d.parent] + 600 + int64(d.id%7)*13
		// coinbase
		cbScript, _ := txscript.NewScriptBuilder().AddInt64(int64(height)).AddInt64(int64(d.id) + 1000).Script()
		cb := wire.NewMsgTx(1)
		cb.AddTxIn(&wire.TxIn{PreviousOutPoint: *wire.NewOutPoint(&chainhash.Hash{}, wire.MaxPrevOutIndex),
			SignatureScript: cbScript, Sequence: wire.MaxTxInSequenceNum})
		val := blockchain.CalcBlockSubsidy(height, w.params)
		if d.bad {
			val++
		}
		cb.AddTxOut(&wire.TxOut{Value: val, PkScript: opTrue})
		txs := []*wire.MsgTx{cb}
		w.ops[d.id*opsPerBlock] = wire.OutPoint{Hash: cb.TxHash(), Index: 0}
		w.val[d.id*opsPerBlock] = val
		for j, o := range d.spends {
			tx := wire.NewMsgTx(1)
			prev, ok := w.ops[o]
			v := w.val[o] // no fee: the output carries the whole input value
			if !ok {
				v = 1000
				// an outpoint nobody created
				var hsh chainhash.Hash
				binary.LittleEndian.PutUint64(hsh[:], uint64(o)+1)
				hsh[31] = 0xee
				prev = wire.OutPoint{Hash: hsh, Index: 0}
			}
			tx.AddTxIn(&wire.TxIn{PreviousOutPoint: prev, Sequence: wire.MaxTxInSequenceNum})
			tx.AddTxOut(&wire.TxOut{Value: v, PkScript: opTrue})
			tx.LockTime = uint32(d.id*opsPerBlock + j + 1)
			txs = append(txs, tx)
			w.ops[d.id*opsPerBlock+j+1] = wire.OutPoint{Hash: tx.TxHash(), Index: 0}
			w.val[d.id*opsPerBlock+j+1] = v
		}
		utxs := make([]*btcutil.Tx, len(txs))
		for i, t := range txs {
			utxs[i] = btcutil.NewTx(t)
		}
		hdr := wire.BlockHeader{Version: 0x20000000, PrevBlock: *ph,
			MerkleRoot: blockchain.CalcMerkleRoot(utxs, false),
			Timestamp:  time.Unix(times[d.id], 0), Bits: w.params.PowLimitBits}
		solve(&hdr, w.params)
		mb := &wire.MsgBlock{Header: hdr, Transactions: txs}
		blk := btcutil.NewBlock(mb)
		w.byID[d.id] = blk
		w.idOf[*blk.Hash()] = d.id
		var buf bytes.Buffer
		mb.Serialize(&buf)
		w.raw[d.id] = buf.Bytes()
	}
	return w
}

func (w *world) numTx(id int) int {
	for _, d := range w.descs {
		if d.id == id {
			return 1 + len(d.spends)
		}
	}
	return 1
}

func (w *world) heightOf(id int) int {
	h := 0
	for ; id != 0; id = w.parent[id] {
		h++
	}
	return h
}

func (w *world) id(h *chainhash.Hash) int {
	if id, ok := w.idOf[*h]; ok {
		return id
	}
	return -1
}

// ---------------------------------------------------------------------------
// database wrapper: counts committed Updates, calls after(k) after the k-th.

type countDB struct {
	database.DB
	n      int
	before func(k int) // called before the k-th commit is attempted
	after  func(k int)
	// fault injection: the failFlush-th injectable index flush fails (0 = none)
	countFlush bool
	flushSeen  int
	failFlush  int
}

// injectableFlush: the write transaction about to start is a block-index flush whose error btcd
// handles by design (the flush right after dbStoreBlock in maybeAcceptBlock, which is returned to
// the caller before anything else happened, and the flushes whose error connectBestChain ignores) —
// not the ones inside connectBlock / disconnectBlock / initChainState.
func injectableFlush() bool {
	pcs := make([]uintptr, 24)
	n := runtime.Callers(3, pcs)
	fr := runtime.CallersFrames(pcs[:n])
	flush := false
	for {
		f, more := fr.Next()
		switch {
		case strings.HasSuffix(f.Function, "(*blockIndex).flushToDB"):
			flush = true
		case strings.HasSuffix(f.Function, "(*BlockChain).connectBlock"),
			strings.HasSuffix(f.Function, "(*BlockChain).disconnectBlock"),
			strings.HasSuffix(f.Function, "(*BlockChain).initChainState"):
			return false
		}
		if !more {
			break
		}
	}
	return flush
}

var errInjected = errors.New("injected write failure")

func (c *countDB) Update(fn func(tx database.Tx) error) error {
	if c.countFlush && injectableFlush() {
		c.flushSeen++
		if c.flushSeen == c.failFlush {
			// a transient I/O error: this write transaction fails, nothing of it is committed
			return errInjected
		}
	}
	if c.before != nil {
		c.before(c.n + 1)
	}
	err := c.DB.Update(fn)
	if err == nil {
		c.n++
		if c.after != nil {
			c.after(c.n)
		}
	}
	return err
}

type dirSnap map[string]int64

func snapDir(root string) dirSnap {
	s := dirSnap{}
	filepath.Walk(root, func(p string, info os.FileInfo, err error) error {
		if err == nil && !info.IsDir() {
			rel, _ := filepath.Rel(root, p)
			s[rel] = info.Size()
		}
		return nil
	})
	return s
}

func sameSnap(a, b dirSnap) bool {
	if len(a) != len(b) {
		return false
	}
	for k, v := range a {
		if w, ok := b[k]; !ok || w != v {
			return false
		}
	}
	return true
}

func copyFile(src, dst string) error {
	in, err := os.Open(src)
	if err != nil {
		return err
	}
	defer in.Close()
	os.MkdirAll(filepath.Dir(dst), 0o755)
	out, err := os.Create(dst)
	if err != nil {
		return err
	}
	_, err = io.Copy(out, in)
	out.Close()
	return err
}

// copyTree copies a (possibly live) database directory; it repeats until the
// set of files and their sizes was the same before and after the copy, so
// that a background leveldb compaction cannot tear the image.
func copyTree(src, dst string) {
	for try := 0; try < 20; try++ {
		os.RemoveAll(dst)
		before := snapDir(src)
		ok := true
		for rel, size := range before {
			if rel == "metadata/LOCK" {
				continue
			}
			if err := copyFile(filepath.Join(src, rel), filepath.Join(dst, rel)); err != nil {
				ok = false
				break
			}
			if fi, err := os.Stat(filepath.Join(dst, rel)); err != nil || fi.Size() < size {
				ok = false
				break
			}
		}
		if ok && sameSnap(before, snapDir(src)) {
			// cut files that grew while copying back to the recorded size
			for rel, size := range before {
				if rel == "metadata/LOCK" {
					continue
				}
				os.Truncate(filepath.Join(dst, rel), size)
			}
			return
		}
		time.Sleep(2 * time.Millisecond)
	}
	panic("copyTree: directory never quiescent")
}

// ---------------------------------------------------------------------------

type cfg struct {
	cache    int // 0 | 1 (first life)
	cache2   int // second life (img2) / reopen of a first-level image
	cache3   int // reopen of a second-level image
	prune    uint64
	fileSize uint32
}

// life returns the configuration of the i-th process life (1-based).
func (c cfg) life(i int) cfg {
	r := c
	switch i {
	case 2:
		r.cache = c.cache2
	case 3:
		r.cache = c.cache3
	}
	return r
}

// cache token: a | a>b | a>b>c  (each 0|1): utxo cache size of the first life,
// of the second life, of the third; missing ones repeat the last given.
func parseCfg(c, p string) (cfg, bool) {
	var r cfg
	parts := strings.Split(c, ">")
	if len(parts) < 1 || len(parts) > 3 {
		return r, false
	}
	vals := []int{}
	for _, x := range parts {
		switch x {
		case "0":
			vals = append(vals, 0)
		case "1":
			vals = append(vals, 1)
		default:
			return r, false
		}
	}
	for len(vals) < 3 {
		vals = append(vals, vals[len(vals)-1])
	}
	r.cache, r.cache2, r.cache3 = vals[0], vals[1], vals[2]
	if p != "0" {
		f := strings.Split(p, ":")
		if len(f) != 2 {
			return r, false
		}
		a, e1 := strconv.ParseUint(f[0], 10, 32)
		b, e2 := strconv.ParseUint(f[1], 10, 32)
		if e1 != nil || e2 != nil || b == 0 || a < b {
			return r, false
		}
		r.prune, r.fileSize = a, uint32(b)
	}
	return r, true
}

// syncTracker follows every block file the store writes through: how long it is
// and how much of it has been fsynced.  After a crash everything that was not
// fsynced may be gone; the `sync` crash images cut the block files back to
// their last-synced length.
type syncTracker struct {
	mu     sync.Mutex
	dir    string
	size   map[uint32]int64
	synced map[uint32]int64
}

var (
	trackMu  sync.Mutex
	trackers = map[database.DB]*syncTracker{}
)

type trackedFile struct {
	ffldb.VerifC04File
	n uint32
	t *syncTracker
}

func (f *trackedFile) WriteAt(p []byte, off int64) (int, error) {
	n, err := f.VerifC04File.WriteAt(p, off)
	f.t.mu.Lock()
	if end := off + int64(n); end > f.t.size[f.n] {
		f.t.size[f.n] = end
	}
	f.t.mu.Unlock()
	return n, err
}

func (f *trackedFile) Truncate(size int64) error {
	err := f.VerifC04File.Truncate(size)
	f.t.mu.Lock()
	f.t.size[f.n] = size
	if f.t.synced[f.n] > size {
		f.t.synced[f.n] = size
	}
	f.t.mu.Unlock()
	return err
}

func (f *trackedFile) Sync() error {
	err := f.VerifC04File.Sync()
	f.t.mu.Lock()
	f.t.synced[f.n] = f.t.size[f.n]
	f.t.mu.Unlock()
	return err
}

func (t *syncTracker) snapshot() map[uint32]int64 {
	t.mu.Lock()
	defer t.mu.Unlock()
	m := map[uint32]int64{}
	for k, v := range t.synced {
		m[k] = v
	}
	return m
}

func blockFileName(n uint32) string { return fmt.Sprintf("%09d.fdb", n) }

func trackerOf(db database.DB) *syncTracker {
	trackMu.Lock()
	defer trackMu.Unlock()
	return trackers[db]
}

func openDB(dir string, c cfg, create bool) (database.DB, error) {
	db, err := openDBRaw(dir, c, create)
	if err != nil {
		return nil, err
	}
	t := &syncTracker{dir: dir, size: map[uint32]int64{}, synced: map[uint32]int64{}}
	ffldb.VerifC04WrapWriteFiles(db, func(n uint32, f ffldb.VerifC04File) ffldb.VerifC04File {
		t.mu.Lock()
		if _, ok := t.size[n]; !ok {
			// what is in the file when it is first opened was there before this life
			var sz int64
			if fi, err := os.Stat(filepath.Join(dir, blockFileName(n))); err == nil {
				sz = fi.Size()
			}
			t.size[n], t.synced[n] = sz, sz
		}
		t.mu.Unlock()
		return &trackedFile{f, n, t}
	})
	trackMu.Lock()
	trackers[db] = t
	trackMu.Unlock()
	return db, nil
}

func closeDB(db database.DB) {
	trackMu.Lock()
	delete(trackers, db)
	trackMu.Unlock()
	db.Close()
}

func openDBRaw(dir string, c cfg, create bool) (database.DB, error) {
	var db database.DB
	var err error
	if create {
		db, err = database.Create("ffldb", dir, wire.TestNet)
	} else {
		db, err = database.Open("ffldb", dir, wire.TestNet)
	}
	if err != nil {
		return nil, err
	}
	ffldb.VerifC04FlushEveryCommit(db)
	if c.fileSize != 0 {
		ffldb.VerifC04SetMaxBlockFileSize(db, c.fileSize)
	}
	return db, nil
}

func (w *world) newChain(db database.DB, c cfg) (*blockchain.BlockChain, error) {
	max := uint64(0)
	if c.cache == 1 {
		max = 4 << 20
	}
	return blockchain.New(&blockchain.Config{
		DB:               db,
		ChainParams:      w.params, // one object per world, reused by every life (inputs are values)
		TimeSource:       blockchain.NewMedianTime(),
		SigCache:         sharedSig,
		HashCache:        sharedHash,
		UtxoCacheMaxSize: max,
		Prune:            c.prune,
	})
}

// utxoList: sorted abstract outpoints the chain reports unspent.
func scribble(mb *wire.MsgBlock) {
	for _, tx := range mb.Transactions {
		for _, o := range tx.TxOut {
			for i := range o.PkScript {
				o.PkScript[i] = 0xee
			}
		}
		for _, in := range tx.TxIn {
			for i := range in.SignatureScript {
				in.SignatureScript[i] = 0xee
			}
		}
	}
}

func (w *world) utxoList(ch *blockchain.BlockChain) string {
	ids := make([]int, 0, len(w.ops))
	for o := range w.ops {
		ids = append(ids, o)
	}
	sort.Ints(ids)
	var out []string
	for _, o := range ids {
		e, err := ch.FetchUtxoEntry(w.ops[o])
		if err != nil {
			return "err"
		}
		if e != nil && !e.IsSpent() {
			if !bytes.Equal(e.PkScript(), opTrue) {
				return "err-script"
			}
			out = append(out, strconv.Itoa(o))
		}
	}
	if len(out) == 0 {
		return "-"
	}
	return strings.Join(out, ".")
}

var (
	chainStateKey = []byte("chainstate")
	markerKey     = []byte("utxostateconsistency")
	blockIdxName  = []byte("blockheaderidx")
	utxoSetName   = []byte("utxosetv2")
	journalName   = []byte("spendjournal")
	heightIdxName = []byte("heightidx")
)

// persisted summarises the durable state through a read-only transaction:
// best=<id> marker=<id|-> rows=<id/status…> stored=<ids> journal=<ids> hidx=<ids by height>
func (w *world) persisted(db database.DB) string {
	var s string
	db.View(func(tx database.Tx) error {
		meta := tx.Metadata()
		best, marker := "-", "-"
		if v := meta.Get(chainStateKey); len(v) >= 32 {
			var h chainhash.Hash
			copy(h[:], v[:32])
			best = strconv.Itoa(w.id(&h))
		}
		if v := meta.Get(markerKey); len(v) == 32 {
			var h chainhash.Hash
			copy(h[:], v)
			marker = strconv.Itoa(w.id(&h))
		}
		var rows []string
		if b := meta.Bucket(blockIdxName); b != nil {
			type row struct {
				id, st int
			}
			var rs []row
			b.ForEach(func(k, v []byte) error {
				var h chainhash.Hash
				copy(h[:], k[4:])
				rs = append(rs, row{w.id(&h), int(v[len(v)-1])})
				return nil
			})
			sort.Slice(rs, func(i, j int) bool { return rs[i].id < rs[j].id })
			for _, r := range rs {
				rows = append(rows, fmt.Sprintf("%d/%d", r.id, r.st))
			}
		}
		var stored, journal []string
		ids := []int{0}
		for _, d := range w.descs {
			ids = append(ids, d.id)
		}
		sort.Ints(ids)
		jb := meta.Bucket(journalName)
		for _, id := range ids {
			h := w.byID[id].Hash()
			if ok, _ := tx.HasBlock(h); ok {
				stored = append(stored, strconv.Itoa(id))
			}
			if jb != nil && jb.Get(h[:]) != nil {
				journal = append(journal, strconv.Itoa(id))
			}
		}
		var hidx []string
		if b := meta.Bucket(heightIdxName); b != nil {
			type hr struct {
				h  uint32
				id int
			}
			var hs []hr
			b.ForEach(func(k, v []byte) error {
				var h chainhash.Hash
				copy(h[:], v)
				hs = append(hs, hr{binary.LittleEndian.Uint32(k), w.id(&h)})
				return nil
			})
			sort.Slice(hs, func(i, j int) bool { return hs[i].h < hs[j].h })
			for _, x := range hs {
				hidx = append(hidx, strconv.Itoa(x.id))
			}
		}
		nutxo := 0
		if b := meta.Bucket(utxoSetName); b != nil {
			b.ForEach(func(k, v []byte) error { nutxo++; return nil })
		}
		s = fmt.Sprintf("best=%s marker=%s rows=%s stored=%s journal=%s hidx=%s nutxo=%d", best, marker,
			joinOr(rows), joinOr(stored), joinOr(journal), joinOr(hidx), nutxo)
		return nil
	})
	return s
}

func joinOr(xs []string) string {
	if len(xs) == 0 {
		return "-"
	}
	return strings.Join(xs, ".")
}

// ---------------------------------------------------------------------------
// One uninterrupted run of a workload with an image after every commit.

// A life is one process run on a database directory: blockchain.New, then a
// list of ops, with a crash image after every committed db.Update.
type life struct {
	root   string   // directory holding live/ and img<k>/
	w      *world
	c      cfg
	ops    []string
	n      int      // number of commits
	pers   []string // pers[k], k = 1..n
	window []string // window[k]: "-" | "old:new"
	ackEnd map[int]int // block id -> commit count when its ProcessBlock returned without error
	res    []string // per op result
	finTip int
	bad    string
	// snapshots handed out earlier whose contents changed afterwards (results are values)
	snapChanged int
	nInject     int                // index flushes of this life at which a write failure may be injected
	synced      []map[uint32]int64 // synced[k]: fsynced length of every block file written in this life, after commit k
	bestAt      []int        // bestAt[k]: persisted best block after commit k (property level: "made active")
	connected   map[int]bool // blocks this life connected at some point
}

type run struct {
	key  string
	root string
	w    *world
	l1   *life
	lz   *life // the same workload with a lazily flushed metadata cache (op `lazy`)
	fl   map[int]*life // the same workload with the f-th injectable index flush failing (op `flt`)
	// second lives, by first-level crash index
	l2 map[int]*life
}

var cached *run

var purged bool

// tmpBase prefers a memory file system: ffldb and leveldb fsync on every
// commit, which dominates the run time on a busy disk.
func tmpBase() string {
	if fi, err := os.Stat("/dev/shm"); err == nil && fi.IsDir() {
		if f, err := os.CreateTemp("/dev/shm", "c04probe"); err == nil {
			f.Close()
			os.Remove(f.Name())
			return "/dev/shm"
		}
	}
	return os.TempDir()
}

// purgeStale removes image directories left behind by earlier processes (the
// last workload of a process is still cached when it exits).
func purgeStale() {
	if purged {
		return
	}
	purged = true
	ents, _ := os.ReadDir(tmpBase())
	for _, e := range ents {
		if strings.HasPrefix(e.Name(), "c04-") {
			if fi, err := e.Info(); err == nil && time.Since(fi.ModTime()) > 20*time.Minute {
				os.RemoveAll(filepath.Join(tmpBase(), e.Name()))
			}
		}
	}
}

func (r *run) close() {
	if r != nil && r.root != "" {
		os.RemoveAll(r.root)
	}
}

func errClass(err error) string {
	if err == nil {
		return "ok"
	}
	if _, ok := err.(blockchain.RuleError); ok {
		return "rej"
	}
	return "err"
}

func (l *life) img(k int) string { return filepath.Join(l.root, fmt.Sprintf("img%d", k)) }

// runLife starts a process on a copy of startDir ("" = empty directory) and
// performs ops.
func runLife(root string, startDir string, w *world, c cfg, ops []string) *life {
	return runLifeMode(root, startDir, w, c, ops, false)
}

// lazyPeriod: in a lazy life only every lazyPeriod-th commit is written through to leveldb (and
// flushes what the metadata cache holds); the others stay in the cache, i.e. are lost by a crash.
const lazyPeriod = 7 // longer than one delivery (5 commits): a block can sit unsynced in a file while the next one rolls over

func runLifeMode(root string, startDir string, w *world, c cfg, ops []string, lazy bool) *life {
	return runLifeFault(root, startDir, w, c, ops, lazy, 0)
}

func runLifeFault(root string, startDir string, w *world, c cfg, ops []string, lazy bool, failFlush int) *life {
	os.MkdirAll(root, 0o755)
	l := &life{root: root, w: w, c: c, ops: ops, ackEnd: map[int]int{}}
	live := filepath.Join(root, "live")
	var raw database.DB
	var err error
	if startDir == "" {
		raw, err = openDB(live, c, true)
	} else {
		copyTree(startDir, live)
		raw, err = openDB(live, c, false)
	}
	if err != nil {
		l.bad = "dberr"
		return l
	}
	defer closeDB(raw)
	l.pers = []string{""}
	l.window = []string{"-"}
	cdb := &countDB{DB: raw, countFlush: true, failFlush: failFlush}
	l.bestAt = []int{0}
	l.synced = []map[uint32]int64{nil}
	l.connected = map[int]bool{}
	tr := trackerOf(raw)
	if lazy {
		cdb.before = func(k int) { ffldb.VerifC04SetWriteThrough(raw, k%lazyPeriod == 0) }
	}
	cdb.after = func(k int) {
		copyTree(live, l.img(k))
		l.synced = append(l.synced, tr.snapshot())
		if lazy {
			// power loss: what was never fsynced is gone
			for n, sz := range l.synced[k] {
				p := filepath.Join(l.img(k), blockFileName(n))
				if fi, err := os.Stat(p); err == nil && fi.Size() > sz {
					os.Truncate(p, sz)
				}
			}
		}
		ps := w.persisted(raw)
		l.pers = append(l.pers, ps)
		l.window = append(l.window, "-")
		b, _ := strconv.Atoi(fields(ps)["best"])
		l.bestAt = append(l.bestAt, b)
	}
	ch, err := w.newChain(cdb, c)
	if err != nil {
		l.bad = "new:" + errClass(err)
		return l
	}
	type note struct {
		at int
	}
	var notes []note
	ch.Subscribe(func(n *blockchain.Notification) {
		switch n.Type {
		case blockchain.NTBlockConnected, blockchain.NTBlockDisconnected:
			notes = append(notes, note{cdb.n})
			if n.Type == blockchain.NTBlockConnected {
				l.connected[w.id(n.Data.(*btcutil.Block).Hash())] = true
			}
		}
	})
	type snap struct {
		p *blockchain.BestState
		v blockchain.BestState
	}
	snaps := []snap{{ch.BestSnapshot(), *ch.BestSnapshot()}}
	for _, op := range ops {
		if p := ch.BestSnapshot(); p != nil {
			snaps = append(snaps, snap{p, *p})
		}
		switch {
		case op == "f":
			l.res = append(l.res, errClass(ch.FlushUtxoCache(blockchain.FlushRequired)))
		case op == "i":
			l.res = append(l.res, errClass(ch.FlushUtxoCache(blockchain.FlushIfNeeded)))
		case op == "p":
			l.res = append(l.res, errClass(ch.FlushUtxoCache(blockchain.FlushPeriodic)))
		case strings.HasPrefix(op, "h"):
			id, _ := strconv.Atoi(op[1:])
			hdr := w.byID[id].MsgBlock().Header
			_, err := ch.ProcessBlockHeader(&hdr, blockchain.BFNone, false)
			l.res = append(l.res, errClass(err))
		case strings.HasPrefix(op, "d"):
			id, _ := strconv.Atoi(op[1:])
			start := cdb.n
			old := w.id(&ch.BestSnapshot().Hash)
			notes = notes[:0]
			// a fresh copy so that cached heights of an earlier run do not leak
			cp := w.byID[id].MsgBlock().Copy()
			nb := btcutil.NewBlock(cp)
			main, orphan, err := ch.ProcessBlock(nb, blockchain.BFNone)
			if !orphan {
				// the caller reuses its buffers: nothing the node keeps may alias them
				scribble(cp)
			}
			res := errClass(err)
			if err == nil {
				res = fmt.Sprintf("ok%s%s", b01(main), b01(orphan))
			}
			l.res = append(l.res, res)
			now := w.id(&ch.BestSnapshot().Hash)
			if len(notes) > 0 && now != old {
				// activation window: after the block's index row (second commit
				// of the delivery) up to the commit before the last connect.
				last := notes[len(notes)-1].at // commits done when the last connect was notified
				for k := start + 2; k < last && k < len(l.window); k++ {
					l.window[k] = fmt.Sprintf("%d:%d", old, now)
				}
			}
			// storage acknowledged: ProcessBlock returned without error
			if err == nil && !orphan {
				if _, dup := l.ackEnd[id]; !dup {
					l.ackEnd[id] = cdb.n
				}
			}
		}
	}
	l.n = cdb.n
	l.nInject = cdb.flushSeen
	l.finTip = w.id(&ch.BestSnapshot().Hash)
	for _, sn := range snaps {
		if *sn.p != sn.v {
			l.snapChanged++
		}
	}
	l.snapChanged += w.inputsChanged()
	return l
}

func (l *life) acked(k int) []int {
	var out []int
	for id, e := range l.ackEnd {
		if e <= k {
			out = append(out, id)
		}
	}
	sort.Ints(out)
	return out
}

func deliveries(ops []string) []string {
	var out []string
	for _, op := range ops {
		if strings.HasPrefix(op, "d") {
			out = append(out, op)
		}
	}
	return out
}

func b01(b bool) string {
	if b {
		return "1"
	}
	return "0"
}

// reopen an image: r=<ok|err>,<tip>,<chain>,<utxo>,<missing> and the final
// state after feeding every delivery of the workload again.
// pctx is what the property-level verdicts of a reopened image are judged
// against; all of it comes from the real run itself (not from the model) and
// none of it depends on how the code groups its writes into transactions.
type pctx struct {
	prev    map[int]bool // tips that were persisted as best state up to the crash
	conn    map[int]bool // blocks the uninterrupted run connected at some point
	specFin int          // final tip of the uninterrupted run
}

// verdict of one reopened image at the level of the property statement.
type verdict struct {
	reopened, tipActive, utxoFold, indexKnows, apis, converged bool
	lost      bool // a known, once-connected block at least as high as the reopened tip is off its chain
	prunedTip bool // the persisted best block is not stored (F-C04-c)
}

func (v verdict) propertyHolds() bool {
	return v.reopened && v.tipActive && v.utxoFold && v.indexKnows && v.apis && v.converged
}

var lastVerdict = map[string]verdict{}

// foldUtxo is the Spec's fold of the chain ending in tip over the abstract blocks.
func (w *world) foldUtxo(tip int) (string, int) {
	var chain []int
	for id := tip; id != 0; id = w.parent[id] {
		chain = append([]int{id}, chain...)
	}
	byID := map[int]blkDesc{}
	for _, d := range w.descs {
		byID[d.id] = d
	}
	u := map[int]bool{}
	total := 1
	for _, b := range chain {
		d := byID[b]
		total += 1 + len(d.spends)
		for j, o := range d.spends {
			delete(u, o)
			u[b*opsPerBlock+j+1] = true
		}
		u[b*opsPerBlock] = true
	}
	var xs []int
	for o := range u {
		xs = append(xs, o)
	}
	sort.Ints(xs)
	var ss []string
	for _, o := range xs {
		ss = append(ss, strconv.Itoa(o))
	}
	return joinOr(ss), total
}

func (w *world) pathStr(tip int) string {
	var chain []string
	for id := tip; id != 0; id = w.parent[id] {
		chain = append([]string{strconv.Itoa(id)}, chain...)
	}
	return strings.Join(append([]string{"0"}, chain...), ".")
}

func reopen(root, imgDir string, w *world, c cfg, acked []int, ops []string) string {
	s, _ := reopenV(root, imgDir, w, c, acked, ops, pctx{})
	return s
}

func reopenV(root, imgDir string, w *world, c cfg, acked []int, ops []string, px pctx) (string, verdict) {
	var v verdict
	work := filepath.Join(root, "work")
	os.RemoveAll(work)
	copyTree(imgDir, work)
	defer os.RemoveAll(work)
	raw, err := openDB(work, c, false)
	if err != nil {
		return "r=dberr", v
	}
	defer closeDB(raw)
	ch, err := w.newChain(raw, c)
	if err != nil {
		return "r=err:" + errClass(err), v
	}
	v.reopened = true
	tip := w.id(&ch.BestSnapshot().Hash)
	utxo := w.utxoList(ch)
	missing := 0
	for _, id := range acked {
		if ok, err := ch.HaveBlock(w.byID[id].Hash()); err != nil || !ok {
			missing++
		}
	}
	// main chain as the reopened node sees it
	var chain []string
	for h := int32(0); h <= ch.BestSnapshot().Height; h++ {
		hh, err := ch.BlockHashByHeight(h)
		if err != nil {
			chain = append(chain, "?")
			continue
		}
		chain = append(chain, strconv.Itoa(w.id(hh)))
	}
	// secondary read APIs must agree with the primary ones
	var mc []string
	ids := []int{0}
	for _, d := range w.descs {
		ids = append(ids, d.id)
	}
	sort.Ints(ids)
	for _, id := range ids {
		if ch.MainChainHasBlock(w.byID[id].Hash()) {
			mc = append(mc, strconv.Itoa(id))
		}
	}
	knownAtReopen := map[int]bool{}
	for _, id := range ids {
		if ok, _ := ch.HaveBlock(w.byID[id].Hash()); ok {
			knownAtReopen[id] = true
		}
	}
	bb, sj := 0, 0
	for h := int32(0); h <= ch.BestSnapshot().Height; h++ {
		hh, err := ch.BlockHashByHeight(h)
		if err != nil {
			continue
		}
		blk, err := ch.BlockByHash(hh)
		hgt, err2 := ch.BlockHeightByHash(hh)
		if err != nil || err2 != nil || hgt != h || *blk.Hash() != *hh {
			continue
		}
		bb++
		if h == 0 {
			continue
		}
		want := 0
		for _, tx := range blk.MsgBlock().Transactions[1:] {
			want += len(tx.TxIn)
		}
		if st, err := ch.FetchSpendJournal(blk); err == nil && len(st) == want {
			sj++
		}
	}
	// every block the store says it has must read back byte for byte
	unreadable := 0
	raw.View(func(tx database.Tx) error {
		for _, id := range ids {
			h := w.byID[id].Hash()
			if ok, _ := tx.HasBlock(h); ok {
				b, err := tx.FetchBlock(h)
				if want, ok2 := w.raw[id]; err != nil || (ok2 && !bytes.Equal(b, want)) {
					unreadable++
				}
			}
		}
		return nil
	})
	// heights and coinbase flags of the unspent entries (entries differ per block and per transaction)
	hsum, ncb := 0, 0
	if utxo != "-" && utxo != "err" {
		for _, x := range strings.Split(utxo, ".") {
			o, _ := strconv.Atoi(x)
			if e, err := ch.FetchUtxoEntry(w.ops[o]); err == nil && e != nil {
				hsum += int(e.BlockHeight())
				if e.IsCoinBase() {
					ncb++
				}
			}
		}
	}
	bs := ch.BestSnapshot()
	out := fmt.Sprintf("r=ok,%d,%s,%s,%d ur=%d uh=%d/%d mc=%s bb=%d sj=%d bs=%d/%d/%d", tip, strings.Join(chain, "."), utxo, missing, unreadable, hsum, ncb, joinOr(mc), bb, sj,
		bs.Height, bs.NumTxns, bs.TotalTxns)
	for _, op := range deliveries(ops) {
		id, _ := strconv.Atoi(op[1:])
		ch.ProcessBlock(btcutil.NewBlock(w.byID[id].MsgBlock()), blockchain.BFNone)
	}
	ft := w.id(&ch.BestSnapshot().Hash)
	futxo := w.utxoList(ch)
	out += fmt.Sprintf(" fin=%d;%d;%s", ft, ft, futxo)
	// property-level verdicts
	v.tipActive = px.prev[tip]
	wantU, wantTotal := w.foldUtxo(tip)
	wantH, wantCB := 0, 0
	if wantU != "-" {
		for _, x := range strings.Split(wantU, ".") {
			o, _ := strconv.Atoi(x)
			wantH += w.heightOf(o / opsPerBlock)
			if o%opsPerBlock == 0 {
				wantCB++
			}
		}
	}
	v.utxoFold = utxo == wantU && hsum == wantH && ncb == wantCB
	v.indexKnows = missing == 0
	onChain := map[string]bool{}
	for _, x := range strings.Split(w.pathStr(tip), ".") {
		onChain[x] = true
	}
	mcOK := len(mc) == len(onChain)
	for _, x := range mc {
		mcOK = mcOK && onChain[x]
	}
	v.apis = strings.Join(chain, ".") == w.pathStr(tip) && mcOK && int(bs.Height) == w.heightOf(tip) &&
		unreadable == 0 && int(bs.TotalTxns) == wantTotal && int(bs.NumTxns) == w.numTx(tip) && sj <= bb && (c.prune != 0 || sj == bb-1)
	fu, _ := w.foldUtxo(ft)
	v.converged = ft == px.specFin && futxo == fu
	for _, id := range ids {
		if id != 0 && px.conn[id] && !onChain[strconv.Itoa(id)] && w.heightOf(id) >= w.heightOf(tip) {
			if ok, _ := ch.HaveBlock(w.byID[id].Hash()); ok && knownAtReopen[id] {
				v.lost = true
			}
		}
	}
	return out, v
}

// ---------------------------------------------------------------------------
// Membership judgement.  The property admits a SET of outcomes for a crash image
// (any previously-active tip with its fold, …); the Lean model predicts ONE
// (it mirrors today's grouping of writes into transactions, and a crash image
// is addressed by the ordinal of a commit).  A rewrite of btcd that splits or
// merges db.Update transactions changes the commit list without touching the
// property.  So: the real observation is judged at the level of the property
// (verdict, computed from the real run only); if it satisfies the property but
// differs from the model's exact prediction the case is counted as
// `model-diverged` and is not a disagreement; only a failed property-level
// verdict is reported (and then classified as known finding or violation).

var (
	drvIn       *bufio.Writer
	drvOut      *bufio.Scanner
	drvBad      bool
	nDiverged   int
	nJudged     int
)

func predict(line string) (string, bool) {
	if drvBad {
		return "", false
	}
	if drvIn == nil {
		path := os.Getenv("VERIF_BVDRV")
		if path == "" {
			dir := os.Getenv("VERIF_DIR")
			if dir == "" {
				dir = "/verif"
			}
			path = filepath.Join(dir, "lean/.lake/build/bin/drv_c04")
		}
		cmd := exec.Command(path)
		in, e1 := cmd.StdinPipe()
		out, e2 := cmd.StdoutPipe()
		if e1 != nil || e2 != nil || cmd.Start() != nil {
			drvBad = true
			return "", false
		}
		drvIn = bufio.NewWriter(in)
		drvOut = bufio.NewScanner(out)
		drvOut.Buffer(make([]byte, 1<<20), 1<<26)
	}
	drvIn.WriteString(line + "\n")
	if drvIn.Flush() != nil || !drvOut.Scan() {
		drvBad = true
		return "", false
	}
	return drvOut.Text(), true
}

func judge(line, real string, v verdict) string {
	lastVerdict[line] = v
	nJudged++
	if !v.propertyHolds() {
		return real
	}
	pred, ok := predict(line)
	if !ok || pred == real {
		return real
	}
	nDiverged++
	if nDiverged <= 5 || os.Getenv("VERIF_C04_ECHO") != "" {
		fmt.Fprintf(os.Stderr, "C04 model-diverged (property holds, exact model prediction differs; %d of %d so far): %s\n  real =%s\n  model=%s\n",
			nDiverged, nJudged, trunc(line, 160), trunc(real, 300), trunc(pred, 300))
	}
	return pred
}

func trunc(s string, n int) string {
	if len(s) <= n {
		return s
	}
	return s[:n] + "…"
}

func prevSet(xs ...[]int) map[int]bool {
	m := map[int]bool{0: true}
	for _, x := range xs {
		for _, b := range x {
			m[b] = true
		}
	}
	return m
}

func prunedTip(c cfg, pers string) bool {
	if c.prune == 0 {
		return false
	}
	f := fields(pers)
	for _, id := range strings.Split(f["stored"], ".") {
		if id == f["best"] {
			return false
		}
	}
	return f["best"] != ""
}

func (p P) Exec(line string) string {
	t0 := time.Now()
	if hung {
		return "timeout"
	}
	// watchdog: a mutated tree may block (lock order, endless replay); the case then answers "timeout"
	res := make(chan string, 1)
	go func() {
		defer func() {
			if r := recover(); r != nil {
				res <- "panic"
			}
		}()
		res <- p.exec(line)
	}()
	var out string
	select {
	case out = <-res:
	case <-time.After(240 * time.Second):
		hung = true
		out = "timeout"
	}
	if os.Getenv("VERIF_C04_ECHO") != "" {
		fmt.Fprintf(os.Stderr, "%s\n  => %s (%v)\n", line, out, time.Since(t0))
	}
	return out
}

func getRun(t []string) (*run, cfg, []string, bool) {
	c, ok := parseCfg(t[2], t[3])
	if !ok {
		return nil, c, nil, false
	}
	descs, ok := parseBlocks(t[4])
	if !ok {
		return nil, c, nil, false
	}
	ops, ok := parseOps(t[5], descs)
	if !ok {
		return nil, c, nil, false
	}
	key := strings.Join(t[2:6], " ")
	if cached == nil || cached.key != key {
		cached.close()
		purgeStale()
		root, err := os.MkdirTemp(tmpBase(), "c04-")
		if err != nil {
			panic(err)
		}
		w := buildWorld(descs)
		cached = &run{key: key, root: root, w: w, l2: map[int]*life{}}
		cached.l1 = runLife(filepath.Join(root, "l1"), "", w, c, ops)
	}
	return cached, c, ops, true
}

func (P) exec(line string) string {
	t := strings.Fields(line)
	if len(t) < 2 || t[0] != "C04" {
		return "bad-op"
	}
	switch t[1] {
	case "img", "torn", "sync":
		if len(t) != 7 {
			return "malformed"
		}
		k, err := strconv.Atoi(t[6])
		if err != nil || k < 1 {
			return "malformed"
		}
		r, c, ops, ok := getRun(t)
		if !ok {
			return "malformed"
		}
		l := r.l1
		if l.bad != "" {
			return l.bad
		}
		// a crash index beyond the real commit list addresses the last image: how
		// many transactions the code makes is not part of the property
		over := k > l.n
		if over {
			k = l.n
		}
		img := l.img(k)
		if t[1] == "sync" {
			// everything that was not fsynced is lost: the block files are cut back to
			// their last-synced length
			img = filepath.Join(r.root, "sync")
			os.RemoveAll(img)
			copyTree(l.img(k), img)
			for n, sz := range l.synced[k] {
				p := filepath.Join(img, blockFileName(n))
				if fi, err := os.Stat(p); err == nil && fi.Size() > sz {
					os.Truncate(p, sz)
				}
			}
		}
		if t[1] == "torn" {
			// a partially written next block after the write cursor, no metadata
			img = filepath.Join(r.root, "torn")
			os.RemoveAll(img)
			copyTree(l.img(k), img)
			tear(img)
		}
		rs, v := reopenV(r.root, img, r.w, c.life(2), l.acked(k), ops,
			pctx{prev: prevSet(l.bestAt[:k+1]), conn: l.connected, specFin: l.finTip})
		v.prunedTip = !v.reopened && prunedTip(c, l.pers[k])
		v.apis = v.apis && l.snapChanged == 0
		real := fmt.Sprintf("n=%d res=%s sv=%d %s w=%s %s", l.n, strings.Join(l.res, "."), l.snapChanged, l.pers[k], l.window[k], rs)
		if over && v.propertyHolds() {
			real = fmt.Sprintf("n=%d out-of-range", l.n)
		}
		return judge(strings.Join(t, " "), real, v)
	case "flt":
		// A transient write failure: the f-th index flush whose error btcd handles by design fails
		// (nothing of that transaction is committed), the workload goes on, the process dies after
		// commit k.  No exact model of the error paths: judged at the level of the property only;
		// the Spec's answer is "flt=ok".
		if len(t) != 8 {
			return "malformed"
		}
		f, err1 := strconv.Atoi(t[6])
		k, err2 := strconv.Atoi(t[7])
		if err1 != nil || err2 != nil || f < 1 || k < 1 {
			return "malformed"
		}
		r, c, ops, ok := getRun(append([]string{"C04", "img"}, t[2:6]...))
		if !ok {
			return "malformed"
		}
		if r.l1.bad != "" {
			return r.l1.bad
		}
		if r.fl == nil {
			r.fl = map[int]*life{}
		}
		l := r.fl[f]
		if l == nil {
			for ff, old := range r.fl {
				os.RemoveAll(old.root)
				delete(r.fl, ff)
			}
			l = runLifeFault(filepath.Join(r.root, fmt.Sprintf("fl-%d", f)), "", r.w, c, ops, false, f)
			r.fl[f] = l
		}
		if l.bad != "" {
			return "flt:" + l.bad
		}
		if k > l.n {
			k = l.n
		}
		conn := map[int]bool{}
		for id := range r.l1.connected {
			conn[id] = true
		}
		for id := range l.connected {
			conn[id] = true
		}
		rs, v := reopenV(r.root, l.img(k), r.w, c.life(2), l.acked(k), ops,
			pctx{prev: prevSet(l.bestAt[:k+1]), conn: conn, specFin: r.l1.finTip})
		v.prunedTip = !v.reopened && prunedTip(c, l.pers[k])
		line := strings.Join(t, " ")
		lastVerdict[line] = v
		if v.propertyHolds() {
			return "flt=ok"
		}
		return fmt.Sprintf("flt=FAILED n=%d res=%s %s %s", l.n, strings.Join(l.res, "."), l.pers[k], rs)
	case "lazy":
		// The metadata cache is NOT written through: only every lazyPeriod-th commit reaches
		// leveldb; the image after commit k is the directory as a power loss leaves it (leveldb
		// as of the last flush, block files cut back to their last-fsynced length).  It must be
		// the image of the durable prefix k' = k - k mod lazyPeriod.
		if len(t) != 7 {
			return "malformed"
		}
		k, err := strconv.Atoi(t[6])
		if err != nil || k < lazyPeriod {
			return "malformed"
		}
		r, c, ops, ok := getRun(append([]string{"C04", "img"}, t[2:]...))
		if !ok {
			return "malformed"
		}
		if r.lz == nil {
			r.lz = runLifeMode(filepath.Join(r.root, "lz"), "", r.w, c, ops, true)
		}
		l := r.lz
		if l.bad != "" {
			return l.bad
		}
		over := k > l.n
		if over {
			k = l.n
		}
		tmp := filepath.Join(r.root, "lzpers")
		os.RemoveAll(tmp)
		copyTree(l.img(k), tmp)
		pers := "best=? image-unreadable"
		if raw, err := openDBRaw(tmp, c, false); err == nil {
			pers = r.w.persisted(raw)
			raw.Close()
		}
		os.RemoveAll(tmp)
		// the durable prefix: the latest commit whose (live) persisted summary is what the image
		// holds — found from the image, not from a rule about when ffldb flushes
		kd := -1
		for j := k; j >= 1; j-- {
			if l.pers[j] == pers {
				kd = j
				break
			}
		}
		if kd < 0 {
			// not the image of any prefix
			rs, v := reopenV(r.root, l.img(k), r.w, c.life(2), nil, ops, pctx{prev: map[int]bool{}, conn: l.connected, specFin: l.finTip})
			v.tipActive = false
			return judge(strings.Join(t, " "), fmt.Sprintf("n=%d res=%s sv=%d %s w=? no-prefix %s", l.n, strings.Join(l.res, "."), l.snapChanged, pers, rs), v)
		}
		rs, v := reopenV(r.root, l.img(k), r.w, c.life(2), l.acked(kd), ops,
			pctx{prev: prevSet(l.bestAt[:kd+1]), conn: l.connected, specFin: l.finTip})
		v.prunedTip = !v.reopened && prunedTip(c, pers)
		v.apis = v.apis && l.snapChanged == 0
		real := fmt.Sprintf("n=%d res=%s sv=%d %s w=%s %s", l.n, strings.Join(l.res, "."), l.snapChanged, pers, l.window[kd], rs)
		if over && v.propertyHolds() {
			real = fmt.Sprintf("n=%d out-of-range", l.n)
		}
		return judge(strings.Join(t, " "), real, v)
	case "par":
		// ≥ 8 independent nodes (own world, own directory) run the same workload
		// concurrently, each crashed at its own index: no hidden shared state.
		if len(t) != 7 {
			return "malformed"
		}
		c, ok := parseCfg(t[2], t[3])
		descs, ok2 := parseBlocks(t[4])
		if !ok || !ok2 {
			return "malformed"
		}
		ops, ok := parseOps(t[5], descs)
		if !ok {
			return "malformed"
		}
		var ks []int
		for _, x := range strings.Split(t[6], ".") {
			k, err := strconv.Atoi(x)
			if err != nil || k < 1 {
				return "malformed"
			}
			ks = append(ks, k)
		}
		if len(ks) < 2 || len(ks) > 32 {
			return "malformed"
		}
		purgeStale()
		root, err := os.MkdirTemp(tmpBase(), "c04-par-")
		if err != nil {
			panic(err)
		}
		defer os.RemoveAll(root)
		outs := make([]string, len(ks))
		verds := make([]verdict, len(ks))
		done := make(chan int, len(ks))
		for i, k := range ks {
			go func(i, k int) {
				defer func() {
					if r := recover(); r != nil {
						outs[i] = "panic"
					}
					done <- i
				}()
				time.Sleep(time.Duration(i) * 3 * time.Millisecond)
				w := buildWorld(descs)
				dir := filepath.Join(root, fmt.Sprintf("n%d", i))
				l := runLife(filepath.Join(dir, "l1"), "", w, c, ops)
				if l.bad != "" {
					outs[i] = l.bad
					return
				}
				if k > l.n {
					k = l.n
				}
				rs, v := reopenV(dir, l.img(k), w, c.life(2), l.acked(k), ops,
					pctx{prev: prevSet(l.bestAt[:k+1]), conn: l.connected, specFin: l.finTip})
				v.prunedTip = !v.reopened && prunedTip(c, l.pers[k])
				verds[i] = v
				outs[i] = fmt.Sprintf("n=%d res=%s sv=%d %s w=%s %s", l.n, strings.Join(l.res, "."), l.snapChanged, l.pers[k],
					l.window[k], rs)
			}(i, k)
		}
		for range ks {
			<-done
		}
		for i := range outs {
			// judged per instance, under the line an `img` case with that index would have
			outs[i] = judge(fmt.Sprintf("C04 img %s %s %s %s %d", t[2], t[3], t[4], t[5], ks[i]), outs[i], verds[i])
		}
		return strings.Join(outs, " | ")
	case "img2":
		// crash at k, reopen, feed the deliveries again, crash at the j-th commit of that second life
		if len(t) != 8 {
			return "malformed"
		}
		k, err := strconv.Atoi(t[6])
		j, err2 := strconv.Atoi(t[7])
		if err != nil || err2 != nil || k < 1 || j < 1 {
			return "malformed"
		}
		r, c, ops, ok := getRun(t)
		if !ok {
			return "malformed"
		}
		l := r.l1
		if l.bad != "" {
			return l.bad
		}
		over := k > l.n
		if over {
			k = l.n
		}
		l2 := r.l2[k]
		if l2 == nil {
			for kk, old := range r.l2 {
				os.RemoveAll(old.root)
				delete(r.l2, kk)
			}
			l2 = runLife(filepath.Join(r.root, fmt.Sprintf("l2-%d", k)), l.img(k), r.w, c.life(2), deliveries(ops))
			r.l2[k] = l2
		}
		if l2.bad != "" {
			return fmt.Sprintf("n=%d r1=%s", l.n, l2.bad)
		}
		if j > l2.n {
			over = true
			j = l2.n
		}
		ack := map[int]bool{}
		for _, id := range l.acked(k) {
			ack[id] = true
		}
		for _, id := range l2.acked(j) {
			ack[id] = true
		}
		var acked []int
		for id := range ack {
			acked = append(acked, id)
		}
		sort.Ints(acked)
		rs, v := reopenV(r.root, l2.img(j), r.w, c.life(3), acked, ops,
			pctx{prev: prevSet(l.bestAt[:k+1], l2.bestAt[:j+1]), conn: l.connected, specFin: l.finTip})
		v.prunedTip = !v.reopened && prunedTip(c, l2.pers[j])
		real := fmt.Sprintf("n=%d n2=%d res2=%s %s w1=%s w=%s %s", l.n, l2.n, strings.Join(l2.res, "."),
			l2.pers[j], l.window[k], l2.window[j], rs)
		if over && v.propertyHolds() {
			real = fmt.Sprintf("n=%d n2=%d out-of-range", l.n, l2.n)
		}
		return judge(strings.Join(t, " "), real, v)
	}
	return "bad-op"
}

// tear appends a partial block record to the newest block file.
func tear(dir string) {
	ents, _ := os.ReadDir(dir)
	last := ""
	for _, e := range ents {
		if strings.HasSuffix(e.Name(), ".fdb") && e.Name() > last {
			last = e.Name()
		}
	}
	if last == "" {
		return
	}
	f, err := os.OpenFile(filepath.Join(dir, last), os.O_APPEND|os.O_WRONLY, 0o644)
	if err != nil {
		return
	}
	// network magic + a length that promises more than follows
	f.Write([]byte{0x0b, 0x11, 0x09, 0x07, 0xff, 0x00, 0x00, 0x00, 1, 2, 3, 4, 5, 6, 7})
	f.Close()
}

func parseOps(s string, descs []blkDesc) ([]string, bool) {
	known := map[int]bool{}
	for _, d := range descs {
		known[d.id] = true
	}
	var ops []string
	if s == "-" {
		return ops, true
	}
	for _, o := range strings.Split(s, ",") {
		switch {
		case o == "f" || o == "i" || o == "p":
		case strings.HasPrefix(o, "d") || strings.HasPrefix(o, "h"):
			id, err := strconv.Atoi(o[1:])
			if err != nil || !known[id] {
				return nil, false
			}
		default:
			return nil, false
		}
		ops = append(ops, o)
	}
	return ops, true
}

var _ = bytes.Equal

// ---------------------------------------------------------------------------
// Generator: a small abstract simulation (chains, folds) to build mostly-valid
// workloads; the expected answers come from the Lean model, not from here.

type gw struct {
	r      *core.Rand
	descs  []blkDesc
	byID   map[int]blkDesc
	ops    []string
	nextID int
}

func newGW(r *core.Rand) *gw { return &gw{r: r, byID: map[int]blkDesc{}, nextID: 1} }

func (g *gw) chain(id int) []int { // genesis-side first, without genesis
	var c []int
	for id != 0 {
		c = append([]int{id}, c...)
		id = g.byID[id].parent
	}
	return c
}

func (g *gw) height(id int) int { return len(g.chain(id)) }

// fold returns the unspent abstract outpoints of the chain ending in id and
// the spent ones (for invalid choices).
func (g *gw) fold(id int) (map[int]bool, []int) {
	u := map[int]bool{}
	var spent []int
	for _, b := range g.chain(id) {
		d := g.byID[b]
		for j, o := range d.spends {
			delete(u, o)
			spent = append(spent, o)
			u[b*opsPerBlock+j+1] = true
		}
		u[b*opsPerBlock] = true
	}
	return u, spent
}

// add creates a block on parent; kind: 0 valid, 1 missing input, 2 bad coinbase,
// 3 double spend inside the block.
func (g *gw) add(parent int, kind int, maxSpends int) int {
	id := g.nextID
	g.nextID++
	d := blkDesc{id: id, parent: parent}
	u, spent := g.fold(parent)
	var avail []int
	for o := range u {
		avail = append(avail, o)
	}
	sort.Ints(avail)
	n := 0
	if maxSpends > 0 {
		n = g.r.Intn(maxSpends + 1)
	}
	for j := 0; j < n && len(avail) > 0; j++ {
		if j > 0 && g.r.Chance(1, 3) {
			// spend the output of the previous transaction of this block
			d.spends = append(d.spends, id*opsPerBlock+j)
			continue
		}
		i := g.r.Intn(len(avail))
		d.spends = append(d.spends, avail[i])
		avail = append(avail[:i], avail[i+1:]...)
	}
	// an in-block chain may reference an output that an earlier in-block spend
	// already consumed; repair by dropping duplicates
	seen := map[int]bool{}
	var sp []int
	for _, o := range d.spends {
		if !seen[o] {
			seen[o] = true
			sp = append(sp, o)
		}
	}
	d.spends = sp
	switch kind {
	case 1:
		var o int
		switch {
		case len(spent) > 0 && g.r.Bool():
			o = spent[g.r.Intn(len(spent))]
		case g.r.Bool():
			o = 3999 * opsPerBlock
		default:
			o = id * opsPerBlock // own coinbase: immature
		}
		pos := g.r.Intn(len(d.spends) + 1)
		d.spends = append(d.spends[:pos], append([]int{o}, d.spends[pos:]...)...)
	case 2:
		d.bad = true
	case 3:
		if len(d.spends) == 0 && len(avail) > 0 {
			d.spends = append(d.spends, avail[0])
		}
		if len(d.spends) > 0 {
			d.spends = append(d.spends, d.spends[0])
		} else {
			d.bad = true
		}
	}
	if len(d.spends) >= opsPerBlock {
		d.spends = d.spends[:opsPerBlock-1]
	}
	g.descs = append(g.descs, d)
	g.byID[id] = d
	return id
}

func (g *gw) deliver(id int) {
	// headers-first now and then: the header of the block (and sometimes of a
	// block that is delivered later or never) before the block itself
	if g.r.Chance(1, 4) {
		g.ops = append(g.ops, "h"+strconv.Itoa(id))
	}
	g.ops = append(g.ops, "d"+strconv.Itoa(id))
	if g.r.Chance(1, 12) {
		g.ops = append(g.ops, "h"+strconv.Itoa(1+g.r.Intn(g.nextID-1)))
	}
}

func (g *gw) maybeFlush() {
	switch g.r.Intn(10) {
	case 0:
		g.ops = append(g.ops, "f")
	case 1:
		g.ops = append(g.ops, "i")
	case 2:
		g.ops = append(g.ops, "p")
	}
}

func (g *gw) blocksStr() string {
	var bs []string
	for _, d := range g.descs {
		sp := "-"
		if len(d.spends) > 0 {
			var xs []string
			for _, o := range d.spends {
				xs = append(xs, strconv.Itoa(o))
			}
			sp = strings.Join(xs, ".")
		}
		b := fmt.Sprintf("%d:%d:%s", d.id, d.parent, sp)
		if d.bad {
			b += ":x"
		}
		bs = append(bs, b)
	}
	if len(bs) == 0 {
		return "-"
	}
	return strings.Join(bs, ",")
}

func (g *gw) opsStr() string {
	if len(g.ops) == 0 {
		return "-"
	}
	return strings.Join(g.ops, ",")
}

// workload shapes ---------------------------------------------------------

func wlLinear(r *core.Rand, n int) *gw {
	g := newGW(r)
	tip := 0
	for i := 0; i < n; i++ {
		tip = g.add(tip, 0, 3)
		g.deliver(tip)
		g.maybeFlush()
	}
	return g
}

// main chain of length a, then a side chain from fork point f of length b
// (b > a - f triggers a reorganisation of depth a - f), optionally the old
// branch grows back afterwards.
func wlReorg(r *core.Rand, a, f, b int, back bool, invalidAt int) *gw {
	g := newGW(r)
	tip := 0
	var main []int
	for i := 0; i < a; i++ {
		tip = g.add(tip, 0, 2)
		main = append(main, tip)
		g.deliver(tip)
		g.maybeFlush()
	}
	side := 0
	if f > 0 {
		side = main[f-1]
	}
	for i := 0; i < b; i++ {
		kind := 0
		if i == invalidAt {
			kind = 1 + r.Intn(3)
		}
		side = g.add(side, kind, 2)
		g.deliver(side)
		g.maybeFlush()
	}
	if back {
		for g.height(tip) <= g.height(side) {
			tip = g.add(tip, 0, 2)
			g.deliver(tip)
		}
	}
	return g
}

func wlInvalid(r *core.Rand) *gw {
	g := newGW(r)
	tip := g.add(0, 0, 0)
	g.deliver(tip)
	tip = g.add(tip, 0, 2)
	g.deliver(tip)
	bad := g.add(tip, 1+r.Intn(3), 2)
	g.deliver(bad)
	g.maybeFlush()
	child := g.add(bad, 0, 1)
	g.deliver(child) // refused: invalid ancestor
	g.deliver(tip)   // duplicate
	tip = g.add(tip, 0, 2)
	g.deliver(tip)
	return g
}

func wlTree(r *core.Rand, n int) *gw {
	g := newGW(r)
	ids := []int{0}
	for i := 0; i < n; i++ {
		var parent int
		if r.Chance(3, 5) {
			// extend one of the two highest blocks
			best := 0
			for _, id := range ids {
				if g.height(id) >= g.height(best) && (g.height(id) > g.height(best) || r.Bool()) {
					best = id
				}
			}
			parent = best
		} else {
			parent = ids[r.Intn(len(ids))]
		}
		kind := 0
		if r.Chance(1, 8) {
			kind = 1 + r.Intn(3)
		}
		id := g.add(parent, kind, 3)
		ids = append(ids, id)
		g.deliver(id)
		g.maybeFlush()
		if r.Chance(1, 10) {
			g.deliver(ids[r.Intn(len(ids)-1)+1])
		}
	}
	return g
}

// long linear chain (pruning needs a few block files), optionally a one-deep
// reorganisation near the end.
func wlLong(r *core.Rand, n int, fork bool) *gw {
	g := newGW(r)
	tip := 0
	prev := 0
	for i := 0; i < n; i++ {
		prev = tip
		tip = g.add(tip, 0, 2)
		g.deliver(tip)
		if r.Chance(1, 5) {
			g.ops = append(g.ops, "f")
		}
	}
	if fork {
		s1 := g.add(prev, 0, 1)
		g.deliver(s1)
		s2 := g.add(s1, 0, 1)
		g.deliver(s2)
	}
	return g
}

// pruning with a reorganisation whose attach blocks are older than the newest
// main-chain blocks: main chain to a, side chain of s blocks from depth d
// below the tip, main chain grows by m more, then the side chain overtakes.
func wlPruneReorg(r *core.Rand, a, d, s, m int) *gw {
	g := newGW(r)
	tip := 0
	var main []int
	for i := 0; i < a; i++ {
		tip = g.add(tip, 0, 1)
		main = append(main, tip)
		g.deliver(tip)
	}
	side := main[a-1-d]
	for i := 0; i < s; i++ {
		side = g.add(side, 0, 1)
		g.deliver(side)
	}
	for i := 0; i < m; i++ {
		tip = g.add(tip, 0, 1)
		g.deliver(tip)
	}
	for g.height(side) <= g.height(tip) {
		side = g.add(side, 0, 1)
		g.deliver(side)
	}
	return g
}

// boundary stream for the prune guard: blocks without spends have a fixed
// record size (158 bytes up to height 16, 159 above), so with 1000-byte files
// the files end with blocks 4, 10, 16, 22, 28.  A FlushUtxoCache right around a
// file's last block puts the marker at / one below / one above the height the
// guard of flushNeededAfterPrune compares with when that file is deleted.
func wlPruneEdge(r *core.Rand, flushAfter int, n int) *gw {
	g := newGW(r)
	tip := 0
	for i := 1; i <= n; i++ {
		tip = g.add(tip, 0, 0)
		g.deliver(tip)
		if i == flushAfter {
			g.ops = append(g.ops, "f")
		}
	}
	return g
}

// addSpending creates a block on parent that spends exactly the given outpoints (valid or not).
func (g *gw) addSpending(parent int, spends ...int) int {
	id := g.nextID
	g.nextID++
	d := blkDesc{id: id, parent: parent, spends: spends}
	g.descs = append(g.descs, d)
	g.byID[id] = d
	return id
}

// a reorganisation back to a branch whose first blocks are already validated, with a
// double spend at position pos (2..) of the attach list: the block there spends an
// output that the already-valid first attach block spent.
func wlAttachDoubleSpend(r *core.Rand, pos int) *gw {
	g := newGW(r)
	a1 := g.addSpending(0)
	g.deliver(a1)
	a2 := g.addSpending(a1, a1*opsPerBlock) // spends the coinbase of a1
	g.deliver(a2)
	b := a1
	for i := 0; i < 2; i++ { // b2, b3: the node reorganises to the b branch, a2 stays valid in the index
		b = g.add(b, 0, 0)
		g.deliver(b)
	}
	a := a2
	for i := 2; i <= pos+1; i++ { // attach list on the way back: a2 (valid), a3, a4 …
		if i == pos {
			a = g.addSpending(a, a1*opsPerBlock) // double spend of a1's coinbase
		} else {
			a = g.add(a, 0, 1)
		}
		g.deliver(a)
	}
	return g
}

// genRun runs a workload for the generator (it needs the real commit count).  The real
// code may be broken on the tree under test: a panic or a hang must not take the generator
// down — the workload is then emitted with a few fixed crash indices so that Exec
// reproduces the failure on a concrete line.
func genRun(g *core.Gen, key string) *run {
	var r *run
	done := make(chan struct{})
	go func() {
		defer func() {
			recover()
			close(done)
		}()
		rr, _, _, ok := getRun(strings.Fields("C04 img " + key + " 1"))
		if ok && rr.l1.bad == "" {
			r = rr
		}
	}()
	select {
	case <-done:
	case <-time.After(150 * time.Second):
		hung = true
	}
	if r == nil {
		for _, k := range []int{1, 3, 4, 5, 7, 8, 9, 13, 18, 23} {
			g.Case("broken-workload", true, fmt.Sprintf("C04 img %s %d", key, k))
		}
	}
	return r
}

// hung is set when a call into the real code did not come back: later cases answer at once
var hung bool

func (P) Generate(g *core.Gen) {
	// emit one workload: first-level images with the given stride, a few torn
	// variants, and second-level images (crash, reopen, re-feed, crash again;
	// the first commits of a second life are the recovery's own) for nk
	// first-level crash points.
	emit := func(class string, cache int, prune string, w *gw, stride int, nk int, nj int) {
		if only := os.Getenv("VERIF_C04_ONLY"); only != "" && only != class {
			return // debugging aid: one class only
		}
		key := fmt.Sprintf("%d %s %s %s", cache, prune, w.blocksStr(), w.opsStr())
		r := genRun(g, key)
		if r == nil {
			return
		}
		n := r.l1.n
		off := 0
		if stride > 1 {
			off = g.R.Intn(stride)
		}
		for k := 1; k <= n; k++ {
			if stride > 1 && k > 3 && (k+off)%stride != 0 {
				continue
			}
			g.Case(class, k > 3, fmt.Sprintf("C04 img %s %d", key, k))
		}
		g.Case(class+"-range", false, fmt.Sprintf("C04 img %s %d", key, n+1))
		for i := 0; i < 2 && n > 3; i++ {
			g.Case(class+"-torn", true, fmt.Sprintf("C04 torn %s %d", key, 4+g.R.Intn(n-3)))
		}
		// power loss with a lazily flushed metadata cache: the image of the durable prefix
		lazyHere := g.Thorough() || class == "linear" || class == "reorg" || class == "prune-fit"
		for i := 0; lazyHere && i < 3 && n > 8; i++ {
			g.Case(class+"-lazy", true, fmt.Sprintf("C04 lazy %s %d", key, lazyPeriod+g.R.Intn(n-lazyPeriod+1)))
		}
		// transient write failure at an index flush (where btcd handles the error by design), then a crash
		fltHere := prune == "0" && (g.Thorough() || class == "reorg" || class == "tree" || class == "reorg-invalid" || class == "reorg-deep")
		for i := 0; fltHere && i < 3 && r.l1.nInject > 0; i++ {
			f := 1 + g.R.Intn(r.l1.nInject)
			k := 999 // the end of the faulted run
			if i > 0 {
				k = 4 + g.R.Intn(n)
			}
			g.Case(class+"-flt", true, fmt.Sprintf("C04 flt %s %d %d", key, f, k))
		}
		// power-loss images: block files cut back to what had been fsynced at commit k
		nsync := 1
		if g.Thorough() {
			nsync = 3
		}
		for i := 0; i < nsync && n > 3; i++ {
			g.Case(class+"-sync", true, fmt.Sprintf("C04 sync %s %d", key, 4+g.R.Intn(n-3)))
		}
		for i := 0; i < nk && n > 3; i++ {
			k := 4 + g.R.Intn(n-3)
			// prefer crash points inside an activation window or with a lagging marker
			for try := 0; try < 6 && r.l1.window[k] == "-" && !strings.Contains(r.l1.pers[k], "marker=0 "); try++ {
				k = 4 + g.R.Intn(n-3)
			}
			for q := 0; q < nj; q++ {
				j := 1 + g.R.Intn(8)
				if q%2 == 1 {
					j = 1 + g.R.Intn(5*len(w.descs)+8)
				}
				g.Case(class+"-2nd", true, fmt.Sprintf("C04 img2 %s %d %d", key, k, j))
			}
		}
	}
	// cache size changes between process lives: a roomy cache first (marker lags
	// the tip by several blocks), then a restart with a cache of size 0 so that
	// the replay of InitConsistentState flushes after every block; second-level
	// images at EVERY commit of that recovery, third open with either size.
	emitSwitch := func(class string, cache string, w *gw, ks int) {
		if only := os.Getenv("VERIF_C04_ONLY"); only != "" && only != class {
			return
		}
		key := fmt.Sprintf("%s 0 %s %s", cache, w.blocksStr(), w.opsStr())
		r := genRun(g, key)
		if r == nil {
			return
		}
		n := r.l1.n
		// crash points with at least three unflushed blocks: the end of the run and
		// a few before it
		for q := 0; q < ks; q++ {
			k := n - q*(1+g.R.Intn(4))
			if k < 19 {
				break
			}
			g.Case(class, true, fmt.Sprintf("C04 img %s %d", key, k))
			for j := 1; j <= 3+len(w.descs); j++ {
				g.Case(class+"-2nd", true, fmt.Sprintf("C04 img2 %s %d %d", key, k, j))
			}
		}
	}
	plain := func(n int) *gw {
		w := newGW(g.R)
		tip := 0
		for i := 0; i < n; i++ {
			tip = w.add(tip, 0, 3)
			w.deliver(tip)
		}
		return w
	}
	// ≥ 8 independent nodes concurrently, each crashed at its own commit index
	emitPar := func(cache string, w *gw, inst int) {
		if only := os.Getenv("VERIF_C04_ONLY"); only != "" && only != "par" {
			return
		}
		key := fmt.Sprintf("%s 0 %s %s", cache, w.blocksStr(), w.opsStr())
		r := genRun(g, key)
		if r == nil {
			return
		}
		var ks []string
		for i := 0; i < inst; i++ {
			ks = append(ks, strconv.Itoa(1+g.R.Intn(r.l1.n)))
		}
		g.Case("par", true, fmt.Sprintf("C04 par %s %s", key, strings.Join(ks, ".")))
	}
	r := g.R
	if !g.Thorough() {
		emitPar([]string{"0", "1", "1>0"}[r.Intn(3)], wlReorg(r, 1, 0, 2, false, -1), 8)
		{
			// the sharp point (a record ending exactly at the roll-over limit, a total
			// exactly at the prune target) always, one neighbour at random
			emit("prune-fit", r.Intn(2), "1700:771", wlPruneEdge(r, 0, 13), 3, 0, 0)
			f := []int{770, 772}[r.Intn(2)]
			t := []int{1699, 1701}[r.Intn(2)]
			emit("prune-fit", r.Intn(2), fmt.Sprintf("%d:%d", t, f), wlPruneEdge(r, 0, 13), 6, 0, 0)
		}
		emitSwitch("cache-switch", []string{"1>0", "1>0>1"}[r.Intn(2)], plain(5), 2)
		emit("linear", r.Intn(2), "0", wlLinear(r, 3), 1, 1, 3)
		emit("reorg", r.Intn(2), "0", wlReorg(r, 2, 0, 3, false, -1), 1, 1, 3)
		emit("reorg-deep", r.Intn(2), "0", wlReorg(r, 3+r.Intn(2), r.Intn(2), 5, r.Bool(), -1), 2, 1, 3)
		emit("reorg-invalid", r.Intn(2), "0", wlReorg(r, 2, r.Intn(2), 3, false, r.Intn(3)), 1, 0, 0)
		emit("invalid", r.Intn(2), "0", wlInvalid(r), 1, 0, 0)
		emit("tree", r.Intn(2), "0", wlTree(r, 7), 2, 1, 2)
		emit("prune", 1, "2000:1000", wlLong(r, 14+r.Intn(3), false), 8, 1, 3)
		emit("prune", 0, "2000:1000", wlLong(r, 11, true), 9, 1, 2)
		emit("prune-reorg", r.Intn(2), "2000:1000", wlPruneReorg(r, 8+r.Intn(3), 1+r.Intn(2), 1, 1+r.Intn(2)), 4, 0, 0)
		emit("prune-edge", 1, "2000:1000", wlPruneEdge(r, 15, 24), 7, 0, 0)
		emit("attach-dspend", r.Intn(2), "0", wlAttachDoubleSpend(r, 2+r.Intn(2)), 3, 0, 0)
	} else {
		for i := 0; i < 8; i++ {
			emit("linear", i%2, "0", wlLinear(r, 2+r.Intn(5)), 1, 1, 3)
		}
		for i := 0; i < 16; i++ {
			a := 1 + r.Intn(4)
			f := r.Intn(a)
			emit("reorg", i%2, "0", wlReorg(r, a, f, a-f+1+r.Intn(2), r.Chance(1, 3), -1), 1, 2, 4)
		}
		for i := 0; i < 10; i++ {
			a := 1 + r.Intn(4)
			f := r.Intn(a)
			b := a - f + 1 + r.Intn(2)
			emit("reorg-invalid", i%2, "0", wlReorg(r, a, f, b, r.Chance(1, 3), r.Intn(b)), 1, 1, 3)
		}
		for i := 0; i < 6; i++ {
			emit("invalid", i%2, "0", wlInvalid(r), 1, 1, 2)
		}
		for i := 0; i < 20; i++ {
			emit("tree", i%2, "0", wlTree(r, 6+r.Intn(8)), 1, 1, 3)
		}
		for i := 0; i < 8; i++ {
			prune := []string{"2000:1000", "3000:1000", "1600:800", "2400:1200"}[r.Intn(4)]
			emit("prune", i%2, prune, wlLong(r, 14+r.Intn(12), i%3 == 0), 3, 4, 6)
		}
		for i := 0; i < 6; i++ {
			emitPar([]string{"0", "1", "1>0"}[i%3], []*gw{wlLinear(r, 3), wlReorg(r, 2, 0, 3, false, -1), wlInvalid(r)}[i%3], 8+4*(i%2))
		}
		// exact-fit boundaries of the block files (a record that ends exactly at the
		// roll-over limit, one byte below, one above) and of the prune target
		for _, f := range []int{770, 771, 772} {
			for _, t := range []int{1699, 1700, 1701} {
				emit("prune-fit", (f+t)%2, fmt.Sprintf("%d:%d", t, f), wlPruneEdge(r, 0, 13), 2, 1, 2)
			}
		}
		for _, cs := range []string{"1>0", "1>0>1", "1>0>0", "1>1>0", "0>1>0", "1>0"} {
			emitSwitch("cache-switch", cs, plain(4+r.Intn(4)), 3)
		}
		emitSwitch("cache-switch", "1>0", wlReorg(r, 3, 1, 4, false, -1), 3)
		emitSwitch("cache-switch", "1>0>1", wlReorg(r, 2, 0, 4, true, -1), 3)
		for pos := 2; pos <= 4; pos++ {
			emit("attach-dspend", pos%2, "0", wlAttachDoubleSpend(r, pos), 1, 1, 2)
		}
		for _, fa := range []int{8, 9, 10, 11, 14, 15, 16, 17} {
			emit("prune-edge", 1, "2000:1000", wlPruneEdge(r, fa, 24), 2, 1, 3)
		}
		for i := 0; i < 10; i++ {
			prune := []string{"2000:1000", "3000:1000", "1600:800"}[r.Intn(3)]
			d := 1 + r.Intn(3)
			emit("prune-reorg", i%2, prune, wlPruneReorg(r, 8+r.Intn(6), d, 1+r.Intn(d), 1+r.Intn(3)), 1, 1, 3)
		}
	}
	// malformed / boundary lines
	for _, l := range []string{
		"C04 img 2 0 1:0:- d1 1", "C04 img 0 0 1:1:- d1 1", "C04 img 0 0 1:0:- d2 1", "C04 img 0 0 1:0:- d1 0",
		"C04 img 0 0 1:0:-:y d1 1", "C04 img 0 0 1:0:-,1:0:- d1 1", "C04 img 0 0 - - 1", "C04 img 0 0 - - 3", "C04 img 0 0 - - 4",
		"C04 img 0 0 1:0:- d1", "C04 nop", "C04 img 0 500:1000 1:0:- d1 1", "C04 img 0 1000:0 1:0:- d1 1",
		"C04 img2 0 0 1:0:- d1 4 0", "C04 sync 0 0 1:0:- d1", "C04 sync 0 0 1:0:- d1 0", "C04 flt 0 0 1:0:- d1 0 5", "C04 flt 0 0 1:0:- d1 1 0", "C04 flt 0 0 1:0:- d1 1", "C04 flt 0 0 1:0:- d1 99 5", "C04 lazy 0 0 1:0:- d1 6", "C04 lazy 0 0 1:0:- d1 7", "C04 lazy 0 0 1:0:- d1 99", "C04 lazy 0 0 1:0:- d1", "C04 par 0 0 1:0:- d1 4", "C04 par 0 0 1:0:- d1 4.0", "C04 par 0 0 1:0:- d1 4.x", "C04 img 1>2 0 1:0:- d1 4", "C04 img 1>0>1>0 0 1:0:- d1 4", "C04 img > 0 1:0:- d1 4", "C04 img 1>0 0 1:0:- d1 4", "C04 img2 0 0 1:0:- d1 4 1", "C04 img2 0 0 1:0:- d1 4 99", "C04 torn 0 0 1:0:- d1 5",
	} {
		g.Case("malformed", false, l)
	}
}

// ---------------------------------------------------------------------------
// Known finding F-C04-a.

// classifyPrunedTip recognises F-C04-c: pruning is on, the image's persisted
// best block is not among the stored blocks (the connect commit that made it
// the tip deleted the block file that holds it), every persisted observation
// agrees with the model, the real node cannot be reopened and the model says
// the same (answered with the Spec's demand "must-reopen").
func classifyPrunedTip(line string, gf, lf map[string]string) string {
	t := strings.Fields(line)
	if len(t) < 7 || t[3] == "0" {
		return ""
	}
	if lf["r"] != "must-reopen" || !strings.HasPrefix(gf["r"], "err") {
		return ""
	}
	for k, v := range gf {
		if k != "r" && lf[k] != v {
			return ""
		}
	}
	for k := range lf {
		if _, ok := gf[k]; !ok {
			return ""
		}
	}
	best := gf["best"]
	if best == "" || gf["stored"] == "" {
		return ""
	}
	for _, id := range strings.Split(gf["stored"], ".") {
		if id == best {
			return ""
		}
	}
	return "F-C04-c"
}

func fields(s string) map[string]string {
	m := map[string]string{}
	for _, t := range strings.Fields(s) {
		if i := strings.IndexByte(t, '='); i > 0 {
			m[t[:i]] = t[i+1:]
		}
	}
	return m
}

// ClassifyMismatch recognises F-C04-a: the crash image lies inside the
// activation window of a block delivery (after the block became known to the
// index, before the last connect of the chain it activates), every observation
// up to and including the reopened state agrees with the model, the final state
// after re-delivery is exactly the one the model of the code predicts (second
// and third component of the Lean `fin`), and that state has no more work than the
// final state of the uninterrupted run (first component).
func (p P) ClassifyMismatch(line, goOut, leanOut string) string {
	if t := strings.Fields(line); len(t) == 7 && t[1] == "par" {
		// every differing instance must be explained by the same known finding
		gs, ls, ks := strings.Split(goOut, " | "), strings.Split(leanOut, " | "), strings.Split(t[6], ".")
		if len(gs) != len(ls) || len(gs) != len(ks) {
			return ""
		}
		id := ""
		for i := range gs {
			if gs[i] == ls[i] {
				continue
			}
			sub := p.ClassifyMismatch(fmt.Sprintf("C04 img %s %s %s %s %s", t[2], t[3], t[4], t[5], ks[i]), gs[i], ls[i])
			if sub == "" || (id != "" && sub != id) {
				return ""
			}
			id = sub
		}
		return id
	}
	// property-level signatures first: they do not depend on how the code groups its
	// writes into transactions (commit indices, windows, exact persisted fields)
	if v, ok := lastVerdict[strings.Join(strings.Fields(line), " ")]; ok {
		gfw := fields(goOut)
		tl := strings.Fields(line)
		// with pruning on, the uninterrupted run itself can end in a degraded state (a reorganisation
		// that dies after its disconnects because side-chain or parent blocks were pruned) while the run
		// that crashed inside that activation window stays on the earlier tip
		inWindow := len(tl) > 3 && tl[3] != "0" && (gfw["w"] != "-" && gfw["w"] != "" || gfw["w1"] != "-" && gfw["w1"] != "")
		if v.reopened && v.tipActive && v.utxoFold && v.indexKnows && v.apis && !v.converged && (v.lost || inWindow) {
			// when the run is aligned with the model (every field but `fin` agrees) the final
			// state must also be exactly the one the model of the code predicts
			gf, lf := fields(goOut), fields(leanOut)
			aligned := len(gf) == len(lf)
			for k, x := range gf {
				if k != "fin" && lf[k] != x {
					aligned = false
				}
			}
			if aligned {
				g, l := strings.Split(gf["fin"], ";"), strings.Split(lf["fin"], ";")
				if len(g) != 3 || len(l) != 3 || g[1] != l[1] || g[2] != l[2] {
					return ""
				}
			}
			return "F-C04-a"
		}
		if !v.reopened && v.prunedTip {
			return "F-C04-c"
		}
	}
	gf, lf := fields(goOut), fields(leanOut)
	if id := classifyPrunedTip(line, gf, lf); id != "" {
		return id
	}
	if len(gf) != len(lf) || gf["w"] == "" || (gf["w"] == "-" && (gf["w1"] == "" || gf["w1"] == "-")) {
		return ""
	}
	for k, v := range gf {
		if k != "fin" && lf[k] != v {
			return ""
		}
	}
	if !strings.HasPrefix(gf["r"], "ok,") {
		return ""
	}
	g := strings.Split(gf["fin"], ";")
	l := strings.Split(lf["fin"], ";")
	if len(g) != 3 || len(l) != 3 {
		return ""
	}
	if g[0] != g[1] || g[1] != l[1] || g[2] != l[2] || l[0] == l[1] {
		return ""
	}
	t := strings.Fields(line)
	if len(t) != 7 && len(t) != 8 {
		return ""
	}
	descs, ok := parseBlocks(t[4])
	if !ok {
		return ""
	}
	h := map[int]int{0: 0}
	for _, d := range descs {
		h[d.id] = h[d.parent] + 1
	}
	spec, _ := strconv.Atoi(l[0])
	got, _ := strconv.Atoi(g[0])
	// without pruning the lost activation can only leave the node on a chain with
	// no more work; with pruning the uninterrupted run itself may lose the
	// ability to reorganise (side-chain blocks pruned), so no such bound holds.
	if t[3] == "0" && h[got] > h[spec] {
		return ""
	}
	return "F-C04-a"
}
