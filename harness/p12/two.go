package p12

import (
	"bytes"
	"fmt"
	"sync"
	"time"

	"github.com/btcsuite/btcd/address/v2"
	"github.com/btcsuite/btcd/blockchain"
	"github.com/btcsuite/btcd/btcutil/v2"
	"github.com/btcsuite/btcd/chainhash/v2"
	"github.com/btcsuite/btcd/mining"
	"github.com/btcsuite/btcd/wire/v2"
)

// Op "two": templates are values.  Template A is generated, the pool changes
// (it gains or loses transactions, so that the witness set differs), template
// B is generated, and then A - which a miner may still be working on - must be
// byte-for-byte what it was, still pass the chain's template check, survive a
// time / extra-nonce update and be accepted by ProcessBlock once solved.  With
// conc=1 the two generator calls run in concurrent goroutines.

func (s *scenario) stubFor(bp *builtPool, n int, height int32) *stubSource {
	st := &stubSource{have: map[chainhash.Hash]struct{}{}}
	for i, tx := range bp.txs[:n] {
		st.descs = append(st.descs, &mining.TxDesc{Tx: tx, Added: time.Unix(s.now-int64(i*37%500), 0),
			Height: height - int32(i*3%7), Fee: s.txs[i].fee, FeePerKB: s.txs[i].fpk})
		st.have[*tx.Hash()] = struct{}{}
	}
	return st
}

func blockBytes(b *wire.MsgBlock) []byte {
	var buf bytes.Buffer
	if err := b.Serialize(&buf); err != nil {
		panic(err)
	}
	return buf.Bytes()
}

// renderCore is the part of the observation that describes the selection.
func (s *scenario) renderCore(bp *builtPool, tmpl *mining.BlockTemplate) string {
	if tmpl == nil {
		return "err"
	}
	var sel []int64
	for _, tx := range tmpl.Block.Transactions[1:] {
		j, ok := bp.index[tx.TxHash()]
		if !ok {
			return "foreign-tx"
		}
		sel = append(sel, int64(j))
	}
	cbv := int64(0)
	for _, o := range tmpl.Block.Transactions[0].TxOut {
		cbv += o.Value
	}
	ub := btcutil.NewBlock(tmpl.Block)
	sel, fees, sigs := s.canonRuns(sel, tmpl.Fees, tmpl.SigOpCosts)
	return fmt.Sprintf("sel=%s fees=%s sig=%s cbv=%d wc=%s w=%d", joinInts(sel), joinInts(fees),
		joinInts(sigs), cbv, b2s(tmpl.WitnessCommitment != nil), blockchain.GetBlockWeight(ub))
}

// selfConsistent: header merkle root, reported commitment and coinbase
// commitment all describe the block's own transactions.
func selfConsistent(tmpl *mining.BlockTemplate, height int32) bool {
	ub := btcutil.NewBlock(tmpl.Block)
	ub.SetHeight(height)
	if blockchain.CalcMerkleRoot(ub.Transactions(), false) != tmpl.Block.Header.MerkleRoot {
		return false
	}
	got, found := blockchain.ExtractWitnessCommitment(ub.Transactions()[0])
	if (tmpl.WitnessCommitment != nil) != found {
		return false
	}
	if found {
		if !bytes.Equal(got, tmpl.WitnessCommitment) || blockchain.ValidateWitnessCommitment(ub) != nil {
			return false
		}
	}
	return true
}

func execTwo(s *scenario) string {
	if s.src != "stub" || s.ka < 0 || s.ka > len(s.txs) {
		return "bad-op"
	}
	w := getWorld(s.world)
	cache := uint64(1 << 20)
	if s.uc {
		cache = 0
	}
	ci, err := w.instantiateCache(cache)
	if err != nil {
		panic(err)
	}
	defer ci.close()
	if s.roK > 0 {
		if err := ci.reorg(s.roF, s.roK); err != nil {
			return "stale-line:reorg"
		}
	}
	ci.clock.set(s.now)
	bp := s.buildPool(w)
	if res := s.checkFacts(w, ci, bp); res != "" {
		return res
	}
	best := ci.chain.BestSnapshot()
	nA, nB := s.ka, len(s.txs)
	if s.rev {
		nA, nB = nB, nA
	}
	policy := &mining.Policy{BlockMinWeight: s.minW, BlockMaxWeight: s.maxW, BlockPrioritySize: s.prioSize,
		TxMinFreeFee: btcutil.Amount(s.minFree), BlockMinSize: s.minW / 4, BlockMaxSize: s.maxW / 4}
	genA := mining.NewBlkTmplGenerator(policy, ci.params, s.stubFor(bp, nA, best.Height), ci.chain, ci.clock, ci.sigc, ci.hashc)
	policyB := policy
	if s.polBSet { // the configuration changed between the two calls
		policyB = &mining.Policy{BlockMinWeight: uint32(s.polB[0]), BlockMaxWeight: uint32(s.polB[1]),
			BlockPrioritySize: uint32(s.polB[2]), TxMinFreeFee: btcutil.Amount(s.polB[3]),
			BlockMinSize: uint32(s.polB[0]) / 4, BlockMaxSize: uint32(s.polB[1]) / 4}
	}
	genB := mining.NewBlkTmplGenerator(policyB, ci.params, s.stubFor(bp, nB, best.Height), ci.chain, ci.clock, ci.sigc, ci.hashc)
	var pay address.Address
	if s.addr {
		pay = payAddress(ci.params)
	}

	var tA, tB *mining.BlockTemplate
	var rendA string
	var bytesA []byte
	if s.conc {
		var wg sync.WaitGroup
		wg.Add(2)
		go func() { defer wg.Done(); tA, _ = genA.NewBlockTemplate(pay) }()
		go func() { defer wg.Done(); tB, _ = genB.NewBlockTemplate(pay) }()
		wg.Wait()
		rendA = s.renderCore(bp, tA)
	} else {
		tA, err = genA.NewBlockTemplate(pay)
		if err != nil {
			dbg("template A: %v", err)
		}
		rendA = s.renderCore(bp, tA)
		if tA != nil {
			bytesA = blockBytes(tA.Block)
		}
		tB, err = genB.NewBlockTemplate(pay)
		if err != nil {
			dbg("template B: %v", err)
		}
	}
	rendB := s.renderCore(bp, tB)
	if tA == nil {
		return fmt.Sprintf("A[%s] B[%s] keep=-", rendA, rendB)
	}

	// A after B exists
	same := selfConsistent(tA, s.nextH) && s.renderCore(bp, tA) == rendA
	if bytesA != nil && !bytes.Equal(blockBytes(tA.Block), bytesA) {
		same = false
	}
	if tB != nil && !selfConsistent(tB, s.nextH) {
		same = false
	}
	ua := btcutil.NewBlock(tA.Block)
	ua.SetHeight(s.nextH)
	ccb := ci.chain.CheckConnectBlockTemplate(ua) == nil
	// the miner keeps working on A: new time, new extra nonce (in place)
	ci.clock.set(s.now + 31)
	upd := genA.UpdateBlockTime(tA.Block) == nil && genA.UpdateExtraNonce(tA.Block, s.nextH, 0x7654321) == nil
	ua = btcutil.NewBlock(tA.Block)
	ua.SetHeight(s.nextH)
	if upd && tB != nil {
		// ... and so does the miner working on B, with another extra nonce
		bytesA2 := blockBytes(tA.Block)
		if genB.UpdateBlockTime(tB.Block) != nil || genB.UpdateExtraNonce(tB.Block, s.nextH, 0xabcdef012345) != nil ||
			!selfConsistent(tB, s.nextH) || !bytes.Equal(blockBytes(tA.Block), bytesA2) {
			upd = false
		}
	}
	if upd {
		if err := ci.chain.CheckConnectBlockTemplate(ua); err != nil {
			dbg("updated template A: %v", err)
			upd = false
		}
		if !selfConsistent(tA, s.nextH) {
			upd = false
		}
	}
	solve(&tA.Block.Header)
	fb := btcutil.NewBlock(tA.Block)
	isMain, isOrphan, err := ci.chain.ProcessBlock(fb, blockchain.BFNone)
	pb := err == nil && isMain && !isOrphan && ci.chain.BestSnapshot().Hash == *fb.Hash()
	if !pb {
		dbg("ProcessBlock A: %v", err)
	}
	return fmt.Sprintf("A[%s] B[%s] keep=same:%s,ccb:%s,upd:%s,pb:%s", rendA, rendB, b2s(same), b2s(ccb), b2s(upd), b2s(pb))
}
