package p12

import (
	"strings"
	"sync"
	"time"
)

// Op "par": no hidden shared state.  The line holds several complete cases
// ("tmpl" or "two"), separated by a "||" token; each runs in its own goroutine
// on its own chain copy, generator, caches and clock, started at staggered
// offsets, and each answer must be the Lean answer for that case alone.
func execPar(f []string) string {
	var groups [][]string
	cur := []string{}
	for _, t := range f {
		if t == "||" {
			groups = append(groups, cur)
			cur = []string{}
			continue
		}
		cur = append(cur, t)
	}
	groups = append(groups, cur)
	if len(groups) < 2 {
		return "bad-op"
	}
	out := make([]string, len(groups))
	var wg sync.WaitGroup
	for i, g := range groups {
		if len(g) < 2 || (g[0] != "tmpl" && g[0] != "two") {
			return "bad-op"
		}
		wg.Add(1)
		go func(i int, g []string) {
			defer wg.Done()
			defer func() {
				if r := recover(); r != nil {
					out[i] = "panic"
				}
			}()
			time.Sleep(time.Duration(i%4) * 3 * time.Millisecond)
			s := parseScenario(g[1:])
			if !s.pb && !s.two {
				out[i] = "bad-op" // must not touch the shared long-lived chain
				return
			}
			if g[0] == "two" {
				out[i] = execTwo(s)
			} else {
				out[i] = execTmpl(s)
			}
		}(i, g)
	}
	wg.Wait()
	return strings.Join(out, " || ")
}
