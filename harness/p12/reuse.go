package p12

import (
	"bytes"
	"fmt"
	"reflect"
	"sync"

	"github.com/btcsuite/btcd/address/v2"
	"github.com/btcsuite/btcd/blockchain"
	"github.com/btcsuite/btcd/btcutil/v2"
	"github.com/btcsuite/btcd/mining"
)

// racingSource connects one more block the first time the generator asks for
// the pool: the adversarial but legal schedule "a block arrives while a
// template is being built", pinned deterministically.
type racingSource struct {
	mining.TxSource
	ci   *chainInst
	once sync.Once
}

func (r *racingSource) MiningDescs() []*mining.TxDesc {
	d := r.TxSource.MiningDescs()
	r.once.Do(func() {
		now := r.ci.clock.AdjustedTime().Unix()
		r.ci.clock.set(now + 100000)
		if err := r.ci.extend(1); err != nil {
			panic(err)
		}
		r.ci.clock.set(now)
	})
	return d
}

// Op "reuse": inputs are values.  ONE policy object, parameter set, source
// (with its descriptor slice), address and pair of caches serve three
// sequential and three concurrent NewBlockTemplate calls.  Every result must
// be the template the model predicts for that pool, and afterwards the
// caller's objects must be what they were.
func execReuse(s *scenario) string {
	if s.src != "stub" {
		return "bad-op"
	}
	w := getWorld(s.world)
	ci, err := w.instantiate()
	if err != nil {
		panic(err)
	}
	defer ci.close()
	ci.clock.set(s.now)
	bp := s.buildPool(w)
	if res := s.checkFacts(w, ci, bp); res != "" {
		return res
	}
	best := ci.chain.BestSnapshot()
	src := s.stubFor(bp, len(s.txs), best.Height)
	policy := &mining.Policy{BlockMinWeight: s.minW, BlockMaxWeight: s.maxW, BlockPrioritySize: s.prioSize,
		TxMinFreeFee: btcutil.Amount(s.minFree), BlockMinSize: s.minW / 4, BlockMaxSize: s.maxW / 4}
	var pay address.Address
	if s.addr {
		pay = payAddress(ci.params)
	}
	// snapshots of the caller's inputs
	policy0 := *policy
	descs0 := make([]mining.TxDesc, len(src.descs))
	txBytes0 := make([][]byte, len(src.descs))
	for i, d := range src.descs {
		descs0[i] = *d
		var buf bytes.Buffer
		d.Tx.MsgTx().Serialize(&buf)
		txBytes0[i] = buf.Bytes()
	}
	order0 := append([]*mining.TxDesc{}, src.descs...)
	params0 := fmt.Sprintf("%v %v %v %v %v %v", ci.params.PowLimitBits, ci.params.CoinbaseMaturity,
		ci.params.SubsidyReductionInterval, ci.params.TargetTimespan, ci.params.ReduceMinDifficulty, ci.params.Net)
	payStr0 := ""
	if pay != nil {
		payStr0 = pay.String()
	}

	gen := mining.NewBlkTmplGenerator(policy, ci.params, src, ci.chain, ci.clock, ci.sigc, ci.hashc)
	var rends []string
	var blocks [][]byte
	add := func(t *mining.BlockTemplate, err error) {
		if err != nil || t == nil {
			rends = append(rends, "err")
			blocks = append(blocks, nil)
			return
		}
		ok := selfConsistent(t, s.nextH) && ci.chain.CheckConnectBlockTemplate(btcutil.NewBlock(t.Block)) == nil
		r := s.renderCore(bp, t)
		if !ok {
			r += " INVALID"
		}
		rends = append(rends, r)
		blocks = append(blocks, blockBytes(t.Block))
	}
	for i := 0; i < 3; i++ {
		add(gen.NewBlockTemplate(pay))
	}
	var mu sync.Mutex
	var wg sync.WaitGroup
	for i := 0; i < 3; i++ {
		wg.Add(1)
		go func() {
			defer wg.Done()
			t, err := gen.NewBlockTemplate(pay)
			mu.Lock()
			add(t, err)
			mu.Unlock()
		}()
	}
	wg.Wait()
	same := true
	for i := range rends {
		if rends[i] != rends[0] || !bytes.Equal(blocks[i], blocks[0]) {
			same = false
		}
	}
	// the inputs afterwards
	inOK := reflect.DeepEqual(policy0, *policy) && len(src.descs) == len(order0)
	for i := range order0 {
		if !inOK {
			break
		}
		d := src.descs[i]
		var buf bytes.Buffer
		d.Tx.MsgTx().Serialize(&buf)
		if d != order0[i] || d.Fee != descs0[i].Fee || d.FeePerKB != descs0[i].FeePerKB || d.Height != descs0[i].Height ||
			!d.Added.Equal(descs0[i].Added) || !bytes.Equal(buf.Bytes(), txBytes0[i]) {
			inOK = false
		}
	}
	if params0 != fmt.Sprintf("%v %v %v %v %v %v", ci.params.PowLimitBits, ci.params.CoinbaseMaturity,
		ci.params.SubsidyReductionInterval, ci.params.TargetTimespan, ci.params.ReduceMinDifficulty, ci.params.Net) {
		inOK = false
	}
	if pay != nil && pay.String() != payStr0 {
		inOK = false
	}
	if ci.chain.BestSnapshot().Hash != best.Hash {
		inOK = false
	}
	_ = blockchain.BFNone
	return fmt.Sprintf("R[%s] reuse=same:%s,in:%s", rends[0], b2s(same), b2s(inOK))
}
