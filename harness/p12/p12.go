package p12

import (
	"bytes"
	"fmt"
	"sort"
	"os"
	"strings"
	"time"

	"github.com/btcsuite/btcd/address/v2"
	"github.com/btcsuite/btcd/blockchain"
	"github.com/btcsuite/btcd/btcutil/v2"
	"github.com/btcsuite/btcd/chaincfg/v2"
	"github.com/btcsuite/btcd/chainhash/v2"
	"github.com/btcsuite/btcd/mempool"
	"github.com/btcsuite/btcd/mining"
	"github.com/btcsuite/btcd/wire/v2"
	"verifharness/core"
)

type P struct{}

func (P) ID() string { return "C12" }

var debug = os.Getenv("VERIF_DEBUG") != ""

func dbg(format string, a ...any) {
	if debug {
		fmt.Fprintf(os.Stderr, "c12: "+format+"\n", a...)
	}
}

// ---------------------------------------------------------------- facts (T2)

func (P) Facts() []core.Fact {
	fs := []core.Fact{
		{Name: "witnessScaleFactor", Value: int64(blockchain.WitnessScaleFactor)},
		{Name: "maxBlockWeight", Value: int64(blockchain.MaxBlockWeight)},
		{Name: "maxBlockSigOpsCost", Value: int64(blockchain.MaxBlockSigOpsCost)},
		{Name: "coinbaseWitnessDataLen", Value: int64(blockchain.CoinbaseWitnessDataLen)},
		{Name: "coinbaseWitnessPkScriptLength", Value: int64(blockchain.CoinbaseWitnessPkScriptLength)},
		{Name: "maxVarIntPayload", Value: int64(wire.MaxVarIntPayload)},
		{Name: "maxBlockHeaderPayload", Value: int64(wire.MaxBlockHeaderPayload)},
		{Name: "maxCoinbaseScriptLen", Value: int64(blockchain.MaxCoinbaseScriptLen)},
		{Name: "baseSubsidy", Value: int64(50 * btcutil.SatoshiPerBitcoin)},
		{Name: "lockTimeThreshold", Value: int64(500000000)},
		{Name: "maxSatoshi", Value: int64(btcutil.MaxSatoshi)},
		{Name: "maxTimeOffsetSeconds", Value: int64(blockchain.MaxTimeOffsetSeconds)},
		{Name: "sequenceLockTimeDisabled", Value: int64(wire.SequenceLockTimeDisabled)},
		{Name: "sequenceLockTimeIsSeconds", Value: int64(wire.SequenceLockTimeIsSeconds)},
		{Name: "sequenceLockTimeMask", Value: int64(wire.SequenceLockTimeMask)},
		{Name: "sequenceLockTimeGranularity", Value: int64(wire.SequenceLockTimeGranularity)},
		{Name: "maxTxInSequenceNum", Value: int64(wire.MaxTxInSequenceNum)},
	}
	return fs
}

// ---------------------------------------------------------------- exec (real code)

var dumpFile = os.Getenv("C12_DUMP")

func (p P) Exec(line string) (out string) {
	if dumpFile != "" {
		defer func() {
			if fh, err := os.OpenFile(dumpFile, os.O_APPEND|os.O_CREATE|os.O_WRONLY, 0o644); err == nil {
				fmt.Fprintf(fh, "%s\t%s\n", line, out)
				fh.Close()
			}
		}()
	}
	return p.exec(line)
}

func (P) exec(line string) string {
	f := strings.Fields(line)
	if len(f) < 2 || f[0] != "C12" {
		return "bad-op"
	}
	switch f[1] {
	case "tmpl":
		return execTmpl(parseScenario(f[2:]))
	case "two":
		return execTwo(parseScenario(f[2:]))
	case "par":
		return execPar(f[2:])
	case "reuse":
		return execReuse(parseScenario(f[2:]))
	}
	return "bad-op"
}

func joinInts(xs []int64) string {
	if len(xs) == 0 {
		return "-"
	}
	p := make([]string, len(xs))
	for i, x := range xs {
		p[i] = fmt.Sprint(x)
	}
	return strings.Join(p, ",")
}

func execTmpl(s *scenario) string {
	w := getWorld(s.world)
	var ci *chainInst
	if s.roK > 0 || s.pb || s.fwd > 0 || s.uc {
		var err error
		cache := uint64(1 << 20)
		if s.uc {
			cache = 0
		}
		if ci, err = w.instantiateCache(cache); err != nil {
			panic(err)
		}
		defer ci.close()
	} else {
		ci = getShared(s.world)
	}
	bp := s.buildPool(w)
	var src mining.TxSource
	if s.src == "pool" && s.admPre {
		// the pool was filled on the branch that is about to be abandoned and
		// nobody tells it about the reorganisation
		ci.clock.set(worldT0 + spacing(s.world)*int64(worldBlocks) + 1200)
		mp, res := s.realPool(ci, bp)
		if res != "" {
			return res
		}
		src = mp
	}
	if s.roK > 0 {
		if err := ci.reorg(s.roF, s.roK); err != nil {
			dbg("reorg: %v", err)
			return "stale-line:reorg"
		}
	}
	// the pool is filled on the tip as it is now; the chain may then grow
	if s.src == "pool" && !s.admPre {
		preNow := s.now
		if s.fwd > 0 {
			preNow -= spacing(s.world) * int64(s.fwd)
		}
		ci.clock.set(preNow)
		mp, res := s.realPool(ci, bp)
		if res != "" {
			return res
		}
		src = mp
	}
	if s.fwd > 0 {
		ci.clock.set(s.now + 100000)
		if err := ci.extend(s.fwd); err != nil {
			dbg("extend: %v", err)
			return "stale-line:extend"
		}
	}
	ci.clock.set(s.now)

	if res := s.checkFacts(w, ci, bp); res != "" {
		return res
	}
	best := ci.chain.BestSnapshot()

	switch s.src {
	case "stub":
		st := &stubSource{have: map[chainhash.Hash]struct{}{}}
		for i, tx := range bp.txs {
			// admission height and time differ from descriptor to descriptor (the generator must
			// not read anything off them)
			st.descs = append(st.descs, &mining.TxDesc{Tx: tx, Added: time.Unix(s.now-int64(i*37%500), 0),
				Height: best.Height - int32(i*3%7), Fee: s.txs[i].fee, FeePerKB: s.txs[i].fpk})
			st.have[*tx.Hash()] = struct{}{}
		}
		src = st
	case "pool":
	default:
		return "bad-op"
	}

	if s.race {
		if !s.pb {
			return "bad-op"
		}
		src = &racingSource{TxSource: src, ci: ci}
	}
	policy := &mining.Policy{BlockMinWeight: s.minW, BlockMaxWeight: s.maxW, BlockPrioritySize: s.prioSize,
		TxMinFreeFee: btcutil.Amount(s.minFree), BlockMinSize: s.minW / 4, BlockMaxSize: s.maxW / 4}
	sigc := ci.sigc
	if s.nc {
		sigc = nil
	}
	gen := mining.NewBlkTmplGenerator(policy, ci.params, src, ci.chain, ci.clock, sigc, ci.hashc)
	if (!s.race && gen.TxSource() != src) || gen.BestSnapshot().Hash != best.Hash || !mining.MinimumMedianTime(best).Equal(best.MedianTime.Add(time.Second)) {
		return "accessors"
	}
	var pay address.Address
	if s.addr {
		pay = payAddress(ci.params)
	}
	tmpl, err := gen.NewBlockTemplate(pay)
	if s.race {
		// the tip moved forward between the generator's snapshot and its final check: an error is
		// fine, and so is a template for the NEW tip; a template for the old tip is not
		switch {
		case err != nil:
			return "race:admissible"
		case tmpl.Block.Header.PrevBlock == ci.chain.BestSnapshot().Hash &&
			ci.chain.CheckConnectBlockTemplate(btcutil.NewBlock(tmpl.Block)) == nil:
			return "race:admissible"
		}
		return "race:stale-template"
	}
	if err != nil {
		dbg("NewBlockTemplate: %v", err)
		return "err"
	}
	return s.observe(w, ci, bp, gen, tmpl)
}

// checkFacts verifies what the line claims about the chain and the oracle
// values it carries about the pool ("" = all hold).
func (s *scenario) checkFacts(w *world, ci *chainInst, bp *builtPool) string {
	// 1. the facts the line claims about the chain must hold on the real chain
	want := *s
	want.deriveFacts()
	best := ci.chain.BestSnapshot()
	segState, _ := ci.chain.ThresholdState(chaincfg.DeploymentSegwit)
	csvState, _ := ci.chain.ThresholdState(chaincfg.DeploymentCSV)
	switch {
	case best.Height+1 != s.nextH, best.MedianTime.Unix() != s.mtp,
		(segState == blockchain.ThresholdActive) != s.seg, (csvState == blockchain.ThresholdActive) != s.csv,
		s.cbw != want.cbw, s.cbs != want.cbs, s.mhp != 0 && (s.mhp != want.mhp || s.bho != want.bho), s.halving != ci.params.SubsidyReductionInterval,
		s.maturity != int32(ci.params.CoinbaseMaturity):
		dbg("facts: height %d mtp %d seg %v csv %v cbw %d cbs %d", best.Height+1, best.MedianTime.Unix(), segState, csvState, want.cbw, want.cbs)
		return "stale-line:facts"
	}
	for _, t := range s.txs {
		for _, r := range t.ins {
			if r.kind != 'u' && r.kind != 'g' {
				continue
			}
			u := w.catalog[r.k]
			e, err := ci.chain.FetchUtxoEntry(u.op)
			if err != nil {
				panic(err)
			}
			avail := e != nil && !e.IsSpent()
			if r.kind == 'g' && avail {
				return "stale-line:utxo"
			}
			if r.kind == 'u' && (!avail || e.Amount() != r.val || e.BlockHeight() != r.height || e.IsCoinBase() != r.cb) {
				return "stale-line:utxo"
			}
			if r.kind == 'u' && r.mtpPrev != 0 && r.mtpPrev != realMTP(ci, r.height-1) {
				return "stale-line:mtp"
			}
		}
	}

	if s.dp != "" && (s.dp != diffParams(ci.params) || s.hist != realHist(ci)) {
		return "stale-line:difficulty"
	}
	// 2. the oracle values the line carries about the pool
	for i, o := range s.analyze(w, bp) {
		t := s.txs[i]
		if o.wt != t.wt || o.sc != t.sc || o.hw != t.hw || o.so != t.so || o.prio != t.prio {
			dbg("oracle tx %d: have %v want %v", i, t, o)
			return "stale-line:oracle"
		}
	}

	return ""
}

// observe renders the template and re-validates it independently.
func (s *scenario) observe(w *world, ci *chainInst, bp *builtPool, gen *mining.BlkTmplGenerator,
	tmpl *mining.BlockTemplate) string {

	blk := tmpl.Block
	n := len(blk.Transactions)
	if n == 0 || len(tmpl.Fees) != n || len(tmpl.SigOpCosts) != n {
		return "shape"
	}
	var sel []int64
	pos := map[int]int{}
	for i, tx := range blk.Transactions[1:] {
		j, ok := bp.index[tx.TxHash()]
		if !ok {
			return "foreign-tx"
		}
		if _, dup := pos[j]; dup {
			return "dup-tx"
		}
		pos[j] = i
		sel = append(sel, int64(j))
	}
	cb := blk.Transactions[0]
	cbv := int64(0)
	for _, o := range cb.TxOut {
		cbv += o.Value
	}
	ublk := btcutil.NewBlock(blk)
	ublk.SetHeight(s.nextH)
	weight := blockchain.GetBlockWeight(ublk)

	// independent recomputation: fees from the catalogue/pool amounts, sigop
	// cost from a view built here, parents-before-children.
	full := s.fullView(w, bp, false)
	feeOK, sigOK, depOK := true, true, true
	sumFees := int64(0)
	for i, j64 := range sel {
		j := int(j64)
		t := s.txs[j]
		in := int64(0)
		for _, r := range t.ins {
			switch r.kind {
			case 'u':
				in += w.catalog[r.k].val
			case 'p':
				pp, ok := pos[r.k]
				if !ok || pp >= i {
					depOK = false
				}
				if r.idx < len(s.txs[r.k].outs) {
					in += s.txs[r.k].outs[r.idx].amt
				}
			default:
				depOK = false
			}
		}
		out := int64(0)
		for _, o := range t.outs {
			if o.kind != 'D' {
				out += o.amt
			}
		}
		if tmpl.Fees[i+1] != in-out {
			feeOK = false
		}
		sumFees += in - out
		c, err := blockchain.GetSigOpCost(bp.txs[j], false, full, true, s.seg)
		if err != nil || int64(c) != tmpl.SigOpCosts[i+1] {
			sigOK = false
		}
	}
	if tmpl.Fees[0] != -sumFees {
		feeOK = false
	}
	if c, err := blockchain.GetSigOpCost(btcutil.NewTx(cb), true, full, true, s.seg); err != nil || int64(c) != tmpl.SigOpCosts[0] {
		sigOK = false
	}
	payOK := cbv == blockchain.CalcBlockSubsidy(s.nextH, ci.params)+sumFees && cb.TxOut[0].Value == cbv
	anyWit := false
	for _, tx := range blk.Transactions[1:] {
		if tx.HasWitness() {
			anyWit = true
		}
	}
	wcOK := true
	if tmpl.WitnessCommitment != nil || anyWit {
		wcOK = blockchain.ValidateWitnessCommitment(ublk) == nil
		if _, found := blockchain.ExtractWitnessCommitment(ublk.Transactions()[0]); !found {
			wcOK = false
		}
	}
	addrOK := tmpl.ValidPayAddress == s.addr && tmpl.Height == s.nextH
	// secondary APIs must agree with the template: merkle tree store root,
	// weight as the sum of its parts, AddWitnessCommitment called directly on
	// a commitment-free copy of the coinbase
	if !s.apisAgree(tmpl, ublk, weight) {
		addrOK = false
	}

	ccb := ci.chain.CheckConnectBlockTemplate(ublk) == nil

	// update time and extra nonce, then re-validate
	unow := s.now + 31
	if s.unow != 0 {
		unow = s.unow
	}
	ci.clock.set(unow)
	upd := *blk
	upd.Transactions = make([]*wire.MsgTx, n)
	for i, tx := range blk.Transactions {
		upd.Transactions[i] = tx.Copy()
	}
	nonce := uint64(0x1234567)
	if s.en != 0 {
		nonce = s.en
	}
	updOK := gen.UpdateBlockTime(&upd) == nil && gen.UpdateExtraNonce(&upd, s.nextH, nonce) == nil
	if want, err := mining.VerifStandardCoinbaseScript(s.nextH, nonce); err != nil ||
		!bytes.Equal(upd.Transactions[0].TxIn[0].SignatureScript, want) ||
		upd.Header.Timestamp.Unix() != headerTimeAt(unow, s.mtp) || (s.dp == "" && upd.Header.Bits != blk.Header.Bits) {
		updOK = false
	}
	ub := btcutil.NewBlock(&upd)
	ub.SetHeight(s.nextH)
	if updOK {
		if err := ci.chain.CheckConnectBlockTemplate(ub); err != nil {
			dbg("updated template: %v", err)
			updOK = false
		}
		if blockchain.GetBlockWeight(ub) > blockchain.MaxBlockWeight {
			updOK = false
		}
	}

	s.diffObs = ""
	if s.dp != "" {
		s.diffObs = fmt.Sprintf(" bits=%08x utime=%d ubits=%08x", blk.Header.Bits, upd.Header.Timestamp.Unix(), upd.Header.Bits)
	}
	// solve and connect
	if !s.pb {
		if ci.chain.BestSnapshot().Height+1 != s.nextH {
			return "chain-moved"
		}
		return s.render(tmpl, sel, cbv, weight, feeOK, sigOK, depOK, payOK, wcOK, addrOK, ccb, updOK, "-")
	}
	final := ublk
	if s.upd {
		final = ub
	}
	hdr := &final.MsgBlock().Header
	solve(hdr)
	fb := btcutil.NewBlock(final.MsgBlock())
	isMain, isOrphan, err := ci.chain.ProcessBlock(fb, blockchain.BFNone)
	pb := err == nil && isMain && !isOrphan && ci.chain.BestSnapshot().Hash == *fb.Hash()
	if !pb {
		dbg("ProcessBlock: %v main=%v orphan=%v", err, isMain, isOrphan)
	}

	return s.render(tmpl, sel, cbv, weight, feeOK, sigOK, depOK, payOK, wcOK, addrOK, ccb, updOK, b2s(pb))
}

func (s *scenario) render(tmpl *mining.BlockTemplate, sel []int64, cbv int64, weight int64,
	feeOK, sigOK, depOK, payOK, wcOK, addrOK, ccb, updOK bool, pb string) string {
	sel, fees, sigs := s.canonRuns(sel, tmpl.Fees, tmpl.SigOpCosts)
	return fmt.Sprintf("ok sel=%s fees=%s sig=%s cbv=%d wc=%s w=%d chk=fee:%s,sig:%s,dep:%s,pay:%s,wc:%s,meta:%s,ccb:%s,upd:%s,pb:%s",
		joinInts(sel), joinInts(fees), joinInts(sigs), cbv, b2s(tmpl.WitnessCommitment != nil), weight,
		b2s(feeOK), b2s(sigOK), b2s(depOK), b2s(payOK), b2s(wcOK), b2s(addrOK), b2s(ccb), b2s(updOK), pb) +
		",c01:" + b2s(ccb) + s.diffObs
}

// realPool admits the pool transactions to a real mempool.TxPool (parents
// first).  A transaction the pool refuses makes the line unusable.
func (s *scenario) realPool(ci *chainInst, bp *builtPool) (*mempool.TxPool, string) {
	mp := mempool.New(&mempool.Config{
		Policy: mempool.Policy{
			MaxTxVersion: 2, DisableRelayPriority: true, AcceptNonStd: true, FreeTxRelayLimit: 1e9,
			MaxOrphanTxs: 10, MaxOrphanTxSize: 100000, MaxSigOpCostPerTx: blockchain.MaxBlockSigOpsCost,
			MinRelayTxFee: 0,
		},
		ChainParams:    ci.params,
		FetchUtxoView:  ci.chain.FetchUtxoView,
		BestHeight:     func() int32 { return ci.chain.BestSnapshot().Height },
		MedianTimePast: func() time.Time { return ci.chain.BestSnapshot().MedianTime },
		CalcSequenceLock: func(tx *btcutil.Tx, view *blockchain.UtxoViewpoint) (*blockchain.SequenceLock, error) {
			return ci.chain.CalcSequenceLock(tx, view, true)
		},
		IsDeploymentActive: ci.chain.IsDeploymentActive,
		SigCache:           ci.sigc,
		HashCache:          ci.hashc,
	})
	done := make([]bool, len(bp.txs))
	var add func(i int) string
	add = func(i int) string {
		if done[i] {
			return ""
		}
		done[i] = true
		for _, r := range s.txs[i].ins {
			if r.kind == 'p' {
				if res := add(r.k); res != "" {
					return res
				}
			}
		}
		if _, err := mp.ProcessTransaction(bp.txs[i], false, false, 0); err != nil {
			dbg("pool refuses tx %d: %v", i, err)
			return "pool-reject"
		}
		return ""
	}
	for i := range bp.txs {
		if res := add(i); res != "" {
			return nil, res
		}
	}
	// the descriptor values the line predicts must be the pool's
	for _, d := range mp.MiningDescs() {
		j := bp.index[*d.Tx.Hash()]
		if d.Fee != s.txs[j].fee || (d.FeePerKB != s.txs[j].fpk && !s.admPre) {
			dbg("pool desc %d: fee %d fpk %d", j, d.Fee, d.FeePerKB)
			return nil, "stale-line:desc"
		}
	}
	return mp, ""
}

func headerTimeAt(now, mtp int64) int64 {
	if now < mtp+1 {
		return mtp + 1
	}
	return now
}

// apisAgree cross-checks the exported helpers of the anchor files against the
// template they should describe.
func (s *scenario) apisAgree(tmpl *mining.BlockTemplate, ublk *btcutil.Block, weight int64) bool {
	txs := ublk.Transactions()
	store := blockchain.BuildMerkleTreeStore(txs, false)
	if len(store) == 0 || store[len(store)-1] == nil || *store[len(store)-1] != tmpl.Block.Header.MerkleRoot ||
		blockchain.CalcMerkleRoot(txs, false) != tmpl.Block.Header.MerkleRoot {
		return false
	}
	sum := int64(4 * (80 + wire.VarIntSerializeSize(uint64(len(txs)))))
	for _, tx := range txs {
		sum += blockchain.GetTransactionWeight(tx)
	}
	if sum != weight || int64(tmpl.Block.SerializeSizeStripped()*3+tmpl.Block.SerializeSize()) != weight {
		return false
	}
	if tmpl.WitnessCommitment != nil {
		cb := tmpl.Block.Transactions[0].Copy()
		cb.TxOut = cb.TxOut[:len(cb.TxOut)-1]
		cb.TxIn[0].Witness = nil
		cbt := btcutil.NewTx(cb)
		fresh := make([]*btcutil.Tx, len(txs))
		copy(fresh, txs)
		fresh[0] = cbt
		got := mining.AddWitnessCommitment(cbt, fresh)
		if !bytes.Equal(got, tmpl.WitnessCommitment) || cbt.MsgTx().TxHash() != tmpl.Block.Transactions[0].TxHash() {
			return false
		}
		wstore := blockchain.BuildMerkleTreeStore(txs, true)
		if *wstore[len(wstore)-1] != blockchain.CalcMerkleRoot(txs, true) {
			return false
		}
	}
	return true
}

// realMTP reads the past median time of the main-chain block at the given
// height from the chain itself.
func realMTP(ci *chainInst, height int32) int64 {
	var ts []int64
	for h := height; h >= 0 && len(ts) < 11; h-- {
		hash, err := ci.chain.BlockHashByHeight(h)
		if err != nil {
			panic(err)
		}
		hdr, err := ci.chain.HeaderByHash(hash)
		if err != nil {
			panic(err)
		}
		ts = append(ts, hdr.Timestamp.Unix())
	}
	sort.Slice(ts, func(i, j int) bool { return ts[i] < ts[j] })
	return ts[len(ts)/2]
}

// diffParams renders the difficulty parameters of a network the way C09's
// model reads them.
func diffParams(p *chaincfg.Params) string {
	return fmt.Sprintf("%s:%08x:%s:%s:%d:%d:%d:%d:%s", p.PowLimit.Text(16), p.PowLimitBits, b2s(p.PoWNoRetargeting),
		b2s(p.ReduceMinDifficulty), int64(p.MinDiffReductionTime/time.Second), int64(p.TargetTimespan/time.Second),
		int64(p.TargetTimePerBlock/time.Second), p.RetargetAdjustmentFactor, b2s(p.EnforceBIP94))
}

// realHist reads (timestamp, bits) of the whole best chain, tip first.
func realHist(ci *chainInst) string {
	best := ci.chain.BestSnapshot()
	var parts []string
	for h := best.Height; h >= 0; h-- {
		hash, err := ci.chain.BlockHashByHeight(h)
		if err != nil {
			panic(err)
		}
		hdr, err := ci.chain.HeaderByHash(hash)
		if err != nil {
			panic(err)
		}
		parts = append(parts, fmt.Sprintf("%d:%08x", hdr.Timestamp.Unix(), hdr.Bits))
	}
	return strings.Join(parts, ",")
}

// canonRuns brings the rendered selection into a canonical order: the order
// among transactions whose queue keys (priority, fee rate) are genuinely equal
// is an internal matter of the priority queue, so every maximal run of
// consecutive selected transactions with identical keys is sorted by pool
// index (fees and sigop costs move with their transaction; entry 0 is the
// coinbase's).  With distinct keys this is the identity.
func (s *scenario) canonRuns(sel []int64, fees, sigs []int64) ([]int64, []int64, []int64) {
	n := len(sel)
	if len(fees) != n+1 || len(sigs) != n+1 {
		return sel, fees, sigs
	}
	osel := append([]int64{}, sel...)
	ofees := append([]int64{}, fees...)
	osigs := append([]int64{}, sigs...)
	for i := 0; i < n; {
		j := i + 1
		for j < n && s.txs[sel[j]].prio == s.txs[sel[i]].prio && s.txs[sel[j]].fpk == s.txs[sel[i]].fpk {
			j++
		}
		idx := make([]int, 0, j-i)
		for k := i; k < j; k++ {
			idx = append(idx, k)
		}
		sort.Slice(idx, func(a, b int) bool { return sel[idx[a]] < sel[idx[b]] })
		for k, src := range idx {
			osel[i+k], ofees[i+k+1], osigs[i+k+1] = sel[src], fees[src+1], sigs[src+1]
		}
		i = j
	}
	return osel, ofees, osigs
}
