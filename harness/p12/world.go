// Package p12: correspondence for C12 (block templates are valid and correctly
// accounted).  world.go builds the deterministic "worlds": a real BlockChain on
// synthetic regtest-like parameters with a catalogue of spendable outputs of
// several script kinds.  A world is built once per process into an ffldb
// directory; every case works on a private copy of that directory, so a case
// may reorganise the chain and connect its solved template without touching
// the next case.
package p12

import (
	"fmt"
	"io"
	"math"
	"os"
	"path/filepath"
	"sync"
	"time"

	"github.com/btcsuite/btcd/address/v2"
	"github.com/btcsuite/btcd/blockchain"
	"github.com/btcsuite/btcd/btcec/v2"
	"github.com/btcsuite/btcd/btcutil/v2"
	"github.com/btcsuite/btcd/chaincfg/v2"
	"github.com/btcsuite/btcd/chainhash/v2"
	"github.com/btcsuite/btcd/database"
	_ "github.com/btcsuite/btcd/database/ffldb"
	"github.com/btcsuite/btcd/txscript/v2"
	"github.com/btcsuite/btcd/wire/v2"
)

const (
	worldT0        = int64(1600000000) // 2020-09-13, well after every soft-fork switch-over time
	worldSpacing   = int64(600)
	worldBlocks    = 24
	worldMaturity  = 3
	worldHalving   = 10
	fundOutputs    = 20
	farFuture      = int64(4000000000)
	seqNonFinal    = uint32(0xfffffffe)
	worldCount     = 5
	regtestGenesisTime = int64(1296688602)
	maxUint32Const = math.MaxUint32
)

// fakeClock is the MedianTimeSource handed to the chain, the pool and the
// generator: the case decides what "now" is.
type fakeClock struct {
	mu  sync.Mutex
	now time.Time
}

func (c *fakeClock) AdjustedTime() time.Time {
	c.mu.Lock()
	defer c.mu.Unlock()
	return c.now
}
func (c *fakeClock) AddTimeSample(string, time.Time) {}
func (c *fakeClock) Offset() time.Duration             { return 0 }
func (c *fakeClock) set(t int64) {
	c.mu.Lock()
	c.now = time.Unix(t, 0)
	c.mu.Unlock()
}

// blocksOf is the length of a world's chain.  World 3 is short so that the next
// heights are 15..18: the BIP34 height in the coinbase script changes from a
// small-integer opcode (OP_15, OP_16) to a data push (0x01 0x11).
func blocksOf(world int) int {
	if world == 3 {
		return 14
	}
	if world == 4 {
		// next heights 127..130: the BIP34 height needs a second byte from 128 on (sign bit)
		return 126
	}
	return worldBlocks
}

// spacing is the block interval of a world.  World 2 mines four times faster
// than its target so that the first two retargets raise the difficulty.
func spacing(world int) int64 {
	if world == 2 {
		return 150
	}
	return worldSpacing
}

// makeParams returns a private deep copy of regtest-like parameters.  World 0
// has CSV and segwit active from height 1 (regtest default); world 1 has both
// never active.
func makeParams(world int) *chaincfg.Params {
	p := chaincfg.RegressionNetParams
	p.Checkpoints = nil
	p.CoinbaseMaturity = worldMaturity
	p.SubsidyReductionInterval = worldHalving
	for i := range p.Deployments {
		d := p.Deployments[i]
		d.DeploymentStarter = chaincfg.NewMedianTimeDeploymentStarter(time.Time{})
		d.DeploymentEnder = chaincfg.NewMedianTimeDeploymentEnder(time.Time{})
		if world == 1 && (i == chaincfg.DeploymentCSV || i == chaincfg.DeploymentSegwit ||
			i == chaincfg.DeploymentTaproot) {
			d.AlwaysActiveHeight = 0
			d.DeploymentStarter = chaincfg.NewMedianTimeDeploymentStarter(time.Unix(farFuture, 0))
			d.DeploymentEnder = chaincfg.NewMedianTimeDeploymentEnder(time.Unix(farFuture+1000, 0))
		}
		p.Deployments[i] = d
	}
	if world == 1 {
		// like mainnet: UpdateBlockTime must not touch the difficulty bits
		p.ReduceMinDifficulty = false
	}
	if world == 2 {
		// testnet-style: retargeting every 10 blocks, minimum difficulty allowed 20 minutes
		// after the tip; the chain's difficulty is above the minimum
		p.PoWNoRetargeting = false
		p.ReduceMinDifficulty = true
		p.TargetTimePerBlock = 10 * time.Minute
		p.TargetTimespan = 100 * time.Minute
		p.RetargetAdjustmentFactor = 4
		p.MinDiffReductionTime = 20 * time.Minute
	}
	return &p
}

// ---------------------------------------------------------------- keys and scripts

var (
	privKey, pubKey = btcec.PrivKeyFromBytes([]byte{
		0x0c, 0x12, 0x0c, 0x12, 0x0c, 0x12, 0x0c, 0x12, 0x0c, 0x12, 0x0c, 0x12, 0x0c, 0x12, 0x0c, 0x12,
		0x0c, 0x12, 0x0c, 0x12, 0x0c, 0x12, 0x0c, 0x12, 0x0c, 0x12, 0x0c, 0x12, 0x0c, 0x12, 0x0c, 0x13})
	pubKeyHash    = address.Hash160(pubKey.SerializeCompressed())
	scriptTrue    = []byte{txscript.OP_TRUE}
	scriptMultisg = []byte{txscript.OP_CHECKMULTISIG}
	// redeemHeavy counts as 20 accurate sigops (CHECKMULTISIG not preceded by a
	// small integer) and evaluates to true without any signature.
	redeemHeavy = []byte{txscript.OP_0, txscript.OP_IF, txscript.OP_CHECKMULTISIG, txscript.OP_ENDIF, txscript.OP_1}
)

func mustScript(b *txscript.ScriptBuilder) []byte {
	s, err := b.Script()
	if err != nil {
		panic(err)
	}
	return s
}

// pkScriptFor returns the output script of a kind letter.
//
//	T anyone-can-spend (OP_TRUE)      K p2pkh          W p2wpkh
//	S p2wsh(OP_TRUE)                  H p2sh(redeemHeavy)
//	M bare OP_CHECKMULTISIG (20 legacy sigops, unspendable in practice)
//	R OP_RETURN (provably unspendable)
func pkScriptFor(kind byte) []byte {
	switch kind {
	case 'T':
		return scriptTrue
	case 'K':
		return mustScript(txscript.NewScriptBuilder().AddOp(txscript.OP_DUP).AddOp(txscript.OP_HASH160).
			AddData(pubKeyHash).AddOp(txscript.OP_EQUALVERIFY).AddOp(txscript.OP_CHECKSIG))
	case 'W':
		return mustScript(txscript.NewScriptBuilder().AddOp(txscript.OP_0).AddData(pubKeyHash))
	case 'S':
		h := chainhash.HashB(scriptTrue)
		return mustScript(txscript.NewScriptBuilder().AddOp(txscript.OP_0).AddData(h))
	case 'H':
		return mustScript(txscript.NewScriptBuilder().AddOp(txscript.OP_HASH160).
			AddData(address.Hash160(redeemHeavy)).AddOp(txscript.OP_EQUAL))
	case 'M':
		return scriptMultisg
	case 'R':
		return []byte{txscript.OP_RETURN, 0x01, 0x2a}
	}
	panic("bad kind " + string(kind))
}

func payAddress(p *chaincfg.Params) address.Address {
	a, err := address.NewAddressPubKeyHash(pubKeyHash, p)
	if err != nil {
		panic(err)
	}
	return a
}

// ---------------------------------------------------------------- world

type utxo struct {
	op     wire.OutPoint
	val    int64
	height int32
	kind   byte
	cb     bool
}

type world struct {
	id      int
	dir     string
	catalog []utxo
	// hashes[h] is the main-chain block hash at height h, times[h] its timestamp.
	hashes []chainhash.Hash
	times  []int64
	bits   []uint32
}

type chainInst struct {
	w      *world
	params *chaincfg.Params
	db     database.DB
	chain  *blockchain.BlockChain
	clock  *fakeClock
	dir    string
	sigc   *txscript.SigCache
	hashc  *txscript.HashCache
}

func (ci *chainInst) close() {
	if ci.db != nil {
		ci.db.Close()
	}
	if ci.dir != "" {
		os.RemoveAll(ci.dir)
	}
}

func openChain(w *world, dir string, create bool, utxoCache uint64) (*chainInst, error) {
	params := makeParams(w.id)
	var db database.DB
	var err error
	if create {
		db, err = database.Create("ffldb", dir, params.Net)
	} else {
		db, err = database.Open("ffldb", dir, params.Net)
	}
	if err != nil {
		return nil, err
	}
	clock := &fakeClock{}
	clock.set(worldT0 + worldSpacing*(worldBlocks+200))
	sigc := txscript.NewSigCache(1000)
	hashc := txscript.NewHashCache(1000)
	chain, err := blockchain.New(&blockchain.Config{
		DB: db, ChainParams: params, TimeSource: clock, SigCache: sigc, HashCache: hashc,
		UtxoCacheMaxSize: utxoCache,
	})
	if err != nil {
		db.Close()
		return nil, err
	}
	return &chainInst{w: w, params: params, db: db, chain: chain, clock: clock, sigc: sigc, hashc: hashc}, nil
}

func coinbaseScript(height int32, extra int64) []byte {
	return mustScript(txscript.NewScriptBuilder().AddInt64(int64(height)).AddInt64(extra).AddData([]byte("/c12/")))
}

// buildBlock assembles and solves a block on top of prev (hash, height-1) with
// the given non-coinbase transactions (none of which may carry witness data).
func buildBlock(params *chaincfg.Params, prev chainhash.Hash, height int32, ts int64, extra int64,
	txs []*wire.MsgTx, fees int64, bits uint32) *btcutil.Block {

	cb := wire.NewMsgTx(1)
	cb.AddTxIn(&wire.TxIn{
		PreviousOutPoint: *wire.NewOutPoint(&chainhash.Hash{}, wire.MaxPrevOutIndex),
		SignatureScript:  coinbaseScript(height, extra), Sequence: wire.MaxTxInSequenceNum})
	cb.AddTxOut(&wire.TxOut{Value: blockchain.CalcBlockSubsidy(height, params) + fees, PkScript: scriptTrue})
	all := append([]*wire.MsgTx{cb}, txs...)
	utxs := make([]*btcutil.Tx, len(all))
	for i, t := range all {
		utxs[i] = btcutil.NewTx(t)
	}
	var blk wire.MsgBlock
	blk.Header = wire.BlockHeader{
		Version: 0x20000000, PrevBlock: prev, MerkleRoot: blockchain.CalcMerkleRoot(utxs, false),
		Timestamp: time.Unix(ts, 0), Bits: bits,
	}
	for _, t := range all {
		blk.AddTransaction(t)
	}
	solve(&blk.Header)
	b := btcutil.NewBlock(&blk)
	b.SetHeight(height)
	return b
}

func solve(h *wire.BlockHeader) {
	target := blockchain.CompactToBig(h.Bits)
	for n := uint32(0); ; n++ {
		h.Nonce = n
		hash := h.BlockHash()
		if blockchain.HashToBig(&hash).Cmp(target) <= 0 {
			return
		}
	}
}

var fundKinds = []byte{'T', 'T', 'K', 'W', 'S', 'H', 'T', 'K', 'W', 'S'}

// fundingTx spends the whole coinbase of an earlier block into fundOutputs
// outputs of mixed kinds and amounts (no fee).
func fundingTx(cbOut wire.OutPoint, cbVal int64, salt int) *wire.MsgTx {
	tx := wire.NewMsgTx(1)
	tx.AddTxIn(&wire.TxIn{PreviousOutPoint: cbOut, Sequence: wire.MaxTxInSequenceNum})
	rest := cbVal
	for i := 0; i < fundOutputs; i++ {
		v := int64(100000 * (1 + (i*7+salt*3)%13))
		if i%5 == 4 {
			v *= 50
		}
		if salt == 5 && i == 11 {
			// spent alone at height 25 into one OP_TRUE output this gives a priority of
			// exactly MinHighPriority: 57.6e6 * 20 blocks / (61 - 41) bytes
			v = 57600000
		}
		if i == fundOutputs-1 || v > rest {
			v = rest
		}
		rest -= v
		tx.AddTxOut(&wire.TxOut{Value: v, PkScript: pkScriptFor(fundKinds[(i+salt)%len(fundKinds)])})
		if rest == 0 {
			break
		}
	}
	return tx
}

// tmpBase prefers a memory-backed directory: every case copies and reopens a
// database, which is dominated by fsync on a disk.
func tmpBase() string {
	if st, err := os.Stat("/dev/shm"); err == nil && st.IsDir() {
		return "/dev/shm"
	}
	return ""
}

// sweepStale removes world / case directories a killed run left behind.
func sweepStale() {
	base := tmpBase()
	if base == "" {
		base = os.TempDir()
	}
	ents, err := os.ReadDir(base)
	if err != nil {
		return
	}
	for _, e := range ents {
		n := e.Name()
		if len(n) < 7 || (n[:7] != "c12case" && (len(n) < 8 || n[:8] != "c12world")) {
			continue
		}
		if info, err := e.Info(); err == nil && time.Since(info.ModTime()) > 3*time.Hour {
			os.RemoveAll(filepath.Join(base, n))
		}
	}
}

func buildWorld(id int) (*world, error) {
	sweepStale()
	dir, err := os.MkdirTemp(tmpBase(), fmt.Sprintf("c12world%d-", id))
	if err != nil {
		return nil, err
	}
	w := &world{id: id, dir: dir}
	ci, err := openChain(w, filepath.Join(dir, "db"), true, 1<<20)
	if err != nil {
		return nil, err
	}
	w.hashes = []chainhash.Hash{*ci.params.GenesisHash}
	w.times = []int64{ci.params.GenesisBlock.Header.Timestamp.Unix()}
	w.bits = []uint32{ci.params.GenesisBlock.Header.Bits}
	type cbInfo struct {
		op  wire.OutPoint
		val int64
	}
	cbs := map[int32]cbInfo{}
	for h := int32(1); h <= int32(blocksOf(id)); h++ {
		var txs []*wire.MsgTx
		if src, ok := cbs[h-worldMaturity-1]; ok && h >= 5 && (id != 4 || h >= 105) {
			ft := fundingTx(src.op, src.val, int(h))
			txs = append(txs, ft)
			fh := ft.TxHash()
			for i, o := range ft.TxOut {
				kind := fundKinds[(i+int(h))%len(fundKinds)]
				w.catalog = append(w.catalog, utxo{op: wire.OutPoint{Hash: fh, Index: uint32(i)},
					val: o.Value, height: h, kind: kind})
			}
			delete(cbs, h-worldMaturity-1)
		}
		ts := worldT0 + spacing(id)*int64(h)
		bits, err := ci.chain.CalcNextRequiredDifficulty(time.Unix(ts, 0))
		if err != nil {
			return nil, err
		}
		blk := buildBlock(ci.params, w.hashes[h-1], h, ts, 0, txs, 0, bits)
		_, isOrphan, err := ci.chain.ProcessBlock(blk, blockchain.BFNone)
		if err != nil || isOrphan {
			return nil, fmt.Errorf("world block %d: %v orphan=%v", h, err, isOrphan)
		}
		w.hashes = append(w.hashes, *blk.Hash())
		w.times = append(w.times, ts)
		w.bits = append(w.bits, bits)
		cbt := blk.Transactions()[0]
		cbs[h] = cbInfo{wire.OutPoint{Hash: *cbt.Hash(), Index: 0}, cbt.MsgTx().TxOut[0].Value}
	}
	// The unspent coinbases (the most recent ones) close the catalogue.
	for h := int32(1); h <= int32(blocksOf(id)); h++ {
		if c, ok := cbs[h]; ok {
			w.catalog = append(w.catalog, utxo{op: c.op, val: c.val, height: h, kind: 'T', cb: true})
		}
	}
	if err := ci.chain.FlushUtxoCache(blockchain.FlushRequired); err != nil {
		return nil, err
	}
	ci.db.Close()
	return w, nil
}

var (
	worldMu sync.Mutex
	worlds  = map[int]*world{}
	shared  = map[int]*chainInst{}
)

// getShared returns the long-lived chain instance of a world, used by the
// cases that never change the chain (no reorganisation, no ProcessBlock).
func getShared(id int) *chainInst {
	w := getWorld(id)
	worldMu.Lock()
	defer worldMu.Unlock()
	if ci, ok := shared[id]; ok {
		return ci
	}
	ci, err := w.instantiate()
	if err != nil {
		panic(err)
	}
	shared[id] = ci
	return ci
}

func getWorld(id int) *world {
	worldMu.Lock()
	defer worldMu.Unlock()
	if w, ok := worlds[id]; ok {
		return w
	}
	w, err := buildWorld(id)
	if err != nil {
		panic(fmt.Sprintf("buildWorld(%d): %v", id, err))
	}
	worlds[id] = w
	return w
}

// CleanupWorlds removes the cached world directories.
func CleanupWorlds() {
	worldMu.Lock()
	defer worldMu.Unlock()
	for _, ci := range shared {
		ci.close()
	}
	shared = map[int]*chainInst{}
	for _, w := range worlds {
		os.RemoveAll(w.dir)
	}
	worlds = map[int]*world{}
}

func copyDir(src, dst string) error {
	return filepath.Walk(src, func(path string, info os.FileInfo, err error) error {
		if err != nil {
			return err
		}
		rel, _ := filepath.Rel(src, path)
		target := filepath.Join(dst, rel)
		if info.IsDir() {
			return os.MkdirAll(target, 0o755)
		}
		in, err := os.Open(path)
		if err != nil {
			return err
		}
		defer in.Close()
		out, err := os.Create(target)
		if err != nil {
			return err
		}
		defer out.Close()
		_, err = io.Copy(out, in)
		return err
	})
}

// instantiate opens a private copy of the world's chain.
func (w *world) instantiate() (*chainInst, error) { return w.instantiateCache(1 << 20) }

// instantiateCache opens a private copy with the given utxo cache size (the
// world was built with 1 MiB; 0 flushes on every block).
func (w *world) instantiateCache(utxoCache uint64) (*chainInst, error) {
	dir, err := os.MkdirTemp(tmpBase(), "c12case-")
	if err != nil {
		return nil, err
	}
	if err := copyDir(filepath.Join(w.dir, "db"), filepath.Join(dir, "db")); err != nil {
		os.RemoveAll(dir)
		return nil, err
	}
	ci, err := openChain(w, filepath.Join(dir, "db"), false, utxoCache)
	if err != nil {
		os.RemoveAll(dir)
		return nil, err
	}
	ci.dir = dir
	return ci, nil
}

// reorg mines k empty blocks on top of main-chain height f.  With k >
// worldBlocks-f the side branch becomes the best chain.
func (ci *chainInst) reorg(f, k int) error {
	prev := ci.w.hashes[f]
	for i := 1; i <= k; i++ {
		h := int32(f + i)
		ts := worldT0 + spacing(ci.w.id)*int64(h) + 7
		blk := buildBlock(ci.params, prev, h, ts, 1, nil, 0, ci.params.PowLimitBits)
		_, isOrphan, err := ci.chain.ProcessBlock(blk, blockchain.BFNone)
		if err != nil || isOrphan {
			return fmt.Errorf("reorg block %d: %v orphan=%v", h, err, isOrphan)
		}
		prev = *blk.Hash()
	}
	return nil
}

// extend mines k empty blocks on top of the current tip.
func (ci *chainInst) extend(k int) error {
	for i := 0; i < k; i++ {
		best := ci.chain.BestSnapshot()
		h := best.Height + 1
		ts := worldT0 + spacing(ci.w.id)*int64(h) + 13
		bits, err := ci.chain.CalcNextRequiredDifficulty(time.Unix(ts, 0))
		if err != nil {
			return err
		}
		blk := buildBlock(ci.params, best.Hash, h, ts, 2, nil, 0, bits)
		_, isOrphan, err := ci.chain.ProcessBlock(blk, blockchain.BFNone)
		if err != nil || isOrphan {
			return fmt.Errorf("extend block %d: %v orphan=%v", h, err, isOrphan)
		}
	}
	return nil
}
