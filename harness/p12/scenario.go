package p12

import (
	"fmt"
	"math"
	"sort"
	"strconv"
	"strings"
	"time"

	"github.com/btcsuite/btcd/blockchain"
	"github.com/btcsuite/btcd/btcutil/v2"
	"github.com/btcsuite/btcd/chainhash/v2"
	"github.com/btcsuite/btcd/mining"
	"github.com/btcsuite/btcd/txscript/v2"
	"github.com/btcsuite/btcd/wire/v2"
)

// ---------------------------------------------------------------- the scenario a line carries

// inRef is one transaction input:
//
//	u<k>:<val>:<height>:<cb>  world output k, claimed unspent on the case's chain
//	g<k>                      world output k, claimed NOT available on the case's chain
//	p<j>.<i>                  output i of pool transaction j
//	x<n>                      an outpoint nobody knows
//	c                         the null outpoint (a coinbase-shaped pool transaction)
//
// a trailing '!' asks for a script that fails under the standard flags.
type inRef struct {
	kind   byte
	k, idx int
	val    int64
	height int32
	cb     bool
	bad    bool
	// BIP68: explicit sequence number (hasSeq) and, for world outputs, the past median time of the
	// block before the one holding the output (only carried when a time-based lock needs it)
	seq     uint32
	hasSeq  bool
	mtpPrev int64
}

type outSpec struct {
	kind byte
	amt  int64
}

type txSpec struct {
	ins      []inRef
	outs     []outSpec
	lockKind byte // '0' none, 'H' height lock, 'T' time lock
	lock     int64
	allMax   bool // every input sequence is 0xffffffff
	// relative lock (BIP68) of input 0 in blocks; -1 = none (tx version 1)
	// descriptor fields handed to the generator by the source
	fee, fpk int64
	// oracle values (recomputed and checked by Exec)
	prio uint64 // IEEE-754 bits of the non-negative float64 priority
	wt   int64
	sc   int64
	hw   bool
	so   bool
	ver  int32 // transaction version (0 = 1)
}

type scenario struct {
	world      int
	roF, roK   int // reorg: roK empty blocks on top of main height roF (roK = 0: none)
	fwd        int // empty blocks mined on top of the tip AFTER the pool was filled
	admPre     bool // real pool filled BEFORE the reorganisation (and not told about it)
	// op "two": template A from the first ka transactions (rev: from all), then template B from
	// all (rev: from the first ka); conc: both generated concurrently
	ka        int
	rev, conc bool
	two       bool
	polB      [4]int64 // policy of template B (op two); polBSet=false: same as A
	polBSet   bool
	nc        bool   // generator built with a nil signature cache
	uc        bool   // private chain copy opened with a zero-sized utxo cache (flush on every block)
	en        uint64 // extra nonce used by the update check (0: default)
	unow      int64  // clock at the time of UpdateBlockTime (0: now + 31)
	diffObs   string // rendered by observe
	// internal tuning values of the generator, read from the tree and passed to the model
	race bool  // the tip moves forward while NewBlockTemplate runs (pinned through the source)
	reuse bool // op "reuse"
	mhp uint64 // order key (IEEE bits) of mining.MinHighPriority; 0 = not on the line
	bho int64  // blockHeaderOverhead; 0 = not on the line
	dp, hist  string // difficulty parameters and header history (tip first) for worlds with retargeting
	now        int64
	addr       bool
	upd        bool // connect the time/extra-nonce updated block instead of the original one
	pb         bool // solve the block and hand it to ProcessBlock (on a private copy of the chain)
	src        string
	minW, maxW uint32
	prioSize   uint32
	minFree    int64
	txs        []txSpec
	// facts about the case's chain, derived by the generator and re-checked by Exec
	nextH    int32
	mtp      int64
	seg, csv bool
	cbw      int64 // weight of the generator's coinbase before the commitment
	cbs      int64 // its sigop cost
	halving  int32
	maturity int32
}

func b2s(b bool) string {
	if b {
		return "1"
	}
	return "0"
}

func (r inRef) String() string {
	s := ""
	switch r.kind {
	case 'u':
		s = fmt.Sprintf("u%d:%d:%d:%s", r.k, r.val, r.height, b2s(r.cb))
		if r.mtpPrev != 0 {
			s += fmt.Sprintf(":%d", r.mtpPrev)
		}
	case 'g':
		s = fmt.Sprintf("g%d", r.k)
	case 'p':
		s = fmt.Sprintf("p%d.%d", r.k, r.idx)
	case 'x':
		s = fmt.Sprintf("x%d", r.k)
	case 'c':
		s = "c"
	}
	if r.hasSeq {
		s += fmt.Sprintf("~%d", r.seq)
	}
	if r.bad {
		s += "!"
	}
	return s
}

func (t txSpec) String() string {
	ins := make([]string, len(t.ins))
	for i, r := range t.ins {
		ins[i] = r.String()
	}
	outs := make([]string, len(t.outs))
	for i, o := range t.outs {
		outs[i] = fmt.Sprintf("%c%d", o.kind, o.amt)
	}
	lock := "0"
	if t.lockKind != '0' {
		lock = fmt.Sprintf("%c%d:%s", t.lockKind, t.lock, b2s(t.allMax))
	}
	os := strings.Join(outs, "+")
	if os == "" {
		os = "-"
	}
	out := fmt.Sprintf("%s/%s/%s/%d/%d/%d/%d/%d/%s/%s", strings.Join(ins, "+"), os, lock,
		t.fee, t.fpk, t.prio, t.wt, t.sc, b2s(t.hw), b2s(t.so))
	if t.ver > 1 {
		out += fmt.Sprintf("/%d", t.ver)
	}
	return out
}

func (s *scenario) line() string {
	var b strings.Builder
	if s.two {
		fmt.Fprintf(&b, "C12 two ka=%d rev=%s conc=%s w=%d", s.ka, b2s(s.rev), b2s(s.conc), s.world)
	} else if s.reuse {
		fmt.Fprintf(&b, "C12 reuse w=%d", s.world)
	} else {
		fmt.Fprintf(&b, "C12 tmpl w=%d", s.world)
	}
	fmt.Fprintf(&b, " ro=%d:%d fwd=%d adm=%s now=%d addr=%s upd=%s pb=%s src=%s pol=%d:%d:%d:%d h=%d mtp=%d seg=%s csv=%s cbw=%d cbs=%d hv=%d mat=%d",
		s.roF, s.roK, s.fwd, b2s(s.admPre), s.now, b2s(s.addr), b2s(s.upd), b2s(s.pb), s.src, s.minW, s.maxW, s.prioSize, s.minFree,
		s.nextH, s.mtp, b2s(s.seg), b2s(s.csv), s.cbw, s.cbs, s.halving, s.maturity)
	if s.polBSet {
		fmt.Fprintf(&b, " polb=%d:%d:%d:%d", s.polB[0], s.polB[1], s.polB[2], s.polB[3])
	}
	if s.nc {
		b.WriteString(" nc=1")
	}
	if s.uc {
		b.WriteString(" uc=1")
	}
	if s.en != 0 {
		fmt.Fprintf(&b, " en=%d", s.en)
	}
	if s.unow != 0 {
		fmt.Fprintf(&b, " unow=%d", s.unow)
	}
	if s.mhp != 0 {
		fmt.Fprintf(&b, " mhp=%d bho=%d", s.mhp, s.bho)
	}
	if s.race {
		b.WriteString(" race=1")
	}
	if s.dp != "" {
		fmt.Fprintf(&b, " dp=%s hist=%s", s.dp, s.hist)
	}
	for _, t := range s.txs {
		b.WriteString(" tx=")
		b.WriteString(t.String())
	}
	return b.String()
}

func pint(s string) int64 {
	v, err := strconv.ParseInt(s, 10, 64)
	if err != nil {
		panic("bad int " + s)
	}
	return v
}

func puint(s string) uint64 {
	v, err := strconv.ParseUint(s, 10, 64)
	if err != nil {
		panic("bad uint " + s)
	}
	return v
}

func parseIn(s string) inRef {
	var r inRef
	if strings.HasSuffix(s, "!") {
		r.bad = true
		s = s[:len(s)-1]
	}
	if i := strings.IndexByte(s, '~'); i >= 0 {
		r.seq = uint32(puint(s[i+1:]))
		r.hasSeq = true
		s = s[:i]
	}
	if s == "" {
		panic("bad input ref")
	}
	r.kind = s[0]
	rest := s[1:]
	switch r.kind {
	case 'u':
		f := strings.Split(rest, ":")
		if len(f) != 4 && len(f) != 5 {
			panic("bad u ref")
		}
		if len(f) == 5 {
			r.mtpPrev = pint(f[4])
		}
		r.k = int(pint(f[0]))
		r.val = pint(f[1])
		r.height = int32(pint(f[2]))
		r.cb = f[3] == "1"
	case 'g', 'x':
		r.k = int(pint(rest))
	case 'p':
		f := strings.Split(rest, ".")
		if len(f) != 2 {
			panic("bad p ref")
		}
		r.k = int(pint(f[0]))
		r.idx = int(pint(f[1]))
	case 'c':
		if rest != "" {
			panic("bad c ref")
		}
	default:
		panic("bad input ref")
	}
	return r
}

func parseTxSpec(s string) txSpec {
	f := strings.Split(s, "/")
	if len(f) != 10 && len(f) != 11 {
		panic("bad tx token")
	}
	var t txSpec
	if len(f) == 11 {
		t.ver = int32(pint(f[10]))
	}
	for _, x := range strings.Split(f[0], "+") {
		t.ins = append(t.ins, parseIn(x))
	}
	if f[1] != "-" {
		for _, x := range strings.Split(f[1], "+") {
			if len(x) < 2 {
				panic("bad out")
			}
			t.outs = append(t.outs, outSpec{x[0], pint(x[1:])})
		}
	}
	t.lockKind = '0'
	t.allMax = true
	if f[2] != "0" {
		t.lockKind = f[2][0]
		if t.lockKind != 'H' && t.lockKind != 'T' {
			panic("bad lock")
		}
		g := strings.Split(f[2][1:], ":")
		if len(g) != 2 {
			panic("bad lock")
		}
		t.lock = pint(g[0])
		t.allMax = g[1] == "1"
	}
	t.fee = pint(f[3])
	t.fpk = pint(f[4])
	t.prio = puint(f[5])
	t.wt = pint(f[6])
	t.sc = pint(f[7])
	t.hw = f[8] == "1"
	t.so = f[9] == "1"
	return t
}

func parseScenario(f []string) *scenario {
	s := &scenario{}
	for _, tok := range f {
		i := strings.IndexByte(tok, '=')
		if i < 0 {
			panic("bad token " + tok)
		}
		k, v := tok[:i], tok[i+1:]
		switch k {
		case "w":
			s.world = int(pint(v))
		case "ro":
			g := strings.Split(v, ":")
			s.roF, s.roK = int(pint(g[0])), int(pint(g[1]))
		case "adm":
			s.admPre = v == "1"
		case "polb":
			g := strings.Split(v, ":")
			if len(g) != 4 {
				panic("bad polb")
			}
			for i := range g {
				s.polB[i] = pint(g[i])
			}
			s.polBSet = true
		case "nc":
			s.nc = v == "1"
		case "uc":
			s.uc = v == "1"
		case "en":
			s.en = puint(v)
		case "race":
			s.race = v == "1"
		case "mhp":
			s.mhp = puint(v)
		case "bho":
			s.bho = pint(v)
		case "unow":
			s.unow = pint(v)
		case "dp":
			s.dp = v
		case "hist":
			s.hist = v
		case "ka":
			s.ka = int(pint(v))
			s.two = true
		case "rev":
			s.rev = v == "1"
		case "conc":
			s.conc = v == "1"
		case "fwd":
			s.fwd = int(pint(v))
		case "now":
			s.now = pint(v)
		case "addr":
			s.addr = v == "1"
		case "upd":
			s.upd = v == "1"
		case "pb":
			s.pb = v == "1"
		case "src":
			s.src = v
		case "pol":
			g := strings.Split(v, ":")
			if len(g) != 4 {
				panic("bad pol")
			}
			s.minW, s.maxW, s.prioSize, s.minFree = uint32(puint(g[0])), uint32(puint(g[1])), uint32(puint(g[2])), pint(g[3])
		case "h":
			s.nextH = int32(pint(v))
		case "mtp":
			s.mtp = pint(v)
		case "seg":
			s.seg = v == "1"
		case "csv":
			s.csv = v == "1"
		case "cbw":
			s.cbw = pint(v)
		case "cbs":
			s.cbs = pint(v)
		case "hv":
			s.halving = int32(pint(v))
		case "mat":
			s.maturity = int32(pint(v))
		case "tx":
			s.txs = append(s.txs, parseTxSpec(v))
		default:
			panic("bad key " + k)
		}
	}
	if s.world < 0 || s.world >= worldCount {
		panic("bad world")
	}
	return s
}

// ---------------------------------------------------------------- chain facts the generator predicts

// chainTimes returns the block timestamps (index = height) of the case's best
// chain after the optional reorganisation.
func (s *scenario) chainTimes() []int64 {
	ts := []int64{regtestGenesisTime}
	for h := 1; h <= blocksOf(s.world); h++ {
		ts = append(ts, worldT0+spacing(s.world)*int64(h))
	}
	if s.reorged() {
		ts = ts[:s.roF+1]
		for i := 1; i <= s.roK; i++ {
			ts = append(ts, worldT0+spacing(s.world)*int64(s.roF+i)+7)
		}
	}
	for i := 0; i < s.fwd; i++ {
		ts = append(ts, worldT0+spacing(s.world)*int64(len(ts))+13)
	}
	return ts
}

// mtpAt is the past median time of the block at the given height of the case's chain.
func (s *scenario) mtpAt(height int) int64 {
	ts := s.chainTimes()
	if height < 0 {
		height = 0
	}
	n := 11
	if height+1 < n {
		n = height + 1
	}
	last := append([]int64{}, ts[height+1-n:height+1]...)
	sort.Slice(last, func(i, j int) bool { return last[i] < last[j] })
	return last[len(last)/2]
}

func (s *scenario) reorged() bool { return s.roK > blocksOf(s.world)-s.roF }

func (s *scenario) deriveFacts() {
	ts := s.chainTimes()
	tip := len(ts) - 1
	s.nextH = int32(tip + 1)
	n := 11
	if tip+1 < n {
		n = tip + 1
	}
	last := append([]int64{}, ts[tip+1-n:]...)
	sort.Slice(last, func(i, j int) bool { return last[i] < last[j] })
	s.mtp = last[len(last)/2]
	s.seg = s.world != 1
	s.csv = s.world != 1
	s.halving = worldHalving
	s.mhp = math.Float64bits(mining.MinHighPriority)
	s.bho = headerOverhead()
	s.maturity = worldMaturity
	cb := s.baseCoinbase()
	s.cbw = blockchain.GetTransactionWeight(cb)
	s.cbs = int64(blockchain.CountSigOps(cb)) * blockchain.WitnessScaleFactor
}

// available says whether world output k exists on the case's chain.
func (s *scenario) available(u utxo) bool {
	return !s.reorged() || int(u.height) <= s.roF
}

// ---------------------------------------------------------------- real transactions from specs

type builtPool struct {
	txs   []*btcutil.Tx
	index map[chainhash.Hash]int
}

func nullOutPoint() wire.OutPoint {
	return *wire.NewOutPoint(&chainhash.Hash{}, wire.MaxPrevOutIndex)
}

func unknownOutPoint(n int) wire.OutPoint {
	h := chainhash.HashH([]byte(fmt.Sprintf("c12-unknown-%d", n)))
	return wire.OutPoint{Hash: h, Index: uint32(n % 3)}
}

// buildPool turns the specs into signed transactions (parents first).
func (s *scenario) buildPool(w *world) *builtPool {
	n := len(s.txs)
	bp := &builtPool{txs: make([]*btcutil.Tx, n), index: map[chainhash.Hash]int{}}
	state := make([]int, n) // 0 new, 1 in progress, 2 done
	var build func(i int)
	build = func(i int) {
		if state[i] == 2 {
			return
		}
		if state[i] == 1 {
			panic("dependency cycle")
		}
		state[i] = 1
		t := s.txs[i]
		ver := int32(1)
		if t.ver > 1 {
			ver = t.ver
		}
		tx := wire.NewMsgTx(ver)
		prevScripts := make([][]byte, len(t.ins))
		prevVals := make([]int64, len(t.ins))
		kinds := make([]byte, len(t.ins))
		for k, r := range t.ins {
			var op wire.OutPoint
			switch r.kind {
			case 'u', 'g':
				if r.k < 0 || r.k >= len(w.catalog) {
					panic("bad world output")
				}
				u := w.catalog[r.k]
				op, prevScripts[k], prevVals[k], kinds[k] = u.op, pkScriptFor(u.kind), u.val, u.kind
			case 'p':
				if r.k < 0 || r.k >= n || r.k == i {
					panic("bad pool ref")
				}
				build(r.k)
				ptx := bp.txs[r.k].MsgTx()
				op = wire.OutPoint{Hash: *bp.txs[r.k].Hash(), Index: uint32(r.idx)}
				if r.idx < len(ptx.TxOut) {
					prevScripts[k], prevVals[k] = ptx.TxOut[r.idx].PkScript, ptx.TxOut[r.idx].Value
					kinds[k] = s.txs[r.k].outs[r.idx].kind
				} else {
					prevScripts[k], kinds[k] = scriptTrue, 'T'
				}
			case 'x':
				op, prevScripts[k], kinds[k] = unknownOutPoint(r.k), scriptTrue, 'T'
			case 'c':
				op, prevScripts[k], kinds[k] = nullOutPoint(), scriptTrue, 'T'
			}
			seq := uint32(wire.MaxTxInSequenceNum)
			if !t.allMax && k == 0 {
				seq = seqNonFinal
			}
			if r.hasSeq {
				seq = r.seq
			}
			tx.AddTxIn(&wire.TxIn{PreviousOutPoint: op, Sequence: seq})
		}
		for _, o := range t.outs {
			if o.kind == 'D' { // OP_RETURN followed by o.amt filler bytes, value 0
				script := make([]byte, 1+o.amt)
				script[0] = txscript.OP_RETURN
				for x := 1; x < len(script); x++ {
					script[x] = txscript.OP_NOP
				}
				tx.AddTxOut(&wire.TxOut{Value: 0, PkScript: script})
				continue
			}
			tx.AddTxOut(&wire.TxOut{Value: o.amt, PkScript: pkScriptFor(o.kind)})
		}
		if t.lockKind != '0' {
			tx.LockTime = uint32(t.lock)
		}
		// scripts: everything that does not need a signature first, then the signatures
		fetch := txscript.NewMultiPrevOutFetcher(nil)
		for k := range t.ins {
			fetch.AddPrevOut(tx.TxIn[k].PreviousOutPoint, &wire.TxOut{Value: prevVals[k], PkScript: prevScripts[k]})
		}
		for k, r := range t.ins {
			switch kinds[k] {
			case 'T', 'M', 'R':
				if r.bad {
					// an extra push violates CLEANSTACK (standard flags only)
					tx.TxIn[k].SignatureScript = []byte{txscript.OP_1}
				}
				if r.kind == 'c' {
					tx.TxIn[k].SignatureScript = []byte{txscript.OP_1, txscript.OP_1}
				}
			case 'S':
				tx.TxIn[k].Witness = wire.TxWitness{scriptTrue}
				if r.bad {
					tx.TxIn[k].Witness = wire.TxWitness{[]byte{txscript.OP_0}}
				}
			case 'H':
				tx.TxIn[k].SignatureScript = mustScript(txscript.NewScriptBuilder().AddData(redeemHeavy))
				if r.bad {
					tx.TxIn[k].SignatureScript = mustScript(txscript.NewScriptBuilder().AddData([]byte{txscript.OP_0}))
				}
			}
		}
		for k, r := range t.ins {
			switch kinds[k] {
			case 'K':
				sig, err := txscript.SignatureScript(tx, k, prevScripts[k], txscript.SigHashAll, privKey, true)
				if err != nil {
					panic(err)
				}
				if r.bad {
					sig[len(sig)/2] ^= 0x40
				}
				tx.TxIn[k].SignatureScript = sig
			}
		}
		hasW := false
		for k := range t.ins {
			if kinds[k] == 'W' {
				hasW = true
			}
		}
		if hasW {
			sh := txscript.NewTxSigHashes(tx, fetch)
			for k, r := range t.ins {
				if kinds[k] != 'W' {
					continue
				}
				wit, err := txscript.WitnessSignature(tx, sh, k, prevVals[k], prevScripts[k], txscript.SigHashAll, privKey, true)
				if err != nil {
					panic(err)
				}
				if r.bad {
					wit[0][len(wit[0])/2] ^= 0x40
				}
				tx.TxIn[k].Witness = wit
			}
		}
		bp.txs[i] = btcutil.NewTx(tx)
		state[i] = 2
	}
	for i := 0; i < n; i++ {
		build(i)
	}
	for i, t := range bp.txs {
		bp.index[*t.Hash()] = i
	}
	return bp
}

// fullView is a utxo view holding every input any pool transaction refers to
// that can ever exist: world outputs ('u' and 'g') and pool outputs.
func (s *scenario) fullView(w *world, bp *builtPool, onlyChain bool) *blockchain.UtxoViewpoint {
	v := blockchain.NewUtxoViewpoint()
	for i, t := range s.txs {
		for _, r := range t.ins {
			switch r.kind {
			case 'u':
				u := w.catalog[r.k]
				v.Entries()[u.op] = blockchain.NewUtxoEntry(&wire.TxOut{Value: u.val, PkScript: pkScriptFor(u.kind)}, u.height, u.cb)
			case 'g':
				if !onlyChain {
					u := w.catalog[r.k]
					v.Entries()[u.op] = blockchain.NewUtxoEntry(&wire.TxOut{Value: u.val, PkScript: pkScriptFor(u.kind)}, u.height, u.cb)
				}
			}
		}
		if !onlyChain {
			v.AddTxOuts(bp.txs[i], s.nextH)
		}
	}
	return v
}

// analyze recomputes the oracle values of every pool transaction with btcd's
// public primitives (weight, sigop cost, priority, script validity under the
// standard flags).
func (s *scenario) analyze(w *world, bp *builtPool) []txSpec {
	out := make([]txSpec, len(s.txs))
	full := s.fullView(w, bp, false)
	chainView := s.fullView(w, bp, true)
	sigc := txscript.NewSigCache(10)
	for i, t := range s.txs {
		o := t
		tx := bp.txs[i]
		o.wt = blockchain.GetTransactionWeight(tx)
		o.hw = tx.MsgTx().HasWitness()
		pr := mining.CalcPriority(tx.MsgTx(), chainView, s.nextH)
		if pr < 0 || math.IsNaN(pr) {
			panic("negative priority")
		}
		o.prio = math.Float64bits(pr)
		missing := false
		for _, r := range t.ins {
			if r.kind == 'x' || r.kind == 'c' {
				missing = true
			}
			if r.kind == 'p' && r.idx >= len(s.txs[r.k].outs) {
				missing = true
			}
			if r.kind == 'p' && r.idx < len(s.txs[r.k].outs) && s.txs[r.k].outs[r.idx].kind == 'R' {
				missing = true
			}
		}
		o.sc, o.so = 0, false
		if !missing {
			c, err := blockchain.GetSigOpCost(tx, false, full, true, s.seg)
			if err != nil {
				panic(fmt.Sprintf("oracle sigop cost: %v", err))
			}
			o.sc = int64(c)
			o.so = blockchain.ValidateTransactionScripts(tx, full, txscript.StandardVerifyFlags, sigc,
				txscript.NewHashCache(10)) == nil
		} else {
			o.sc = int64(blockchain.CountSigOps(tx)) * blockchain.WitnessScaleFactor
		}
		out[i] = o
	}
	return out
}

func (s *scenario) baseCoinbase() *btcutil.Tx {
	params := makeParams(s.world)
	script, err := mining.VerifStandardCoinbaseScript(s.nextH, 0)
	if err != nil {
		panic(err)
	}
	var cb *btcutil.Tx
	if s.addr {
		cb, err = mining.VerifCreateCoinbaseTx(params, script, s.nextH, payAddress(params))
	} else {
		cb, err = mining.VerifCreateCoinbaseTx(params, script, s.nextH, nil)
	}
	if err != nil {
		panic(err)
	}
	return cb
}

// ---------------------------------------------------------------- stub transaction source

type stubSource struct {
	descs []*mining.TxDesc
	have  map[chainhash.Hash]struct{}
}

func (s *stubSource) LastUpdated() time.Time         { return time.Unix(worldT0, 0) }
func (s *stubSource) MiningDescs() []*mining.TxDesc { return s.descs }
func (s *stubSource) HaveTransaction(h *chainhash.Hash) bool {
	_, ok := s.have[*h]
	return ok
}

// headerOverhead is the number of bytes the generator reserves for the header
// and the transaction count (an internal constant of the mining package).
func headerOverhead() int64 { return mining.VerifConstsC12()["blockHeaderOverhead"] }
