package p12

import (
	"fmt"
	"sort"

	"github.com/btcsuite/btcd/mempool"
	"verifharness/core"
)

// ---------------------------------------------------------------- pool builder used by all generators

type poolGen struct {
	s    *scenario
	w    *world
	r    *core.Rand
	used map[int]bool
	fpks map[int64]bool
}

func newPoolGen(r *core.Rand, world int) *poolGen {
	s := &scenario{world: world, src: "stub", minW: 0, maxW: 4000000 - 4000, prioSize: 0, minFree: 1000}
	s.now = worldT0 + spacing(world)*int64(blocksOf(world)) + 1200
	pg := &poolGen{s: s, w: getWorld(world), r: r, used: map[int]bool{}, fpks: map[int64]bool{}}
	s.addr = r.Bool()
	s.upd = r.Bool()
	s.pb = r.Chance(1, 8)
	s.nc = r.Chance(1, 8)
	if s.pb && r.Chance(1, 4) {
		s.uc = true
	}
	if r.Chance(1, 3) {
		s.en = extraNonces[r.Intn(len(extraNonces))]
	}
	s.deriveFacts()
	return pg
}

// setReorg fixes the tip before any transaction is added.
func (pg *poolGen) setReorg(f, k int) {
	pg.s.roF, pg.s.roK = f, k
	pg.s.pb = true
	pg.s.deriveFacts()
	tip := pg.s.chainTimes()
	pg.s.now = tip[len(tip)-1] + 1200
}

// pick returns an unused world output satisfying pred (-1: none).
func (pg *poolGen) pick(pred func(u utxo) bool) int {
	n := len(pg.w.catalog)
	start := pg.r.Intn(n)
	for d := 0; d < n; d++ {
		k := (start + d) % n
		if !pg.used[k] && pred(pg.w.catalog[k]) {
			pg.used[k] = true
			return k
		}
	}
	return -1
}

func (pg *poolGen) ref(k int) inRef {
	u := pg.w.catalog[k]
	if !pg.s.available(u) {
		return inRef{kind: 'g', k: k}
	}
	return inRef{kind: 'u', k: k, val: u.val, height: u.height, cb: u.cb}
}

func (pg *poolGen) spendable(u utxo) bool {
	if !pg.s.available(u) {
		return false
	}
	if u.cb && pg.s.nextH-u.height < worldMaturity {
		return false
	}
	if !pg.s.seg && (u.kind == 'W' || u.kind == 'S') {
		return false
	}
	return true
}

// inValue is the value an input brings (0 when it can never exist).
func (pg *poolGen) inValue(r inRef) int64 {
	switch r.kind {
	case 'u':
		return r.val
	case 'p':
		if r.idx < len(pg.s.txs[r.k].outs) {
			return pg.s.txs[r.k].outs[r.idx].amt
		}
	}
	return 0
}

// add appends a transaction spending ins, paying fee, splitting the rest over
// the output kinds.  It returns the pool index.
func (pg *poolGen) add(ins []inRef, kinds []byte, fee int64) int {
	total := int64(0)
	for _, r := range ins {
		total += pg.inValue(r)
	}
	if fee > total {
		fee = total
	}
	rest := total - fee
	t := txSpec{ins: ins, lockKind: '0', allMax: true, fee: fee}
	spendKinds := 0
	for _, k := range kinds {
		if k != 'M' && k != 'R' {
			spendKinds++
		}
	}
	for _, k := range kinds {
		v := int64(0)
		if k != 'M' && k != 'R' {
			v = rest / int64(spendKinds)
			spendKinds--
		}
		rest -= v
		t.outs = append(t.outs, outSpec{k, v})
	}
	t.fee += rest // nothing spendable to carry the rest: it is fee
	pg.s.txs = append(pg.s.txs, t)
	return len(pg.s.txs) - 1
}

// uniqueFpk makes the fee rate distinct from all others so that the heap's
// pop order does not depend on its internal layout.
func (pg *poolGen) uniqueFpk(v int64) int64 {
	for pg.fpks[v] {
		v++
	}
	pg.fpks[v] = true
	return v
}

// finish fills in the oracle values and the descriptor fee rates.
func (pg *poolGen) finish(distinctKeys bool) *scenario {
	s := pg.s
	s.deriveFacts()
	bp := s.buildPool(pg.w)
	an := s.analyze(pg.w, bp)
	for i := range s.txs {
		fee, fpk := s.txs[i].fee, s.txs[i].fpk
		s.txs[i] = an[i]
		s.txs[i].fee = fee
		switch {
		case s.src == "pool":
			s.txs[i].fpk = fee * 1000 / mempool.GetTxVirtualSize(bp.txs[i])
		case fpk != 0:
			s.txs[i].fpk = fpk
		default:
			s.txs[i].fpk = fee * 1000 / mempool.GetTxVirtualSize(bp.txs[i])
		}
		if distinctKeys && s.src != "pool" {
			s.txs[i].fpk = pg.uniqueFpk(s.txs[i].fpk)
		}
	}
	return s
}

// keysDistinct reports whether (priority, fee rate) pairs are pairwise
// distinct in both components' lexicographic orders, i.e. the pop order is a
// function of the queue content only.
func keysDistinct(s *scenario) bool {
	seen := map[string]bool{}
	for _, t := range s.txs {
		k := fmt.Sprintf("%d/%d", t.prio, t.fpk)
		if seen[k] {
			return false
		}
		seen[k] = true
	}
	return true
}

// permute reorders the source list (the order MiningDescs returns) and renames
// the pool references accordingly.
func permute(s *scenario, r *core.Rand) {
	n := len(s.txs)
	perm := make([]int, n) // perm[old] = new
	for i := range perm {
		perm[i] = i
	}
	for i := n - 1; i > 0; i-- {
		j := r.Intn(i + 1)
		perm[i], perm[j] = perm[j], perm[i]
	}
	out := make([]txSpec, n)
	for old, t := range s.txs {
		ins := make([]inRef, len(t.ins))
		copy(ins, t.ins)
		for k := range ins {
			if ins[k].kind == 'p' {
				ins[k].k = perm[ins[k].k]
			}
		}
		t.ins = ins
		out[perm[old]] = t
	}
	s.txs = out
}

// extra nonces at the edges of the script-number encoding (AddInt64 of int64(uint64))
var extraNonces = []uint64{1, 16, 17, 0x7f, 0x80, 0xff, 0x100, 0x7fff, 0x8000, 0xffffffff, 1 << 32, 1<<63 - 1, 1 << 63, 1<<64 - 1}

var outKinds = []byte{'T', 'K', 'W', 'S', 'H', 'T', 'T'}

func (pg *poolGen) randKinds(n int) []byte {
	kinds := make([]byte, n)
	for j := range kinds {
		kinds[j] = outKinds[pg.r.Intn(len(outKinds))]
	}
	return kinds
}

// randomPool adds n transactions: roots spend world outputs, others spend
// still-unspent outputs of earlier pool transactions (chains and trees), with
// a sprinkle of the configured anomalies.
type poolOpts struct {
	n          int
	childProb  int // percent
	anomalies  bool
	maxFee     int64
	zeroFeePct int
	anyKind    bool
}

type freeOut struct{ j, i int }

func (pg *poolGen) randomPool(o poolOpts) {
	r := pg.r
	var free []freeOut
	for c := 0; c < o.n; c++ {
		var ins []inRef
		nin := 1
		if r.Chance(1, 4) {
			nin = 2 + r.Intn(2)
		}
		for k := 0; k < nin; k++ {
			if len(free) > 0 && r.Chance(o.childProb, 100) {
				x := r.Intn(len(free))
				fo := free[x]
				free = append(free[:x], free[x+1:]...)
				ins = append(ins, inRef{kind: 'p', k: fo.j, idx: fo.i})
				continue
			}
			k := pg.pick(func(u utxo) bool {
				return pg.spendable(u) && (o.anyKind || u.kind == 'T' || u.kind == 'K' || u.kind == 'S')
			})
			if k >= 0 {
				ins = append(ins, pg.ref(k))
			}
		}
		if len(ins) == 0 {
			continue
		}
		if o.anomalies && r.Chance(1, 6) {
			switch r.Intn(8) {
			case 0: // unknown input (first, middle or last: the early-exit registration quirk)
				x := inRef{kind: 'x', k: r.Intn(1000)}
				pos := r.Intn(len(ins) + 1)
				ins = append(ins[:pos], append([]inRef{x}, ins[pos:]...)...)
			case 1: // bad script
				ins[r.Intn(len(ins))].bad = true
			case 2: // double spend of something an earlier pool transaction already spends
				if len(pg.s.txs) > 0 {
					v := pg.s.txs[r.Intn(len(pg.s.txs))]
					ins = append(ins, v.ins[r.Intn(len(v.ins))])
					ins[len(ins)-1].bad = false
				}
			case 3: // immature coinbase
				k := pg.pick(func(u utxo) bool { return u.cb && pg.s.available(u) && pg.s.nextH-u.height < worldMaturity })
				if k >= 0 {
					ins = append(ins, pg.ref(k))
				}
			case 4: // output index that does not exist / unspendable output of a pool parent
				if len(pg.s.txs) > 0 {
					j := r.Intn(len(pg.s.txs))
					ins = append(ins, inRef{kind: 'p', k: j, idx: len(pg.s.txs[j].outs) + r.Intn(2)})
				}
			case 5: // output that is gone from the chain
				k := pg.pick(func(u utxo) bool { return !pg.s.available(u) })
				if k >= 0 {
					ins = append(ins, pg.ref(k))
				}
			case 6: // coinbase-shaped pool transaction
				ins = []inRef{{kind: 'c'}}
			case 7: // the same outpoint twice in one transaction (fails sanity in the final self-check)
				ins = append(ins, ins[0])
			}
		}
		fee := r.Range(0, o.maxFee)
		if r.Chance(o.zeroFeePct, 100) {
			fee = 0
		}
		nout := 1 + r.Intn(3)
		if pg.s.src == "pool" {
			nout++ // the pool refuses transactions below 65 bytes
		}
		kinds := pg.randKinds(nout)
		if r.Chance(1, 10) {
			kinds = append(kinds, 'R')
		}
		if r.Chance(1, 10) {
			for m := r.Intn(4); m >= 0; m-- {
				kinds = append(kinds, 'M')
			}
		}
		j := pg.add(ins, kinds, fee)
		if o.anomalies && r.Chance(1, 12) {
			pg.randomLock(j)
		}
		for i, out := range pg.s.txs[j].outs {
			if out.kind != 'M' && out.kind != 'R' && (pg.s.seg || (out.kind != 'W' && out.kind != 'S')) {
				free = append(free, freeOut{j, i})
			}
		}
	}
}

// randomLock gives transaction j a lock time at one of the interesting edges.
func (pg *poolGen) randomLock(j int) {
	r := pg.r
	t := &pg.s.txs[j]
	if r.Bool() {
		t.lockKind = 'H'
		t.lock = int64(pg.s.nextH) + r.Range(-2, 1)
		if t.lock < 1 {
			t.lock = 1
		}
	} else {
		t.lockKind = 'T'
		base := []int64{pg.s.mtp, pg.s.now, pg.s.mtp + 1, (pg.s.mtp + pg.s.now) / 2}[r.Intn(4)]
		t.lock = base + r.Range(-1, 1)
	}
	t.allMax = r.Chance(1, 4)
}

func (P) Generate(g *core.Gen) {
	genTriggers(g)
	genIndependent(g)
	genPools(g)
	genLocks(g)
	genWeightLimits(g)
	genSigopLimits(g)
	genPriority(g)
	genReorg(g)
	genRealPool(g)
	genDishonest(g)
	genTies(g)
	genWitnessReserve(g)
	genSegwitInactive(g)
	genFreeArea(g)
	genMinHighEdge(g)
	genStalePool(g)
	genTwo(g)
	genPar(g)
	genManyTxs(g)
	genSigopExact(g)
	genMaturityEdge(g)
	genConsensusWeight(g)
	genSeqLocks(g)
	genRetarget(g)
	genReuse(g)
	genRace(g)
	genHetero(g)
	genPositionSweep(g)
	genLowHeight(g)
	genSeqBits(g)
	genClockAtMTP(g)
}

func genIndependent(g *core.Gen) {
	for c := 0; c < g.N(20, 300); c++ {
		pg := newPoolGen(g.R, c%2)
		pg.randomPool(poolOpts{n: 1 + g.R.Intn(8), childProb: 0, maxFee: 50000, zeroFeePct: 10, anyKind: true})
		s := pg.finish(true)
		g.Case("independent", len(s.txs) > 0, s.line())
	}
}

func genPools(g *core.Gen) {
	for c := 0; c < g.N(100, 1000); c++ {
		world := 0
		if g.R.Chance(1, 4) {
			world = 1
		}
		pg := newPoolGen(g.R, world)
		pg.randomPool(poolOpts{n: 2 + g.R.Intn(14), childProb: 30 + g.R.Intn(50), anomalies: g.R.Chance(2, 3),
			maxFee: 60000, zeroFeePct: 15, anyKind: true})
		pg.s.minFree = g.R.Pick(0, 1, 1000, 20000, 100000)
		pg.s.minW = uint32(g.R.Pick(0, 0, 1000, 3000, 100000))
		s := pg.finish(true)
		permute(s, g.R)
		if g.R.Chance(1, 3) {
			s.prioSize = uint32(g.R.Pick(1, 1500, 3000, 50000))
		}
		g.Case("pools", len(s.txs) > 1, s.line())
	}
}

// genLocks: lock times at every edge of both clocks, on both worlds.  The
// MTP <= locktime < now band with a non-final sequence is the F-C12-a trigger.
func genLocks(g *core.Gen) {
	for world := 0; world < 2; world++ {
		for _, slow := range []bool{false, true} {
			for _, am := range []bool{false, true} {
				pg := newPoolGen(g.R, world)
				if slow { // wall clock behind the median time: the header takes MTP+1
					pg.s.now = pg.s.mtp - 100
				}
				s0 := pg.s
				locks := [][2]int64{}
				for d := int64(-2); d <= 2; d++ {
					locks = append(locks, [2]int64{'H', int64(s0.nextH) + d}, [2]int64{'T', s0.mtp + d}, [2]int64{'T', s0.now + d},
						[2]int64{'T', headerTimeOf(s0) + d})
				}
				locks = append(locks, [2]int64{'T', 500000000}, [2]int64{'H', 499999999}, [2]int64{'T', (s0.mtp + s0.now) / 2})
				for _, l := range locks {
					k := pg.pick(func(u utxo) bool { return pg.spendable(u) && u.kind == 'T' })
					j := pg.add([]inRef{pg.ref(k)}, []byte{'T'}, 5000+g.R.Range(0, 20000))
					pg.s.txs[j].lockKind, pg.s.txs[j].lock, pg.s.txs[j].allMax = byte(l[0]), l[1], am
				}
				s := pg.finish(true)
				g.Case("locks", true, s.line())
				// and one transaction at a time (so that a failing self-check is attributable)
				if g.Thorough() || (!am && !slow) || (am && slow && world == 0) {
					for i := range s.txs {
						one := *s
						one.txs = []txSpec{s.txs[i]}
						g.Case("locks-single", true, one.line())
					}
				}
			}
		}
	}
}

func headerTimeOf(s *scenario) int64 {
	if s.now < s.mtp+1 {
		return s.mtp + 1
	}
	return s.now
}

// predictedOrder is the order by descending fee rate (ties: priority) of the
// transactions without anomalies; used only to place limits near the running
// totals.
func predictedOrder(s *scenario) []int {
	idx := make([]int, len(s.txs))
	for i := range idx {
		idx[i] = i
	}
	sort.SliceStable(idx, func(a, b int) bool {
		ta, tb := s.txs[idx[a]], s.txs[idx[b]]
		if ta.fpk != tb.fpk {
			return ta.fpk > tb.fpk
		}
		return ta.prio > tb.prio
	})
	return idx
}

// genWeightLimits: BlockMaxWeight / BlockMinWeight at, one below and one above
// the running weight after each prefix of the fee order, with and without the
// witness-commitment reservation in play.
func genWeightLimits(g *core.Gen) {
	for c := 0; c < g.N(60, 500); c++ {
		pg := newPoolGen(g.R, 0)
		wit := c%3 != 0
		pg.randomPool(poolOpts{n: 3 + g.R.Intn(8), childProb: g.R.Intn(40), maxFee: 80000, zeroFeePct: 10, anyKind: wit})
		s := pg.finish(true)
		if len(s.txs) < 2 {
			continue
		}
		run := int64(4*headerOverhead() + s.cbw)
		var marks []int64
		seenWit := false
		for _, i := range predictedOrder(s) {
			if s.txs[i].hw && !seenWit {
				seenWit = true
				marks = append(marks, run+224, run+224+s.txs[i].wt)
				run += 224
			}
			run += s.txs[i].wt
			marks = append(marks, run)
		}
		m := marks[g.R.Intn(len(marks))]
		s.maxW = uint32(m + g.R.Range(-2, 2))
		if g.R.Chance(1, 6) {
			s.maxW = uint32(g.R.Pick(0, 1, 4*headerOverhead(), 4000000, 4294967295))
		}
		if g.R.Chance(1, 3) {
			s.minW = uint32(marks[g.R.Intn(len(marks))] + g.R.Range(-1, 1))
			s.minFree = g.R.Pick(1000, 30000, 1000000)
		}
		g.Case("weight-limit", true, s.line())
	}
}

// genSigopLimits: transactions heavy in legacy sigops (bare CHECKMULTISIG
// outputs, 80 cost each) and P2SH sigops so that the 80000 limit is reached.
func genSigopLimits(g *core.Gen) {
	for c := 0; c < g.N(12, 80); c++ {
		pg := newPoolGen(g.R, 0)
		left := int64(80000)
		if pg.s.addr {
			left -= 4
		}
		n := 3 + g.R.Intn(4)
		for i := 0; i < n; i++ {
			k := pg.pick(func(u utxo) bool { return pg.spendable(u) && (u.kind == 'T' || u.kind == 'H') })
			if k < 0 {
				break
			}
			share := left / int64(n-i)
			if i == n-1 || g.R.Chance(1, 3) {
				share = left
			}
			m := share/80 + g.R.Range(-1, 1)
			if pg.w.catalog[k].kind == 'H' {
				m--
			}
			if m < 0 {
				m = 0
			}
			kinds := []byte{'T'}
			for x := int64(0); x < m; x++ {
				kinds = append(kinds, 'M')
			}
			pg.add([]inRef{pg.ref(k)}, kinds, g.R.Range(1000, 90000))
			left -= m * 80
			if pg.w.catalog[k].kind == 'H' {
				left -= 80
			}
			if left < 0 {
				left = 0
			}
		}
		if kc := pg.pick(func(u utxo) bool { return pg.spendable(u) && u.kind == 'T' && !u.cb }); kc >= 0 {
			c3 := pg.add([]inRef{pg.ref(kc)}, []byte{'T'}, 600)
			pg.s.txs[c3].fpk = 1001
		}
		s := pg.finish(true)
		g.Case("sigop-limit", true, s.line())
	}
}

// genPriority: a high-priority area of varying size; old, large inputs give
// priorities above MinHighPriority, fresh small ones below.
func genPriority(g *core.Gen) {
	for c := 0; c < g.N(60, 500); c++ {
		pg := newPoolGen(g.R, 0)
		n := 3 + g.R.Intn(8)
		for i := 0; i < n; i++ {
			big := g.R.Bool()
			k := pg.pick(func(u utxo) bool {
				return pg.spendable(u) && (u.kind == 'T' || u.kind == 'K') && (u.val >= 100000000) == big
			})
			if k < 0 {
				continue
			}
			fee := g.R.Range(0, 40000)
			if g.R.Chance(1, 4) {
				fee = 0
			}
			pg.add([]inRef{pg.ref(k)}, pg.randKinds(1+g.R.Intn(2)), fee)
		}
		if g.R.Chance(1, 2) {
			pg.randomPool(poolOpts{n: 1 + g.R.Intn(4), childProb: 70, maxFee: 30000, zeroFeePct: 30, anyKind: true})
		}
		s := pg.finish(true)
		if len(s.txs) == 0 {
			continue
		}
		run := int64(4*headerOverhead() + s.cbw)
		marks := []int64{run}
		for _, t := range s.txs {
			run += t.wt
			marks = append(marks, run)
		}
		s.prioSize = uint32(marks[g.R.Intn(len(marks))] + g.R.Range(-1, 1))
		if g.R.Chance(1, 4) {
			s.prioSize = uint32(g.R.Pick(1, 1000, 100000, 4000000))
		}
		s.minFree = g.R.Pick(0, 1000, 50000)
		s.minW = uint32(g.R.Pick(0, 0, 2000, 1000000))
		permute(s, g.R)
		g.Case("priority", true, s.line())
	}
}

// genReorg: the tip right after a reorganisation; part of the pool spends
// outputs that only existed on the abandoned branch.
func genReorg(g *core.Gen) {
	for c := 0; c < g.N(25, 300); c++ {
		pg := newPoolGen(g.R, c%2)
		f := worldBlocks - 1 - g.R.Intn(12)
		k := worldBlocks - f + 1 + g.R.Intn(3)
		if g.R.Chance(1, 8) {
			k = worldBlocks - f // equal work: the tip does not move
		}
		pg.setReorg(f, k)
		n := 2 + g.R.Intn(8)
		for i := 0; i < n; i++ {
			gone := g.R.Chance(1, 3)
			k := pg.pick(func(u utxo) bool {
				if gone {
					return !pg.s.available(u)
				}
				return pg.spendable(u)
			})
			if k < 0 {
				continue
			}
			pg.add([]inRef{pg.ref(k)}, pg.randKinds(1+g.R.Intn(2)), g.R.Range(0, 50000))
		}
		pg.randomPool(poolOpts{n: g.R.Intn(5), childProb: 80, anomalies: true, maxFee: 30000, zeroFeePct: 10, anyKind: true})
		s := pg.finish(true)
		permute(s, g.R)
		g.Case("reorg", len(s.txs) > 0, s.line())
	}
}

// genRealPool: a real mempool.TxPool as the source (map order, so only pools
// whose keys are pairwise distinct).
func genRealPool(g *core.Gen) {
	for c := 0; c < g.N(45, 500); c++ {
		pg := newPoolGen(g.R, c%2)
		pg.s.src = "pool"
		if g.R.Chance(1, 3) {
			f := worldBlocks - 1 - g.R.Intn(6)
			pg.setReorg(f, worldBlocks-f+1)
		}
		pg.randomPool(poolOpts{n: 2 + g.R.Intn(12), childProb: 20 + g.R.Intn(60), maxFee: 60000, zeroFeePct: 10, anyKind: true})
		if g.R.Chance(1, 3) && len(pg.s.txs) > 0 {
			pg.randomLockPool(g.R.Intn(len(pg.s.txs)))
		}
		if g.R.Chance(1, 3) { // the chain grows after the pool was filled (tip moves forward only)
			pg.s.fwd = 1 + g.R.Intn(3)
			pg.s.pb = true
			pg.s.now += spacing(pg.s.world) * int64(pg.s.fwd)
		}
		s := pg.finish(false)
		if !keysDistinct(s) {
			continue
		}
		s.minFree = g.R.Pick(0, 1000, 20000)
		if g.R.Chance(1, 3) {
			s.prioSize = uint32(g.R.Pick(1000, 3000, 50000))
		}
		g.Case("real-pool", len(s.txs) > 0, s.line())
	}
}

// randomLockPool: a lock the pool admits: final on the past median time (the
// pool checks that since the F-C10-b fix), or any lock with final sequences.
// Between MTP and now with a non-final sequence was the F-C10-b / F-C12-a
// situation; the pool now refuses it, so it cannot be staged through
// ProcessTransaction any more (the stub source still stages it, see genLocks).
func (pg *poolGen) randomLockPool(j int) {
	t := &pg.s.txs[j]
	t.lockKind = 'T'
	if pg.r.Bool() {
		t.lock = pg.s.mtp - pg.r.Range(1, 3)
		t.allMax = false
	} else {
		t.lock = pg.s.mtp + pg.r.Range(-1, pg.s.now-pg.s.mtp+1)
		t.allMax = true
	}
}

// genDishonest: a source whose descriptors lie about the fee.  Too high makes
// the coinbase overpay (the self-check must refuse), too low under-reports.
func genDishonest(g *core.Gen) {
	for c := 0; c < g.N(12, 80); c++ {
		pg := newPoolGen(g.R, 0)
		pg.randomPool(poolOpts{n: 2 + g.R.Intn(5), childProb: 30, maxFee: 40000, anyKind: true})
		s := pg.finish(true)
		if len(s.txs) == 0 {
			continue
		}
		i := g.R.Intn(len(s.txs))
		s.txs[i].fee += g.R.Pick(-1, 1, 1000, -1000)
		g.Case("dishonest-fee", true, s.line())
	}
}

// genTies: equal keys.  Independent parents with distinct keys, each with one
// child; children have priority 0 (unmined inputs) and fee rates from a set of
// two values, so the queue holds genuinely equal items.  The source is the
// deterministic stub and nothing is released in pairs, so the pop order is
// fixed by container/heap's sift rules alone.
func genTies(g *core.Gen) {
	for c := 0; c < g.N(40, 300); c++ {
		pg := newPoolGen(g.R, 0)
		n := 2 + g.R.Intn(8)
		fp := g.R.Range(0, 3000)
		var parents []int
		for i := 0; i < n; i++ {
			k := pg.pick(func(u utxo) bool { return pg.spendable(u) && u.kind == 'T' })
			if k < 0 {
				break
			}
			j := pg.add([]inRef{pg.ref(k)}, []byte{'T'}, g.R.Range(1, 30)*1000)
			pg.s.txs[j].fpk = pg.uniqueFpk(100000 + g.R.Range(0, 100000))
			parents = append(parents, j)
		}
		for _, pj := range parents {
			j := pg.add([]inRef{{kind: 'p', k: pj, idx: 0}}, []byte{'T'}, g.R.Range(0, 3)*1000)
			pg.s.txs[j].fpk = fp + g.R.Range(0, 1)
			if pg.s.txs[j].fpk == 0 {
				pg.s.txs[j].fpk = 1
			}
		}
		s := pg.finish(false)
		if g.R.Chance(1, 3) {
			s.prioSize = uint32(g.R.Pick(1, 1500, 3000))
		}
		s.minFree = g.R.Pick(0, 1000, 2000)
		g.Case("ties", true, s.line())
	}
}

// genWitnessReserve: non-witness transactions fill the block up to the policy
// maximum, then a witness transaction with a lower fee rate is considered and
// does not fit.  The commitment reservation must not stay behind (F-C12-b: it
// did, the finished block exceeded BlockMaxWeight by up to 191 weight units
// and carried a commitment for no witness data).
func genWitnessReserve(g *core.Gen) {
	for c := 0; c < g.N(20, 150); c++ {
		pg := newPoolGen(g.R, 0)
		n := 1 + g.R.Intn(3)
		for i := 0; i < n; i++ {
			k := pg.pick(func(u utxo) bool { return pg.spendable(u) && (u.kind == 'T' || u.kind == 'K') })
			j := pg.add([]inRef{pg.ref(k)}, []byte{'T', 'K'}[:1+g.R.Intn(2)], 60000+g.R.Range(0, 30000))
			pg.s.txs[j].fpk = 500000 + int64(i)
		}
		m := 1 + g.R.Intn(2)
		for i := 0; i < m; i++ {
			k := pg.pick(func(u utxo) bool { return pg.spendable(u) && (u.kind == 'S' || u.kind == 'W') })
			j := pg.add([]inRef{pg.ref(k)}, []byte{'T'}, 2000+g.R.Range(0, 3000))
			pg.s.txs[j].fpk = 20000 + int64(i)
		}
		if g.R.Bool() { // a small non-witness transaction that would still fit without the reservation
			k := pg.pick(func(u utxo) bool { return pg.spendable(u) && u.kind == 'T' })
			j := pg.add([]inRef{pg.ref(k)}, []byte{'T'}, 1500)
			pg.s.txs[j].fpk = 10000
		}
		s := pg.finish(false)
		run := int64(4*headerOverhead() + s.cbw)
		for i := 0; i < n; i++ {
			run += s.txs[i].wt
		}
		s.maxW = uint32(run + g.R.Pick(1, 2, 100, 224, 225, 224+s.txs[n].wt, 225+s.txs[n].wt, 244+225))
		permute(s, g.R)
		g.Case("witness-reserve", true, s.line())
	}
}

// genSegwitInactive: on the chain without segwit the pool offers transactions
// that carry witness data; the generator must leave them (and their children)
// out.
func genSegwitInactive(g *core.Gen) {
	for c := 0; c < g.N(15, 120); c++ {
		pg := newPoolGen(g.R, 1)
		n := 1 + g.R.Intn(3)
		for i := 0; i < n; i++ {
			k := pg.pick(func(u utxo) bool { return pg.s.available(u) && (u.kind == 'S' || u.kind == 'W') })
			if k < 0 {
				break
			}
			j := pg.add([]inRef{pg.ref(k)}, []byte{'T', 'T'}, g.R.Range(1000, 90000))
			if g.R.Bool() {
				pg.add([]inRef{{kind: 'p', k: j, idx: 0}}, []byte{'T'}, g.R.Range(1000, 90000))
			}
		}
		pg.randomPool(poolOpts{n: 1 + g.R.Intn(4), childProb: 30, maxFee: 50000, zeroFeePct: 10, anyKind: true})
		s := pg.finish(true)
		permute(s, g.R)
		g.Case("segwit-inactive", true, s.line())
	}
}

// genFreeArea: the low-fee area.  BlockMinWeight sits at, one below and one
// above the running weight before / after each transaction in fee order, the
// fee-rate threshold splits the pool at a random rank, the maximum is far away.
func genFreeArea(g *core.Gen) {
	for c := 0; c < g.N(40, 400); c++ {
		pg := newPoolGen(g.R, 0)
		pg.randomPool(poolOpts{n: 3 + g.R.Intn(7), childProb: g.R.Intn(30), maxFee: 80000, zeroFeePct: 20, anyKind: c%2 == 0})
		s := pg.finish(true)
		if len(s.txs) < 2 {
			continue
		}
		order := predictedOrder(s)
		run := int64(4*headerOverhead() + s.cbw)
		marks := []int64{run}
		seenWit := false
		for _, i := range order {
			if s.txs[i].hw && !seenWit {
				seenWit = true
				run += 224
			}
			run += s.txs[i].wt
			marks = append(marks, run)
		}
		s.minW = uint32(marks[g.R.Intn(len(marks))] + g.R.Range(-1, 1))
		rank := g.R.Intn(len(order))
		s.minFree = s.txs[order[rank]].fpk + g.R.Range(0, 1)
		if g.R.Chance(1, 5) {
			s.minFree = 100000000
		}
		g.Case("free-area", true, s.line())
	}
}

// genMinHighEdge: one transaction whose priority is exactly MinHighPriority
// (the `<=` that switches to fee order versus the `<` that re-queues), among
// transactions above and below it, with the priority area larger or smaller
// than the block so far.
func genMinHighEdge(g *core.Gen) {
	for c := 0; c < g.N(30, 200); c++ {
		pg := newPoolGen(g.R, 0)
		edge := -1
		for k, u := range pg.w.catalog {
			if u.height == 5 && u.val == 57600000 && u.kind == 'T' {
				edge = k
			}
		}
		if edge < 0 {
			panic("edge output missing")
		}
		pg.used[edge] = true
		pg.add([]inRef{pg.ref(edge)}, []byte{'T'}, g.R.Range(0, 30000))
		n := 2 + g.R.Intn(6)
		for i := 0; i < n; i++ {
			big := g.R.Bool()
			k := pg.pick(func(u utxo) bool {
				return pg.spendable(u) && (u.kind == 'T' || u.kind == 'K') && (u.val >= 100000000) == big
			})
			if k < 0 {
				continue
			}
			pg.add([]inRef{pg.ref(k)}, pg.randKinds(1+g.R.Intn(2)), g.R.Range(0, 40000))
		}
		s := pg.finish(true)
		run := int64(4*headerOverhead() + s.cbw)
		marks := []int64{run}
		for _, t := range s.txs {
			run += t.wt
			marks = append(marks, run)
		}
		s.prioSize = uint32(g.R.Pick(marks[len(marks)-1]+1000, marks[g.R.Intn(len(marks))]+g.R.Range(-1, 1), 1000000))
		s.minFree = g.R.Pick(0, 1000)
		permute(s, g.R)
		g.Case("minhigh-edge", true, s.line())
	}
}

// genStalePool: a real mempool filled on a branch that is then abandoned; the
// pool is not told.  Transactions whose inputs only existed on the abandoned
// branch, and everything that descends from them, must stay out; the rest must
// still give a valid template.  (The premise of the "generation succeeds"
// clause does not hold here - the tip moved backwards - but every other clause
// does.)
func genStalePool(g *core.Gen) {
	for c := 0; c < g.N(25, 300); c++ {
		pg := newPoolGen(g.R, c%2)
		pg.s.src = "pool"
		// build the pool against the main tip ...
		n := 2 + g.R.Intn(6)
		f := worldBlocks - 1 - g.R.Intn(10)
		for i := 0; i < n; i++ {
			high := g.R.Chance(1, 2)
			k := pg.pick(func(u utxo) bool {
				return pg.spendable(u) && !u.cb && (int(u.height) > f) == high
			})
			if k < 0 {
				continue
			}
			pg.add([]inRef{pg.ref(k)}, pg.randKinds(2+g.R.Intn(2)), g.R.Range(1000, 50000))
		}
		pg.randomPool(poolOpts{n: 1 + g.R.Intn(6), childProb: 85, maxFee: 40000, zeroFeePct: 5, anyKind: true})
		// ... then abandon everything above f
		pg.s.roF, pg.s.roK = f, worldBlocks-f+1+g.R.Intn(2)
		pg.s.pb, pg.s.admPre = true, true
		pg.s.deriveFacts()
		tip := pg.s.chainTimes()
		pg.s.now = tip[len(tip)-1] + 1200
		for i := range pg.s.txs {
			for k := range pg.s.txs[i].ins {
				r := &pg.s.txs[i].ins[k]
				if r.kind == 'u' && !pg.s.available(pg.w.catalog[r.k]) {
					*r = inRef{kind: 'g', k: r.k}
				}
			}
		}
		// the descriptors keep the fees the pool computed at admission
		fees := make([]int64, len(pg.s.txs))
		for i, t := range pg.s.txs {
			fees[i] = t.fee
		}
		s := pg.finish(false)
		if !keysDistinct(s) {
			continue
		}
		g.Case("stale-pool", len(s.txs) > 0, s.line())
	}
}

// genTwo: two templates in a row (thorough: also concurrently) from pools that
// differ in their witness transactions; the earlier one must stay intact.
func genTwo(g *core.Gen) {
	for c := 0; c < g.N(25, 300); c++ {
		pg := newPoolGen(g.R, 0)
		pg.s.two = true
		pg.s.pb = true
		witTx := func() {
			k := pg.pick(func(u utxo) bool { return pg.spendable(u) && (u.kind == 'S' || u.kind == 'W') })
			if k >= 0 {
				pg.add([]inRef{pg.ref(k)}, pg.randKinds(1+g.R.Intn(2)), g.R.Range(1000, 60000))
			}
		}
		// both halves hold witness transactions, so both templates commit to a
		// (different) witness merkle root
		witTx()
		pg.randomPool(poolOpts{n: g.R.Intn(4), childProb: 40, maxFee: 50000, zeroFeePct: 5, anyKind: true})
		pg.s.ka = len(pg.s.txs)
		witTx()
		pg.randomPool(poolOpts{n: g.R.Intn(4), childProb: 40, maxFee: 50000, zeroFeePct: 5, anyKind: true})
		if g.R.Chance(1, 4) { // no witness data in one of the halves
			pg.s.ka = g.R.Intn(len(pg.s.txs) + 1)
		}
		pg.s.rev = g.R.Bool()
		pg.s.conc = g.Thorough() && g.R.Chance(1, 3)
		pg.s.uc = g.R.Chance(1, 4)
		s := pg.finish(true)
		if g.R.Chance(1, 3) { // the policy changes between the two calls
			s.polBSet = true
			s.polB = [4]int64{g.R.Pick(0, 2000), g.R.Pick(1500, 3000, 3996000), g.R.Pick(0, 0, 2000), g.R.Pick(0, 1000, 30000)}
		}
		g.Case("two-templates", len(s.txs) > 1, s.line())
	}
}

// genPar: eight complete cases per line, run concurrently on separate chains.
func genPar(g *core.Gen) {
	for c := 0; c < g.N(3, 20); c++ {
		var parts []string
		for i := 0; i < 8; i++ {
			pg := newPoolGen(g.R, i%2)
			pg.s.pb = true
			if i%4 == 3 && pg.s.seg {
				pg.s.two = true
				pg.randomPool(poolOpts{n: 2 + g.R.Intn(3), childProb: 30, maxFee: 50000, anyKind: true})
				pg.s.ka = len(pg.s.txs)
				pg.randomPool(poolOpts{n: 1 + g.R.Intn(3), childProb: 30, maxFee: 50000, anyKind: true})
				pg.s.rev = g.R.Bool()
			} else {
				if g.R.Chance(1, 4) {
					f := worldBlocks - 1 - g.R.Intn(6)
					pg.setReorg(f, worldBlocks-f+1)
				}
				pg.randomPool(poolOpts{n: 2 + g.R.Intn(10), childProb: 20 + g.R.Intn(60), anomalies: g.R.Bool(),
					maxFee: 60000, zeroFeePct: 10, anyKind: true})
				if g.R.Chance(1, 3) {
					pg.s.prioSize = uint32(g.R.Pick(1500, 3000, 50000))
				}
			}
			s := pg.finish(true)
			parts = append(parts, s.line()[len("C12 "):])
		}
		g.Case("parallel-8", true, "C12 par "+joinStrings(parts, " || "))
	}
}

func joinStrings(xs []string, sep string) string {
	out := ""
	for i, x := range xs {
		if i > 0 {
			out += sep
		}
		out += x
	}
	return out
}

// genManyTxs: 251, 252, 253 selected transactions: the transaction-count
// varint of the block grows from 1 to 3 bytes at 253 (coinbase included).
func genManyTxs(g *core.Gen) {
	for _, total := range []int{251, 252, 253} {
		if !g.Thorough() && total == 251 {
			continue
		}
		pg := newPoolGen(g.R, 0)
		roots := 0
		for len(pg.s.txs) < total {
			k := pg.pick(func(u utxo) bool { return pg.spendable(u) && u.kind == 'T' && !u.cb })
			if k < 0 {
				break
			}
			j := pg.add([]inRef{pg.ref(k)}, []byte{'T', 'T', 'T', 'T'}, g.R.Range(2000, 9000))
			roots++
			for i := 0; i < 4 && len(pg.s.txs) < total; i++ {
				pg.add([]inRef{{kind: 'p', k: j, idx: i}}, []byte{'T'}, g.R.Range(0, 5000))
			}
		}
		s := pg.finish(true)
		if len(s.txs) != total {
			continue
		}
		if g.R.Bool() { // and the policy maximum right at the finished block
			run := int64(4*headerOverhead() + s.cbw)
			for _, t := range s.txs {
				run += t.wt
			}
			s.maxW = uint32(run + g.R.Range(-1, 2))
		}
		g.Case("many-txs", true, s.line())
	}
}

// genSigopExact: sigop cost 79999 / 80000 / 80001 (cost-1 steps through
// P2WPKH inputs), with and without the coinbase's own 4.
func genSigopExact(g *core.Gen) {
	for c := 0; c < g.N(6, 30); c++ {
		pg := newPoolGen(g.R, 0)
		left := int64(80000) - pg.s.cbs
		k := pg.pick(func(u utxo) bool { return pg.spendable(u) && u.kind == 'T' && !u.cb })
		kinds := []byte{'T'}
		m := int64(990 + g.R.Intn(6))
		for x := int64(0); x < m; x++ {
			kinds = append(kinds, 'M')
		}
		a := pg.add([]inRef{pg.ref(k)}, kinds, 90000)
		pg.s.txs[a].fpk = 900000
		left -= 80 * m
		// second transaction: nW P2WPKH inputs (1 each) and nK P2PKH outputs (4 each)
		delta := g.R.Range(-1, 1)
		nW := int64(1 + g.R.Intn(4))
		for (left+delta-nW)%4 != 0 {
			nW++
		}
		nK := (left + delta - nW) / 4
		var ins []inRef
		for x := int64(0); x < nW; x++ {
			kw := pg.pick(func(u utxo) bool { return pg.spendable(u) && u.kind == 'W' })
			if kw < 0 {
				break
			}
			ins = append(ins, pg.ref(kw))
		}
		if int64(len(ins)) != nW || nK < 0 {
			continue
		}
		kk := []byte{}
		for x := int64(0); x < nK; x++ {
			kk = append(kk, 'K')
		}
		if len(kk) == 0 {
			kk = []byte{'T'}
		}
		b := pg.add(ins, kk, 20000)
		pg.s.txs[b].fpk = 5000
		// a cheap transaction considered last: it fits whether or not the one before was skipped
		if kc := pg.pick(func(u utxo) bool { return pg.spendable(u) && u.kind == 'T' && !u.cb }); kc >= 0 && delta <= 0 {
			c3 := pg.add([]inRef{pg.ref(kc)}, []byte{'T'}, 3000)
			pg.s.txs[c3].fpk = 1200
		} else if kc >= 0 {
			c3 := pg.add([]inRef{pg.ref(kc)}, []byte{'T'}, 3000)
			pg.s.txs[c3].fpk = 1300
		}
		s := pg.finish(false)
		g.Case("sigop-exact", true, s.line())
	}
}

// genMaturityEdge: every still-unspent coinbase of the world (ages 1..4 with a
// maturity of 3) spent by its own transaction.
func genMaturityEdge(g *core.Gen) {
	for c := 0; c < g.N(3, 12); c++ {
		pg := newPoolGen(g.R, c%2)
		if c%3 == 2 {
			pg.setReorg(worldBlocks-1, 2+g.R.Intn(2))
		}
		for k, u := range pg.w.catalog {
			if u.cb && pg.s.available(u) {
				pg.used[k] = true
				pg.add([]inRef{pg.ref(k)}, []byte{'T', 'T'}, g.R.Range(1000, 50000))
			}
		}
		s := pg.finish(true)
		permute(s, g.R)
		g.Case("maturity-edge", len(s.txs) > 0, s.line())
	}
}

// genConsensusWeight: a policy above the consensus maximum and a pool that
// fills the block to 4 000 000 -4 / +0 / +4 weight units: the final self-check
// is the only thing between the selection and an oversized block.
func genConsensusWeight(g *core.Gen) {
	for c := 0; c < g.N(1, 6); c++ {
		pg := newPoolGen(g.R, 0)
		pg.s.maxW = 4100000
		pg.s.addr = false
		n := 11
		for i := 0; i < n; i++ {
			k := pg.pick(func(u utxo) bool { return pg.spendable(u) && u.kind == 'T' && !u.cb })
			t := txSpec{ins: []inRef{pg.ref(k)}, lockKind: '0', allMax: true}
			for x := 0; x < 10; x++ {
				t.outs = append(t.outs, outSpec{'D', 9000})
			}
			t.outs = append(t.outs, outSpec{'T', pg.w.catalog[k].val - 50000})
			t.fee = 50000
			pg.s.txs = append(pg.s.txs, t)
		}
		// the filler: its last D output is tuned below
		k := pg.pick(func(u utxo) bool { return pg.spendable(u) && u.kind == 'T' && !u.cb })
		t := txSpec{ins: []inRef{pg.ref(k)}, lockKind: '0', allMax: true, fee: 40000}
		t.outs = []outSpec{{'T', pg.w.catalog[k].val - 40000}, {'D', 4000}}
		pg.s.txs = append(pg.s.txs, t)
		s := pg.finish(true)
		total := int64(4*81) + s.cbw
		for _, x := range s.txs {
			total += x.wt
		}
		target := int64(4000000) + 4*g.R.Range(-1, 1)
		adj := (target - total) / 4
		last := &s.txs[len(s.txs)-1]
		last.outs[1].amt += adj
		if last.outs[1].amt < 300 || last.outs[1].amt > 9900 {
			continue
		}
		s = pg.finish(true)
		g.Case("consensus-weight", true, s.line())
	}
}

// genSeqLocks: BIP68.  Version-2 transactions with relative locks in blocks
// and in 512-second units at one below / at / one above what the chain
// satisfies, the disable bit, version 1 with the same sequences, children of
// pool parents with a relative lock of 0 and 1; with CSV active and inactive.
// The generator never looks at sequence locks: with the stub source an unmet
// lock must make the final self-check refuse the template; the real pool only
// admits met ones.
func genSeqLocks(g *core.Gen) {
	for c := 0; c < g.N(45, 400); c++ {
		world := 0
		if c%5 == 4 {
			world = 1
		}
		pg := newPoolGen(g.R, world)
		real := c%3 == 2
		if real {
			pg.s.src = "pool"
		}
		if g.R.Chance(1, 4) {
			f := worldBlocks - 1 - g.R.Intn(4)
			pg.setReorg(f, worldBlocks-f+1)
		}
		n := 1 + g.R.Intn(4)
		if c%4 == 0 {
			n = 1
		}
		for i := 0; i < n; i++ {
			k := pg.pick(func(u utxo) bool { return pg.spendable(u) && !u.cb && (u.kind == 'T' || u.kind == 'K' || u.kind == 'S') })
			if k < 0 {
				continue
			}
			r := pg.ref(k)
			u := pg.w.catalog[k]
			r.hasSeq = true
			age := int64(pg.s.nextH) - int64(u.height) // a block lock of n is met iff n <= age
			met := true
			switch g.R.Intn(6) {
			case 0, 1: // blocks
				d := g.R.Range(-1, 1)
				if real && d > 0 {
					d = 0
				}
				r.seq = uint32(age + d)
				met = d <= 0
			case 2, 3: // seconds
				r.mtpPrev = pg.s.mtpAt(int(u.height) - 1)
				room := (pg.s.mtp - r.mtpPrev) / 512 // a time lock of n is met iff 512 n <= mtp - mtpPrev
				d := g.R.Range(-1, 1)
				if real && d > 0 {
					d = 0
				}
				if room+d < 0 {
					d = 0
				}
				r.seq = uint32(room+d) | 1<<22
				met = d <= 0
			case 4: // disabled
				r.seq = 1<<31 | uint32(g.R.Intn(65536)) | uint32(g.R.Intn(2))<<22
			case 5: // no lock at all
				r.seq = uint32(g.R.Pick(0, 0xfffffffe, 0xffffffff))
			}
			_ = met
			j := pg.add([]inRef{r}, []byte{'T', []byte{'T', 'K', 'H'}[g.R.Intn(3)]}, g.R.Range(1000, 50000))
			pg.s.txs[j].ver = int32(g.R.Pick(2, 2, 2, 1))
			pg.s.txs[j].allMax = r.seq == 0xffffffff
			if g.R.Chance(1, 3) { // a child with a relative lock on its unconfirmed parent
				cs := uint32(g.R.Pick(0, 1, 1<<22, 1<<22|1, 1<<31|5))
				if real && (cs == 1 || cs == 1<<22|1) {
					cs = 0
				}
				cj := pg.add([]inRef{{kind: 'p', k: j, idx: 0, hasSeq: true, seq: cs}}, []byte{'T', 'T'}, g.R.Range(1000, 50000))
				pg.s.txs[cj].ver = 2
				pg.s.txs[cj].allMax = false
			}
		}
		s := pg.finish(real == false)
		if real && !keysDistinct(s) {
			continue
		}
		g.Case("seq-locks", len(s.txs) > 0, s.line())
	}
}

// genRetarget: a testnet-style chain (retarget every 10 blocks, minimum
// difficulty allowed 20 minutes after the tip) whose difficulty is above the
// minimum.  The template is made at one clock, refreshed with UpdateBlockTime
// at another; both sit at -1 / 0 / +1 s (and further away) of the
// tip + 20 min boundary where the required bits drop to the minimum.  The
// refreshed header must carry the bits consensus requires for ITS timestamp.
func genRetarget(g *core.Gen) {
	offs := []int64{10, 600, 1199, 1200, 1201, 1500}
	for c := 0; c < g.N(24, 150); c++ {
		pg := newPoolGen(g.R, 2)
		tip := worldT0 + spacing(2)*int64(worldBlocks)
		d1 := offs[g.R.Intn(len(offs))]
		d2 := 1200 + g.R.Pick(-1, 0, 1, 300, -600)
		if c%4 == 0 {
			d2 = d1 + g.R.Pick(0, 1, 31)
		}
		if d2 < d1 {
			d2 = d1
		}
		pg.s.now, pg.s.unow = tip+d1, tip+d2
		pg.s.pb = true
		pg.s.upd = c%3 != 0
		pg.randomPool(poolOpts{n: g.R.Intn(5), childProb: 30, maxFee: 50000, anyKind: true})
		s := pg.finish(true)
		params := makeParams(2)
		s.dp = diffParams(params)
		var parts []string
		for h := worldBlocks; h >= 0; h-- {
			parts = append(parts, fmt.Sprintf("%d:%08x", pg.w.times[h], pg.w.bits[h]))
		}
		s.hist = joinStrings(parts, ",")
		g.Case("retarget", true, s.line())
	}
}

// genTriggers rebuilds the triggers of the three fixed findings from the
// current tree on every run (stored corpus lines would carry values such as the
// coinbase weight or the reserved header overhead, which are internal to the
// implementation and may legitimately change).
func genTriggers(g *core.Gen) {
	r := core.NewRand(12)
	// F-C12-a: MTP <= locktime < now with a non-final sequence, CSV active
	for _, d := range []int64{-2, -1} {
		pg := newPoolGen(r, 0)
		pg.s.pb, pg.s.nc, pg.s.uc, pg.s.en = true, false, false, 0
		k := pg.pick(func(u utxo) bool { return pg.spendable(u) && u.kind == 'T' && !u.cb })
		j := pg.add([]inRef{pg.ref(k)}, []byte{'T'}, 15000)
		pg.s.txs[j].lockKind, pg.s.txs[j].lock, pg.s.txs[j].allMax = 'T', pg.s.now+d, false
		g.Case("trigger-f-c12-a", true, pg.finish(true).line())
	}
	{ // ... and exactly at the median time
		pg := newPoolGen(r, 0)
		pg.s.pb, pg.s.nc, pg.s.uc, pg.s.en = true, false, false, 0
		k := pg.pick(func(u utxo) bool { return pg.spendable(u) && u.kind == 'T' && !u.cb })
		j := pg.add([]inRef{pg.ref(k)}, []byte{'T'}, 15000)
		pg.s.txs[j].lockKind, pg.s.txs[j].lock, pg.s.txs[j].allMax = 'T', pg.s.mtp, false
		g.Case("trigger-f-c12-a", true, pg.finish(true).line())
	}
	// F-C12-b: the block is full to the policy maximum with non-witness transactions when a witness
	// transaction with a lower fee rate is considered
	for _, extra := range []int64{1, 224} {
		pg := newPoolGen(r, 0)
		pg.s.pb, pg.s.nc, pg.s.uc, pg.s.en = true, false, false, 0
		for i := 0; i < 2; i++ {
			k := pg.pick(func(u utxo) bool { return pg.spendable(u) && u.kind == 'T' && !u.cb })
			j := pg.add([]inRef{pg.ref(k)}, []byte{'T'}, 80000)
			pg.s.txs[j].fpk = 500000 + int64(i)
		}
		k := pg.pick(func(u utxo) bool { return pg.spendable(u) && u.kind == 'S' })
		j := pg.add([]inRef{pg.ref(k)}, []byte{'T'}, 3000)
		pg.s.txs[j].fpk = 20000
		s := pg.finish(false)
		s.maxW = uint32(4*headerOverhead() + s.cbw + s.txs[0].wt + s.txs[1].wt + extra)
		g.Case("trigger-f-c12-b", true, s.line())
	}
	// F-C12-c: extra nonce 2^63
	{
		pg := newPoolGen(r, 0)
		pg.s.pb, pg.s.nc, pg.s.uc = true, false, false
		pg.s.en = 1 << 63
		k := pg.pick(func(u utxo) bool { return pg.spendable(u) && u.kind == 'T' && !u.cb })
		pg.add([]inRef{pg.ref(k)}, []byte{'T'}, 9000)
		g.Case("trigger-f-c12-c", true, pg.finish(true).line())
	}
}

// genReuse: op "reuse" (inputs are values): one policy / parameter / source /
// address / cache set serves three sequential and three concurrent calls.
func genReuse(g *core.Gen) {
	for c := 0; c < g.N(15, 100); c++ {
		pg := newPoolGen(g.R, c%2)
		pg.s.reuse, pg.s.pb = true, true
		pg.randomPool(poolOpts{n: 2 + g.R.Intn(8), childProb: 20 + g.R.Intn(50), anomalies: g.R.Bool(),
			maxFee: 60000, zeroFeePct: 10, anyKind: true})
		if g.R.Chance(1, 3) {
			pg.s.prioSize = uint32(g.R.Pick(1500, 3000, 50000))
		}
		pg.s.minFree = g.R.Pick(0, 1000, 20000)
		s := pg.finish(true)
		g.Case("reuse", len(s.txs) > 0, s.line())
	}
}

// genRace: the tip moves forward between the generator's snapshot of the best
// chain and its final check (pinned through the source).
func genRace(g *core.Gen) {
	for c := 0; c < g.N(6, 40); c++ {
		pg := newPoolGen(g.R, c%2)
		pg.s.race, pg.s.pb = true, true
		pg.randomPool(poolOpts{n: 1 + g.R.Intn(5), childProb: 30, maxFee: 60000, anyKind: true})
		s := pg.finish(true)
		g.Case("race-tip-moves", true, s.line())
	}
}

// genHetero: every transaction differs from the others in every attribute
// that can differ: version, lock kind, number and script classes of inputs
// (all five classes inside one transaction), output classes, witness or not,
// confirmed / unconfirmed parents, fee rate, priority, sigop weight.
func genHetero(g *core.Gen) {
	for c := 0; c < g.N(15, 100); c++ {
		pg := newPoolGen(g.R, 0)
		kindsIn := []byte{'T', 'K', 'W', 'S', 'H'}
		// one transaction spending one output of every script class
		var ins []inRef
		for _, kd := range kindsIn {
			k := pg.pick(func(u utxo) bool { return pg.spendable(u) && !u.cb && u.kind == kd })
			if k >= 0 {
				r := pg.ref(k)
				r.hasSeq, r.seq = true, uint32(g.R.Pick(0xffffffff, 0xfffffffe, 0, 1, 1<<31|7))
				ins = append(ins, r)
			}
		}
		g.R.Fork() // keep the stream position independent of the shuffle below
		for i := len(ins) - 1; i > 0; i-- {
			j := g.R.Intn(i + 1)
			ins[i], ins[j] = ins[j], ins[i]
		}
		j0 := pg.add(ins, []byte{'K', 'W', 'S', 'H', 'T', 'M', 'R'}, g.R.Range(20000, 90000))
		pg.s.txs[j0].ver = 2
		pg.s.txs[j0].allMax = false
		for _, r := range ins {
			if !(r.seq == 0xffffffff) {
				pg.s.txs[j0].allMax = false
			}
		}
		// children of its outputs, each of a different shape
		vers := []int32{1, 2, 2, 1}
		for i := 0; i < 4; i++ {
			extra := pg.pick(func(u utxo) bool { return pg.spendable(u) && !u.cb && u.kind == kindsIn[(i+c)%5] })
			cins := []inRef{{kind: 'p', k: j0, idx: i}}
			if extra >= 0 && i%2 == 0 {
				cins = append(cins, pg.ref(extra))
			}
			cj := pg.add(cins, pg.randKinds(1+i%3), g.R.Range(0, 50000))
			pg.s.txs[cj].ver = vers[i]
			if i == 1 {
				pg.s.txs[cj].lockKind, pg.s.txs[cj].lock, pg.s.txs[cj].allMax = 'H', int64(pg.s.nextH)-1, false
			}
			if i == 3 {
				pg.s.txs[cj].lockKind, pg.s.txs[cj].lock, pg.s.txs[cj].allMax = 'T', pg.s.mtp-1, false
			}
		}
		pg.randomPool(poolOpts{n: g.R.Intn(4), childProb: 30, maxFee: 60000, zeroFeePct: 20, anyKind: true})
		s := pg.finish(true)
		permute(s, g.R)
		if g.R.Chance(1, 3) {
			s.prioSize = uint32(g.R.Pick(2000, 5000, 50000))
		}
		g.Case("hetero", true, s.line())
	}
}

// genPositionSweep: one violating transaction among valid ones, at the first,
// a middle and the last position of the source list, and with the highest, a
// middle and the lowest fee rate.
func genPositionSweep(g *core.Gen) {
	kinds := []string{"nonfinal", "unknown-in", "bad-script", "immature", "double-spend", "coinbase", "dup-input", "overspend"}
	c := 0
	for _, kind := range kinds {
		for pos := 0; pos < 3; pos++ {
			c++
			if !g.Thorough() && (c+int(g.Seed))%2 == 0 {
				continue
			}
			pg := newPoolGen(g.R, 0)
			n := 5
			for i := 0; i < n; i++ {
				k := pg.pick(func(u utxo) bool { return pg.spendable(u) && !u.cb && (u.kind == 'T' || u.kind == 'K' || u.kind == 'S') })
				pg.add([]inRef{pg.ref(k)}, pg.randKinds(2), g.R.Range(5000, 60000))
			}
			k := pg.pick(func(u utxo) bool { return pg.spendable(u) && !u.cb && u.kind == 'T' })
			r := pg.ref(k)
			var j int
			switch kind {
			case "nonfinal":
				j = pg.add([]inRef{r}, []byte{'T'}, 30000)
				pg.s.txs[j].lockKind, pg.s.txs[j].lock, pg.s.txs[j].allMax = 'H', int64(pg.s.nextH), false
			case "unknown-in":
				j = pg.add([]inRef{r, {kind: 'x', k: 7}}, []byte{'T'}, 30000)
			case "bad-script":
				r.bad = true
				j = pg.add([]inRef{r}, []byte{'T'}, 30000)
			case "immature":
				kc := pg.pick(func(u utxo) bool { return u.cb && pg.s.available(u) && pg.s.nextH-u.height < worldMaturity })
				j = pg.add([]inRef{r, pg.ref(kc)}, []byte{'T'}, 30000)
			case "double-spend":
				j = pg.add([]inRef{r, pg.s.txs[2].ins[0]}, []byte{'T'}, 30000)
			case "coinbase":
				j = pg.add([]inRef{{kind: 'c'}}, []byte{'T'}, 0)
			case "dup-input":
				j = pg.add([]inRef{r, r}, []byte{'T'}, 30000)
			case "overspend":
				j = pg.add([]inRef{r}, []byte{'T'}, 1000)
				pg.s.txs[j].outs[0].amt += 5000
				pg.s.txs[j].fee = 1000
			}
			s := pg.finish(true)
			// fee-rate rank of the violating transaction: highest / middle / lowest
			rank := (c / 3) % 3
			fp := []int64{2000000, 250000, 1}[rank]
			s.txs[j].fpk = fp
			// position in the source list
			last := len(s.txs) - 1
			target := []int{0, last / 2, last}[pos]
			moveTx(s, j, target)
			g.Case("position-sweep", true, s.line())
		}
	}
}

// moveTx moves pool transaction `from` to index `to` (renaming pool references).
func moveTx(s *scenario, from, to int) {
	n := len(s.txs)
	order := make([]int, 0, n) // order[new] = old
	for i := 0; i < n; i++ {
		if i != from {
			order = append(order, i)
		}
	}
	order = append(order[:to], append([]int{from}, order[to:]...)...)
	newIdx := make([]int, n)
	for ni, oi := range order {
		newIdx[oi] = ni
	}
	out := make([]txSpec, n)
	for ni, oi := range order {
		t := s.txs[oi]
		ins := make([]inRef, len(t.ins))
		copy(ins, t.ins)
		for k := range ins {
			if ins[k].kind == 'p' {
				ins[k].k = newIdx[ins[k].k]
			}
		}
		t.ins = ins
		out[ni] = t
	}
	s.txs = out
}

// genLowHeight: a short chain, so the generator builds coinbases for heights
// 15..18, where the BIP34 height push changes from OP_15 / OP_16 to a one-byte
// data push; extra nonces at the same encoding edges.
func genLowHeight(g *core.Gen) {
	for c := 0; c < g.N(12, 60); c++ {
		pg := newPoolGen(g.R, 3+c%3/2) // world 3 (heights 15..18) twice, world 4 (127..130) once
		pg.s.fwd = c % 4
		pg.s.pb = true
		pg.s.now += spacing(pg.s.world) * int64(pg.s.fwd)
		pg.s.en = extraNonces[g.R.Intn(len(extraNonces))]
		pg.randomPool(poolOpts{n: g.R.Intn(5), childProb: 30, maxFee: 60000, anyKind: true})
		s := pg.finish(true)
		g.Case("low-height", true, s.line())
	}
}

// genSeqBits: every single bit of the 32-bit sequence number of a version-2
// input (bits 0-15 relative lock value, 16-21 and 23-30 unused, 22 type, 31
// disable), on an output of varying age, alone or as the first / middle / last
// of three inputs.
func genSeqBits(g *core.Gen) {
	for bit := 0; bit < 32; bit++ {
		if !g.Thorough() && (bit+int(g.Seed))%2 == 1 && bit > 3 && bit != 16 && bit != 22 && bit != 31 {
			continue
		}
		pg := newPoolGen(g.R, 0)
		var ins []inRef
		pos := bit % 3
		for k := 0; k < 3; k++ {
			u := pg.pick(func(u utxo) bool { return pg.spendable(u) && !u.cb && u.kind == 'T' })
			r := pg.ref(u)
			r.hasSeq, r.seq = true, 0xffffffff
			if k == pos {
				r.seq = 1 << uint(bit)
				if bit == 22 {
					r.mtpPrev = pg.s.mtpAt(int(pg.w.catalog[u].height) - 1)
				}
			}
			ins = append(ins, r)
		}
		if bit%4 == 0 {
			ins = ins[pos : pos+1]
		}
		j := pg.add(ins, []byte{'T', 'K'}, g.R.Range(1000, 50000))
		pg.s.txs[j].ver = 2
		pg.s.txs[j].allMax = false
		s := pg.finish(true)
		g.Case("seq-bits", true, s.line())
	}
}

// genClockAtMTP: the node's clock at MTP-1 / MTP / MTP+1 / MTP+2 (and far
// behind) of a chain whose recent blocks are timestamped ahead of it, both when
// the template is made and when it is refreshed with UpdateBlockTime: the
// header must carry max(clock, MTP+1) - strictly after the median time - and
// the template / refreshed template must validate and connect.
func genClockAtMTP(g *core.Gen) {
	offs := []int64{-1, 0, 1, 2, -3000}
	c := 0
	for _, d1 := range offs {
		for _, d2 := range []int64{-1, 0, 1, 2} {
			c++
			if !g.Thorough() && (c+int(g.Seed))%2 == 0 && d1 != 0 && d2 != 0 {
				continue
			}
			pg := newPoolGen(g.R, c%3) // CSV/segwit on, off, and the retargeting world
			pg.s.now, pg.s.unow = pg.s.mtp+d1, pg.s.mtp+d2
			pg.s.pb = true
			pg.s.upd = c%2 == 0
			if c%4 != 0 {
				pg.randomPool(poolOpts{n: g.R.Intn(4), childProb: 30, maxFee: 50000, anyKind: true})
			}
			s := pg.finish(true)
			if s.world == 2 {
				s.dp = diffParams(makeParams(2))
				var parts []string
				for h := blocksOf(2); h >= 0; h-- {
					parts = append(parts, fmt.Sprintf("%d:%08x", pg.w.times[h], pg.w.bits[h]))
				}
				s.hist = joinStrings(parts, ",")
			}
			g.Case("clock-at-mtp", true, s.line())
		}
	}
}
