package p12

import (
	"fmt"

	"github.com/btcsuite/btcd/mempool"
	"verifharness/core"
)

// ---------------------------------------------------------------- pool builder used by all generators

type poolGen struct {
	s    *scenario
	w    *world
	r    *core.Rand
	used map[int]bool
	fpks map[int64]bool
}

func newPoolGen(r *core.Rand, world int) *poolGen {
	s := &scenario{world: world, src: "stub", minW: 0, maxW: 4000000 - 4000, prioSize: 0, minFree: 1000}
	s.now = worldT0 + worldSpacing*int64(worldBlocks) + 1200
	pg := &poolGen{s: s, w: getWorld(world), r: r, used: map[int]bool{}, fpks: map[int64]bool{}}
	s.deriveFacts()
	return pg
}

// setReorg fixes the tip before any transaction is added.
func (pg *poolGen) setReorg(f, k int) {
	pg.s.roF, pg.s.roK = f, k
	pg.s.deriveFacts()
	tip := pg.s.chainTimes()
	pg.s.now = tip[len(tip)-1] + 1200
}

// pick returns an unused world output satisfying pred (-1: none).
func (pg *poolGen) pick(pred func(u utxo) bool) int {
	n := len(pg.w.catalog)
	start := pg.r.Intn(n)
	for d := 0; d < n; d++ {
		k := (start + d) % n
		if !pg.used[k] && pred(pg.w.catalog[k]) {
			pg.used[k] = true
			return k
		}
	}
	return -1
}

func (pg *poolGen) ref(k int) inRef {
	u := pg.w.catalog[k]
	if !pg.s.available(u) {
		return inRef{kind: 'g', k: k}
	}
	return inRef{kind: 'u', k: k, val: u.val, height: u.height, cb: u.cb}
}

func (pg *poolGen) spendable(u utxo) bool {
	if !pg.s.available(u) {
		return false
	}
	if u.cb && pg.s.nextH-u.height < worldMaturity {
		return false
	}
	if !pg.s.seg && (u.kind == 'W' || u.kind == 'S') {
		return false
	}
	return true
}

// inValue is the value an input brings (0 when it can never exist).
func (pg *poolGen) inValue(r inRef) int64 {
	switch r.kind {
	case 'u':
		return r.val
	case 'p':
		if r.idx < len(pg.s.txs[r.k].outs) {
			return pg.s.txs[r.k].outs[r.idx].amt
		}
	}
	return 0
}

// add appends a transaction spending ins, paying fee, splitting the rest over
// outs kinds.  It returns the pool index.
func (pg *poolGen) add(ins []inRef, kinds []byte, fee int64) int {
	total := int64(0)
	for _, r := range ins {
		total += pg.inValue(r)
	}
	if fee > total {
		fee = total
	}
	rest := total - fee
	t := txSpec{ins: ins, lockKind: '0', allMax: true, fee: fee}
	for i, k := range kinds {
		v := rest / int64(len(kinds)-i)
		if k == 'M' || k == 'R' {
			v = 0
		}
		rest -= v
		t.outs = append(t.outs, outSpec{k, v})
	}
	if rest > 0 { // everything went to zero-value outputs: the rest is fee
		t.fee += rest
	}
	pg.s.txs = append(pg.s.txs, t)
	return len(pg.s.txs) - 1
}

// uniqueFpk makes the fee rate distinct from all others so that the heap's
// pop order does not depend on its internal layout.
func (pg *poolGen) uniqueFpk(v int64) int64 {
	for pg.fpks[v] {
		v++
	}
	pg.fpks[v] = true
	return v
}

// finish fills in the oracle values and the descriptor fee rates.
func (pg *poolGen) finish(distinctKeys bool) *scenario {
	s := pg.s
	s.deriveFacts()
	bp := s.buildPool(pg.w)
	an := s.analyze(pg.w, bp)
	for i := range s.txs {
		fee, fpk := s.txs[i].fee, s.txs[i].fpk
		s.txs[i] = an[i]
		s.txs[i].fee = fee
		switch {
		case s.src == "pool":
			s.txs[i].fpk = fee * 1000 / mempool.GetTxVirtualSize(bp.txs[i])
		case fpk != 0:
			s.txs[i].fpk = fpk
		default:
			s.txs[i].fpk = fee * 1000 / mempool.GetTxVirtualSize(bp.txs[i])
		}
		if distinctKeys && s.src != "pool" {
			s.txs[i].fpk = pg.uniqueFpk(s.txs[i].fpk)
		}
	}
	return s
}

// keysDistinct reports whether (priority, fee rate) pairs are pairwise
// distinct, i.e. the pop order is a function of the queue content only.
func keysDistinct(s *scenario) bool {
	seen := map[string]bool{}
	for _, t := range s.txs {
		k := fmt.Sprintf("%d/%d", t.prio, t.fpk)
		if seen[k] {
			return false
		}
		seen[k] = true
	}
	return true
}

// ---------------------------------------------------------------- generators

func (P) Generate(g *core.Gen) {
	genIndependent(g)
}

var outKinds = []byte{'T', 'K', 'W', 'S', 'H'}

func genIndependent(g *core.Gen) {
	for c := 0; c < g.N(60, 400); c++ {
		pg := newPoolGen(g.R, 0)
		pg.s.addr = g.R.Bool()
		pg.s.upd = g.R.Bool()
		n := 1 + g.R.Intn(8)
		for i := 0; i < n; i++ {
			k := pg.pick(func(u utxo) bool { return pg.spendable(u) && (u.kind == 'T' || u.kind == 'K') })
			if k < 0 {
				break
			}
			nout := 1 + g.R.Intn(3)
			kinds := make([]byte, nout)
			for j := range kinds {
				kinds[j] = outKinds[g.R.Intn(len(outKinds))]
			}
			pg.add([]inRef{pg.ref(k)}, kinds, g.R.Range(0, 50000))
		}
		s := pg.finish(true)
		g.Case("independent", len(s.txs) > 0, s.line())
	}
}
