package p14

import (
	"fmt"
	"sort"
	"strings"
	"time"

	"github.com/btcsuite/btcd/blockchain"
	"github.com/btcsuite/btcd/chaincfg/v2"
	"verifharness/core"
)

// ---------------------------------------------------------------- facts (T2)

func netParams() map[string]*chaincfg.Params {
	return map[string]*chaincfg.Params{
		"main": &chaincfg.MainNetParams, "test3": &chaincfg.TestNet3Params,
		"test4": &chaincfg.TestNet4Params, "sig": &chaincfg.SigNetParams,
		"reg": &chaincfg.RegressionNetParams, "sim": &chaincfg.SimNetParams,
	}
}

var depNames = map[int]string{
	chaincfg.DeploymentTestDummy: "testDummy", chaincfg.DeploymentTestDummyMinActivation: "testDummyMinActivation",
	chaincfg.DeploymentCSV: "csv", chaincfg.DeploymentSegwit: "segwit", chaincfg.DeploymentTaproot: "taproot",
	chaincfg.DeploymentTestDummyAlwaysActive: "testDummyAlwaysActive",
}

// depFact: [bit, hasStart, start, hasEnd, end, minHeight, customThreshold, alwaysActiveHeight]
func depFact(d *chaincfg.ConsensusDeployment) []int64 {
	out := []int64{int64(d.BitNumber), 0, 0, 0, 0, int64(d.MinActivationHeight),
		int64(d.CustomActivationThreshold), int64(d.AlwaysActiveHeight)}
	s := d.DeploymentStarter.(*chaincfg.MedianTimeDeploymentStarter).StartTime()
	if !s.IsZero() {
		out[1], out[2] = 1, s.Unix()
	}
	e := d.DeploymentEnder.(*chaincfg.MedianTimeDeploymentEnder).EndTime()
	if !e.IsZero() {
		out[3], out[4] = 1, e.Unix()
	}
	return out
}

func (P) Facts() []core.Fact {
	var fs []core.Fact
	for k, v := range blockchain.VerifConstsC14() {
		fs = append(fs, core.Fact{Name: k, Value: v})
	}
	for name, p := range netParams() {
		fs = append(fs,
			core.Fact{Name: name + "_window", Value: int64(p.MinerConfirmationWindow)},
			core.Fact{Name: name + "_threshold", Value: int64(p.RuleChangeActivationThreshold)})
		for id := range p.Deployments {
			fs = append(fs, core.Fact{Name: name + "_" + depNames[id], Value: depFact(&p.Deployments[id])})
		}
	}
	return fs
}

// ---------------------------------------------------------------- generation

type gnode struct {
	parent  int
	version uint32
	ts      int64
	length  int // path length = height+1
}

type gtree struct {
	nodes []gnode
}

func (t *gtree) path(i int, max int) []int {
	var out []int
	for i >= 0 && len(out) < max {
		out = append(out, i)
		i = t.nodes[i].parent
	}
	return out
}

// mtp of node i (median of up to 11 timestamps, upper median) — only used to aim start/timeout values.
func (t *gtree) mtp(i int) int64 {
	var ts []int64
	for _, j := range t.path(i, 11) {
		ts = append(ts, t.nodes[j].ts)
	}
	sort.Slice(ts, func(a, b int) bool { return ts[a] < ts[b] })
	return ts[len(ts)/2]
}

func (t *gtree) add(parent int, version uint32, ts int64) int {
	l := 1
	if parent >= 0 {
		l = t.nodes[parent].length + 1
	}
	t.nodes = append(t.nodes, gnode{parent, version, ts, l})
	return len(t.nodes) - 1
}

type gdep struct {
	bit             int
	start, end      *int64
	minH, cthr, aah int64
}

func optS(p *int64) string {
	if p == nil {
		return "-"
	}
	return fmt.Sprint(*p)
}

func (d gdep) String() string {
	return fmt.Sprintf("%d:%s:%s:%d:%d:%d", d.bit, optS(d.start), optS(d.end), d.minH, d.cthr, d.aah)
}

func (d gdep) thr(netT int64) int64 {
	if d.cthr != 0 {
		return d.cthr
	}
	return netT
}

var badTops = []uint32{0x00000004, 0x40000000, 0x60000000, 0xe0000000, 0x00000000, 0xa0000000, 0x10000000}

// grow appends `count` blocks below `from`. Votes are planned per window and per deployment:
// the number of signalling blocks is aimed at threshold-1 / threshold / threshold+1 / 0 / all.
func grow(r *core.Rand, t *gtree, from int, count int, W int, netT int64, deps []gdep, breakTime bool) int {
	cur := from
	var plan [][]bool // plan[dep][posInWindow]
	replan := func() {
		plan = make([][]bool, len(deps))
		for j, d := range deps {
			th := d.thr(netT)
			c := r.Pick(th-1, th, th, th+1, 0, int64(W), r.Range(0, int64(W)))
			if c < 0 {
				c = 0
			}
			if c > int64(W) {
				c = int64(W)
			}
			pl := make([]bool, W)
			for k := int64(0); k < c; {
				p := r.Intn(W)
				if !pl[p] {
					pl[p] = true
					k++
				}
			}
			plan[j] = pl
		}
	}
	// an "unknown rule" campaign: some windows carry a bit no deployment owns in about
	// netT-1 / netT / netT+1 / all blocks (drives the warning machine to LockedIn / Active)
	unknownBit := -1
	var unknownPlan []bool
	replanUnknown := func() {
		if unknownBit >= 0 && r.Chance(2, 3) {
			// keep campaigning on the same bit so it can get from LockedIn to Active
		} else if r.Chance(1, 3) {
			unknownBit = int(r.Pick(28, 28, 27, 0, 1, r.Range(0, 28)))
		} else {
			unknownBit = -1
		}
		unknownPlan = make([]bool, W)
		if unknownBit < 0 {
			return
		}
		c := r.Pick(netT-1, netT, netT, netT+1, int64(W))
		if c > int64(W) {
			c = int64(W)
		}
		for k := int64(0); k < c; {
			p := r.Intn(W)
			if !unknownPlan[p] {
				unknownPlan[p] = true
				k++
			}
		}
	}
	replan()
	replanUnknown()
	for i := 0; i < count; i++ {
		length := 1
		var prevTs, prevMtp int64 = 1000000, 999999
		if cur >= 0 {
			length = t.nodes[cur].length + 1
			prevTs, prevMtp = t.nodes[cur].ts, t.mtp(cur)
		}
		pos := (length - 1) % W // height % W
		if pos == 0 {
			replan()
			replanUnknown()
		}
		v := uint32(0x20000000)
		if unknownBit >= 0 && unknownPlan[pos] {
			v |= 1 << uint(unknownBit)
		}
		for j, d := range deps {
			if plan[j][pos] && d.bit < 32 {
				v |= 1 << uint(d.bit)
			}
		}
		switch r.Intn(24) {
		case 0: // not a version-bits block: its votes must not count
			v = v&0x1fffffff | badTops[r.Intn(len(badTops))]
		case 1:
			v |= 1 << uint(r.Intn(29)) // stray bit
		}
		var ts int64
		switch r.Intn(8) {
		case 0:
			ts = prevMtp + 1 // smallest legal timestamp
		case 1:
			ts = prevTs + r.Range(500, 3000) // jump ahead
		case 2:
			ts = prevTs - r.Range(0, 50) // back in time, clamped to the rule below
		default:
			ts = prevTs + r.Range(0, 120)
		}
		if ts <= prevMtp {
			ts = prevMtp + 1
		}
		if breakTime && r.Chance(1, 6) {
			ts = prevMtp - r.Range(0, 400) // violates the timestamp rule (excluded histories)
		}
		cur = t.add(cur, v, ts)
	}
	return cur
}

func lineOf(W int, netT int64, deps []gdep, t *gtree, queries []string) string {
	ds := make([]string, len(deps))
	for i, d := range deps {
		ds[i] = d.String()
	}
	ns := make([]string, len(t.nodes))
	for i, n := range t.nodes {
		ns[i] = fmt.Sprintf("%d:%x:%d", n.parent, n.version, n.ts)
	}
	return fmt.Sprintf("C14 q %d %d %s %s %s", W, netT, strings.Join(ds, ";"), strings.Join(ns, ","), strings.Join(queries, ","))
}

func p64(v int64) *int64 { return &v }

// genDeps aims start/timeout at the MTP of window-boundary nodes of the first branch.
func genDeps(r *core.Rand, W int, netT int64, windows int, bmtp []int64, illFormed bool) []gdep {
	deps := make([]gdep, chaincfg.DefinedDeployments)
	usedBits := map[int]bool{}
	pickB := func() int64 {
		if len(bmtp) == 0 {
			return 1000000
		}
		return bmtp[r.Intn(len(bmtp))] + r.Pick(-1, 0, 0, 1, -30, 30)
	}
	for i := range deps {
		d := gdep{}
		for {
			d.bit = r.Intn(29)
			switch r.Intn(20) {
			case 0:
				d.bit = int(r.Pick(29, 30, 31))
			case 1:
				d.bit = int(r.Pick(32, 33, 64, 255))
			}
			if !usedBits[d.bit] || r.Chance(1, 10) {
				break
			}
		}
		usedBits[d.bit] = true
		if !r.Chance(1, 4) {
			d.start = p64(pickB())
		}
		zeroTime := int64(-62135596800) // time.Unix(zeroTime, 0).IsZero(): "always started" / "never ends"
		if r.Chance(1, 40) {
			d.start = p64(zeroTime)
		}
		if !r.Chance(1, 3) {
			e := pickB()
			if d.start != nil && e < *d.start && !illFormed {
				e = *d.start + r.Pick(0, 0, 1, 200, 1000)
			}
			d.end = p64(e)
		}
		if r.Chance(1, 40) {
			d.end = p64(zeroTime)
		}
		maxLen := int64(W * (windows + 1))
		switch r.Intn(5) {
		case 0, 1: // legacy BIP9
		case 2:
			d.minH = int64(W)*r.Range(1, int64(windows)) + r.Pick(-1, 0, 0, 1)
		case 3:
			d.cthr = r.Pick(netT-1, netT, netT+1, 1, int64(W), int64(W)+1, r.Range(1, int64(W)))
			if d.cthr <= 0 {
				d.cthr = 1
			}
		case 4:
			d.minH = int64(W)*r.Range(1, int64(windows)) + r.Pick(-1, 0, 0, 1)
			d.cthr = r.Range(1, int64(W))
		}
		if r.Chance(1, 6) {
			d.aah = r.Pick(1, 2, r.Range(1, maxLen), int64(W)*r.Range(1, int64(windows))+r.Pick(-1, 0, 1))
			if d.aah < 0 {
				d.aah = 1
			}
		}
		deps[i] = d
	}
	return deps
}

// inst is one generated chain instance (one q-line).
type inst struct {
	W          int
	netT       int64
	deps       []gdep
	t          *gtree
	tips       []int
	total      int
	windows    int
	qs         []string
	class      string
	nontrivial bool
}

func (in *inst) fields() []string {
	ds := make([]string, len(in.deps))
	for i, d := range in.deps {
		ds[i] = d.String()
	}
	ns := make([]string, len(in.t.nodes))
	for i, n := range in.t.nodes {
		ns[i] = fmt.Sprintf("%d:%x:%d", n.parent, n.version, n.ts)
	}
	return []string{fmt.Sprint(in.W), fmt.Sprint(in.netT), strings.Join(ds, ";"), strings.Join(ns, ","), strings.Join(in.qs, ",")}
}

// genInstance draws one instance. With reuse != nil the header tree (hence every block hash) of
// that instance is kept and only window / threshold / deployments / queries are drawn anew: two
// chains over the same blocks with different rules must not influence each other.
func genInstance(r *core.Rand, reuse *inst, allowExcluded bool) *inst {
	W := int(r.Pick(2, 3, 3, 4, 4, 5, 6, 8, 10))
	excluded := ""
	if allowExcluded && r.Chance(1, 40) {
		W = int(r.Pick(1, 1, 0))
		excluded = "-window<2"
	}
	if reuse != nil && r.Chance(1, 2) {
		W = reuse.W
	}
	netT := r.Range(0, int64(W)+1)
	if r.Chance(2, 3) && W > 0 {
		netT = int64(W) - r.Range(0, int64(W)/2)
	}
	windows := int(r.Range(3, 6))
	if r.Chance(1, 40) {
		windows = 0 // chain shorter than / exactly one window
	}
	breakTime := allowExcluded && r.Chance(1, 25)
	if breakTime {
		excluded += "-timerule"
	}
	illFormed := r.Chance(1, 8) // allow timeout < start (BIP9: DEFINED -> FAILED wins)
	wEff := W
	if wEff == 0 {
		wEff = 1
	}
	var t *gtree
	var tips []int
	var deps []gdep
	total := 0
	forks := 0
	if reuse != nil {
		t, tips, total = reuse.t, reuse.tips, reuse.total
		windows = total / wEff
		if windows < 1 {
			windows = 1
		}
		var bmtp []int64
		for _, j := range t.path(tips[0], 1<<30) {
			if t.nodes[j].length%wEff == 0 || r.Chance(1, 10) {
				bmtp = append(bmtp, t.mtp(j))
			}
		}
		deps = genDeps(r, wEff, netT, windows, bmtp, illFormed)
		forks = len(tips) - 1
	} else {
		// phase 1: timestamps of the first branch decide where start/timeout are aimed, so
		// deployments are drawn after a dry run of the main branch's timestamps.
		t = &gtree{}
		total = wEff*windows + r.Intn(wEff+1)
		if total < 1 {
			total = 1
		}
		tip := grow(r.Fork(), t, -1, total, wEff, netT, nil, breakTime)
		var bmtp []int64
		for _, j := range t.path(tip, 1<<30) {
			if t.nodes[j].length%wEff == 0 || r.Chance(1, 10) {
				bmtp = append(bmtp, t.mtp(j))
			}
		}
		deps = genDeps(r, wEff, netT, windows, bmtp, illFormed)
		// phase 2: assign the votes of the main branch window by window (same timestamps)
		{
			t2 := &gtree{}
			cur := -1
			idxs := t.path(tip, 1<<30)
			tmp := &gtree{}
			grow(r.Fork(), tmp, -1, total, wEff, netT, deps, false)
			for k := len(idxs) - 1; k >= 0; k-- {
				n := t.nodes[idxs[k]]
				cur = t2.add(cur, tmp.nodes[len(idxs)-1-k].version, n.ts)
			}
			t = t2
			tip = cur
		}
		tips = []int{tip}
		forks = int(r.Pick(0, 1, 1, 2, 2, 3, 4))
		for f := 0; f < forks; f++ {
			// fork points: anywhere, but mostly next to a window boundary
			fp := r.Intn(len(t.nodes))
			if r.Chance(1, 10) {
				fp = 0 // a second chain right from the genesis block
			} else if r.Chance(2, 3) {
				k := int(r.Range(1, int64(windows)))*wEff - 1 + int(r.Pick(-1, 0, 0, 1))
				if k >= 0 && k < total {
					fp = k
				}
			}
			n := int(r.Range(1, int64(3*wEff)))
			tips = append(tips, grow(r.Fork(), t, fp, n, wEff, netT, deps, breakTime))
		}
	}

	// queries
	var cand []int // interesting nodes
	for j, n := range t.nodes {
		m := n.length % wEff
		if m == 0 || m == 1 || m == wEff-1 || (n.length >= 10 && n.length <= 12) {
			cand = append(cand, j)
		}
	}
	cand = append(cand, tips...)
	nq := int(r.Range(3, 30))
	var qs []string
	order := r.Intn(4)
	var qnodes []int
	for k := 0; k < nq; k++ {
		switch r.Intn(10) {
		case 0:
			qnodes = append(qnodes, -1)
		case 1:
			qnodes = append(qnodes, r.Intn(len(t.nodes)))
		case 2:
			qnodes = append(qnodes, tips[r.Intn(len(tips))])
		default:
			qnodes = append(qnodes, cand[r.Intn(len(cand))])
		}
	}
	switch order {
	case 0:
		sort.Ints(qnodes)
	case 1:
		sort.Sort(sort.Reverse(sort.IntSlice(qnodes)))
	}
	focus := r.Intn(len(deps))
	// warning bits worth asking about: the deployments' own bits (expected while Started/LockedIn,
	// unknown before/after) and the stray bits some blocks carry
	var warnBits []int
	for _, d := range deps {
		if d.bit < 29 {
			warnBits = append(warnBits, d.bit)
		}
	}
	warnBits = append(warnBits, r.Intn(29), 28, 28, 27, 1, 0)
	heavy := 0 // I / W queries walk all 29 warning bits: at most two per line
	for _, qn := range qnodes {
		id := focus
		if r.Chance(1, 3) {
			id = r.Intn(len(deps))
		}
		nn := qn // node for the ops that need a real block
		if nn < 0 {
			nn = 0
		}
		switch r.Intn(21) {
		case 20:
			qs = append(qs, fmt.Sprintf("H%d@%d", id, nn))
		case 19:
			if r.Bool() {
				qs = append(qs, fmt.Sprintf("P%d@%d", id, qn))
			} else {
				// deep nodes make the concurrent walks long
				qs = append(qs, fmt.Sprintf("F%d@%d", id, tips[r.Intn(len(tips))]))
			}
		case 18:
			if heavy < 2 {
				heavy++
				if r.Bool() {
					qs = append(qs, fmt.Sprintf("W@%d", nn))
				} else {
					qs = append(qs, fmt.Sprintf("I%d@%d", r.Intn(2), nn))
				}
			}
		case 17:
			qs = append(qs, fmt.Sprintf("m@%d", nn))
		case 16:
			qs = append(qs, fmt.Sprintf("h%d@%d", id, nn))
		case 15:
			qs = append(qs, fmt.Sprintf("%s%d@%d", []string{"G", "G", "M"}[r.Intn(3)], chaincfg.DeploymentCSV, nn))
		case 14:
			// the three entry points of one deployment state must agree on the same tip
			qs = append(qs, fmt.Sprintf("s%d@%d", id, qn), fmt.Sprintf("d%d@%d", id, qn), fmt.Sprintf("a%d@%d", id, qn))
		case 13:
			qs = append(qs, fmt.Sprintf("g%d@%d", chaincfg.DeploymentCSV, nn)) // the id of the CSV deployment is a parameter
		case 12:
			wb := r.Intn(29)
			if r.Chance(2, 3) {
				wb = warnBits[r.Intn(len(warnBits))]
			}
			qs = append(qs, fmt.Sprintf("w%d@%d", wb, qn))
		case 0, 1, 2, 3, 4:
			qs = append(qs, fmt.Sprintf("d%d@%d", id, qn))
		case 5, 6:
			qs = append(qs, fmt.Sprintf("s%d@%d", id, qn))
		case 7:
			qs = append(qs, fmt.Sprintf("a%d@%d", id, qn))
		case 8:
			qs = append(qs, fmt.Sprintf("v@%d", qn))
		case 9: // the unexported calcNextBlockVersion(node) must agree with the exported one at that tip
			qs = append(qs, fmt.Sprintf("V@%d", qn), fmt.Sprintf("v@%d", qn))
		case 10:
			if excluded == "" {
				qs = append(qs, fmt.Sprintf("c%d", id))
			}
		case 11:
			qs = append(qs, fmt.Sprintf("d%d@%d", 7+r.Intn(3), qn)) // unknown deployment id
		}
	}
	// results are values: after everything else ran, the first answers are asked for again
	// (W/I answers are a sticky flag by design and are not repeated)
	for k := 0; k < len(qs) && k < 3; k++ {
		if qs[k][0] != 'W' && qs[k][0] != 'I' {
			qs = append(qs, qs[k])
		}
	}
	if excluded == "" {
		qs = append(qs, fmt.Sprintf("c%d", focus))
	}
	class := "linear"
	if forks > 0 {
		class = "forked"
	}
	if illFormed {
		class += "-anytimeout"
	}
	if excluded != "" {
		class = "excluded" + excluded
	}
	return &inst{W: W, netT: netT, deps: deps, t: t, tips: tips, total: total, windows: windows, qs: qs,
		class: class, nontrivial: total >= 3*wEff && len(qs) >= 3}
}

func (P) Generate(g *core.Gen) {
	// core.NewRand(seed) streams of adjacent seeds are one-draw shifts of each other; fork once so
	// that every seed gets an unrelated stream.
	r := g.R.Fork()
	for i := 0; i < g.N(2200, 100000); i++ {
		in := genInstance(r, nil, true)
		g.Case(in.class, in.nontrivial, "C14 q "+strings.Join(in.fields(), " "))
	}
	// 8 chain instances run concurrently: half of the groups share one header tree (same block
	// hashes, different rules), the others are unrelated.
	for i := 0; i < g.N(100, 3000); i++ {
		var subs []string
		var first *inst
		shared := i%2 == 0
		for k := 0; k < 8; k++ {
			var in *inst
			if shared && first != nil {
				in = genInstance(r, first, false)
			} else {
				in = genInstance(r, nil, false)
			}
			if first == nil {
				first = in
			}
			subs = append(subs, strings.Join(in.fields(), "/"))
		}
		class := "par-unrelated"
		if shared {
			class = "par-same-tree"
		}
		g.Case(class, true, "C14 par "+strings.Join(subs, "|"))
	}
	// successive lives over the same blocks with different window / threshold / deployments
	for i := 0; i < g.N(60, 2000); i++ {
		first := genInstance(r, nil, false)
		subs := []string{strings.Join(first.fields(), "/")}
		for k := 0; k < 3; k++ {
			subs = append(subs, strings.Join(genInstance(r, first, false).fields(), "/"))
		}
		g.Case("seq-same-tree", true, "C14 seq "+strings.Join(subs, "|"))
	}
	// ONE Params object reused by three successive chain instances over different trees
	for i := 0; i < g.N(40, 1500); i++ {
		first := genInstance(r, nil, false)
		subs := []string{strings.Join(first.fields(), "/")}
		for k := 0; k < 2; k++ {
			in := genInstance(r, nil, false)
			in.W, in.netT, in.deps = first.W, first.netT, first.deps
			subs = append(subs, strings.Join(in.fields(), "/"))
		}
		g.Case("seq-shared-params", true, "C14 seqp "+strings.Join(subs, "|"))
	}
	// every position of the vote window x every top-bits pattern: window 2 of an always-started
	// legacy deployment votes in all blocks except one, which either lacks the bit or carries the
	// bit under a wrong top-bits pattern (000, 010 .. 111)
	for _, W := range []int{2, 3, 4, 5, 8} {
		for pos := 0; pos < W; pos++ {
			for pat := 0; pat <= 8; pat++ {
				if pat == 1 {
					continue
				}
				for _, T := range []int{W - 1, W} {
					deps := make([]gdep, chaincfg.DefinedDeployments)
					deps[0] = gdep{bit: 3}
					for k := 1; k < len(deps); k++ {
						deps[k] = gdep{bit: 3 + k, start: p64(1 << 40)}
					}
					t := &gtree{}
					cur := -1
					for k := 0; k < 3*W+1; k++ {
						v := uint32(0x20000008)
						if k/W == 1 && k%W == pos {
							if pat == 8 {
								v = 0x20000000 // right top bits, bit clear
							} else {
								v = uint32(pat)<<29 | 8
							}
						}
						cur = t.add(cur, v, 1000000+int64(k)*60)
					}
					qs := []string{fmt.Sprintf("d0@%d", W-1), fmt.Sprintf("d0@%d", 2*W-1), fmt.Sprintf("d0@%d", 3*W-1),
						fmt.Sprintf("v@%d", 2*W-1), fmt.Sprintf("w3@%d", 3*W)}
					g.Case("window-position", true, lineOf(W, int64(T), deps, t, qs))
				}
			}
		}
	}
	// unknown-rule warnings where exactly ONE bit campaigns (mostly the last one, vbNumBits-1) and no
	// deployment ever starts: the warned flag then depends on that single bit
	for i := 0; i < g.N(40, 1500); i++ {
		W := int(r.Pick(2, 3, 4, 5))
		netT := int64(W) - r.Range(0, 1)
		bit := int(r.Pick(28, 28, 28, 27, 0, r.Range(0, 28)))
		deps := make([]gdep, chaincfg.DefinedDeployments)
		for k := range deps {
			deps[k] = gdep{bit: (bit + 1 + k) % 29, start: p64(1 << 40)}
		}
		t := &gtree{}
		cur := -1
		windows := int(r.Range(3, 5))
		for k := 0; k < W*windows+r.Intn(W); k++ {
			v := uint32(0x20000000)
			if win := k / W; win >= 1 && (win <= 2 || r.Bool()) {
				if r.Chance(9, 10) || int64(k%W) < netT-1 {
					v |= 1 << uint(bit)
				}
			}
			cur = t.add(cur, v, 1000000+int64(k)*60)
		}
		var qs []string
		for k := 0; k < 6; k++ {
			qn := r.Intn(len(t.nodes))
			if r.Bool() {
				qn = int(r.Range(2, int64(windows)))*W + int(r.Pick(-1, 0, 1))
				if qn >= len(t.nodes) {
					qn = len(t.nodes) - 1
				}
			}
			switch r.Intn(4) {
			case 0:
				qs = append(qs, fmt.Sprintf("w%d@%d", bit, qn))
			case 1:
				qs = append(qs, fmt.Sprintf("I%d@%d", r.Intn(2), qn))
			default:
				qs = append(qs, fmt.Sprintf("W@%d", qn))
			}
		}
		g.Case("warn-single-bit", true, lineOf(W, netT, deps, t, qs))
	}
	// small exported helpers
	for _, n := range []string{"defined", "started", "lockedin", "active", "failed", "255"} {
		g.Case("unit-str", true, "C14 str "+n)
	}
	for _, a := range []int64{0, 1, 2, 4294967294, 4294967295} {
		g.Case("unit-eaa", true, fmt.Sprintf("C14 eaa %d", a))
	}
	for _, st := range []string{"-", "0", "1000"} {
		for _, en := range []string{"-", "0", "2000"} {
			g.Case("unit-noclock", true, fmt.Sprintf("C14 clk %s %s 1500", st, en))
		}
	}
	genShipped(g)
}

// genShipped: the shipped deployments of each network (real bit/start/end/min height/threshold),
// on the two networks with a small window, timestamps straddling their start/end times.
func genShipped(g *core.Gen) {
	// reads the shipped tables of the tree under test: a mutated tree must not crash the generator
	defer func() {
		if rec := recover(); rec != nil {
			g.Case("shipped-unreadable", true, "C14 q 2 2 - - -")
		}
	}()
	r := g.R.Fork()
	nSmall := g.N(12, 300)
	for i := 0; i < nSmall+g.N(2, 12); i++ {
		name := []string{"reg", "sim", "main", "test3", "test4", "sig"}[i%6]
		full := i >= nSmall // the real 2016-block window and thresholds (1916 / 1512 / 1815)
		if full {
			name = []string{"main", "test3", "sig", "test4"}[(i-nSmall)%4]
		}
		p := netParams()[name]
		W := int(p.MinerConfirmationWindow)
		netT := int64(p.RuleChangeActivationThreshold)
		if W > 200 && !full { // keep the real deployments, shrink the window
			W, netT = 8, 6
		}
		var deps []gdep
		var times []int64
		for id := range p.Deployments {
			f := depFact(&p.Deployments[id])
			d := gdep{bit: int(f[0]), minH: f[5], cthr: f[6], aah: f[7]}
			if f[1] == 1 {
				d.start = p64(f[2])
				times = append(times, f[2])
			}
			if f[3] == 1 {
				d.end = p64(f[4])
				times = append(times, f[4])
			}
			if W == 8 {
				if d.cthr != 0 {
					d.cthr = 5
				}
				if d.minH != 0 {
					d.minH = 40
				}
			}
			if full && d.minH != 0 {
				d.minH = int64(W)*3 + r.Pick(-1, 0, 1) // reachable within the generated chain
			}
			deps = append(deps, d)
		}
		t := &gtree{}
		windows := 4
		if full {
			windows = 3
		}
		base := int64(1600000000)
		if len(times) > 0 {
			base = times[r.Intn(len(times))] - int64(W)*int64(r.Range(1, 3))*60
		}
		cur := -1
		tmp := &gtree{}
		grow(r.Fork(), tmp, -1, W*windows, W, netT, deps, false)
		for k := 0; k < W*windows; k++ {
			cur = t.add(cur, tmp.nodes[k].version, base+int64(k)*60+r.Range(0, 30))
		}
		var qs []string
		for k := 0; k < 12; k++ {
			qn := int(r.Range(1, int64(windows)))*W - 1 + int(r.Pick(-1, 0, 1))
			if qn >= W*windows {
				qn = W*windows - 1
			}
			qs = append(qs, fmt.Sprintf("d%d@%d", r.Intn(len(deps)), qn), fmt.Sprintf("v@%d", qn))
		}
		if full {
			g.Case("shipped-fullwindow-"+name, true, lineOf(W, netT, deps, t, qs))
			continue
		}
		g.Case("shipped-"+name, true, lineOf(W, netT, deps, t, qs))
	}
	_ = time.Second
}
