// Package p14: correspondence for C14 (BIP9 / speedy-trial deployment state machine,
// threshold state cache, next block version).
package p14

import (
	"fmt"
	"runtime"
	"strconv"
	"strings"
	"sync"
	"time"

	"github.com/btcsuite/btcd/blockchain"
	"github.com/btcsuite/btcd/chaincfg/v2"
	"github.com/btcsuite/btcd/wire/v2"
)

type P struct{}

func (P) ID() string { return "C14" }

// ---------------------------------------------------------------- line format
//
//   C14 q <window> <threshold> <dep;dep;…> <node,node,…> <query,query,…>
//
//   dep   = bit:start:end:minHeight:customThreshold:alwaysActiveHeight   (start/end "-" = zero time)
//           exactly chaincfg.DefinedDeployments of them (calcNextBlockVersion walks the whole array)
//   node  = parent:version(hex uint32):timestamp     node 0 is the genesis (parent -1); parent < index
//   query = s<id>@<n>  BlockChain.ThresholdState(id) with best-chain tip n          -> 0..4 | err
//           a<id>@<n>  BlockChain.IsDeploymentActive(id) with tip n                 -> 0/1  | err
//           d<id>@<n>  deploymentState(n, id) (what validate.go consults)          -> 0..4 | err
//           v@<n>      BlockChain.CalcNextBlockVersion() with tip n                 -> hex uint32
//           V@<n>      calcNextBlockVersion(n) (no tip change)                      -> hex uint32
//           c<id>      cache soundness of deployment id: "ok" iff every cached entry equals the answer of
//                      a fresh instance for that node (only emitted on histories inside the hypotheses)
//           w<bit>@<n> thresholdState with the unknown-rules bit checker            -> 0..4
//           g@<n>      does validation of block n enforce BIP68 (calcSequenceLock, gated on
//                      deploymentState(n.parent, DeploymentCSV = id 2) == Active)?  -> 0/1   (n >= 0)
//         n = -1 is "no block yet" (nil tip). All queries of a line run on ONE chain instance, in order.

type dep struct {
	bit             uint8
	start, end      *int64
	minH, cthr, aah uint32
}

func i64(s string) int64 {
	v, err := strconv.ParseInt(s, 10, 64)
	if err != nil {
		panic(err)
	}
	return v
}

func optTime(s string) *int64 {
	if s == "-" {
		return nil
	}
	v := i64(s)
	return &v
}

func mkTime(t *int64) time.Time {
	if t == nil {
		return time.Time{}
	}
	return time.Unix(*t, 0)
}

func parseDeps(s string) []dep {
	var out []dep
	for _, d := range strings.Split(s, ";") {
		f := strings.Split(d, ":")
		if len(f) != 6 {
			panic("bad dep")
		}
		out = append(out, dep{uint8(i64(f[0])), optTime(f[1]), optTime(f[2]),
			uint32(i64(f[3])), uint32(i64(f[4])), uint32(i64(f[5]))})
	}
	return out
}

// newParams builds a private Params value: fresh starter/ender objects per chain instance
// (they hold a pointer to one chain's clock).
func newParams(window, threshold uint32, deps []dep) *chaincfg.Params {
	p := chaincfg.RegressionNetParams // struct copy
	p.MinerConfirmationWindow = window
	p.RuleChangeActivationThreshold = threshold
	for i := range p.Deployments {
		d := deps[i]
		p.Deployments[i] = chaincfg.ConsensusDeployment{
			BitNumber: d.bit, MinActivationHeight: d.minH, CustomActivationThreshold: d.cthr,
			AlwaysActiveHeight: d.aah,
			DeploymentStarter:  chaincfg.NewMedianTimeDeploymentStarter(mkTime(d.start)),
			DeploymentEnder:    chaincfg.NewMedianTimeDeploymentEnder(mkTime(d.end)),
		}
	}
	return &p
}

func (P) Exec(line string) string {
	f := strings.Fields(line)
	if len(f) < 2 || f[0] != "C14" {
		return "bad-op"
	}
	switch f[1] {
	case "q":
		if len(f) != 7 {
			return "bad-op"
		}
		return execQ(f[2:], nil)
	case "par":
		// independent chain instances run concurrently, one goroutine each, released together
		// and staggered; every instance must answer exactly as it would alone.
		if len(f) != 3 {
			return "bad-op"
		}
		subs := strings.Split(f[2], "|")
		outs := make([]string, len(subs))
		var wg sync.WaitGroup
		start := make(chan struct{})
		for i, sub := range subs {
			wg.Add(1)
			go func(i int, sub string) {
				defer wg.Done()
				defer func() {
					if r := recover(); r != nil {
						outs[i] = "panic"
					}
				}()
				<-start
				for k := 0; k < i*3; k++ {
					runtime.Gosched()
				}
				ff := strings.Split(sub, "/")
				if len(ff) != 5 {
					outs[i] = "bad-op"
					return
				}
				outs[i] = execQ(ff, nil)
			}(i, sub)
		}
		close(start)
		if !waitOrHang(&wg, 120*time.Second) {
			return "hang"
		}
		return strings.Join(outs, "|")
	case "seq", "seqp":
		// successive chain instances ("lives"): seq = over the same data with different
		// configuration; seqp = ONE *chaincfg.Params object (created once from the first sub; all subs
		// carry the same window/threshold/deployments) reused by every successive instance, as a
		// process that re-creates its BlockChain does. The object must be unchanged afterwards.
		if len(f) != 3 {
			return "bad-op"
		}
		var outs []string
		var shared *chaincfg.Params
		for _, sub := range strings.Split(f[2], "|") {
			ff := strings.Split(sub, "/")
			if len(ff) != 5 {
				return "bad-op"
			}
			if f[1] == "seqp" && shared == nil {
				d := parseDeps(ff[2])
				if len(d) != chaincfg.DefinedDeployments {
					return "bad-op"
				}
				shared = newParams(uint32(i64(ff[0])), uint32(i64(ff[1])), d)
			}
			o := func() (o string) {
				defer func() {
					if r := recover(); r != nil {
						o = "panic"
					}
				}()
				return execQ(ff, shared)
			}()
			outs = append(outs, o)
		}
		return strings.Join(outs, "|")
	case "str":
		st, ok := map[string]blockchain.ThresholdState{"defined": blockchain.ThresholdDefined,
			"started": blockchain.ThresholdStarted, "lockedin": blockchain.ThresholdLockedIn,
			"active": blockchain.ThresholdActive, "failed": blockchain.ThresholdFailed, "255": 255}[f[2]]
		if !ok {
			return "bad-op"
		}
		return strings.ReplaceAll(st.String(), " ", "_")
	case "eaa":
		d := chaincfg.ConsensusDeployment{AlwaysActiveHeight: uint32(i64(f[2]))}
		return strconv.FormatUint(uint64(d.EffectiveAlwaysActiveHeight()), 10)
	case "clk":
		// a starter/ender that was never synchronised with a clock
		st := chaincfg.NewMedianTimeDeploymentStarter(mkTime(optTime(f[2])))
		en := chaincfg.NewMedianTimeDeploymentEnder(mkTime(optTime(f[3])))
		hdr := wire.BlockHeader{Timestamp: time.Unix(i64(f[4]), 0)}
		a, aerr := st.HasStarted(&hdr)
		b, berr := en.HasEnded(&hdr)
		res := func(v bool, err error) string {
			switch {
			case err == chaincfg.ErrNoBlockClock:
				return "noclock"
			case err != nil:
				return "err"
			case v:
				return "1"
			}
			return "0"
		}
		rt := func(t time.Time) string {
			if t.IsZero() {
				return "-"
			}
			return strconv.FormatInt(t.Unix(), 10)
		}
		return res(a, aerr) + "," + res(b, berr) + "," + rt(st.StartTime()) + "," + rt(en.EndTime())
	}
	return "bad-op"
}

// waitOrHang waits for wg; false if it did not finish in time (a call into the real code blocks,
// e.g. on a lock left held): the caller then answers "hang" instead of blocking the whole run.
func waitOrHang(wg *sync.WaitGroup, d time.Duration) bool {
	done := make(chan struct{})
	go func() { wg.Wait(); close(done) }()
	select {
	case <-done:
		return true
	case <-time.After(d):
		return false
	}
}

// paramsSnapshot renders everything of a Params value that the version bits code reads.
func paramsSnapshot(p *chaincfg.Params) string {
	var sb strings.Builder
	fmt.Fprintf(&sb, "%d/%d", p.MinerConfirmationWindow, p.RuleChangeActivationThreshold)
	for i := range p.Deployments {
		fmt.Fprintf(&sb, "|%v", depFact(&p.Deployments[i]))
	}
	return sb.String()
}

// execQ runs one chain instance: f = window, threshold, deployments, tree, queries. With
// shared != nil that Params object is used (and re-synchronised to this instance) instead of a
// fresh one.
func execQ(f []string, shared *chaincfg.Params) string {
	f = append([]string{"C14", "q"}, f...)
	window, threshold := uint32(i64(f[2])), uint32(i64(f[3]))
	deps := parseDeps(f[4])
	if len(deps) != chaincfg.DefinedDeployments {
		return "bad-op"
	}
	type nodeSpec struct {
		parent  int
		version int32
		ts      int64
		length  int
	}
	var specs []nodeSpec
	for i, s := range strings.Split(f[5], ",") {
		pvt := strings.Split(s, ":")
		par := int(i64(pvt[0]))
		if par >= i || (par < 0 && i != 0) {
			return "bad-op"
		}
		v, err := strconv.ParseUint(pvt[1], 16, 32)
		if err != nil {
			panic(err)
		}
		l := 1
		if par >= 0 {
			l = specs[par].length + 1
		}
		specs = append(specs, nodeSpec{par, int32(uint32(v)), i64(pvt[2]), l})
	}
	buildWith := func(p *chaincfg.Params) *blockchain.VerifC14Chain {
		c := blockchain.VerifC14New(p)
		for _, ns := range specs {
			c.AddNode(ns.parent, ns.version, ns.ts)
		}
		return c
	}
	build := func() *blockchain.VerifC14Chain { return buildWith(newParams(window, threshold, deps)) }
	params := shared
	if params == nil {
		params = newParams(window, threshold, deps)
	}
	before := paramsSnapshot(params)
	c := buildWith(params)
	n := len(specs)
	var out []string
	for _, q := range strings.Split(f[6], ",") {
		kind := q[0]
		var arg, node int64
		if at := strings.IndexByte(q, '@'); at >= 0 {
			if at > 1 {
				arg = i64(q[1:at])
			}
			node = i64(q[at+1:])
			if node >= int64(n) {
				return "bad-op"
			}
		} else {
			arg = i64(q[1:])
		}
		switch kind {
		case 's':
			c.SetTip(int(node))
			st, err := c.Chain().ThresholdState(uint32(arg))
			out = append(out, stStr(st, err))
		case 'a':
			c.SetTip(int(node))
			ok, err := c.Chain().IsDeploymentActive(uint32(arg))
			switch {
			case err != nil:
				out = append(out, "err")
			case ok:
				out = append(out, "1")
			default:
				out = append(out, "0")
			}
		case 'd':
			st, err := c.DeploymentStateAt(int(node), uint32(arg))
			out = append(out, stStr(st, err))
		case 'v':
			c.SetTip(int(node))
			v, err := c.Chain().CalcNextBlockVersion()
			if err != nil {
				out = append(out, "err")
			} else {
				out = append(out, fmt.Sprintf("%x", uint32(v)))
			}
		case 'V':
			v, err := c.NextBlockVersionAt(int(node))
			if err != nil {
				out = append(out, "err")
			} else {
				out = append(out, fmt.Sprintf("%x", uint32(v)))
			}
		case 'w':
			st, err := c.WarningStateAt(int(node), uint32(arg))
			out = append(out, stStr(st, err))
		case 'H': // one header object reused for four calls; it must come back unchanged
			if node < 0 || arg >= int64(len(deps)) {
				return "bad-op"
			}
			hdr := c.HeaderOf(int(node))
			keep := hdr
			d := &params.Deployments[arg]
			t1, e1 := c.Chain().PastMedianTime(&hdr)
			a, aerr := d.DeploymentStarter.HasStarted(&hdr)
			b, berr := d.DeploymentEnder.HasEnded(&hdr)
			t2, e2 := c.Chain().PastMedianTime(&hdr)
			ch := func(v bool, err error) string {
				switch {
				case err != nil:
					return "e"
				case v:
					return "1"
				}
				return "0"
			}
			tok := "err"
			if e1 == nil {
				tok = strconv.FormatInt(t1.Unix(), 10)
			}
			tok += "/" + ch(a, aerr) + ch(b, berr)
			if (e1 == nil) != (e2 == nil) || (e1 == nil && !t1.Equal(t2)) {
				tok += "/UNSTABLE"
			}
			if hdr != keep {
				tok += "/INPUT-MUTATED"
			}
			out = append(out, tok)
		case 'F': // 12 goroutines released together on a FRESH instance (empty caches, so every call
			// walks and writes): 4x ThresholdState, 4x IsDeploymentActive, 4x CalcNextBlockVersion
			if window == 0 && node >= 0 {
				panic("window 0")
			}
			fc := build()
			fc.SetTip(int(node))
			res := make([]string, 12)
			var wg sync.WaitGroup
			start := make(chan struct{})
			for k := 0; k < 12; k++ {
				wg.Add(1)
				go func(k int) {
					defer wg.Done()
					<-start
					switch k % 3 {
					case 0:
						st, err := fc.Chain().ThresholdState(uint32(arg))
						res[k] = stStr(st, err)
					case 1:
						ok, err := fc.Chain().IsDeploymentActive(uint32(arg))
						switch {
						case err != nil:
							res[k] = "err"
						case ok:
							res[k] = "1"
						default:
							res[k] = "0"
						}
					default:
						v, err := fc.Chain().CalcNextBlockVersion()
						if err != nil {
							res[k] = "err"
						} else {
							res[k] = fmt.Sprintf("%x", uint32(v))
						}
					}
				}(k)
			}
			close(start)
			if !waitOrHang(&wg, 30*time.Second) {
				return "hang"
			}
			out = append(out, strings.Join(res, "/"))
		case 'P': // the exported, lock-taking methods called from 6 goroutines at once on one tip
			if window == 0 && node >= 0 {
				// a panic inside a goroutine cannot be recovered here and would leave chainLock held;
				// the single-threaded ops cover this excluded point
				panic("window 0")
			}
			c.SetTip(int(node))
			res := make([]string, 6)
			var wg sync.WaitGroup
			for k := 0; k < 6; k++ {
				wg.Add(1)
				go func(k int) {
					defer wg.Done()
					switch k / 2 {
					case 0:
						st, err := c.Chain().ThresholdState(uint32(arg))
						res[k] = stStr(st, err)
					case 1:
						ok, err := c.Chain().IsDeploymentActive(uint32(arg))
						switch {
						case err != nil:
							res[k] = "err"
						case ok:
							res[k] = "1"
						default:
							res[k] = "0"
						}
					default:
						v, err := c.Chain().CalcNextBlockVersion()
						if err != nil {
							res[k] = "err"
						} else {
							res[k] = fmt.Sprintf("%x", uint32(v))
						}
					}
				}(k)
			}
			if !waitOrHang(&wg, 30*time.Second) {
				return "hang"
			}
			out = append(out, strings.Join(res, "/"))
		case 'm': // exported BlockChain.PastMedianTime (the BlockClock)
			if node < 0 {
				return "bad-op"
			}
			t, err := c.PastMedianTimeAt(int(node))
			if err != nil {
				out = append(out, "err")
			} else {
				out = append(out, strconv.FormatInt(t, 10))
			}
		case 'h': // DeploymentStarter.HasStarted / DeploymentEnder.HasEnded directly
			if node < 0 || arg >= int64(len(deps)) {
				return "bad-op"
			}
			a, aerr, b, berr := c.StarterEnderAt(int(node), uint32(arg))
			ch := func(v bool, err error) string {
				switch {
				case err != nil:
					return "e"
				case v:
					return "1"
				}
				return "0"
			}
			out = append(out, ch(a, aerr)+ch(b, berr))
		case 'G', 'M': // exported CalcSequenceLock with tip n: block validation / mempool semantics
			if node < 0 {
				return "bad-op"
			}
			on, err := c.SequenceLocksExportedAt(int(node), kind == 'M')
			switch {
			case err != nil:
				out = append(out, "err")
			case on:
				out = append(out, "1")
			default:
				out = append(out, "0")
			}
		case 'I': // initThresholdCaches with tip n; arg 1 = chain is current (warnings run)
			if node < 0 {
				return "bad-op"
			}
			out = append(out, okStr(c.InitThresholdCachesAt(int(node), arg == 1)))
		case 'W': // warnUnknownRuleActivations(n)
			if node < 0 {
				return "bad-op"
			}
			out = append(out, okStr(c.WarnUnknownRuleActivationsAt(int(node))))
		case 'g':
			if node < 0 {
				return "bad-op"
			}
			on, err := c.SequenceLocksEnforcedAt(int(node))
			switch {
			case err != nil:
				out = append(out, "err")
			case on:
				out = append(out, "1")
			default:
				out = append(out, "0")
			}
		case 'c':
			// cache soundness, independent of the caching policy: every entry of deployment arg's
			// cache must equal what a fresh instance answers for that node (entries hold the plain
			// BIP9 state, so nodes at/after the always-active height are skipped).
			if arg >= int64(len(deps)) {
				return "bad-op"
			}
			fresh := build()
			res := "ok"
			for i := 0; i < n && res == "ok"; i++ {
				st, ok := c.CachedStateAt(i, uint32(arg))
				if !ok {
					continue
				}
				if aah := deps[arg].aah; aah != 0 && uint32(specs[i].length) >= aah {
					continue
				}
				want, err := fresh.DeploymentStateAt(i, uint32(arg))
				if err != nil || want != st {
					res = fmt.Sprintf("bad:%d", i)
				}
			}
			out = append(out, res)
		default:
			return "bad-op"
		}
	}
	if paramsSnapshot(params) != before {
		out = append(out, "PARAMS-MUTATED") // the caller's Params object must come back unchanged
	}
	return strings.Join(out, ",")
}

// okStr: initThresholdCaches / warnUnknownRuleActivations are observed through their error and
// through what they leave in the caches (later state queries, cache-soundness checks); the
// unknownRulesWarned field and the log lines are internal and not compared.
func okStr(err error) string {
	if err != nil {
		return "err"
	}
	return "ok"
}

// stStr names a state by comparing with the exported constants (the numeric values of the enum are
// in-memory only and not part of the observation).
func stStr(st blockchain.ThresholdState, err error) string {
	if err != nil {
		return "err"
	}
	switch st {
	case blockchain.ThresholdDefined:
		return "0"
	case blockchain.ThresholdStarted:
		return "1"
	case blockchain.ThresholdLockedIn:
		return "2"
	case blockchain.ThresholdActive:
		return "3"
	case blockchain.ThresholdFailed:
		return "4"
	}
	return "unknown-state"
}
