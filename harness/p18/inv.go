package p18

import (
	"encoding/binary"
	"fmt"
	"net"
	"strconv"
	"strings"
	"sync"
	"time"

	"github.com/btcsuite/btcd/chaincfg/v2"
	"github.com/btcsuite/btcd/chainhash/v2"
	"github.com/btcsuite/btcd/peer"
	"github.com/btcsuite/btcd/wire/v2"
)

const trickleEvery = 300 * time.Millisecond

func invHash(id uint64) *chainhash.Hash {
	var h chainhash.Hash
	binary.LittleEndian.PutUint64(h[:8], id)
	h[31] = 0x5a
	return &h
}

// runInv: tx inventory 1..k is made known, 1..n is queued, k+1..k+d is queued
// again, then b block inventories; everything before the first trickle tick.
// Observation: the block invs (sent at once, one per message), then the sizes
// of the trickled inv messages and a position-weighted checksum of their ids.
func runInv(n, k, d, b int) string {
	for attempt := 0; ; attempt++ {
		out, ok := runInvOnce(n, k, d, b)
		if ok || attempt == 6 {
			return out
		}
	}
}

func runInvOnce(n, k, d, b int) (string, bool) {
	params := &chaincfg.MainNetParams
	btcnet := params.Net
	remoteAddr := &net.TCPAddr{IP: net.ParseIP("10.1.2.3"), Port: 18555}
	peerAddr := &net.TCPAddr{IP: net.ParseIP("10.9.9.9"), Port: 8333}
	ready := make(chan struct{})
	var once sync.Once
	cfg := &peer.Config{
		UserAgentName: "verif", UserAgentVersion: "1.0", ChainParams: params,
		ProtocolVersion: wire.ProtocolVersion, TrickleInterval: trickleEvery,
		Listeners: peer.MessageListeners{
			OnVerAck: func(p *peer.Peer, m *wire.MsgVerAck) { once.Do(func() { close(ready) }) },
		},
	}
	p := peer.NewInboundPeer(cfg)
	pe, re := newPipe(peerAddr, remoteAddr)
	rd := newReader(re)
	p.AssociateConnection(pe)
	me := wire.NewNetAddressIPPort(net.ParseIP("10.1.2.3"), 18555, 0)
	you := wire.NewNetAddressIPPort(net.ParseIP("10.9.9.9"), 8333, 0)
	re.Write(encMsg(wire.NewMsgVersion(me, you, nextNonce(), 0), btcnet))
	re.Write(encMsg(wire.NewMsgVerAck(), btcnet))
	select {
	case <-ready:
	case <-time.After(waitLimit):
		p.Disconnect()
		return "handshake-timeout", true
	}
	// The known-inventory cache is keyed by the *InvVect pointer (identity), as
	// when the server relays one InvVect object to every peer: reuse one object
	// per inventory item.
	ivs := make([]*wire.InvVect, n+1)
	for i := 1; i <= n; i++ {
		ivs[i] = wire.NewInvVect(wire.InvTypeTx, invHash(uint64(i)))
	}
	t0 := time.Now()
	for i := 1; i <= k; i++ {
		p.AddKnownInventory(ivs[i])
	}
	for i := 1; i <= n; i++ {
		p.QueueInventory(ivs[i])
	}
	for i := k + 1; i <= k+d; i++ {
		p.QueueInventory(ivs[i])
	}
	for j := 0; j < b; j++ {
		p.QueueInventory(wire.NewInvVect(wire.InvTypeBlock, invHash(uint64(1000000+j))))
	}
	inTime := time.Since(t0) < trickleEvery/3
	// Two ticks are enough for everything queued before the first one.
	time.Sleep(trickleEvery + trickleEvery/2 - time.Since(t0))
	re.Write(encMsg(wire.NewMsgPing(flushNonce), btcnet))
	rd.waitFor(func(ms []wmsg) bool {
		return len(ms) > 0 && ms[len(ms)-1].cmd == "pong"
	})
	re.CloseWrite()
	dch := make(chan struct{})
	go func() { p.WaitForDisconnect(); close(dch) }()
	select {
	case <-dch:
	case <-time.After(waitLimit):
	}
	note := ""
	if !waitCensusClean() {
		note = " note=goroutine-leak"
	}
	ms, _ := rd.snapshot()
	blocks := 0
	var sizes []string
	var sum, pos uint64
	bad := ""
	for _, m := range ms {
		if m.cmd != "inv" {
			continue
		}
		var inv wire.MsgInv
		if err := inv.BtcDecode(bytesReader(m.payload), wire.ProtocolVersion, wire.BaseEncoding); err != nil {
			bad = " note=undecodable-inv"
			continue
		}
		if len(inv.InvList) == 1 && inv.InvList[0].Type == wire.InvTypeBlock {
			if len(sizes) > 0 {
				bad = " note=block-after-trickle"
			}
			blocks++
			continue
		}
		sizes = append(sizes, strconv.Itoa(len(inv.InvList)))
		for _, iv := range inv.InvList {
			pos++
			id := binary.LittleEndian.Uint64(iv.Hash[:8])
			if iv.Type != wire.InvTypeTx || iv.Hash[31] != 0x5a {
				bad = " note=foreign-inv"
			}
			sum = (sum + pos*id) % 1000000007
		}
	}
	sz := "-"
	if len(sizes) > 0 {
		sz = strings.Join(sizes, ",")
	}
	return fmt.Sprintf("blocks=%d tx=%s sum=%d%s%s", blocks, sz, sum, bad, note), inTime
}
