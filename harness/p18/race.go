package p18

import (
	"crypto/sha1"
	"encoding/hex"
	"fmt"
	"os"
	"os/exec"
	"path/filepath"
	"regexp"
	"strings"
)

// raceRun (thorough tier): builds this same harness with the race detector
// against the tree under test and runs its quick tier for a few seeds. The
// result goes on a protocol line; anything but "build=ok races=0 mism=0"
// disagrees with the model's answer.
func raceRun(seeds []uint64) string {
	vdir := os.Getenv("VERIF_DIR")
	if vdir == "" {
		vdir = "/verif"
	}
	harn := filepath.Join(vdir, "harness")
	repo := os.Getenv("VERIF_REPO")
	if repo == "" {
		repo = "/repo"
	}
	repo, _ = filepath.Abs(repo)
	tag := ""
	if repo != "/repo" {
		h := sha1.Sum([]byte(repo))
		tag = "." + hex.EncodeToString(h[:])[:8]
	}
	env := append(os.Environ(), "GOFLAGS=-mod=mod", "GOPROXY=off", "GOSUMDB=off", "GOTOOLCHAIN=local", "VERIF_NO_RACE=1")
	bin := filepath.Join(harn, "bin", "c18race"+tag)
	args := []string{"build", "-race", "-tags", "verif", "-o", bin, "./cmd/c18"}
	if tag != "" {
		args = append([]string{"build", "-modfile", filepath.Join(harn, "go"+tag+".mod")}, args[1:]...)
	}
	cmd := exec.Command("go1.26", args...)
	cmd.Dir = harn
	cmd.Env = env
	if out, err := cmd.CombinedOutput(); err != nil {
		fmt.Fprintf(os.Stderr, "race build failed: %v\n%s\n", err, out)
		return "build=fail races=0 mism=0"
	}
	tmp, err := os.MkdirTemp("", "c18race")
	if err != nil {
		return "build=fail races=0 mism=0"
	}
	races, mism := 0, 0
	re := regexp.MustCompile(`(\d+) mismatches`)
	for _, s := range seeds {
		run := exec.Command(bin, "--tier", "quick", "--seed", fmt.Sprint(s), "--replays", filepath.Join(tmp, "replays"))
		run.Dir = vdir
		run.Env = append(env, "GORACE=halt_on_error=0 log_path="+filepath.Join(tmp, "race"))
		out, _ := run.CombinedOutput()
		if m := re.FindAllStringSubmatch(string(out), -1); len(m) > 0 {
			var n int
			fmt.Sscan(m[len(m)-1][1], &n)
			mism += n
		} else {
			mism++ // the run did not complete
		}
	}
	logs, _ := filepath.Glob(filepath.Join(tmp, "race.*"))
	for _, l := range logs {
		b, _ := os.ReadFile(l)
		n := strings.Count(string(b), "WARNING: DATA RACE")
		races += n
		if n > 0 {
			keep := filepath.Join(vdir, "replays", "C18-race-"+filepath.Base(l)+".txt")
			os.WriteFile(keep, b, 0o644)
			fmt.Fprintf(os.Stderr, "data race report kept at %s\n%s\n", keep, trunc(string(b), 3000))
		}
	}
	if races == 0 && mism == 0 {
		os.RemoveAll(tmp)
	}
	return fmt.Sprintf("build=ok races=%d mism=%d", races, mism)
}

func trunc(s string, n int) string {
	if len(s) <= n {
		return s
	}
	return s[:n]
}
