// Package p18: correspondence for C18 (peer handshake automaton and the
// queue/out/disconnect pipeline).
package p18

import (
	"fmt"
	"os"
	"time"
	"runtime"
	"strconv"
	"strings"
	"sync"

	"github.com/btcsuite/btcd/peer"
	"github.com/btcsuite/btcd/wire/v2"
	"verifharness/core"
)

type P struct{}

func (P) ID() string { return "C18" }

// ---------------------------------------------------------------- facts (T2)

// tune reads the implementation's internal tuning values (channel capacities,
// trickle batch size, known-inventory cache size) from the tree under test.
// They are NOT facts to pin: the models are parametric in them and the harness
// passes them on the protocol line where a scenario depends on them.
func tune(name string) int {
	return int(peer.VerifConstsC18()[name])
}

func (P) Facts() []core.Fact {
	fs := []core.Fact{
		{Name: "defaultProtocolVersion", Value: peer.VerifConstsC18()["defaultProtocolVersion"]},
	}
	fs = append(fs,
		core.Fact{Name: "maxProtocolVersion", Value: int64(peer.MaxProtocolVersion)},
		core.Fact{Name: "minAcceptableProtocolVersion", Value: int64(peer.MinAcceptableProtocolVersion)},
		core.Fact{Name: "wireProtocolVersion", Value: int64(wire.ProtocolVersion)},
		core.Fact{Name: "bip0031Version", Value: int64(wire.BIP0031Version)},
		core.Fact{Name: "bip0035Version", Value: int64(wire.BIP0035Version)},
		core.Fact{Name: "bip0037Version", Value: int64(wire.BIP0037Version)},
		core.Fact{Name: "rejectVersion", Value: int64(wire.RejectVersion)},
		core.Fact{Name: "sendHeadersVersion", Value: int64(wire.SendHeadersVersion)},
		core.Fact{Name: "feeFilterVersion", Value: int64(wire.FeeFilterVersion)},
		core.Fact{Name: "addrV2Version", Value: int64(wire.AddrV2Version)},
		core.Fact{Name: "rejectMalformed", Value: int64(wire.RejectMalformed)},
		core.Fact{Name: "rejectInvalid", Value: int64(wire.RejectInvalid)},
		core.Fact{Name: "rejectObsolete", Value: int64(wire.RejectObsolete)},
		core.Fact{Name: "rejectDuplicate", Value: int64(wire.RejectDuplicate)},
		core.Fact{Name: "maxAddrPerMsg", Value: int64(wire.MaxAddrPerMsg)},
	)
	return fs
}

// ---------------------------------------------------------------- exec (real code)

// Exec runs one case under a watchdog: on a tree where the peer hangs in a way
// the per-wait limits do not cover, the case is reported instead of blocking
// the run.
func (p P) Exec(line string) string {
	res := make(chan string, 1)
	go func() {
		defer func() {
			if r := recover(); r != nil {
				res <- "panic"
			}
		}()
		res <- p.exec(line)
	}()
	select {
	case out := <-res:
		return out
	case <-time.After(execLimit):
		noteTimeout()
		return "watchdog-timeout"
	}
}

const execLimit = 120 * time.Second

func (P) exec(line string) string {
	f := strings.Fields(line)
	if len(f) < 2 || f[0] != "C18" {
		return "bad-op"
	}
	switch f[1] {
	case "hs":
		// C18 hs <in|out> <ours> <allowSelf> <main|reg> <local|remote> <rejVer> <toks>
		if len(f) != 9 {
			return "bad-op"
		}
		ours, err := strconv.ParseUint(f[3], 10, 32)
		if err != nil || ours == 0 {
			return "bad-op"
		}
		c := hsCfg{inbound: f[2] == "in", ours: uint32(ours), allowSelf: f[4] == "1",
			regtest: f[5] == "reg", local: f[6] == "local", rejectVer: f[7] == "1"}
		var toks []string
		if f[8] != "-" {
			toks = strings.Split(f[8], ",")
		}
		return runHS(c, toks)
	case "hs2":
		// C18 hs2 <v2|v2dg> <in|out> <ours> <allowSelf> <main|reg> <local|remote> <rejVer> <toks> <toks2>
		// toks2 drives the v1 reconnect that follows an outbound downgrade.
		if len(f) != 11 || (f[2] != "v2" && f[2] != "v2dg") {
			return "bad-op"
		}
		ours, err := strconv.ParseUint(f[4], 10, 32)
		if err != nil || ours == 0 {
			return "bad-op"
		}
		c := hsCfg{transport: f[2], inbound: f[3] == "in", ours: uint32(ours), allowSelf: f[5] == "1",
			regtest: f[6] == "reg", local: f[7] == "local", rejectVer: f[8] == "1"}
		split := func(x string) []string {
			if x == "-" {
				return nil
			}
			return strings.Split(x, ",")
		}
		out := runHS(c, split(f[9]))
		if strings.Contains(out, " dg=1") && !c.inbound {
			// What the server does: remember the address, reconnect with v1.
			d := peer.NewP2PDowngrader(0)
			addr := "10.1.2.3:18555"
			d.MarkForDowngrade(addr)
			first, second := d.ShouldDowngrade(addr), d.ShouldDowngrade(addr)
			if !first || second {
				return out + " || downgrader-broken"
			}
			c.transport = ""
			out += " || " + runHS(c, split(f[10]))
		}
		return out
	case "inv":
		// C18 inv <n> <known> <dups> <blocks> <batch size> <cache limit>
		// (the last two are the tree's tuning values, for the model)
		if len(f) != 8 {
			return "bad-op"
		}
		var v [4]int
		for i := range v {
			x, err := strconv.Atoi(f[2+i])
			if err != nil || x < 0 || x > 20000 {
				return "bad-op"
			}
			v[i] = x
		}
		if v[1] > v[0] || v[1]+v[2] > v[0] || v[3] > 40 {
			return "bad-op"
		}
		return runInv(v[0], v[1], v[2], v[3])
	case "push":
		// C18 push <ours> <theirs> <ops>
		if len(f) != 5 {
			return "bad-op"
		}
		o, err1 := strconv.ParseUint(f[2], 10, 31)
		t, err2 := strconv.ParseUint(f[3], 10, 31)
		if err1 != nil || err2 != nil || o <= 60000 || t <= 60000 {
			return "bad-op"
		}
		var ops []string
		if f[4] != "-" {
			ops = strings.Split(f[4], ",")
		}
		return runPush(uint32(o), uint32(t), ops)
	case "selfconn":
		// C18 selfconn <allowSelf> <ours outbound> <ours inbound> <adv|nat>
		if len(f) != 6 || (f[5] != "adv" && f[5] != "nat") {
			return "bad-op"
		}
		o, err1 := strconv.ParseUint(f[3], 10, 31)
		i, err2 := strconv.ParseUint(f[4], 10, 31)
		if err1 != nil || err2 != nil || o == 0 || i == 0 {
			return "bad-op"
		}
		return runSelfConn(f[2] == "1", uint32(o), uint32(i), f[5])
	case "racerun":
		// C18 racerun build=.. races=.. mism=..: result of the -race build of this
		// harness, obtained in Generate (thorough tier).
		if len(f) != 5 {
			return "bad-op"
		}
		return strings.Join(f[2:], " ")
	case "par":
		// C18 par <sub>|<sub>|...  sub = dir;ours;allowSelf;net;host;rejVer;toks
		if len(f) != 3 {
			return "bad-op"
		}
		subs := strings.Split(f[2], "|")
		outs := make([]string, len(subs))
		var wg sync.WaitGroup
		for i, sub := range subs {
			q := strings.Split(sub, ";")
			if len(q) != 7 {
				return "bad-op"
			}
			ours, err := strconv.ParseUint(q[1], 10, 32)
			if err != nil || ours == 0 {
				return "bad-op"
			}
			c := hsCfg{inbound: q[0] == "in", ours: uint32(ours), allowSelf: q[2] == "1",
				regtest: q[3] == "reg", local: q[4] == "local", rejectVer: q[5] == "1"}
			var toks []string
			if q[6] != "-" {
				toks = strings.Split(q[6], ",")
			}
			wg.Add(1)
			go func(i int) {
				defer wg.Done()
				for k := 0; k < i%4; k++ {
					runtime.Gosched()
				}
				outs[i] = runHSx(c, toks, false)
			}(i)
		}
		wg.Wait()
		res := strings.Join(outs, "|")
		if !waitCensusClean() {
			res += " note=goroutine-leak"
		}
		return res
	case "prestart":
		// C18 prestart <in|out> <n> <fail|ok>
		if len(f) != 5 {
			return "bad-op"
		}
		n, err := strconv.Atoi(f[3])
		if err != nil || n < 0 || n > tune("capOutputQueue") || (f[4] != "fail" && f[4] != "ok" && f[4] != "disc") {
			return "bad-op"
		}
		return runPrestart(f[2] == "in", n, f[4])
	case "leakhunt":
		// C18 leakhunt <attempts> <seed>: backlog-heavy disconnect races on real
		// peers; counts runs after which a peer goroutine was still alive.
		if len(f) != 4 {
			return "bad-op"
		}
		n, err1 := strconv.Atoi(f[2])
		seed, err2 := strconv.ParseUint(f[3], 10, 64)
		if err1 != nil || err2 != nil || n < 0 || n > 100000 {
			return "bad-op"
		}
		leaks, unsig := 0, 0
		r := core.NewRand(seed)
		for i := 0; i < n; i++ {
			c := pipeCfg{nProd: 1 + r.Intn(3), nMsg: 20 + r.Intn(20), seed: r.U64(), mode: []int{0, 0, 2}[r.Intn(3)]}
			c.fireAt = r.Intn(c.nProd*c.nMsg/2 + 1)
			o := safePipe(c)
			if o.leak || o.note != "" {
				leaks++
			}
			inB := map[int]bool{}
			for _, id := range o.before {
				inB[id] = true
			}
			for id, k := range o.done {
				if k > 1 || (k == 0 && inB[id]) {
					unsig++
				}
			}
		}
		return fmt.Sprintf("leaks=%d unsignalled=%d", leaks, unsig)
	case "trace":
		// The line carries what a real run of the pipeline scenario showed
		// (recorded by Generate, or by an earlier run when replaying); the
		// implementation's side of the comparison is the fact that it was
		// observed. The Lean model answers "ok" iff some schedule explains it.
		if len(f) != 13 {
			return "bad-op"
		}
		return "ok"
	}
	return "bad-op"
}

// ---------------------------------------------------------------- generators

var plainKinds = []string{"verack", "sendaddrv2", "pong", "getaddr", "addr", "mempool", "sendheaders",
	"feefilter", "inv", "headers", "getheaders", "getblocks", "getdata", "notfound", "reject",
	"filterclear", "cfcheckpt"}

var pverEdges = []int64{0, 1, 208, 209, 210, 31401, 31402, 60000, 60001, 60002, 60003, 70000, 70001, 70002,
	70003, 70011, 70012, 70013, 70014, 70015, 70016, 70017, 80000, 2147483647, 2147483648, 4294967295}

var oursEdges = []int64{70016, 70016, 70016, 70016, 70015, 70013, 70012, 70011, 70002, 70001, 60002, 60001,
	60000, 31402, 209, 100, 70017, 90000}

var badToks = []string{"unk", "magic", "cksum", "badcmd", "extra", "mpl", "pe", "ps"}

func hsLine(in bool, ours int64, allowSelf bool, reg, local, rej bool, toks []string) string {
	b := func(x bool, t, f string) string {
		if x {
			return t
		}
		return f
	}
	ts := "-"
	if len(toks) > 0 {
		ts = strings.Join(toks, ",")
	}
	return fmt.Sprintf("C18 hs %s %d %s %s %s %s %s", b(in, "in", "out"), ours, b(allowSelf, "1", "0"),
		b(reg, "reg", "main"), b(local, "local", "remote"), b(rej, "1", "0"), ts)
}

// randTok draws one post-/mid-handshake token; pongOK says whether a ping
// gets a pong (so that a trailing flush is meaningful).
func randTok(r *core.Rand) string {
	switch x := r.Intn(20); {
	case x < 8:
		return "m:" + plainKinds[r.Intn(len(plainKinds))]
	case x < 11:
		return fmt.Sprintf("p:%d", r.U64()>>uint(r.Intn(64)))
	case x < 13:
		return "unk"
	case x < 16:
		return badToks[r.Intn(len(badToks))]
	case x < 17:
		return fmt.Sprintf("v:%d:0", pverEdges[r.Intn(len(pverEdges))])
	default:
		return "m:" + []string{"verack", "sendaddrv2", "getaddr", "inv"}[r.Intn(4)]
	}
}

func minI(a, b int64) int64 {
	if a < b {
		return a
	}
	return b
}

// finishScript makes the observation deterministic: a flush ping (sentinel
// ping whose pong the remote waits for) after every run of pings when pongs are
// sent at the version the first version token negotiates, and the
// stream-desyncing tokens moved to the end.
func finishScript(toks []string, ours int64) []string {
	pongs := true
	for _, t := range toks {
		if strings.HasPrefix(t, "v:") {
			pv, _ := strconv.ParseInt(strings.Split(t, ":")[1], 10, 64)
			pongs = minI(ours, pv) > 60000
			break
		}
	}
	var out []string
	tail := ""
	pending := false
	for _, t := range toks {
		if t == "big" || t == "trunc" {
			tail = t
			continue
		}
		isPing := strings.HasPrefix(t, "p:")
		if pending && !isPing && pongs {
			out = append(out, "F")
		}
		pending = isPing
		out = append(out, t)
	}
	if pending && pongs {
		out = append(out, "F")
	}
	if tail != "" {
		out = append(out, tail)
	}
	return out
}

// safePipe runs a pipeline scenario while GENERATING; a panic or a hang of the
// (possibly mutated) tree becomes an anomaly note on the line, which the model
// cannot explain.
func safePipe(c pipeCfg) (o pipeObs) {
	done := make(chan pipeObs, 1)
	go func() {
		defer func() {
			if r := recover(); r != nil {
				done <- pipeObs{done: map[int]int{}, note: "panic-in-scenario"}
			}
		}()
		done <- runPipe(c)
	}()
	select {
	case o = <-done:
		return o
	case <-time.After(execLimit):
		noteTimeout()
		return pipeObs{done: map[int]int{}, note: "scenario-hung"}
	}
}

// randHS draws one random handshake script with its configuration.
func randHS(r *core.Rand) (string, bool, string) {
	in := r.Bool()
	ours := oursEdges[r.Intn(len(oursEdges))]
	theirs := pverEdges[r.Intn(len(pverEdges))]
	if r.Chance(1, 2) {
		theirs = r.Range(209, 70020)
	}
	allowSelf := r.Chance(1, 4)
	reg, local := r.Chance(1, 3), r.Chance(1, 2)
	rej := r.Chance(1, 12)
	var toks []string
	class := "hs-valid"
	switch r.Intn(10) {
	case 0: // garbage before the version
		class = "hs-preversion"
		toks = append(toks, randTok(r))
	case 1: // self connection
		class = "hs-self"
		toks = append(toks, fmt.Sprintf("v:%d:1", theirs))
	default:
		toks = append(toks, fmt.Sprintf("v:%d:0", theirs))
	}
	if r.Chance(1, 6) {
		class = "hs-midhandshake"
		for j, m := 0, 1+r.Intn(3); j < m; j++ {
			toks = append(toks, randTok(r))
		}
	}
	if r.Chance(5, 6) {
		if minI(ours, theirs) >= 70016 && r.Bool() {
			toks = append(toks, "m:sendaddrv2")
		}
		toks = append(toks, "m:verack")
	}
	for j, m := 0, r.Intn(8); j < m; j++ {
		toks = append(toks, randTok(r))
	}
	if r.Chance(1, 10) {
		toks = append(toks, []string{"big", "trunc"}[r.Intn(2)])
	}
	toks = finishScript(toks, ours)
	return class, len(toks) > 1, hsLine(in, ours, allowSelf, reg, local, rej, toks)
}

func (P) Generate(g *core.Gen) {
	r := g.R
	if g.Thorough() && os.Getenv("VERIF_NO_RACE") == "" {
		g.Case("race-detector", true, "C18 racerun "+raceRun([]uint64{g.Seed, g.Seed + 1000, g.Seed + 2000}))
	}
	// 1. well-formed handshakes over the version grid, then application traffic.
	for _, ours := range []int64{70016, 70015, 70012, 70002, 70001, 60001, 60000, 209} {
		for _, theirs := range pverEdges {
			for _, in := range []bool{true, false} {
				neg := minI(ours, theirs)
				toks := []string{fmt.Sprintf("v:%d:0", theirs)}
				if neg >= 70016 && r.Bool() {
					toks = append(toks, "m:sendaddrv2")
				}
				if r.Chance(1, 4) {
					toks = append(toks, "unk")
				}
				toks = append(toks, "m:verack")
				for i, n := 0, r.Intn(5); i < n; i++ {
					toks = append(toks, randTok(r))
				}
				_ = neg
				toks = finishScript(toks, ours)
				g.Case("hs-grid", true, hsLine(in, ours, false, false, false, false, toks))
			}
		}
	}
	// 1b. boundary triples: every version-gated message kind and ping form at
	// gate-1 / gate / gate+1 of the negotiated version, followed by one more
	// message so that an unexpected disconnect is visible.
	for _, gate := range []int64{209, 31402, 60000, 60001, 60002, 70001, 70002, 70012, 70013, 70016} {
		for _, neg := range []int64{gate - 1, gate, gate + 1} {
			for _, probe := range []string{"pe", "ps", "p:7", "m:pong", "m:mempool", "m:filterclear", "m:reject",
				"m:sendheaders", "m:feefilter", "m:sendaddrv2", "unk", "m:verack"} {
				if neg < 209 || neg > 70016 {
					continue
				}
				in := r.Bool()
				ours, theirs := int64(70016), neg
				if r.Bool() {
					ours, theirs = neg, 70016
				}
				toks := finishScript([]string{fmt.Sprintf("v:%d:0", theirs), "m:verack", probe, "m:getaddr"}, ours)
				if neg <= 60000 && (probe == "pe" || probe == "p:7") {
					toks = []string{toks[0], toks[1], probe, "S", "m:getaddr"}
				}
				g.Case("hs-boundary", true, hsLine(in, ours, false, false, false, false, toks))
				if probe == "m:sendaddrv2" || probe == "unk" {
					toks = finishScript([]string{fmt.Sprintf("v:%d:0", theirs), probe, "m:verack", "m:getaddr"}, ours)
					g.Case("hs-boundary", true, hsLine(in, ours, false, false, false, false, toks))
				}
			}
		}
	}
	// 2. random scripts, every configuration.
	for i, n := 0, g.N(2000, 60000); i < n; i++ {
		class, nt, line := randHS(r)
		g.Case(class, nt, line)
	}
	// 2b. 8..12 independent peers at once, each compared with its own answer.
	for i, n := 0, g.N(30, 600); i < n; i++ {
		k := 8 + r.Intn(5)
		subs := make([]string, k)
		for j := range subs {
			_, _, line := randHS(r)
			subs[j] = strings.ReplaceAll(strings.TrimPrefix(line, "C18 hs "), " ", ";")
		}
		g.Case("hs-parallel", true, "C18 par "+strings.Join(subs, "|"))
	}
	// 2c. BIP324 transport: both sides v2 (the remote is btcd's own v2transport
	// endpoint in the opposite role), v2 peer with a v1 remote (inbound:
	// downgrade on a v1 version message; outbound: hang-up, ShouldDowngradeToV1,
	// P2PDowngrader, v1 reconnect).
	v2ify := func(toks string) string {
		if toks == "-" {
			return toks
		}
		ts := strings.Split(toks, ",")
		for i, t := range ts {
			switch t {
			case "magic", "cksum", "badcmd", "big", "trunc":
				ts[i] = "unk"
			}
		}
		return strings.Join(ts, ",")
	}
	for i, n := 0, g.N(240, 6000); i < n; i++ {
		_, _, line := randHS(r)
		f := strings.Fields(line)
		_, _, line2 := randHS(r)
		toks2 := strings.Fields(line2)[8]
		if toks2 != "-" {
			// the reconnect runs under THIS line's configuration: redo the flush barriers
			var raw []string
			for _, t := range strings.Split(toks2, ",") {
				if t != "F" {
					raw = append(raw, t)
				}
			}
			o, _ := strconv.ParseInt(f[3], 10, 64)
			toks2 = strings.Join(finishScript(raw, o), ",")
		}
		tr, class := "v2", "hs2-v2"
		switch r.Intn(5) {
		case 0, 1:
			f[8] = v2ify(f[8])
		case 2:
			tr, class = "v2dg", "hs2-downgrade-in"
			f[2] = "in"
			if r.Chance(1, 12) {
				f[8] = "-"
			}
		default:
			tr, class = "v2dg", "hs2-downgrade-out"
			f[2] = "out"
			if r.Chance(2, 3) {
				f[8] = "-"
			}
		}
		g.Case(class, true, fmt.Sprintf("C18 hs2 %s %s %s", tr, strings.Join(f[2:9], " "), toks2))
	}
	// 2d. inventory trickle: batching at the tree's batch size B (B-1, B, B+1, 2B,
	// 2B+1), known-inventory filter and cache eviction (limit L).
	B, L := tune("maxInvTrickleSize"), tune("maxKnownInventory")
	invLine := func(n, k, d, b int) string {
		return fmt.Sprintf("C18 inv %d %d %d %d %d %d", n, k, d, b, B, L)
	}
	if B >= 2 && B <= 4000 && L >= 8 {
		for _, c := range [][4]int{{0, 0, 0, 0}, {1, 0, 0, 1}, {B - 1, 0, 0, 0}, {B, 0, 0, 2}, {B + 1, 0, 0, 0},
			{2 * B, 0, 0, 0}, {2*B + 1, 7, 3, 1}, {B + B/2, B / 2, B / 3, 3}} {
			g.Case("inv-trickle", c[0] > 0, invLine(c[0], c[1], c[2], c[3]))
		}
		for i, n := 0, g.N(2, 60); i < n; i++ {
			nn := int(r.Range(1, int64(3*B+200)))
			k := r.Intn(nn/2 + 1)
			d := r.Intn(nn - k + 1)
			g.Case("inv-trickle", true, invLine(nn, k, d, r.Intn(5)))
		}
	}
	// 2e. Push* entry points of a ready peer.
	for i, n := 0, g.N(100, 3000); i < n; i++ {
		vs := []int64{60001, 70001, 70002, 70015, 70016}
		ours, theirs := vs[r.Intn(len(vs))], vs[r.Intn(len(vs))]
		if r.Bool() {
			ours = 70016
		}
		var ops []string
		for j, m := 0, 1+r.Intn(10); j < m; j++ {
			switch r.Intn(8) {
			case 0, 1:
				ops = append(ops, fmt.Sprintf("gb:%d:%d", r.Intn(3), 1+r.Intn(2)))
			case 2, 3:
				ops = append(ops, fmt.Sprintf("gh:%d:%d", r.Intn(3), 1+r.Intn(2)))
			case 4:
				ops = append(ops, fmt.Sprintf("addr:%d", r.Pick(0, 1, 2, 999, 1000, 1001, 1500)))
			case 5:
				ops = append(ops, fmt.Sprintf("a2:%d", r.Pick(0, 1, 999, 1000)))
			case 6:
				ops = append(ops, fmt.Sprintf("rej:%d", r.Pick(1, 16, 17, 18, 64)))
			default:
				ops = append(ops, fmt.Sprintf("qe:%d", 1+r.Intn(1000)))
			}
		}
		g.Case("push-api", true, fmt.Sprintf("C18 push %d %d %s", ours, theirs, strings.Join(ops, ",")))
	}
	// 2f. a node that dials itself: real outbound + real inbound peer of this
	// process back to back, adversarial and natural schedules.
	for _, vo := range []int64{70016, 70015, 70002, 60002} {
		for _, vi := range []int64{70016, 70013, 60001} {
			for _, sched := range []string{"adv", "nat"} {
				g.Case("self-connection", true, fmt.Sprintf("C18 selfconn 0 %d %d %s", vo, vi, sched))
			}
			g.Case("self-connection-allowed", true, fmt.Sprintf("C18 selfconn 1 %d %d %s", vo, vi, []string{"adv", "nat"}[r.Intn(2)]))
		}
	}
	for i, n := 0, g.N(20, 600); i < n; i++ {
		g.Case("self-connection", true, fmt.Sprintf("C18 selfconn 0 %d %d %s", r.Range(60001, 70016), r.Range(60001, 70016), []string{"adv", "adv", "nat"}[r.Intn(3)]))
	}
	// 3. messages queued while the handshake is still in progress.
	for _, dir := range []string{"in", "out"} {
		for _, mode := range []string{"fail", "ok", "disc"} {
			capOut := tune("capOutputQueue")
			for _, n := range []int{0, 1, 2, 7, capOut - 1, capOut} {
				if n < 0 {
					continue
				}
				g.Case("prestart-"+mode, n > 0, fmt.Sprintf("C18 prestart %s %d %s", dir, n, mode))
			}
			for i, k := 0, g.N(6, 200); i < k; i++ {
				g.Case("prestart-"+mode, true, fmt.Sprintf("C18 prestart %s %d %s", dir, 1+r.Intn(tune("capOutputQueue")), mode))
			}
		}
	}
	// 4. pipeline scenarios: run on the real peer now; the observed trace goes on the line.
	for i, n := 0, g.N(250, 10000); i < n; i++ {
		c := pipeCfg{nProd: 1 + r.Intn(8), nMsg: 1 + r.Intn(12), seed: r.U64(), invCallers: r.Intn(3)}
		switch x := r.Intn(20); {
		case x < 9:
			c.mode = 0
		case x < 12:
			c.mode = 1
		case x < 14:
			c.mode = 2
		case x < 15:
			c.mode = 3
		case x < 16:
			c.mode = 4
		case x < 18:
			c.mode = 5
		default:
			c.mode = 6
		}
		if r.Chance(1, 10) {
			c.nProd, c.nMsg = 8+r.Intn(9), 10+r.Intn(20)
		}
		if co := tune("capOutputQueue"); c.nProd >= co && co >= 2 {
			// more callers in flight than the buffer holds may block for good
			c.nProd = co - 1
		}
		c.fireAt = r.Intn(c.nProd*c.nMsg + 1)
		if c.invCallers > 0 && r.Chance(1, 2) {
			ci := tune("capOutputInvChan")
			c.invExtra = ci + r.Intn(ci+1)
		}
		o := safePipe(c)
		class := fmt.Sprintf("pipe-mode%d", c.mode)
		g.Case(class, len(o.written) > 0 || len(o.before) > 0, pipeLine(c, o))
	}
}
