package p18

import (
	"fmt"
	"net"
	"sync"
	"time"

	"github.com/btcsuite/btcd/chaincfg/v2"
	"github.com/btcsuite/btcd/peer"
	"github.com/btcsuite/btcd/wire/v2"
)

type selfObs struct {
	mu  sync.Mutex
	cbs []string
}

func (o *selfObs) add(s string) { o.mu.Lock(); o.cbs = append(o.cbs, s); o.mu.Unlock() }

// runSelfConn connects a real outbound peer and a real inbound peer of THIS
// process back to back (they share the package-level nonce cache), i.e. a node
// that dialled itself. sched "adv" pins the adversarial schedule: the outbound
// side's conn.Write of its version message does not return before the inbound
// peer has acted on those bytes (refused the connection or delivered
// OnVersion), so anything the outbound side does after the write returns is too
// late. sched "nat" lets the scheduler decide.
func runSelfConn(allow bool, oursO, oursI uint32, sched string) string {
	params := &chaincfg.MainNetParams
	addrO := &net.TCPAddr{IP: net.ParseIP("10.7.7.7"), Port: 40000}
	addrI := &net.TCPAddr{IP: net.ParseIP("10.7.7.7"), Port: 8333}

	decided := make(chan struct{})
	var once sync.Once
	decide := func() { once.Do(func() { close(decided) }) }
	acks := make(chan struct{}, 2)

	mk := func(o *selfObs, ours uint32, inbound bool) *peer.Config {
		return &peer.Config{
			UserAgentName: "verif", UserAgentVersion: "1.0", ChainParams: params,
			ProtocolVersion: ours, AllowSelfConns: allow, TrickleInterval: time.Hour,
			Listeners: peer.MessageListeners{
				OnVersion: func(p *peer.Peer, m *wire.MsgVersion) *wire.MsgReject {
					o.add("version")
					if inbound {
						decide()
					}
					return nil
				},
				OnVerAck:     func(p *peer.Peer, m *wire.MsgVerAck) { o.add("verack"); acks <- struct{}{} },
				OnSendAddrV2: func(p *peer.Peer, m *wire.MsgSendAddrV2) { o.add("sendaddrv2") },
			},
		}
	}
	var obsO, obsI selfObs
	pO, err := peer.NewOutboundPeer(mk(&obsO, oursO, false), addrI.String())
	if err != nil {
		return "err:newpeer"
	}
	pI := peer.NewInboundPeer(mk(&obsI, oursI, true))
	a, b := newPipe(addrO, addrI) // a: outbound peer's conn, b: inbound peer's conn
	note := ""
	if sched == "adv" {
		writes := 0
		a.afterWrite = func(n int) {
			writes++
			if writes == 2 { // header, then payload: the version message is complete
				select {
				case <-decided:
				case <-time.After(waitLimit):
					noteTimeout()
				}
			}
		}
	}
	go func() { pI.WaitForDisconnect(); decide() }()
	pI.AssociateConnection(b)
	pO.AssociateConnection(a)

	if allow {
		for i := 0; i < 2; i++ {
			select {
			case <-acks:
			case <-time.After(waitLimit):
				note = " note=no-verack"
				i = 2
			}
		}
		pO.Disconnect()
	}
	for _, p := range []*peer.Peer{pO, pI} {
		dch := make(chan struct{})
		go func() { p.WaitForDisconnect(); close(dch) }()
		select {
		case <-dch:
		case <-time.After(waitLimit):
			note += " note=no-disconnect"
			p.Disconnect()
		}
	}
	if !waitCensusClean() {
		note += " note=goroutine-leak"
	}
	bs := func(x bool) string {
		if x {
			return "1"
		}
		return "0"
	}
	side := func(name string, p *peer.Peer, o *selfObs) string {
		o.mu.Lock()
		defer o.mu.Unlock()
		return fmt.Sprintf("%s: cb=%s pver=%d vk=%s va=%s", name, joinOrDash(o.cbs), p.ProtocolVersion(),
			bs(p.VersionKnown()), bs(p.VerAckReceived()))
	}
	return side("in", pI, &obsI) + " | " + side("out", pO, &obsO) + note
}
