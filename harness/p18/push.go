package p18

import (
	"encoding/binary"
	"fmt"
	"net"
	"strconv"
	"strings"
	"sync"
	"time"

	"github.com/btcsuite/btcd/blockchain"
	"github.com/btcsuite/btcd/chaincfg/v2"
	"github.com/btcsuite/btcd/chainhash/v2"
	"github.com/btcsuite/btcd/peer"
	"github.com/btcsuite/btcd/wire/v2"
)

func smallHash(id uint64) *chainhash.Hash {
	var h chainhash.Hash
	binary.LittleEndian.PutUint64(h[:8], id)
	return &h
}

// runPush drives the Push* entry points of a ready peer in sequence and reports
// what reached the wire, the values they returned, and the byte counters.
//
//	gb:<begin>:<stop>  PushGetBlocksMsg (begin 0 = empty locator)
//	gh:<begin>:<stop>  PushGetHeadersMsg
//	addr:<n>           PushAddrMsg with n addresses
//	a2:<n>             PushAddrV2Msg with n addresses (n <= 1000)
//	rej:<code>         PushRejectMsg("tx", code, ..., wait=true)
//	qe:<id>            QueueMessageWithEncoding(pong(id), WitnessEncoding)
func runPush(ours uint32, theirs uint32, ops []string) string {
	params := &chaincfg.MainNetParams
	btcnet := params.Net
	remoteAddr := &net.TCPAddr{IP: net.ParseIP("10.1.2.3"), Port: 18555}
	peerAddr := &net.TCPAddr{IP: net.ParseIP("10.9.9.9"), Port: 8333}
	ready := make(chan struct{})
	var once sync.Once
	cfg := &peer.Config{
		UserAgentName: "verif", UserAgentVersion: "1.0", ChainParams: params,
		ProtocolVersion: ours, TrickleInterval: time.Hour,
		Listeners: peer.MessageListeners{
			OnVerAck: func(p *peer.Peer, m *wire.MsgVerAck) { once.Do(func() { close(ready) }) },
		},
	}
	p := peer.NewInboundPeer(cfg)
	pe, re := newPipe(peerAddr, remoteAddr)
	rd := newReader(re)
	p.AssociateConnection(pe)
	sentBytes := 0
	w := func(b []byte) { sentBytes += len(b); re.Write(b) }
	me := wire.NewNetAddressIPPort(net.ParseIP("10.1.2.3"), 18555, 0)
	you := wire.NewNetAddressIPPort(net.ParseIP("10.9.9.9"), 8333, 0)
	v := wire.NewMsgVersion(me, you, nextNonce(), 0)
	v.ProtocolVersion = int32(theirs)
	w(encMsg(v, btcnet))
	w(encMsg(wire.NewMsgVerAck(), btcnet))
	select {
	case <-ready:
	case <-time.After(waitLimit):
		p.Disconnect()
		return "handshake-timeout"
	}
	var rets []string
	for _, op := range ops {
		f := strings.Split(op, ":")
		arg := func(i int) uint64 { x, _ := strconv.ParseUint(f[i], 10, 32); return x }
		switch f[0] {
		case "gb", "gh":
			var loc blockchain.BlockLocator
			if arg(1) != 0 {
				loc = blockchain.BlockLocator{smallHash(arg(1)), smallHash(arg(1) + 100)}
			}
			var err error
			if f[0] == "gb" {
				err = p.PushGetBlocksMsg(loc, smallHash(arg(2)))
			} else {
				err = p.PushGetHeadersMsg(loc, smallHash(arg(2)))
			}
			if err != nil {
				rets = append(rets, "err")
			}
		case "addr":
			n := int(arg(1))
			as := make([]*wire.NetAddress, n)
			for i := range as {
				as[i] = wire.NewNetAddressIPPort(net.IPv4(10, byte(i>>16), byte(i>>8), byte(i)), 8333, 0)
			}
			got, err := p.PushAddrMsg(as)
			seen := map[string]bool{}
			distinct := true
			for _, a := range got {
				if seen[a.IP.String()] {
					distinct = false
				}
				seen[a.IP.String()] = true
			}
			rets = append(rets, fmt.Sprintf("addr=%d/%v/%v", len(got), distinct, err == nil))
		case "a2":
			n := int(arg(1))
			as := make([]*wire.NetAddressV2, n)
			for i := range as {
				as[i] = wire.NetAddressV2FromBytes(time.Unix(1700000000, 0), 0,
					net.IPv4(10, byte(i>>16), byte(i>>8), byte(i)).To4(), 8333)
			}
			got, err := p.PushAddrV2Msg(as)
			rets = append(rets, fmt.Sprintf("a2=%d/%v", len(got), err == nil))
		case "rej":
			p.PushRejectMsg("tx", wire.RejectCode(arg(1)), "r", smallHash(9), true)
		case "qe":
			d := make(chan struct{}, 1)
			p.QueueMessageWithEncoding(wire.NewMsgPong(arg(1)), d, wire.WitnessEncoding)
			<-d
		default:
			return "bad-op"
		}
	}
	note := ""
	flushed := false
	if min32(ours, theirs) > 60000 {
		w(encMsg(wire.NewMsgPing(flushNonce), btcnet))
		if rd.waitFor(func(ms []wmsg) bool {
			return len(ms) > 0 && renderW(ms[len(ms)-1], btcnet) == fmt.Sprintf("pong(%d)", flushNonce)
		}) == "timeout" {
			note += " note=flush-timeout"
		}
		flushed = true
	} else {
		// nothing answers a ping at this version: wait until the peer's byte
		// counter shows the last queued message left.
		time.Sleep(20 * time.Millisecond)
	}
	re.CloseWrite()
	dch := make(chan struct{})
	go func() { p.WaitForDisconnect(); close(dch) }()
	select {
	case <-dch:
	case <-time.After(waitLimit):
		note += " note=no-disconnect"
	}
	if !waitCensusClean() {
		note += " note=goroutine-leak"
	}
	// counters are bumped after the write returns: read them once every goroutine is gone
	bs, br := p.BytesSent(), p.BytesReceived()
	ms, _ := rd.snapshot()
	var ws []string
	recv := 0
	for _, m := range ms {
		recv += 24 + len(m.payload)
		switch m.cmd {
		case "version", "verack", "sendaddrv2":
		case "pong":
			if flushed && renderW(m, btcnet) == fmt.Sprintf("pong(%d)", flushNonce) {
				continue
			}
			ws = append(ws, renderW(m, btcnet))
		case "getblocks", "getheaders":
			// pver(4) count(varint) hashes.. stop(32)
			cnt := int(m.payload[4])
			begin := uint64(0)
			if cnt > 0 {
				begin = binary.LittleEndian.Uint64(m.payload[5:13])
			}
			stop := binary.LittleEndian.Uint64(m.payload[5+32*cnt : 13+32*cnt])
			ws = append(ws, fmt.Sprintf("%s(%d,%d)", m.cmd[3:4], begin, stop))
		case "reject":
			// varstr cmd, code, varstr reason, [hash for tx/block]
			pl := m.payload
			l := int(pl[0])
			cmd, code := string(pl[1:1+l]), pl[1+l]
			rest := pl[2+l:]
			rest = rest[1+int(rest[0]):]
			h := "nohash"
			if len(rest) == 32 {
				h = strconv.FormatUint(binary.LittleEndian.Uint64(rest[:8]), 10)
			}
			ws = append(ws, fmt.Sprintf("reject(%s/%d/%s)", cmd, code, h))
		case "addr", "addrv2":
			n := uint64(m.payload[0])
			if m.payload[0] == 0xfd {
				n = uint64(binary.LittleEndian.Uint16(m.payload[1:3]))
			}
			ws = append(ws, fmt.Sprintf("%s(%d)", m.cmd, n))
		default:
			ws = append(ws, renderW(m, btcnet))
		}
	}
	bytesOK := "ok"
	if flushed && (int(bs) != recv || int(br) != sentBytes) {
		bytesOK = fmt.Sprintf("bad(%d/%d,%d/%d)", bs, recv, br, sentBytes)
	}
	return fmt.Sprintf("w=%s ret=%s bytes=%s%s", joinOrDash(ws), joinOrDash(rets), bytesOK, note)
}

func min32(a, b uint32) uint32 {
	if a < b {
		return a
	}
	return b
}
