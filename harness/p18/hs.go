package p18

import (
	"bytes"
	"encoding/binary"
	"errors"
	"fmt"
	"io"
	"net"
	"runtime"
	"strconv"
	"strings"
	"sync"
	"sync/atomic"
	"time"

	"github.com/btcsuite/btcd/chaincfg/v2"
	"github.com/btcsuite/btcd/chainhash/v2"
	"github.com/btcsuite/btcd/peer"
	"github.com/btcsuite/btcd/v2transport"
	"github.com/btcsuite/btcd/wire/v2"
)

const flushNonce = uint64(0xF1F1F1F1F1F1F1F1)

// waitLimit bounds every wait of the harness; reaching it is reported in the
// observation (never silently).
var waitLimit = 15 * time.Second

// noteTimeout shortens later waits once a few have expired, so that a tree on
// which the peer hangs is reported in minutes rather than hours.
var timeoutsSeen int

func noteTimeout() {
	timeoutsSeen++
	if timeoutsSeen == 4 {
		waitLimit = 500 * time.Millisecond
		leakLimit = 500 * time.Millisecond
	}
}

// leakLimit is how long goroutines of a disconnected peer get to finish before
// they are reported as leaked.
var leakLimit = 10 * time.Second

// ---------------------------------------------------------------- census

// leaked holds the ids of goroutines already reported as leaked by an earlier
// case, so that one leak is reported once and does not poison later cases.
var leaked = map[string]bool{}

// peerGoroutines returns the ids of goroutines that have a frame of btcd's
// peer package (not counting those already reported as leaked).
func peerGoroutines() []string {
	buf := make([]byte, 1<<18)
	for {
		n := runtime.Stack(buf, true)
		if n < len(buf) {
			buf = buf[:n]
			break
		}
		buf = make([]byte, 2*len(buf))
	}
	var ids []string
	for _, g := range bytes.Split(buf, []byte("\n\n")) {
		// any frame of the peer package or of a sub-package of it: the census does
		// not depend on how many goroutines a peer uses or what they are called
		if !bytes.Contains(g, []byte("github.com/btcsuite/btcd/peer.")) &&
			!bytes.Contains(g, []byte("github.com/btcsuite/btcd/peer/")) {
			continue
		}
		// "goroutine 123 [chan send]:"
		f := bytes.Fields(g)
		if len(f) < 2 {
			continue
		}
		id := string(f[1])
		if !leaked[id] {
			ids = append(ids, id)
		}
	}
	return ids
}

// waitCensusClean polls until no peer goroutine is left; false on timeout
// (the stragglers are then remembered as leaked).
func waitCensusClean() bool {
	deadline := time.Now().Add(leakLimit)
	d := 20 * time.Microsecond
	for {
		ids := peerGoroutines()
		if len(ids) == 0 {
			return true
		}
		if time.Now().After(deadline) {
			for _, id := range ids {
				leaked[id] = true
			}
			noteTimeout()
			return false
		}
		time.Sleep(d)
		if d < 2*time.Millisecond {
			d *= 2
		}
	}
}

// ---------------------------------------------------------------- remote reader

type wmsg struct {
	magic   uint32
	cmd     string
	payload []byte
	sumOK   bool
}

// reader drains what the peer writes and frames it into messages.
type reader struct {
	mu   sync.Mutex
	cond *sync.Cond
	msgs []wmsg
	eof  bool
	junk bool // trailing bytes that do not form a message
}

func newReader(r io.Reader) *reader {
	rd := &reader{}
	rd.cond = sync.NewCond(&rd.mu)
	go func() {
		for {
			var hdr [24]byte
			n, err := io.ReadFull(r, hdr[:])
			if err != nil {
				rd.finish(n != 0)
				return
			}
			ln := binary.LittleEndian.Uint32(hdr[16:20])
			if ln > 8<<20 {
				rd.finish(true)
				return
			}
			pl := make([]byte, ln)
			if _, err := io.ReadFull(r, pl); err != nil {
				rd.finish(true)
				return
			}
			sum := chainhash.DoubleHashB(pl)
			m := wmsg{
				magic:   binary.LittleEndian.Uint32(hdr[0:4]),
				cmd:     string(bytes.TrimRight(hdr[4:16], "\x00")),
				payload: pl,
				sumOK:   bytes.Equal(sum[:4], hdr[20:24]),
			}
			rd.mu.Lock()
			rd.msgs = append(rd.msgs, m)
			rd.cond.Broadcast()
			rd.mu.Unlock()
		}
	}()
	return rd
}

func (rd *reader) finish(junk bool) {
	rd.mu.Lock()
	rd.eof = true
	rd.junk = junk
	rd.cond.Broadcast()
	rd.mu.Unlock()
}

// waitFor blocks until pred holds on the messages read so far or the stream
// ended; it reports "ok", "eof" or "timeout".
func (rd *reader) waitFor(pred func([]wmsg) bool) string {
	timer := time.AfterFunc(waitLimit, func() {
		rd.mu.Lock()
		rd.cond.Broadcast()
		rd.mu.Unlock()
	})
	defer timer.Stop()
	deadline := time.Now().Add(waitLimit)
	rd.mu.Lock()
	defer rd.mu.Unlock()
	for {
		if pred(rd.msgs) {
			return "ok"
		}
		if rd.eof {
			return "eof"
		}
		if time.Now().After(deadline) {
			noteTimeout()
			return "timeout"
		}
		rd.cond.Wait()
	}
}

func (rd *reader) snapshot() ([]wmsg, bool) {
	rd.mu.Lock()
	defer rd.mu.Unlock()
	return append([]wmsg(nil), rd.msgs...), rd.junk
}

func renderW(m wmsg, net wire.BitcoinNet) string {
	pre := ""
	if m.magic != uint32(net) {
		pre = "badmagic:"
	}
	if !m.sumOK {
		pre += "badsum:"
	}
	switch m.cmd {
	case "version":
		if len(m.payload) >= 4 {
			return pre + fmt.Sprintf("version(%d)", binary.LittleEndian.Uint32(m.payload[:4]))
		}
	case "pong":
		if len(m.payload) == 8 {
			return pre + fmt.Sprintf("pong(%d)", binary.LittleEndian.Uint64(m.payload))
		}
	case "ping":
		if len(m.payload) == 8 {
			return pre + fmt.Sprintf("ping(%d)", binary.LittleEndian.Uint64(m.payload))
		}
		return pre + "ping"
	case "reject":
		// varstr cmd, code byte
		if len(m.payload) >= 2 {
			l := int(m.payload[0])
			if l < 0xfd && len(m.payload) >= 1+l+1 {
				return pre + fmt.Sprintf("reject(%s/%d)", string(m.payload[1:1+l]), m.payload[1+l])
			}
		}
	}
	return pre + m.cmd
}

// newV2Reader decrypts what the peer writes on a v2 connection.
func newV2Reader(rp *v2transport.Peer, btcnet wire.BitcoinNet) *reader {
	rd := &reader{}
	rd.cond = sync.NewCond(&rd.mu)
	go func() {
		for {
			pt, err := rp.V2ReceivePacket(nil)
			if err != nil {
				rd.finish(false)
				return
			}
			msg, payload, err := wire.ReadV2MessageN(pt, wire.ProtocolVersion, wire.LatestEncoding)
			m := wmsg{magic: uint32(btcnet), sumOK: true}
			if err != nil {
				m.cmd = "undecodable"
			} else {
				m.cmd, m.payload = msg.Command(), payload
			}
			rd.mu.Lock()
			rd.msgs = append(rd.msgs, m)
			rd.cond.Broadcast()
			rd.mu.Unlock()
		}
	}()
	return rd
}

// ---------------------------------------------------------------- remote script

func rawMsg(magic uint32, cmd []byte, payload []byte, declLen uint32, fixSum bool) []byte {
	var b bytes.Buffer
	var hdr [24]byte
	binary.LittleEndian.PutUint32(hdr[0:4], magic)
	copy(hdr[4:16], cmd)
	binary.LittleEndian.PutUint32(hdr[16:20], declLen)
	sum := chainhash.DoubleHashB(payload)
	copy(hdr[20:24], sum[:4])
	if !fixSum {
		hdr[20] ^= 0x5a
	}
	b.Write(hdr[:])
	b.Write(payload)
	return b.Bytes()
}

func encMsg(m wire.Message, net wire.BitcoinNet) []byte {
	var b bytes.Buffer
	if _, err := wire.WriteMessageN(&b, m, wire.ProtocolVersion, net); err != nil {
		panic(err)
	}
	return b.Bytes()
}

func kindMsg(k string) wire.Message {
	switch k {
	case "verack":
		return wire.NewMsgVerAck()
	case "sendaddrv2":
		return wire.NewMsgSendAddrV2()
	case "pong":
		return wire.NewMsgPong(7)
	case "getaddr":
		return wire.NewMsgGetAddr()
	case "addr":
		return wire.NewMsgAddr()
	case "mempool":
		return wire.NewMsgMemPool()
	case "sendheaders":
		return wire.NewMsgSendHeaders()
	case "feefilter":
		return wire.NewMsgFeeFilter(1000)
	case "inv":
		return wire.NewMsgInv()
	case "headers":
		return wire.NewMsgHeaders()
	case "getheaders":
		return wire.NewMsgGetHeaders()
	case "getblocks":
		return wire.NewMsgGetBlocks(&chainhash.Hash{})
	case "getdata":
		return wire.NewMsgGetData()
	case "notfound":
		return wire.NewMsgNotFound()
	case "reject":
		return wire.NewMsgReject("foo", wire.RejectInvalid, "because")
	case "filterclear":
		return wire.NewMsgFilterClear()
	case "cfcheckpt":
		return wire.NewMsgCFCheckpt(wire.GCSFilterRegular, &chainhash.Hash{}, 0)
	}
	return nil
}

type hsCfg struct {
	// transport: "" = v1 only; "v2" = peer and remote speak BIP324; "v2dg" =
	// the peer is configured for v2 but the remote only speaks v1.
	transport string
	inbound   bool
	ours      uint32
	allowSelf bool
	regtest   bool
	local     bool
	rejectVer bool
}

var nonceCtr atomic.Uint64

func init() { nonceCtr.Store(0x5eed000000000001) }

func nextNonce() uint64 { return nonceCtr.Add(0x9E3779B97F4A7C15) }

// runHS drives one real peer with the scripted remote and returns the
// canonical observation.
func runHS(c hsCfg, toks []string) string { return runHSx(c, toks, true) }

// runHSx: census=false skips the goroutine census (concurrent instances share it).
func runHSx(c hsCfg, toks []string, census bool) string {
	params := &chaincfg.MainNetParams
	if c.regtest {
		params = &chaincfg.RegressionNetParams
	}
	btcnet := params.Net
	otherNet := wire.TestNet3
	host := "10.1.2.3"
	if c.local {
		host = "127.0.0.1"
	}
	remoteAddr := &net.TCPAddr{IP: net.ParseIP(host), Port: 18555}
	peerAddr := &net.TCPAddr{IP: net.ParseIP("10.9.9.9"), Port: 8333}

	var mu sync.Mutex
	var cbs, rds []string
	ackPver := "-"
	cb := func(name string) {
		mu.Lock()
		cbs = append(cbs, name)
		mu.Unlock()
	}
	ls := peer.MessageListeners{
		OnVersion: func(p *peer.Peer, m *wire.MsgVersion) *wire.MsgReject {
			cb("version")
			if c.rejectVer {
				return wire.NewMsgReject("version", wire.RejectInvalid, "no")
			}
			return nil
		},
		OnVerAck: func(p *peer.Peer, m *wire.MsgVerAck) {
			cb("verack")
			mu.Lock()
			ackPver = strconv.FormatUint(uint64(p.ProtocolVersion()), 10)
			mu.Unlock()
		},
		OnSendAddrV2:  func(p *peer.Peer, m *wire.MsgSendAddrV2) { cb("sendaddrv2") },
		OnPing:        func(p *peer.Peer, m *wire.MsgPing) { cb("ping") },
		OnPong:        func(p *peer.Peer, m *wire.MsgPong) { cb("pong") },
		OnGetAddr:     func(p *peer.Peer, m *wire.MsgGetAddr) { cb("getaddr") },
		OnAddr:        func(p *peer.Peer, m *wire.MsgAddr) { cb("addr") },
		OnAddrV2:      func(p *peer.Peer, m *wire.MsgAddrV2) { cb("addrv2") },
		OnMemPool:     func(p *peer.Peer, m *wire.MsgMemPool) { cb("mempool") },
		OnSendHeaders: func(p *peer.Peer, m *wire.MsgSendHeaders) { cb("sendheaders") },
		OnFeeFilter:   func(p *peer.Peer, m *wire.MsgFeeFilter) { cb("feefilter") },
		OnInv:         func(p *peer.Peer, m *wire.MsgInv) { cb("inv") },
		OnHeaders:     func(p *peer.Peer, m *wire.MsgHeaders) { cb("headers") },
		OnGetHeaders:  func(p *peer.Peer, m *wire.MsgGetHeaders) { cb("getheaders") },
		OnGetBlocks:   func(p *peer.Peer, m *wire.MsgGetBlocks) { cb("getblocks") },
		OnGetData:     func(p *peer.Peer, m *wire.MsgGetData) { cb("getdata") },
		OnNotFound:    func(p *peer.Peer, m *wire.MsgNotFound) { cb("notfound") },
		OnReject:      func(p *peer.Peer, m *wire.MsgReject) { cb("reject") },
		OnFilterClear: func(p *peer.Peer, m *wire.MsgFilterClear) { cb("filterclear") },
		OnFilterAdd:   func(p *peer.Peer, m *wire.MsgFilterAdd) { cb("filteradd") },
		OnFilterLoad:  func(p *peer.Peer, m *wire.MsgFilterLoad) { cb("filterload") },
		OnMerkleBlock: func(p *peer.Peer, m *wire.MsgMerkleBlock) { cb("merkleblock") },
		OnTx:          func(p *peer.Peer, m *wire.MsgTx) { cb("tx") },
		OnBlock:       func(p *peer.Peer, m *wire.MsgBlock, b []byte) { cb("block") },
		OnGetCFilters: func(p *peer.Peer, m *wire.MsgGetCFilters) { cb("getcfilters") },
		OnGetCFHeaders: func(p *peer.Peer, m *wire.MsgGetCFHeaders) {
			cb("getcfheaders")
		},
		OnGetCFCheckpt: func(p *peer.Peer, m *wire.MsgGetCFCheckpt) { cb("getcfcheckpt") },
		OnCFilter:      func(p *peer.Peer, m *wire.MsgCFilter) { cb("cfilter") },
		OnCFHeaders:    func(p *peer.Peer, m *wire.MsgCFHeaders) { cb("cfheaders") },
		OnRead: func(p *peer.Peer, n int, m wire.Message, err error) {
			var s string
			var me *wire.MessageError
			switch {
			case err == nil:
				s = m.Command()
			case err == wire.ErrUnknownMessage:
				s = "unknown"
			case errors.As(err, &me):
				s = "merr"
			case err == io.EOF:
				s = "eof"
			case err == io.ErrUnexpectedEOF:
				s = "ueof"
			default:
				s = "other"
			}
			mu.Lock()
			rds = append(rds, s)
			mu.Unlock()
		},
	}
	svc := wire.ServiceFlag(0)
	if c.transport != "" {
		svc = wire.SFNodeP2PV2
	}
	cfg := &peer.Config{
		UserAgentName:    "verif",
		UserAgentVersion: "1.0",
		ChainParams:      params,
		Services:         svc,
		UsingV2Conn:      c.transport != "",
		ProtocolVersion:  c.ours,
		AllowSelfConns:   c.allowSelf,
		Listeners:        ls,
		TrickleInterval:  time.Hour,
	}
	var p *peer.Peer
	if c.inbound {
		p = peer.NewInboundPeer(cfg)
	} else {
		var err error
		p, err = peer.NewOutboundPeer(cfg, remoteAddr.String())
		if err != nil {
			return "err:newpeer"
		}
	}
	pe, re := newPipe(peerAddr, remoteAddr)
	var rd *reader
	if c.transport != "v2" {
		rd = newReader(re)
	}
	p.AssociateConnection(pe)
	note := ""
	flushes := 0
	send := func(b []byte) { re.Write(b) }
	// A v2-configured peer talks v1 with a v1 remote only when inbound and the
	// remote opens with a well-formed version message.
	speaksV1 := c.transport != "v2dg" || (c.inbound && len(toks) > 0 && strings.HasPrefix(toks[0], "v:"))
	if c.transport == "v2" {
		// The remote is btcd's own v2transport endpoint in the opposite role.
		rp := v2transport.NewPeer()
		rp.UseReadWriter(re)
		gl := int(nextNonce() % 64)
		var err error
		if c.inbound {
			if err = rp.InitiateV2Handshake(gl); err == nil {
				err = rp.CompleteHandshake(true, nil, v2transport.BitcoinNet(btcnet))
			}
		} else {
			if err = rp.RespondV2Handshake(gl, v2transport.BitcoinNet(btcnet)); err == nil {
				err = rp.CompleteHandshake(false, nil, v2transport.BitcoinNet(btcnet))
			}
		}
		if err != nil {
			p.Disconnect()
			return "err:v2handshake"
		}
		rd = newV2Reader(rp, btcnet)
		send = func(b []byte) {
			// b is a well-framed v1 message: re-frame it as a v2 packet with
			// the long (12-byte) command form.
			pt := make([]byte, 0, 13+len(b)-24)
			pt = append(pt, 0)
			pt = append(pt, b[4:16]...)
			pt = append(pt, b[24:]...)
			rp.V2EncPacket(pt, nil, false)
		}
	}
	for _, t := range toks {
		f := strings.Split(t, ":")
		switch f[0] {
		case "v":
			pv, _ := strconv.ParseUint(f[1], 10, 32)
			nonce := nextNonce()
			if f[2] == "1" {
				if c.inbound {
					peer.VerifSentNonceAdd(nonce)
				} else {
					// Echo the nonce of the peer's own version message.
					r := rd.waitFor(func(ms []wmsg) bool { return len(ms) > 0 })
					ms, _ := rd.snapshot()
					if r != "ok" || ms[0].cmd != "version" || len(ms[0].payload) < 80 {
						if c.transport != "v2dg" { // a v2 peer's first bytes are its key, not a version
							note = " note=noversion"
						}
					} else {
						nonce = binary.LittleEndian.Uint64(ms[0].payload[72:80])
					}
				}
			}
			me := wire.NewNetAddressIPPort(net.ParseIP("10.1.2.3"), 18555, 0)
			you := wire.NewNetAddressIPPort(net.ParseIP("10.9.9.9"), 8333, 0)
			m := wire.NewMsgVersion(me, you, nonce, 100)
			m.ProtocolVersion = int32(uint32(pv))
			if pv%3 == 0 {
				m.Services = wire.SFNodeWitness | wire.SFNodeNetwork
			}
			send(encMsg(m, btcnet))
		case "m":
			m := kindMsg(f[1])
			if m == nil {
				return "bad-op"
			}
			send(encMsg(m, btcnet))
		case "p":
			n, _ := strconv.ParseUint(f[1], 10, 64)
			send(encMsg(wire.NewMsgPing(n), btcnet))
		case "F":
			send(encMsg(wire.NewMsgPing(flushNonce), btcnet))
			if !speaksV1 {
				// the peer is inside (or past) a v2 key exchange fed with v1
				// bytes: nothing will ever answer
				continue
			}
			flushes++
			want := fmt.Sprintf("pong(%d)", flushNonce)
			need := flushes
			r := rd.waitFor(func(ms []wmsg) bool {
				n := 0
				for _, m := range ms {
					if m.cmd == "pong" && renderW(m, btcnet) == want {
						n++
					}
				}
				return n >= need
			})
			if r == "timeout" {
				note = " note=flush-timeout"
			}
		case "S":
			// settle: let the peer act on what it has read (nothing answers a
			// ping below BIP0031, so there is no flush barrier there)
			time.Sleep(40 * time.Millisecond)
		case "pe":
			send(rawMsg(uint32(btcnet), []byte("ping"), nil, 0, true))
		case "ps":
			send(rawMsg(uint32(btcnet), []byte("ping"), []byte{1, 2, 3, 4}, 4, true))
		case "unk":
			send(rawMsg(uint32(btcnet), []byte("wtxidrelay"), nil, 0, true))
		case "magic":
			send(encMsg(wire.NewMsgPing(9), otherNet))
		case "cksum":
			send(rawMsg(uint32(btcnet), []byte("ping"), []byte{1, 2, 3, 4, 5, 6, 7, 8}, 8, false))
		case "badcmd":
			send(rawMsg(uint32(btcnet), []byte{0xff, 0xfe, 0xfd}, nil, 0, true))
		case "extra":
			send(rawMsg(uint32(btcnet), []byte("inv"), []byte{0, 1, 2}, 3, true))
		case "mpl":
			send(rawMsg(uint32(btcnet), []byte("verack"), []byte{1, 2, 3}, 3, true))
		case "big":
			send(rawMsg(uint32(btcnet), []byte("inv"), nil, wire.MaxProtocolMessageLength+1, true))
		case "trunc":
			send(rawMsg(uint32(btcnet), []byte("verack"), nil, 0, true)[:10])
		default:
			return "bad-op"
		}
		if f[0] == "trunc" {
			break
		}
	}
	re.CloseWrite()

	done := make(chan struct{})
	go func() { p.WaitForDisconnect(); close(done) }()
	select {
	case <-done:
	case <-time.After(waitLimit):
		note += " note=no-disconnect"
	}
	if census && !waitCensusClean() {
		note += " note=goroutine-leak"
	}
	if rd.waitFor(func([]wmsg) bool { return false }) != "eof" {
		note += " note=conn-not-closed"
	}
	ms, junk := rd.snapshot()
	ws := make([]string, len(ms))
	for i, m := range ms {
		ws[i] = renderW(m, btcnet)
	}
	if junk && c.transport == "v2dg" && len(ms) == 0 {
		// the peer answered with its ElligatorSwift key and garbage
		ws = []string{"v2key"}
	} else if junk {
		note += " note=junk-written"
	}
	if c.transport != "" {
		note = fmt.Sprintf(" dg=%s%s", map[bool]string{true: "1", false: "0"}[p.ShouldDowngradeToV1()], note)
	}
	mu.Lock()
	defer mu.Unlock()
	b := func(x bool) string {
		if x {
			return "1"
		}
		return "0"
	}
	// Accessors are read twice, in different orders: the answers are values.
	pv1, wh1, wa1, wit1 := p.ProtocolVersion(), p.WantsHeaders(), p.WantsAddrV2(), p.IsWitnessEnabled()
	_ = p.StatsSnapshot()
	wit2, wa2, wh2, pv2 := p.IsWitnessEnabled(), p.WantsAddrV2(), p.WantsHeaders(), p.ProtocolVersion()
	if pv1 != pv2 || wh1 != wh2 || wa1 != wa2 || wit1 != wit2 || p.Inbound() != c.inbound || p.Connected() {
		note += " note=accessor-instability"
	}
	select {
	case <-p.Done():
	default:
		note += " note=done-open"
	}
	return fmt.Sprintf("rd=%s cb=%s w=%s pver=%d vk=%s va=%s ack=%s wh=%s wa=%s wit=%s%s", joinOrDash(rds), joinOrDash(cbs),
		joinOrDash(ws), pv1, b(p.VersionKnown()), b(p.VerAckReceived()), ackPver, b(wh1), b(wa1), b(wit1), note)
}

func joinOrDash(xs []string) string {
	if len(xs) == 0 {
		return "-"
	}
	return strings.Join(xs, ",")
}

func bytesReader(b []byte) *bytes.Reader { return bytes.NewReader(b) }
