package p18

import (
	"encoding/binary"
	"fmt"
	"net"
	"runtime"
	"sort"
	"strconv"
	"strings"
	"sync"
	"sync/atomic"
	"time"

	"github.com/btcsuite/btcd/chaincfg/v2"
	"github.com/btcsuite/btcd/chainhash/v2"
	"github.com/btcsuite/btcd/peer"
	"github.com/btcsuite/btcd/wire/v2"
	"verifharness/core"
)

// pipeCfg is one pipeline scenario: nProd concurrent QueueMessage callers with
// nMsg messages each (message id = producer*1000 + index, carried as the pong
// nonce id+1), racing a disconnect.
type pipeCfg struct {
	nProd, nMsg int
	// mode: 0 Disconnect() call, 1 connection loss (remote closes), 2 both,
	// 3 Disconnect() before any caller starts, 4 disconnect only after all
	// messages were written, 5 callers start while the handshake is still in
	// progress (Disconnect() at fireAt), 6 the same with a failing handshake.
	mode int
	// fireAt: the disconnect fires once this many QueueMessage calls returned.
	fireAt int
	// perturbation seed
	seed uint64
	// invCallers: concurrent QueueInventory callers (block inventory), each
	// queueing nMsg+invExtra items (more than outputInvChan holds).
	invCallers int
	invExtra   int
}

type pipeObs struct {
	written []int
	done    map[int]int
	before  []int
	after   []int // QueueMessage called after Disconnect() had returned
	leak    bool
	note    string
}

func perturb(r *core.Rand) {
	switch r.Intn(8) {
	case 0, 1:
		runtime.Gosched()
	case 2:
		time.Sleep(time.Duration(1+r.Intn(30)) * time.Microsecond)
	case 3:
		for i, n := 0, r.Intn(200); i < n; i++ {
			_ = i * i
		}
		runtime.Gosched()
	}
}

// runPipe runs the scenario on a real peer and returns what was observed.
func runPipe(c pipeCfg) pipeObs {
	obs := pipeObs{done: map[int]int{}}
	params := &chaincfg.MainNetParams
	btcnet := params.Net
	remoteAddr := &net.TCPAddr{IP: net.ParseIP("10.1.2.3"), Port: 18555}
	peerAddr := &net.TCPAddr{IP: net.ParseIP("10.9.9.9"), Port: 8333}

	ready := make(chan struct{})
	var readyOnce sync.Once
	cfg := &peer.Config{
		UserAgentName:    "verif",
		UserAgentVersion: "1.0",
		ChainParams:      params,
		ProtocolVersion:  wire.ProtocolVersion,
		TrickleInterval:  time.Hour,
		Listeners: peer.MessageListeners{
			OnVerAck: func(p *peer.Peer, m *wire.MsgVerAck) { readyOnce.Do(func() { close(ready) }) },
		},
	}
	p := peer.NewInboundPeer(cfg)
	pe, re := newPipe(peerAddr, remoteAddr)
	wr := core.NewRand(c.seed ^ 0xabcdef)
	var wmu sync.Mutex
	pe.onWrite = func(n int) {
		wmu.Lock()
		x := wr.Intn(6)
		wmu.Unlock()
		if x == 0 {
			runtime.Gosched()
		} else if x == 1 {
			time.Sleep(time.Duration(1+x) * time.Microsecond)
		}
	}
	rd := newReader(re)
	p.AssociateConnection(pe)

	me := wire.NewNetAddressIPPort(net.ParseIP("10.1.2.3"), 18555, 0)
	you := wire.NewNetAddressIPPort(net.ParseIP("10.9.9.9"), 8333, 0)
	nonce := nextNonce()
	var seq, hsStamp atomic.Int64
	handshake := func() {
		if c.mode == 6 {
			// The peer disconnects itself once it has read this message: stamp
			// "the disconnect request" before it can.
			hsStamp.Store(seq.Add(1))
			re.Write(encMsg(wire.NewMsgGetAddr(), btcnet))
			return
		}
		re.Write(encMsg(wire.NewMsgVersion(me, you, nonce, 0), btcnet))
		re.Write(encMsg(wire.NewMsgVerAck(), btcnet))
	}
	if c.mode < 5 {
		handshake()
		select {
		case <-ready:
		case <-time.After(waitLimit):
			obs.note = "handshake-timeout"
			p.Disconnect()
			return obs
		}
	} else {
		go func() {
			hr := core.NewRand(c.seed ^ 0x77)
			for i, n := 0, hr.Intn(4); i < n; i++ {
				perturb(hr)
			}
			handshake()
		}()
	}

	total := c.nProd * c.nMsg
	ids := make([]int, 0, total)
	doneCh := map[int]chan struct{}{}
	for i := 0; i < c.nProd; i++ {
		for j := 0; j < c.nMsg; j++ {
			id := i*1000 + j
			ids = append(ids, id)
			doneCh[id] = make(chan struct{}, 8)
		}
	}
	var returned atomic.Int64
	ret := make(map[int]*atomic.Int64, total)
	for _, id := range ids {
		ret[id] = new(atomic.Int64)
	}
	var dseq, dret atomic.Int64
	call := make(map[int]*atomic.Int64, total)
	for _, id := range ids {
		call[id] = new(atomic.Int64)
	}

	fire := func() {
		dseq.Store(seq.Add(1))
		switch c.mode {
		case 0, 3, 4, 5, 6:
			p.Disconnect()
			dret.Store(seq.Add(1))
		case 1:
			re.Close()
		case 2:
			go re.Close()
			p.Disconnect()
		}
	}
	if c.mode == 3 {
		fire()
	}

	var wg sync.WaitGroup
	start := make(chan struct{})
	for i := 0; i < c.nProd; i++ {
		wg.Add(1)
		go func(i int) {
			defer wg.Done()
			r := core.NewRand(c.seed*1315423911 + uint64(i))
			<-start
			for j := 0; j < c.nMsg; j++ {
				id := i*1000 + j
				perturb(r)
				call[id].Store(seq.Add(1))
				p.QueueMessage(wire.NewMsgPong(uint64(id)+1), doneCh[id])
				ret[id].Store(seq.Add(1))
				returned.Add(1)
			}
		}(i)
	}
	for k := 0; k < c.invCallers; k++ {
		wg.Add(1)
		go func(k int) {
			defer wg.Done()
			r := core.NewRand(c.seed*2654435761 + uint64(k))
			<-start
			for j := 0; j < c.nMsg+c.invExtra; j++ {
				perturb(r)
				var h chainhash.Hash
				binary.LittleEndian.PutUint64(h[:8], uint64(k*1000+j)+c.seed)
				p.QueueInventory(wire.NewInvVect(wire.InvTypeBlock, &h))
			}
		}(k)
	}
	fired := make(chan struct{})
	go func() {
		defer close(fired)
		if c.mode == 3 {
			return
		}
		r := core.NewRand(c.seed ^ 0x5151)
		<-start
		if c.mode == 4 {
			// everything queued and written first
			wg.Wait()
			rd.waitFor(func(ms []wmsg) bool {
				n := 0
				for _, m := range ms {
					if m.cmd == "pong" {
						n++
					}
				}
				return n >= total
			})
		} else {
			deadline := time.Now().Add(waitLimit)
			for returned.Load() < int64(c.fireAt) && time.Now().Before(deadline) {
				runtime.Gosched()
			}
			perturb(r)
		}
		fire()
	}()
	close(start)
	wgDone := make(chan struct{})
	go func() { wg.Wait(); close(wgDone) }()
	select {
	case <-wgDone:
	case <-time.After(waitLimit):
		obs.note += "callers-blocked "
	}
	select {
	case <-fired:
	case <-time.After(waitLimit):
		obs.note += "fire-blocked "
	}
	dch := make(chan struct{})
	go func() { p.WaitForDisconnect(); close(dch) }()
	select {
	case <-dch:
	case <-time.After(waitLimit):
		obs.note += "no-disconnect "
	}
	obs.leak = !waitCensusClean()
	re.Close()

	ms, _ := rd.snapshot()
	for _, m := range ms {
		if m.cmd == "pong" && len(m.payload) == 8 && m.sumOK && m.magic == uint32(btcnet) {
			obs.written = append(obs.written, int(binary.LittleEndian.Uint64(m.payload))-1)
		}
	}
	d := dseq.Load()
	if c.mode == 6 {
		// The peer disconnects itself when the handshake fails, possibly before
		// our own request: the disconnect request is no earlier than the
		// moment the remote wrote the offending message.
		if h := hsStamp.Load(); h != 0 && (d == 0 || h < d) {
			d = h
		}
	}
	for _, id := range ids {
		obs.done[id] = len(doneCh[id])
		if x := ret[id].Load(); x != 0 && d != 0 && x < d {
			obs.before = append(obs.before, id)
		}
		if x, dr := call[id].Load(), dret.Load(); x != 0 && dr != 0 && x > dr {
			obs.after = append(obs.after, id)
		}
	}
	return obs
}

func intsTok(xs []int) string {
	if len(xs) == 0 {
		return "-"
	}
	ss := make([]string, len(xs))
	for i, x := range xs {
		ss[i] = strconv.Itoa(x)
	}
	return strings.Join(ss, ",")
}

// pipeLine renders scenario + observation as one protocol line:
// C18 trace <nProd> <nMsg> <mode> w=<ids> lost=<ids with 0 signals> multi=<id:count> before=<ids> after=<ids> leak=<0|1> note=<..>
func pipeLine(c pipeCfg, o pipeObs) string {
	var lost []int
	var multi []string
	keys := make([]int, 0, len(o.done))
	for id := range o.done {
		keys = append(keys, id)
	}
	sort.Ints(keys)
	for _, id := range keys {
		switch n := o.done[id]; {
		case n == 0:
			lost = append(lost, id)
		case n > 1:
			multi = append(multi, fmt.Sprintf("%d:%d", id, n))
		}
	}
	mt := "-"
	if len(multi) > 0 {
		mt = strings.Join(multi, ",")
	}
	leak := "0"
	if o.leak {
		leak = "1"
	}
	note := strings.TrimSpace(o.note)
	if note == "" {
		note = "-"
	}
	note = strings.ReplaceAll(note, " ", "+")
	caps := fmt.Sprintf("%d,%d,%d,%d", tune("capOutputQueue"), tune("capSendQueue"), tune("capSendDoneQueue"), tune("capStallControl"))
	return fmt.Sprintf("C18 trace %d %d %d w=%s lost=%s multi=%s before=%s after=%s leak=%s note=%s caps=%s", c.nProd, c.nMsg, c.mode,
		intsTok(o.written), intsTok(lost), mt, intsTok(o.before), intsTok(o.after), leak, note, caps)
}

// runPrestart queues n messages (with done channels) on a peer whose
// connection is associated but whose handshake has not completed, then lets
// the handshake fail (fail=true: the remote's first message is not a version)
// or complete and be followed by a Disconnect; it reports how many completion
// signals arrived.
func runPrestart(inbound bool, n int, mode string) string {
	fail := mode == "fail"
	params := &chaincfg.MainNetParams
	btcnet := params.Net
	remoteAddr := &net.TCPAddr{IP: net.ParseIP("10.1.2.3"), Port: 18555}
	peerAddr := &net.TCPAddr{IP: net.ParseIP("10.9.9.9"), Port: 8333}
	cfg := &peer.Config{
		UserAgentName: "verif", UserAgentVersion: "1.0", ChainParams: params,
		ProtocolVersion: wire.ProtocolVersion, TrickleInterval: time.Hour,
	}
	var p *peer.Peer
	if inbound {
		p = peer.NewInboundPeer(cfg)
	} else {
		var err error
		if p, err = peer.NewOutboundPeer(cfg, remoteAddr.String()); err != nil {
			return "err:newpeer"
		}
	}
	pe, re := newPipe(peerAddr, remoteAddr)
	rd := newReader(re)
	p.AssociateConnection(pe)
	dones := make([]chan struct{}, n)
	for i := range dones {
		dones[i] = make(chan struct{}, 4)
		p.QueueMessage(wire.NewMsgPong(uint64(i)+1), dones[i])
	}
	if mode == "disc" {
		// Disconnect while the version/verack exchange has not even begun.
		p.Disconnect()
	} else if fail {
		re.Write(encMsg(wire.NewMsgGetAddr(), btcnet))
	} else {
		me := wire.NewNetAddressIPPort(net.ParseIP("10.1.2.3"), 18555, 0)
		you := wire.NewNetAddressIPPort(net.ParseIP("10.9.9.9"), 8333, 0)
		re.Write(encMsg(wire.NewMsgVersion(me, you, nextNonce(), 0), btcnet))
		re.Write(encMsg(wire.NewMsgVerAck(), btcnet))
		want := n
		rd.waitFor(func(ms []wmsg) bool {
			k := 0
			for _, m := range ms {
				if m.cmd == "pong" {
					k++
				}
			}
			return k >= want
		})
	}
	re.CloseWrite()
	note := ""
	dch := make(chan struct{})
	go func() { p.WaitForDisconnect(); close(dch) }()
	select {
	case <-dch:
	case <-time.After(waitLimit):
		note = " note=no-disconnect"
	}
	if !waitCensusClean() {
		note += " note=goroutine-leak"
	}
	got, multi := 0, 0
	for _, d := range dones {
		switch l := len(d); {
		case l == 1:
			got++
		case l > 1:
			multi++
		}
	}
	ms, _ := rd.snapshot()
	w := 0
	for _, m := range ms {
		if m.cmd == "pong" {
			w++
		}
	}
	return fmt.Sprintf("done=%d/%d multi=%d written=%d%s", got, n, multi, w, note)
}
