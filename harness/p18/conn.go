package p18

import (
	"io"
	"net"
	"sync"
	"time"
)

// stream is one direction of an in-memory duplex connection: an unbounded byte
// FIFO with a writer-side close (EOF after the buffered bytes) and a
// reader-side close (reads and writes fail at once).
type stream struct {
	mu      sync.Mutex
	cond    *sync.Cond
	buf     []byte
	wclosed bool // writer finished: reader sees EOF after draining
	rclosed bool // reader went away: writes fail, pending reads fail
}

func newStream() *stream {
	s := &stream{}
	s.cond = sync.NewCond(&s.mu)
	return s
}

func (s *stream) read(b []byte) (int, error) {
	s.mu.Lock()
	defer s.mu.Unlock()
	for {
		if s.rclosed {
			return 0, io.ErrClosedPipe
		}
		if len(s.buf) > 0 {
			n := copy(b, s.buf)
			s.buf = s.buf[n:]
			return n, nil
		}
		if s.wclosed {
			return 0, io.EOF
		}
		s.cond.Wait()
	}
}

func (s *stream) write(b []byte) (int, error) {
	s.mu.Lock()
	defer s.mu.Unlock()
	if s.wclosed || s.rclosed {
		return 0, io.ErrClosedPipe
	}
	s.buf = append(s.buf, b...)
	s.cond.Broadcast()
	return len(b), nil
}

func (s *stream) closeWrite() {
	s.mu.Lock()
	s.wclosed = true
	s.cond.Broadcast()
	s.mu.Unlock()
}

func (s *stream) closeRead() {
	s.mu.Lock()
	s.rclosed = true
	s.cond.Broadcast()
	s.mu.Unlock()
}

// end is one endpoint of the duplex connection (implements net.Conn).
type end struct {
	rd, wr        *stream
	local, remote net.Addr
	// onWrite, if set, is called with every chunk written by this endpoint
	// before it is appended (used for perturbation in the pipeline cases).
	onWrite func(n int)
	// afterWrite, if set, is called after the chunk is readable by the other
	// side and before Write returns.
	afterWrite func(n int)
}

func (e *end) Read(b []byte) (int, error) { return e.rd.read(b) }
func (e *end) Write(b []byte) (int, error) {
	if e.onWrite != nil {
		e.onWrite(len(b))
	}
	n, err := e.wr.write(b)
	if e.afterWrite != nil && err == nil {
		e.afterWrite(n)
	}
	return n, err
}

// Close closes both directions: the other side reads EOF after the buffered
// bytes and its writes fail.
func (e *end) Close() error {
	e.rd.closeRead()
	e.wr.closeWrite()
	return nil
}

// CloseWrite is a half close: the other side reads EOF after the buffered
// bytes but can still write.
func (e *end) CloseWrite() { e.wr.closeWrite() }

func (e *end) LocalAddr() net.Addr                { return e.local }
func (e *end) RemoteAddr() net.Addr               { return e.remote }
func (e *end) SetDeadline(t time.Time) error      { return nil }
func (e *end) SetReadDeadline(t time.Time) error  { return nil }
func (e *end) SetWriteDeadline(t time.Time) error { return nil }

// newPipe returns (peer side, remote side).
func newPipe(peerAddr, remoteAddr net.Addr) (*end, *end) {
	a, b := newStream(), newStream() // a: remote->peer, b: peer->remote
	return &end{rd: a, wr: b, local: peerAddr, remote: remoteAddr},
		&end{rd: b, wr: a, local: remoteAddr, remote: peerAddr}
}
