package p20

import (
	"bytes"
	"encoding/binary"
	"errors"
	"encoding/hex"
	"fmt"
	"math/bits"
	"sort"
	"strconv"
	"strings"
	"sync"

	"github.com/aead/siphash"

	"github.com/btcsuite/btcd/btcutil/v2/gcs"
	"github.com/btcsuite/btcd/btcutil/v2/gcs/builder"
	"github.com/btcsuite/btcd/chainhash/v2"
	"github.com/btcsuite/btcd/txscript/v2"
	"github.com/btcsuite/btcd/wire/v2"
	"verifharness/core"
)

// ---------------------------------------------------------------- facts

func factsGcs() []core.Fact {
	return []core.Fact{
		{Name: "defaultP", Value: int64(builder.DefaultP)},
		{Name: "defaultM", Value: int64(builder.DefaultM)},
		{Name: "keySize", Value: int64(gcs.KeySize)},
		{Name: "opReturn", Value: int64(txscript.OP_RETURN)},
		{Name: "hashSize", Value: int64(chainhash.HashSize)},
	}
}

// ---------------------------------------------------------------- parsing

func unhex(s string) []byte {
	if s == "-" {
		return []byte{}
	}
	b, err := hex.DecodeString(s)
	if err != nil {
		panic("bad hex")
	}
	return b
}

func hexTok(b []byte) string {
	if len(b) == 0 {
		return "-"
	}
	return hex.EncodeToString(b)
}

func u64(s string) uint64 {
	v, err := strconv.ParseUint(s, 10, 64)
	if err != nil {
		panic(err)
	}
	return v
}

// item syntax: hex bytes, "-" (empty), or "*<count>x<mult>+<add>" = LE64(i*mult+add), i < count
func parseItemsSep(s, sep string) [][]byte {
	out := [][]byte{}
	if s == "." {
		return out
	}
	for _, t := range strings.Split(s, sep) {
		if strings.HasPrefix(t, "*") {
			cx := strings.SplitN(t[1:], "x", 2)
			ma := strings.SplitN(cx[1], "+", 2)
			c, m, a := u64(cx[0]), u64(ma[0]), u64(ma[1])
			for i := uint64(0); i < c; i++ {
				var b [8]byte
				binary.LittleEndian.PutUint64(b[:], i*m+a)
				out = append(out, b[:])
			}
			continue
		}
		out = append(out, unhex(t))
	}
	return out
}

func parseItems(s string) [][]byte { return parseItemsSep(s, ",") }

func itemsTok(items [][]byte) string {
	if len(items) == 0 {
		return "."
	}
	ss := make([]string, len(items))
	for i, it := range items {
		ss[i] = hexTok(it)
	}
	return strings.Join(ss, ",")
}

func bit(b bool) string {
	if b {
		return "1"
	}
	return "0"
}

func key16(s string) [gcs.KeySize]byte {
	var k [gcs.KeySize]byte
	b := unhex(s)
	if len(b) != gcs.KeySize {
		panic("key size")
	}
	copy(k[:], b)
	return k
}

func gcsErr(err error) string {
	// only the exported sentinel errors are part of the observation; every other failure (short or
	// non-canonical N prefix, however it is worded or wrapped) is one class
	switch {
	case errors.Is(err, gcs.ErrNTooBig):
		return "err:ntoobig"
	case errors.Is(err, gcs.ErrPTooBig):
		return "err:ptoobig"
	}
	return "err:decode"
}

// ---------------------------------------------------------------- exec

func observe(f *gcs.Filter, key [gcs.KeySize]byte, qs [][]byte, built bool) string {
	var m strings.Builder
	for _, q := range qs {
		ok, err := f.Match(key, q)
		if err != nil {
			return "err:match"
		}
		m.WriteString(bit(ok))
	}
	ms := m.String()
	if ms == "" {
		ms = "-"
	}
	zip, err1 := f.ZipMatchAny(key, qs)
	hash, err2 := f.HashMatchAny(key, qs)
	any, err3 := f.MatchAny(key, qs)
	if err1 != nil || err2 != nil || err3 != nil {
		return "err:matchany"
	}
	if !built {
		// A deserialised stream may hold more (or fewer) values than its N says. Match and ZipMatchAny
		// stop after N values, HashMatchAny indexes the whole stream, MatchAny picks one of the two by a
		// heuristic: on such input only "what the zip finds the hash finds too" is observed, so that a
		// refactor of the over-read or of the heuristic raises no alarm.
		return fmt.Sprintf("m=%s zip=%s hz=%s", ms, bit(zip), bit(!zip || hash))
	}
	return fmt.Sprintf("m=%s zip=%s hash=%s any=%s", ms, bit(zip), bit(hash), bit(any))
}

func execGcs(f []string) string {
	switch f[0] {
	case "bld":
		return execBld(f[1], f[2])
	case "fr":
		v, nm := u64(f[1]), u64(f[2])
		return strconv.FormatUint(gcs.VerifFastReduction(v, nm>>32, uint64(uint32(nm))), 10)
	case "rd":
		p, _ := strconv.Atoi(f[1])
		max, _ := strconv.Atoi(f[3])
		vals, _ := gcs.VerifReadAll(uint8(p), unhex(f[2]), max)
		if len(vals) == 0 {
			return "-"
		}
		ss := make([]string, len(vals))
		for i, v := range vals {
			ss[i] = strconv.FormatUint(v, 10)
		}
		return strings.Join(ss, ",")
	case "gcs":
		p, _ := strconv.Atoi(f[1])
		m := u64(f[2])
		key := key16(f[3])
		items, qs := parseItems(f[4]), parseItems(f[5])
		itemsKeep, qsKeep := deepCopy(items), deepCopy(qs) // before the first call sees them
		flt, err := gcs.BuildGCSFilter(uint8(p), m, key, items)
		if err != nil {
			return gcsErr(err)
		}
		nb, _ := flt.NBytes()
		np, _ := flt.NPBytes()
		if len(np) > 10 {
			np = np[:10]
		}
		// round trip through the N-prefixed serialisation
		rt := false
		if g, err := gcs.FromNBytes(uint8(p), m, nb); err == nil {
			gb, _ := g.NBytes()
			gp, _ := g.NPBytes()
			fp, _ := flt.NPBytes()
			rt = g.N() == flt.N() && g.P() == flt.P() && string(gb) == string(nb) && string(gp) == string(fp) &&
				observe(g, key, qs, true) == observe(flt, key, qs, true)
		}
		obs := observe(flt, key, qs, true)
		// inputs are values: the same key / items / queries objects are reused for three more builds and
		// for four concurrent observers of the one filter; every call answers the same and the caller's
		// slices are untouched afterwards; nil and empty-but-non-nil containers are interchangeable
		inp := true
		{
			for k := 0; k < 3; k++ {
				g, err := gcs.BuildGCSFilter(uint8(p), m, key, items)
				if err != nil {
					inp = false
					break
				}
				gb, _ := g.NBytes()
				inp = inp && string(gb) == string(nb)
			}
			var wg sync.WaitGroup
			res := make([]string, 4)
			for k := range res {
				wg.Add(1)
				go func(k int) {
					defer wg.Done()
					defer func() {
						if recover() != nil {
							res[k] = "panic"
						}
					}()
					res[k] = observe(flt, key, qs, true)
				}(k)
			}
			wg.Wait()
			for _, o := range res {
				inp = inp && o == obs
			}
			inp = inp && sameItems(items, itemsKeep) && sameItems(qs, qsKeep)
			if len(items) == 0 {
				a, e1 := gcs.BuildGCSFilter(uint8(p), m, key, nil)
				b, e2 := gcs.BuildGCSFilter(uint8(p), m, key, [][]byte{})
				if e1 != nil || e2 != nil {
					inp = false
				} else {
					ab, _ := a.NBytes()
					bb, _ := b.NBytes()
					inp = inp && string(ab) == string(bb) && string(ab) == string(nb)
				}
			}
			if len(qs) == 0 {
				inp = inp && observe(flt, key, nil, true) == observe(flt, key, [][]byte{}, true)
			}
			raw0, _ := flt.Bytes()
			if len(raw0) == 0 {
				a, e1 := gcs.FromBytes(flt.N(), uint8(p), m, nil)
				b, e2 := gcs.FromBytes(flt.N(), uint8(p), m, []byte{})
				if e1 != nil || e2 != nil {
					inp = false
				} else {
					inp = inp && observe(a, key, qs, true) == observe(b, key, qs, true)
				}
			}
		}
		// secondary serialisations agree with the primary one
		raw, _ := flt.Bytes()
		pbFull, _ := flt.PBytes()
		npFull, _ := flt.NPBytes()
		vl := wire.VarIntSerializeSize(uint64(flt.N()))
		ser := len(nb) >= vl && string(nb[vl:]) == string(raw) &&
			len(pbFull) == 1+len(raw) && pbFull[0] == flt.P() && string(pbFull[1:]) == string(raw) &&
			string(npFull) == string(nb[:vl])+string([]byte{flt.P()})+string(raw) &&
			int(flt.N()) == len(items) && int(flt.P()) == p
		// results are values: scribbling over every returned slice, over the inputs and over the key,
		// and building another filter in between, must not change the first filter
		val := true
		for _, b := range [][]byte{raw, pbFull, npFull} {
			for i := range b {
				b[i] ^= 0xa5
			}
		}
		nbKeep := append([]byte{}, nb...)
		for i := range nb {
			nb[i] ^= 0x5a
		}
		qsCopy := make([][]byte, len(qs))
		for i, q := range qs {
			qsCopy[i] = append([]byte{}, q...)
		}
		for _, it := range items {
			for i := range it {
				it[i] ^= 0xff
			}
		}
		if other, err := gcs.BuildGCSFilter(uint8(p), m, key, items); err == nil {
			_, _ = other.HashMatchAny(key, items)
		}
		nb2, _ := flt.NBytes()
		val = string(nb2) == string(nbKeep) && observe(flt, key, qsCopy, true) == obs
		// FromBytes copies its argument
		d := append([]byte{}, nbKeep[vl:]...)
		if g, err := gcs.FromBytes(flt.N(), uint8(p), m, d); err == nil {
			for i := range d {
				d[i] = 0xff
			}
			gb, _ := g.NBytes()
			val = val && string(gb) == string(nbKeep)
		} else {
			val = false
		}
		nb = nbKeep
		return fmt.Sprintf("n=%d nbytes=%s pb=%s np=%s rt=%s ser=%s val=%s inp=%s %s", flt.N(), hex.EncodeToString(nb),
			hexTok([]byte{flt.P()}), hex.EncodeToString(np), bit(rt), bit(ser), bit(val), bit(inp), obs)
	case "from":
		p, _ := strconv.Atoi(f[1])
		m := u64(f[2])
		key := key16(f[3])
		n := u64(f[4])
		flt, err := gcs.FromBytes(uint32(n), uint8(p), m, unhex(f[5]))
		if err != nil {
			return gcsErr(err)
		}
		return observe(flt, key, parseItems(f[6]), false)
	case "fromn":
		p, _ := strconv.Atoi(f[1])
		m := u64(f[2])
		key := key16(f[3])
		flt, err := gcs.FromNBytes(uint8(p), m, unhex(f[4]))
		if err != nil {
			return gcsErr(err)
		}
		b, _ := flt.Bytes()
		return fmt.Sprintf("n=%d data=%s %s", flt.N(), hexTok(b), observe(flt, key, parseItems(f[5]), false))
	case "basic":
		raw := unhex(f[1])
		var h wire.BlockHeader
		if len(raw) != 80 || h.Deserialize(strings.NewReader(string(raw))) != nil {
			return "bad-op"
		}
		blk := wire.MsgBlock{Header: h}
		var wantAll [][]byte
		txToks := strings.Split(f[2], ";")
		if f[2] == "!" { // a block without transactions
			txToks = nil
		}
		for _, t := range txToks {
			tx := wire.NewMsgTx(2)
			for _, s := range parseItems(t) {
				tx.AddTxOut(wire.NewTxOut(1, s))
				if len(s) > 0 && s[0] != txscript.OP_RETURN {
					wantAll = append(wantAll, s)
				}
			}
			blk.AddTransaction(tx)
		}
		prevs := parseItems(f[3])
		for _, s := range prevs {
			if len(s) > 0 {
				wantAll = append(wantAll, s)
			}
		}
		var prev chainhash.Hash
		copy(prev[:], unhex(f[4]))
		var before bytes.Buffer // inputs as they are before the first call sees them
		_ = blk.Serialize(&before)
		prevKeep := deepCopy(prevs)
		flt, err := builder.BuildBasicFilter(&blk, prevs)
		if err != nil {
			return gcsErr(err)
		}
		nb, _ := flt.NBytes()
		fh, err1 := builder.GetFilterHash(flt)
		hd, err2 := builder.MakeHeaderForFilter(flt, prev)
		if err1 != nil || err2 != nil {
			return "err:hash"
		}
		bh := blk.BlockHash()
		key := builder.DeriveKey(&bh)
		all := true
		for _, s := range wantAll {
			ok, err := flt.Match(key, s)
			all = all && ok && err == nil
		}
		// inputs are values: the same block and prev-script slice serve three more sequential and four
		// concurrent builds; all answer the same filter and leave block and scripts untouched; a nil
		// and an empty prev-script slice are the same
		inp := true
		{
			same := func() bool {
				g, err := builder.BuildBasicFilter(&blk, prevs)
				if err != nil {
					return false
				}
				gb, _ := g.NBytes()
				return string(gb) == string(nb)
			}
			for k := 0; k < 3; k++ {
				inp = inp && same()
			}
			var wg sync.WaitGroup
			res := make([]bool, 4)
			for k := range res {
				wg.Add(1)
				go func(k int) {
					defer wg.Done()
					defer func() { _ = recover() }()
					res[k] = same()
				}(k)
			}
			wg.Wait()
			for _, ok := range res {
				inp = inp && ok
			}
			var after bytes.Buffer
			_ = blk.Serialize(&after)
			inp = inp && bytes.Equal(before.Bytes(), after.Bytes()) && sameItems(prevs, prevKeep)
			if len(prevs) == 0 {
				a, e1 := builder.BuildBasicFilter(&blk, nil)
				b, e2 := builder.BuildBasicFilter(&blk, [][]byte{})
				if e1 != nil || e2 != nil {
					inp = false
				} else {
					ab, _ := a.NBytes()
					bb, _ := b.NBytes()
					inp = inp && string(ab) == string(bb)
				}
			}
		}
		return fmt.Sprintf("n=%d nbytes=%s hash=%s header=%s all=%s inp=%s", flt.N(), hex.EncodeToString(nb),
			hex.EncodeToString(fh[:]), hex.EncodeToString(hd[:]), bit(all), bit(inp))
	}
	return "bad-op"
}

// ---------------------------------------------------------------- generation

func randItems(r *core.Rand, n int, maxLen int) [][]byte {
	out := make([][]byte, n)
	for i := range out {
		out[i] = r.Bytes(r.Intn(maxLen + 1))
	}
	return out
}

func genGcs(g *core.Gen) {
	r := g.R
	// fastReduction: edges and random
	edges := []uint64{0, 1, 2, 0xffffffff, 0x100000000, 0x100000001, 0x7fffffffffffffff, 0x8000000000000000,
		0xfffffffffffffffe, 0xffffffffffffffff, 0xffffffff00000000, 0x00000000ffffffff, 0xfffffffeffffffff, 784931, 784931 * 8000}
	for _, v := range edges {
		for _, nm := range edges {
			rec(g, "fr-edge", v != 0 && nm != 0, fmt.Sprintf("C20 fr %d %d", v, nm))
		}
	}
	for i := 0; i < g.N(2000, 200000); i++ {
		v, nm := r.U64(), r.U64()
		switch r.Intn(4) {
		case 0:
			nm >>= uint(r.Intn(64))
		case 1:
			v >>= uint(r.Intn(64))
		case 2:
			nm = uint64(r.Intn(30000)) * uint64(r.Pick(784931, 1<<20, 1<<32-1, 1, 1<<32))
		}
		rec(g, "fr-rand", v != 0 && nm != 0, fmt.Sprintf("C20 fr %d %d", v, nm))
	}
	// raw Golomb-Rice reads over arbitrary bytes
	for i := 0; i < g.N(1000, 50000); i++ {
		p := r.Intn(33) // P > 32 cannot reach the reader through the API
		d := r.Bytes(r.Intn(40))
		if r.Chance(1, 4) { // long unary runs
			for j := range d {
				if r.Chance(3, 4) {
					d[j] = 0xff
				}
			}
		}
		rec(g, "rd", len(d) > 0, fmt.Sprintf("C20 rd %d %s %d", p, hexTok(d), r.Intn(50)))
	}
	genGcsFilters(g)
	if moreGcs != nil {
		moreGcs(g)
	}
}

var moreGcs func(*core.Gen)

func keyTok(r *core.Rand) string {
	switch r.Intn(4) {
	case 0:
		return strings.Repeat("00", 16)
	case 1:
		return strings.Repeat("ff", 16)
	}
	return hex.EncodeToString(r.Bytes(16))
}

func genGcsFilters(g *core.Gen) {
	r := g.R
	ms := []uint64{0, 1, 2, 3, 784931, 1 << 19, 1 << 20, 1<<32 - 1, 1 << 32, 1<<32 + 1, 1 << 40, 1<<63 - 1, 1 << 63, 1<<64 - 1}
	for i := 0; i < g.N(500, 30000); i++ {
		p := 1 + r.Intn(32)
		switch r.Intn(12) {
		case 0:
			p = 0
		case 1:
			p = int(r.Pick(33, 34, 255))
		case 2, 3:
			p = 19
		}
		var m uint64
		switch r.Intn(4) {
		case 0:
			m = ms[r.Intn(len(ms))]
		case 1:
			m = 784931
		case 2:
			m = uint64(1) << uint(p%64)
		default:
			m = r.U64() >> uint(r.Intn(64))
		}
		n := r.Intn(40)
		if r.Chance(1, 8) {
			n = 0
		}
		if r.Chance(1, 10) {
			n = 100 + r.Intn(400)
		}
		// keep the unary part short (quotient ~ M / 2^P per element); BIP158 has M/2^P = 1.5
		capQ := uint64(r.Pick(1, 2, 4, 16, 16, 64))
		if n < 20 && r.Chance(1, 10) {
			capQ = 3000
		}
		if p < 64 && m>>uint(p) > capQ {
			m = (m & (capQ<<uint(p) - 1)) | 1
		}
		items := randItems(r, n, 40)
		if n > 1 && r.Chance(1, 3) { // duplicates
			for j := 0; j < 1+r.Intn(3); j++ {
				items[r.Intn(n)] = items[r.Intn(n)]
			}
		}
		// queries: members, non-members, empty
		nq := r.Intn(2*n + 3)
		if n >= 100 {
			nq = r.Intn(12)
		}
		if r.Chance(1, 6) {
			nq = 0
		}
		qs := make([][]byte, nq)
		for j := range qs {
			if n > 0 && r.Chance(1, 3) {
				qs[j] = items[r.Intn(n)]
			} else {
				qs[j] = r.Bytes(r.Intn(12))
			}
		}
		rec(g, "gcs", n > 0 && nq > 0, fmt.Sprintf("C20 gcs %d %d %s %s %s", p, m, keyTok(r), itemsTok(items), itemsTok(qs)))
	}
}

// ---- harness-side reference pieces used ONLY to construct interesting inputs (never to judge)

func refReduce(key [16]byte, item []byte, nm uint64) uint64 {
	hi, _ := bits.Mul64(siphash.Sum64(item, &key), nm)
	return hi
}

type bitw struct {
	b []byte
	n int
}

func (w *bitw) put(bit bool) {
	if w.n%8 == 0 {
		w.b = append(w.b, 0)
	}
	if bit {
		w.b[len(w.b)-1] |= 1 << uint(7-w.n%8)
	}
	w.n++
}

// golomb writes the deltas with parameter p, MSB first.
func golomb(p int, deltas []uint64) []byte {
	w := &bitw{}
	for _, d := range deltas {
		for q := d >> uint(p); q > 0; q-- {
			w.put(true)
		}
		w.put(false)
		for i := p - 1; i >= 0; i-- {
			w.put(d>>uint(i)&1 == 1)
		}
	}
	return w.b
}

func init() {
	moreGcs = func(g *core.Gen) { genGcsMore(g); genBld(g) }
}

func genGcsMore(g *core.Gen) {
	r := g.R
	// --- 32-bit collisions: N*M > 2^32 and a query whose reduced hash equals an element's modulo 2^32
	// but not in full (the shape of F-C20-a); found by computing reduced hashes directly.
	for i := 0; i < g.N(3, 40); i++ {
		n := 6000 + r.Intn(3000)
		var key [16]byte
		copy(key[:], r.Bytes(16))
		mult, add := r.U64()|1, r.U64()
		nm := uint64(n) * 784931
		low := make(map[uint32]uint64, n)
		for j := 0; j < n; j++ {
			var b [8]byte
			binary.LittleEndian.PutUint64(b[:], uint64(j)*mult+add)
			v := refReduce(key, b[:], nm)
			low[uint32(v)] = v
		}
		var qs [][]byte
		for try := 0; try < 3000000 && len(qs) < 2; try++ {
			q := make([]byte, 9)
			binary.LittleEndian.PutUint64(q, r.U64())
			q[8] = 0xfe
			v := refReduce(key, q, nm)
			if full, ok := low[uint32(v)]; ok && full != v {
				qs = append(qs, q)
			}
		}
		qs = append(qs, r.Bytes(5))
		rec(g, "gcs-collide32", len(qs) > 1, fmt.Sprintf("C20 gcs 19 784931 %s *%dx%d+%d %s",
			hex.EncodeToString(key[:]), n, mult, add, itemsTok(qs)))
	}
	// --- large sets
	for _, n := range []int{1000, 5000, 20000} {
		if n > 5000 && !g.Thorough() && r.Chance(1, 2) {
			continue
		}
		p, m := 19, uint64(784931)
		if r.Chance(1, 3) {
			p = 1 + r.Intn(32)
			m = uint64(1)<<uint(p) + uint64(r.Intn(1<<uint(p%16)))
		}
		mult, add := r.U64()|1, r.U64()
		var qs [][]byte
		for j := 0; j < 6; j++ {
			var b [8]byte
			binary.LittleEndian.PutUint64(b[:], uint64(r.Intn(2*n))*mult+add)
			qs = append(qs, append([]byte{}, b[:]...))
		}
		rec(g, "gcs-large", true, fmt.Sprintf("C20 gcs %d %d %s *%dx%d+%d %s", p, m, keyTok(r), n, mult, add, itemsTok(qs)))
	}
	// --- N at the CompactSize boundaries of the N prefix
	nb := []int{252, 253, 254}
	if g.Thorough() { // 65535 / 65536 items: a few seconds each in the Lean driver, thorough tier only;
		// the quick tier covers that boundary of the N prefix on the deserialising side (fromn-nprefix)
		nb = append(nb, 65535, 65536, 65537)
	}
	for _, pre := range []string{"fc", "fdfd00", "fdfe00", "fdffff", "fe00000100", "fe01000100", "fdfc00"} {
		rec(g, "fromn-nprefix", true, fmt.Sprintf("C20 fromn 19 784931 %s %s%s %s", keyTok(r), pre,
			hex.EncodeToString(r.Bytes(1+r.Intn(12))), itemsTok(randItems(r, 3, 6))))
	}
	for _, n := range nb {
		mult, add := r.U64()|1, r.U64()
		var b [8]byte
		binary.LittleEndian.PutUint64(b[:], uint64(r.Intn(n))*mult+add)
		rec(g, "gcs-nprefix", true, fmt.Sprintf("C20 gcs 19 784931 %s *%dx%d+%d %s,%s", keyTok(r), n, mult, add,
			hex.EncodeToString(b[:]), hexTok(r.Bytes(3))))
	}
	// --- MatchAny strategy threshold: len(queries) = N/2 - 1, N/2, N/2 + 1
	for i := 0; i < g.N(40, 1500); i++ {
		n := 2 + r.Intn(30)
		items := randItems(r, n, 10)
		for _, nq := range []int{n/2 - 1, n / 2, n/2 + 1} {
			if nq < 0 {
				continue
			}
			qs := make([][]byte, nq)
			for j := range qs {
				if r.Chance(1, 4) {
					qs[j] = items[r.Intn(n)]
				} else {
					qs[j] = r.Bytes(1 + r.Intn(6))
				}
			}
			rec(g, "gcs-anythreshold", nq > 0, fmt.Sprintf("C20 gcs 19 784931 %s %s %s", keyTok(r), itemsTok(items), itemsTok(qs)))
		}
	}
	// --- Golomb-Rice reads with quotients 62..66 and remainder widths around the byte/word paths of ReadBits
	for _, p := range []int{0, 1, 7, 8, 9, 15, 16, 17, 23, 24, 25, 31, 32} {
		for q := uint64(62); q <= 66; q++ {
			deltas := []uint64{q<<uint(p) | (r.U64() & (uint64(1)<<uint(p) - 1)), uint64(r.Intn(3)) << uint(p), q << uint(p)}
			d := golomb(p, deltas)
			if r.Chance(1, 3) && len(d) > 1 {
				d = d[:len(d)-1]
			}
			rec(g, "rd-q64", true, fmt.Sprintf("C20 rd %d %s %d", p, hexTok(d), 2+r.Intn(3)))
		}
	}
	// --- every value of the one-byte discriminators
	// first byte of an output script (OP_RETURN = 0x6a is the only excluded one), as 1-byte and 3-byte scripts
	for _, tail := range []string{"", "0102"} {
		txs := make([]string, 8)
		for t := range txs {
			outs := make([]string, 32)
			for k := range outs {
				outs[k] = fmt.Sprintf("%02x%s", t*32+k, tail)
			}
			txs[t] = strings.Join(outs, ",")
		}
		rec(g, "basic-firstbyte", true, fmt.Sprintf("C20 basic %s %s %s %s", hex.EncodeToString(r.Bytes(80)),
			strings.Join(txs, ";"), "6a,00,-,6a01", hex.EncodeToString(r.Bytes(32))))
	}
	// the excluded script at every position (first / middle / last output of first / middle / last tx, and
	// first / middle / last prev script)
	for pos := 0; pos < 9; pos++ {
		for _, bad := range []string{"-", "6a", "6a04deadbeef"} {
			var txs []string
			for t := 0; t < 3; t++ {
				outs := make([]string, 3)
				for k := range outs {
					outs[k] = hex.EncodeToString(r.Bytes(1 + r.Intn(20)))
					if outs[k][:2] == "6a" {
						outs[k] = "51" + outs[k][2:]
					}
					if t*3+k == pos {
						outs[k] = bad
					}
				}
				txs = append(txs, strings.Join(outs, ","))
			}
			prevs := []string{hex.EncodeToString(r.Bytes(5)), hex.EncodeToString(r.Bytes(6)), hex.EncodeToString(r.Bytes(7))}
			prevs[pos%3] = "-"
			rec(g, "basic-position", true, fmt.Sprintf("C20 basic %s %s %s %s", hex.EncodeToString(r.Bytes(80)),
				strings.Join(txs, ";"), strings.Join(prevs, ","), hex.EncodeToString(r.Bytes(32))))
		}
	}
	// first byte of the N prefix; P as a byte, through both constructors
	for b := 0; b < 256; b++ {
		rec(g, "fromn-firstbyte", true, fmt.Sprintf("C20 fromn 19 784931 %s %02x010000000000000000%s %s", keyTok(r), b,
			hex.EncodeToString(r.Bytes(r.Intn(6))), itemsTok(randItems(r, 2, 5))))
		m := uint64(1)
		if b <= 32 {
			m = uint64(1)<<uint(b) + 1
		}
		items := randItems(r, 1+r.Intn(3), 6)
		rec(g, "p-sweep", b <= 32, fmt.Sprintf("C20 gcs %d %d %s %s %s", b, m, keyTok(r), itemsTok(items), itemsTok(append(randItems(r, 1, 4), items[0]))))
		rec(g, "p-sweep", b <= 32, fmt.Sprintf("C20 from %d %d %s %d %s %s", b, m, keyTok(r), 1+r.Intn(3), hexTok(r.Bytes(1+r.Intn(12))), itemsTok(randItems(r, 2, 4))))
	}
	// --- N*M around 2^32 (small quotients need P near 32)
	for i := 0; i < g.N(60, 3000); i++ {
		n := 1 + r.Intn(60)
		target := uint64(1)<<32 + uint64(r.Range(-3, 3))*uint64(n)
		m := target / uint64(n)
		p := 26 + r.Intn(7)
		items := randItems(r, n, 12)
		nq := r.Intn(2*n + 2)
		qs := make([][]byte, nq)
		for j := range qs {
			if r.Chance(1, 3) {
				qs[j] = items[r.Intn(n)]
			} else {
				qs[j] = r.Bytes(r.Intn(12))
			}
		}
		rec(g, "gcs-nm32", nq > 0, fmt.Sprintf("C20 gcs %d %d %s %s %s", p, m, keyTok(r), itemsTok(items), itemsTok(qs)))
	}
	// --- deserialised filters: well-formed streams with a lying N, truncations, extensions, garbage
	for i := 0; i < g.N(500, 30000); i++ {
		p := r.Intn(33)
		if r.Chance(1, 12) {
			p = 33 + r.Intn(223)
		}
		var key [16]byte
		copy(key[:], r.Bytes(16))
		nItems := r.Intn(25)
		m := uint64(r.Pick(784931, 1<<20, 1, 3, 1<<32)) >> uint(r.Intn(3))
		if pp := p; pp <= 32 && m>>uint(pp) > 64 {
			m = uint64(1)<<uint(pp) + 1
		}
		items := randItems(r, nItems, 10)
		nm := uint64(nItems) * m
		vals := make([]uint64, nItems)
		for j, it := range items {
			vals[j] = refReduce(key, it, nm)
		}
		sort.Slice(vals, func(a, b int) bool { return vals[a] < vals[b] })
		deltas := make([]uint64, nItems)
		last := uint64(0)
		for j, v := range vals {
			deltas[j] = v - last
			last = v
		}
		pe := p
		if pe > 32 {
			pe = 19
		}
		data := golomb(pe, deltas)
		n := uint64(nItems)
		switch r.Intn(8) {
		case 0: // N lies low / high (nm then differs from the builder's too)
			n = uint64(r.Intn(nItems + 3))
		case 1:
			n = uint64(nItems + 1 + r.Intn(5))
		case 2: // truncate
			if len(data) > 0 {
				data = data[:r.Intn(len(data))]
			}
		case 3: // extend with garbage / zeros / ones
			ext := r.Bytes(1 + r.Intn(6))
			if r.Bool() {
				for k := range ext {
					ext[k] = byte(r.Pick(0, 0xff))
				}
			}
			data = append(data, ext...)
		case 4: // flip a bit
			if len(data) > 0 {
				data[r.Intn(len(data))] ^= 1 << uint(r.Intn(8))
			}
		case 5: // pure garbage
			data = r.Bytes(r.Intn(30))
		}
		// keep M consistent with the N the filter will use when N is honest
		nq := r.Intn(8)
		if r.Chance(1, 4) { // enough queries to select the hash strategy in MatchAny
			nq = int(n)/2 + r.Intn(4)
			if nq > 40 {
				nq = 40
			}
		}
		qs := make([][]byte, nq)
		for j := range qs {
			if nItems > 0 && r.Chance(1, 2) {
				qs[j] = items[r.Intn(nItems)]
			} else {
				qs[j] = r.Bytes(r.Intn(10))
			}
		}
		if r.Bool() {
			rec(g, "from", len(data) > 0, fmt.Sprintf("C20 from %d %d %s %d %s %s", p, m, hex.EncodeToString(key[:]), n, hexTok(data), itemsTok(qs)))
		} else {
			var pre []byte
			switch r.Intn(10) {
			case 0: // non-canonical / big varints
				pre = [][]byte{{0xfd, 0x01, 0x00}, {0xfe, 0x01, 0x00, 0x00, 0x00}, {0xff, 1, 0, 0, 0, 0, 0, 0, 0},
					{0xff, 0, 0, 0, 0, 1, 0, 0, 0}, {0xfe, 0x00, 0x00, 0x01, 0x00}, {0xfd}, {0xfe, 1, 2}, {0xff, 1, 2, 3}, {}}[r.Intn(9)]
				if l := len(pre); !(l > 0 && ((pre[0] == 0xfd && l == 3) || (pre[0] == 0xfe && l == 5) || (pre[0] == 0xff && l == 9))) {
					// incomplete prefix: nothing may follow, or the following bytes would be read as a
					// huge N (HashMatchAny pre-sizes its map by N: gigabytes for N near 2^32)
					data = nil
				}
			case 1:
				pre = []byte{0xfd, byte(n), byte(n >> 8)}
				if n < 0xfd {
					pre = []byte{0xfd, 0xfd + byte(r.Intn(3)), 0}
				}
			default:
				pre = []byte{byte(n)} // n < 0xfd here
			}
			rec(g, "fromn", len(data) > 0, fmt.Sprintf("C20 fromn %d %d %s %s %s", p, m, hex.EncodeToString(key[:]),
				hexTok(append(pre, data...)), itemsTok(qs)))
		}
	}
	// --- BIP158 basic filters over synthetic blocks
	for i := 0; i < g.N(250, 8000); i++ {
		hdr := r.Bytes(80)
		ntx := 1 + r.Intn(6)
		if r.Chance(1, 10) {
			ntx = 20 + r.Intn(60)
		}
		var pool [][]byte // scripts to repeat
		script := func() []byte {
			switch r.Intn(9) {
			case 0:
				return []byte{}
			case 1:
				return append([]byte{0x6a}, r.Bytes(r.Intn(20))...)
			case 2:
				return []byte{0x6a}
			case 3:
				if len(pool) > 0 {
					return pool[r.Intn(len(pool))]
				}
			case 4:
				return append([]byte{byte(r.Pick(0x69, 0x6b, 0x00, 0x51))}, r.Bytes(r.Intn(5))...)
			}
			s := r.Bytes(1 + r.Intn(34))
			pool = append(pool, s)
			return s
		}
		if r.Chance(1, 25) {
			ntx = 0
		}
		txs := make([]string, ntx)
		for t := range txs {
			no := r.Intn(4)
			if r.Chance(1, 8) {
				no = 0
			}
			outs := make([][]byte, no)
			for k := range outs {
				outs[k] = script()
			}
			txs[t] = itemsTok(outs)
		}
		np := r.Intn(6)
		prevs := make([][]byte, np)
		for k := range prevs {
			prevs[k] = script()
		}
		prevHdr := r.Bytes(32)
		if r.Chance(1, 5) {
			prevHdr = make([]byte, 32)
		}
		txsTok := strings.Join(txs, ";")
		if ntx == 0 {
			txsTok = "!"
		}
		rec(g, "basic", true, fmt.Sprintf("C20 basic %s %s %s %s", hex.EncodeToString(hdr), txsTok,
			itemsTok(prevs), hex.EncodeToString(prevHdr)))
	}
}

// ---------------------------------------------------------------- GCSBuilder API ("bld" op)

func hash32(s string) *chainhash.Hash {
	b := unhex(s)
	if len(b) != 32 {
		panic("hash size")
	}
	var h chainhash.Hash
	copy(h[:], b)
	return &h
}

func bldErr(err error) string {
	// sentinel errors by identity; "p/m value is not set" by being any other error (its wording is free)
	switch {
	case errors.Is(err, gcs.ErrPTooBig):
		return "err:ptoobig"
	case errors.Is(err, gcs.ErrNTooBig):
		return "err:ntoobig"
	}
	return "err:notset"
}

func u8(s string) uint8 {
	v, err := strconv.ParseUint(s, 10, 8)
	if err != nil {
		panic(err)
	}
	return uint8(v)
}

func u32(s string) uint32 {
	v, err := strconv.ParseUint(s, 10, 32)
	if err != nil {
		panic(err)
	}
	return uint32(v)
}

func execBld(ctor, ops string) string {
	c := strings.Split(ctor, ":")
	var b *builder.GCSBuilder
	random := false
	switch c[0] {
	case "zero":
		b = &builder.GCSBuilder{}
	case "kpnm":
		b = builder.WithKeyPNM(key16(c[1]), u8(c[2]), u32(c[3]), u64(c[4]))
	case "kpm":
		b = builder.WithKeyPM(key16(c[1]), u8(c[2]), u64(c[3]))
	case "k":
		b = builder.WithKey(key16(c[1]))
	case "hpnm":
		b = builder.WithKeyHashPNM(hash32(c[1]), u8(c[2]), u32(c[3]), u64(c[4]))
	case "hpm":
		b = builder.WithKeyHashPM(hash32(c[1]), u8(c[2]), u64(c[3]))
	case "h":
		b = builder.WithKeyHash(hash32(c[1]))
	case "rpnm":
		b, random = builder.WithRandomKeyPNM(u8(c[1]), u32(c[2]), u64(c[3])), true
	case "rpm":
		b, random = builder.WithRandomKeyPM(u8(c[1]), u64(c[2])), true
	case "r":
		b, random = builder.WithRandomKey(), true
	default:
		return "bad-op"
	}
	// a builder with a random key gets a twin built by the explicit-key constructor with the key read
	// back through Key() and the same parameters; every op is applied to both and Build() must agree
	var twin *builder.GCSBuilder
	if random {
		k, _ := b.Key() // zero key if the constructor left a sticky error (the twin then has it too)
		switch c[0] {
		case "rpnm":
			twin = builder.WithKeyPNM(k, u8(c[1]), u32(c[2]), u64(c[3]))
		case "rpm":
			twin = builder.WithKeyPM(k, u8(c[1]), u64(c[2]))
		default:
			twin = builder.WithKey(k)
		}
	}
	both := func(f func(x *builder.GCSBuilder)) {
		f(b)
		if twin != nil {
			f(twin)
		}
	}
	var obs []string
	var entries [][]byte // everything added so far (for the random-key self-check)
	if ops != "." {
		for _, op := range strings.Split(ops, ";") {
			p := strings.Split(op, ":")
			switch p[0] {
			case "sk":
				both(func(x *builder.GCSBuilder) { x.SetKey(key16(p[1])) })
				if _, err := b.Key(); err == nil {
					random = false
				}
			case "skh":
				both(func(x *builder.GCSBuilder) { x.SetKeyFromHash(hash32(p[1])) })
				if _, err := b.Key(); err == nil {
					random = false
				}
			case "sp":
				both(func(x *builder.GCSBuilder) { x.SetP(u8(p[1])) })
			case "sm":
				both(func(x *builder.GCSBuilder) { x.SetM(u64(p[1])) })
			case "pre":
				both(func(x *builder.GCSBuilder) { x.Preallocate(u32(p[1])) })
			case "e":
				d := unhex(p[1])
				both(func(x *builder.GCSBuilder) { x.AddEntry(d) })
				entries = append(entries, d)
			case "es":
				ds := parseItems(p[1])
				both(func(x *builder.GCSBuilder) { x.AddEntries(ds) })
				entries = append(entries, ds...)
			case "w":
				ds := parseItems(p[1])
				both(func(x *builder.GCSBuilder) { x.AddWitness(wire.TxWitness(ds)) })
				entries = append(entries, ds...)
			case "esn": // AddEntries(nil)
				both(func(x *builder.GCSBuilder) { x.AddEntries(nil) })
			case "wn": // AddWitness(nil)
				both(func(x *builder.GCSBuilder) { x.AddWitness(nil) })
			case "en": // AddEntry(nil): the empty entry
				both(func(x *builder.GCSBuilder) { x.AddEntry(nil) })
				entries = append(entries, []byte{})
			case "ah":
				h := hash32(p[1])
				both(func(x *builder.GCSBuilder) { x.AddHash(h) })
				entries = append(entries, h.CloneBytes())
			case "key":
				k, err := b.Key()
				switch {
				case err != nil:
					obs = append(obs, bldErr(err))
				case random:
					obs = append(obs, "key=R")
				default:
					obs = append(obs, "key="+hex.EncodeToString(k[:]))
				}
			case "build":
				f, err := b.Build()
				if err != nil {
					obs = append(obs, bldErr(err))
					continue
				}
				nb, _ := f.NBytes()
				if !random {
					obs = append(obs, fmt.Sprintf("build=%d/%s", f.N(), hex.EncodeToString(nb)))
					continue
				}
				// unknown key: under the key Key() reports the filter must match everything that was
				// added, and N must be the number of distinct entries
				k, _ := b.Key()
				ok := true
				set := map[string]struct{}{}
				var uniq [][]byte
				for _, e := range entries {
					if _, dup := set[string(e)]; !dup {
						set[string(e)] = struct{}{}
						uniq = append(uniq, e)
					}
					m, err := f.Match(k, e)
					ok = ok && m && err == nil
				}
				ok = ok && int(f.N()) == len(uniq)
				if g, err := twin.Build(); err == nil {
					gb, _ := g.NBytes()
					ok = ok && string(gb) == string(nb) && g.P() == f.P()
				} else {
					ok = false
				}
				obs = append(obs, fmt.Sprintf("build=%d/R%s", f.N(), bit(ok)))
			default:
				return "bad-op"
			}
		}
	}
	if len(obs) == 0 {
		return "-"
	}
	return strings.Join(obs, " ")
}

func genBld(g *core.Gen) {
	r := g.R
	pTok := func() int64 { return r.Pick(0, 1, 19, 19, 20, 31, 32, 33, 255, int64(1+r.Intn(32))) }
	mTok := func() uint64 {
		switch r.Intn(6) {
		case 0:
			return uint64(r.Pick(0, 1, 1<<32-2, 1<<32-1, 1<<32, 1<<32+1, 1<<40))
		case 1:
			return 784931
		}
		return 1 + uint64(r.Intn(1<<20))
	}
	for i := 0; i < g.N(400, 15000); i++ {
		p, m := pTok(), mTok()
		// keep the unary part short
		if p <= 32 && m <= 1<<32-1 && m>>uint(p) > 64 && !r.Chance(1, 20) {
			m = uint64(1)<<uint(p) + uint64(r.Intn(1000))
			if m > 1<<32-1 {
				m = 1<<32 - 1
			}
		}
		if p <= 32 && m <= 1<<32-1 && m>>uint(p) > 4096 {
			m = 784931
			p = 19
		}
		key := hex.EncodeToString(r.Bytes(16))
		hash := hex.EncodeToString(r.Bytes(32))
		n := r.Intn(40)
		var ctor string
		switch r.Intn(11) {
		case 0:
			ctor = "zero"
		case 1:
			ctor = fmt.Sprintf("kpnm:%s:%d:%d:%d", key, p, n, m)
		case 2:
			ctor = fmt.Sprintf("kpm:%s:%d:%d", key, p, m)
		case 3:
			ctor = "k:" + key
		case 4:
			ctor = fmt.Sprintf("hpnm:%s:%d:%d:%d", hash, p, n, m)
		case 5:
			ctor = fmt.Sprintf("hpm:%s:%d:%d", hash, p, m)
		case 6:
			ctor = "h:" + hash
		case 7:
			ctor = fmt.Sprintf("rpnm:%d:%d:%d", p, n, m)
		case 8:
			ctor = fmt.Sprintf("rpm:%d:%d", p, m)
		case 9:
			ctor = "r"
		default:
			ctor = fmt.Sprintf("kpnm:%s:%d:%d:%d", key, 19, n, 784931)
		}
		var pool [][]byte
		item := func() []byte {
			if len(pool) > 0 && r.Chance(1, 3) {
				return pool[r.Intn(len(pool))]
			}
			d := r.Bytes(r.Intn(20))
			pool = append(pool, d)
			return d
		}
		var ops []string
		if ctor == "zero" && r.Chance(2, 3) {
			ops = append(ops, fmt.Sprintf("sp:%d", 19), fmt.Sprintf("sm:%d", 784931))
			if r.Chance(2, 3) {
				ops = append(ops, "pre:0")
			}
		}
		for j := 0; j < 1+r.Intn(10); j++ {
			switch r.Intn(14) {
			case 0:
				ops = append(ops, "sk:"+hex.EncodeToString(r.Bytes(16)))
			case 1:
				ops = append(ops, "skh:"+hex.EncodeToString(r.Bytes(32)))
			case 2:
				ops = append(ops, fmt.Sprintf("sp:%d", r.Pick(19, 20, 32, 33, 0, 1)))
			case 3:
				ops = append(ops, fmt.Sprintf("sm:%d", uint64(r.Pick(784931, 1<<20, 1<<32-1, 1<<32, 0))))
			case 4:
				ops = append(ops, fmt.Sprintf("pre:%d", r.Intn(100)))
			case 5, 6:
				ops = append(ops, "e:"+hexTok(item()))
			case 7:
				k := 1 + r.Intn(4)
				ds := make([][]byte, k)
				for x := range ds {
					ds[x] = item()
				}
				ops = append(ops, "es:"+itemsTok(ds))
			case 8:
				k := 1 + r.Intn(3)
				ds := make([][]byte, k)
				for x := range ds {
					ds[x] = item()
				}
				ops = append(ops, "w:"+itemsTok(ds))
			case 9:
				ops = append(ops, "ah:"+hex.EncodeToString(r.Bytes(32)))
			case 10:
				ops = append(ops, "key")
			case 11:
				ops = append(ops, []string{"esn", "wn", "en", "es:.", "w:.", "e:-"}[r.Intn(6)])
			default:
				ops = append(ops, "build")
			}
		}
		ops = append(ops, "key", "build")
		// simulate (p, m, err) and put a SetP in front of every Build whose quotient M/2^P would be large
		// (a unary run per element): both sides would only burn time there
		curP, curM, bad := uint64(0), uint64(0), false
		set := func(c []string) {
			switch c[0] {
			case "kpnm", "hpnm":
				pp, _ := strconv.ParseUint(c[2], 10, 64)
				mm, _ := strconv.ParseUint(c[4], 10, 64)
				curP, curM = pp, mm
			case "kpm", "hpm":
				pp, _ := strconv.ParseUint(c[2], 10, 64)
				mm, _ := strconv.ParseUint(c[3], 10, 64)
				curP, curM = pp, mm
			case "rpnm":
				pp, _ := strconv.ParseUint(c[1], 10, 64)
				mm, _ := strconv.ParseUint(c[3], 10, 64)
				curP, curM = pp, mm
			case "rpm":
				pp, _ := strconv.ParseUint(c[1], 10, 64)
				mm, _ := strconv.ParseUint(c[2], 10, 64)
				curP, curM = pp, mm
			case "k", "h", "r":
				curP, curM = 19, 784931
			}
		}
		set(strings.Split(ctor, ":"))
		if curP > 32 {
			bad, curP = true, 0
			curM = 0
		} else if curM > 1<<32-1 {
			bad, curM = true, 0
		}
		var fixed []string
		for _, op := range ops {
			c := strings.Split(op, ":")
			switch c[0] {
			case "sp":
				v, _ := strconv.ParseUint(c[1], 10, 64)
				if !bad {
					if v > 32 {
						bad = true
					} else {
						curP = v
					}
				}
			case "sm":
				v, _ := strconv.ParseUint(c[1], 10, 64)
				if !bad {
					if v > 1<<32-1 {
						bad = true
					} else {
						curM = v
					}
				}
			case "build":
				if !bad && curP > 0 && curM>>curP > 256 {
					np := uint64(bits.Len64(curM)) - 6
					if np > 32 {
						np = 32
					}
					fixed = append(fixed, fmt.Sprintf("sp:%d", np))
					curP = np
				}
			}
			fixed = append(fixed, op)
		}
		line := fmt.Sprintf("C20 bld %s %s", ctor, strings.Join(fixed, ";"))
		rec(g, "bld", true, line)
	}
}

func deepCopy(xs [][]byte) [][]byte {
	if xs == nil {
		return nil
	}
	out := make([][]byte, len(xs))
	for i, x := range xs {
		out[i] = append([]byte{}, x...)
	}
	return out
}

func sameItems(a, b [][]byte) bool {
	if len(a) != len(b) {
		return false
	}
	for i := range a {
		if string(a[i]) != string(b[i]) {
			return false
		}
	}
	return true
}
