// Package p20: correspondence for C20 (GCS / BIP158 filters, bloom filters, merkle blocks).
// p20.go dispatches; gcs.go, bloom.go and pmt.go hold the three parts.
package p20

import (
	"os"
	"regexp"
	"strings"
	"sync"
	"syscall"
	"time"

	"verifharness/core"
)

type P struct{}

// A corrupted Golomb delta (e.g. from a data race in a seeded change) makes the code under test write
// unary runs of astronomic length; cap the address space so that the harness dies with an
// out-of-memory error (reported by ./check as a broken correspondence) instead of taking the machine down.
func init() {
	lim := syscall.Rlimit{Cur: 24 << 30, Max: 24 << 30}
	_ = syscall.Setrlimit(syscall.RLIMIT_AS, &lim)
}

func (P) ID() string { return "C20" }

func (P) Facts() []core.Fact {
	var fs []core.Fact
	fs = append(fs, factsGcs()...)
	fs = append(fs, factsBloom()...)
	fs = append(fs, factsPmt()...)
	return fs
}

// VERIF_C20_DUMP=<file> appends every executed protocol line to <file> (debugging aid).
var dumpFile = func() *os.File {
	if p := os.Getenv("VERIF_C20_DUMP"); p != "" {
		f, _ := os.OpenFile(p, os.O_APPEND|os.O_CREATE|os.O_WRONLY, 0o644)
		return f
	}
	return nil
}()

func (P) Exec(line string) string {
	if dumpFile != nil {
		dumpFile.WriteString(line + "\n")
	}
	f := strings.Fields(line)
	if len(f) < 2 || f[0] != "C20" {
		return "bad-op"
	}
	if f[1] == "par" {
		return execPar(line)
	}
	return watchdog(line, f)
}

// execWatchdog bounds one case: the slowest case of the unchanged tree takes seconds even on a heavily
// loaded machine; a (mutated) tree that loops for ever answers "timeout" for that line after ten minutes
// instead of hanging the check.
const execWatchdog = 10 * time.Minute

func watchdog(line string, f []string) string {
	type res struct {
		out      string
		panicked any
	}
	ch := make(chan res, 1)
	go func() {
		defer func() {
			if r := recover(); r != nil {
				ch <- res{panicked: r}
			}
		}()
		ch <- res{out: execInner(f)}
	}()
	select {
	case r := <-ch:
		if r.panicked != nil {
			panic(r.panicked) // core turns it into the answer "panic"
		}
		return r.out
	case <-time.After(execWatchdog):
		return "timeout"
	}
}

func execInner(f []string) string {
	if f[1] == "genpanic" {
		return "generator-panic" // the model answers bad-op: a crashed generator is a visible mismatch
	}
	if f[1] == "cfidx" && len(f) == 5 {
		return execCfidx(f[1:])
	}
	switch {
	case strings.HasPrefix(f[1], "bloom"):
		return execBloom(f[1:])
	case strings.HasPrefix(f[1], "pmt"):
		return execPmt(f[1:])
	}
	return execGcs(f[1:])
}

// safeGen keeps a generator that calls into the (possibly mutated) tree from taking the harness down:
// the cases emitted so far stay, the rest of that generator is skipped.
func safeGen(g *core.Gen, name string, gen func(*core.Gen)) {
	defer func() {
		if r := recover(); r != nil {
			g.Case("generator-panic", false, "C20 genpanic "+name)
		}
	}()
	gen(g)
}

func (P) Generate(g *core.Gen) {
	safeGen(g, "gcs", genGcs)
	safeGen(g, "bloom", genBloom)
	safeGen(g, "pmt", genPmt)
	safeGen(g, "cfidx", genCfidx)
	safeGen(g, "par", genPar)
}

// ---- hidden shared state: independent cases run concurrently
//
//	C20 par <sub-line> ;; <sub-line> ;; ...
//
// every sub-line is a complete C20 line; each runs in its own goroutine, all released together, each
// repeated parReps times so that the executions overlap; a goroutine answers "unstable" when its
// repetitions disagree. The Lean driver answers the sub-lines one after the other.

const parReps = 12

var parPool = map[string][]string{}

var bigSeq = regexp.MustCompile(`\*\d{4,}x`)

func parFamily(line string) string {
	f := strings.Fields(line)
	if len(f) < 2 {
		return "other"
	}
	switch {
	case strings.HasPrefix(f[1], "bloom"):
		return "bloom"
	case f[1] == "pmt":
		return "pmt"
	case f[1] == "bld", f[1] == "cfidx", f[1] == "basic":
		return f[1]
	case f[1] == "gcs", f[1] == "from", f[1] == "fromn":
		return "gcs"
	}
	return "other"
}

func rec(g *core.Gen, class string, nontrivial bool, line string) {
	g.Case(class, nontrivial, line)
	fam := parFamily(line)
	if fam == "cfidx" && len(parPool[fam]) >= 12 {
		return // a database per repetition is slow: keep only a few of these in the pool
	}
	if bigSeq.MatchString(line) {
		return // thousands of items: too slow to repeat a hundred times
	}
	if fam == "pmt" && len(line) < 60 {
		return // trees of fewer than ~40 leaves finish too quickly to overlap
	}
	if len(line) < 6000 && !strings.Contains(line, " ;; ") {
		parPool[fam] = append(parPool[fam], line)
	}
}

func execOne(sub string) (out string) {
	defer func() {
		if r := recover(); r != nil {
			out = "panic"
		}
	}()
	return P{}.Exec(sub)
}

func execPar(line string) string {
	subs := strings.Split(strings.TrimPrefix(line, "C20 par "), " ;; ")
	outs := make([]string, len(subs))
	// sequential baseline: how long one pass over the sub-lines takes on this machine right now; the
	// concurrent phase may take a large multiple of it (never less than two minutes) before it is given up,
	// so that a slow, loaded machine cannot turn the unchanged tree into a "timeout"
	t0 := time.Now()
	for _, sub := range subs {
		_ = execOne(sub)
	}
	parTimeout := 2*time.Minute + 100*time.Duration(parReps)*time.Since(t0)
	var start, done sync.WaitGroup
	var mu sync.Mutex
	start.Add(1)
	for i := range subs {
		done.Add(1)
		go func(i int) {
			defer done.Done()
			start.Wait()
			first := execOne(subs[i])
			reps := parReps
			if strings.HasPrefix(subs[i], "C20 cfidx") {
				reps = 2 // one database per repetition
			}
			for k := 1; k < reps; k++ {
				if execOne(subs[i]) != first {
					first = "unstable"
					break
				}
			}
			mu.Lock()
			outs[i] = first
			mu.Unlock()
		}(i)
	}
	start.Done()
	// a data race can send an instance into an astronomically long loop (e.g. a corrupted delta written
	// in unary): do not wait for ever, answer "timeout" for whatever has not finished
	fin := make(chan struct{})
	go func() { done.Wait(); close(fin) }()
	select {
	case <-fin:
		return strings.Join(outs, " ;; ")
	case <-time.After(parTimeout):
	}
	mu.Lock()
	defer mu.Unlock()
	res := make([]string, len(outs))
	for i, o := range outs {
		if o == "" {
			o = "timeout"
		}
		res[i] = o
	}
	return strings.Join(res, " ;; ")
}

func genPar(g *core.Gen) {
	r := g.R
	fams := []string{"gcs", "bloom", "pmt", "basic", "bld", "cfidx", "other"}
	var all []string
	for _, f := range fams {
		all = append(all, parPool[f]...)
	}
	if len(all) == 0 {
		return
	}
	for i := 0; i < g.N(50, 2000); i++ {
		k := 8 + r.Intn(5)
		pool := all
		// most lines are homogeneous: instances of ONE component running side by side are what a
		// package-level buffer, cache or scratch slice would hurt
		fam := fams[i%len(fams)]
		if fam == "cfidx" && i >= 3*len(fams) {
			fam = "pmt" // three lines of concurrent databases are enough
		}
		if i%10 != 9 && fam != "other" && len(parPool[fam]) > 0 {
			pool = parPool[fam]
			if fam == "cfidx" {
				k = 8
			}
		}
		subs := make([]string, k)
		for j := range subs {
			subs[j] = pool[r.Intn(len(pool))]
		}
		g.Case("par", true, "C20 par "+strings.Join(subs, " ;; "))
	}
	parPool = map[string][]string{}
}
