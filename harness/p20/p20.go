// Package p20: correspondence for C20 (GCS / BIP158 filters, bloom filters, merkle blocks).
// p20.go dispatches; gcs.go, bloom.go and pmt.go hold the three parts.
package p20

import (
	"os"
	"strings"

	"verifharness/core"
)

type P struct{}

func (P) ID() string { return "C20" }

func (P) Facts() []core.Fact {
	var fs []core.Fact
	fs = append(fs, factsGcs()...)
	fs = append(fs, factsBloom()...)
	fs = append(fs, factsPmt()...)
	return fs
}

// VERIF_C20_DUMP=<file> appends every executed protocol line to <file> (debugging aid).
var dumpFile = func() *os.File {
	if p := os.Getenv("VERIF_C20_DUMP"); p != "" {
		f, _ := os.OpenFile(p, os.O_APPEND|os.O_CREATE|os.O_WRONLY, 0o644)
		return f
	}
	return nil
}()

func (P) Exec(line string) string {
	if dumpFile != nil {
		dumpFile.WriteString(line + "\n")
	}
	f := strings.Fields(line)
	if len(f) < 2 || f[0] != "C20" {
		return "bad-op"
	}
	switch {
	case strings.HasPrefix(f[1], "bloom"):
		return execBloom(f[1:])
	case strings.HasPrefix(f[1], "pmt"):
		return execPmt(f[1:])
	}
	return execGcs(f[1:])
}

func (P) Generate(g *core.Gen) {
	genGcs(g)
	genBloom(g)
	genPmt(g)
}
