// Package p20: correspondence for C20 (GCS / BIP158 filters, bloom filters, merkle blocks).
// p20.go dispatches; gcs.go, bloom.go and pmt.go hold the three parts.
package p20

import (
	"os"
	"strings"
	"sync"

	"verifharness/core"
)

type P struct{}

func (P) ID() string { return "C20" }

func (P) Facts() []core.Fact {
	var fs []core.Fact
	fs = append(fs, factsGcs()...)
	fs = append(fs, factsBloom()...)
	fs = append(fs, factsPmt()...)
	return fs
}

// VERIF_C20_DUMP=<file> appends every executed protocol line to <file> (debugging aid).
var dumpFile = func() *os.File {
	if p := os.Getenv("VERIF_C20_DUMP"); p != "" {
		f, _ := os.OpenFile(p, os.O_APPEND|os.O_CREATE|os.O_WRONLY, 0o644)
		return f
	}
	return nil
}()

func (P) Exec(line string) string {
	if dumpFile != nil {
		dumpFile.WriteString(line + "\n")
	}
	f := strings.Fields(line)
	if len(f) < 2 || f[0] != "C20" {
		return "bad-op"
	}
	if f[1] == "par" {
		return execPar(line)
	}
	if f[1] == "cfidx" && len(f) == 5 {
		return execCfidx(f[1:])
	}
	switch {
	case strings.HasPrefix(f[1], "bloom"):
		return execBloom(f[1:])
	case strings.HasPrefix(f[1], "pmt"):
		return execPmt(f[1:])
	}
	return execGcs(f[1:])
}

func (P) Generate(g *core.Gen) {
	genGcs(g)
	genBloom(g)
	genPmt(g)
	genCfidx(g)
	genPar(g)
}

// ---- hidden shared state: independent cases run concurrently
//
//	C20 par <sub-line> ;; <sub-line> ;; ...
//
// every sub-line is a complete C20 line; each runs in its own goroutine, all released together, each
// repeated parReps times so that the executions overlap; a goroutine answers "unstable" when its
// repetitions disagree. The Lean driver answers the sub-lines one after the other.

const parReps = 12

var parPool []string

func rec(g *core.Gen, class string, nontrivial bool, line string) {
	g.Case(class, nontrivial, line)
	if strings.HasPrefix(line, "C20 cfidx") && len(parPool)%5 != 0 {
		return // a database per repetition is slow: keep only a few of these in the pool
	}
	if len(line) < 6000 && !strings.Contains(line, " ;; ") {
		parPool = append(parPool, line)
	}
}

func execOne(sub string) (out string) {
	defer func() {
		if r := recover(); r != nil {
			out = "panic"
		}
	}()
	return P{}.Exec(sub)
}

func execPar(line string) string {
	subs := strings.Split(strings.TrimPrefix(line, "C20 par "), " ;; ")
	outs := make([]string, len(subs))
	var start, done sync.WaitGroup
	start.Add(1)
	for i := range subs {
		done.Add(1)
		go func(i int) {
			defer done.Done()
			start.Wait()
			first := execOne(subs[i])
			for k := 1; k < parReps; k++ {
				if execOne(subs[i]) != first {
					first = "unstable"
					break
				}
			}
			outs[i] = first
		}(i)
	}
	start.Done()
	done.Wait()
	return strings.Join(outs, " ;; ")
}

func genPar(g *core.Gen) {
	r := g.R
	if len(parPool) == 0 {
		return
	}
	for i := 0; i < g.N(60, 2000); i++ {
		k := 8 + r.Intn(5)
		subs := make([]string, k)
		for j := range subs {
			subs[j] = parPool[r.Intn(len(parPool))]
		}
		g.Case("par", true, "C20 par "+strings.Join(subs, " ;; "))
	}
	parPool = nil
}
