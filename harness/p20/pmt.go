package p20

import "verifharness/core"

// partial-merkle-tree part of C20 (ops "pmt…"): f[0] is the op.

func factsPmt() []core.Fact { return nil }

func execPmt(f []string) string { return "unimplemented" }

func genPmt(g *core.Gen) {}
