package p20

import (
	"bytes"
	"encoding/binary"
	"encoding/hex"
	"fmt"
	"crypto/sha256"
	"strconv"
	"strings"
	"sync"
	"time"

	"github.com/btcsuite/btcd/blockchain"
	"github.com/btcsuite/btcd/btcutil/v2"
	"github.com/btcsuite/btcd/btcutil/v2/bloom"
	"github.com/btcsuite/btcd/chainhash/v2"
	"github.com/btcsuite/btcd/wire/v2"
	"verifharness/core"
)

// partial-merkle-tree part of C20 (ops "pmt…"): f[0] is the op.
//
//	C20 pmt <seed> <matchedbits>
//
// builds a block of len(matchedbits) synthetic transactions (layout mirrored by
// lean/BV/C20/DriverPmt.lean), loads a bloom filter that contains one marker push, and lets the REAL
// bloom.NewMerkleBlock (MatchTxAndUpdate per transaction, traverseAndBuild) produce the merkle block.
// A transaction is matched iff its output script pushes the marker (the filter is 36000 zero bytes with
// 10 hash functions and one inserted element, so an accidental match of the other push or of a txid has
// probability (10/288000)^10).

func factsPmt() []core.Fact {
	m := wire.NewMsgMerkleBlock(&wire.BlockHeader{})
	return []core.Fact{
		{Name: "merkleBlockCommand", Value: m.Command()},
		{Name: "merkleBlockMaxPayload", Value: int64(m.MaxPayloadLength(wire.ProtocolVersion))},
		{Name: "bip0037Version", Value: int64(wire.BIP0037Version)},
	}
}

var pmtMarkMatch = []byte("C20-match-mark")
var pmtMarkNo = []byte("C20-nomatch-mk")

func pmtTx(seed uint32, i int, m bool) *wire.MsgTx {
	tx := wire.NewMsgTx(2)
	var prev chainhash.Hash
	for k := 0; k < 8; k++ {
		binary.LittleEndian.PutUint32(prev[4*k:], seed)
	}
	tx.AddTxIn(&wire.TxIn{PreviousOutPoint: wire.OutPoint{Hash: prev, Index: uint32(i)}, Sequence: 0xffffffff})
	mark := pmtMarkNo
	if m {
		mark = pmtMarkMatch
	}
	tx.AddTxOut(wire.NewTxOut(int64(i), append([]byte{14}, mark...)))
	return tx
}

// pmtExtract is a plain port of BIP37 / Bitcoin Core's CPartialMerkleTree::ExtractMatches (without the
// CVE-2012-2459 equal-children rejection). It is harness code used only to cross-check the produced
// (flags, hashes) on the Go side; the Lean side answers the same field from its Spec.
type pmtEx struct {
	n      uint32
	bits   []bool
	hashes []*chainhash.Hash
	bi, hi int
	bad    bool
	idx    []uint32
	ids    []chainhash.Hash
}

func (e *pmtEx) width(h uint32) uint32 { return (e.n + (1 << h) - 1) >> h }

func (e *pmtEx) walk(h, pos uint32) chainhash.Hash {
	if e.bi >= len(e.bits) {
		e.bad = true
		return chainhash.Hash{}
	}
	parent := e.bits[e.bi]
	e.bi++
	if h == 0 || !parent {
		if e.hi >= len(e.hashes) {
			e.bad = true
			return chainhash.Hash{}
		}
		x := *e.hashes[e.hi]
		e.hi++
		if h == 0 && parent {
			e.idx = append(e.idx, pos)
			e.ids = append(e.ids, x)
		}
		return x
	}
	l := e.walk(h-1, pos*2)
	r := l
	if pos*2+1 < e.width(h-1) {
		r = e.walk(h-1, pos*2+1)
	}
	return bloom.HashMerkleBranches(&l, &r)
}

func pmtExtract(mb *wire.MsgMerkleBlock) (root chainhash.Hash, idx []uint32, ids []chainhash.Hash, ok bool) {
	e := &pmtEx{n: mb.Transactions, hashes: mb.Hashes}
	if e.n == 0 || uint32(len(mb.Hashes)) > e.n || len(mb.Flags)*8 < len(mb.Hashes) {
		return root, nil, nil, false
	}
	for i := 0; i < len(mb.Flags)*8; i++ {
		e.bits = append(e.bits, mb.Flags[i/8]>>(uint(i)%8)&1 == 1)
	}
	h := uint32(0)
	for e.width(h) > 1 {
		h++
	}
	root = e.walk(h, 0)
	if e.bad || (e.bi+7)/8 != len(mb.Flags) || e.hi != len(mb.Hashes) {
		return root, nil, nil, false
	}
	return root, e.idx, e.ids, true
}

// pmtWireErr: why a decode failed (short input, non-canonical count, count above an internal sanity cap,
// protocol version too old) is not part of the observation - error texts and the caps are free.
func pmtWireErr(err error) string { return "err" }

// pmtw <pver> <hex>: MsgMerkleBlock.BtcDecode of arbitrary bytes, re-encoded and compared
func execPmtw(f []string) string {
	pver, err := strconv.ParseUint(f[1], 10, 32)
	if err != nil {
		return "bad-op"
	}
	raw := unhex(f[2])
	rd := bytes.NewReader(raw)
	var m wire.MsgMerkleBlock
	if err := m.BtcDecode(rd, uint32(pver), wire.BaseEncoding); err != nil {
		return pmtWireErr(err)
	}
	rest := rd.Len()
	var out bytes.Buffer
	re := m.BtcEncode(&out, uint32(pver), wire.BaseEncoding) == nil && bytes.Equal(out.Bytes(), raw[:len(raw)-rest])
	h := sha256.New()
	var hb bytes.Buffer
	m.Header.Serialize(&hb)
	h.Write(hb.Bytes())
	for _, x := range m.Hashes {
		h.Write(x[:])
	}
	h.Write(m.Flags)
	return fmt.Sprintf("ok tx=%d nh=%d nf=%d rest=%d re=%s h=%s", m.Transactions, len(m.Hashes), len(m.Flags), rest,
		bit(re), hex.EncodeToString(h.Sum(nil)))
}

func execPmt(f []string) string {
	if f[0] == "pmtw" && len(f) == 3 {
		return execPmtw(f)
	}
	if f[0] != "pmt" || len(f) != 3 {
		return "bad-op"
	}
	seed64, err := strconv.ParseUint(f[1], 10, 32)
	if err != nil {
		return "bad-op"
	}
	bitsS := f[2]
	if bitsS == "-" {
		bitsS = ""
	}
	var blk wire.MsgBlock
	for i, c := range bitsS {
		blk.AddTransaction(pmtTx(uint32(seed64), i, c == '1'))
	}
	filter := bloom.LoadFilter(&wire.MsgFilterLoad{Filter: make([]byte, 36000), HashFuncs: 10, Tweak: uint32(seed64), Flags: wire.BloomUpdateNone})
	filter.Add(pmtMarkMatch)
	// header: version 1, zero prev, merkle root, time = seed, bits 0x1d00ffff, nonce = n
	if len(blk.Transactions) > 0 {
		tmp := btcutil.NewBlock(&blk)
		blk.Header = wire.BlockHeader{Version: 1, MerkleRoot: blockchain.CalcMerkleRoot(tmp.Transactions(), false),
			Timestamp: time.Unix(int64(seed64), 0), Bits: 0x1d00ffff, Nonce: uint32(len(blk.Transactions))}
	}
	block := btcutil.NewBlock(&blk)
	var before bytes.Buffer // inputs as they are before the first call sees them
	_ = blk.Serialize(&before)
	fbefore := append([]byte{}, filter.MsgFilterLoad().Filter...)
	mb, idx := bloom.NewMerkleBlock(block, filter) // panics for a block without transactions
	root := blockchain.CalcMerkleRoot(block.Transactions(), false)

	// wire round trip of the message
	var buf bytes.Buffer
	wireOK := false
	wireHash := "err"
	if err := mb.BtcEncode(&buf, wire.ProtocolVersion, wire.BaseEncoding); err == nil {
		wireHash = hex.EncodeToString(chainhash.DoubleHashB(buf.Bytes()))
		var back wire.MsgMerkleBlock
		if err := back.BtcDecode(&buf, wire.ProtocolVersion, wire.BaseEncoding); err == nil {
			wireOK = back.Transactions == mb.Transactions && bytes.Equal(back.Flags, mb.Flags) && len(back.Hashes) == len(mb.Hashes)
			for i := range back.Hashes {
				wireOK = wireOK && *back.Hashes[i] == *mb.Hashes[i]
			}
		}
	}
	// the message assembled through the public constructor and AddTxHash encodes to the same bytes
	{
		m2 := wire.NewMsgMerkleBlock(&mb.Header)
		m2.Transactions = mb.Transactions
		for _, h := range mb.Hashes {
			if err := m2.AddTxHash(h); err != nil {
				wireOK = false
			}
		}
		m2.Flags = mb.Flags
		var b2 bytes.Buffer
		var b1 bytes.Buffer
		e1 := mb.BtcEncode(&b1, wire.ProtocolVersion, wire.BaseEncoding)
		e2 := m2.BtcEncode(&b2, wire.BIP0037Version, wire.WitnessEncoding)
		wireOK = wireOK && e1 == nil && e2 == nil && bytes.Equal(b1.Bytes(), b2.Bytes()) &&
			m2.Command() == "merkleblock" && mb.BtcEncode(&b2, wire.BIP0037Version-1, wire.BaseEncoding) != nil
	}
	if !wireOK {
		return "err:wire"
	}

	xroot, xidx, xids, ok := pmtExtract(mb)
	x := ok && xroot == root && len(xidx) == len(idx)
	for i := 0; x && i < len(idx); i++ {
		x = xidx[i] == idx[i] && xids[i] == *block.Transactions()[idx[i]].Hash()
	}
	is := make([]string, len(idx))
	for i, v := range idx {
		is[i] = strconv.Itoa(int(v))
	}
	idxS := strings.Join(is, ",")
	if idxS == "" {
		idxS = "-"
	}
	hs := make([]string, len(mb.Hashes))
	for i, h := range mb.Hashes {
		hs[i] = hex.EncodeToString(h[:])
	}
	// inputs are values: the same block (and, with BloomUpdateNone, the same filter) serves three more
	// sequential and four concurrent NewMerkleBlock calls; same message every time, block and filter untouched
	inp := true
	{
		same := func(f *bloom.Filter) bool {
			m2, idx2 := bloom.NewMerkleBlock(block, f)
			if len(idx2) != len(idx) || m2.Transactions != mb.Transactions || !bytes.Equal(m2.Flags, mb.Flags) ||
				len(m2.Hashes) != len(mb.Hashes) {
				return false
			}
			for i := range idx {
				if idx2[i] != idx[i] {
					return false
				}
			}
			for i := range m2.Hashes {
				if *m2.Hashes[i] != *mb.Hashes[i] {
					return false
				}
			}
			return true
		}
		for k := 0; k < 3; k++ {
			inp = inp && same(filter)
		}
		var wg sync.WaitGroup
		res := make([]bool, 4)
		for k := range res {
			wg.Add(1)
			go func(k int) {
				defer wg.Done()
				defer func() { _ = recover() }()
				f2 := bloom.LoadFilter(&wire.MsgFilterLoad{Filter: append([]byte{}, fbefore...), HashFuncs: 10,
					Tweak: uint32(seed64), Flags: wire.BloomUpdateNone})
				res[k] = same(f2)
			}(k)
		}
		wg.Wait()
		for _, ok := range res {
			inp = inp && ok
		}
		var after bytes.Buffer
		_ = blk.Serialize(&after)
		inp = inp && bytes.Equal(before.Bytes(), after.Bytes()) && bytes.Equal(fbefore, filter.MsgFilterLoad().Filter)
	}
	return fmt.Sprintf("idx=%s tx=%d flags=%s hashes=%s root=%s x=%s inp=%s wire=%s", idxS, mb.Transactions,
		hex.EncodeToString(mb.Flags), strings.Join(hs, ","), hex.EncodeToString(root[:]), bit(x), bit(inp), wireHash)
}

func pmtVarint(n uint64) []byte {
	var b bytes.Buffer
	wire.WriteVarInt(&b, 0, n)
	return b.Bytes()
}

func genPmtWire(g *core.Gen) {
	r := g.R
	le32 := func(v uint32) []byte { return []byte{byte(v), byte(v >> 8), byte(v >> 16), byte(v >> 24)} }
	for i := 0; i < g.N(300, 10000); i++ {
		nh := r.Intn(6)
		nf := r.Intn(4)
		switch r.Intn(12) {
		case 0:
			nh = int(r.Pick(252, 253, 254))
		case 1:
			nf = int(r.Pick(252, 253, 254))
		}
		msg := append([]byte{}, r.Bytes(80)...)
		msg = append(msg, le32(r.U32())...)
		hcount := pmtVarint(uint64(nh))
		fcount := pmtVarint(uint64(nf))
		body := r.Bytes(32 * nh)
		flags := r.Bytes(nf)
		switch r.Intn(14) {
		case 0: // count limits with (necessarily) short data
			hcount = pmtVarint(uint64(400001 + r.Pick(-1, 0, 1)))
		case 1:
			fcount = pmtVarint(uint64(50000 + r.Pick(-1, 0, 1))) // with (necessarily) short data
		case 2: // non-canonical counts
			hcount = [][]byte{{0xfd, byte(nh), 0}, {0xfe, byte(nh), 0, 0, 0}, {0xff, byte(nh), 0, 0, 0, 0, 0, 0, 0}}[r.Intn(3)]
		case 3:
			fcount = [][]byte{{0xfd, byte(nf), 0}, {0xfe, byte(nf), 0, 0, 0}}[r.Intn(2)]
		case 4: // huge counts
			hcount = []byte{0xff, 0xff, 0xff, 0xff, 0xff, 0xff, 0xff, 0xff, 0xff}
		}
		msg = append(msg, hcount...)
		msg = append(msg, body...)
		msg = append(msg, fcount...)
		msg = append(msg, flags...)
		switch r.Intn(8) {
		case 0: // truncate anywhere
			msg = msg[:r.Intn(len(msg)+1)]
		case 1: // trailing bytes
			msg = append(msg, r.Bytes(1+r.Intn(5))...)
		}
		pver := r.Pick(70001, 70001, 70016, 70016, 70000, 70002, 0, 60002)
		rec(g, "pmt-wire", len(msg) > 84, fmt.Sprintf("C20 pmtw %d %s", pver, hexTok(msg)))
	}
}

func genPmt(g *core.Gen) {
	genPmtWire(g)
	r := g.R
	emit := func(class string, bits []byte) {
		any := bytes.IndexByte(bits, '1') >= 0
		rec(g, class, any && len(bits) > 1, fmt.Sprintf("C20 pmt %d %s", r.U32(), string(bits)))
	}
	// every subset for n <= 5 (quick) / 8 (thorough)
	maxAll := g.N(5, 8)
	for n := 1; n <= maxAll; n++ {
		for s := 0; s < 1<<uint(n); s++ {
			b := make([]byte, n)
			for i := range b {
				b[i] = '0' + byte(s>>uint(i)&1)
			}
			emit("pmt-all-subsets", b)
		}
	}
	rec(g, "pmt-empty-block", false, "C20 pmt 1 -")
	shapes := func(n int) [][]byte {
		mk := func(f func(i int) bool) []byte {
			b := make([]byte, n)
			for i := range b {
				b[i] = '0'
				if f(i) {
					b[i] = '1'
				}
			}
			return b
		}
		one := r.Intn(n)
		den := 2 + r.Intn(8)
		return [][]byte{
			mk(func(int) bool { return false }), mk(func(int) bool { return true }),
			mk(func(i int) bool { return i == 0 }), mk(func(i int) bool { return i == n-1 }),
			mk(func(i int) bool { return i%2 == 0 }), mk(func(i int) bool { return i == one }),
			mk(func(i int) bool { return r.Chance(1, den) }), mk(func(i int) bool { return r.Bool() }),
		}
	}
	for n := 6; n <= g.N(40, 130); n++ {
		for _, b := range shapes(n) {
			emit("pmt-shapes", b)
		}
	}
	// the single matched transaction at every position
	for _, n := range []int{5, 8, 13, 33} {
		for pos := 0; pos < n; pos++ {
			b := bytes.Repeat([]byte{'0'}, n)
			b[pos] = '1'
			emit("pmt-position", b)
		}
	}
	// CompactSize boundaries of the two counts of the message: alternating matches give exactly n hashes,
	// all-matched gives about 2n flag bits (252..254 flag bytes for n around 1008..1016)
	for _, n := range []int{252, 253, 254} {
		b := make([]byte, n)
		for i := range b {
			b[i] = '0' + byte(1-i%2)
		}
		emit("pmt-count-boundary", b)
	}
	for _, n := range []int{1006, 1008, 1010, 1012, 1014, 1016, 1018} {
		emit("pmt-count-boundary", bytes.Repeat([]byte{'1'}, n))
	}
	big := []int{63, 64, 65, 127, 128, 129, 255, 256, 257, 511, 513, 1000}
	if g.Thorough() {
		big = append(big, 1023, 1024, 1025, 2047, 2049, 5000)
	}
	for _, n := range big {
		sh := shapes(n)
		for k := 0; k < g.N(3, 8); k++ {
			emit("pmt-big", sh[r.Intn(len(sh))])
		}
	}
}
