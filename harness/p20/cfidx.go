package p20

import (
	"bytes"
	"encoding/binary"
	"encoding/hex"
	"fmt"
	"os"
	"strconv"
	"strings"
	"time"

	"github.com/btcsuite/btcd/blockchain"
	"github.com/btcsuite/btcd/blockchain/indexers"
	"github.com/btcsuite/btcd/btcutil/v2"
	"github.com/btcsuite/btcd/chaincfg/v2"
	"github.com/btcsuite/btcd/chainhash/v2"
	"github.com/btcsuite/btcd/database"
	_ "github.com/btcsuite/btcd/database/ffldb"
	"github.com/btcsuite/btcd/wire/v2"
	"verifharness/core"
)

// committed-filter index (blockchain/indexers/cfindex.go) through the real database:
//
//	C20 cfidx <seed> <block>|<block>|… <disconnect-count>
//
// block = <flag>/<txs>/<prevscripts>; flag n = PrevBlock is the previous block of the line (zero hash for the
// first), z = PrevBlock is the zero hash, o = PrevBlock is an unknown hash (ConnectBlock must fail and
// store nothing). Header of block i: version 1, PrevBlock, merkle root = LE32(seed)×8, time = seed,
// bits 0x1d00ffff, nonce = i. Every block is connected in its own database transaction, then the last
// <disconnect-count> blocks are disconnected, then every block (and one unknown hash) is queried through
// the six accessors.

func cfHeader(seed uint32, i int, prev chainhash.Hash) wire.BlockHeader {
	var mr chainhash.Hash
	for k := 0; k < 8; k++ {
		binary.LittleEndian.PutUint32(mr[4*k:], seed)
	}
	return wire.BlockHeader{Version: 1, PrevBlock: prev, MerkleRoot: mr, Timestamp: time.Unix(int64(seed), 0),
		Bits: 0x1d00ffff, Nonce: uint32(i)}
}

func execCfidx(f []string) string {
	seed64, err := strconv.ParseUint(f[1], 10, 32)
	disc, err2 := strconv.Atoi(f[3])
	if err != nil || err2 != nil {
		return "bad-op"
	}
	dir, err := os.MkdirTemp("", "c20cf")
	if err != nil {
		return "err:tmp"
	}
	defer os.RemoveAll(dir)
	db, err := database.Create("ffldb", dir, wire.MainNet)
	if err != nil {
		return "err:db"
	}
	defer db.Close()
	idx := indexers.NewCfIndex(db, &chaincfg.MainNetParams)
	if err := db.Update(func(tx database.Tx) error { return idx.Create(tx) }); err != nil {
		return "err:create"
	}
	if !indexers.CfIndexInitialized(db) {
		return "err:notinit"
	}
	// the Indexer interface accessors
	// (bucket key and display name are internal: only called, not compared)
	if !idx.NeedsInputs() || idx.Init() != nil || len(idx.Key()) == 0 || idx.Name() == "" {
		return "err:indexer"
	}
	var blocks []*btcutil.Block
	var last chainhash.Hash
	for i, spec := range strings.Split(f[2], "|") {
		p := strings.Split(spec, "/")
		if len(p) != 3 {
			return "bad-op"
		}
		prev := last
		switch p[0] {
		case "z":
			prev = chainhash.Hash{}
		case "o":
			for k := range prev {
				prev[k] = 7
			}
		case "n":
		default:
			return "bad-op"
		}
		blk := wire.MsgBlock{Header: cfHeader(uint32(seed64), i, prev)}
		if p[1] != "!" {
			for _, t := range strings.Split(p[1], ";") {
				tx := wire.NewMsgTx(2)
				for _, s := range parseItems(t) {
					tx.AddTxOut(wire.NewTxOut(1, s))
				}
				blk.AddTransaction(tx)
			}
		}
		var stxos []blockchain.SpentTxOut
		for _, s := range parseItems(p[2]) {
			stxos = append(stxos, blockchain.SpentTxOut{PkScript: s, Amount: 1})
		}
		b := btcutil.NewBlock(&blk)
		_ = db.Update(func(tx database.Tx) error { return idx.ConnectBlock(tx, b, stxos) })
		blocks = append(blocks, b)
		last = *b.Hash()
	}
	for k := 0; k < disc && k < len(blocks); k++ {
		b := blocks[len(blocks)-1-k]
		if err := db.Update(func(tx database.Tx) error { return idx.DisconnectBlock(tx, b, nil) }); err != nil {
			return "err:disconnect"
		}
	}
	var hashes []*chainhash.Hash
	for _, b := range blocks {
		hashes = append(hashes, b.Hash())
	}
	var unknown chainhash.Hash
	for k := range unknown {
		unknown[k] = 9
	}
	hashes = append(hashes, &unknown)
	fs, e1 := idx.FiltersByBlockHashes(hashes, wire.GCSFilterRegular)
	fhs, e2 := idx.FilterHashesByBlockHashes(hashes, wire.GCSFilterRegular)
	hds, e3 := idx.FilterHeadersByBlockHashes(hashes, wire.GCSFilterRegular)
	if e1 != nil || e2 != nil || e3 != nil {
		return "err:batch"
	}
	out := make([]string, len(hashes))
	for i, h := range hashes {
		fb, e1 := idx.FilterByBlockHash(h, wire.GCSFilterRegular)
		fh, e2 := idx.FilterHashByBlockHash(h, wire.GCSFilterRegular)
		hd, e3 := idx.FilterHeaderByBlockHash(h, wire.GCSFilterRegular)
		if e1 != nil || e2 != nil || e3 != nil {
			return "err:single"
		}
		// the batch accessors agree with the single ones
		if !bytes.Equal(fb, fs[i]) || !bytes.Equal(fh, fhs[i]) || !bytes.Equal(hd, hds[i]) {
			return "err:batch-differs"
		}
		out[i] = fmt.Sprintf("f=%s fh=%s hd=%s", hexTok(fb), hexTok(fh), hexTok(hd))
	}
	t1 := "ok"
	_, e4 := idx.FilterByBlockHash(hashes[0], wire.FilterType(1))
	_, e5 := idx.FilterHeadersByBlockHashes(hashes, wire.FilterType(1))
	_, e6 := idx.FilterHashByBlockHash(hashes[0], wire.FilterType(255))
	if e4 != nil && e5 != nil && e6 != nil {
		t1 = "err:type"
	}
	// DropCfIndex must not fail (whether it drops anything without an index manager is internal)
	if err := indexers.DropCfIndex(db, nil); err != nil {
		return "err:drop"
	}
	return strings.Join(out, "|") + " t1=" + t1
}

func genCfidx(g *core.Gen) {
	r := g.R
	for i := 0; i < g.N(40, 3000); i++ {
		nb := 1 + r.Intn(5)
		specs := make([]string, nb)
		var pool [][]byte
		script := func() []byte {
			switch r.Intn(8) {
			case 0:
				return []byte{}
			case 1:
				return append([]byte{0x6a}, r.Bytes(r.Intn(6))...)
			case 2:
				if len(pool) > 0 {
					return pool[r.Intn(len(pool))]
				}
			}
			s := r.Bytes(1 + r.Intn(25))
			pool = append(pool, s)
			return s
		}
		for b := range specs {
			flag := "n"
			switch r.Intn(12) {
			case 0:
				flag = "o"
			case 1:
				flag = "z"
			}
			ntx := r.Intn(4)
			txs := "!"
			if ntx > 0 {
				ts := make([]string, ntx)
				for t := range ts {
					outs := make([][]byte, r.Intn(4))
					for k := range outs {
						outs[k] = script()
					}
					ts[t] = itemsTok(outs)
				}
				txs = strings.Join(ts, ";")
			}
			prevs := make([][]byte, r.Intn(4))
			for k := range prevs {
				prevs[k] = script()
			}
			specs[b] = flag + "/" + txs + "/" + itemsTok(prevs)
		}
		disc := 0
		if r.Chance(1, 3) {
			disc = 1 + r.Intn(nb)
		}
		rec(g, "cfidx", nb > 1, fmt.Sprintf("C20 cfidx %d %s %d", r.U32(), strings.Join(specs, "|"), disc))
	}
}

var _ = hex.EncodeToString
