package p20

import (
	"bytes"
	"crypto/sha256"
	"encoding/hex"
	"fmt"
	"math"
	"strconv"
	"strings"
	"sync"

	"github.com/btcsuite/btcd/btcutil/v2"
	"github.com/btcsuite/btcd/btcutil/v2/bloom"
	"github.com/btcsuite/btcd/chainhash/v2"
	"github.com/btcsuite/btcd/txscript/v2"
	"github.com/btcsuite/btcd/wire/v2"
	"verifharness/core"
)

// bloom-filter part of C20 (ops "bloom…"): f[0] is the op. Protocol: see lean/BV/C20/DriverBloom.lean.

func factsBloom() []core.Fact {
	return []core.Fact{
		{Name: "maxFilterLoadFilterSize", Value: int64(wire.MaxFilterLoadFilterSize)},
		{Name: "maxFilterLoadHashFuncs", Value: int64(wire.MaxFilterLoadHashFuncs)},
		{Name: "bloomUpdateNone", Value: int64(wire.BloomUpdateNone)},
		{Name: "bloomUpdateAll", Value: int64(wire.BloomUpdateAll)},
		{Name: "bloomUpdateP2PubkeyOnly", Value: int64(wire.BloomUpdateP2PubkeyOnly)},
		{Name: "outPointSize", Value: int64(chainhash.HashSize + 4)},
	}
}

// ---------------------------------------------------------------- exec

const bloomMaxFuncs = 100000

func u32tok(s string) (uint32, bool) {
	v, err := strconv.ParseUint(s, 10, 32)
	return uint32(v), err == nil
}

func bloomBitsTok(b []byte) string {
	if len(b) <= 128 {
		return hexTok(b)
	}
	h := sha256.Sum256(b)
	return fmt.Sprintf("len:%d:%s", len(b), hex.EncodeToString(h[:]))
}

func bloomHash32(s string) (*chainhash.Hash, bool) {
	b, err := hex.DecodeString(s)
	if err != nil || len(b) != chainhash.HashSize {
		return nil, false
	}
	var h chainhash.Hash
	copy(h[:], b)
	return &h, true
}

func pushesTok(script []byte) string {
	ps, err := txscript.PushedData(script)
	if err != nil {
		return "!"
	}
	if len(ps) == 0 {
		return "."
	}
	ss := make([]string, len(ps))
	for i, p := range ps {
		ss[i] = hexTok(p)
	}
	return strings.Join(ss, "+")
}

// txView renders the abstract view of a transaction that the Lean model consumes:
// <txid>:<outs>:<ins> (see DriverBloom.lean).
func txView(tx *btcutil.Tx) string {
	m := tx.MsgTx()
	outs := make([]string, len(m.TxOut))
	for i, o := range m.TxOut {
		c := "o"
		if cl := txscript.GetScriptClass(o.PkScript); cl == txscript.PubKeyTy || cl == txscript.MultiSigTy {
			c = "k"
		}
		outs[i] = c + "/" + pushesTok(o.PkScript)
	}
	ins := make([]string, len(m.TxIn))
	for i, in := range m.TxIn {
		ins[i] = fmt.Sprintf("%s/%d/%s", hex.EncodeToString(in.PreviousOutPoint.Hash[:]), in.PreviousOutPoint.Index,
			pushesTok(in.SignatureScript))
	}
	os, is := strings.Join(outs, ","), strings.Join(ins, ",")
	if len(outs) == 0 {
		os = "."
	}
	if len(ins) == 0 {
		is = "."
	}
	return hex.EncodeToString(tx.Hash()[:]) + ":" + os + ":" + is
}

func txOpTok(m *wire.MsgTx) string {
	var buf bytes.Buffer
	if err := m.SerializeNoWitness(&buf); err != nil {
		panic(err)
	}
	tx, err := btcutil.NewTxFromBytes(buf.Bytes())
	if err != nil {
		panic(err)
	}
	return "tx:" + hex.EncodeToString(buf.Bytes()) + ":" + txView(tx)
}

// runBloomOps applies the op sequence to the REAL filter and renders the canonical answer.
func runBloomOps(flt *bloom.Filter, ops string) string {
	var res strings.Builder
	if ops != "." {
		for _, op := range strings.Split(ops, ";") {
			p := strings.Split(op, ":")
			switch {
			case p[0] == "a" && len(p) == 2:
				flt.Add(unhex(p[1]))
			case p[0] == "m" && len(p) == 2:
				res.WriteString(bit(flt.Matches(unhex(p[1]))))
			case p[0] == "ah" && len(p) == 2: // AddHash
				h, ok := bloomHash32(p[1])
				if !ok {
					return "bad-op"
				}
				flt.AddHash(h)
			case p[0] == "il" && len(p) == 1: // IsLoaded
				res.WriteString(bit(flt.IsLoaded()))
			case p[0] == "ul" && len(p) == 1: // Unload
				flt.Unload()
			case p[0] == "rn" && len(p) == 1: // Reload(nil)
				flt.Reload(nil)
			case p[0] == "rl" && len(p) == 5: // Reload(filter:hashFuncs:tweak:flags)
				k, ok1 := u32tok(p[2])
				t, ok2 := u32tok(p[3])
				fl, err := strconv.ParseUint(p[4], 10, 8)
				if !ok1 || !ok2 || err != nil || k > bloomMaxFuncs {
					return "bad-op"
				}
				var bits []byte
				if strings.HasPrefix(p[1], "z") {
					n, err := strconv.Atoi(p[1][1:])
					if err != nil || n < 0 || n > 1000000 {
						return "bad-op"
					}
					bits = make([]byte, n)
				} else {
					bits = unhex(p[1])
				}
				flt.Reload(wire.NewMsgFilterLoad(bits, k, t, wire.BloomUpdateType(fl)))
			case (p[0] == "ao" || p[0] == "mo") && len(p) == 3:
				h, ok1 := bloomHash32(p[1])
				idx, ok2 := u32tok(p[2])
				if !ok1 || !ok2 {
					return "bad-op"
				}
				op := wire.NewOutPoint(h, idx)
				if p[0] == "ao" {
					flt.AddOutPoint(op)
				} else {
					res.WriteString(bit(flt.MatchesOutPoint(op)))
				}
			case p[0] == "tx" && len(p) == 5:
				raw, err := hex.DecodeString(p[1])
				if err != nil {
					return "bad-op"
				}
				tx, err := btcutil.NewTxFromBytes(raw)
				if err != nil {
					return "bad-op"
				}
				// the abstract view on the line must be the view of the raw transaction
				if txView(tx) != strings.Join(p[2:], ":") {
					return "bad-view"
				}
				res.WriteString(bit(flt.MatchTxAndUpdate(tx)))
			default:
				return "bad-op"
			}
		}
	}
	r := res.String()
	if r == "" {
		r = "-"
	}
	// the final filter queried by four goroutines at once (same data slices) answers like one
	if ops != "." {
		var probes [][]byte
		for _, op := range strings.Split(ops, ";") {
			p := strings.Split(op, ":")
			if (p[0] == "a" || p[0] == "m") && len(p) == 2 {
				probes = append(probes, unhex(p[1]))
			}
		}
		keep := deepCopy(probes)
		seq := make([]bool, len(probes))
		for i, d := range probes {
			seq[i] = flt.Matches(d)
		}
		var wg sync.WaitGroup
		okc := make([]bool, 4)
		for k := range okc {
			wg.Add(1)
			go func(k int) {
				defer wg.Done()
				defer func() { _ = recover() }()
				good := true
				for i, d := range probes {
					good = good && flt.Matches(d) == seq[i]
				}
				okc[k] = good
			}(k)
		}
		wg.Wait()
		for _, g := range okc {
			if !g {
				return "err:concurrent-matches"
			}
		}
		if !sameItems(probes, keep) {
			return "err:input-mutated"
		}
	}
	msg := flt.MsgFilterLoad()
	if msg == nil {
		if flt.IsLoaded() {
			return "err:loaded-nil"
		}
		return "r=" + r + " f=nil"
	}
	return fmt.Sprintf("r=%s f=%s k=%d t=%d fl=%d", r, bloomBitsTok(msg.Filter), msg.HashFuncs, msg.Tweak, uint8(msg.Flags))
}

func execBloom(f []string) string {
	switch {
	case f[0] == "bloommm" && len(f) == 3:
		seed, ok := u32tok(f[1])
		if !ok {
			return "bad-op"
		}
		return strconv.FormatUint(uint64(bloom.MurmurHash3(seed, unhex(f[2]))), 10)
	case f[0] == "bloom" && len(f) == 6:
		k, ok1 := u32tok(f[2])
		t, ok2 := u32tok(f[3])
		fl, err := strconv.ParseUint(f[4], 10, 8)
		if !ok1 || !ok2 || err != nil {
			return "bad-op"
		}
		if k > bloomMaxFuncs {
			return "skip"
		}
		if f[1] == "nil" {
			return runBloomOps(bloom.LoadFilter(nil), f[5])
		}
		var bits []byte
		if strings.HasPrefix(f[1], "z") {
			n, err := strconv.Atoi(f[1][1:])
			if err != nil || n < 0 || n > 1000000 {
				return "bad-op"
			}
			bits = make([]byte, n)
		} else {
			bits = unhex(f[1])
		}
		msg := wire.NewMsgFilterLoad(bits, k, t, wire.BloomUpdateType(fl))
		return runBloomOps(bloom.LoadFilter(msg), f[5])
	case f[0] == "bloomnew" && len(f) == 8:
		el, ok1 := u32tok(f[1])
		fpb, err1 := strconv.ParseUint(f[2], 16, 64)
		t, ok2 := u32tok(f[3])
		fl, err2 := strconv.ParseUint(f[4], 10, 8)
		size, err3 := strconv.Atoi(f[5])
		k, err4 := strconv.Atoi(f[6])
		if !ok1 || !ok2 || err1 != nil || err2 != nil || err3 != nil || err4 != nil {
			return "bad-op"
		}
		flt := bloom.NewFilter(el, t, math.Float64frombits(fpb), wire.BloomUpdateType(fl))
		msg := flt.MsgFilterLoad()
		if len(msg.Filter) != size || int(msg.HashFuncs) != k {
			return fmt.Sprintf("shape:%d:%d", len(msg.Filter), msg.HashFuncs)
		}
		return runBloomOps(flt, f[7])
	}
	return "bad-op"
}

// ---------------------------------------------------------------- generation

var bloomSizes = []int64{1, 2, 3, 7, 8, 9, 255, 256}
var bloomFuncs = []int64{0, 1, 2, 50, 51}
var bloomTweaks = []uint32{0, 0xffffffff, 1, 0x80000000, 2147483649, 0x00000005}

func bloomRandSize(r *core.Rand) int {
	switch r.Intn(10) {
	case 0, 1:
		return int(bloomSizes[r.Intn(len(bloomSizes))])
	case 2:
		return 65 + r.Intn(400)
	}
	return 1 + r.Intn(64)
}

func bloomRandFuncs(r *core.Rand) uint32 {
	switch r.Intn(10) {
	case 0, 1, 2:
		return uint32(bloomFuncs[r.Intn(len(bloomFuncs))])
	case 3:
		return uint32(52 + r.Intn(200))
	}
	return uint32(1 + r.Intn(20))
}

func bloomRandTweak(r *core.Rand) uint32 {
	if r.Chance(1, 3) {
		return bloomTweaks[r.Intn(len(bloomTweaks))]
	}
	return r.U32()
}

func bloomRandFlags(r *core.Rand) int {
	switch r.Intn(8) {
	case 0:
		return int(r.Pick(3, 4, 5, 6, 129, 255))
	}
	return r.Intn(3)
}

// initial bit field: zeros, random sparse, or all ones
func bloomRandField(r *core.Rand, n int) string {
	if n == 0 {
		return "-"
	}
	switch r.Intn(6) {
	case 0:
		b := r.Bytes(n)
		for i := range b {
			b[i] &= byte(r.U64()) & byte(r.U64())
		}
		return hexTok(b)
	case 1:
		if n <= 16 {
			return strings.Repeat("ff", n)
		}
	}
	return "z" + strconv.Itoa(n)
}

func bloomRandIndex(r *core.Rand) uint32 {
	switch r.Intn(5) {
	case 0:
		return uint32(r.Intn(4))
	case 1:
		return uint32(r.Pick(0x01020304, 0xffffffff, 0x80000000, 256, 65536, 0x00ff0000, 1<<24))
	case 2:
		return uint32(r.Intn(1000))
	}
	return r.U32()
}

// a sequence of add / matches ops over data of many lengths: members and non-members
func bloomDataOps(r *core.Rand, n int, maxLen int) (ops []string, members int) {
	var added [][]byte
	for i := 0; i < n; i++ {
		switch r.Intn(6) {
		case 0, 1:
			d := r.Bytes(r.Intn(maxLen + 1))
			added = append(added, d)
			ops = append(ops, "a:"+hexTok(d))
		case 2, 3:
			if len(added) > 0 {
				ops = append(ops, "m:"+hexTok(added[r.Intn(len(added))]))
				members++
			} else {
				ops = append(ops, "m:"+hexTok(r.Bytes(r.Intn(maxLen+1))))
			}
		case 4:
			ops = append(ops, "m:"+hexTok(r.Bytes(r.Intn(maxLen+1))))
		case 5:
			h := hex.EncodeToString(r.Bytes(32))
			idx := bloomRandIndex(r)
			ops = append(ops, fmt.Sprintf("ao:%s:%d", h, idx))
			switch r.Intn(4) {
			case 0: // same hash, index with swapped byte order / neighbour
				idx = idx<<24 | idx>>24 | (idx&0xff00)<<8 | (idx>>8)&0xff00
			case 1:
				idx++
			}
			ops = append(ops, fmt.Sprintf("mo:%s:%d", h, idx))
			members++
		}
	}
	return ops, members
}

func opsTok(ops []string) string {
	if len(ops) == 0 {
		return "."
	}
	return strings.Join(ops, ";")
}

// ---- transactions

func bloomPubKey(r *core.Rand, compressed bool) []byte {
	if compressed {
		b := r.Bytes(33)
		b[0] = byte(2 + r.Intn(2))
		return b
	}
	b := r.Bytes(65)
	b[0] = 4
	return b
}

// pkScript of a random kind; most kinds carry at least one data push
func bloomPkScript(r *core.Rand) []byte {
	b := txscript.NewScriptBuilder()
	switch r.Intn(12) {
	case 0, 1: // P2PKH
		b.AddOp(txscript.OP_DUP).AddOp(txscript.OP_HASH160).AddData(r.Bytes(20)).AddOp(txscript.OP_EQUALVERIFY).AddOp(txscript.OP_CHECKSIG)
	case 2, 3: // P2PK
		b.AddData(bloomPubKey(r, r.Bool())).AddOp(txscript.OP_CHECKSIG)
	case 4, 11: // bare multisig 1-of-2 / 2-of-3
		n := 2 + r.Intn(2)
		b.AddInt64(int64(n - 1))
		for i := 0; i < n; i++ {
			b.AddData(bloomPubKey(r, r.Bool()))
		}
		b.AddInt64(int64(n)).AddOp(txscript.OP_CHECKMULTISIG)
	case 5: // P2SH
		b.AddOp(txscript.OP_HASH160).AddData(r.Bytes(20)).AddOp(txscript.OP_EQUAL)
	case 6: // P2WPKH / P2WSH
		b.AddOp(txscript.OP_0).AddData(r.Bytes(int(r.Pick(20, 32))))
	case 7: // null data
		b.AddOp(txscript.OP_RETURN).AddData(r.Bytes(r.Intn(40)))
	case 8: // truncated push: PushedData fails
		s := append([]byte{txscript.OP_DUP, byte(10 + r.Intn(60))}, r.Bytes(r.Intn(9))...)
		return s
	case 9: // no push at all / empty
		if r.Bool() {
			return nil
		}
		return []byte{txscript.OP_DUP, txscript.OP_1, txscript.OP_ADD}
	case 10: // odd pushes: OP_0, PUSHDATA1, tiny
		b.AddOp(txscript.OP_0).AddData(r.Bytes(1 + r.Intn(3))).AddData(r.Bytes(76 + r.Intn(10)))
	}
	s, err := b.Script()
	if err != nil {
		return nil
	}
	return s
}

func bloomSigScript(r *core.Rand) []byte {
	b := txscript.NewScriptBuilder()
	switch r.Intn(5) {
	case 0, 1:
		b.AddData(r.Bytes(70 + r.Intn(3))).AddData(bloomPubKey(r, r.Bool()))
	case 2:
		b.AddData(r.Bytes(71))
	case 3:
		return append([]byte{0x4c, 0x50}, r.Bytes(r.Intn(20))...) // PUSHDATA1 80 truncated
	case 4:
		return nil
	}
	s, _ := b.Script()
	return s
}

func bloomRandTx(r *core.Rand) *wire.MsgTx {
	tx := wire.NewMsgTx(int32(1 + r.Intn(2)))
	nin := 1 + r.Intn(3)
	for i := 0; i < nin; i++ {
		var h chainhash.Hash
		copy(h[:], r.Bytes(32))
		tx.AddTxIn(wire.NewTxIn(wire.NewOutPoint(&h, bloomRandIndex(r)), bloomSigScript(r), nil))
	}
	nout := r.Intn(5)
	if r.Chance(1, 10) {
		nout = 5 + r.Intn(5)
	}
	for i := 0; i < nout; i++ {
		tx.AddTxOut(wire.NewTxOut(int64(r.Intn(100000)), bloomPkScript(r)))
	}
	tx.LockTime = uint32(r.Intn(3))
	return tx
}

// one tx scenario: seed the filter with something the tx contains (or not), run the tx, probe outpoints
func bloomTxOps(r *core.Rand) (ops []string, class string) {
	m := bloomRandTx(r)
	utx := btcutil.NewTx(m)
	txid := utx.Hash()
	class = "bloom-tx-none"
	nseed := 1 + r.Intn(2)
	for s := 0; s < nseed; s++ {
		switch r.Intn(7) {
		case 0: // the txid
			ops = append(ops, "a:"+hex.EncodeToString(txid[:]))
			class = "bloom-tx-txid"
		case 1, 2: // a pushed element of an output script
			if len(m.TxOut) > 0 {
				o := m.TxOut[r.Intn(len(m.TxOut))]
				if r.Bool() { // prefer a pay-to-pubkey / bare multisig output (what P2PubkeyOnly selects)
					for _, c := range m.TxOut {
						if cl := txscript.GetScriptClass(c.PkScript); cl == txscript.MultiSigTy || (cl == txscript.PubKeyTy && r.Bool()) {
							o = c
							break
						}
					}
				}
				if ps, err := txscript.PushedData(o.PkScript); err == nil && len(ps) > 0 {
					ops = append(ops, "a:"+hexTok(ps[r.Intn(len(ps))]))
					class = "bloom-tx-outpush"
				}
			}
		case 3: // a spent outpoint
			in := m.TxIn[r.Intn(len(m.TxIn))]
			ops = append(ops, fmt.Sprintf("ao:%s:%d", hex.EncodeToString(in.PreviousOutPoint.Hash[:]), in.PreviousOutPoint.Index))
			class = "bloom-tx-prevout"
		case 4: // a pushed element of a signature script
			in := m.TxIn[r.Intn(len(m.TxIn))]
			if ps, err := txscript.PushedData(in.SignatureScript); err == nil && len(ps) > 0 {
				ops = append(ops, "a:"+hexTok(ps[r.Intn(len(ps))]))
				class = "bloom-tx-inpush"
			}
		case 5: // unrelated data
			ops = append(ops, "a:"+hexTok(r.Bytes(r.Intn(33))))
		case 6: // nothing
		}
	}
	ops = append(ops, txOpTok(m))
	// probe: outpoints of every output (updated or not), one index beyond, the txid, a second run
	for i := 0; i <= len(m.TxOut) && i < 6; i++ {
		ops = append(ops, fmt.Sprintf("mo:%s:%d", hex.EncodeToString(txid[:]), i))
	}
	if r.Chance(1, 3) {
		ops = append(ops, txOpTok(m))
	}
	if r.Chance(1, 3) { // a spender of this tx: matched through the auto-inserted outpoint
		sp := bloomRandTx(r)
		sp.TxIn[0].PreviousOutPoint = *wire.NewOutPoint(txid, uint32(r.Intn(len(m.TxOut)+1)))
		ops = append(ops, txOpTok(sp))
	}
	return ops, class
}

// heterogeneous transaction: every output of a different script class, several of them matching
// (first / middle / last position), matching element among the inputs at a chosen position
func bloomMultiOps(r *core.Rand) []string {
	mk := func(kind int) []byte {
		b := txscript.NewScriptBuilder()
		switch kind {
		case 0:
			b.AddData(bloomPubKey(r, true)).AddOp(txscript.OP_CHECKSIG)
		case 1:
			b.AddData(bloomPubKey(r, false)).AddOp(txscript.OP_CHECKSIG)
		case 2:
			b.AddInt64(1).AddData(bloomPubKey(r, true)).AddData(bloomPubKey(r, false)).AddInt64(2).AddOp(txscript.OP_CHECKMULTISIG)
		case 3:
			b.AddOp(txscript.OP_DUP).AddOp(txscript.OP_HASH160).AddData(r.Bytes(20)).AddOp(txscript.OP_EQUALVERIFY).AddOp(txscript.OP_CHECKSIG)
		case 4:
			b.AddOp(txscript.OP_HASH160).AddData(r.Bytes(20)).AddOp(txscript.OP_EQUAL)
		case 5:
			b.AddOp(txscript.OP_RETURN).AddData(r.Bytes(1 + r.Intn(30)))
		case 6:
			b.AddOp(txscript.OP_0).AddData(r.Bytes(32))
		default:
			b.AddInt64(2).AddData(bloomPubKey(r, true)).AddData(bloomPubKey(r, true)).AddData(bloomPubKey(r, true)).AddInt64(3).AddOp(txscript.OP_CHECKMULTISIG)
		}
		s, _ := b.Script()
		return s
	}
	kinds := []int{0, 1, 2, 3, 4, 5, 6, 7}
	for i := len(kinds) - 1; i > 0; i-- { // shuffle
		j := r.Intn(i + 1)
		kinds[i], kinds[j] = kinds[j], kinds[i]
	}
	nout := 3 + r.Intn(6)
	m := wire.NewMsgTx(int32(1 + r.Intn(2)))
	nin := 1 + r.Intn(4)
	for i := 0; i < nin; i++ {
		var h chainhash.Hash
		copy(h[:], r.Bytes(32))
		m.AddTxIn(wire.NewTxIn(wire.NewOutPoint(&h, bloomRandIndex(r)), bloomSigScript(r), nil))
	}
	for i := 0; i < nout; i++ {
		m.AddTxOut(wire.NewTxOut(int64(1000+i), mk(kinds[i])))
	}
	txid := btcutil.NewTx(m).Hash()
	var ops []string
	// matching outputs: first, last, a middle one, or a random subset of >= 2
	var pick []int
	switch r.Intn(4) {
	case 0:
		pick = []int{0, nout - 1}
	case 1:
		pick = []int{0, nout / 2, nout - 1}
	case 2:
		pick = []int{nout - 1, nout - 2}
	default:
		for i := 0; i < nout; i++ {
			if r.Bool() {
				pick = append(pick, i)
			}
		}
	}
	for _, i := range pick {
		if ps, err := txscript.PushedData(m.TxOut[i].PkScript); err == nil && len(ps) > 0 {
			ops = append(ops, "a:"+hexTok(ps[len(ps)-1-r.Intn(len(ps))%len(ps)]))
		}
	}
	switch r.Intn(5) { // sometimes (also / only) an input-side element at a chosen position
	case 0:
		in := m.TxIn[nin-1]
		ops = append(ops, fmt.Sprintf("ao:%s:%d", hex.EncodeToString(in.PreviousOutPoint.Hash[:]), in.PreviousOutPoint.Index))
	case 1:
		if ps, err := txscript.PushedData(m.TxIn[nin-1].SignatureScript); err == nil && len(ps) > 0 {
			ops = append(ops, "a:"+hexTok(ps[len(ps)-1]))
		}
	}
	ops = append(ops, txOpTok(m))
	for i := 0; i <= nout; i++ {
		ops = append(ops, fmt.Sprintf("mo:%s:%d", hex.EncodeToString(txid[:]), i))
	}
	return ops
}

func genBloom(g *core.Gen) {
	for i := 0; i < g.N(160, 6000); i++ {
		r := g.R
		fl := []int{0, 1, 2, 1, 2, 3, 255}[i%7]
		ops := bloomMultiOps(r)
		rec(g, fmt.Sprintf("bloom-tx-multi-fl%d", min(fl, 3)), true, fmt.Sprintf("C20 bloom z%d %d %d %d %s",
			300+r.Intn(400), 1+r.Intn(6), bloomRandTweak(r), fl, opsTok(ops)))
	}
	// every value of the one-byte update-flags discriminator
	for fl := 0; fl < 256; fl++ {
		r := g.R
		ops := bloomMultiOps(r)
		rec(g, "bloom-flags-sweep", true, fmt.Sprintf("C20 bloom z%d %d %d %d %s", 400, 3, r.U32(), fl, opsTok(ops)))
	}
	r := g.R
	// raw murmur: every tail length, seeds incl. the BIP37 multiples
	seeds := []uint32{0, 1, 0xffffffff, 0xfba4c795, 0xf7498f2a, 0x80000000}
	for n := 0; n <= 40; n++ {
		for j := 0; j < g.N(2, 20); j++ {
			sd := r.U32()
			if r.Chance(1, 3) {
				sd = seeds[r.Intn(len(seeds))]
			}
			d := r.Bytes(n)
			if r.Chance(1, 5) {
				for i := range d {
					d[i] = byte(r.Pick(0, 0xff, 0x80, 0x7f))
				}
			}
			rec(g, "bloom-murmur", true, fmt.Sprintf("C20 bloommm %d %s", sd, hexTok(d)))
		}
	}
	// boundary grid: sizes × hash-function counts × tweaks, one add + member/non-member lookups
	for _, sz := range append(append([]int64{}, bloomSizes...), 0) {
		for _, k := range bloomFuncs {
			for ti, t := range bloomTweaks {
				if ti >= g.N(2, len(bloomTweaks)) {
					break
				}
				d := r.Bytes(r.Intn(41))
				fl := bloomRandFlags(r)
				field := "z" + strconv.FormatInt(sz, 10)
				if sz == 0 {
					field = "-"
				}
				rec(g, "bloom-grid", sz > 0, fmt.Sprintf("C20 bloom %s %d %d %d m:%s;a:%s;m:%s;m:%s", field, k, t, fl,
					hexTok(d), hexTok(d), hexTok(d), hexTok(r.Bytes(r.Intn(41)))))
			}
		}
	}
	// the unloaded filter
	for i := 0; i < g.N(3, 20); i++ {
		ops, _ := bloomDataOps(r, 1+r.Intn(6), 40)
		if r.Bool() {
			o, _ := bloomTxOps(r)
			ops = append(ops, o...)
		}
		rec(g, "bloom-nil", false, fmt.Sprintf("C20 bloom nil %d %d %d %s", bloomRandFuncs(r), bloomRandTweak(r), bloomRandFlags(r), opsTok(ops)))
	}
	// the largest legal field, and one byte beyond
	for i := 0; i < g.N(4, 40); i++ {
		sz := r.Pick(36000, 36000, 36001, 35999)
		k := uint32(r.Pick(0, 1, 50, 51, 11))
		ops, mem := bloomDataOps(r, 2+r.Intn(6), 40)
		rec(g, "bloom-maxsize", mem > 0, fmt.Sprintf("C20 bloom z%d %d %d %d %s", sz, k, bloomRandTweak(r), bloomRandFlags(r), opsTok(ops)))
	}
	// data of every length 0..40 (murmur tails) through add/matches
	for n := 0; n <= 40; n++ {
		for j := 0; j < g.N(2, 12); j++ {
			sz := bloomRandSize(r)
			d := r.Bytes(n)
			e := r.Bytes(n)
			rec(g, "bloom-len", true, fmt.Sprintf("C20 bloom %s %d %d %d a:%s;m:%s;m:%s", bloomRandField(r, sz), bloomRandFuncs(r),
				bloomRandTweak(r), bloomRandFlags(r), hexTok(d), hexTok(d), hexTok(e)))
		}
	}
	// random op sequences
	for i := 0; i < g.N(500, 20000); i++ {
		sz := bloomRandSize(r)
		if r.Chance(1, 25) {
			sz = 0
		}
		ops, mem := bloomDataOps(r, r.Intn(14), 40)
		rec(g, "bloom-ops", sz > 0 && mem > 0, fmt.Sprintf("C20 bloom %s %d %d %d %s", bloomRandField(r, sz), bloomRandFuncs(r),
			bloomRandTweak(r), bloomRandFlags(r), opsTok(ops)))
	}
	// filter life cycle: AddHash / IsLoaded / Unload / Reload(nil) / Reload(new message) between data ops
	for i := 0; i < g.N(250, 8000); i++ {
		sz := bloomRandSize(r)
		if r.Chance(1, 10) {
			sz = 0
		}
		var ops []string
		var hashes []string
		for j := 0; j < 3+r.Intn(12); j++ {
			switch r.Intn(9) {
			case 0:
				h := hex.EncodeToString(r.Bytes(32))
				hashes = append(hashes, h)
				ops = append(ops, "ah:"+h)
			case 1:
				if len(hashes) > 0 {
					ops = append(ops, "m:"+hashes[r.Intn(len(hashes))])
				} else {
					ops = append(ops, "m:"+hexTok(r.Bytes(r.Intn(9))))
				}
			case 2:
				ops = append(ops, "il")
			case 3:
				if r.Chance(1, 2) {
					ops = append(ops, "ul")
				} else {
					ops = append(ops, "rn")
				}
			case 4:
				nsz := bloomRandSize(r)
				if r.Chance(1, 6) {
					nsz = 0
				}
				ops = append(ops, fmt.Sprintf("rl:%s:%d:%d:%d", bloomRandField(r, nsz), bloomRandFuncs(r), bloomRandTweak(r), bloomRandFlags(r)))
			default:
				o, _ := bloomDataOps(r, 1+r.Intn(2), 12)
				ops = append(ops, o...)
			}
		}
		first := fmt.Sprintf("%s %d %d %d", bloomRandField(r, sz), bloomRandFuncs(r), bloomRandTweak(r), bloomRandFlags(r))
		if r.Chance(1, 8) {
			first = fmt.Sprintf("nil %d %d %d", bloomRandFuncs(r), bloomRandTweak(r), bloomRandFlags(r))
		}
		rec(g, "bloom-life", true, fmt.Sprintf("C20 bloom %s %s", first, opsTok(ops)))
	}
	// transactions against the three update modes (+ invalid flag values)
	for i := 0; i < g.N(500, 20000); i++ {
		sz := bloomRandSize(r)
		if r.Chance(1, 3) {
			sz = 20 + r.Intn(200) // fewer false positives
		}
		if r.Chance(1, 40) {
			sz = 0
		}
		k := bloomRandFuncs(r)
		if r.Chance(1, 2) {
			k = uint32(1 + r.Intn(12))
		}
		ops, class := bloomTxOps(r)
		fl := bloomRandFlags(r)
		rec(g, fmt.Sprintf("%s-fl%d", class, min(fl, 3)), sz > 0 && class != "bloom-tx-none", fmt.Sprintf("C20 bloom %s %d %d %d %s",
			bloomRandField(r, sz), k, bloomRandTweak(r), fl, opsTok(ops)))
	}
	// NewFilter-created filters: the shape is observed here (float sizing is not modelled), the ops run on
	// the NewFilter object itself
	els := []uint32{0, 1, 2, 3, 10, 100, 1000, 20000, 100000, 1000000, 100000000, 0xffffffff}
	fps := []float64{0, 1e-10, 1e-9, 0.000001, 0.0001, 0.01, 0.1, 0.5, 0.99, 1.0, 2.0, -1}
	for i := 0; i < g.N(60, 2000); i++ {
		el := els[r.Intn(len(els))]
		fp := fps[r.Intn(len(fps))]
		if i == 0 {
			el, fp = 100000000, 0.01 // 36000 bytes, zero hash functions
		}
		if r.Chance(1, 4) {
			el = uint32(r.Intn(3000))
			fp = float64(r.Intn(1000)+1) / 1000
		}
		t, fl := bloomRandTweak(r), bloomRandFlags(r)
		msg := bloom.NewFilter(el, t, fp, wire.BloomUpdateType(fl)).MsgFilterLoad()
		var ops []string
		mem := 0
		if r.Chance(1, 3) {
			ops, _ = bloomTxOps(r)
			mem = 1
		} else {
			ops, mem = bloomDataOps(r, 1+r.Intn(8), 40)
		}
		rec(g, "bloom-newfilter", len(msg.Filter) > 0 && mem > 0, fmt.Sprintf("C20 bloomnew %d %016x %d %d %d %d %s", el, math.Float64bits(fp), t, fl,
			len(msg.Filter), msg.HashFuncs, opsTok(ops)))
	}
}
