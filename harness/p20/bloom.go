package p20

import "verifharness/core"

// bloom-filter part of C20 (ops "bloom…"): f[0] is the op.

func factsBloom() []core.Fact { return nil }

func execBloom(f []string) string { return "unimplemented" }

func genBloom(g *core.Gen) {}
