package p07

import (
	"crypto/sha256"
	"fmt"
	"strings"

	"github.com/btcsuite/btcd/address/v2"
	"github.com/btcsuite/btcd/btcec/v2"
	"github.com/btcsuite/btcd/btcec/v2/schnorr"
	"github.com/btcsuite/btcd/chaincfg/v2"
	"github.com/btcsuite/btcd/txscript/v2"
	"github.com/btcsuite/btcd/wire/v2"
	"verifharness/core"
)

// Signing helpers: a transaction whose input idx spends an output of one of the standard kinds is
// signed by btcd's own helper for that kind (at generation time), then the line carries the signed
// transaction, the outputs it spends, and a mutated copy. Exec runs the REAL engine on the mutated
// copy: "verified" / "failed". The Lean side decides from the Spec's committed-field sets.
//
//   C07 sign <form> <flagsmode> <cache> <ht> <idx> <origTx> <origSpent> <mutTx> <mutSpent>
//   C07 helper <form> <ht> <idx> <nIns> <nOuts> <ok|err>      (did the helper return an error)

var params = &chaincfg.RegressionNetParams

func flagsFor(mode string) txscript.ScriptFlags {
	fl := txscript.StandardVerifyFlags
	switch mode {
	case "std":
	case "nostrict": // undefined hash types are consensus-valid; STRICTENC is policy
		fl &^= txscript.ScriptVerifyStrictEncoding
	case "nowpkt": // uncompressed keys in segwit v0 are consensus-valid; WITNESS_PUBKEYTYPE is policy
		fl &^= txscript.ScriptVerifyWitnessPubKeyType
		fl &^= txscript.ScriptVerifyStrictEncoding
	case "codesep": // OP_CODESEPARATOR in a legacy script is rejected by CONST_SCRIPTCODE (policy)
		fl &^= txscript.ScriptVerifyConstScriptCode
		fl &^= txscript.ScriptVerifyStrictEncoding
	}
	return fl
}

func execSign(c *ectx, f []string) string {
	// form flagsmode cache ht idx origTx origSpent mutTx mutSpent
	if len(f) != 9 {
		return "bad-op"
	}
	idx := int(atoi(f[4]))
	tx := c.decTx(f[7])
	spent := c.decSpent(f[8])
	if idx >= len(spent) || idx >= len(tx.TxIn) {
		return "bad-op"
	}
	fetcher := mkFetcher(tx, spent)
	var sh *txscript.TxSigHashes
	if strings.HasPrefix(f[2], "c") {
		sh = txscript.NewTxSigHashes(tx, fetcher)
	}
	// "cs"/"ns": a signature cache shared with a preceding verification of the ORIGINAL signed
	// transaction (which populates it): the answer for the mutated one must not change
	// "cr"/"nr": a fresh signature cache; the SAME verification is then run three times on it: a failed
	// verification must not leave anything behind that makes a later one pass (only valid triples are cached)
	var sc *txscript.SigCache
	if strings.HasSuffix(f[2], "r") {
		sc = txscript.NewSigCache(100)
	}
	if strings.HasSuffix(f[2], "s") {
		sc = txscript.NewSigCache(100)
		otx, osp := c.decTx(f[5]), c.decSpent(f[6])
		if idx < len(otx.TxIn) && idx < len(osp) {
			of := mkFetcher(otx, osp)
			if vm, err := txscript.NewEngine(osp[idx].PkScript, otx, idx, flagsFor(f[1]), sc,
				txscript.NewTxSigHashes(otx, of), osp[idx].Value, of); err == nil {
				_ = vm.Execute()
			}
		}
	}
	runOnce := func() string {
		vm, err := txscript.NewEngine(spent[idx].PkScript, tx, idx, flagsFor(f[1]), sc, sh,
			spent[idx].Value, fetcher)
		if err != nil {
			return "failed"
		}
		if err := vm.Execute(); err != nil {
			return "failed"
		}
		return "verified"
	}
	res := runOnce()
	if sc != nil { // with a cache the answer must be stable under repetition (and is the repeated answer)
		for rep := 0; rep < 2; rep++ {
			if again := runOnce(); again != res {
				return "sigcache-changed-answer:" + res + "/" + again
			}
		}
		// the exported key-spend verifier sharing the same cache, too
		pk0, w0 := spent[idx].PkScript, tx.TxIn[idx].Witness
		if f[0] == "tap" && len(pk0) == 34 && pk0[0] == 0x51 && len(w0) == 1 && len(tx.TxIn[idx].SignatureScript) == 0 {
			for rep := 0; rep < 2; rep++ {
				api := "verified"
				if txscript.VerifyTaprootKeySpend(pk0[2:], w0[0], tx, idx, fetcher, sh, sc) != nil {
					api = "failed"
				}
				if api != res {
					return "sigcache-changed-answer:" + res + "/api-" + api
				}
			}
		}
	}
	// the exported key-spend verifier must agree with the interpreter on key-path spends
	pk := spent[idx].PkScript
	w := tx.TxIn[idx].Witness
	if f[0] == "tap" && len(pk) == 34 && pk[0] == 0x51 && pk[1] == 0x20 && len(tx.TxIn[idx].SignatureScript) == 0 {
		n := len(w)
		if n >= 2 && len(w[n-1]) > 0 && w[n-1][0] == txscript.TaprootAnnexTag {
			n--
		}
		if n == 1 {
			api := "verified"
			if txscript.VerifyTaprootKeySpend(pk[2:], w[0], tx, idx, fetcher, sh, nil) != nil {
				api = "failed"
			}
			if api != res {
				return "keyspend-api-disagrees:" + api + "/" + res
			}
		}
	}
	return res
}

type keyT struct {
	priv *btcec.PrivateKey
	pub  *btcec.PublicKey
}

func newKey(r *core.Rand) keyT {
	for {
		b := r.Bytes(32)
		b[0] &= 0x7f
		priv, pub := btcec.PrivKeyFromBytes(b)
		if !priv.Key.IsZero() {
			return keyT{priv, pub}
		}
	}
}

type signed struct {
	hts        string // "+"-joined hash types of the signatures carried, if they differ per signer
	form, mode string
	tx         *wire.MsgTx
	spent      []*wire.TxOut
	err        bool
}

// build a tx with nIn inputs / nOut outputs; input idx spends an output of `kind`; sign it with the helper
// midstate handed to a signing helper: nil where the helper's digest never reads it
func helperMid(r *core.Rand, ht txscript.SigHashType, tx *wire.MsgTx, spent []*wire.TxOut) *txscript.TxSigHashes {
	// always supplied: a nil midstate is outside the helpers' documented domain (it happens to work for
	// ANYONECANPAY|NONE/SINGLE today; that is internal). The draw is kept so that case streams do not shift.
	_ = (ht == 0x82 || ht == 0x83) && r.Bool()
	return txscript.NewTxSigHashes(tx, mkFetcher(tx, spent))
}

func buildSigned(r *core.Rand, kind string, ht txscript.SigHashType, nIn, nOut, idx int) signed {
	tx, spent := randTx(r, nIn, nOut)
	// distinct outpoints so that the fetcher map is exact; other inputs are arbitrary
	for i, in := range tx.TxIn {
		copy(in.PreviousOutPoint.Hash[:], r.Bytes(32))
		in.PreviousOutPoint.Hash[0] = byte(i)
		in.Witness = nil
		if i == idx {
			in.SignatureScript = nil
		}
	}
	for _, s := range spent {
		if s.Value < 0 {
			s.Value = 5000
		}
	}
	amt := spent[idx].Value
	res := signed{tx: tx, spent: spent, mode: "std"}
	defined := map[txscript.SigHashType]bool{1: true, 2: true, 3: true, 0x81: true, 0x82: true, 0x83: true}
	if !defined[ht] {
		res.mode = "nostrict"
	}
	kdbFor := func(keys map[string]keyT, compressed map[string]bool) txscript.KeyDB {
		return txscript.KeyClosure(func(a address.Address) (*btcec.PrivateKey, bool, error) {
			k, ok := keys[a.EncodeAddress()]
			if !ok {
				return nil, false, fmt.Errorf("nope")
			}
			return k.priv, compressed[a.EncodeAddress()], nil
		})
	}
	noScripts := txscript.ScriptClosure(func(address.Address) ([]byte, error) { return nil, fmt.Errorf("nope") })
	must := func(err error) {
		if err != nil {
			panic(err)
		}
	}

	switch kind {
	case "p2pk", "p2pkh", "p2pkh-u", "multisig", "p2sh-p2pkh", "p2sh-multisig", "multisig-merge", "p2sh-multisig-merge":
		res.form = "legacy"
		keys := map[string]keyT{}
		comp := map[string]bool{}
		var pkScript, redeem []byte
		mkPKH := func(compressed bool) []byte {
			k := newKey(r)
			ser := k.pub.SerializeCompressed()
			if !compressed {
				ser = k.pub.SerializeUncompressed()
			}
			a, err := address.NewAddressPubKeyHash(address.Hash160(ser), params)
			must(err)
			keys[a.EncodeAddress()] = k
			comp[a.EncodeAddress()] = compressed
			s, err := txscript.PayToAddrScript(a)
			must(err)
			return s
		}
		var multiAddrs []string
		merge := strings.HasSuffix(kind, "-merge")
		mkMulti := func() []byte {
			n := 1 + r.Intn(3)
			m := 1 + r.Intn(n)
			if merge { // 2-of-3 signed in two rounds by different key holders
				n, m = 3, 2
			}
			var addrs []*address.AddressPubKey
			for i := 0; i < n; i++ {
				k := newKey(r)
				a, err := address.NewAddressPubKey(k.pub.SerializeCompressed(), params)
				must(err)
				keys[a.EncodeAddress()] = k
				comp[a.EncodeAddress()] = true
				addrs = append(addrs, a)
				multiAddrs = append(multiAddrs, a.EncodeAddress())
			}
			s, err := txscript.MultiSigScript(addrs, m)
			must(err)
			return s
		}
		switch kind {
		case "p2pk":
			k := newKey(r)
			a, err := address.NewAddressPubKey(k.pub.SerializeCompressed(), params)
			must(err)
			keys[a.EncodeAddress()] = k
			comp[a.EncodeAddress()] = true
			pkScript, err = txscript.PayToAddrScript(a)
			must(err)
		case "p2pkh":
			pkScript = mkPKH(true)
		case "p2pkh-u":
			pkScript = mkPKH(false)
		case "multisig", "multisig-merge":
			pkScript = mkMulti()
		case "p2sh-p2pkh", "p2sh-multisig", "p2sh-multisig-merge":
			if kind == "p2sh-p2pkh" {
				redeem = mkPKH(true)
			} else {
				redeem = mkMulti()
			}
			a, err := address.NewAddressScriptHash(redeem, params)
			must(err)
			pkScript, err = txscript.PayToAddrScript(a)
			must(err)
		}
		sdb := txscript.ScriptDB(noScripts)
		if redeem != nil {
			sdb = txscript.ScriptClosure(func(address.Address) ([]byte, error) { return redeem, nil })
		}
		spent[idx].PkScript = pkScript
		var ss []byte
		var err error
		if merge {
			// two signers holding one key each (two of the three, in either order); the second
			// merges its signature into the script produced by the first
			a, b := r.Intn(3), r.Intn(3)
			for b == a {
				b = r.Intn(3)
			}
			only := func(i int) map[string]keyT {
				return map[string]keyT{multiAddrs[i]: keys[multiAddrs[i]]}
			}
			var first []byte
			first, err = txscript.SignTxOutput(params, tx, idx, pkScript, ht, kdbFor(only(a), comp), sdb, nil)
			if err == nil {
				ss, err = txscript.SignTxOutput(params, tx, idx, pkScript, ht, kdbFor(only(b), comp), sdb, first)
			}
		} else {
			ss, err = txscript.SignTxOutput(params, tx, idx, pkScript, ht, kdbFor(keys, comp), sdb, nil)
		}
		if err != nil {
			res.err = true
			return res
		}
		tx.TxIn[idx].SignatureScript = ss

	case "multisig-rounds", "p2sh-multisig-rounds", "multisig-15":
		// m-of-n multisig signed through SignTxOutput in several rounds, each signer with its OWN hash
		// type, every order of rounds, re-merging complete scripts, junk and foreign signatures in between
		res.form = "legacy"
		n := 1 + r.Intn(3)
		m := 1 + r.Intn(n)
		if kind == "multisig-15" {
			n, m = 15, 15
		}
		defd := []txscript.SigHashType{1, 2, 3, 0x81, 0x82, 0x83}
		keys := make([]keyT, n)
		addrs := make([]*address.AddressPubKey, n)
		names := make([]string, n)
		hts := make([]txscript.SigHashType, n)
		for i := range keys {
			keys[i] = newKey(r)
			a, err := address.NewAddressPubKey(keys[i].pub.SerializeCompressed(), params)
			must(err)
			addrs[i], names[i] = a, a.EncodeAddress()
			hts[i] = defd[r.Intn(len(defd))]
		}
		if n >= 2 && r.Chance(1, 2) { // same low bits, different ANYONECANPAY
			hts[1] = hts[0] ^ 0x80
		}
		ms, err := txscript.MultiSigScript(addrs, m)
		must(err)
		pkScript := ms
		sdb := txscript.ScriptDB(noScripts)
		if kind == "p2sh-multisig-rounds" {
			sa, err := address.NewAddressScriptHash(ms, params)
			must(err)
			pkScript, err = txscript.PayToAddrScript(sa)
			must(err)
			sdb = txscript.ScriptClosure(func(address.Address) ([]byte, error) { return ms, nil })
		}
		spent[idx].PkScript = pkScript
		// junk that looks like a signature push, and a genuine signature of key 0 for ANOTHER input index
		withJunk := func(prev []byte) []byte {
			var pushes [][]byte
			tk := txscript.MakeScriptTokenizer(0, prev)
			for tk.Next() {
				pushes = append(pushes, tk.Data())
			}
			b := txscript.NewScriptBuilder().AddOp(txscript.OP_0)
			junk := append([]byte{0x30, 0x06, 0x02, 0x01, byte(1 + r.Intn(100)), 0x02, 0x01, byte(1 + r.Intn(100))}, byte(defd[r.Intn(6)]))
			b.AddData(junk)
			if len(tx.TxIn) > 1 {
				other := (idx + 1) % len(tx.TxIn)
				if fs, err := txscript.RawTxInSignature(tx, other, ms, hts[0], keys[0].priv); err == nil {
					b.AddData(fs)
				}
			}
			for _, d := range pushes {
				if len(d) > 0 {
					b.AddData(d)
				}
			}
			out, err := b.Script()
			must(err)
			return out
		}
		order := make([]int, n)
		for i := range order {
			order[i] = i
		}
		for i := n - 1; i > 0; i-- { // random order of rounds
			j := r.Intn(i + 1)
			order[i], order[j] = order[j], order[i]
		}
		rounds := order[:m+r.Intn(n-m+1)] // at least m signers, sometimes more than needed
		if r.Chance(1, 3) {                // a signer signs again: re-merge an already complete script
			rounds = append(rounds, rounds[r.Intn(len(rounds))])
		}
		var prev []byte
		for k, who := range rounds {
			kdb := kdbFor(map[string]keyT{names[who]: keys[who]}, map[string]bool{names[who]: true})
			if prev != nil && r.Chance(1, 3) && kind != "multisig-15" {
				prev = withJunk(prev)
			}
			ss, err := txscript.SignTxOutput(params, tx, idx, pkScript, hts[who], kdb, sdb, prev)
			if err != nil {
				res.err = true
				return res
			}
			prev = ss
			_ = k
		}
		tx.TxIn[idx].SignatureScript = prev
		// the hash types of the signatures the final script carries
		var used []string
		tk := txscript.MakeScriptTokenizer(0, prev)
		for tk.Next() {
			if d := tk.Data(); len(d) > 8 && d[0] == 0x30 {
				used = append(used, fmt.Sprint(uint32(d[len(d)-1])))
			}
		}
		if len(used) == 0 {
			used = []string{"1"}
		}
		res.hts = strings.Join(used, "+")

	case "p2pkh-resign", "p2pk-resign", "p2sh-p2pkh-resign":
		// single-signature classes signed twice with different hash types, the second time merging with
		// the first script (mergeScripts keeps the longer one): whichever survives must verify
		res.form = "legacy"
		k := newKey(r)
		keys := map[string]keyT{}
		comp := map[string]bool{}
		var pkScript, redeem []byte
		if kind == "p2pk-resign" {
			a, err := address.NewAddressPubKey(k.pub.SerializeCompressed(), params)
			must(err)
			keys[a.EncodeAddress()], comp[a.EncodeAddress()] = k, true
			pkScript, err = txscript.PayToAddrScript(a)
			must(err)
		} else {
			a, err := address.NewAddressPubKeyHash(address.Hash160(k.pub.SerializeCompressed()), params)
			must(err)
			keys[a.EncodeAddress()], comp[a.EncodeAddress()] = k, true
			pkScript, err = txscript.PayToAddrScript(a)
			must(err)
		}
		sdb := txscript.ScriptDB(noScripts)
		if kind == "p2sh-p2pkh-resign" {
			redeem = pkScript
			sa, err := address.NewAddressScriptHash(redeem, params)
			must(err)
			pkScript, err = txscript.PayToAddrScript(sa)
			must(err)
			sdb = txscript.ScriptClosure(func(address.Address) ([]byte, error) { return redeem, nil })
		}
		spent[idx].PkScript = pkScript
		defd := []txscript.SigHashType{1, 2, 3, 0x81, 0x82, 0x83}
		var prev []byte
		for round := 0; round < 2+r.Intn(2); round++ {
			ss, err := txscript.SignTxOutput(params, tx, idx, pkScript, defd[r.Intn(6)], kdbFor(keys, comp), sdb, prev)
			if err != nil {
				res.err = true
				return res
			}
			prev = ss
		}
		tx.TxIn[idx].SignatureScript = prev
		tk := txscript.MakeScriptTokenizer(0, prev)
		for tk.Next() {
			if d := tk.Data(); len(d) > 8 && d[0] == 0x30 {
				res.hts = fmt.Sprint(uint32(d[len(d)-1]))
			}
		}

	case "legacy-codesep":
		// <pk1> CHECKSIGVERIFY CODESEPARATOR <pk2> CHECKSIG, signed with RawTxInSignature on the
		// sub-scripts the interpreter will use; the pk script also embeds nothing of the sigs
		res.form = "legacy"
		res.mode = "codesep"
		k1, k2 := newKey(r), newKey(r)
		tail, _ := txscript.NewScriptBuilder().AddData(k2.pub.SerializeCompressed()).AddOp(txscript.OP_CHECKSIG).Script()
		pkScript, _ := txscript.NewScriptBuilder().AddData(k1.pub.SerializeCompressed()).
			AddOp(txscript.OP_CHECKSIGVERIFY).AddOp(txscript.OP_CODESEPARATOR).AddOps(tail).Script()
		spent[idx].PkScript = pkScript
		s1, err := txscript.RawTxInSignature(tx, idx, pkScript, ht, k1.priv)
		if err != nil {
			res.err = true
			return res
		}
		s2, err := txscript.RawTxInSignature(tx, idx, tail, ht, k2.priv)
		must(err)
		tx.TxIn[idx].SignatureScript, _ = txscript.NewScriptBuilder().AddData(s2).AddData(s1).Script()

	case "p2wpkh":
		res.form = "wit"
		k := newKey(r)
		a, err := address.NewAddressWitnessPubKeyHash(address.Hash160(k.pub.SerializeCompressed()), params)
		must(err)
		pkScript, err := txscript.PayToAddrScript(a)
		must(err)
		spent[idx].PkScript = pkScript
		sh := helperMid(r, ht, tx, spent)
		w, err := txscript.WitnessSignature(tx, sh, idx, amt, pkScript, ht, k.priv, true)
		if err != nil {
			res.err = true
			return res
		}
		tx.TxIn[idx].Witness = w

	case "p2pkh-direct", "p2pkh-direct-u":
		// SignatureScript called directly (not through SignTxOutput)
		res.form = "legacy"
		k := newKey(r)
		compress := kind == "p2pkh-direct"
		ser := k.pub.SerializeCompressed()
		if !compress {
			ser = k.pub.SerializeUncompressed()
		}
		a, err := address.NewAddressPubKeyHash(address.Hash160(ser), params)
		must(err)
		pkScript, err := txscript.PayToAddrScript(a)
		must(err)
		spent[idx].PkScript = pkScript
		ss, err := txscript.SignatureScript(tx, idx, pkScript, ht, k.priv, compress)
		if err != nil {
			res.err = true
			return res
		}
		tx.TxIn[idx].SignatureScript = ss

	case "p2wpkh-u":
		// WitnessSignature with compress=false: consensus-valid, rejected only by WITNESS_PUBKEYTYPE policy
		res.form = "wit"
		res.mode = "nowpkt"
		k := newKey(r)
		a, err := address.NewAddressWitnessPubKeyHash(address.Hash160(k.pub.SerializeUncompressed()), params)
		must(err)
		pkScript, err := txscript.PayToAddrScript(a)
		must(err)
		spent[idx].PkScript = pkScript
		sh := helperMid(r, ht, tx, spent)
		w, err := txscript.WitnessSignature(tx, sh, idx, amt, pkScript, ht, k.priv, false)
		if err != nil {
			res.err = true
			return res
		}
		tx.TxIn[idx].Witness = w

	case "p2sh-p2wpkh":
		// nested: scriptPubKey = P2SH(program), scriptSig = push(program), witness signed over the program
		res.form = "wit"
		k := newKey(r)
		a, err := address.NewAddressWitnessPubKeyHash(address.Hash160(k.pub.SerializeCompressed()), params)
		must(err)
		prog, err := txscript.PayToAddrScript(a)
		must(err)
		sa, err := address.NewAddressScriptHash(prog, params)
		must(err)
		pkScript, err := txscript.PayToAddrScript(sa)
		must(err)
		spent[idx].PkScript = pkScript
		tx.TxIn[idx].SignatureScript, _ = txscript.NewScriptBuilder().AddData(prog).Script()
		sh := txscript.NewTxSigHashes(tx, mkFetcher(tx, spent))
		w, err := txscript.WitnessSignature(tx, sh, idx, amt, prog, ht, k.priv, true)
		if err != nil {
			res.err = true
			return res
		}
		tx.TxIn[idx].Witness = w

	case "p2tr-key-tree":
		// key path of an output that also commits to a script tree: RawTxInTaprootSignature with the root
		res.form = "tap"
		k := newKey(r)
		leaf := txscript.NewBaseTapLeaf(append([]byte{0x51}, r.Bytes(3)...))
		tree := txscript.AssembleTaprootScriptTree(leaf, txscript.NewBaseTapLeaf([]byte{0x52}))
		root := tree.RootNode.TapHash()
		pkScript, err := txscript.PayToTaprootScript(txscript.ComputeTaprootOutputKey(k.pub, root[:]))
		must(err)
		spent[idx].PkScript = pkScript
		sh := txscript.NewTxSigHashes(tx, mkFetcher(tx, spent))
		sig, err := txscript.RawTxInTaprootSignature(tx, sh, idx, amt, pkScript, root[:], ht, k.priv)
		if err != nil {
			res.err = true
			return res
		}
		tx.TxIn[idx].Witness = wire.TxWitness{sig}

	case "p2wsh", "p2wsh-codesep", "p2wsh-multisig":
		res.form = "wit"
		k1, k2 := newKey(r), newKey(r)
		var ws []byte
		b := txscript.NewScriptBuilder()
		switch kind {
		case "p2wsh":
			ws, _ = b.AddData(k1.pub.SerializeCompressed()).AddOp(txscript.OP_CHECKSIG).Script()
		case "p2wsh-codesep":
			ws, _ = b.AddData(k1.pub.SerializeCompressed()).AddOp(txscript.OP_CHECKSIGVERIFY).
				AddOp(txscript.OP_CODESEPARATOR).AddData(k2.pub.SerializeCompressed()).AddOp(txscript.OP_CHECKSIG).Script()
		case "p2wsh-multisig":
			ws, _ = b.AddOp(txscript.OP_2).AddData(k1.pub.SerializeCompressed()).AddData(k2.pub.SerializeCompressed()).
				AddOp(txscript.OP_2).AddOp(txscript.OP_CHECKMULTISIG).Script()
		}
		a, err := address.NewAddressWitnessScriptHash(sha256sum(ws), params)
		must(err)
		pkScript, err := txscript.PayToAddrScript(a)
		must(err)
		spent[idx].PkScript = pkScript
		sh := helperMid(r, ht, tx, spent)
		s1, err := txscript.RawTxInWitnessSignature(tx, sh, idx, amt, ws, ht, k1.priv)
		if err != nil {
			res.err = true
			return res
		}
		switch kind {
		case "p2wsh":
			tx.TxIn[idx].Witness = wire.TxWitness{s1, ws}
		case "p2wsh-codesep":
			tail := ws[len(ws)-35:] // <33-byte push> CHECKSIG
			s2, err := txscript.RawTxInWitnessSignature(tx, sh, idx, amt, tail, ht, k2.priv)
			must(err)
			tx.TxIn[idx].Witness = wire.TxWitness{s2, s1, ws}
		case "p2wsh-multisig":
			s2, err := txscript.RawTxInWitnessSignature(tx, sh, idx, amt, ws, ht, k2.priv)
			must(err)
			tx.TxIn[idx].Witness = wire.TxWitness{nil, s1, s2, ws}
		}

	case "p2tr-key":
		res.form = "tap"
		k := newKey(r)
		pkScript, err := txscript.PayToTaprootScript(txscript.ComputeTaprootKeyNoScript(k.pub))
		must(err)
		spent[idx].PkScript = pkScript
		sh := helperMid(r, ht, tx, spent)
		w, err := txscript.TaprootWitnessSignature(tx, sh, idx, amt, pkScript, ht, k.priv)
		if err != nil {
			res.err = true
			return res
		}
		tx.TxIn[idx].Witness = w

	case "p2tr-script":
		res.form = "tap"
		internal, k := newKey(r), newKey(r)
		leafScript, _ := txscript.NewScriptBuilder().AddData(schnorr.SerializePubKey(k.pub)).AddOp(txscript.OP_CHECKSIG).Script()
		leaves := []txscript.TapLeaf{txscript.NewBaseTapLeaf(leafScript)}
		nOther := r.Intn(3)
		for i := 0; i < nOther; i++ {
			leaves = append(leaves, txscript.NewBaseTapLeaf(append([]byte{0x51}, r.Bytes(3)...)))
		}
		tree := txscript.AssembleTaprootScriptTree(leaves...)
		root := tree.RootNode.TapHash()
		outKey := txscript.ComputeTaprootOutputKey(internal.pub, root[:])
		pkScript, err := txscript.PayToTaprootScript(outKey)
		must(err)
		spent[idx].PkScript = pkScript
		sh := helperMid(r, ht, tx, spent)
		sig, err := txscript.RawTxInTapscriptSignature(tx, sh, idx, amt, pkScript, leaves[0], ht, k.priv)
		if err != nil {
			res.err = true
			return res
		}
		proof := tree.LeafMerkleProofs[0]
		cb := proof.ToControlBlock(internal.pub)
		cbBytes, err := cb.ToBytes()
		must(err)
		tx.TxIn[idx].Witness = wire.TxWitness{sig, leafScript, cbBytes}
	case "p2tr-script-codesep":
		// leaf <pk1> CHECKSIGVERIFY CODESEPARATOR <pk2> CHECKSIG: the digests come from the exported
		// CalcTapscriptSignaturehash (blank position for pk1, WithBaseTapscriptVersion(2, leaf) for
		// pk2, the opcode position of the separator), signed with schnorr.Sign
		res.form = "tap"
		internal, k1, k2 := newKey(r), newKey(r), newKey(r)
		leafScript, _ := txscript.NewScriptBuilder().AddData(schnorr.SerializePubKey(k1.pub)).
			AddOp(txscript.OP_CHECKSIGVERIFY).AddOp(txscript.OP_CODESEPARATOR).
			AddData(schnorr.SerializePubKey(k2.pub)).AddOp(txscript.OP_CHECKSIG).Script()
		leaf := txscript.NewBaseTapLeaf(leafScript)
		tree := txscript.AssembleTaprootScriptTree(leaf)
		root := tree.RootNode.TapHash()
		pkScript, err := txscript.PayToTaprootScript(txscript.ComputeTaprootOutputKey(internal.pub, root[:]))
		must(err)
		spent[idx].PkScript = pkScript
		fetcher := mkFetcher(tx, spent)
		sh := txscript.NewTxSigHashes(tx, fetcher)
		lh := leaf.TapHash()
		d1, err := txscript.CalcTapscriptSignaturehash(sh, ht, tx, idx, fetcher, leaf)
		if err != nil {
			res.err = true
			return res
		}
		d2, err := txscript.CalcTapscriptSignaturehash(sh, ht, tx, idx, fetcher, leaf,
			txscript.WithBaseTapscriptVersion(2, lh[:]))
		must(err)
		mk := func(d []byte, k keyT) []byte {
			sg, err := schnorr.Sign(k.priv, d)
			must(err)
			b := sg.Serialize()
			if ht != txscript.SigHashDefault {
				b = append(b, byte(ht))
			}
			return b
		}
		cb := tree.LeafMerkleProofs[0].ToControlBlock(internal.pub)
		cbBytes, err := cb.ToBytes()
		must(err)
		tx.TxIn[idx].Witness = wire.TxWitness{mk(d2, k2), mk(d1, k1), leafScript, cbBytes}
	default:
		panic("kind " + kind)
	}
	return res
}

func sha256sum(b []byte) []byte { h := sha256.Sum256(b); return h[:] }

func safeBuildSigned(r *core.Rand, kind string, ht txscript.SigHashType, nIn, nOut, idx int) (s signed, crashed bool) {
	defer func() {
		if rec := recover(); rec != nil {
			crashed = true
		}
	}()
	return buildSigned(r, kind, ht, nIn, nOut, idx), false
}

func cloneTx(tx *wire.MsgTx) *wire.MsgTx { return tx.Copy() }
func cloneSpent(sp []*wire.TxOut) []*wire.TxOut {
	out := make([]*wire.TxOut, len(sp))
	for i, s := range sp {
		out[i] = &wire.TxOut{Value: s.Value, PkScript: append([]byte(nil), s.PkScript...)}
	}
	return out
}

var mutKinds = []string{"none", "ver", "lock", "seq", "seq-own", "prevhash", "previdx", "prev-own", "scriptsig", "witness",
	"outval", "outscript", "out-own", "addout", "delout", "addin", "delin", "amt", "amt-own", "spentscript", "annex-own"}

// apply a single-field mutation; returns false if it does not apply to this shape
func mutate(r *core.Rand, kind string, tx *wire.MsgTx, spent []*wire.TxOut, idx int) bool {
	other := func() int { // an input index different from idx
		if len(tx.TxIn) < 2 {
			return -1
		}
		i := r.Intn(len(tx.TxIn) - 1)
		if i >= idx {
			i++
		}
		return i
	}
	switch kind {
	case "none":
	case "ver":
		tx.Version ^= int32(1) << uint(r.Intn(32))
	case "lock":
		tx.LockTime ^= uint32(1) << uint(r.Intn(32))
	case "seq":
		i := other()
		if i < 0 {
			return false
		}
		tx.TxIn[i].Sequence ^= uint32(1) << uint(r.Intn(32))
	case "seq-own":
		tx.TxIn[idx].Sequence ^= uint32(1) << uint(r.Intn(32))
	case "prevhash":
		i := other()
		if i < 0 {
			return false
		}
		tx.TxIn[i].PreviousOutPoint.Hash[1+r.Intn(31)] ^= byte(1 << uint(r.Intn(8)))
	case "previdx":
		i := other()
		if i < 0 {
			return false
		}
		tx.TxIn[i].PreviousOutPoint.Index ^= uint32(1) << uint(r.Intn(32))
	case "prev-own":
		if r.Bool() {
			tx.TxIn[idx].PreviousOutPoint.Index ^= uint32(1) << uint(r.Intn(32))
		} else {
			tx.TxIn[idx].PreviousOutPoint.Hash[1+r.Intn(31)] ^= byte(1 << uint(r.Intn(8)))
		}
	case "scriptsig":
		i := other()
		if i < 0 {
			return false
		}
		tx.TxIn[i].SignatureScript = append(tx.TxIn[i].SignatureScript, byte(r.Intn(256)))
	case "witness":
		i := other()
		if i < 0 {
			return false
		}
		tx.TxIn[i].Witness = append(tx.TxIn[i].Witness, r.Bytes(1+r.Intn(4)))
	case "outval", "outscript":
		if len(tx.TxOut) == 0 {
			return false
		}
		j := r.Intn(len(tx.TxOut))
		if kind == "outval" {
			tx.TxOut[j].Value ^= int64(1) << uint(r.Intn(50))
		} else {
			tx.TxOut[j].PkScript = append(append([]byte(nil), tx.TxOut[j].PkScript...), byte(r.Intn(256)))
		}
	case "out-own":
		if idx >= len(tx.TxOut) {
			return false
		}
		tx.TxOut[idx].Value ^= int64(1) << uint(r.Intn(50))
	case "addout":
		tx.TxOut = append(tx.TxOut, &wire.TxOut{Value: int64(r.Intn(1000)), PkScript: r.Bytes(r.Intn(5))})
	case "delout":
		if len(tx.TxOut) == 0 {
			return false
		}
		tx.TxOut = tx.TxOut[:len(tx.TxOut)-1]
	case "annex-own": // taproot only: an annex appended to the signed input's own witness is committed
		if len(tx.TxIn[idx].Witness) == 0 || len(spent[idx].PkScript) != 34 || spent[idx].PkScript[0] != 0x51 {
			return false
		}
		tx.TxIn[idx].Witness = append(append(wire.TxWitness(nil), tx.TxIn[idx].Witness...),
			append([]byte{0x50}, r.Bytes(r.Intn(4))...))
	case "addin", "delin": // change the length of the spent list: done by the caller
		return false
	case "amt":
		i := other()
		if i < 0 {
			return false
		}
		spent[i].Value ^= int64(1) << uint(r.Intn(40))
	case "amt-own":
		spent[idx].Value ^= int64(1) << uint(r.Intn(40))
	case "spentscript":
		i := other()
		if i < 0 {
			return false
		}
		spent[i].PkScript = append(append([]byte(nil), spent[i].PkScript...), 0x51)
	}
	return true
}

var signKinds = []string{"p2pk", "p2pkh", "p2pkh-u", "multisig", "p2sh-p2pkh", "p2sh-multisig", "legacy-codesep",
	"multisig-merge", "p2sh-multisig-merge", "p2sh-p2wpkh", "p2tr-key-tree", "p2tr-script-codesep", "p2pkh-direct", "p2pkh-direct-u", "p2wpkh-u",
	"multisig-rounds", "p2sh-multisig-rounds", "multisig-rounds", "p2sh-multisig-rounds", "p2pkh-resign", "p2pk-resign",
	"p2sh-p2pkh-resign",
	"p2wpkh", "p2wsh", "p2wsh-codesep", "p2wsh-multisig", "p2tr-key", "p2tr-script"}

// SignTxOutput on pkScript classes it cannot sign: must return an error, never a script
func genSignClasses(g *core.Gen) {
	r := g.R
	k := newKey(r)
	h20 := address.Hash160(k.pub.SerializeCompressed())
	classes := map[string][]byte{
		"wpkh":     append([]byte{0x00, 0x14}, h20...),
		"wsh":      append([]byte{0x00, 0x20}, r.Bytes(32)...),
		"tr":       append([]byte{0x51, 0x20}, r.Bytes(32)...),
		"nulldata": append([]byte{0x6a, 0x04}, r.Bytes(4)...),
		"nonstd":   {0x76, 0x76, 0x87},
		"empty":    {},
	}
	names := []string{"wpkh", "wsh", "tr", "nulldata", "nonstd", "empty"}
	any := txscript.KeyClosure(func(address.Address) (*btcec.PrivateKey, bool, error) { return k.priv, true, nil })
	noS := txscript.ScriptClosure(func(address.Address) ([]byte, error) { return nil, fmt.Errorf("nope") })
	for _, name := range names {
		for _, ht := range []txscript.SigHashType{1, 0x83} {
			tx, _ := randTx(r, 2, 2)
			obs := "err"
			if ss, err := txscript.SignTxOutput(params, tx, 0, classes[name], ht, any, noS, nil); err == nil {
				obs = "script:" + hx(ss)
			}
			g.Case("sign-unsignable-class", true, fmt.Sprintf("C07 signclass %s %s", name, obs))
		}
	}
}

func genSign(g *core.Gen) {
	r := g.R
	func() {
		defer func() { recover() }()
		genSignClasses(g)
	}()
	definedHT := []txscript.SigHashType{1, 2, 3, 0x81, 0x82, 0x83}
	for k := 0; k < g.N(336, 6160); k++ {
		kind := signKinds[k%len(signKinds)]
		if k == 7 {
			kind = "multisig-15" // 15-of-15, fifteen rounds, fifteen hash types
		}
		nIn, nOut := 1+r.Intn(3), r.Intn(4)
		idx := r.Intn(nIn)
		ht := definedHT[r.Intn(len(definedHT))]
		switch {
		case r.Chance(1, 6):
			ht = 0
		case r.Chance(1, 8):
			ht = txscript.SigHashType(r.Intn(256))
		}
		s, crashed := safeBuildSigned(r, kind, ht, nIn, nOut, idx)
		if crashed { // the real code panicked while signing: report a failing line instead of crashing
			g.Case("helper-panic", true, fmt.Sprintf("C07 helper legacy %d %d %d %d panic:%s", uint32(ht), idx, nIn, nOut, kind))
			continue
		}
		obs := "ok"
		if s.err {
			obs = "err"
		}
		g.Case("helper-"+s.form, true, fmt.Sprintf("C07 helper %s %d %d %d %d %s", s.form, uint32(ht), idx, nIn, nOut, obs))
		if s.err {
			continue
		}
		origTx, origSp := encTx(s.tx), encSpent(s.spent)
		htTok := fmt.Sprint(uint32(ht))
		if s.hts != "" {
			htTok = s.hts
		}
		nm := 5
		muts := []string{"none"}
		for i := 0; i < nm; i++ {
			muts = append(muts, mutKinds[1+r.Intn(len(mutKinds)-1)])
		}
		for _, mk := range muts {
			tx2, sp2 := cloneTx(s.tx), cloneSpent(s.spent)
			switch mk {
			case "addin":
				in := &wire.TxIn{Sequence: r.U32()}
				copy(in.PreviousOutPoint.Hash[:], r.Bytes(32))
				in.PreviousOutPoint.Hash[0] = 0xee
				tx2.TxIn = append(tx2.TxIn, in)
				sp2 = append(sp2, &wire.TxOut{Value: 7, PkScript: []byte{0x51}})
			case "delin":
				if idx == len(tx2.TxIn)-1 {
					continue
				}
				tx2.TxIn = tx2.TxIn[:len(tx2.TxIn)-1]
				sp2 = sp2[:len(sp2)-1]
			default:
				if !mutate(r, mk, tx2, sp2, idx) {
					continue
				}
			}
			cache := "c"
			if r.Bool() {
				cache = "n" // no midstate supplied: the engine computes it itself
			}
			switch r.Intn(3) {
			case 0:
				cache += "s" // with a signature cache populated by verifying the original
			case 1:
				cache += "r" // fresh signature cache, the same verification repeated on it
			}
			cls := "sign-" + kind
			if mk != "none" {
				cls = "mut-" + s.form + "-" + mk
			}
			g.Case(cls, true, strings.Join([]string{"C07 sign", s.form, s.mode, cache,
				htTok, fmt.Sprint(idx), origTx, origSp, encTx(tx2), encSpent(sp2)}, " "))
		}
	}
}
