// Package p07: correspondence for C07 (signature hashes: legacy, BIP143, BIP341/342;
// midstate cache; FindAndDelete / code separator removal; sigcache; signing helpers).
package p07

import (
	"time"
	"bytes"
	"sync"
	"encoding/hex"
	"encoding/json"
	"fmt"
	"os"
	"strconv"
	"strings"

	"github.com/btcsuite/btcd/chainhash/v2"
	"github.com/btcsuite/btcd/txscript/v2"
	"github.com/btcsuite/btcd/wire/v2"
	"verifharness/core"
)

type P struct{}

func (P) ID() string { return "C07" }

// ---------------------------------------------------------------- facts (T2)

func (P) Facts() (out []core.Fact) {
	defer func() { // never crash fact extraction on a mutated tree: a missing fact breaks a pin theorem instead
		if r := recover(); r != nil {
			out = nil
		}
	}()
	// Only values the protocol / BIPs fix and the package exports. Internal identifiers (sigHashMask,
	// blankCodeSepValue, ext flag constants, isValidTaprootSigHash) are NOT read: their effect is
	// observed through the digests.
	fs := []core.Fact{
		{Name: "sigHashDefault", Value: int64(txscript.SigHashDefault)},
		{Name: "sigHashOld", Value: int64(txscript.SigHashOld)},
		{Name: "sigHashAll", Value: int64(txscript.SigHashAll)},
		{Name: "sigHashNone", Value: int64(txscript.SigHashNone)},
		{Name: "sigHashSingle", Value: int64(txscript.SigHashSingle)},
		{Name: "sigHashAnyOneCanPay", Value: int64(txscript.SigHashAnyOneCanPay)},
		{Name: "opCodeSeparator", Value: int64(txscript.OP_CODESEPARATOR)},
		{Name: "taprootAnnexTag", Value: int64(txscript.TaprootAnnexTag)},
		{Name: "baseLeafVersion", Value: int64(txscript.BaseLeafVersion)},
	}
	var tag []int64
	for _, b := range chainhash.TagTapSighash {
		tag = append(tag, int64(b))
	}
	fs = append(fs, core.Fact{Name: "tagTapSighash", Value: tag})
	var ltag []int64
	for _, b := range chainhash.TagTapLeaf {
		ltag = append(ltag, int64(b))
	}
	fs = append(fs, core.Fact{Name: "tagTapLeaf", Value: ltag})
	// the hash types the exported CalcTaprootSignatureHash accepts, over the whole byte range (BIP341)
	tx := &wire.MsgTx{Version: 2, TxIn: []*wire.TxIn{{}}, TxOut: []*wire.TxOut{{Value: 1}}}
	tx.TxIn[0].PreviousOutPoint.Hash[0] = 1
	fetcher := txscript.NewCannedPrevOutputFetcher(append([]byte{0x51, 0x20}, make([]byte, 32)...), 1)
	sh := txscript.NewTxSigHashes(tx, fetcher)
	var valid []int64
	for i := 0; i < 256; i++ {
		if _, err := txscript.CalcTaprootSignatureHash(sh, txscript.SigHashType(i), tx, 0, fetcher); err == nil {
			valid = append(valid, int64(i))
		}
	}
	fs = append(fs, core.Fact{Name: "validTaprootSigHashes", Value: valid})
	return fs
}

// ---- what is inside the property's domain (anything else is answered "out-of-domain" by both sides)

func isP2TR(s []byte) bool { return len(s) == 34 && s[0] == 0x51 && s[1] == 0x20 }

// does the transaction have an input of the kind the midstate is used for (the classification
// NewTxSigHashes documents: coinbase or non-taproot prevout = v0, taproot prevout = v1)
func inputKinds(tx *wire.MsgTx, spent []*wire.TxOut) (v0, v1 bool) {
	seen := map[wire.OutPoint]*wire.TxOut{}
	for i, in := range tx.TxIn {
		if _, ok := seen[in.PreviousOutPoint]; !ok && i < len(spent) {
			seen[in.PreviousOutPoint] = spent[i]
		}
	}
	for _, in := range tx.TxIn {
		op := in.PreviousOutPoint
		if op.Index == 0xffffffff && op.Hash == (chainhash.Hash{}) {
			v0 = true
			continue
		}
		if isP2TR(seen[op].PkScript) {
			v1 = true
		} else {
			v0 = true
		}
	}
	return
}

func scriptParses(s []byte) bool {
	t := txscript.MakeScriptTokenizer(0, s)
	for t.Next() {
	}
	return t.Err() == nil
}

// rejected: a call outside the documented domain must not produce a digest; error and panic are both fine
func rejected(f func() string) (out string) {
	defer func() {
		if r := recover(); r != nil {
			out = "rejected"
		}
	}()
	out = f()
	if out == "err" {
		return "rejected"
	}
	return "unexpected:" + out
}

// ---------------------------------------------------------------- line codec

func hx(b []byte) string {
	if len(b) == 0 {
		return "-"
	}
	return hex.EncodeToString(b)
}

func unhx(s string) []byte {
	if s == "-" {
		return nil
	}
	b, err := hex.DecodeString(s)
	if err != nil {
		panic("bad hex")
	}
	return b
}

func atoi(s string) int64 {
	v, err := strconv.ParseInt(s, 10, 64)
	if err != nil {
		panic(err)
	}
	return v
}

func encTx(tx *wire.MsgTx) string {
	ins := make([]string, len(tx.TxIn))
	for i, in := range tx.TxIn {
		ws := make([]string, len(in.Witness))
		for j, w := range in.Witness {
			ws[j] = hex.EncodeToString(w) // empty item = empty string between dots
		}
		w := "-"
		if len(ws) > 0 {
			w = strings.Join(ws, ".")
		}
		ins[i] = fmt.Sprintf("%s:%d:%s:%d:%s", hex.EncodeToString(in.PreviousOutPoint.Hash[:]),
			in.PreviousOutPoint.Index, hx(in.SignatureScript), in.Sequence, w)
	}
	outs := make([]string, len(tx.TxOut))
	for i, o := range tx.TxOut {
		outs[i] = fmt.Sprintf("%d:%s", o.Value, hx(o.PkScript))
	}
	j := func(xs []string) string {
		if len(xs) == 0 {
			return "-"
		}
		return strings.Join(xs, ",")
	}
	return fmt.Sprintf("%d/%s/%s/%d", tx.Version, j(ins), j(outs), tx.LockTime)
}

func decTx(s string) *wire.MsgTx {
	p := strings.Split(s, "/")
	if len(p) != 4 {
		panic("bad tx")
	}
	tx := &wire.MsgTx{Version: int32(atoi(p[0])), LockTime: uint32(atoi(p[3]))}
	if p[1] != "-" {
		for _, is := range strings.Split(p[1], ",") {
			f := strings.Split(is, ":")
			in := &wire.TxIn{SignatureScript: unhx(f[2]), Sequence: uint32(atoi(f[3]))}
			copy(in.PreviousOutPoint.Hash[:], unhx(f[0]))
			in.PreviousOutPoint.Index = uint32(atoi(f[1]))
			if f[4] != "-" {
				for _, w := range strings.Split(f[4], ".") {
					b, err := hex.DecodeString(w)
					if err != nil {
						panic("bad hex")
					}
					in.Witness = append(in.Witness, b)
				}
			}
			tx.TxIn = append(tx.TxIn, in)
		}
	}
	if p[2] != "-" {
		for _, os := range strings.Split(p[2], ",") {
			tx.TxOut = append(tx.TxOut, decOut(os))
		}
	}
	return tx
}

func decOut(s string) *wire.TxOut {
	f := strings.Split(s, ":")
	return &wire.TxOut{Value: atoi(f[0]), PkScript: unhx(f[1])}
}

func encSpent(sp []*wire.TxOut) string {
	if len(sp) == 0 {
		return "-"
	}
	xs := make([]string, len(sp))
	for i, o := range sp {
		xs[i] = fmt.Sprintf("%d:%s", o.Value, hx(o.PkScript))
	}
	return strings.Join(xs, ",")
}

func decSpent(s string) []*wire.TxOut {
	if s == "-" {
		return nil
	}
	var out []*wire.TxOut
	for _, o := range strings.Split(s, ",") {
		out = append(out, decOut(o))
	}
	return out
}

// fetcher keyed by outpoint; the first input with a given outpoint wins
func mkFetcher(tx *wire.MsgTx, spent []*wire.TxOut) *txscript.MultiPrevOutFetcher {
	m := map[wire.OutPoint]*wire.TxOut{}
	for i, in := range tx.TxIn {
		if _, ok := m[in.PreviousOutPoint]; !ok && i < len(spent) {
			m[in.PreviousOutPoint] = spent[i]
		}
	}
	return txscript.NewMultiPrevOutFetcher(m)
}

// ---------------------------------------------------------------- exec (real code)

// ectx records every transaction / spent-output list decoded for one case so that, after the
// real code ran, the harness can check that the caller's inputs were not written to
// (digests and midstates are values; the code under test works on copies).
type ectx struct {
	txs  []*wire.MsgTx
	txS  []string
	sps  [][]*wire.TxOut
	spS  []string
	skip bool // the case mutates its inputs on purpose
}

func (c *ectx) decTx(s string) *wire.MsgTx {
	tx := decTx(s)
	c.txs, c.txS = append(c.txs, tx), append(c.txS, s)
	return tx
}

func (c *ectx) decSpent(s string) []*wire.TxOut {
	sp := decSpent(s)
	c.sps, c.spS = append(c.sps, sp), append(c.spS, s)
	return sp
}

func (c *ectx) mutated() bool {
	if c.skip {
		return false
	}
	for i, tx := range c.txs {
		if encTx(tx) != c.txS[i] {
			return true
		}
	}
	for i, sp := range c.sps {
		if encSpent(sp) != c.spS[i] {
			return true
		}
	}
	return false
}

// VERIF_C07_DUMP=<file>: append "line\tanswer" for every executed case (debugging aid)
var dumpFile *os.File

func (p P) Exec(line string) (out string) {
	if path := os.Getenv("VERIF_C07_DUMP"); path != "" {
		if dumpFile == nil {
			dumpFile, _ = os.OpenFile(path, os.O_CREATE|os.O_WRONLY|os.O_TRUNC, 0o644)
		}
		defer func() {
			if r := recover(); r != nil {
				fmt.Fprintf(dumpFile, "%s\tpanic\n", line)
				panic(r)
			}
			fmt.Fprintf(dumpFile, "%s\t%s\n", line, out)
		}()
	}
	// watchdog: a (mutated) tree must not be able to hang the harness (lost unlock, endless loop)
	done := make(chan string, 1)
	go func() {
		defer func() {
			if r := recover(); r != nil {
				done <- "panic"
			}
		}()
		c := &ectx{}
		o := c.exec(line)
		if c.mutated() {
			o = "mutated-input"
		}
		done <- o
	}()
	select {
	case o := <-done:
		return o
	case <-time.After(60 * time.Second):
		return "timeout"
	}
}

// exec applies the domain rules, then runs the real code (execInner)
func (c *ectx) exec(line string) string {
	f := strings.Fields(line)
	if len(f) < 3 || f[0] != "C07" {
		return c.execInner(line)
	}
	nilCase := func(supplied string) string {
		// a nil midstate is outside the documented domain: admissible outcomes are a rejection
		// (error or panic) or exactly the digest obtained with a supplied midstate
		r1 := func() (out string) {
			defer func() {
				if r := recover(); r != nil {
					out = "panic"
				}
			}()
			return c.execInner(line)
		}()
		if r1 == "panic" || r1 == "err" {
			return "nil-rejected-or-equal"
		}
		if r2 := (&ectx{}).execInner(supplied); r1 == r2 {
			return "nil-rejected-or-equal"
		}
		return "nil-differs:" + r1
	}
	blankSpent := func(tx *wire.MsgTx) string {
		if len(tx.TxIn) == 0 {
			return "-"
		}
		return strings.TrimSuffix(strings.Repeat("0:-,", len(tx.TxIn)), ",")
	}
	switch f[1] {
	case "legacy", "legacyapi", "legacyvec":
		tx := decTx(f[2])
		if int(atoi(f[3])) >= len(tx.TxIn) {
			return "out-of-domain" // not an input: the interpreter never asks, the spec is silent
		}
		if f[1] == "legacy" && !scriptParses(unhx(f[5])) {
			return "out-of-domain" // the unexported function is only called on parsed scripts
		}
	case "wit", "witapi", "tap", "tapapi", "tapopt":
		tx, spent := decTx(f[2]), decSpent(f[3])
		if f[1] == "tapopt" && f[6] == "n" {
			g := append([]string(nil), f...)
			g[6] = "c"
			return nilCase(strings.Join(g, " "))
		}
		v0, v1 := inputKinds(tx, spent)
		if (strings.HasPrefix(f[1], "wit") && !v0) || (strings.HasPrefix(f[1], "tap") && !v1) {
			return "out-of-domain" // midstate computed for a transaction without an input of the kind being signed
		}
		if int(atoi(f[4])) >= len(tx.TxIn) {
			return rejected(func() string { return c.execInner(line) })
		}
	case "witnil", "witapinil":
		tx := decTx(f[2])
		op := map[string]string{"witnil": "wit", "witapinil": "witapi"}[f[1]]
		return nilCase(strings.Join([]string{"C07", op, f[2], blankSpent(tx), f[3], f[4], f[5], f[6]}, " "))
	case "tapnil":
		g := append([]string(nil), f...)
		g[1] = "tap"
		return nilCase(strings.Join(g, " "))
	case "rmop", "rmdata":
		if !scriptParses(unhx(f[2])) {
			return "out-of-domain"
		}
	}
	return c.execInner(line)
}

func (c *ectx) execInner(line string) string {
	f := strings.Fields(line)
	if len(f) < 2 || f[0] != "C07" {
		return "bad-op"
	}
	switch f[1] {
	case "legacy", "legacyapi":
		tx := c.decTx(f[2])
		idx := int(atoi(f[3]))
		ht := txscript.SigHashType(uint32(atoi(f[4])))
		script := unhx(f[5])
		if f[1] == "legacyapi" {
			h, err := txscript.CalcSignatureHash(script, ht, tx, idx)
			if err != nil {
				return "err"
			}
			return hex.EncodeToString(h)
		}
		return hex.EncodeToString(txscript.VerifCalcSignatureHash(script, ht, tx, idx))
	case "legacyvec": // Bitcoin Core's sighash.json: digest must equal the published value
		tx := c.decTx(f[2])
		h, err := txscript.CalcSignatureHash(unhx(f[5]), txscript.SigHashType(uint32(atoi(f[4]))), tx, int(atoi(f[3])))
		if err != nil {
			return "err"
		}
		if hex.EncodeToString(h) == f[6] {
			return "match"
		}
		return hex.EncodeToString(h)
	case "wit", "witapi":
		tx := c.decTx(f[2])
		spent := c.decSpent(f[3])
		idx := int(atoi(f[4]))
		ht := txscript.SigHashType(uint32(atoi(f[5])))
		sub := unhx(f[6])
		amt := atoi(f[7])
		sh := txscript.NewTxSigHashes(tx, mkFetcher(tx, spent))
		var h []byte
		var err error
		if f[1] == "witapi" {
			h, err = txscript.CalcWitnessSigHash(sub, sh, ht, tx, idx, amt)
		} else {
			h, err = txscript.VerifCalcWitnessSignatureHashRaw(sub, sh, ht, tx, idx, amt)
		}
		if err != nil {
			return "err"
		}
		return hex.EncodeToString(h)
	case "witnil": // sigHashes == nil
		tx := c.decTx(f[2])
		h, err := txscript.VerifCalcWitnessSignatureHashRaw(unhx(f[5]), nil,
			txscript.SigHashType(uint32(atoi(f[4]))), tx, int(atoi(f[3])), atoi(f[6]))
		if err != nil {
			return "err"
		}
		return hex.EncodeToString(h)
	case "tapnil":
		tx := c.decTx(f[2])
		spent := c.decSpent(f[3])
		var o txscript.VerifTaprootOpts
		if f[6] != "x" {
			o.HasAnnex = true
			o.Annex = unhx(f[6])
		}
		if f[7] != "x" {
			p := strings.Split(f[7], ":")
			o.Tapscript = true
			o.TapLeafHash = unhx(p[0])
			o.CodeSepPos = uint32(atoi(p[1]))
		}
		h, err := txscript.VerifCalcTaprootSignatureHashRaw(nil, txscript.SigHashType(uint32(atoi(f[5]))), tx,
			int(atoi(f[4])), mkFetcher(tx, spent), o)
		if err != nil {
			return "err"
		}
		return hex.EncodeToString(h)
	case "tapapi": // exported CalcTaprootSignatureHash / CalcTapscriptSignaturehash
		tx := c.decTx(f[2])
		spent := c.decSpent(f[3])
		idx := int(atoi(f[4]))
		ht := txscript.SigHashType(uint32(atoi(f[5])))
		fetcher := mkFetcher(tx, spent)
		sh := txscript.NewTxSigHashes(tx, fetcher)
		var h []byte
		var err error
		if f[7] == "x" {
			h, err = txscript.CalcTaprootSignatureHash(sh, ht, tx, idx, fetcher)
		} else {
			p := strings.Split(f[7], ":")
			leaf := txscript.NewTapLeaf(txscript.TapscriptLeafVersion(atoi(p[0])), unhx(p[1]))
			var opts []txscript.TaprootSigHashOption
			if f[6] != "x" {
				opts = append(opts, txscript.WithAnnex(unhx(f[6])))
			}
			h, err = txscript.CalcTapscriptSignaturehash(sh, ht, tx, idx, fetcher, leaf, opts...)
		}
		if err != nil {
			return "err"
		}
		return hex.EncodeToString(h)
	case "tapopt": // exported taproot entry points, full option matrix
		// tapopt <tx> <spent> <idx> <ht> <cache c|n> <fetcher m|k|g> <leaf x|ver:script> <opts>
		tx := c.decTx(f[2])
		spent := c.decSpent(f[3])
		idx := int(atoi(f[4]))
		ht := txscript.SigHashType(uint32(atoi(f[5])))
		var fetcher txscript.PrevOutputFetcher
		switch f[7] {
		case "k": // all spent outputs equal: the canned fetcher
			fetcher = txscript.NewCannedPrevOutputFetcher(spent[0].PkScript, spent[0].Value)
		case "g": // multi fetcher assembled with AddPrevOut + Merge
			a, b := txscript.NewMultiPrevOutFetcher(nil), txscript.NewMultiPrevOutFetcher(nil)
			seen := map[wire.OutPoint]bool{}
			for i, in := range tx.TxIn {
				if seen[in.PreviousOutPoint] {
					continue
				}
				seen[in.PreviousOutPoint] = true
				if i%2 == 0 {
					a.AddPrevOut(in.PreviousOutPoint, spent[i])
				} else {
					b.AddPrevOut(in.PreviousOutPoint, spent[i])
				}
			}
			a.Merge(b)
			fetcher = a
		default:
			fetcher = mkFetcher(tx, spent)
		}
		var sh *txscript.TxSigHashes
		if f[6] == "c" {
			sh = txscript.NewTxSigHashes(tx, fetcher)
		}
		var h []byte
		var err error
		if f[8] == "x" {
			h, err = txscript.CalcTaprootSignatureHash(sh, ht, tx, idx, fetcher)
		} else {
			p := strings.Split(f[8], ":")
			leaf := txscript.NewTapLeaf(txscript.TapscriptLeafVersion(atoi(p[0])), unhx(p[1]))
			var opts []txscript.TaprootSigHashOption
			if f[9] != "-" {
				for _, o := range strings.Split(f[9], ",") {
					q := strings.Split(o, ".")
					switch q[0] {
					case "A":
						opts = append(opts, txscript.WithAnnex(unhx(q[1])))
					case "B":
						opts = append(opts, txscript.WithBaseTapscriptVersion(uint32(atoi(q[1])), unhx(q[2])))
					}
				}
			}
			h, err = txscript.CalcTapscriptSignaturehash(sh, ht, tx, idx, fetcher, leaf, opts...)
		}
		if err != nil {
			return "err"
		}
		return hex.EncodeToString(h)
	case "witapinil": // exported CalcWitnessSigHash with a nil midstate
		tx := c.decTx(f[2])
		h, err := txscript.CalcWitnessSigHash(unhx(f[5]), nil, txscript.SigHashType(uint32(atoi(f[4]))), tx,
			int(atoi(f[3])), atoi(f[6]))
		if err != nil {
			return "err"
		}
		return hex.EncodeToString(h)
	case "conc":
		return execConc(f[2:])
	case "sigconc":
		return execSigConc(f[2:])
	case "hashconc":
		return execHashConc(c, f[2:])
	case "midreuse":
		return execMidReuse(c, f[2:])
	case "sigevict":
		return execSigEvict(f[2:])
	case "hashcache":
		return execHashCache(c, f[2:])
	case "tap":
		tx := c.decTx(f[2])
		spent := c.decSpent(f[3])
		idx := int(atoi(f[4]))
		ht := txscript.SigHashType(uint32(atoi(f[5])))
		var o txscript.VerifTaprootOpts
		if f[6] != "x" {
			o.HasAnnex = true
			o.Annex = unhx(f[6])
		}
		if f[7] != "x" {
			p := strings.Split(f[7], ":")
			o.Tapscript = true
			o.TapLeafHash = unhx(p[0])
			o.CodeSepPos = uint32(atoi(p[1]))
		}
		fetcher := mkFetcher(tx, spent)
		sh := txscript.NewTxSigHashes(tx, fetcher)
		h, err := txscript.VerifCalcTaprootSignatureHashRaw(sh, ht, tx, idx, fetcher, o)
		if err != nil {
			return "err"
		}
		return hex.EncodeToString(h)
	case "rmop":
		return hx(txscript.VerifRemoveOpcodeRaw(unhx(f[2]), byte(atoi(f[3]))))
	case "rmdata":
		r, m := txscript.VerifRemoveOpcodeByData(unhx(f[2]), unhx(f[3]))
		if m {
			return hx(r) + " 1"
		}
		return hx(r) + " 0"
	case "sigcache":
		c := txscript.NewSigCache(uint(atoi(f[2])))
		return runSigHistory(c, f[3:])
	case "sign":
		return execSign(c, f[2:])
	case "signexec": // sign at EXEC time with a seeded stream, verify unmutated (regression net for sign-time defects)
		// signexec <kind> <seed> <ht> <nIn> <nOut> <idx>
		sd := buildSigned(core.NewRand(uint64(atoi(f[3]))), f[2], txscript.SigHashType(uint32(atoi(f[4]))),
			int(atoi(f[5])), int(atoi(f[6])), int(atoi(f[7])))
		if sd.err {
			return "signerr"
		}
		return execSign(&ectx{}, []string{sd.form, sd.mode, "c", "1", f[7], "-", "-", encTx(sd.tx), encSpent(sd.spent)})
	case "signclass": // observation made at generation time (SignTxOutput on an unsignable class)
		if len(f) != 4 {
			return "bad-op"
		}
		return f[3]
	case "helper": // observation made at generation time (did the signing helper return an error)
		if len(f) != 8 {
			return "bad-op"
		}
		return f[7]
	}
	return "bad-op"
}

// sigcache history: a:<hash>:<sig>:<pk> Add, e:… Exists, x:<i> the caller overwrites the buffers it
// passed to the i-th Add (entries are values: later answers must not change)
func runSigHistory(c *txscript.SigCache, ops []string) string {
	// Property level: a hit must be a triple that was added (by value). Misses are always admissible
	// (capacity, eviction policy are internal). Per Exists: "U" = unsound hit, otherwise whether the triple
	// was ever added -- which is what the Lean side answers.
	var out []string
	var bufs [][2][]byte
	added := map[string]bool{}
	for _, op := range ops {
		p := strings.Split(op, ":")
		switch p[0] {
		case "a":
			var h chainhash.Hash
			copy(h[:], unhx(p[1]))
			sig, pk := unhx(p[2]), unhx(p[3])
			c.Add(h, sig, pk)
			added[p[1]+":"+p[2]+":"+p[3]] = true
			bufs = append(bufs, [2][]byte{sig, pk})
		case "e":
			var h chainhash.Hash
			copy(h[:], unhx(p[1]))
			was := added[p[1]+":"+p[2]+":"+p[3]]
			switch {
			case c.Exists(h, unhx(p[2]), unhx(p[3])) && !was:
				out = append(out, "U")
			case was:
				out = append(out, "1")
			default:
				out = append(out, "0")
			}
		case "x":
			i := int(atoi(p[1]))
			if i < len(bufs) {
				for _, b := range bufs[i] {
					for j := range b {
						b[j] ^= 0xff
					}
				}
			}
		}
	}
	if len(out) == 0 {
		return "-"
	}
	return strings.Join(out, ",")
}

func splitBar(f []string) [][]string {
	var out [][]string
	cur := []string{}
	for _, t := range f {
		if t == "|" {
			out = append(out, cur)
			cur = []string{}
		} else {
			cur = append(cur, t)
		}
	}
	return append(out, cur)
}

// parallel runs the functions in goroutines released together, three rounds; every round must give
// the same answers (no hidden shared state between independent calls)
func parallel(fs []func() string) string {
	var first []string
	for round := 0; round < 3; round++ {
		res := make([]string, len(fs))
		var wg sync.WaitGroup
		gate := make(chan struct{})
		for i := range fs {
			wg.Add(1)
			go func(i int) {
				defer wg.Done()
				defer func() {
					if r := recover(); r != nil {
						res[i] = "panic"
					}
				}()
				<-gate
				res[i] = fs[i]()
			}(i)
		}
		close(gate)
		wg.Wait()
		if first == nil {
			first = res
		} else {
			for i := range res {
				if res[i] != first[i] {
					return "nondeterministic"
				}
			}
		}
	}
	return strings.Join(first, "|")
}

// conc <case> | <case> | …: independent digest cases computed concurrently
func execConc(f []string) string {
	subs := splitBar(f)
	fs := make([]func() string, len(subs))
	for i, sub := range subs {
		line := "C07 " + strings.Join(sub, " ")
		fs[i] = func() string {
			first := ""
			for rep := 0; rep < 12; rep++ {
				c := &ectx{}
				out := c.exec(line)
				if c.mutated() {
					return "mutated-input"
				}
				if rep == 0 {
					first = out
				} else if out != first {
					return "nondeterministic"
				}
			}
			return first
		}
	}
	return parallel(fs)
}

// sigconc <cap> <history> | <history> …: ONE SigCache shared by goroutines working on disjoint keys
func execSigConc(f []string) string {
	c := txscript.NewSigCache(uint(atoi(f[0])))
	subs := splitBar(f[1:])
	res := make([]string, len(subs))
	var wg sync.WaitGroup
	gate := make(chan struct{})
	for i := range subs {
		wg.Add(1)
		go func(i int) {
			defer wg.Done()
			<-gate
			res[i] = runSigHistory(c, subs[i])
		}(i)
	}
	close(gate)
	wg.Wait()
	return strings.Join(res, "|")
}

// hashconc <n> <tx spent>*n <ops> | <ops> …: ONE HashCache shared by goroutines, each on its own transactions
func execHashConc(ec *ectx, f []string) string {
	n := int(atoi(f[0]))
	var txs []*wire.MsgTx
	var sps [][]*wire.TxOut
	var ids []chainhash.Hash
	for i := 0; i < n; i++ {
		txs = append(txs, ec.decTx(f[1+2*i]))
		sps = append(sps, ec.decSpent(f[2+2*i]))
		ids = append(ids, txs[i].TxHash())
	}
	c := txscript.NewHashCache(4)
	kinds := make([][2]bool, n)
	for i := range txs {
		kinds[i][0], kinds[i][1] = inputKinds(txs[i], sps[i])
	}
	subs := splitBar(f[1+2*n:])
	res := make([]string, len(subs))
	var wg sync.WaitGroup
	gate := make(chan struct{})
	for i := range subs {
		wg.Add(1)
		go func(i int) {
			defer wg.Done()
			<-gate
			var out []string
			for _, op := range subs[i] {
				p := strings.Split(op, ":")
				k := int(atoi(p[1]))
				switch p[0] {
				case "a":
					c.AddSigHashes(txs[k], mkFetcher(txs[k], sps[k]))
				case "g":
					if sh, ok := c.GetSigHashes(&ids[k]); ok {
						out = append(out, showMidFor(sh, kinds[k][0], kinds[k][1]))
					} else {
						out = append(out, "none")
					}
				case "c":
					if c.ContainsHashes(&ids[k]) {
						out = append(out, "1")
					} else {
						out = append(out, "0")
					}
				case "p":
					c.PurgeSigHashes(&ids[k])
				}
			}
			if len(out) == 0 {
				res[i] = "-"
			} else {
				res[i] = strings.Join(out, ",")
			}
		}(i)
	}
	close(gate)
	wg.Wait()
	return strings.Join(res, "|")
}

// midreuse <tx1> <sp1> <tx2> <sp2> <idx> <ht>: midstates are values. Compute sh1, then sh2 for another
// transaction, scribble over transaction 1, and observe sh1 again, a BIP143 and a BIP341 digest made with
// sh1 on a pristine copy of transaction 1, and sh2.
func execMidReuse(ec *ectx, f []string) string {
	ec.skip = true
	tx1, sp1 := ec.decTx(f[0]), ec.decSpent(f[1])
	tx2, sp2 := ec.decTx(f[2]), ec.decSpent(f[3])
	idx := int(atoi(f[4]))
	ht := txscript.SigHashType(uint32(atoi(f[5])))
	keep, keepSp := decTx(f[0]), decSpent(f[1])
	sh1 := txscript.NewTxSigHashes(tx1, mkFetcher(tx1, sp1))
	sh2 := txscript.NewTxSigHashes(tx2, mkFetcher(tx2, sp2))
	scribble(tx1, sp1)
	_ = txscript.NewTxSigHashes(tx1, mkFetcher(tx1, sp1))
	d := func(h []byte, err error) string {
		if err != nil {
			return "err"
		}
		return hex.EncodeToString(h)
	}
	w := d(txscript.VerifCalcWitnessSignatureHashRaw([]byte{0xac}, sh1, ht, keep, idx, 12345))
	t := d(txscript.VerifCalcTaprootSignatureHashRaw(sh1, ht, keep, idx, mkFetcher(keep, keepSp), txscript.VerifTaprootOpts{}))
	a0, a1 := inputKinds(keep, keepSp)
	b0, b1 := inputKinds(decTx(f[2]), decSpent(f[3]))
	if !a0 {
		w = "-"
	}
	if !a1 {
		t = "-"
	}
	return showMidFor(sh1, a0, a1) + "," + w + "," + t + "," + showMidFor(sh2, b0, b1)
}

// sigevict <cap> <seed> <n>: a small cache that evicts (randomly). Only soundness is observable: every
// hit is a triple that was added before. Go-only assertion.
func execSigEvict(f []string) string {
	capn := uint(atoi(f[0]))
	r := core.NewRand(uint64(atoi(f[1])))
	n := int(atoi(f[2]))
	c := txscript.NewSigCache(capn)
	added := map[string]bool{}
	hits := 0
	for i := 0; i < n; i++ {
		var h chainhash.Hash
		h[0] = byte(r.Intn(12))
		sig := []byte{byte(r.Intn(3))}
		pk := []byte{byte(r.Intn(2))}
		key := string(h[:1]) + string(sig) + string(pk)
		if r.Bool() {
			c.Add(h, sig, pk)
			added[key] = true
		} else if c.Exists(h, sig, pk) {
			hits++
			if !added[key] {
				return "unsound"
			}
		}
	}
	return "sound"
}

// hashcache ops: a:<k> AddSigHashes(tx k), g:<k> GetSigHashes(txid k), c:<k> ContainsHashes, p:<k> Purge.
// line: hashcache <ntx> <tx0> <spent0> ... <ops...>; observation per g/c op.
// the midstate as the property sees it: V0 hashes only if the transaction has a v0 input, taproot-only
// hashes only if it has a taproot input (whether the others are computed or left zero is internal)
func showMidFor(sh *txscript.TxSigHashes, v0, v1 bool) string {
	out := hex.EncodeToString(sh.HashPrevOutsV1[:]) + hex.EncodeToString(sh.HashSequenceV1[:]) +
		hex.EncodeToString(sh.HashOutputsV1[:])
	if v0 {
		out += ":" + hex.EncodeToString(sh.HashPrevOutsV0[:]) + hex.EncodeToString(sh.HashSequenceV0[:]) +
			hex.EncodeToString(sh.HashOutputsV0[:])
	} else {
		out += ":-"
	}
	if v1 {
		out += ":" + hex.EncodeToString(sh.HashInputScriptsV1[:]) + hex.EncodeToString(sh.HashInputAmountsV1[:])
	} else {
		out += ":-"
	}
	return out
}

func execHashCache(ec *ectx, f []string) string {
	n := int(atoi(f[0]))
	var txs []*wire.MsgTx
	var sps [][]*wire.TxOut
	var ids []chainhash.Hash
	for i := 0; i < n; i++ {
		txs = append(txs, ec.decTx(f[1+2*i]))
		sps = append(sps, ec.decSpent(f[2+2*i]))
		ids = append(ids, txs[i].TxHash())
	}
	c := txscript.NewHashCache(10)
	kinds := make([][2]bool, n)
	for i := range txs {
		kinds[i][0], kinds[i][1] = inputKinds(txs[i], sps[i])
	}
	var out []string
	for _, op := range f[1+2*n:] {
		p := strings.Split(op, ":")
		k := int(atoi(p[1]))
		txid := ids[k]
		switch p[0] {
		case "a":
			c.AddSigHashes(txs[k], mkFetcher(txs[k], sps[k]))
		case "g":
			sh, ok := c.GetSigHashes(&txid)
			if ok {
				out = append(out, showMidFor(sh, kinds[k][0], kinds[k][1]))
			} else {
				out = append(out, "none")
			}
		case "c":
			if c.ContainsHashes(&txid) {
				out = append(out, "1")
			} else {
				out = append(out, "0")
			}
		case "p":
			c.PurgeSigHashes(&txid)
		case "m": // the caller scribbles over transaction k after it was added: cached midstates are values
			ec.skip = true
			scribble(txs[k], sps[k])
		}
	}
	if len(out) == 0 {
		return "-"
	}
	return strings.Join(out, ",")
}

// scribble writes to every byte the sighash code could have kept a reference to
func scribble(tx *wire.MsgTx, sp []*wire.TxOut) {
	tx.Version ^= 0x55
	tx.LockTime ^= 0x55
	for _, in := range tx.TxIn {
		in.PreviousOutPoint.Hash[3] ^= 0xff
		in.PreviousOutPoint.Index ^= 1
		in.Sequence ^= 0x10
		for i := range in.SignatureScript {
			in.SignatureScript[i] ^= 0xff
		}
	}
	for _, o := range tx.TxOut {
		o.Value ^= 0x7
		for i := range o.PkScript {
			o.PkScript[i] ^= 0xff
		}
	}
	for _, o := range sp {
		o.Value ^= 0x7
		for i := range o.PkScript {
			o.PkScript[i] ^= 0xff
		}
	}
}

// ---------------------------------------------------------------- generation

func randScriptBytes(r *core.Rand, n int) []byte { return r.Bytes(n) }

// a pk-script-like byte string of one of the recognised shapes
func randPkScript(r *core.Rand) []byte {
	switch r.Intn(9) {
	case 0: // P2TR
		return append([]byte{0x51, 0x20}, r.Bytes(32)...)
	case 1: // P2WPKH
		return append([]byte{0x00, 0x14}, r.Bytes(20)...)
	case 2: // P2WSH
		return append([]byte{0x00, 0x20}, r.Bytes(32)...)
	case 3: // P2PKH
		return append(append([]byte{0x76, 0xa9, 0x14}, r.Bytes(20)...), 0x88, 0xac)
	case 4:
		return nil
	case 5: // near-P2TR: wrong length / version
		b := append([]byte{0x51, 0x20}, r.Bytes(32)...)
		switch r.Intn(3) {
		case 0:
			b = b[:33]
		case 1:
			b[0] = 0x52
		case 2:
			b = append(b, 0)
		}
		return b
	case 6:
		return r.Bytes(253 + r.Intn(5))
	}
	return r.Bytes(r.Intn(40))
}

var edgeU32 = []uint32{0, 1, 2, 0xfffffffe, 0xffffffff, 0x80000000, 0x7fffffff, 0xfffffffd, 500000000, 499999999}
var edgeI64 = []int64{0, 1, -1, 2100000000000000, 2100000000000001, 9223372036854775807, -9223372036854775808, 546, 100000000}

func randTx(r *core.Rand, nIn, nOut int) (*wire.MsgTx, []*wire.TxOut) {
	tx := &wire.MsgTx{Version: int32(r.Pick(1, 2, 0, -1, 3, int64(int32(r.U32())))), LockTime: r.U32()}
	if r.Chance(1, 3) {
		tx.LockTime = edgeU32[r.Intn(len(edgeU32))]
	}
	var spent []*wire.TxOut
	for i := 0; i < nIn; i++ {
		in := &wire.TxIn{Sequence: r.U32()}
		if r.Chance(1, 3) {
			in.Sequence = edgeU32[r.Intn(len(edgeU32))]
		}
		copy(in.PreviousOutPoint.Hash[:], r.Bytes(32))
		in.PreviousOutPoint.Index = uint32(r.Intn(4))
		switch r.Intn(12) {
		case 0:
			in.PreviousOutPoint.Index = r.U32()
		case 1: // coinbase-looking outpoint
			in.PreviousOutPoint = wire.OutPoint{Index: 0xffffffff}
		case 2: // zero hash, ordinary index
			in.PreviousOutPoint.Hash = chainhash.Hash{}
		case 3: // duplicate of an earlier outpoint
			if i > 0 {
				in.PreviousOutPoint = tx.TxIn[r.Intn(i)].PreviousOutPoint
			}
		}
		if r.Chance(2, 3) {
			in.SignatureScript = r.Bytes(r.Intn(30))
		}
		if r.Chance(1, 40) {
			in.SignatureScript = r.Bytes(250 + r.Intn(8))
		}
		if r.Chance(1, 2) {
			nw := r.Intn(4)
			for j := 0; j < nw; j++ {
				in.Witness = append(in.Witness, r.Bytes(r.Intn(12)))
			}
		}
		tx.TxIn = append(tx.TxIn, in)
		so := &wire.TxOut{Value: int64(r.U64() % 2100000000000000), PkScript: randPkScript(r)}
		if r.Chance(1, 4) {
			so.Value = edgeI64[r.Intn(len(edgeI64))]
		}
		spent = append(spent, so)
	}
	for i := 0; i < nOut; i++ {
		o := &wire.TxOut{Value: int64(r.U64() % 2100000000000000), PkScript: randPkScript(r)}
		if r.Chance(1, 4) {
			o.Value = edgeI64[r.Intn(len(edgeI64))]
		}
		tx.TxOut = append(tx.TxOut, o)
	}
	return tx, spent
}

// make every spent script of one kind (so that NewTxSigHashes sees only v0 / only v1 inputs)
func forceKind(r *core.Rand, spent []*wire.TxOut, taproot bool) {
	for _, s := range spent {
		if taproot {
			s.PkScript = append([]byte{0x51, 0x20}, r.Bytes(32)...)
		} else if len(s.PkScript) == 34 && s.PkScript[0] == 0x51 && s.PkScript[1] == 0x20 {
			s.PkScript = append([]byte{0x00, 0x14}, r.Bytes(20)...)
		}
	}
}

// push of data with the smallest opcode (by size only)
func push(data []byte) []byte {
	n := len(data)
	switch {
	case n < 0x4c:
		return append([]byte{byte(n)}, data...)
	case n <= 0xff:
		return append([]byte{0x4c, byte(n)}, data...)
	case n <= 0xffff:
		return append([]byte{0x4d, byte(n), byte(n >> 8)}, data...)
	}
	return append([]byte{0x4e, byte(n), byte(n >> 8), byte(n >> 16), byte(n >> 24)}, data...)
}

// non-minimal pushes of the same data
func pushWith(op byte, data []byte) []byte {
	n := len(data)
	switch op {
	case 0x4c:
		return append([]byte{0x4c, byte(n)}, data...)
	case 0x4d:
		return append([]byte{0x4d, byte(n), byte(n >> 8)}, data...)
	case 0x4e:
		return append([]byte{0x4e, byte(n), byte(n >> 8), byte(n >> 16), byte(n >> 24)}, data...)
	}
	return push(data)
}

// script code with code separators, pushes of `sig` in several encodings, plain opcodes;
// optionally a malformed tail
func randScriptCode(r *core.Rand, sig []byte, malformed bool) []byte {
	var s []byte
	n := r.Intn(9)
	for i := 0; i < n; i++ {
		switch r.Intn(10) {
		case 0, 1:
			s = append(s, 0xab)
		case 2:
			s = append(s, push(sig)...)
		case 3:
			s = append(s, pushWith(byte(0x4c+r.Intn(3)), sig)...)
		case 4:
			s = append(s, push(r.Bytes(r.Intn(6)))...)
		case 5: // data that contains 0xab and the sig bytes, inside a push
			d := append([]byte{0xab}, sig...)
			s = append(s, push(d)...)
		case 6:
			s = append(s, pushWith(byte(0x4c+r.Intn(3)), r.Bytes(r.Intn(4)))...)
		case 7:
			s = append(s, byte(0x51+r.Intn(16)), 0x00, 0x4f)
		default:
			s = append(s, byte(r.Pick(0xac, 0xad, 0xae, 0x76, 0xa9, 0x87, 0x88, 0x61, 0xba, 0xff, 0x50, 0x62)))
		}
	}
	if malformed {
		switch r.Intn(5) {
		case 0:
			s = append(s, 0x05, 1, 2)
		case 1:
			s = append(s, 0x4c)
		case 2:
			s = append(s, 0x4d, 0x01)
		case 3:
			s = append(s, 0x4e, 0xff, 0xff, 0xff, 0xff, 1, 2, 3)
		case 4:
			s = append(s, 0x4e, 0x00, 0x00, 0x00, 0x80)
		}
	}
	return s
}

func randSig(r *core.Rand) []byte {
	switch r.Intn(6) {
	case 0:
		return []byte{byte(r.Intn(20))}
	case 1:
		return nil
	case 2:
		return r.Bytes(0x4b + r.Intn(3))
	case 3:
		return r.Bytes(0xff + r.Intn(3))
	}
	return r.Bytes(1 + r.Intn(8))
}

func shapeCounts(r *core.Rand) (int, int) {
	nIn, nOut := r.Intn(5), r.Intn(5)
	switch r.Intn(20) {
	case 0:
		nIn = 0
	case 1:
		nOut = 0
	case 2:
		nIn = 252 + r.Intn(3)
	case 3:
		nOut = 252 + r.Intn(3)
	}
	return nIn, nOut
}

var interestingHT = []uint32{0, 1, 2, 3, 4, 0x1f, 0x20, 0x21, 0x22, 0x23, 0x41, 0x7f, 0x80, 0x81, 0x82, 0x83, 0x84, 0x9f, 0xa3, 0xe2, 0xff,
	0x100, 0x101, 0x183, 0x10003, 0x80000001, 0xffffffff, 0xffffff03, 0xffffff82}

// Bitcoin Core's legacy sighash vectors shipped with btcd (independent reference values)
func genVectors(g *core.Gen) {
	repo := os.Getenv("VERIF_REPO")
	if repo == "" {
		repo = "/repo"
	}
	b, err := os.ReadFile(repo + "/txscript/data/sighash.json")
	if err != nil {
		return
	}
	var tests [][]interface{}
	if json.Unmarshal(b, &tests) != nil {
		return
	}
	for _, t := range tests {
		if len(t) != 5 {
			continue
		}
		raw, err := hex.DecodeString(t[0].(string))
		if err != nil {
			continue
		}
		var tx wire.MsgTx
		if tx.Deserialize(bytes.NewReader(raw)) != nil {
			continue
		}
		script, _ := hex.DecodeString(t[1].(string))
		idx := int(t[2].(float64))
		ht := uint32(int32(int64(t[3].(float64))))
		want, err := chainhash.NewHashFromStr(t[4].(string))
		if err != nil {
			continue
		}
		g.Case("legacy-core-vector", true, fmt.Sprintf("C07 legacyvec %s %d %d %s %s", encTx(&tx), idx, ht, hx(script),
			hex.EncodeToString(want[:])))
	}
}

// one small digest / removal case (tokens after "C07") for the concurrent and reuse classes
func randSmallCase(r *core.Rand) string {
	nIn, nOut := 1+r.Intn(3), r.Intn(3)
	tx, spent := randTx(r, nIn, nOut)
	for i, in := range tx.TxIn {
		in.PreviousOutPoint.Hash[0] = byte(i)
	}
	idx := r.Intn(nIn)
	hts := []uint32{0, 1, 2, 3, 0x81, 0x82, 0x83}
	ht := hts[r.Intn(len(hts))]
	switch r.Intn(6) {
	case 0:
		return fmt.Sprintf("legacy %s %d %d %s", encTx(tx), idx, ht, hx(randScriptCode(r, randSig(r), false)))
	case 1:
		forceKind(r, spent, false)
		return fmt.Sprintf("wit %s %s %d %d %s %d", encTx(tx), encSpent(spent), idx, ht, hx(randScriptCode(r, randSig(r), false)), int64(r.U64()%1000000))
	case 2:
		forceKind(r, spent, false)
		return fmt.Sprintf("witapi %s %s %d %d %s %d", encTx(tx), encSpent(spent), idx, ht, hx(append([]byte{0, 0x14}, r.Bytes(20)...)), int64(r.U64()%1000000))
	case 3:
		forceKind(r, spent, true)
		return fmt.Sprintf("tap %s %s %d %d %s %s:%d", encTx(tx), encSpent(spent), idx, ht, hx(append([]byte{0x50}, r.Bytes(3)...)), hx(r.Bytes(32)), r.U32())
	case 4:
		forceKind(r, spent, true)
		return fmt.Sprintf("tapopt %s %s %d %d c m %d:%s B.%d.%s,A.%s", encTx(tx), encSpent(spent), idx, ht, 0xc0, hx(randScriptCode(r, randSig(r), false)), r.Intn(5), hx(r.Bytes(32)), hx(r.Bytes(r.Intn(4))))
	}
	sig := randSig(r)
	return fmt.Sprintf("rmdata %s %s", hx(randScriptCode(r, sig, false)), hx(sig))
}

// boundary triples: every varint-prefixed field at the compact-size steps, push encodings at
// the PUSHDATA steps, counts at the steps
func genBoundaries(g *core.Gen) {
	r := g.R
	ones := func(n int) []byte { return bytes.Repeat([]byte{0x51}, n) }
	for _, n := range []int{251, 252, 253, 254, 255, 256, 65534, 65535, 65536, 65537} {
		hts := []uint32{1, 3, 0x81, 0x83}
		if n > 60000 && !g.Thorough() {
			if n == 65534 || n == 65537 {
				continue // the quick tier keeps the two sizes around the step
			}
			hts = []uint32{0x83}
		}
		for _, ht := range hts {
			tx, spent := randTx(r, 2, 2)
			for i, in := range tx.TxIn {
				in.PreviousOutPoint.Hash[0] = byte(i)
			}
			forceKind(r, spent, false)
			g.Case("boundary-script-length", true, fmt.Sprintf("C07 legacy %s 1 %d %s", encTx(tx), ht, hx(ones(n))))
			g.Case("boundary-script-length", true, fmt.Sprintf("C07 wit %s %s 1 %d %s 5000", encTx(tx), encSpent(spent), ht, hx(ones(n))))
			// output script / spent script / scriptSig of the other input of that length
			tx.TxOut[1].PkScript = ones(n)
			tx.TxIn[0].SignatureScript = ones(n)
			g.Case("boundary-script-length", true, fmt.Sprintf("C07 legacy %s 1 %d 51", encTx(tx), ht))
			g.Case("boundary-script-length", true, fmt.Sprintf("C07 wit %s %s 1 %d 51 5000", encTx(tx), encSpent(spent), ht))
			forceKind(r, spent, true)
			spent[1].PkScript = ones(n) // not P2TR any more: committed through ACP / sha_scriptpubkeys
			spent[0].PkScript = append([]byte{0x51, 0x20}, r.Bytes(32)...)
			g.Case("boundary-script-length", true, fmt.Sprintf("C07 tap %s %s 1 %d %s x", encTx(tx), encSpent(spent), ht, hx(append([]byte{0x50}, ones(n-1)...))))
		}
		// removal of a signature push of that length in every encoding that can hold it
		sig := r.Bytes(n)
		var script []byte
		script = append(script, push(sig)...)
		script = append(script, 0xab)
		for _, op := range []byte{0x4c, 0x4d, 0x4e} {
			if (op == 0x4c && n > 0xff) || (op == 0x4d && n > 0xffff) {
				continue
			}
			script = append(script, pushWith(op, sig)...)
		}
		script = append(script, 0xac)
		g.Case("boundary-push-length", true, fmt.Sprintf("C07 rmdata %s %s", hx(script), hx(sig)))
		g.Case("boundary-push-length", true, fmt.Sprintf("C07 rmop %s 171", hx(script)))
	}
	for _, n := range []int{0x4a, 0x4b, 0x4c, 0x4d} {
		sig := r.Bytes(n)
		script := append(append(push(sig), pushWith(0x4c, sig)...), pushWith(0x4d, sig)...)
		g.Case("boundary-push-length", true, fmt.Sprintf("C07 rmdata %s %s", hx(script), hx(sig)))
	}
	for v := 0; v <= 18; v++ { // one-byte data 0..18: OP_N would be the canonical push up to 16
		script := []byte{0x01, byte(v), 0x4c, 0x01, byte(v), byte(0x50 + v%17)}
		g.Case("boundary-push-length", true, fmt.Sprintf("C07 rmdata %s %02x", hx(script), v))
	}
	// input index beyond 16 bits (BIP341 commits to it as 4 bytes): 65537 inputs, the last one signed
	{
		tx := &wire.MsgTx{Version: 2}
		var spent []*wire.TxOut
		for j := 0; j < 65537; j++ {
			in := &wire.TxIn{Sequence: uint32(j)}
			in.PreviousOutPoint.Hash[0] = byte(j)
			in.PreviousOutPoint.Hash[1] = byte(j >> 8)
			in.PreviousOutPoint.Hash[2] = byte(j >> 16)
			tx.TxIn = append(tx.TxIn, in)
			spent = append(spent, &wire.TxOut{Value: int64(j)})
		}
		spent[65536].PkScript = append([]byte{0x51, 0x20}, r.Bytes(32)...)
		tx.TxOut = []*wire.TxOut{{Value: 1, PkScript: []byte{0x51}}}
		txs, sps := encTx(tx), encSpent(spent)
		g.Case("boundary-count", true, fmt.Sprintf("C07 tap %s %s 65536 1 x x", txs, sps))
		if g.Thorough() {
			g.Case("boundary-count", true, fmt.Sprintf("C07 tap %s %s 65535 2 x %s:0", txs, sps, hx(r.Bytes(32))))
			g.Case("boundary-count", true, fmt.Sprintf("C07 wit %s %s 65536 1 51 7", txs, sps))
		}
	}
	// counts at the compact-size steps
	counts := []int{65535, 65536}
	for _, n := range counts {
		tx, spent := randTx(r, 1, 0)
		for j := 0; j < n; j++ {
			tx.TxOut = append(tx.TxOut, &wire.TxOut{Value: int64(j & 1)})
		}
		forceKind(r, spent, false)
		g.Case("boundary-count", true, fmt.Sprintf("C07 legacy %s 0 1 51", encTx(tx)))
		g.Case("boundary-count", true, fmt.Sprintf("C07 wit %s %s 0 1 51 1", encTx(tx), encSpent(spent)))
		g.Case("boundary-count", true, fmt.Sprintf("C07 legacy %s 0 3 51", encTx(tx)))
		if g.Thorough() {
			tx2, spent2 := randTx(r, 1, 1)
			in0 := tx2.TxIn[0]
			in0.SignatureScript, in0.Witness = nil, nil
			tx2.TxIn = nil
			spent2 = nil
			for j := 0; j < n; j++ {
				in := *in0
				in.PreviousOutPoint.Index = uint32(j)
				tx2.TxIn = append(tx2.TxIn, &in)
				spent2 = append(spent2, &wire.TxOut{Value: 1, PkScript: []byte{0x51}})
			}
			g.Case("boundary-count", true, fmt.Sprintf("C07 legacy %s %d 1 51", encTx(tx2), n-1))
			g.Case("boundary-count", true, fmt.Sprintf("C07 wit %s %s %d 2 51 1", encTx(tx2), encSpent(spent2), n-1))
		}
	}
}

func genHardening(g *core.Gen) {
	r := g.R
	genBoundaries(g)
	// ---- independent digest computations running concurrently (no hidden shared state)
	for k := 0; k < g.N(60, 2500); k++ {
		n := 8 + r.Intn(5)
		subs := make([]string, n)
		for i := range subs {
			subs[i] = randSmallCase(r)
		}
		g.Case("concurrent-digests", true, "C07 conc "+strings.Join(subs, " | "))
	}
	// ---- one SigCache shared by 8..12 goroutines (disjoint keys), with caller buffer overwrites
	for k := 0; k < g.N(100, 3000); k++ {
		n := 8 + r.Intn(5)
		subs := make([]string, n)
		for i := range subs {
			hs := [][]byte{r.Bytes(32), r.Bytes(32)}
			hs[0][0], hs[1][0] = byte(i), byte(i) // keys of goroutine i
			ss := [][]byte{r.Bytes(3), r.Bytes(3)}
			ps := [][]byte{r.Bytes(2), r.Bytes(2)}
			nops := 3 + r.Intn(8)
			ops := make([]string, nops)
			adds := 0
			for j := range ops {
				switch r.Intn(5) {
				case 0, 1:
					ops[j] = fmt.Sprintf("a:%s:%s:%s", hx(hs[r.Intn(2)]), hx(ss[r.Intn(2)]), hx(ps[r.Intn(2)]))
					adds++
				case 2:
					ops[j] = fmt.Sprintf("x:%d", r.Intn(adds+1))
				default:
					ops[j] = fmt.Sprintf("e:%s:%s:%s", hx(hs[r.Intn(2)]), hx(ss[r.Intn(2)]), hx(ps[r.Intn(2)]))
				}
			}
			subs[i] = strings.Join(ops, " ")
		}
		g.Case("concurrent-sigcache", true, "C07 sigconc 1000 "+strings.Join(subs, " | "))
	}
	// ---- one HashCache shared by 8 goroutines, each on its own transaction
	for k := 0; k < g.N(100, 2000); k++ {
		n := 8
		var toks []string
		for i := 0; i < n; i++ {
			tx, spent := randTx(r, 1+r.Intn(3), r.Intn(3))
			tx.LockTime = uint32(k*16 + i) // distinct txids
			if r.Bool() {
				forceKind(r, spent, true)
			}
			toks = append(toks, encTx(tx), encSpent(spent))
		}
		subs := make([]string, n)
		for i := range subs {
			nops := 3 + r.Intn(8)
			ops := make([]string, nops)
			for j := range ops {
				ops[j] = fmt.Sprintf("%s:%d", []string{"a", "a", "g", "g", "g", "c", "p"}[r.Intn(7)], i)
			}
			subs[i] = strings.Join(ops, " ")
		}
		g.Case("concurrent-hashcache", true, fmt.Sprintf("C07 hashconc %d %s %s", n, strings.Join(toks, " "), strings.Join(subs, " | ")))
	}
	// ---- midstates are values: reuse across transactions, caller scribbles over the first one
	for k := 0; k < g.N(300, 6000); k++ {
		tx1, sp1 := randTx(r, 1+r.Intn(3), r.Intn(3))
		tx2, sp2 := randTx(r, 1+r.Intn(3), r.Intn(3))
		for i, in := range tx1.TxIn {
			in.PreviousOutPoint.Hash[0] = byte(i)
		}
		if r.Bool() {
			forceKind(r, sp1, r.Bool())
		}
		ht := []uint32{0, 1, 2, 3, 0x81, 0x82, 0x83}[r.Intn(7)]
		g.Case("midstate-reuse", true, fmt.Sprintf("C07 midreuse %s %s %s %s %d %d", encTx(tx1), encSpent(sp1), encTx(tx2), encSpent(sp2), r.Intn(len(tx1.TxIn)), ht))
	}
	// ---- evicting signature caches: soundness only (Go-only assertion)
	for k := 0; k < g.N(60, 1500); k++ {
		g.Case("sigcache-evicting", true, fmt.Sprintf("C07 sigevict %d %d %d", r.Pick(0, 1, 2, 3, 5, 8), r.U32(), 200+r.Intn(300)))
	}
}

func (P) Generate(g *core.Gen) {
	r := g.R
	genVectors(g)
	genHardening(g)

	// ---- legacy: all 256 hash types x every index (incl. out of range) on a few shapes
	for k := 0; k < g.N(2, 30); k++ {
		nIn, nOut := 1+r.Intn(3), r.Intn(4)
		tx, _ := randTx(r, nIn, nOut)
		sig := randSig(r)
		script := randScriptCode(r, sig, false)
		txs := encTx(tx)
		for ht := 0; ht < 256; ht++ {
			for idx := 0; idx <= nIn; idx++ {
				g.Case("legacy-grid", idx < nIn, fmt.Sprintf("C07 legacy %s %d %d %s", txs, idx, ht, hx(script)))
			}
		}
	}
	// ---- legacy: random shapes
	for k := 0; k < g.N(1200, 40000); k++ {
		nIn, nOut := shapeCounts(r)
		tx, _ := randTx(r, nIn, nOut)
		sig := randSig(r)
		mal := r.Chance(1, 8)
		script := randScriptCode(r, sig, mal)
		idx := r.Intn(nIn + 2)
		ht := interestingHT[r.Intn(len(interestingHT))]
		if r.Chance(1, 3) {
			ht = r.U32()
		}
		op := "legacy"
		if r.Chance(1, 4) {
			op = "legacyapi"
		}
		cls := "legacy-rand"
		if mal {
			cls = "legacy-malformed-script"
		}
		if nIn > 200 || nOut > 200 {
			cls = "legacy-big"
		}
		g.Case(cls, idx < nIn, fmt.Sprintf("C07 %s %s %d %d %s", op, encTx(tx), idx, ht, hx(script)))
	}

	// ---- BIP143: grid
	for k := 0; k < g.N(2, 30); k++ {
		nIn, nOut := 1+r.Intn(3), r.Intn(4)
		tx, spent := randTx(r, nIn, nOut)
		if k%3 != 0 {
			forceKind(r, spent, false)
		}
		sub := randScriptCode(r, randSig(r), false)
		if k%2 == 0 {
			sub = append([]byte{0x00, 0x14}, r.Bytes(20)...)
		}
		txs, sps := encTx(tx), encSpent(spent)
		amt := edgeI64[r.Intn(len(edgeI64))]
		for ht := 0; ht < 256; ht++ {
			for idx := 0; idx <= nIn; idx++ {
				g.Case("wit-grid", idx < nIn, fmt.Sprintf("C07 wit %s %s %d %d %s %d", txs, sps, idx, ht, hx(sub), amt))
			}
		}
	}
	for k := 0; k < g.N(1200, 40000); k++ {
		nIn, nOut := shapeCounts(r)
		tx, spent := randTx(r, nIn, nOut)
		cls := "wit-rand"
		switch r.Intn(4) {
		case 0:
			forceKind(r, spent, true) // midstate computed for taproot inputs only: v0 hashes stay zero
			cls = "wit-midstate-without-v0"
		case 1, 2:
			forceKind(r, spent, false)
		}
		var sub []byte
		switch r.Intn(6) {
		case 0, 1:
			sub = append([]byte{0x00, 0x14}, r.Bytes(20)...)
		case 2: // near-P2WPKH
			sub = append([]byte{0x00, 0x14}, r.Bytes(19+2*r.Intn(2))...)
		case 3:
			sub = append([]byte{byte(r.Pick(0x51, 0x00)), byte(r.Pick(0x14, 0x15, 0x20))}, r.Bytes(20)...)
		case 4:
			sub = randScriptCode(r, randSig(r), r.Chance(1, 6))
		case 5:
			sub = r.Bytes(int(r.Pick(0, 1, 252, 253, 254, 300)))
		}
		idx := r.Intn(nIn + 2)
		ht := interestingHT[r.Intn(len(interestingHT))]
		if r.Chance(1, 3) {
			ht = r.U32()
		}
		amt := int64(r.U64())
		if r.Chance(1, 3) {
			amt = edgeI64[r.Intn(len(edgeI64))]
		}
		op := "wit"
		if r.Chance(1, 4) {
			op = "witapi"
		}
		if nIn > 200 || nOut > 200 {
			cls = "wit-big"
		}
		g.Case(cls, idx < nIn, fmt.Sprintf("C07 %s %s %s %d %d %s %d", op, encTx(tx), encSpent(spent), idx, ht, hx(sub), amt))
	}

	// ---- BIP341/342: grid
	for k := 0; k < g.N(2, 30); k++ {
		nIn, nOut := 1+r.Intn(3), r.Intn(4)
		tx, spent := randTx(r, nIn, nOut)
		if k%3 != 0 {
			forceKind(r, spent, true)
		}
		annex, ext := "x", "x"
		if k%2 == 1 {
			annex = hx(append([]byte{0x50}, r.Bytes(r.Intn(5))...))
		}
		if k%3 == 1 {
			ext = fmt.Sprintf("%s:%d", hx(r.Bytes(32)), edgeU32[r.Intn(len(edgeU32))])
		}
		txs, sps := encTx(tx), encSpent(spent)
		for ht := 0; ht < 256; ht++ {
			for idx := 0; idx <= nIn; idx++ {
				g.Case("tap-grid", idx < nIn, fmt.Sprintf("C07 tap %s %s %d %d %s %s", txs, sps, idx, ht, annex, ext))
			}
		}
	}
	validTap := []uint32{0, 1, 2, 3, 0x81, 0x82, 0x83}
	for k := 0; k < g.N(1200, 40000); k++ {
		nIn, nOut := shapeCounts(r)
		tx, spent := randTx(r, nIn, nOut)
		cls := "tap-rand"
		switch r.Intn(4) {
		case 0:
			forceKind(r, spent, false) // midstate computed for v0 inputs only: taproot hashes stay zero
			cls = "tap-midstate-without-v1"
		case 1, 2:
			forceKind(r, spent, true)
		}
		annex, ext := "x", "x"
		switch r.Intn(4) {
		case 0:
			annex = hx(append([]byte{0x50}, r.Bytes(r.Intn(40))...))
		case 1:
			annex = hx(r.Bytes(int(r.Pick(0, 1, 252, 253, 300))))
		}
		if r.Chance(1, 2) {
			cs := r.U32()
			if r.Chance(1, 2) {
				cs = edgeU32[r.Intn(len(edgeU32))]
			}
			ext = fmt.Sprintf("%s:%d", hx(r.Bytes(int(r.Pick(32, 32, 32, 0, 31, 33)))), cs)
		}
		idx := r.Intn(nIn + 2)
		ht := validTap[r.Intn(len(validTap))]
		if r.Chance(1, 6) {
			ht = interestingHT[r.Intn(len(interestingHT))]
		}
		if nIn > 200 || nOut > 200 {
			cls = "tap-big"
		}
		g.Case(cls, idx < nIn, fmt.Sprintf("C07 tap %s %s %d %d %s %s", encTx(tx), encSpent(spent), idx, ht, annex, ext))
	}

	// ---- exported taproot entry points with a real tap leaf (leaf hash computed by TapLeaf.TapHash)
	for k := 0; k < g.N(500, 20000); k++ {
		nIn, nOut := shapeCounts(r)
		if nIn > 10 {
			nIn = 1 + r.Intn(4)
		}
		tx, spent := randTx(r, nIn, nOut)
		if r.Chance(3, 4) {
			forceKind(r, spent, true)
		}
		idx := r.Intn(nIn + 1)
		ht := validTap[r.Intn(len(validTap))]
		if r.Chance(1, 8) {
			ht = interestingHT[r.Intn(len(interestingHT))]
		}
		annex, leaf := "x", "x"
		if r.Chance(2, 3) {
			ver := r.Pick(0xc0, 0xc0, 0xc0, 0xc2, 0x00, 0xff, 0x50)
			leaf = fmt.Sprintf("%d:%s", ver, hx(randScriptCode(r, randSig(r), false)))
			if r.Chance(1, 8) {
				leaf = fmt.Sprintf("%d:%s", ver, hx(r.Bytes(int(r.Pick(0, 252, 253, 300)))))
			}
			if r.Chance(1, 3) {
				annex = hx(append([]byte{0x50}, r.Bytes(r.Intn(6))...))
			}
		}
		g.Case("tap-api", idx < nIn, fmt.Sprintf("C07 tapapi %s %s %d %d %s %s", encTx(tx), encSpent(spent), idx, ht, annex, leaf))
	}

	// ---- exported taproot entry points: every option combination a caller can pass, both orders,
	// annex lengths around the compact-size boundaries, with and without a supplied midstate,
	// every fetcher implementation
	annexLens := []int{0, 1, 2, 252, 253, 254, 65535, 65536}
	codeSeps := []uint32{0, 1, 2, 7, 0xfffffffe, 0xffffffff, 0x80000000, 65536}
	for k := 0; k < g.N(640, 12000); k++ {
		nIn, nOut := 1+r.Intn(3), r.Intn(3)
		tx, spent := randTx(r, nIn, nOut)
		for i, in := range tx.TxIn { // distinct outpoints: every fetcher sees the same map
			in.PreviousOutPoint.Hash[0] = byte(i)
			in.PreviousOutPoint.Hash[1] = 0x77
		}
		if r.Chance(4, 5) {
			forceKind(r, spent, true)
		}
		fm := []string{"m", "g", "k"}[r.Intn(3)]
		if fm == "k" {
			for i := range spent {
				spent[i] = spent[0]
			}
		}
		idx := r.Intn(nIn)
		if r.Chance(1, 12) {
			idx = nIn
		}
		ht := validTap[r.Intn(len(validTap))]
		if r.Chance(1, 10) {
			ht = interestingHT[r.Intn(len(interestingHT))]
		}
		cache := "c"
		if r.Chance(1, 5) {
			cache = "n"
		}
		leaf, opts := "x", "-"
		if r.Chance(5, 6) {
			script := randScriptCode(r, randSig(r), false)
			leaf = fmt.Sprintf("%d:%s", r.Pick(0xc0, 0xc0, 0xc0, 0xc2), hx(script))
			mkA := func() string {
				n := annexLens[r.Intn(6)] // the two 64 KiB ones are drawn rarely below
				if r.Chance(1, 40) {
					n = annexLens[6+r.Intn(2)]
				}
				a := r.Bytes(n)
				if n > 0 && r.Bool() {
					a[0] = 0x50
				}
				return "A." + hx(a)
			}
			mkB := func() string {
				lh := r.Bytes(32)
				if r.Chance(1, 6) {
					lh = r.Bytes(int(r.Pick(0, 31, 33)))
				}
				return fmt.Sprintf("B.%d.%s", codeSeps[r.Intn(len(codeSeps))], hx(lh))
			}
			var os []string
			switch k % 8 {
			case 0:
			case 1:
				os = []string{mkA()}
			case 2:
				os = []string{mkB()}
			case 3:
				os = []string{mkA(), mkB()}
			case 4:
				os = []string{mkB(), mkA()}
			case 5:
				os = []string{mkB(), mkB()}
			case 6:
				os = []string{mkA(), mkB(), mkA()}
			case 7:
				os = []string{mkB(), mkA(), mkB()}
			}
			if len(os) > 0 {
				opts = strings.Join(os, ",")
			}
		}
		g.Case("tap-api-options", idx < nIn, fmt.Sprintf("C07 tapopt %s %s %d %d %s %s %s %s", encTx(tx), encSpent(spent), idx, ht, cache, fm, leaf, opts))
	}
	// exported CalcWitnessSigHash with a nil midstate (parse check first, then panic unless unread)
	for k := 0; k < g.N(300, 6000); k++ {
		nIn, nOut := 1+r.Intn(3), r.Intn(4)
		tx, _ := randTx(r, nIn, nOut)
		idx := r.Intn(nIn + 1)
		ht := []uint32{0x82, 0x83, 0x81, 2, 3, 1, 0xa2, 0xc3}[r.Intn(8)]
		sub := randScriptCode(r, randSig(r), r.Chance(1, 4))
		g.Case("wit-api-nil-midstate", idx < nIn, fmt.Sprintf("C07 witapinil %s %d %d %s %d", encTx(tx), idx, ht, hx(sub), int64(r.U64()%100000)))
	}

	// ---- nil midstate: panic unless the digest never reads it
	for k := 0; k < g.N(600, 20000); k++ {
		nIn, nOut := 1+r.Intn(3), r.Intn(4)
		tx, spent := randTx(r, nIn, nOut)
		idx := r.Intn(nIn + 1)
		ht := []uint32{0x82, 0x83, 0x82, 0x83, 0x81, 2, 3, 1, 0, 0x80, 0xa2, 0xc3, 0x9f}[r.Intn(13)]
		if r.Chance(1, 5) {
			ht = uint32(r.Intn(256))
		}
		sub := randScriptCode(r, randSig(r), false)
		g.Case("wit-nil-midstate", idx < nIn, fmt.Sprintf("C07 witnil %s %d %d %s %d", encTx(tx), idx, ht, hx(sub), int64(r.U64()%1000000)))
		annex, ext := "x", "x"
		if r.Bool() {
			annex = hx(append([]byte{0x50}, r.Bytes(r.Intn(5))...))
		}
		if r.Bool() {
			ext = fmt.Sprintf("%s:%d", hx(r.Bytes(32)), r.U32())
		}
		g.Case("tap-nil-midstate", idx < nIn, fmt.Sprintf("C07 tapnil %s %s %d %d %s %s", encTx(tx), encSpent(spent), idx, ht, annex, ext))
	}

	// ---- HashCache: add / get / contains / purge histories over a few transactions
	for k := 0; k < g.N(250, 8000); k++ {
		n := 1 + r.Intn(3)
		var toks []string
		for i := 0; i < n; i++ {
			tx, spent := randTx(r, r.Intn(4), r.Intn(3))
			switch r.Intn(3) {
			case 0:
				forceKind(r, spent, true)
			case 1:
				forceKind(r, spent, false)
			}
			toks = append(toks, encTx(tx), encSpent(spent))
		}
		nops := 2 + r.Intn(8)
		adds := 0
		scribbled := map[int]bool{}
		for i := 0; i < nops; i++ {
			o := []string{"a", "a", "g", "g", "g", "c", "p", "m"}[r.Intn(8)]
			t := r.Intn(n)
			if o == "a" && scribbled[t] {
				o = "g"
			}
			if o == "a" {
				adds++
			}
			if o == "m" {
				scribbled[t] = true
			}
			toks = append(toks, fmt.Sprintf("%s:%d", o, t))
		}
		g.Case("hashcache", adds > 0, fmt.Sprintf("C07 hashcache %d %s", n, strings.Join(toks, " ")))
	}

	// ---- removeOpcodeRaw / removeOpcodeByData
	for k := 0; k < g.N(1200, 40000); k++ {
		sig := randSig(r)
		mal := r.Chance(1, 5)
		s := randScriptCode(r, sig, mal)
		if r.Chance(1, 10) {
			s = r.Bytes(r.Intn(30))
		}
		g.Case("rmdata", len(s) > 0, fmt.Sprintf("C07 rmdata %s %s", hx(s), hx(sig)))
		g.Case("rmop", len(s) > 0, fmt.Sprintf("C07 rmop %s %d", hx(s), r.Pick(0xab, 0xab, 0xab, 0xac, 0x00, 0x4c, 0x05, 0xff)))
	}

	// ---- sigcache
	for k := 0; k < g.N(300, 5000); k++ {
		n := 1 + r.Intn(10)
		hs := [][]byte{r.Bytes(32), r.Bytes(32), r.Bytes(32)}
		ss := [][]byte{r.Bytes(3), r.Bytes(3), nil}
		ps := [][]byte{r.Bytes(2), r.Bytes(2)}
		ops := make([]string, n)
		adds := 0
		for i := range ops {
			k := "e"
			if r.Chance(1, 2) {
				k = "a"
				adds++
			}
			ops[i] = fmt.Sprintf("%s:%s:%s:%s", k, hx(hs[r.Intn(3)]), hx(ss[r.Intn(3)]), hx(ps[r.Intn(2)]))
			if adds > 0 && r.Chance(1, 6) { // the caller overwrites buffers it passed to an earlier Add
				ops[i] = fmt.Sprintf("x:%d", r.Intn(adds))
			}
		}
		capn := int(r.Pick(0, 4, 10, 100)) // 3 distinct keys at most: Add evicts only when len+1 > cap
		g.Case("sigcache", adds > 0, fmt.Sprintf("C07 sigcache %d %s", capn, strings.Join(ops, " ")))
	}

	genSign(g)
}
