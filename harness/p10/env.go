// Package p10: correspondence for C10 (the mempool is a conflict-free, minable,
// self-consistent set).  A protocol line carries a whole history: policy,
// transaction definitions and an op sequence.  Exec builds REAL transactions and
// blocks from the line and runs them through a real mempool.TxPool wired to a
// real blockchain.BlockChain and to netsync's real notification handler.
package p10

import (
	"crypto/sha256"
	"fmt"
	"math/big"
	"os"
	"sort"
	"strconv"
	"strings"
	"time"

	"github.com/btcsuite/btcd/address/v2"
	"github.com/btcsuite/btcd/blockchain"
	"github.com/btcsuite/btcd/btcutil/v2"
	"github.com/btcsuite/btcd/chaincfg/v2"
	"github.com/btcsuite/btcd/chainhash/v2"
	"github.com/btcsuite/btcd/database"
	_ "github.com/btcsuite/btcd/database/ffldb"
	"github.com/btcsuite/btcd/mempool"
	"github.com/btcsuite/btcd/netsync"
	"github.com/btcsuite/btcd/peer"
	"github.com/btcsuite/btcd/txscript/v2"
	"github.com/btcsuite/btcd/wire/v2"
)

// baseTime anchors every relative timestamp of a line.  Block timestamps must be
// within 24 h of the time source for netsync's current() to hold.
var baseTime = time.Now().Add(-10 * time.Hour).Truncate(time.Second).Unix()

const (
	bitSane = 1 << iota
	bitCoinbase
	bitValuesOk
	bitStd
	bitSeqLockOk
	bitSigOk
	bitHighPrio
	bitScriptsOk
)

var (
	redeemTrue  = []byte{txscript.OP_TRUE}
	redeemFalse = []byte{txscript.OP_FALSE}
	pkP2SHTrue  = p2sh(redeemTrue)
	pkRawTrue   = []byte{txscript.OP_TRUE}
)

func p2sh(redeem []byte) []byte {
	h := address.Hash160(redeem)
	s := []byte{txscript.OP_HASH160, txscript.OP_DATA_20}
	s = append(s, h...)
	return append(s, txscript.OP_EQUAL)
}

type inDef struct {
	txid, idx int
	seq       uint32
	kind      byte  // 'g' good unlock, 'b' failing unlock
	value     int64 // amount of the spent output (0 when unknown); a fact checked against the universe
}

type outDef struct {
	value int64
	kind  byte // 'p' P2SH(OP_TRUE), 't' bare OP_TRUE (non-standard), 'n' null data, 'N' oversized null data
	pad   int  // payload bytes of a null-data output
}

type txDef struct {
	id                      int
	ins                     []inDef
	outs                    []outDef
	lock                    string // "0" | "h<height>" | "t<offset>"
	ver                     int32
	fee, vsize, ssize, size int64
	bits                    int
	prioSize                int64 // serialized size minus CalcPriority's per-input overhead (0: priority 0)
	tx                      *btcutil.Tx
}

// witnessScript: `<pad bytes> OP_DROP OP_TRUE` — a P2WSH spend whose witness is large (raw size >> vsize).
func witnessScript(pad int) []byte {
	b := txscript.NewScriptBuilder().AddData(make([]byte, pad)).AddOp(txscript.OP_DROP).AddOp(txscript.OP_TRUE)
	sc, _ := b.Script()
	return sc
}

func p2wsh(script []byte) []byte {
	h := sha256.Sum256(script)
	return append([]byte{txscript.OP_0, txscript.OP_DATA_32}, h[:]...)
}

func pkFor(o outDef) []byte {
	switch o.kind {
	case 'w':
		return p2wsh(witnessScript(o.pad))
	case 'p':
		return pkP2SHTrue
	case 't':
		return pkRawTrue
	default:
		b := make([]byte, 0, o.pad+4)
		b = append(b, txscript.OP_RETURN)
		switch {
		case o.pad == 0:
		case o.pad <= 75:
			b = append(b, byte(o.pad))
		case o.pad <= 255:
			b = append(b, txscript.OP_PUSHDATA1, byte(o.pad))
		default:
			b = append(b, txscript.OP_PUSHDATA2, byte(o.pad), byte(o.pad>>8))
		}
		return append(b, make([]byte, o.pad)...)
	}
}

func ghostHash(id int) chainhash.Hash {
	return chainhash.Hash(sha256.Sum256([]byte("ghost" + strconv.Itoa(id))))
}

func lockValue(lock string) uint32 {
	switch {
	case lock == "0" || lock == "":
		return 0
	case lock[0] == 'h':
		n, _ := strconv.Atoi(lock[1:])
		return uint32(n)
	default:
		n, _ := strconv.ParseInt(lock[1:], 10, 64)
		return uint32(baseTime + n)
	}
}

// universe resolves abstract ids to what the harness built.
type universe struct {
	defs   map[int]*txDef
	cbs    map[int]*btcutil.Tx // coinbases by abstract id
	hashID map[chainhash.Hash]int
}

func (u *universe) hashOf(id int) chainhash.Hash {
	if d, ok := u.defs[id]; ok && d.tx != nil {
		return *d.tx.Hash()
	}
	if c, ok := u.cbs[id]; ok {
		return *c.Hash()
	}
	h := ghostHash(id)
	u.hashID[h] = id
	return h
}

// outInfo returns value and kind of an abstract outpoint (ok=false: unknown).
func (u *universe) outInfo(txid, idx int) (int64, byte, bool) {
	if d, ok := u.defs[txid]; ok {
		if idx < len(d.outs) {
			return d.outs[idx].value, d.outs[idx].kind, true
		}
		return 0, 0, false
	}
	if c, ok := u.cbs[txid]; ok {
		if idx < len(c.MsgTx().TxOut) {
			return c.MsgTx().TxOut[idx].Value, 'p', true
		}
	}
	return 0, 0, false
}

// outPad: the pad parameter of an abstract outpoint's script (witness outputs).
func (u *universe) outPad(txid, idx int) int {
	if d, ok := u.defs[txid]; ok && idx < len(d.outs) {
		return d.outs[idx].pad
	}
	return 0
}

// build constructs the real transaction of a definition.
func (u *universe) build(d *txDef) {
	m := wire.NewMsgTx(d.ver)
	for _, in := range d.ins {
		var op wire.OutPoint
		if in.txid == 0 && in.idx == 0xffffffff {
			op = wire.OutPoint{Index: 0xffffffff} // coinbase-shaped
		} else {
			op = wire.OutPoint{Hash: u.hashOf(in.txid), Index: uint32(in.idx)}
		}
		_, kind, known := u.outInfo(in.txid, in.idx)
		var sig []byte
		var wit wire.TxWitness
		switch {
		case known && kind == 'w' && in.kind == 'g':
			wit = wire.TxWitness{witnessScript(u.outPad(in.txid, in.idx))}
		case known && kind == 'w':
			wit = wire.TxWitness{[]byte{txscript.OP_FALSE}} // wrong script: program hash mismatch
		case known && kind == 't' && in.kind == 'g':
			sig = nil
		case known && kind == 't':
			sig = []byte{txscript.OP_1} // leaves two items: CLEANSTACK failure
		case in.kind == 'g':
			sig = []byte{txscript.OP_DATA_1, txscript.OP_TRUE}
		default:
			sig = []byte{txscript.OP_DATA_1, txscript.OP_FALSE}
		}
		ti := wire.NewTxIn(&op, sig, wit)
		ti.Sequence = in.seq
		m.AddTxIn(ti)
	}
	for _, o := range d.outs {
		m.AddTxOut(wire.NewTxOut(o.value, pkFor(o)))
	}
	m.LockTime = lockValue(d.lock)
	d.tx = btcutil.NewTx(m)
	u.hashID[*d.tx.Hash()] = d.id
}

// facts recomputes the numeric and boolean facts of a definition from the real
// transaction and from the recipe.
func (u *universe) facts(d *txDef, maxVer int32, minRelay int64) (fee, vsize, ssize, size int64, bits int) {
	vsize = mempool.GetTxVirtualSize(d.tx)
	ssize = int64(d.tx.MsgTx().SerializeSizeStripped())
	size = int64(d.tx.MsgTx().SerializeSize())
	err := blockchain.CheckTransactionSanity(d.tx)
	if err == nil {
		bits |= bitSane
	} else if re, ok := err.(blockchain.RuleError); ok && re.ErrorCode == blockchain.ErrDuplicateTxInputs {
		bits |= bitSane
	}
	if blockchain.IsCoinBase(d.tx) {
		bits |= bitCoinbase
	}
	var in, out int64
	allKnown, insStd, scripts := true, true, true
	for _, i := range d.ins {
		v, k, ok := u.outInfo(i.txid, i.idx)
		if !ok {
			allKnown = false
			continue
		}
		in += v
		if k != 'p' && k != 'w' {
			insStd = false
		}
		if i.kind != 'g' {
			scripts = false
		}
	}
	outsStd := true
	nulls := 0
	for _, o := range d.outs {
		out += o.value
		switch o.kind {
		case 'p':
			if mempool.IsDust(wire.NewTxOut(o.value, pkP2SHTrue), btcutil.Amount(minRelay)) {
				outsStd = false
			}
		case 'n':
			nulls++
			if o.pad > 80 {
				outsStd = false // txscript.MaxDataCarrierSize
			}
		default:
			outsStd = false
		}
	}
	if allKnown && in >= out {
		bits |= bitValuesOk
		fee = in - out
	}
	// standardness of the transaction itself is asked of the tree (CheckTransactionStandard with a height/time at
	// which every lock is final), so that a change of relay-policy tuning (weights, data-carrier size, dust rule)
	// is not mistaken for a property violation; input standardness follows from the output kinds spent.
	_ = outsStd
	_ = nulls
	txStd := mempool.CheckTransactionStandard(d.tx, 0x7fffffff, time.Unix(0x7fffffff, 0),
		btcutil.Amount(minRelay), maxVer) == nil
	if txStd && insStd {
		bits |= bitStd
	}
	bits |= bitSeqLockOk | bitSigOk
	if scripts {
		bits |= bitScriptsOk
	}
	return
}

// prioFacts: the inputs' amounts (0 when unknown) and the size CalcPriority divides by.
func (u *universe) prioFacts(d *txDef) ([]int64, int64) {
	vals := make([]int64, len(d.ins))
	overhead := 0
	for i, in := range d.ins {
		if v, _, ok := u.outInfo(in.txid, in.idx); ok && v > 0 {
			vals[i] = v // an insane (negative) parent output can never be spent: amount irrelevant
		}
		n := len(d.tx.MsgTx().TxIn[i].SignatureScript)
		if n > 110 {
			n = 110
		}
		overhead += 41 + n
	}
	sz := d.tx.MsgTx().SerializeSize()
	if overhead >= sz {
		return vals, 0
	}
	return vals, int64(sz - overhead)
}

// setPrioFacts writes them into the definition (generator side).
func (u *universe) setPrioFacts(d *txDef) {
	vals, ps := u.prioFacts(d)
	for i := range d.ins {
		d.ins[i].value = vals[i]
	}
	d.prioSize = ps
}

// ---------------------------------------------------------------- line grammar

func splitList(s, sep string) []string {
	if s == "-" || s == "" {
		return nil
	}
	return strings.Split(s, sep)
}

func parseTxDef(s string) (*txDef, error) {
	f := strings.Split(s, ":")
	if len(f) != 10 && len(f) != 11 {
		return nil, fmt.Errorf("txdef fields")
	}
	d := &txDef{lock: f[3]}
	var err error
	if d.id, err = strconv.Atoi(f[0]); err != nil {
		return nil, err
	}
	for _, is := range splitList(f[1], ",") {
		p := strings.Split(is, ".")
		if (len(p) != 4 && len(p) != 5) || len(p[3]) != 1 {
			return nil, fmt.Errorf("in")
		}
		var val int64
		if len(p) == 5 {
			if val, err = strconv.ParseInt(p[4], 10, 64); err != nil || val < 0 {
				return nil, fmt.Errorf("in value")
			}
		}
		t, e1 := strconv.Atoi(p[0])
		i, e2 := strconv.Atoi(p[1])
		q, e3 := strconv.ParseUint(p[2], 10, 32)
		if e1 != nil || e2 != nil || e3 != nil {
			return nil, fmt.Errorf("in")
		}
		d.ins = append(d.ins, inDef{t, i, uint32(q), p[3][0], val})
	}
	for _, os := range splitList(f[2], ",") {
		p := strings.Split(os, ".")
		if len(p) < 2 || len(p[1]) != 1 {
			return nil, fmt.Errorf("out")
		}
		v, e1 := strconv.ParseInt(p[0], 10, 64)
		if e1 != nil {
			return nil, e1
		}
		o := outDef{value: v, kind: p[1][0]}
		if len(p) == 3 {
			o.pad, _ = strconv.Atoi(p[2])
		}
		d.outs = append(d.outs, o)
	}
	v, err := strconv.Atoi(f[4])
	if err != nil {
		return nil, err
	}
	d.ver = int32(v)
	nums := []*int64{&d.fee, &d.vsize, &d.ssize, &d.size}
	for i, p := range nums {
		if *p, err = strconv.ParseInt(f[5+i], 10, 64); err != nil {
			return nil, err
		}
	}
	if d.bits, err = strconv.Atoi(f[9]); err != nil {
		return nil, err
	}
	if len(f) == 11 {
		if d.prioSize, err = strconv.ParseInt(f[10], 10, 64); err != nil {
			return nil, err
		}
	}
	return d, nil
}

func (d *txDef) String() string {
	var ins, outs []string
	for _, i := range d.ins {
		ins = append(ins, fmt.Sprintf("%d.%d.%d.%c.%d", i.txid, i.idx, i.seq, i.kind, i.value))
	}
	for _, o := range d.outs {
		if o.pad > 0 {
			outs = append(outs, fmt.Sprintf("%d.%c.%d", o.value, o.kind, o.pad))
		} else {
			outs = append(outs, fmt.Sprintf("%d.%c", o.value, o.kind))
		}
	}
	j := func(l []string) string {
		if len(l) == 0 {
			return "-"
		}
		return strings.Join(l, ",")
	}
	return fmt.Sprintf("%d:%s:%s:%s:%d:%d:%d:%d:%d:%d:%d", d.id, j(ins), j(outs), d.lock, d.ver,
		d.fee, d.vsize, d.ssize, d.size, d.bits, d.prioSize)
}

type policy struct {
	acceptNonStd, rejectReplacement bool
	maxOrphans                      int
	maxOrphanSize                   int
	minRelayFee                     int64
	disablePriority, freeRelay      bool
}

func b01(b bool) int {
	if b {
		return 1
	}
	return 0
}

func (p policy) String() string {
	return fmt.Sprintf("%d,%d,%d,%d,%d,%d,%d", b01(p.acceptNonStd), b01(p.rejectReplacement), p.maxOrphans,
		p.maxOrphanSize, p.minRelayFee, b01(p.disablePriority), b01(p.freeRelay))
}

func parsePolicy(s string) (policy, error) {
	f := strings.Split(s, ",")
	if len(f) != 7 {
		return policy{}, fmt.Errorf("policy")
	}
	n := make([]int64, 7)
	for i := range f {
		v, err := strconv.ParseInt(f[i], 10, 64)
		if err != nil {
			return policy{}, err
		}
		n[i] = v
	}
	return policy{n[0] == 1, n[1] == 1, int(n[2]), int(n[3]), n[4], n[5] == 1, n[6] == 1}, nil
}

// ---------------------------------------------------------------- environment

// stubNotifier is the PeerNotifier handed to netsync; it records what netsync announces.
type stubNotifier struct {
	announced []chainhash.Hash
}

func (n *stubNotifier) AnnounceNewTransactions(l []*mempool.TxDesc) {
	for _, d := range l {
		n.announced = append(n.announced, *d.Tx.Hash())
	}
}
func (*stubNotifier) UpdatePeerHeights(*chainhash.Hash, int32, *peer.Peer) {}
func (*stubNotifier) RelayInventory(*wire.InvVect, interface{})            {}
func (*stubNotifier) TransactionConfirmed(*btcutil.Tx)                     {}

type env struct {
	dir       string
	db        database.DB
	params    *chaincfg.Params
	chain     *blockchain.BlockChain
	pool      *mempool.TxPool
	note      *stubNotifier
	fetchHook func()
	gen       int
	onEvent   func(kind byte) // called after netsync's handler for every connect / disconnect notification
	lastTs    int64           // relative timestamp of the newest block built
}

func synthParams(maturity int) *chaincfg.Params {
	p := chaincfg.RegressionNetParams // copy
	p.CoinbaseMaturity = uint16(maturity)
	p.Checkpoints = nil
	for i := range p.Deployments {
		d := p.Deployments[i]
		d.DeploymentStarter = chaincfg.NewMedianTimeDeploymentStarter(time.Time{})
		d.DeploymentEnder = chaincfg.NewMedianTimeDeploymentEnder(time.Time{})
		p.Deployments[i] = d
	}
	return &p
}

func newEnv(pol policy, maturity int) (*env, error) {
	base := ""
	if st, e := os.Stat("/dev/shm"); e == nil && st.IsDir() {
		base = "/dev/shm" // ffldb fsyncs on every commit
	}
	dir, err := os.MkdirTemp(base, "c10-")
	if err != nil {
		return nil, err
	}
	e := &env{dir: dir, params: synthParams(maturity), note: &stubNotifier{}}
	e.db, err = database.Create("ffldb", dir, e.params.Net)
	if err != nil {
		os.RemoveAll(dir)
		return nil, err
	}
	e.chain, err = blockchain.New(&blockchain.Config{
		DB: e.db, ChainParams: e.params, TimeSource: blockchain.NewMedianTime(),
		SigCache: txscript.NewSigCache(100), HashCache: txscript.NewHashCache(100),
		UtxoCacheMaxSize: 1 << 20,
	})
	if err != nil {
		e.close()
		return nil, err
	}
	if err := e.makePool(pol); err != nil {
		e.close()
		return nil, err
	}
	return e, nil
}

// makePool creates a TxPool with the given policy on the environment's chain and wires it to the chain
// through netsync's real handler.  Called again by the restart op: a new session with another policy on
// the same chain (the previous pool and its handler stay subscribed but are no longer observed).
func (e *env) makePool(pol policy) error {
	var err error
	limit := 0.0
	if pol.freeRelay {
		limit = 1e12
	}
	e.pool = mempool.New(&mempool.Config{
		Policy: mempool.Policy{
			DisableRelayPriority: pol.disablePriority,
			AcceptNonStd:         pol.acceptNonStd,
			FreeTxRelayLimit:     limit,
			MaxOrphanTxs:         pol.maxOrphans,
			MaxOrphanTxSize:      pol.maxOrphanSize,
			MaxSigOpCostPerTx:    blockchain.MaxBlockSigOpsCost / 4,
			MinRelayTxFee:        btcutil.Amount(pol.minRelayFee),
			MaxTxVersion:         2,
			RejectReplacement:    pol.rejectReplacement,
		},
		ChainParams: e.params,
		// the chain lookup of an acceptance happens while the pool's write lock is held: the pinned-schedule
		// class uses this moment to start a competing call deterministically
		FetchUtxoView: func(tx *btcutil.Tx) (*blockchain.UtxoViewpoint, error) {
			if h := e.fetchHook; h != nil {
				e.fetchHook = nil
				h()
			}
			return e.chain.FetchUtxoView(tx)
		},
		BestHeight:     func() int32 { return e.chain.BestSnapshot().Height },
		MedianTimePast: func() time.Time { return e.chain.BestSnapshot().MedianTime },
		CalcSequenceLock: func(tx *btcutil.Tx, view *blockchain.UtxoViewpoint) (*blockchain.SequenceLock, error) {
			return e.chain.CalcSequenceLock(tx, view, true)
		},
		IsDeploymentActive: e.chain.IsDeploymentActive,
		SigCache:           txscript.NewSigCache(100),
		HashCache:          txscript.NewHashCache(100),
	})
	// the REAL notification handler: netsync.New subscribes it to the chain
	_, err = netsync.New(&netsync.Config{
		PeerNotifier: e.note, Chain: e.chain, TxMemPool: e.pool, ChainParams: e.params,
		DisableCheckpoints: true, MaxPeers: 8,
	})
	if err != nil {
		return err
	}
	// our observer runs after the handler just subscribed, for every notification; observers of earlier
	// sessions fall silent
	e.gen++
	gen := e.gen
	e.chain.Subscribe(func(n *blockchain.Notification) {
		if gen != e.gen || e.onEvent == nil {
			return
		}
		switch n.Type {
		case blockchain.NTBlockConnected:
			e.onEvent('C')
		case blockchain.NTBlockDisconnected:
			e.onEvent('U')
		}
	})
	return nil
}

func (e *env) close() {
	if e.db != nil {
		e.db.Close()
	}
	os.RemoveAll(e.dir)
}

func (e *env) coinbase(height int32, cbID, nOuts int) *btcutil.Tx {
	m := wire.NewMsgTx(1)
	sc, _ := txscript.NewScriptBuilder().AddInt64(int64(height)).AddInt64(int64(cbID)).Script()
	m.AddTxIn(wire.NewTxIn(&wire.OutPoint{Index: 0xffffffff}, sc, nil))
	for i := 0; i < nOuts; i++ {
		m.AddTxOut(wire.NewTxOut(cbValue(nOuts), pkP2SHTrue))
	}
	return btcutil.NewTx(m)
}

func cbValue(nOuts int) int64 { return 50_0000_0000 / int64(nOuts) }

var powLimitBits uint32 = 0x207fffff

func (e *env) makeBlock(prev chainhash.Hash, ts int64, txs []*btcutil.Tx) *btcutil.Block {
	mb := wire.NewMsgBlock(&wire.BlockHeader{
		Version: 0x20000000, PrevBlock: prev, Timestamp: time.Unix(baseTime+ts, 0), Bits: powLimitBits,
	})
	for _, t := range txs {
		mb.AddTransaction(t.MsgTx())
	}
	mb.Header.MerkleRoot = blockchain.CalcMerkleRoot(txs, false)
	target := blockchain.CompactToBig(powLimitBits)
	for {
		h := mb.Header.BlockHash()
		if blockchain.HashToBig(&h).Cmp(target) <= 0 {
			break
		}
		mb.Header.Nonce++
	}
	return btcutil.NewBlock(mb)
}

var _ = big.NewInt

func sortedKeys[T any](m map[int]T) []int {
	ks := make([]int, 0, len(m))
	for k := range m {
		ks = append(ks, k)
	}
	sort.Ints(ks)
	return ks
}

func init() { netsync.DisableLog() }
