package p10

import (
	"fmt"
	"os"
	"runtime"
	"sort"
	"strconv"
	"strings"
	"sync"

	"github.com/btcsuite/btcd/blockchain"
	"github.com/btcsuite/btcd/btcutil/v2"
	"github.com/btcsuite/btcd/chaincfg/v2"
	"github.com/btcsuite/btcd/chainhash/v2"
	"github.com/btcsuite/btcd/mempool"
	"github.com/btcsuite/btcd/mining"
	"github.com/btcsuite/btcd/txscript/v2"
	"github.com/btcsuite/btcd/wire/v2"
	"verifharness/core"
)

type P struct{}

func (P) ID() string { return "C10" }

func (P) Facts() []core.Fact {
	var fs []core.Fact
	for k, v := range mempool.VerifConstsC10() {
		fs = append(fs, core.Fact{Name: k, Value: v})
	}
	fs = append(fs,
		core.Fact{Name: "lockTimeThreshold", Value: int64(txscript.LockTimeThreshold)},
		core.Fact{Name: "maxSatoshi", Value: int64(btcutil.MaxSatoshi)},
		core.Fact{Name: "maxTxInSequenceNum", Value: int64(wire.MaxTxInSequenceNum)},
		core.Fact{Name: "defaultMinRelayTxFee", Value: int64(mempool.DefaultMinRelayTxFee)},
		core.Fact{Name: "regtestGenesisTime", Value: genesisTime},
		core.Fact{Name: "minHighPriority", Value: int64(mining.MinHighPriority)},
		core.Fact{Name: "mainCoinbaseMaturity", Value: int64(chaincfg.MainNetParams.CoinbaseMaturity)},
	)
	return fs
}

var _ = blockchain.BFNone
var _ chainhash.Hash

// ---------------------------------------------------------------- simulation of the chain view (generator side)

type gOut struct {
	txid, idx int
	value     int64
	kind      byte
	cb        bool
	cbHeight  int // height of the creating block for coinbase outputs
	grp       int // parallel class: the goroutine group that owns the output
}

type gBlock struct {
	cbID, cbOuts int
	txs          []int
	ts           int64
	spent        map[[2]int]gUtxo // undo
}

type gUtxo struct {
	height int
	cb     bool
}

type sim struct {
	r         *core.Rand
	pol       policy
	maturity  int
	nextID    int
	u         *universe
	defs      []*txDef
	outs      []gOut           // every output ever created (coinbases on any branch, all defs)
	spentBy   map[[2]int][]int // abstract outpoint -> defs spending it
	utxo      map[[2]int]gUtxo // chain view
	blocks    []gBlock         // active chain above genesis
	tsList    []int64          // relative timestamps of the active chain incl. genesis
	ops       []string
	sub       map[int]bool // submitted at least once
	mined     map[int]bool // currently in the active chain
	class     string
	seenHash  map[chainhash.Hash]bool
	grp       int // >= 0: only outputs / definitions of this group are used (parallel class)
	cbCounter int
	defGrp    map[int]int
}

const parGroups = 8

// genesisTime: the median time of the genesis-only chain.
var genesisTime = chaincfg.RegressionNetParams.GenesisBlock.Header.Timestamp.Unix()

// genesisRel stands for the genesis timestamp among relative times: far below every block the harness builds.
func genesisRel() int64 { return -1000000000 }

func newSim(r *core.Rand, pol policy, maturity int) *sim {
	s := &sim{r: r, pol: pol, maturity: maturity, nextID: 1,
		u:       &universe{defs: map[int]*txDef{}, cbs: map[int]*btcutil.Tx{}, hashID: map[chainhash.Hash]int{}},
		spentBy: map[[2]int][]int{}, utxo: map[[2]int]gUtxo{}, sub: map[int]bool{}, mined: map[int]bool{}, seenHash: map[chainhash.Hash]bool{}, grp: -1, defGrp: map[int]int{}}
	s.tsList = []int64{genesisRel()}
	return s
}

func (s *sim) height() int { return len(s.blocks) }

func medianOf(ts []int64) int64 {
	n := len(ts)
	if n > 11 {
		ts = ts[n-11:]
	}
	c := append([]int64(nil), ts...)
	sort.Slice(c, func(i, j int) bool { return c[i] < c[j] })
	return c[len(c)/2]
}

func (s *sim) mtp() int64 { return medianOf(s.tsList) }

// mtpAtHeight: median time past of the active chain when the block at height k was its tip.
func (s *sim) mtpAtHeight(k int) int64 {
	if k >= len(s.tsList) {
		k = len(s.tsList) - 1
	}
	return medianOf(s.tsList[:k+1])
}

func (s *sim) lastTs() int64 { return s.tsList[len(s.tsList)-1] }

// eligible: can the definition be put in a block on the current view (plus earlier block txs)?
func (s *sim) eligible(d *txDef, view map[[2]int]gUtxo) bool {
	if d.bits&bitSane == 0 || d.bits&bitCoinbase != 0 || d.bits&bitValuesOk == 0 || d.bits&bitScriptsOk == 0 {
		return false
	}
	if s.mined[d.id] || len(d.ins) == 0 {
		return false
	}
	if d.tx != nil && d.tx.MsgTx().HasWitness() {
		return false // blocks of the harness carry no witness commitment; witness transactions stay pooled
	}
	seen := map[[2]int]bool{}
	for _, in := range d.ins {
		k := [2]int{in.txid, in.idx}
		if seen[k] {
			return false
		}
		seen[k] = true
		uv, ok := view[k]
		if !ok {
			return false
		}
		if uv.cb && s.height()+1-uv.height < s.maturity {
			return false
		}
	}
	// BIP68 (CSV is active from height 1 on these parameters): relative locks of version >= 2 transactions
	if d.ver >= 2 {
		h := s.height() + 1
		for _, in := range d.ins {
			if in.seq&(1<<31) != 0 {
				continue
			}
			uv := view[[2]int{in.txid, in.idx}]
			uh := uv.height
			n := int64(in.seq & 0xffff)
			if in.seq&(1<<22) != 0 {
				prev := uh - 1
				if prev < 0 {
					prev = 0
				}
				if s.mtpAtHeight(prev)+n*512 > s.mtp() {
					return false
				}
			} else if int64(uh)+n > int64(h) {
				return false
			}
		}
	}
	// consensus finality uses the block timestamp (CSV inactive) which is above the MTP; be conservative
	lv := d.lock
	final := true
	for _, in := range d.ins {
		if in.seq != 0xffffffff {
			final = false
		}
	}
	if lv != "0" && !final {
		if lv[0] == 'h' {
			n, _ := strconv.Atoi(lv[1:])
			if n >= s.height()+1 {
				return false
			}
		} else {
			n, _ := strconv.ParseInt(lv[1:], 10, 64)
			if n >= s.mtp() {
				return false
			}
		}
	}
	// oversized null data etc. are consensus-valid; weight is far below the block limit
	return true
}

func (s *sim) applyToView(d *txDef, view map[[2]int]gUtxo, undo map[[2]int]gUtxo, h int) {
	for _, in := range d.ins {
		k := [2]int{in.txid, in.idx}
		if undo != nil {
			undo[k] = view[k]
		}
		delete(view, k)
	}
	for i := range d.outs {
		view[[2]int{d.id, i}] = gUtxo{h, false}
	}
}

// connect appends a C op with the given transactions (already checked eligible in order).
func (s *sim) connect(txs []int) {
	cbID := s.nextID
	s.nextID++
	cbOuts := 1 + s.r.Intn(3)
	ts := s.lastTs() + int64(60+s.r.Intn(600))
	if s.height() == 0 {
		ts = int64(s.r.Intn(600)) // first block: at the harness's base time (2012+ rules, within 24 h of now)
	}
	if ts <= s.mtp() {
		ts = s.mtp() + 1
	}
	h := s.height() + 1
	blk := gBlock{cbID: cbID, cbOuts: cbOuts, txs: txs, ts: ts, spent: map[[2]int]gUtxo{}}
	for _, id := range txs {
		s.applyToView(s.u.defs[id], s.utxo, blk.spent, h)
		s.mined[id] = true
	}
	// outputs created and spent inside the block are not part of the undo data
	for _, id := range txs {
		for i := range s.u.defs[id].outs {
			delete(blk.spent, [2]int{id, i})
		}
	}
	e0 := &env{}
	cb := e0.coinbase(int32(h), cbID, cbOuts)
	s.u.cbs[cbID] = cb
	for i := 0; i < cbOuts; i++ {
		s.utxo[[2]int{cbID, i}] = gUtxo{h, true}
		s.outs = append(s.outs, gOut{cbID, i, cbValue(cbOuts), 'p', true, h, s.cbCounter % parGroups})
		s.cbCounter++
	}
	s.blocks = append(s.blocks, blk)
	s.tsList = append(s.tsList, ts)
	s.ops = append(s.ops, fmt.Sprintf("C:%d:%d:%d:%s:%d:-", cbID, cbOuts, s.mtp(), joinInts(txs), ts))
}

func (s *sim) disconnect() {
	b := s.blocks[len(s.blocks)-1]
	s.blocks = s.blocks[:len(s.blocks)-1]
	s.tsList = s.tsList[:len(s.tsList)-1]
	for i := 0; i < b.cbOuts; i++ {
		delete(s.utxo, [2]int{b.cbID, i})
	}
	for _, id := range b.txs {
		for i := range s.u.defs[id].outs {
			delete(s.utxo, [2]int{id, i})
		}
		s.mined[id] = false
	}
	for k, v := range b.spent {
		s.utxo[k] = v
	}
	s.ops = append(s.ops, "U")
}

// pickBlockTxs chooses block content: eligible definitions in id order.
func (s *sim) pickBlockTxs(pSub, pOther int) []int {
	view := map[[2]int]gUtxo{}
	for k, v := range s.utxo {
		view[k] = v
	}
	var txs []int
	for _, d := range s.defs {
		p := pOther
		if s.sub[d.id] {
			p = pSub
		}
		if !s.r.Chance(p, 100) || !s.eligible(d, view) {
			continue
		}
		s.applyToView(d, view, nil, s.height()+1)
		txs = append(txs, d.id)
	}
	return txs
}

// ---------------------------------------------------------------- transactions

type txOpts struct {
	nIn, nOut int
	conflictP int // percent chance per input to pick an output some definition already spends
	rbf       int // 0 final sequences, 1 signalling, 2 mixed
	fee       int64
	feeRel    string // "" | "min" | "min-1" | "repl" | "repl-1" | "rate" | "zero"
	special   string
	fromPool  bool // only spend outputs of definitions (not coinbases)
}

func (s *sim) unspentOuts(allowImmature bool) []gOut {
	var l []gOut
	for _, o := range s.outs {
		if s.grp >= 0 && o.grp != s.grp {
			continue
		}
		if len(s.spentBy[[2]int{o.txid, o.idx}]) > 0 {
			continue
		}
		if o.cb {
			uv, ok := s.utxo[[2]int{o.txid, o.idx}]
			if !ok {
				continue // coinbase of a disconnected block
			}
			if !allowImmature && s.height()+1-uv.height < s.maturity {
				continue
			}
		}
		l = append(l, o)
	}
	return l
}

func (s *sim) spentOuts() []gOut {
	var l []gOut
	for _, o := range s.outs {
		if s.grp >= 0 && o.grp != s.grp {
			continue
		}
		if len(s.spentBy[[2]int{o.txid, o.idx}]) > 0 {
			l = append(l, o)
		}
	}
	return l
}

func (s *sim) minFee(vsize int64) int64 {
	f := vsize * s.pol.minRelayFee / 1000
	if f == 0 && s.pol.minRelayFee > 0 {
		f = s.pol.minRelayFee
	}
	return f
}

// newTx creates a definition; nil when no inputs could be found.
func (s *sim) newTx(o txOpts) *txDef {
	d := &txDef{id: s.nextID, lock: "0", ver: 1}
	used := map[[2]int]bool{}
	var total int64
	known := true
	var conflicts []int
	for i := 0; i < o.nIn; i++ {
		var cand []gOut
		if s.r.Chance(o.conflictP, 100) {
			cand = s.spentOuts()
		}
		if len(cand) == 0 {
			cand = s.unspentOuts(s.r.Chance(5, 100))
			if o.fromPool {
				var l []gOut
				for _, c := range cand {
					if !c.cb {
						l = append(l, c)
					}
				}
				cand = l
			}
		}
		if len(cand) == 0 {
			cand = s.spentOuts()
		}
		if len(cand) == 0 {
			break
		}
		// prefer recent outputs: deeper graphs
		c := cand[len(cand)-1-s.r.Intn(min(len(cand), 6))]
		if s.r.Chance(30, 100) {
			c = cand[s.r.Intn(len(cand))]
		}
		k := [2]int{c.txid, c.idx}
		if used[k] {
			continue
		}
		used[k] = true
		seq := uint32(0xffffffff)
		switch o.rbf {
		case 1:
			seq = uint32(s.r.Pick(0xfffffffd, 0xfffffffd, 0xfffffffc, 0xfffffffe))
		case 2:
			seq = uint32(s.r.Pick(0xffffffff, 0xfffffffe, 0xfffffffd))
		}
		d.ins = append(d.ins, inDef{c.txid, c.idx, seq, 'g', 0})
		total += c.value
		conflicts = append(conflicts, s.spentBy[k]...)
	}
	if len(d.ins) == 0 {
		return nil
	}
	switch o.special {
	case "ghost": // a parent that never exists — at the first, a middle or the last input position
		g := s.nextID
		s.nextID++
		d.id = s.nextID
		pos := s.r.Intn(len(d.ins) + 1)
		d.ins = append(d.ins[:pos], append([]inDef{{g, 0, 0xffffffff, 'g', 0}}, d.ins[pos:]...)...)
		known = false
	case "badidx": // an output index the parent does not have, at any position
		d.ins[s.r.Intn(len(d.ins))].idx += 7
		known = false
	case "dupin": // a duplicate of any input, inserted at any position
		src := d.ins[s.r.Intn(len(d.ins))]
		pos := s.r.Intn(len(d.ins) + 1)
		d.ins = append(d.ins[:pos], append([]inDef{src}, d.ins[pos:]...)...)
	case "badscript":
		d.ins[s.r.Intn(len(d.ins))].kind = 'b'
	case "noins":
		d.ins = nil
		known = false
	case "hetero": // inputs that differ in everything: sequences final / signalling / relative lock, version 2
		d.ver = 2
		seqs := []uint32{0xffffffff, 0xfffffffd, 1, 1 << 22, 1<<31 | 7, 0}
		off := s.r.Intn(len(seqs))
		for i := range d.ins {
			d.ins[i].seq = seqs[(off+i)%len(seqs)]
		}
	case "fan": // many outputs: every loop over TxOut runs long
		o.nOut = 20 + s.r.Intn(20)
	case "coinbase":
		d.ins = []inDef{{0, 0xffffffff, 0xffffffff, 'g', 0}}
		known = false
	case "ver3":
		d.ver = 3
	case "ver2":
		d.ver = 2
	}
	for i := 0; i < o.nOut; i++ {
		d.outs = append(d.outs, outDef{value: 0, kind: 'p'})
	}
	switch o.special {
	case "witout": // P2WSH outputs whose spend carries a few hundred witness bytes (raw size >> virtual size)
		for i := range d.outs {
			if s.r.Chance(70, 100) {
				d.outs[i].kind = 'w'
				d.outs[i].pad = int(s.r.Pick(80, 200, 300, 400, 500))
			}
		}
	case "nonstdout": // the non-standard output at any position
		d.outs[s.r.Intn(len(d.outs))].kind = 't'
	case "nulldata":
		d.outs = append(d.outs, outDef{kind: 'n', pad: 20})
	case "nulldata2":
		d.outs = append(d.outs, outDef{kind: 'n', pad: 20}, outDef{kind: 'n', pad: 10})
	case "big": // large enough to trip the orphan size limit and, with 50k, the free-area rule
		d.outs = append(d.outs, outDef{kind: 'n', pad: int(s.r.Pick(300, 1000, 5000, 48900, 49100))})
	case "big49k": // the free-area rule: vsize exactly at / one below / one above DefaultBlockPrioritySize-1000
		d.outs = append(d.outs, outDef{kind: 'n', pad: 48000})
	case "noouts":
		d.outs = nil
	case "tiny": // below the 65-byte rule: one bare input spending OP_TRUE with an empty script is needed; approximate with one bare output
		d.outs = []outDef{{kind: 't'}}
		d.ins = d.ins[:1]
	case "tiny2": // the 65-byte rule (MinStandardTxNonWitnessSize) at 63 / 64 / 65 / 66 stripped bytes
		d.ins = d.ins[:1]
		k := int(s.r.Pick(0, 1, 2))
		for _, o := range s.unspentOuts(false) {
			if o.kind == 't' { // a bare OP_TRUE output is spent with an empty script: two bytes less
				d.ins[0] = inDef{o.txid, o.idx, 0xffffffff, 'g', 0}
				total = o.value
				k = int(s.r.Pick(2, 3, 4))
				break
			}
		}
		d.outs = []outDef{{kind: 'n', pad: k}}
	case "bip68": // relative locks: blocks 0..3, 512-second units 0..2, or disabled
		d.ver = 2
		for i := range d.ins {
			d.ins[i].seq = uint32(s.r.Pick(0, 0, 1, 1, 2, 3, 1<<22, 1<<22|1, 1<<22|2, 1<<31|5, 0xfffffffd))
		}
	case "lockh":
		d.lock = "h" + strconv.Itoa(s.height()+int(s.r.Pick(-1, 0, 1, 2)))
		if d.lock[1] == '-' || d.lock == "h0" {
			d.lock = "h1"
		}
		for i := range d.ins {
			d.ins[i].seq = uint32(s.r.Pick(0xfffffffe, 0xfffffffe, 0xfffffffd, 0xffffffff))
		}
	case "lockt":
		d.lock = "t" + strconv.FormatInt(s.mtp()+s.r.Pick(-1, 0, 1, 5000), 10)
		for i := range d.ins {
			d.ins[i].seq = uint32(s.r.Pick(0xfffffffe, 0xfffffffe, 0xfffffffd, 0xffffffff))
		}
	}
	// sizes do not depend on values: build once to learn vsize, then fix the fee
	s.u.defs[d.id] = d
	s.u.build(d)
	vsize := mempool.GetTxVirtualSize(d.tx)
	if o.special == "big49k" {
		target := 49000 + s.r.Pick(-1, 0, 0, 1)
		d.outs[len(d.outs)-1].pad += int(target - vsize)
		s.u.build(d)
		vsize = mempool.GetTxVirtualSize(d.tx)
		o.feeRel = []string{"zero", "min-1", "min"}[s.r.Intn(3)]
	}
	fee := o.fee
	var cfee, crate int64
	seenC := map[int]bool{}
	for _, c := range conflicts {
		if !seenC[c] {
			seenC[c] = true
			cd := s.u.defs[c]
			cfee += cd.fee
			if r := cd.fee * 1000 / cd.vsize; r > crate {
				crate = r
			}
		}
	}
	switch o.feeRel {
	case "zero":
		fee = 0
	case "min":
		fee = s.minFee(vsize)
	case "min-1":
		fee = s.minFee(vsize) - 1
	case "repl":
		fee = cfee + s.minFee(vsize)
	case "repl-1":
		fee = cfee + s.minFee(vsize) - 1
	case "rate": // exactly the best conflicting fee rate (must be strictly higher to replace)
		fee = (crate*vsize + 999) / 1000
	case "rate+":
		fee = (crate+1)*vsize/1000 + 1
		if fee < cfee+s.minFee(vsize) {
			fee = cfee + s.minFee(vsize)
		}
	}
	if fee < 0 {
		fee = 0
	}
	nPay := 0
	for _, ot := range d.outs {
		if ot.kind != 'n' {
			nPay++
		}
	}
	if known && nPay > 0 {
		rest := total - fee
		if o.special == "overspend" {
			rest = total + 1000
		}
		if rest < 0 {
			rest = 0
		}
		j := 0
		for i := range d.outs {
			if d.outs[i].kind == 'n' {
				continue
			}
			j++
			if j == nPay {
				d.outs[i].value = rest - (rest/int64(nPay))*int64(nPay-1)
			} else {
				d.outs[i].value = rest / int64(nPay)
			}
		}
		if o.special == "dust" && nPay > 1 { // the dust output at the first, a middle or the last position
			a := s.r.Intn(nPay)
			b2 := (a + 1) % nPay
			d.outs[b2].value += d.outs[a].value - 1
			d.outs[a].value = 1
		}
	} else {
		for i := range d.outs {
			if d.outs[i].kind != 'n' {
				d.outs[i].value = 200000
			}
		}
	}
	s.u.build(d)
	// two definitions must never be the same real transaction (an id stands for one txid)
	for tries := 0; s.seenHash[*d.tx.Hash()] && tries < 50; tries++ {
		bumped := false
		for i := range d.outs {
			if d.outs[i].kind != 'n' && d.outs[i].value > 300000 {
				d.outs[i].value--
				bumped = true
				break
			}
		}
		if !bumped {
			d.lock = "h1"
			for i := range d.ins {
				d.ins[i].seq = 0xffffffff - uint32(tries)%3
			}
		}
		delete(s.u.hashID, *d.tx.Hash())
		s.u.build(d)
	}
	if s.seenHash[*d.tx.Hash()] {
		delete(s.u.defs, d.id)
		return nil
	}
	s.seenHash[*d.tx.Hash()] = true
	d.fee, d.vsize, d.ssize, d.size, d.bits = s.u.facts(d, 2, s.pol.minRelayFee)
	s.u.setPrioFacts(d)
	s.nextID = d.id + 1
	s.defs = append(s.defs, d)
	s.defGrp[d.id] = s.grp
	for _, in := range d.ins {
		k := [2]int{in.txid, in.idx}
		s.spentBy[k] = append(s.spentBy[k], d.id)
	}
	for i, ot := range d.outs {
		if ot.kind == 'p' || ot.kind == 't' || ot.kind == 'w' {
			s.outs = append(s.outs, gOut{d.id, i, ot.value, ot.kind, false, 0, s.grp})
		}
	}
	return d
}

func (s *sim) line() string {
	defs := make([]string, len(s.defs))
	for i, d := range s.defs {
		defs[i] = d.String()
	}
	j := func(l []string) string {
		if len(l) == 0 {
			return "-"
		}
		return strings.Join(l, ";")
	}
	return fmt.Sprintf("C10 run %s %d:g %s %s", s.pol, s.maturity, j(defs), j(s.ops))
}

// ---------------------------------------------------------------- scenario generation

func (s *sim) baseChain(n int) {
	for i := 0; i < n; i++ {
		s.connect(nil)
	}
}

func (s *sim) submit(d *txDef) {
	s.sub[d.id] = true
	ao := b01(s.r.Chance(85, 100))
	tag := s.r.Intn(3)
	if s.grp >= 0 {
		tag = s.grp
	}
	s.ops = append(s.ops, fmt.Sprintf("P:%d:%d:%d:%d:0:-", d.id, ao, b01(s.r.Bool()), tag))
}

func (s *sim) randomDef() *txDef {
	var l []*txDef
	for _, d := range s.defs {
		if s.grp < 0 || s.defGrp[d.id] == s.grp {
			l = append(l, d)
		}
	}
	if len(l) == 0 {
		return nil
	}
	return l[s.r.Intn(len(l))]
}

func (s *sim) randomOpts() txOpts {
	r := s.r
	o := txOpts{nIn: 1 + r.Intn(3), nOut: 1 + r.Intn(3), conflictP: int(r.Pick(0, 0, 10, 30, 60)),
		rbf: int(r.Pick(0, 1, 1, 2)), fee: r.Pick(0, 100, 1000, 2000, 5000, 20000, 100000)}
	if r.Chance(1, 3) {
		o.nIn = 1
	}
	switch r.Intn(14) {
	case 0:
		o.feeRel = "min"
	case 1:
		o.feeRel = "min-1"
	case 2:
		o.feeRel = "repl"
	case 3:
		o.feeRel = "repl-1"
	case 4:
		o.feeRel = "rate"
	case 5, 6:
		o.feeRel = "rate+"
	case 7:
		o.feeRel = "zero"
	}
	if r.Chance(22, 100) {
		sp := []string{"ghost", "badidx", "dupin", "badscript", "coinbase", "ver3", "ver2", "nonstdout", "nulldata",
			"nulldata2", "big", "big49k", "noouts", "lockh", "lockt", "lockh", "lockt", "overspend", "dust", "tiny", "tiny2", "tiny2", "bip68", "bip68", "bip68", "bip68", "noins", "hetero", "hetero", "hetero", "fan", "witout", "witout", "witout", "witout"}
		o.special = sp[r.Intn(len(sp))]
		if o.special == "hetero" {
			o.nIn = 3 + r.Intn(2)
			o.conflictP = int(r.Pick(0, 30))
		}
	}
	return o
}

// replacementOf: a definition spending exactly the inputs of d with the given fee.
func (s *sim) replacementOf(d *txDef, fee int64) *txDef {
	n := &txDef{id: s.nextID, lock: "0", ver: 1}
	var total int64
	for _, in := range d.ins {
		n.ins = append(n.ins, inDef{in.txid, in.idx, 0xffffffff, 'g', 0})
		v, _, _ := s.u.outInfo(in.txid, in.idx)
		total += v
	}
	n.outs = []outDef{{value: total - fee, kind: 'p'}}
	s.u.defs[n.id] = n
	s.u.build(n)
	s.seenHash[*n.tx.Hash()] = true
	n.fee, n.vsize, n.ssize, n.size, n.bits = s.u.facts(n, 2, s.pol.minRelayFee)
	s.u.setPrioFacts(n)
	s.nextID++
	s.defs = append(s.defs, n)
	s.defGrp[n.id] = s.grp
	for _, in := range n.ins {
		k := [2]int{in.txid, in.idx}
		s.spentBy[k] = append(s.spentBy[k], n.id)
	}
	s.outs = append(s.outs, gOut{n.id, 0, total - fee, 'p', false, 0, s.grp})
	return n
}

// txFrom builds a definition from explicit inputs (plus a never-existing parent when ghost is set).
func (s *sim) txFrom(ins [][2]int, ghost bool, nOut int, fee int64) *txDef {
	d := &txDef{lock: "0", ver: 1}
	var total int64
	for _, in := range ins {
		v, _, ok := s.u.outInfo(in[0], in[1])
		if !ok {
			return nil
		}
		total += v
		d.ins = append(d.ins, inDef{in[0], in[1], 0xffffffff, 'g', 0})
	}
	if ghost {
		g := s.nextID
		s.nextID++
		d.ins = append(d.ins, inDef{g, 0, 0xffffffff, 'g', 0})
	}
	d.id = s.nextID
	rest := total - fee
	if ghost {
		rest = 600000 * int64(nOut)
	}
	for i := 0; i < nOut; i++ {
		d.outs = append(d.outs, outDef{value: rest / int64(nOut), kind: 'p'})
	}
	d.outs[0].value -= int64(d.id) // keep definitions distinct
	s.u.defs[d.id] = d
	s.u.build(d)
	if s.seenHash[*d.tx.Hash()] {
		delete(s.u.defs, d.id)
		return nil
	}
	s.seenHash[*d.tx.Hash()] = true
	d.fee, d.vsize, d.ssize, d.size, d.bits = s.u.facts(d, 2, s.pol.minRelayFee)
	s.u.setPrioFacts(d)
	s.nextID = d.id + 1
	s.defs = append(s.defs, d)
	s.defGrp[d.id] = s.grp
	for _, in := range d.ins {
		k := [2]int{in.txid, in.idx}
		s.spentBy[k] = append(s.spentBy[k], d.id)
	}
	for i, ot := range d.outs {
		s.outs = append(s.outs, gOut{d.id, i, ot.value, ot.kind, false, 0, s.grp})
	}
	return d
}

// txCustom builds a definition from explicit inputs, one sequence for all of them, and explicit output kinds.
func (s *sim) txCustom(ins [][2]int, seq uint32, outs []outDef, fee int64) *txDef {
	d := &txDef{lock: "0", ver: 1, id: s.nextID}
	var total int64
	for _, in := range ins {
		v, _, ok := s.u.outInfo(in[0], in[1])
		if !ok {
			return nil
		}
		total += v
		d.ins = append(d.ins, inDef{in[0], in[1], seq, 'g', 0})
	}
	rest := total - fee
	if rest < int64(len(outs))*1000 {
		return nil
	}
	for i, o := range outs {
		o.value = rest / int64(len(outs))
		if i == 0 {
			o.value = rest - (rest/int64(len(outs)))*int64(len(outs)-1)
		}
		d.outs = append(d.outs, o)
	}
	s.u.defs[d.id] = d
	s.u.build(d)
	if s.seenHash[*d.tx.Hash()] {
		delete(s.u.defs, d.id)
		return nil
	}
	s.seenHash[*d.tx.Hash()] = true
	d.fee, d.vsize, d.ssize, d.size, d.bits = s.u.facts(d, 2, s.pol.minRelayFee)
	s.u.setPrioFacts(d)
	s.nextID = d.id + 1
	s.defs = append(s.defs, d)
	s.defGrp[d.id] = s.grp
	for _, in := range d.ins {
		k := [2]int{in.txid, in.idx}
		s.spentBy[k] = append(s.spentBy[k], d.id)
	}
	for i, ot := range d.outs {
		s.outs = append(s.outs, gOut{d.id, i, ot.value, ot.kind, false, 0, s.grp})
	}
	return d
}

// setFee re-derives the output values of a definition built by txCustom for another fee (sizes do not change).
func (s *sim) setFee(d *txDef, fee int64) {
	var total int64
	for _, in := range d.ins {
		v, _, _ := s.u.outInfo(in.txid, in.idx)
		total += v
	}
	rest := total - fee
	n := int64(len(d.outs))
	for i := range d.outs {
		d.outs[i].value = rest / n
		if i == 0 {
			d.outs[i].value = rest - (rest/n)*(n-1)
		}
	}
	delete(s.u.hashID, *d.tx.Hash())
	for tries := 0; tries < 20; tries++ {
		s.u.build(d)
		clash := false
		for _, o := range s.defs {
			if o.id != d.id && o.tx != nil && *o.tx.Hash() == *d.tx.Hash() {
				clash = true // one id must stand for one txid (the txid does not cover the witness)
			}
		}
		if !clash {
			break
		}
		d.outs[0].value-- // one satoshi more fee
	}
	for _, o := range s.defs {
		if o.id != d.id && o.tx != nil {
			s.u.hashID[*o.tx.Hash()] = o.id
		}
	}
	s.u.hashID[*d.tx.Hash()] = d.id
	s.seenHash[*d.tx.Hash()] = true
	d.fee, d.vsize, d.ssize, d.size, d.bits = s.u.facts(d, 2, s.pol.minRelayFee)
	s.u.setPrioFacts(d)
	for i, ot := range d.outs {
		for j := range s.outs {
			if s.outs[j].txid == d.id && s.outs[j].idx == i {
				s.outs[j].value = ot.value
			}
		}
	}
}

// witnessRBF: a signalling pooled transaction with a large witness (raw size a multiple of its virtual size) and a
// conflicting replacement whose fee rate is placed around BOTH rates of the original — fee*1000/vsize (the one the
// replacement rule is about) and fee*1000/rawSize — and around the absolute-fee bound.
func (s *sim) witnessRBF() {
	r := s.r
	free := s.unspentOuts(false)
	if len(free) < 2 {
		return
	}
	a, extra := free[len(free)-1], free[len(free)-2]
	pad := int(r.Pick(300, 400, 500))
	A := s.txCustom([][2]int{{a.txid, a.idx}}, 0xfffffffd, []outDef{{kind: 'w', pad: pad}, {kind: 'w', pad: pad}}, 5000)
	if A == nil {
		return
	}
	s.submit(A)
	B := s.txCustom([][2]int{{A.id, 0}}, uint32(r.Pick(0xfffffffd, 0xffffffff)), []outDef{{kind: 'p'}}, r.Pick(1500, 2000, 3000, 6000))
	if B == nil {
		return
	}
	s.submit(B)
	cins := [][2]int{{A.id, 0}}
	switch r.Intn(3) {
	case 0:
		cins = append(cins, [2]int{extra.txid, extra.idx}) // a second, witness-free input: larger virtual size
	case 1:
		cins = append(cins, [2]int{A.id, 1}) // a second witness input
	}
	couts := make([]outDef, 1+r.Intn(4))
	for i := range couts {
		couts[i].kind = 'p'
	}
	C := s.txCustom(cins, 0xffffffff, couts, 100000)
	if C == nil {
		return
	}
	vr := B.fee * 1000 / B.vsize // the rate the rule is about
	rr := B.fee * 1000 / B.size  // what a raw-size computation would give
	abs := B.fee + s.minFee(C.vsize)
	var fee int64
	switch r.Intn(7) {
	case 0:
		fee = abs
	case 1:
		fee = abs - 1
	case 2: // exactly the original's rate: must be rejected
		fee = (vr*C.vsize + 999) / 1000
	case 3: // just above it
		fee = (vr+1)*C.vsize/1000 + 1
	case 4, 5: // between the raw-size rate and the virtual-size rate, absolute bound met: must be rejected
		fee = ((rr+vr)/2*C.vsize + 999) / 1000
		if fee < abs {
			fee = abs
		}
	default:
		fee = (rr*C.vsize+999)/1000 + int64(r.Intn(3))
	}
	if fee < 0 {
		fee = 0
	}
	s.setFee(C, fee)
	s.ops = append(s.ops, fmt.Sprintf("K:%d", C.id))
	s.submit(C)
	if r.Bool() {
		s.ops = append(s.ops, "T")
	}
}

// minedOrphans: a chain P -> T -> T2 where T (and maybe T2) sit in the orphan pool and the whole chain is then
// mined in one block with T's outputs spent inside the block: processOrphans cannot resolve T (its input
// is already spent in the chain, its outputs too), so only netsync's RemoveOrphan(tx) takes it out.
func (s *sim) minedOrphans() {
	r := s.r
	var a *gOut
	free := s.unspentOuts(false)
	for i := len(free) - 1; i >= 0; i-- {
		if _, ok := s.utxo[[2]int{free[i].txid, free[i].idx}]; ok {
			a = &free[i]
			break
		}
	}
	if a == nil {
		return
	}
	P := s.txFrom([][2]int{{a.txid, a.idx}}, false, 1+r.Intn(2), 5000)
	if P == nil {
		return
	}
	T := s.txFrom([][2]int{{P.id, 0}}, false, 1, 5000)
	if T == nil {
		return
	}
	T2 := s.txFrom([][2]int{{T.id, 0}}, false, 1+r.Intn(2), 5000)
	if T2 == nil {
		return
	}
	s.submit(T)
	if r.Bool() {
		s.submit(T2)
	}
	view := map[[2]int]gUtxo{}
	for k, v := range s.utxo {
		view[k] = v
	}
	if s.eligible(P, view) {
		s.connect([]int{P.id, T.id, T2.id})
	}
}

// orphanDoubleSpends: orphans that double-spend an output which is NOT what they are waiting for; when
// one of them is accepted through processOrphans the others (and their orphan redeemers) must go.
func (s *sim) orphanDoubleSpends() {
	r := s.r
	free := s.unspentOuts(false)
	if len(free) < 3 {
		return
	}
	a, y := free[len(free)-1], free[len(free)-2]
	P := s.txFrom([][2]int{{a.txid, a.idx}}, false, 2, 5000)
	if P == nil {
		return
	}
	O := s.txFrom([][2]int{{P.id, 0}, {y.txid, y.idx}}, false, 2, 5000)
	if O == nil {
		return
	}
	// rivals spend y too but wait for something else
	var rivals []*txDef
	for i := 0; i < 1+r.Intn(2); i++ {
		if r.Bool() {
			if d := s.txFrom([][2]int{{y.txid, y.idx}}, true, 1+r.Intn(2), 5000); d != nil {
				rivals = append(rivals, d)
			}
		} else if d := s.txFrom([][2]int{{y.txid, y.idx}, {P.id, 1}}, true, 1, 5000); d != nil {
			rivals = append(rivals, d)
		}
	}
	// two (or three) orphans waiting for the same output of P that will all FAIL when P arrives: only the
	// first one the implementation tries is removed, the others stay orphans
	if r.Chance(40, 100) {
		for i := 0; i < 2+r.Intn(2); i++ {
			if d := s.txFrom([][2]int{{P.id, 1}}, false, 1+r.Intn(2), 5000); d != nil {
				d.ins[0].kind = 'b'
				delete(s.u.hashID, *d.tx.Hash())
				s.u.build(d)
				s.seenHash[*d.tx.Hash()] = true
				d.fee, d.vsize, d.ssize, d.size, d.bits = s.u.facts(d, 2, s.pol.minRelayFee)
				s.u.setPrioFacts(d)
				rivals = append(rivals, d)
			}
		}
	}
	var kids []*txDef
	for _, rv := range rivals {
		if r.Bool() {
			if d := s.txFrom([][2]int{{rv.id, 0}}, false, 1, 5000); d != nil {
				kids = append(kids, d)
			}
		}
	}
	order := append(append([]*txDef{O}, rivals...), kids...)
	for i := len(order) - 1; i > 0; i-- {
		j := r.Intn(i + 1)
		order[i], order[j] = order[j], order[i]
	}
	for _, d := range order {
		s.submit(d)
	}
	how := r.Intn(3)
	if s.grp >= 0 && how == 2 {
		how = 0 // no blocks inside a parallel group
	}
	switch how {
	case 0:
		s.submit(P)
	case 1:
		s.ops = append(s.ops, fmt.Sprintf("A:%d:1:0", P.id), fmt.Sprintf("O:%d:-", P.id))
		s.sub[P.id] = true
	default:
		view := map[[2]int]gUtxo{}
		for k, v := range s.utxo {
			view[k] = v
		}
		if s.eligible(P, view) {
			s.connect([]int{P.id}) // the parent arrives in a block
		} else {
			s.submit(P)
		}
	}
}

// scenario produces one history of about n steps.
func (s *sim) scenario(n int, withBlocks bool) {
	s.baseChain(s.maturity + 1 + s.r.Intn(3))
	s.scenarioBody(n, withBlocks)
	s.ops = append(s.ops, "T")
}

func (s *sim) scenarioBody(n int, withBlocks bool) {
	r := s.r
	var pending []*txDef // created, not yet submitted
	for step := 0; step < n; step++ {
		x := r.Intn(100)
		switch {
		case x < 30: // create a small batch, submit some of it in random order (orphans)
			k := 1 + r.Intn(4)
			for i := 0; i < k; i++ {
				if d := s.newTx(s.randomOpts()); d != nil {
					pending = append(pending, d)
				}
			}
			for len(pending) > 0 && r.Chance(75, 100) {
				i := r.Intn(len(pending))
				if r.Chance(60, 100) {
					i = 0
				}
				s.submit(pending[i])
				pending = append(pending[:i], pending[i+1:]...)
			}
		case x < 42:
			if len(pending) > 0 {
				i := r.Intn(len(pending))
				s.submit(pending[i])
				pending = append(pending[:i], pending[i+1:]...)
			} else if d := s.randomDef(); d != nil {
				s.submit(d) // resubmission
			}
		case x < 50:
			if d := s.randomDef(); d != nil {
				s.ops = append(s.ops, fmt.Sprintf("A:%d:%d:%d", d.id, b01(r.Bool()), b01(r.Bool())))
				s.sub[d.id] = true
			}
		case x < 58:
			if d := s.randomDef(); d != nil {
				s.ops = append(s.ops, fmt.Sprintf("K:%d", d.id))
			}
		case x < 63:
			if d := s.randomDef(); d != nil {
				s.ops = append(s.ops, fmt.Sprintf("R:%d:%d", d.id, b01(r.Chance(70, 100))))
			}
		case x < 66:
			if d := s.randomDef(); d != nil {
				s.ops = append(s.ops, fmt.Sprintf("D:%d", d.id))
			}
		case x < 70:
			if d := s.randomDef(); d != nil {
				s.ops = append(s.ops, fmt.Sprintf("O:%d:-", d.id))
			}
		case x < 71:
			if d := s.randomDef(); d != nil {
				s.ops = append(s.ops, fmt.Sprintf("X:%d", d.id))
			}
		case x < 72:
			if s.pol.maxOrphans >= 5 && r.Bool() {
				s.orphanDoubleSpends()
			} else if s.grp < 0 {
				s.witnessRBF()
			}
		case x < 74:
			tag := r.Intn(3)
			if s.grp >= 0 {
				tag = s.grp
			}
			s.ops = append(s.ops, fmt.Sprintf("G:%d", tag))
		case x < 79:
			if s.grp < 0 {
				s.ops = append(s.ops, "T")
			}
		case x < 80:
			if s.grp < 0 && withBlocks { // restart: a new session with another policy on the same chain
				np := randomPolicy(r)
				np.minRelayFee = s.pol.minRelayFee
				s.pol = np
				s.ops = append(s.ops, "N:"+np.String())
				pending = nil
			}
		case x < 92:
			if withBlocks {
				s.connect(s.pickBlockTxs(int(r.Pick(0, 40, 80, 100)), int(r.Pick(0, 0, 20, 60))))
			}
		case x < 97:
			if withBlocks && s.height() > 1 {
				s.disconnect()
				if r.Chance(40, 100) && s.height() > 1 {
					s.disconnect()
				}
			}
		default:
			if withBlocks && s.height() > 2 {
				s.reorg(1 + r.Intn(2))
			}
		}
	}
}

// reorg: the chain itself reorganises (k blocks detached, k+1 attached) when a
// heavier side branch arrives.
func (s *sim) reorg(k int) {
	if k >= s.height() {
		k = s.height() - 1
	}
	if k < 1 {
		return
	}
	m := k + 1
	pos := len(s.ops)
	s.ops = append(s.ops, fmt.Sprintf("Z:%d:%d", k, m))
	for i := 0; i < k; i++ {
		s.disconnect()
	}
	for i := 0; i < m; i++ {
		s.connect(s.pickBlockTxs(int(s.r.Pick(0, 50, 100)), int(s.r.Pick(0, 30))))
	}
	_ = pos
}

func randomPolicy(r *core.Rand) policy {
	return policy{
		acceptNonStd:      r.Chance(40, 100),
		rejectReplacement: r.Chance(15, 100),
		maxOrphans:        int(r.Pick(0, 1, 2, 5, 100, 100)),
		maxOrphanSize:     int(r.Pick(117, 149, 160, 192, 100000, 100000)),
		minRelayFee:       r.Pick(0, 1000, 1000, 1000, 5000),
		disablePriority:   r.Chance(55, 100),
		freeRelay:         r.Bool(),
	}
}

func (P) Generate(g0 *core.Gen) {
	g := &collector{Gen: g0}
	defer g.flush()
	// the generator calls into the tree (sizes, sanity, standardness, dust): a mutated tree may panic there;
	// whatever was generated up to that point is still run and compared
	defer func() {
		if r := recover(); r != nil {
			fmt.Fprintln(os.Stderr, "p10: generator stopped early:", r)
		}
	}()
	if os.Getenv("VERIF_C10_ONLY") == "conc" { // manual -race runs
		for i := 0; i < 300; i++ {
			r := g.R.Fork()
			s := newSim(r, randomPolicy(r), int(r.Pick(1, 2)))
			s.scenario(int(r.Pick(30, 60)), false)
			g.Case("concurrent-exploration", len(s.defs) >= 3, strings.Replace(s.line(), "C10 run ", "C10 conc ", 1))
		}
		return
	}
	genPolicyOps(g, g.R.Fork(), g.N(150, 3000))
	// thin slice: non-conflicting chains, no blocks beyond the base chain
	for i := 0; i < g.N(60, 200); i++ {
		r := g.R.Fork()
		pol := policy{acceptNonStd: r.Bool(), maxOrphans: 100, maxOrphanSize: 100000, minRelayFee: 1000,
			disablePriority: true, freeRelay: true}
		s := newSim(r, pol, 2)
		s.baseChain(4)
		n := 3 + r.Intn(8)
		var l []*txDef
		for j := 0; j < n; j++ {
			if d := s.newTx(txOpts{nIn: 1 + r.Intn(2), nOut: 1 + r.Intn(3), fee: 5000}); d != nil {
				l = append(l, d)
			}
		}
		for len(l) > 0 {
			j := 0
			if r.Chance(30, 100) {
				j = r.Intn(len(l))
			}
			s.submit(l[j])
			l = append(l[:j], l[j+1:]...)
		}
		s.ops = append(s.ops, "T")
		g.Case("chains", n >= 3, s.line())
	}
	// replacement limit: a signalling transaction with a chain / fan of descendants, 99..101 in total
	for _, n := range []int{99, 100, 101} {
		for shape := 0; shape < g.N(1, 3); shape++ {
			r := g.R.Fork()
			pol := policy{acceptNonStd: r.Bool(), maxOrphans: 100, maxOrphanSize: 100000, minRelayFee: 1000,
				disablePriority: true, freeRelay: true}
			s := newSim(r, pol, 1)
			s.baseChain(3)
			root := s.newTx(txOpts{nIn: 1, nOut: 3, rbf: 1, fee: 1000})
			s.submit(root)
			for len(s.defs) < n {
				d := s.newTx(txOpts{nIn: 1, nOut: 1 + shape, fee: 1000, fromPool: true})
				if d == nil {
					break
				}
				s.submit(d)
			}
			// the replacement spends the root's input
			rep := s.replacementOf(root, 10000000)
			s.ops = append(s.ops, fmt.Sprintf("K:%d", rep.id))
			s.submit(rep)
			s.ops = append(s.ops, "T")
			g.Case("rbf-limit", true, s.line())
		}
	}
	for i := 0; i < g.N(60, 600); i++ {
		r := g.R.Fork()
		pol := randomPolicy(r)
		pol.maxOrphans = 100
		pol.maxOrphanSize = 100000
		pol.rejectReplacement = false
		s := newSim(r, pol, 1)
		s.baseChain(4 + r.Intn(3))
		for k := 0; k < 1+r.Intn(2); k++ {
			s.witnessRBF()
		}
		s.ops = append(s.ops, "T")
		g.Case("witness-rbf", len(s.defs) >= 3, s.line())
	}
	for i := 0; i < g.N(30, 300); i++ {
		r := g.R.Fork()
		pol := randomPolicy(r)
		pol.maxOrphans = 100
		pol.maxOrphanSize = 100000
		s := newSim(r, pol, 1)
		s.baseChain(4 + r.Intn(3))
		for k := 0; k < 1+r.Intn(2); k++ {
			s.minedOrphans()
		}
		s.ops = append(s.ops, "T")
		g.Case("mined-orphans", len(s.defs) >= 3, s.line())
	}
	for i := 0; i < g.N(120, 800); i++ {
		r := g.R.Fork()
		pol := randomPolicy(r)
		pol.maxOrphans = 100
		pol.maxOrphanSize = 100000
		s := newSim(r, pol, 1)
		s.baseChain(4 + r.Intn(3))
		for k := 0; k < 1+r.Intn(3); k++ {
			s.orphanDoubleSpends()
			if r.Bool() {
				s.ops = append(s.ops, "T")
			}
		}
		g.Case("orphan-double-spends", len(s.defs) >= 3, s.line())
	}
	for i := 0; i < g.N(300, 6000); i++ {
		r := g.R.Fork()
		s := newSim(r, randomPolicy(r), int(r.Pick(1, 2, 2, 3)))
		s.scenario(int(r.Pick(8, 15, 25, 40)), false)
		g.Case("pool-only", len(s.defs) >= 3, s.line())
	}
	// concurrent callers: 8 goroutines, each issuing its own history over its own coinbase outputs.  The
	// groups cannot interfere (disjoint outputs, tags, no orphan pressure), so every interleaving must end in
	// the state the model reaches by running the groups one after the other; the real state must also
	// satisfy the invariants.  Lines whose sequential run met an unobservable map-order choice are skipped.
	{
		type cand struct {
			seq, par string
			nt       bool
			ok       bool
		}
		cands := make([]cand, g.N(48, 900))
		for k := range cands {
			r := g.R.Fork()
			pol := randomPolicy(r)
			pol.maxOrphans = 100
			s := newSim(r, pol, 1)
			for s.cbCounter < 3*parGroups {
				s.connect(nil)
			}
			s.connect(nil) // matures the last coinbase
			base := strings.Join(s.ops, ";")
			var groups []string
			for grp := 0; grp < parGroups; grp++ {
				s.grp = grp
				s.ops = nil
				s.scenarioBody(int(r.Pick(4, 8, 12)), false)
				groups = append(groups, strings.Join(s.ops, ";"))
			}
			s.grp = -1
			s.ops = []string{base}
			for _, gr := range groups {
				if gr != "" {
					s.ops = append(s.ops, gr)
				}
			}
			seq := s.line() // groups one after the other
			tok := strings.Fields(seq)
			tok[1] = "par"
			tok[5] = base + "/" + strings.Join(groups, "/")
			cands[k] = cand{seq: seq, par: strings.Join(tok, " "), nt: len(s.defs) >= parGroups}
		}
		// sequential dry run of every candidate (in parallel): lines that met a map-order choice are dropped
		var wg sync.WaitGroup
		ch := make(chan int)
		for w := 0; w < min(12, runtime.NumCPU()); w++ {
			wg.Add(1)
			go func() {
				defer wg.Done()
				for k := range ch {
					func() {
						defer func() { recover() }()
						final := ""
						out := watchdog(func() string {
							f, o := execRecord(cands[k].seq)
							final = f
							return o
						})
						cands[k].ok = final == cands[k].seq && !strings.Contains(out, "nd") && !strings.Contains(out, "bad") &&
							out != "timeout" && out != "panic"
					}()
				}
			}()
		}
		for k := range cands {
			ch <- k
		}
		close(ch)
		wg.Wait()
		made := 0
		for _, c := range cands {
			if c.ok && made < g.N(30, 600) {
				g.Case("concurrent", c.nt, c.par)
				made++
			}
		}
	}
	// pinned schedule: a competing writer is started exactly while a submission holds the pool lock
	{
		type cand struct {
			seq, pin string
			nt       bool
			ok       bool
		}
		cands := make([]cand, g.N(44, 600))
		for k := range cands {
			r := g.R.Fork()
			pol := randomPolicy(r)
			pol.maxOrphans = 100
			s := newSim(r, pol, int(r.Pick(1, 2)))
			s.baseChain(s.maturity + 2 + r.Intn(3))
			s.scenarioBody(int(r.Pick(10, 20, 30)), false)
			// mark up to five (submission, writer) pairs; half of the time the competing writer is made to
			// interfere as much as it can: it removes the very transaction being submitted, with redeemers
			ops := append([]string(nil), s.ops...)
			var out, plain []string
			marks := 0
			for i := 0; i < len(ops); i++ {
				if marks < 5 && (ops[i][0] == 'P' || ops[i][0] == 'A') && r.Chance(40, 100) {
					second := ""
					if r.Bool() {
						second = "R:" + strings.Split(ops[i], ":")[1] + ":1"
					} else if i+1 < len(ops) && strings.ContainsRune("PARDXGO", rune(ops[i+1][0])) {
						second = ops[i+1]
						i++
					}
					if second != "" {
						first := ops[i]
						if second == ops[i] { // consumed the following op
							first = ops[i-1]
						}
						out = append(out, "S", first, second)
						plain = append(plain, first, second)
						marks++
						continue
					}
				}
				out = append(out, ops[i])
				plain = append(plain, ops[i])
			}
			s.ops = plain
			seq := s.line()
			s.ops = out
			cands[k] = cand{seq: seq, pin: s.line(), nt: marks > 0 && len(s.defs) >= 3}
		}
		var wg sync.WaitGroup
		ch := make(chan int)
		for w := 0; w < min(12, runtime.NumCPU()); w++ {
			wg.Add(1)
			go func() {
				defer wg.Done()
				for k := range ch {
					func() {
						defer func() { recover() }()
						final := ""
						out := watchdog(func() string {
							f, o := execRecord(cands[k].seq)
							final = f
							return o
						})
						cands[k].ok = final == cands[k].seq && !strings.Contains(out, "nd") && !strings.Contains(out, "bad") &&
							out != "timeout" && out != "panic"
					}()
				}
			}()
		}
		for k := range cands {
			ch <- k
		}
		close(ch)
		wg.Wait()
		made := 0
		for _, c := range cands {
			if c.ok && made < g.N(30, 400) {
				g.Case("pinned-schedule", c.nt, c.pin)
				made++
			}
		}
	}
	// exploration only (thorough tier): the same kind of history issued from 8 goroutines; invariants of
	// the real state at quiescence
	if g.Thorough() {
		for i := 0; i < 300; i++ {
			r := g.R.Fork()
			s := newSim(r, randomPolicy(r), int(r.Pick(1, 2)))
			s.scenario(int(r.Pick(30, 60)), false)
			g.Case("concurrent-exploration", len(s.defs) >= 3, strings.Replace(s.line(), "C10 run ", "C10 conc ", 1))
		}
	}
	for i := 0; i < g.N(450, 9000); i++ {
		r := g.R.Fork()
		s := newSim(r, randomPolicy(r), int(r.Pick(1, 2, 2, 3)))
		s.scenario(int(r.Pick(10, 20, 30, 50)), true)
		g.Case("blocks", len(s.defs) >= 3 && s.height() > 0, s.line())
	}
}

// collector runs the real code for all generated lines on several cores before
// handing the cases to core (which then finds the answers memoised).
type collector struct {
	*core.Gen
	cases []struct {
		class string
		nt    bool
		line  string
	}
}

func (c *collector) Case(class string, nontrivial bool, line string) {
	c.cases = append(c.cases, struct {
		class string
		nt    bool
		line  string
	}{class, nontrivial, line})
}

func (c *collector) flush() {
	var wg sync.WaitGroup
	ch := make(chan int)
	for w := 0; w < min(12, runtime.NumCPU()); w++ {
		wg.Add(1)
		go func() {
			defer wg.Done()
			for i := range ch {
				func() {
					defer func() {
						if recover() != nil {
							memo.Store(c.cases[i].line, "panic")
						}
					}()
					final := c.cases[i].line
					out := watchdog(func() string {
						f, o := execRecord(c.cases[i].line)
						final = f
						return o
					})
					if out == "timeout" || out == "panic" {
						final = c.cases[i].line
					}
					c.cases[i].line = final
					memo.Store(final, out)
				}()
			}
		}()
	}
	for i := range c.cases {
		ch <- i
	}
	close(ch)
	wg.Wait()
	var dump *os.File
	if p := os.Getenv("VERIF_C10_DUMP"); p != "" {
		dump, _ = os.Create(p)
		defer dump.Close()
	}
	for _, cs := range c.cases {
		if dump != nil {
			if v, ok := memo.Load(cs.line); ok {
				fmt.Fprintf(dump, "%s\t%s\t%s\n", cs.class, cs.line, v.(string))
			}
		}
		c.Gen.Case(cs.class, cs.nt, cs.line)
	}
}
