package p10

import (
	"fmt"
	"strconv"
	"strings"
	"sync"

	"github.com/btcsuite/btcd/blockchain"
	"github.com/btcsuite/btcd/mempool"
	"github.com/btcsuite/btcd/wire/v2"
)

// execConc is EXPLORATION, not correspondence: the base chain is connected
// sequentially, then the remaining pool operations of the line are issued from 8
// goroutines against the real pool; at quiescence the invariants of the property
// are evaluated directly on the real state (hook dump + chain utxo lookups).
// The Lean side answers "ok" to every conc line.  Build the harness with -race
// to let the race detector watch the run.
func execConc(line string) string {
	r, err := parseLine(strings.Replace(line, "C10 conc ", "C10 run ", 1))
	if err != nil {
		return "bad-op"
	}
	if !r.checkFacts() {
		return "bad-facts"
	}
	r.collectOps()
	r.e, err = newEnv(r.pol, r.maturity)
	if err != nil {
		return "env-error"
	}
	defer r.e.close()
	r.e.onEvent = func(byte) {}
	i := 0
	for ; i < len(r.ops) && strings.HasPrefix(r.ops[i], "C:"); i++ {
		bo, err := parseBlockOp(strings.Split(r.ops[i], ":"))
		if err != nil {
			return "bad-op"
		}
		best := r.e.chain.BestSnapshot()
		blk, ok := r.buildBlock(best.Hash, best.Height+1, bo)
		if !ok {
			return "bad-op"
		}
		if _, _, err := r.e.chain.ProcessBlock(blk, blockchain.BFNone); err != nil {
			return "bb"
		}
	}
	rest := r.ops[i:]
	r.forceRedeemers = true // exploration evaluates InputsAvailable: no deliberate orphaning
	var wg sync.WaitGroup
	for w := 0; w < 8; w++ {
		wg.Add(1)
		go func(w int) {
			defer wg.Done()
			for j := w; j < len(rest); j += 8 {
				r.issue(rest[j])
			}
		}(w)
	}
	wg.Wait()
	return r.invariants()
}

// issue performs one pool operation of a line on the real pool, ignoring results.
func (r *runner) issue(op string) {
	mp := r.e.pool
	f := strings.Split(op, ":")
	if len(f) < 2 {
		return
	}
	d, ok := r.tx(f[1])
	switch {
	case f[0] == "P" && ok && len(f) == 7:
		tag, _ := strconv.Atoi(f[4])
		mp.ProcessTransaction(d.tx, b(f[2]), b(f[3]), mempool.Tag(tag))
	case f[0] == "A" && ok:
		mp.MaybeAcceptTransaction(d.tx, b(f[2]), b(f[3]))
	case f[0] == "K" && ok:
		mp.CheckMempoolAcceptance(d.tx)
	case f[0] == "R" && ok && len(f) == 3:
		mp.RemoveTransaction(d.tx, b(f[2]) || r.forceRedeemers)
	case f[0] == "D" && ok:
		mp.RemoveDoubleSpends(d.tx)
	case f[0] == "O" && ok:
		mp.ProcessOrphans(d.tx)
	case f[0] == "X" && ok:
		mp.RemoveOrphan(d.tx)
	case f[0] == "G":
		tag, _ := strconv.Atoi(f[1])
		mp.RemoveOrphansByTag(mempool.Tag(tag))
	}
	mp.Count()
	mp.MiningDescs()
}

// invariants evaluates the property's invariants directly on the real state.
func (r *runner) invariants() string {
	mp := r.e.pool
	// invariants at quiescence, on the real state
	pool, outpoints, orphans, _ := mp.VerifPoolDump()
	for _, desc := range mp.TxDescs() {
		tx := desc.Tx
		for _, in := range tx.MsgTx().TxIn {
			h, ok := outpoints[in.PreviousOutPoint]
			if !ok || h != *tx.Hash() {
				return "viol:index-missing"
			}
			entry, err := r.e.chain.FetchUtxoEntry(in.PreviousOutPoint)
			inChain := err == nil && entry != nil && !entry.IsSpent()
			inPool := false
			if _, ok := pool[in.PreviousOutPoint.Hash]; ok {
				if p, err := mp.FetchTransaction(&in.PreviousOutPoint.Hash); err == nil &&
					int(in.PreviousOutPoint.Index) < len(p.MsgTx().TxOut) {
					inPool = true
				}
			}
			if !inChain && !inPool {
				return "viol:input-unavailable"
			}
		}
	}
	n := 0
	for op, h := range outpoints {
		if _, ok := pool[h]; !ok {
			return "viol:index-stale"
		}
		tx, _ := mp.FetchTransaction(&h)
		found := false
		for _, in := range tx.MsgTx().TxIn {
			if in.PreviousOutPoint == op {
				found = true
			}
		}
		if !found {
			return "viol:index-wrong"
		}
		n++
	}
	total := 0
	for _, desc := range mp.TxDescs() {
		total += len(desc.Tx.MsgTx().TxIn)
	}
	if total != n {
		return "viol:double-spend"
	}
	if r.pol.maxOrphans >= 0 && len(orphans) > max(r.pol.maxOrphans, 0) {
		return fmt.Sprintf("viol:orphans-%d", len(orphans))
	}
	var _ wire.OutPoint
	return "ok"
}

// connectBase connects the leading C ops of a line sequentially; returns the index of the first other op.
func (r *runner) connectBase(ops []string) (int, string) {
	i := 0
	for ; i < len(ops) && strings.HasPrefix(ops[i], "C:"); i++ {
		bo, err := parseBlockOp(strings.Split(ops[i], ":"))
		if err != nil {
			return i, "bad-op"
		}
		best := r.e.chain.BestSnapshot()
		blk, ok := r.buildBlock(best.Hash, best.Height+1, bo)
		if !ok {
			return i, "bad-op"
		}
		if _, _, err := r.e.chain.ProcessBlock(blk, blockchain.BFNone); err != nil {
			return i, "bb"
		}
	}
	return i, ""
}

// execPar: "C10 par …" — ops are `base/g0/g1/…`: the base chain is connected, then every group is issued by
// its own goroutine, in order within the group.  The groups are independent by construction, so the
// final state must be the one the model reaches sequentially; the answer is that final state (or an
// invariant violation).  R with redeemers=false inside a group is issued as written.
func execPar(line string) string {
	tok := strings.Fields(line)
	if len(tok) != 6 {
		return "bad-op"
	}
	parts := strings.Split(tok[5], "/")
	tok[1] = "run"
	var all []string
	for _, p := range parts {
		if p != "" && p != "-" {
			all = append(all, p)
		}
	}
	tok[5] = strings.Join(all, ";")
	r, err := parseLine(strings.Join(tok, " "))
	if err != nil {
		return "bad-op"
	}
	if !r.checkFacts() {
		return "bad-facts"
	}
	r.collectOps()
	r.e, err = newEnv(r.pol, r.maturity)
	if err != nil {
		return "env-error"
	}
	defer r.e.close()
	r.e.onEvent = func(byte) {}
	r.recordInputs()
	if _, bad := r.connectBase(splitList(parts[0], ";")); bad != "" {
		return bad
	}
	var wg sync.WaitGroup
	start := make(chan struct{})
	for _, grp := range parts[1:] {
		ops := splitList(grp, ";")
		wg.Add(1)
		go func() {
			defer wg.Done()
			<-start
			for _, op := range ops {
				f := strings.Split(op, ":")
				if f[0] == "R" && len(f) == 3 && !b(f[2]) {
					if d, ok := r.tx(f[1]); ok {
						r.e.pool.RemoveTransaction(d.tx, false)
					}
					continue
				}
				r.issue(op)
			}
		}()
	}
	close(start)
	wg.Wait()
	sn := r.snap()
	if strings.Contains(sn.text, ";api-") {
		return sn.text
	}
	if !r.inputsIntact() {
		return "input-mutated"
	}
	// a group may orphan its own redeemers with R:x:0 (allowed by the API); InputsAvailable is not claimed then
	if !hasPlainRemove(all) {
		if v := r.invariants(); v != "ok" {
			return v
		}
	}
	return sn.text
}

func hasPlainRemove(groups []string) bool {
	for _, g := range groups {
		for _, op := range strings.Split(g, ";") {
			f := strings.Split(op, ":")
			if f[0] == "R" && len(f) == 3 && f[2] == "0" {
				return true
			}
		}
	}
	return false
}
