#!/usr/bin/env python3
"""show the first differing op of C10 replay files: diff.py replays/C10-seed1-*.json"""
import json, sys
for f in sys.argv[1:]:
    d = json.load(open(f))
    ops = d['line'].split()[5].split(';')
    g = d['go_output'].split('|'); l = d['lean_output'].split('|')
    for i in range(max(len(g), len(l))):
        a = g[i] if i < len(g) else '<none>'; b = l[i] if i < len(l) else '<none>'
        if a != b:
            print(f, 'op', i, ops[i] if i < len(ops) else '?', 'policy', d['line'].split()[2])
            print('  prev:', g[i-1] if i else '')
            print('  go  :', a); print('  lean:', b)
            ids = [x for x in ops[i].split(':')[1:2]]
            for t in d['line'].split()[4].split(';'):
                if ids and t.split(':')[0] == ids[0]: print('  tx  :', t)
            break
