package p10

import (
	"fmt"
	"strconv"
	"strings"

	"github.com/btcsuite/btcd/btcutil/v2"
	"github.com/btcsuite/btcd/mempool"
	"github.com/btcsuite/btcd/txscript/v2"
	"github.com/btcsuite/btcd/wire/v2"
	"verifharness/core"
)

// Stateless policy arithmetic of mempool/policy.go: GetDustThreshold / IsDust and GetTxVirtualSize.
//
//	C10 dust <value> <pkScriptLen> <kind> <minRelay>     kind: n plain, w witness program, u unspendable
//	C10 vsize <sigScriptLens> <witnessItemLens> <pkScriptLens>

func scriptOf(kind string, n int) []byte {
	s := make([]byte, n)
	for i := range s {
		s[i] = txscript.OP_NOP
	}
	switch kind {
	case "w": // version byte + one push of n-2 bytes
		if n >= 4 && n <= 42 {
			s[0] = txscript.OP_0 + 0
			if n%3 == 0 {
				s[0] = txscript.OP_1 + byte(n%16)
			}
			s[1] = byte(n - 2)
		}
	case "u":
		if n > 0 {
			s[0] = txscript.OP_RETURN
		}
	}
	return s
}

func execDust(f []string) string {
	if len(f) != 4 {
		return "bad-op"
	}
	v, e1 := strconv.ParseInt(f[0], 10, 64)
	n, e2 := strconv.Atoi(f[1])
	r, e3 := strconv.ParseInt(f[3], 10, 64)
	if e1 != nil || e2 != nil || e3 != nil || n < 0 || n > 20000 {
		return "bad-op"
	}
	pk := scriptOf(f[2], n)
	// the line's kind must be what the script really is
	if txscript.IsWitnessProgram(pk) != (f[2] == "w") || txscript.IsUnspendable(pk) != (f[2] == "u") {
		return "bad-facts"
	}
	out := wire.NewTxOut(v, pk)
	d := 0
	if mempool.IsDust(out, btcutil.Amount(r)) {
		d = 1
	}
	return fmt.Sprintf("%d:%d", mempool.GetDustThreshold(out), d)
}

func parseLens(s string) ([]int, bool) {
	var l []int
	for _, p := range splitList(s, ",") {
		v, err := strconv.Atoi(p)
		if err != nil || v < 0 || v > 70000 {
			return nil, false
		}
		l = append(l, v)
	}
	return l, true
}

func execVsize(f []string) string {
	if len(f) != 3 {
		return "bad-op"
	}
	sl, ok1 := parseLens(f[0])
	wl, ok2 := parseLens(f[1])
	pl, ok3 := parseLens(f[2])
	if !ok1 || !ok2 || !ok3 || len(sl) != len(wl) {
		return "bad-op"
	}
	m := wire.NewMsgTx(2)
	for i, n := range sl {
		in := wire.NewTxIn(&wire.OutPoint{Index: uint32(i)}, make([]byte, n), nil)
		if wl[i] > 0 {
			in.Witness = wire.TxWitness{make([]byte, wl[i])}
		}
		m.AddTxIn(in)
	}
	for _, n := range pl {
		m.AddTxOut(wire.NewTxOut(1, make([]byte, n)))
	}
	return fmt.Sprintf("%d:%d:%d", m.SerializeSizeStripped(), m.SerializeSize(), mempool.GetTxVirtualSize(btcutil.NewTx(m)))
}

func genPolicyOps(g interface {
	Case(string, bool, string)
}, r *core.Rand, n int) {
	lens := []int{0, 1, 4, 21, 22, 23, 25, 33, 34, 35, 42, 43, 67, 252, 253, 254, 255, 10000, 10001}
	rates := []int64{0, 1, 999, 1000, 1001, 3000, 5000, 100000}
	for i := 0; i < n; i++ {
		l := lens[r.Intn(len(lens))]
		kind := []string{"n", "n", "w", "u"}[r.Intn(4)]
		if kind == "w" && (l < 4 || l > 42) {
			l = int(r.Pick(4, 22, 34, 42))
		}
		if kind == "u" && l == 0 {
			l = 1
		}
		if kind == "n" && l > 10000 {
			kind = "u" // longer than MaxScriptSize: unspendable
		}
		rate := rates[r.Intn(len(rates))]
		// values around the threshold for this script and rate
		pk := scriptOf(kind, l)
		thr := mempool.GetDustThreshold(wire.NewTxOut(0, pk))
		edge := thr * rate / 1000
		v := edge + r.Pick(-2, -1, 0, 1, 2)
		switch r.Intn(6) {
		case 0:
			v = r.Pick(0, 1, -1, 545, 546, 547, 293, 294, 329, 330, 539, 540)
		case 1:
			v = int64(r.U64() % 2100000000000000)
		case 2:
			v = -int64(r.U64() % 100000)
		}
		g.Case("dust", v != 0, fmt.Sprintf("C10 dust %d %d %s %d", v, l, kind, rate))
	}
	for i := 0; i < n; i++ {
		nin, nout := 1+r.Intn(4), 1+r.Intn(4)
		if r.Chance(1, 10) {
			nin = int(r.Pick(252, 253, 254))
		}
		var sl, wl, pl []string
		anyWit := r.Chance(60, 100)
		for j := 0; j < nin; j++ {
			sl = append(sl, strconv.Itoa(int(r.Pick(0, 1, 2, 107, 252, 253, 254, 1650, 65535, 65536))%(1+int(r.Pick(300, 70000)))))
			w := 0
			if anyWit && r.Chance(70, 100) {
				w = int(r.Pick(1, 2, 64, 72, 73, 252, 253, 254, 520, 65535, 65536) % (1 + r.Pick(300, 70000)))
			}
			wl = append(wl, strconv.Itoa(w))
		}
		for j := 0; j < nout; j++ {
			pl = append(pl, strconv.Itoa(int(r.Pick(0, 1, 22, 23, 25, 34, 252, 253, 254, 10000))))
		}
		g.Case("vsize", true, fmt.Sprintf("C10 vsize %s %s %s", strings.Join(sl, ","), strings.Join(wl, ","), strings.Join(pl, ",")))
	}
}
