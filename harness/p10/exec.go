package p10

import (
	"bytes"
	"encoding/hex"
	"fmt"
	"hash/fnv"
	"sort"
	"strconv"
	"strings"
	"sync"
	"time"

	"github.com/btcsuite/btcd/blockchain"
	"github.com/btcsuite/btcd/btcjson"
	"github.com/btcsuite/btcd/btcutil/v2"
	"github.com/btcsuite/btcd/chainhash/v2"
	"github.com/btcsuite/btcd/mempool"
	"github.com/btcsuite/btcd/mining"
	"github.com/btcsuite/btcd/wire/v2"
)

// ---------------------------------------------------------------- observation

type snapshot struct {
	pool    map[int]bool
	orphans map[int]bool
	tags    map[int]int
	byPrev  map[string][]int // "txid.idx" -> orphan ids
	text    string
}

// ndAfter: which of several orphans redeeming the same outpoint Go's map
// iteration tries first is not observable.  Both sides stop comparing ("nd")
// when, inside an operation that runs processOrphans, an orphan leaves the
// orphan pool that shared a redeemed outpoint with another orphan AND that
// outpoint belongs to a transaction processOrphans walked (the operation's own
// transactions or anything that entered the pool during the operation).
// prioReadback lists the contested orphans (see above) that left the orphan pool
// during the operation: first those the implementation accepted, in the order it
// reported them (an accepted orphan may already have been replaced again by a
// later one), then those that were removed without being accepted.  Tried in this
// order (then everything else) the model's processOrphans reproduces what the
// implementation's map iteration did.  The second result counts the latter.
func prioReadback(before, after snapshot, opTxs, accepted []int) ([]int, int) {
	walked := map[int]bool{}
	for _, id := range opTxs {
		walked[id] = true
	}
	for _, id := range accepted {
		walked[id] = true
	}
	for id := range after.pool {
		if !before.pool[id] {
			walked[id] = true
		}
	}
	left := map[int]bool{}
	for k, ids := range before.byPrev {
		if len(ids) < 2 {
			continue
		}
		txid, _ := strconv.Atoi(strings.Split(k, ".")[0])
		if !walked[txid] {
			continue
		}
		for _, id := range ids {
			if !after.orphans[id] {
				left[id] = true
			}
		}
	}
	var in, out []int
	isAcc := map[int]bool{}
	for _, id := range accepted {
		if left[id] && !isAcc[id] {
			in = append(in, id)
		}
		isAcc[id] = true
	}
	for id := range left {
		if !isAcc[id] {
			out = append(out, id)
		}
	}
	sort.Ints(out)
	return append(in, out...), len(out)
}

// resolveND handles an operation after which contested orphans left the orphan
// pool.  prioField is the op's choice list on the line.  Returns "" to go on
// comparing, or the token that ends the line.
func fnv64(s string) uint64 {
	h := fnv.New64a()
	h.Write([]byte(s))
	return h.Sum64()
}

func contestedAll(sn snapshot) int {
	set := map[int]bool{}
	for _, ids := range sn.byPrev {
		if len(ids) >= 2 {
			for _, id := range ids {
				set[id] = true
			}
		}
	}
	return len(set)
}

func (r *runner) resolveND(before, after snapshot, opTxs, accepted []int, i, field int, obs string) string {
	rb, removed := prioReadback(before, after, opTxs, accepted)
	if len(rb) == 0 {
		return ""
	}
	f := strings.Split(r.ops[i], ":")
	// two or more contested orphans were removed without being accepted: which of them was tried
	// (and failed) first cannot be read back, so no choice is recorded and both sides stop here
	if r.record {
		if removed >= 2 {
			// the order cannot be read back directly: record the outcome, the model side searches
			// for an order of the contested orphans that reproduces it
			if contestedAll(before) > 6 {
				return "nd"
			}
			f[field] = "h" + strconv.FormatUint(fnv64(obs), 10)
			r.ops[i] = strings.Join(f, ":")
			return ""
		}
		f[field] = joinInts(rb)
		r.ops[i] = strings.Join(f, ":")
		return ""
	}
	if f[field] == "-" {
		return "nd" // no choice recorded: both sides stop here
	}
	if strings.HasPrefix(f[field], "h") {
		if f[field] == "h"+strconv.FormatUint(fnv64(obs), 10) {
			return ""
		}
		r.steerFailed = true
		return "nd-unreachable"
	}
	if f[field] == joinInts(rb) {
		return ""
	}
	r.steerFailed = true // the map order differed from the recorded one: run again
	return "nd-unreachable"
}

func (r *runner) idOf(h chainhash.Hash) int {
	if id, ok := r.u.hashID[h]; ok {
		return id
	}
	return 999999
}

func (r *runner) opStr(op wire.OutPoint) (int, int) {
	return r.idOf(op.Hash), int(op.Index)
}

func joinInts(l []int) string {
	if len(l) == 0 {
		return "-"
	}
	s := make([]string, len(l))
	for i, v := range l {
		s[i] = strconv.Itoa(v)
	}
	return strings.Join(s, ",")
}

type kv struct {
	a, b, c int
}

func sortKV(l []kv) {
	sort.Slice(l, func(i, j int) bool {
		if l[i].a != l[j].a {
			return l[i].a < l[j].a
		}
		if l[i].b != l[j].b {
			return l[i].b < l[j].b
		}
		return l[i].c < l[j].c
	})
}

func showKV(l []kv) string {
	if len(l) == 0 {
		return "-"
	}
	s := make([]string, len(l))
	for i, e := range l {
		s[i] = fmt.Sprintf("%d.%d>%d", e.a, e.b, e.c)
	}
	return strings.Join(s, ",")
}

// snap observes the whole pool: hook dumps cross-checked against the public API.
func (r *runner) snap() snapshot {
	mp := r.e.pool
	pool, outpoints, orphans, byPrev := mp.VerifPoolDump()
	sn := snapshot{pool: map[int]bool{}, orphans: map[int]bool{}, tags: map[int]int{}, byPrev: map[string][]int{}}
	var ids []int
	heights := map[int]int32{}
	for h, ht := range pool {
		ids = append(ids, r.idOf(h))
		sn.pool[r.idOf(h)] = true
		heights[r.idOf(h)] = ht
	}
	sort.Ints(ids)
	idh := make([]string, len(ids))
	for i, id := range ids {
		idh[i] = strconv.Itoa(id)
	}
	pstr := "-"
	if len(idh) > 0 {
		pstr = strings.Join(idh, ",")
	}
	var sp []kv
	for op, h := range outpoints {
		t, i := r.opStr(op)
		sp = append(sp, kv{t, i, r.idOf(h)})
	}
	sortKV(sp)
	var orph []kv
	for h, tag := range orphans {
		orph = append(orph, kv{r.idOf(h), int(tag), 0})
		sn.orphans[r.idOf(h)] = true
		sn.tags[r.idOf(h)] = int(tag)
	}
	sortKV(orph)
	os := make([]string, len(orph))
	for i, o := range orph {
		os[i] = fmt.Sprintf("%d.%d", o.a, o.b)
	}
	var bp []kv
	for op, l := range byPrev {
		t, i := r.opStr(op)
		for _, h := range l {
			bp = append(bp, kv{t, i, r.idOf(h)})
			k := fmt.Sprintf("%d.%d", t, i)
			sn.byPrev[k] = append(sn.byPrev[k], r.idOf(h))
		}
	}
	sortKV(bp)
	ostr := "-"
	if len(os) > 0 {
		ostr = strings.Join(os, ",")
	}
	sn.text = "p=" + pstr + ";s=" + showKV(sp) + ";o=" + ostr + ";b=" + showKV(bp)

	// public API must tell the same story
	bad := ""
	if mp.Count() != len(pool) || len(mp.TxDescs()) != len(pool) || len(mp.MiningDescs()) != len(pool) ||
		len(mp.TxHashes()) != len(pool) {
		bad = ";api-count"
	}
	for _, op := range r.knownOps {
		sp := mp.CheckSpend(op)
		h, ok := outpoints[op]
		if (sp == nil) != !ok || (sp != nil && *sp.Hash() != h) {
			bad = ";api-checkspend"
		}
	}
	// descriptors: TxDescs / MiningDescs / TxHashes / RawMempoolVerbose tell the same story as the pool map
	r.snaps++
	deep := r.snaps%3 == 0 // the listings below are the expensive part of an observation
	seen := map[int]bool{}
	var descs []*mempool.TxDesc
	if deep {
		descs = mp.TxDescs()
	}
	for _, d := range descs {
		id := r.idOf(*d.Tx.Hash())
		def, ok := r.u.defs[id]
		if !ok || !sn.pool[id] || seen[id] || d.Fee != def.fee {
			bad = ";api-desc"
		}
		seen[id] = true
	}
	var mdescs []*mining.TxDesc
	if deep {
		mdescs = mp.MiningDescs()
	}
	for _, d := range mdescs {
		id := r.idOf(*d.Tx.Hash())
		def, ok := r.u.defs[id]
		if !ok || !sn.pool[id] || d.Fee != def.fee {
			bad = ";api-miningdesc"
		}
	}
	for _, h := range mp.TxHashes() {
		if !sn.pool[r.idOf(*h)] {
			bad = ";api-hashes"
		}
	}
	raw := map[string]*btcjson.GetRawMempoolVerboseResult{}
	if deep {
		raw = mp.RawMempoolVerbose()
		if len(raw) != len(pool) {
			bad = ";api-raw"
		}
	}
	for hs, e := range raw {
		h, err := chainhash.NewHashFromStr(hs)
		if err != nil {
			bad = ";api-raw"
			continue
		}
		id := r.idOf(*h)
		def, ok := r.u.defs[id]
		if !ok || !sn.pool[id] || int64(e.Vsize) != def.vsize || int64(e.Size) != def.size ||
			int64(e.Fee*1e8+0.5) != def.fee {
			bad = ";api-raw"
			continue
		}
		must, may := map[int]bool{}, map[int]bool{}
		for _, in := range def.ins {
			if sn.pool[in.txid] {
				must[in.txid] = true
			}
			if sn.pool[in.txid] || sn.orphans[in.txid] {
				may[in.txid] = true // btcd also lists parents that sit in the orphan pool; not a property matter
			}
		}
		got := map[int]bool{}
		for _, ds := range e.Depends {
			if dh, err := chainhash.NewHashFromStr(ds); err == nil {
				got[r.idOf(*dh)] = true
			}
		}
		for k := range must {
			if !got[k] {
				bad = ";api-raw-depends"
			}
		}
		for k := range got {
			if !may[k] {
				bad = ";api-raw-depends"
			}
		}
	}
	for h, id := range r.u.hashID {
		hh := h
		inPool, inOrph := sn.pool[id], sn.orphans[id]
		if mp.IsTransactionInPool(&hh) != inPool || mp.IsOrphanInPool(&hh) != inOrph ||
			mp.HaveTransaction(&hh) != (inPool || inOrph) {
			bad = ";api-have"
		}
		if _, err := mp.FetchTransaction(&hh); (err == nil) != inPool {
			bad = ";api-fetch"
		}
	}
	sn.text += bad
	return sn
}

// ---------------------------------------------------------------- runner

type blockOp struct {
	cbID, cbOuts int
	mtp, ts      int64
	txs          []int
	prio         string
}

type runner struct {
	pol                 policy
	maturity            int
	u                   *universe
	order               []*txDef
	ops                 []string
	e                   *env
	knownOps            []wire.OutPoint
	stale               map[int]bool
	last                snapshot
	record, steerFailed bool
	snaps               int
	forceRedeemers      bool
	prints              map[int]string
	held                []func() bool // results handed out earlier; each must still read the same at the end of the run
}

// hold remembers a result the pool handed out: results are values, later operations must not change them.
func (r *runner) holdDescs(l []*mempool.TxDesc) {
	for _, d := range l {
		d := d
		h, fee, rate, ht, added := *d.Tx.Hash(), d.Fee, d.FeePerKB, d.Height, d.Added
		nin, nout := len(d.Tx.MsgTx().TxIn), len(d.Tx.MsgTx().TxOut)
		r.held = append(r.held, func() bool {
			return *d.Tx.Hash() == h && d.Tx.MsgTx().TxHash() == h && d.Fee == fee && d.FeePerKB == rate &&
				d.Height == ht && d.Added.Equal(added) && len(d.Tx.MsgTx().TxIn) == nin && len(d.Tx.MsgTx().TxOut) == nout
		})
	}
}

func (r *runner) holdAccept(ar *mempool.MempoolAcceptResult) {
	fee, size, n := ar.TxFee, ar.TxSize, len(ar.Conflicts)
	keys := map[chainhash.Hash]bool{}
	for h, tx := range ar.Conflicts {
		keys[h] = *tx.Hash() == h
	}
	r.held = append(r.held, func() bool {
		if ar.TxFee != fee || ar.TxSize != size || len(ar.Conflicts) != n {
			return false
		}
		for h, tx := range ar.Conflicts {
			if !keys[h] || *tx.Hash() != h {
				return false
			}
		}
		return true
	})
}

// errClass: a rejection.  Which check rejected and with which reject code is not part of the property
// (a harmless reordering of independent checks changes it), so only internal (non-rule) errors are told apart.
func errClass(err error) string {
	if _, ok := err.(mempool.RuleError); ok {
		return "e"
	}
	return "e:internal"
}

func parseBlockOp(f []string) (blockOp, error) {
	var b blockOp
	if len(f) != 7 {
		return b, fmt.Errorf("C fields")
	}
	var err error
	if b.cbID, err = strconv.Atoi(f[1]); err != nil {
		return b, err
	}
	if b.cbOuts, err = strconv.Atoi(f[2]); err != nil {
		return b, err
	}
	if b.mtp, err = strconv.ParseInt(f[3], 10, 64); err != nil {
		return b, err
	}
	for _, s := range splitList(f[4], ",") {
		v, err := strconv.Atoi(s)
		if err != nil {
			return b, err
		}
		b.txs = append(b.txs, v)
	}
	if b.ts, err = strconv.ParseInt(f[5], 10, 64); err != nil {
		return b, err
	}
	b.prio = f[6]
	return b, nil
}

// parseLine prepares the universe: coinbases first (their height follows from
// the op sequence), then every definition in id order.
func parseLine(line string) (*runner, error) {
	tok := strings.Fields(line)
	if len(tok) != 6 || tok[0] != "C10" || tok[1] != "run" {
		return nil, fmt.Errorf("shape")
	}
	pol, err := parsePolicy(tok[2])
	if err != nil {
		return nil, err
	}
	ch := strings.Split(tok[3], ":")
	if len(ch) != 2 {
		return nil, fmt.Errorf("chain")
	}
	r := &runner{pol: pol, stale: map[int]bool{}}
	if r.maturity, err = strconv.Atoi(ch[0]); err != nil {
		return nil, err
	}
	if ch[1] != "g" {
		return nil, fmt.Errorf("chain")
	}
	r.u = &universe{defs: map[int]*txDef{}, cbs: map[int]*btcutil.Tx{}, hashID: map[chainhash.Hash]int{}}
	r.ops = splitList(tok[5], ";")
	// coinbases
	height := int32(0)
	e0 := &env{}
	for _, o := range r.ops {
		f := strings.Split(o, ":")
		switch f[0] {
		case "C":
			b, err := parseBlockOp(f)
			if err != nil {
				return nil, err
			}
			height++
			cb := e0.coinbase(height, b.cbID, b.cbOuts)
			r.u.cbs[b.cbID] = cb
			r.u.hashID[*cb.Hash()] = b.cbID
		case "U":
			height--
			if height < 0 {
				return nil, fmt.Errorf("disconnect below genesis")
			}
		}
	}
	for _, s := range splitList(tok[4], ";") {
		d, err := parseTxDef(s)
		if err != nil {
			return nil, err
		}
		if _, dup := r.u.defs[d.id]; dup {
			return nil, fmt.Errorf("dup id")
		}
		for _, in := range d.ins {
			if in.txid >= d.id {
				return nil, fmt.Errorf("forward reference")
			}
		}
		r.order = append(r.order, d)
		r.u.defs[d.id] = d
	}
	sort.Slice(r.order, func(i, j int) bool { return r.order[i].id < r.order[j].id })
	for _, d := range r.order {
		r.u.build(d)
	}
	return r, nil
}

// checkFacts makes sure the facts the model reads off the line are those of the
// real transactions.
func (r *runner) checkFacts() bool {
	for _, d := range r.order {
		fee, vs, ss, sz, bits := r.u.facts(d, 2, r.pol.minRelayFee)
		if fee != d.fee || vs != d.vsize || ss != d.ssize || sz != d.size || bits != d.bits {
			return false
		}
		if r.pol.disablePriority {
			continue // lines without priority facts (older corpus lines) are only valid with priority relay off
		}
		vals, ps := r.u.prioFacts(d)
		if ps != d.prioSize {
			return false
		}
		for i := range d.ins {
			if d.ins[i].value != vals[i] {
				return false
			}
		}
	}
	return true
}

func (r *runner) collectOps() {
	seen := map[wire.OutPoint]bool{}
	add := func(op wire.OutPoint) {
		if !seen[op] {
			seen[op] = true
			r.knownOps = append(r.knownOps, op)
		}
	}
	for _, d := range r.order {
		for _, in := range d.tx.MsgTx().TxIn {
			add(in.PreviousOutPoint)
		}
		for i := range d.tx.MsgTx().TxOut {
			add(wire.OutPoint{Hash: *d.tx.Hash(), Index: uint32(i)})
		}
	}
	for _, id := range sortedKeys(r.u.cbs) {
		cb := r.u.cbs[id]
		for i := range cb.MsgTx().TxOut {
			add(wire.OutPoint{Hash: *cb.Hash(), Index: uint32(i)})
		}
	}
}

func (r *runner) tx(idStr string) (*txDef, bool) {
	id, err := strconv.Atoi(idStr)
	if err != nil {
		return nil, false
	}
	d, ok := r.u.defs[id]
	return d, ok
}

func b(s string) bool { return s == "1" }

func (r *runner) descIDList(l []*mempool.TxDesc) []int {
	ids := make([]int, len(l))
	for i, d := range l {
		ids[i] = r.idOf(*d.Tx.Hash())
	}
	return ids
}

// descIDs: the submitted transaction first, then the orphans that followed, sorted (their order is not part of
// the property); withHead=false for ProcessOrphans, whose result has no distinguished first element.
func (r *runner) descIDs(l []*mempool.TxDesc) string { return r.descIDsH(l, true) }

func (r *runner) descIDsH(l []*mempool.TxDesc, withHead bool) string {
	ids := r.descIDList(l)
	from := 0
	if withHead && len(ids) > 0 {
		from = 1
	}
	sort.Ints(ids[from:])
	return joinInts(ids)
}

func (r *runner) missingIDs(l []*chainhash.Hash) string {
	set := map[int]bool{}
	for _, h := range l {
		set[r.idOf(*h)] = true
	}
	var ids []int
	for k := range set {
		ids = append(ids, k)
	}
	sort.Ints(ids)
	return joinInts(ids)
}

// buildBlock makes the block of a C op on top of prev.
func (r *runner) buildBlock(prev chainhash.Hash, height int32, bo blockOp) (*btcutil.Block, bool) {
	txs := []*btcutil.Tx{r.u.cbs[bo.cbID]}
	for _, id := range bo.txs {
		d, ok := r.u.defs[id]
		if !ok {
			return nil, false
		}
		txs = append(txs, d.tx)
	}
	_ = height
	return r.e.makeBlock(prev, bo.ts, txs), true
}

func (r *runner) after(res string) string {
	sn := r.snap()
	// staleness bookkeeping for the template op
	for id := range r.stale {
		if !sn.pool[id] {
			delete(r.stale, id)
		}
	}
	r.last = sn
	return res + ";" + sn.text
}

// markStale: chain height or MTP moved backwards; everything pooled before is exempt from Minable.
func (r *runner) markStale() {
	for id := range r.last.pool {
		r.stale[id] = true
	}
}

// template builds a block of the whole pool in dependency order on the tip.
func (r *runner) template() string {
	if len(r.stale) > 0 {
		return "t:?"
	}
	best := r.e.chain.BestSnapshot()
	var ids []int
	for id := range r.last.pool {
		ids = append(ids, id)
	}
	sort.Ints(ids) // ids are ranks: ascending id is a dependency order
	cb := r.e.coinbase(best.Height+1, 777000+int(best.Height), 1)
	txs := []*btcutil.Tx{cb}
	for _, id := range ids {
		if d, ok := r.u.defs[id]; ok {
			txs = append(txs, d.tx)
		}
	}
	for _, t := range txs[1:] {
		if t.MsgTx().HasWitness() {
			mining.AddWitnessCommitment(cb, txs) // the template commits to the witness data it carries
			break
		}
	}
	blk := r.e.makeBlock(best.Hash, r.e.lastTs+1, txs)
	if err := r.e.chain.CheckConnectBlockTemplate(blk); err != nil {
		if debug {
			fmt.Println("template:", err, blk.MsgBlock().Header.Timestamp, r.e.lastTs, baseTime)
		}
		return "t:0"
	}
	return "t:1"
}

var debug = false

type event struct {
	kind      byte // 'C' | 'U'
	sn        snapshot
	announced []int // orphans netsync announced as accepted while handling this notification, in order
}

// run executes the history on the REAL code.
func (r *runner) run() string {
	r.steerFailed = false
	r.held = nil
	r.recordInputs()
	var err error
	r.e, err = newEnv(r.pol, r.maturity)
	if err != nil {
		return "env-error"
	}
	defer r.e.close()
	var events []event
	r.e.onEvent = func(kind byte) {
		var ann []int
		for _, h := range r.e.note.announced {
			ann = append(ann, r.idOf(h))
		}
		r.e.note.announced = nil
		events = append(events, event{kind, r.snap(), ann})
	}
	r.stale = map[int]bool{}
	r.last = snapshot{pool: map[int]bool{}, orphans: map[int]bool{}}
	if r.e.chain.BestSnapshot().MedianTime.Unix() != genesisTime {
		return "bad-facts:mtp0"
	}
	var outs []string
	for i := 0; i < len(r.ops); i++ {
		f := strings.Split(r.ops[i], ":")
		res := "-"
		mp := r.e.pool
		before := r.last
		runsOrphans := false
		var opTxs, accIDs []int
		switch {
		case f[0] == "P" && len(f) == 7:
			d, ok := r.tx(f[1])
			if !ok {
				return "bad-op"
			}
			tag, _ := strconv.Atoi(f[4])
			runsOrphans = true
			acc, err := mp.ProcessTransaction(d.tx, b(f[2]), b(f[3]), mempool.Tag(tag))
			switch {
			case err != nil:
				res = errClass(err)
			case acc == nil:
				res = "orph"
				// limitNumOrphans evicts whichever orphan Go's map iteration yields first.  Steer the
				// pool to the line's choice (or the smallest id) through the public API: every
				// state visited is one the real code could have reached by itself.
				want, _ := strconv.Atoi(f[5])
				if r.record {
					// generation time: write the implementation's own choice into the line
					if ev := r.evictedSince(before, d.id); ev != 0 {
						f[5] = strconv.Itoa(ev)
						r.ops[i] = strings.Join(f, ":")
					}
				} else if !r.steerEviction(before, d.id, want) {
					res = "steer-failed"
					r.steerFailed = true
				}
			default:
				res = "a:" + r.descIDs(acc)
				accIDs = r.descIDList(acc)
				r.holdDescs(acc)
			}
		case f[0] == "A" && len(f) == 4:
			d, ok := r.tx(f[1])
			if !ok {
				return "bad-op"
			}
			missing, desc, err := mp.MaybeAcceptTransaction(d.tx, b(f[2]), b(f[3]))
			switch {
			case err != nil:
				res = errClass(err)
			case len(missing) > 0:
				res = "m:" + r.missingIDs(missing)
			case desc != nil:
				res = "a:" + r.descIDs([]*mempool.TxDesc{desc})
				r.holdDescs([]*mempool.TxDesc{desc})
			default:
				res = "a:?"
			}
		case f[0] == "K" && len(f) == 2:
			d, ok := r.tx(f[1])
			if !ok {
				return "bad-op"
			}
			ar, err := mp.CheckMempoolAcceptance(d.tx)
			switch {
			case err != nil:
				res = errClass(err)
			case len(ar.MissingParents) > 0:
				res = "m:" + r.missingIDs(ar.MissingParents)
			default:
				var cs []int
				for h := range ar.Conflicts {
					cs = append(cs, r.idOf(h))
				}
				sort.Ints(cs)
				res = fmt.Sprintf("k:%d:%d:%s", int64(ar.TxFee), ar.TxSize, joinInts(cs))
				r.holdAccept(ar)
			}
		case f[0] == "R" && len(f) == 3:
			d, ok := r.tx(f[1])
			if !ok {
				return "bad-op"
			}
			mp.RemoveTransaction(d.tx, b(f[2]))
			if !b(f[2]) && before.pool[d.id] {
				// redeemers orphaned on purpose: no Minable claim afterwards
				for i := range d.tx.MsgTx().TxOut {
					if mp.CheckSpend(wire.OutPoint{Hash: *d.tx.Hash(), Index: uint32(i)}) != nil {
						r.markStale()
					}
				}
			}
		case f[0] == "D" && len(f) == 2:
			d, ok := r.tx(f[1])
			if !ok {
				return "bad-op"
			}
			mp.RemoveDoubleSpends(d.tx)
		case f[0] == "O" && len(f) == 3:
			d, ok := r.tx(f[1])
			if !ok {
				return "bad-op"
			}
			runsOrphans = true
			opTxs = []int{d.id}
			pacc := mp.ProcessOrphans(d.tx)
			accIDs = r.descIDList(pacc)
			res = "a:" + r.descIDsH(pacc, false)
			r.holdDescs(pacc)
			if len(r.held)%3 == 0 {
				r.holdDescs(mp.TxDescs()) // a listing is a value too
			}
		case f[0] == "X" && len(f) == 2:
			d, ok := r.tx(f[1])
			if !ok {
				return "bad-op"
			}
			mp.RemoveOrphan(d.tx)
		case f[0] == "G" && len(f) == 2:
			tag, _ := strconv.Atoi(f[1])
			mp.RemoveOrphansByTag(mempool.Tag(tag))
		case f[0] == "N" && len(f) == 2:
			// a new session: fresh TxPool with another policy on the same chain
			pol, err := parsePolicy(f[1])
			if err != nil || pol.minRelayFee != r.pol.minRelayFee {
				return "bad-op"
			}
			if err := r.e.makePool(pol); err != nil {
				return "env-error"
			}
			r.pol = pol
			r.e.note.announced = nil
		case f[0] == "S" && len(f) == 1:
			// pinned schedule: the next op (a submission) is run; at the moment it looks up the chain — the pool's
			// write lock is held — the op after it is started from another goroutine.  It must not complete
			// before the submission has returned; the pair must end like the two ops run one after the other.
			if i+2 >= len(r.ops) {
				return "bad-op"
			}
			f1 := strings.Split(r.ops[i+1], ":")
			d1, ok := r.tx(f1[1])
			if !ok || (f1[0] != "P" && f1[0] != "A") {
				return "bad-op"
			}
			second := r.ops[i+2]
			done := make(chan struct{})
			early := false
			hooked := false
			r.e.fetchHook = func() {
				hooked = true
				go func() {
					r.issue(second)
					close(done)
				}()
				select {
				case <-done:
					early = true // the competing call got through although the submission holds the lock
				case <-time.After(3 * time.Millisecond):
				}
			}
			if f1[0] == "P" && len(f1) == 7 {
				tag, _ := strconv.Atoi(f1[4])
				acc, err := mp.ProcessTransaction(d1.tx, b(f1[2]), b(f1[3]), mempool.Tag(tag))
				switch {
				case err != nil:
					res = errClass(err)
				case acc == nil:
					res = "orph"
				default:
					res = "a:" + r.descIDs(acc)
				}
			} else if f1[0] == "A" && len(f1) == 4 {
				missing, desc, err := mp.MaybeAcceptTransaction(d1.tx, b(f1[2]), b(f1[3]))
				switch {
				case err != nil:
					res = errClass(err)
				case len(missing) > 0:
					res = "m:" + r.missingIDs(missing)
				default:
					res = "a:" + r.descIDs([]*mempool.TxDesc{desc})
				}
			} else {
				return "bad-op"
			}
			r.e.fetchHook = nil
			if hooked {
				select {
				case <-done:
				case <-time.After(30 * time.Second):
					return "timeout"
				}
			} else {
				r.issue(second) // the submission was rejected before any chain lookup
			}
			if early {
				res = "lock-violation"
			}
			i += 2
		case f[0] == "T":
			res = r.template()
		case f[0] == "C":
			bo, err := parseBlockOp(f)
			if err != nil {
				return "bad-op"
			}
			best := r.e.chain.BestSnapshot()
			blk, ok := r.buildBlock(best.Hash, best.Height+1, bo)
			if !ok {
				return "bad-op"
			}
			events = nil
			r.e.lastTs = bo.ts
			runsOrphans = true
			opTxs = bo.txs
			isMain, isOrphan, err := r.e.chain.ProcessBlock(blk, blockchain.BFNone)
			if err != nil || !isMain || isOrphan {
				if debug {
					fmt.Println("block:", err)
				}
				res = "bb"
			} else if len(events) != 1 || events[0].kind != 'C' {
				res = "events?"
			} else if got := r.e.chain.BestSnapshot().MedianTime.Unix() - baseTime; got != bo.mtp {
				res = "bad-facts:mtp"
			} else {
				accIDs = events[0].announced
			}
			if bo.mtp < best.MedianTime.Unix()-baseTime {
				r.markStale()
			}
		case f[0] == "U":
			best := r.e.chain.BestSnapshot()
			events = nil
			r.markStale()
			if best.Height == 0 {
				res = "bb"
			} else if err := r.e.chain.InvalidateBlock(&best.Hash); err != nil {
				res = "bb"
			} else if len(events) != 1 || events[0].kind != 'U' {
				res = "events?"
			}
		case f[0] == "Z" && len(f) == 3:
			// the next k U ops and m C ops happen as ONE reorganisation of the real chain
			k, _ := strconv.Atoi(f[1])
			m, _ := strconv.Atoi(f[2])
			if i+k+m >= len(r.ops) || k < 1 || m <= k {
				return "bad-op"
			}
			prev := r.e.chain.BestSnapshot().Hash
			height := r.e.chain.BestSnapshot().Height
			for j := 0; j < k; j++ {
				hdr, err := r.e.chain.HeaderByHash(&prev)
				if err != nil {
					return "bad-op"
				}
				prev = hdr.PrevBlock
				height--
			}
			// the branch being left: invalidated afterwards so that a later InvalidateBlock(tip)
			// cannot make the chain jump back to it
			oldFirst := r.e.chain.BestSnapshot().Hash
			for j := 0; j < k-1; j++ {
				hdr, _ := r.e.chain.HeaderByHash(&oldFirst)
				oldFirst = hdr.PrevBlock
			}
			events = nil
			okAll := true
			for j := 0; j < m; j++ {
				bo, err := parseBlockOp(strings.Split(r.ops[i+1+k+j], ":"))
				if err != nil {
					return "bad-op"
				}
				blk, ok := r.buildBlock(prev, height+1, bo)
				if !ok {
					return "bad-op"
				}
				r.e.lastTs = bo.ts
				if _, _, err := r.e.chain.ProcessBlock(blk, blockchain.BFNone); err != nil {
					if debug {
						fmt.Println("reorg block:", err)
					}
					okAll = false
					break
				}
				prev = *blk.Hash()
				height++
			}
			outs = append(outs, "z")
			if !okAll || len(events) != k+m {
				outs = append(outs, "reorg?")
				return strings.Join(outs, "|")
			}
			for j, ev := range events {
				want := byte('U')
				if j >= k {
					want = 'C'
				}
				if ev.kind != want {
					outs = append(outs, "reorg-order?")
					return strings.Join(outs, "|")
				}
				var btxs []int
				if want == 'C' {
					if bo, err := parseBlockOp(strings.Split(r.ops[i+1+j], ":")); err == nil {
						btxs = bo.txs
					}
				}
				if want == 'C' {
					if tok := r.resolveND(r.last, ev.sn, btxs, ev.announced, i+1+j, 6, "-;"+ev.sn.text); tok != "" {
						outs = append(outs, tok)
						return strings.Join(outs, "|")
					}
				}
				if want == 'U' {
					r.markStale() // everything pooled before this disconnect
				}
				r.last = ev.sn
				outs = append(outs, "-;"+ev.sn.text)
			}
			r.after("")
			n := len(events)
			if err := r.e.chain.InvalidateBlock(&oldFirst); err != nil || len(events) != n {
				outs = append(outs, "reorg-cleanup?")
				return strings.Join(outs, "|")
			}
			i += k + m
			continue
		default:
			return "bad-op"
		}
		line := r.after(res)
		if runsOrphans {
			field := 6
			if f[0] == "O" {
				field = 2
			}
			if tok := r.resolveND(before, r.last, opTxs, accIDs, i, field, line); tok != "" {
				outs = append(outs, tok)
				break
			}
		}
		outs = append(outs, line)
	}
	for _, still := range r.held {
		if !still() {
			outs = append(outs, "stale-result")
			break
		}
	}
	// inputs are values too: the transactions handed to the pool (each one object, reused by every call that
	// names it) must read exactly as they were built
	if !r.inputsIntact() {
		outs = append(outs, "input-mutated")
	}
	return strings.Join(outs, "|")
}

// fingerprint of a transaction object: serialization and cached hash.
func txFingerprint(t *btcutil.Tx) string {
	var buf bytes.Buffer
	t.MsgTx().Serialize(&buf)
	return t.Hash().String() + ":" + t.MsgTx().TxHash().String() + ":" + hex.EncodeToString(buf.Bytes())
}

func (r *runner) recordInputs() {
	r.prints = map[int]string{}
	for _, d := range r.order {
		r.prints[d.id] = txFingerprint(d.tx)
	}
}

func (r *runner) inputsIntact() bool {
	for _, d := range r.order {
		if r.prints[d.id] != txFingerprint(d.tx) {
			return false
		}
	}
	return true
}

// steerEviction: after ProcessTransaction stored `added` as an orphan, make the
// evicted orphan (if any) the one the line names, or the smallest id.
func (r *runner) evictedSince(before snapshot, added int) int {
	now := r.snap()
	for id := range before.orphans {
		if !now.orphans[id] && id != added {
			return id
		}
	}
	return 0
}

func (r *runner) steerEviction(before snapshot, added, want int) bool {
	now := r.snap()
	evicted := r.evictedSince(before, added)
	if evicted == 0 {
		return true
	}
	target := want
	if !before.orphans[target] {
		target = -1
		for id := range before.orphans {
			if target < 0 || id < target {
				target = id
			}
		}
	}
	if target == evicted {
		return true
	}
	td, ok1 := r.u.defs[target]
	ed, ok2 := r.u.defs[evicted]
	if !ok1 || !ok2 {
		return false
	}
	r.e.pool.RemoveOrphan(td.tx)
	acc, err := r.e.pool.ProcessTransaction(ed.tx, true, false, mempool.Tag(before.tags[evicted]))
	if err != nil || acc != nil {
		if debug {
			fmt.Println("steer: re-add failed", evicted, target, err, acc)
		}
		return false
	}
	after := r.snap()
	return after.orphans[evicted] && !after.orphans[target] && len(after.orphans) == len(now.orphans)
}

// memo holds answers computed in parallel during Generate.
var memo sync.Map

func execLine(line string) string {
	if strings.HasPrefix(line, "C10 conc ") {
		return execConc(line)
	}
	if strings.HasPrefix(line, "C10 par ") {
		return execPar(line)
	}
	if f := strings.Fields(line); len(f) > 2 && f[1] == "dust" {
		return execDust(f[2:])
	} else if len(f) > 2 && f[1] == "vsize" {
		return execVsize(f[2:])
	}
	r, err := parseLine(line)
	if err != nil {
		return "bad-op"
	}
	if !r.checkFacts() {
		return "bad-facts"
	}
	r.collectOps()
	out := r.run()
	// an eviction that could not be steered to the recorded choice (the evicted orphan is no longer
	// acceptable as an orphan): the map order may be kinder next time
	for attempt := 0; r.steerFailed && attempt < 40; attempt++ {
		out = r.run()
	}
	return out
}

// execRecord runs a freshly generated line, writing the implementation's own
// eviction choices into it; returns the final line and its answer.
func execRecord(line string) (string, string) {
	if strings.HasPrefix(line, "C10 conc ") {
		return line, execConc(line)
	}
	if strings.HasPrefix(line, "C10 par ") {
		return line, execPar(line)
	}
	if f := strings.Fields(line); len(f) > 2 && (f[1] == "dust" || f[1] == "vsize") {
		return line, execLine(line)
	}
	r, err := parseLine(line)
	if err != nil {
		return line, "bad-op"
	}
	if !r.checkFacts() {
		return line, "bad-facts"
	}
	r.collectOps()
	r.record = true
	out := r.run()
	tok := strings.Fields(line)
	if len(r.ops) > 0 {
		tok[5] = strings.Join(r.ops, ";")
	}
	return strings.Join(tok, " "), out
}

// watchdog runs f; a (mutated) tree that deadlocks or spins must end as an answer, not as a hung check.
func watchdog(f func() string) string {
	ch := make(chan string, 1)
	go func() {
		defer func() {
			if recover() != nil {
				ch <- "panic"
			}
		}()
		ch <- f()
	}()
	select {
	case out := <-ch:
		return out
	case <-time.After(120 * time.Second):
		return "timeout"
	}
}

// Exec runs the REAL code on the line.
func (P) Exec(line string) string {
	if v, ok := memo.LoadAndDelete(line); ok {
		return v.(string)
	}
	return watchdog(func() string { return execLine(line) })
}
