package main

import (
	"verifharness/core"
	"verifharness/p17"
)

func main() { core.Main(p17.P{}) }
