package main

import (
	"verifharness/core"
	"verifharness/p20"
)

func main() { core.Main(p20.P{}) }
