package main

import (
	"verifharness/core"
	"verifharness/p08"
)

func main() { core.Main(p08.P{}) }
