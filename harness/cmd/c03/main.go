package main

import (
	"verifharness/core"
	"verifharness/p03"
)

func main() { core.Main(p03.P{}) }
