package main

import (
	"verifharness/core"
	"verifharness/p07"
)

func main() { core.Main(p07.P{}) }
