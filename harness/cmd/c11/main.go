package main

import (
	"verifharness/core"
	"verifharness/p11"
)

func main() { core.Main(p11.P{}) }
