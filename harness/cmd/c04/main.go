package main

import (
	"verifharness/core"
	"verifharness/p04"
)

func main() { core.Main(p04.P{}) }
