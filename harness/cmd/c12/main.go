package main

import (
	"verifharness/core"
	"verifharness/p12"
)

func main() {
	defer p12.CleanupWorlds()
	core.Main(p12.P{})
}
