package main

import (
	"verifharness/core"
	"verifharness/p10"
)

func main() { core.Main(p10.P{}) }
