package main

import (
	"verifharness/core"
	"verifharness/p06"
)

func main() { core.Main(p06.P{}) }
