package main

import (
	"verifharness/core"
	"verifharness/p15"
)

func main() { core.Main(p15.P{}) }
