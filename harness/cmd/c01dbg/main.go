// c01dbg: run the generated C01 cases and print EVERY disagreement, grouped (debugging aid).
package main

import (
	"fmt"
	"os"
	"sort"
	"strconv"
	"strings"

	"verifharness/core"
	"verifharness/p01"
)

func main() {
	seed := uint64(1)
	thorough := false
	filter := ""
	for _, a := range os.Args[1:] {
		if a == "thorough" {
			thorough = true
		} else if n, err := strconv.ParseUint(a, 10, 64); err == nil {
			seed = n
		} else {
			filter = a
		}
	}
	if rs := os.Getenv("RECIPE"); rs != "" {
		for _, r := range strings.Fields(rs) {
			if l := p01.LineOf(r); l != "" {
				fmt.Println(l)
			} else {
				fmt.Fprintln(os.Stderr, "no such case:", r)
			}
		}
		return
	}
	all := p01.Lines(seed, thorough)
	var lines []string
	for _, l := range all {
		if filter == "" || strings.Contains(l, filter) {
			lines = append(lines, l)
		}
	}
	if os.Getenv("PRINT") != "" {
		for _, l := range lines {
			fmt.Println(l)
		}
		return
	}
	gos := make([]string, len(lines))
	for i, l := range lines {
		func() {
			defer func() {
				if r := recover(); r != nil {
					gos[i] = fmt.Sprint("panic: ", r)
				}
			}()
			gos[i] = p01.P{}.Exec(l)
		}()
	}
	leans, err := core.RunLean("C01", lines)
	if err != nil {
		fmt.Println("lean:", err)
	}
	groups := map[string][]string{}
	for i, l := range lines {
		le := "?"
		if i < len(leans) {
			le = leans[i]
		}
		if gos[i] != le {
			f := strings.Fields(l)
			rec := f[1] + ":" + f[3]
			k := fmt.Sprintf("go=%s | lean=%s", gos[i], le)
			groups[k] = append(groups[k], rec)
		}
	}
	keys := make([]string, 0, len(groups))
	for k := range groups {
		keys = append(keys, k)
	}
	sort.Strings(keys)
	n := 0
	for _, k := range keys {
		fmt.Printf("%s\n    %s\n", k, strings.Join(groups[k], " "))
		n += len(groups[k])
	}
	fmt.Printf("%d cases, %d mismatches\n", len(lines), n)
}
