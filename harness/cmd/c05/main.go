package main

import (
	"verifharness/core"
	"verifharness/p05"
)

func main() { core.Main(p05.P{}) }
