package main

import (
	"verifharness/core"
	"verifharness/p09"
)

func main() { core.Main(p09.P{}) }
