package main

import (
	"verifharness/core"
	"verifharness/p01"
)

func main() { core.Main(p01.P{}) }
