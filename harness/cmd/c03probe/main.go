package main

import (
	"bufio"
	"fmt"
	"os"
	"time"

	"verifharness/core"
	"verifharness/p03"
)

func main() {
	if len(os.Args) > 1 && os.Args[1] == "gen" {
		t0 := time.Now()
		lines := p03.DebugGen(core.NewRand(1), os.Args[2])
		fmt.Fprintf(os.Stderr, "gen %d lines in %v\n", len(lines), time.Since(t0))
		for _, l := range lines {
			fmt.Println(l)
		}
		return
	}
	sc := bufio.NewScanner(os.Stdin)
	sc.Buffer(make([]byte, 1<<20), 1<<28)
	for sc.Scan() {
		l := sc.Text()
		if l == "" || l[0] == '#' {
			continue
		}
		t0 := time.Now()
		out := p03.P{}.Exec(l)
		if os.Getenv("TIMING") != "" {
			fmt.Fprintf(os.Stderr, "%v\n", time.Since(t0))
		}
		fmt.Println(out)
	}
}
