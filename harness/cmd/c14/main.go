package main

import (
	"verifharness/core"
	"verifharness/p14"
)

func main() { core.Main(p14.P{}) }
