package main

import (
	"verifharness/core"
	"verifharness/p13"
)

func main() { core.Main(p13.P{}) }
