package main

import (
	"verifharness/core"
	"verifharness/p18"
)

func main() { core.Main(p18.P{}) }
