package main

import (
	"bufio"
	"fmt"
	"os"

	"verifharness/core"
	"verifharness/p02"
)

func main() {
	// VERIF_C02_PROBE=1: read protocol lines from stdin, print the real code's answers (debug aid).
	if os.Getenv("VERIF_C02_PROBE") != "" {
		sc := bufio.NewScanner(os.Stdin)
		sc.Buffer(make([]byte, 1<<20), 1<<28)
		for sc.Scan() {
			fmt.Println(p02.P{}.Exec(sc.Text()))
		}
		return
	}
	core.Main(p02.P{})
}
