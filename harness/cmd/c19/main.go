package main

import (
	"verifharness/core"
	"verifharness/p19"
)

func main() { core.Main(p19.P{}) }
