package main

import (
	"verifharness/core"
	"verifharness/p16"
)

func main() { core.Main(p16.P{}) }
