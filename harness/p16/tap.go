package p16

import (
	"github.com/btcsuite/btcd/chainhash/v2"
	"verifharness/core"
)

// base58CheckRaw encodes body ‖ first 4 bytes of double-SHA256(body) in base58 (no version byte convention).
func base58CheckRaw(body []byte) string {
	ck := chainhash.DoubleHashB(body)[:4]
	return b58enc(append(append([]byte{}, body...), ck...))
}

func execTap(op string, a []string) (string, bool) { return "", false }

func genTap(g *core.Gen) {}
