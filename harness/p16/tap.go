package p16

import (
	"strconv"
	"strings"

	"github.com/btcsuite/btcd/btcec/v2"
	"github.com/btcsuite/btcd/btcec/v2/schnorr"
	"github.com/btcsuite/btcd/chainhash/v2"
	"github.com/btcsuite/btcd/txscript/v2"
	"verifharness/core"
)

// base58CheckRaw encodes body ‖ first 4 bytes of double-SHA256(body) in base58 (no version byte convention).
func base58CheckRaw(body []byte) string {
	ck := chainhash.DoubleHashB(body)[:4]
	return b58enc(append(append([]byte{}, body...), ck...))
}

func parseLeaves(s string) []txscript.TapLeaf {
	var out []txscript.TapLeaf
	for _, p := range strings.Split(s, ",") {
		f := strings.Split(p, ":")
		out = append(out, txscript.NewTapLeaf(txscript.TapscriptLeafVersion(unhx(f[0])[0]), unhx(f[1])))
	}
	return out
}

func execTap(op string, a []string) (string, bool) {
	switch op {
	case "tap":
		internal, err := btcec.ParsePubKey(unhx(a[0]))
		if err != nil {
			return "err", true
		}
		leaves := parseLeaves(a[1])
		tree := txscript.AssembleTaprootScriptTree(leaves...)
		root := tree.RootNode.TapHash()
		outKey := txscript.ComputeTaprootOutputKey(internal, root[:])
		prog := schnorr.SerializePubKey(outKey)
		var parts []string
		for i, leaf := range leaves {
			cb := tree.LeafMerkleProofs[i].ToControlBlock(internal)
			cbBytes, err := cb.ToBytes()
			if err != nil {
				parts = append(parts, "err")
				continue
			}
			res := "ok"
			parsed, err := txscript.ParseControlBlock(cbBytes)
			if err != nil {
				res = "fail"
			} else if txscript.VerifyTaprootLeafCommitment(parsed, prog, leaf.Script) != nil {
				res = "fail"
			}
			parts = append(parts, res)
		}
		return strconv.Itoa(len(prog)) + " | " + strings.Join(parts, ","), true
	}
	return execHard(op, a)
}

func leafStr(ver byte, script []byte) string { return hx([]byte{ver}) + ":" + hx(script) }

func genTap(g *core.Gen) {
	r := g.R
	mk := func(n int, dup bool) string {
		var ls []string
		seen := map[string]bool{}
		for len(ls) < n {
			ver := byte(0xc0)
			if r.Chance(1, 5) {
				ver = byte(r.Intn(128) * 2)
			}
			l := 1 + r.Intn(40)
			if r.Chance(1, 12) {
				l = int(r.Pick(0, 252, 253, 300))
			}
			script := r.Bytes(l)
			if len(ls) > 0 && r.Chance(1, 6) { // same script, other version / other script, same bytes prefix
				prev := strings.Split(ls[r.Intn(len(ls))], ":")
				script = unhx(prev[1])
				ver = byte(r.Intn(128) * 2)
			}
			s := leafStr(ver, script)
			if seen[s] && !dup {
				continue
			}
			seen[s] = true
			ls = append(ls, s)
		}
		return strings.Join(ls, ",")
	}
	key := func() string { return hx(pubKeys(r)[r.Intn(2)]) }
	for n := 1; n <= 64; n++ { // every leaf count up to 64
		for k := 0; k < g.N(1, 6); k++ {
			gc(g, "tap-"+strconv.Itoa((n+15)/16*16), n > 1, "C16 tap "+key()+" "+mk(n, false))
		}
	}
	for k := 0; k < g.N(30, 400); k++ {
		gc(g, "tap-small", true, "C16 tap "+key()+" "+mk(1+r.Intn(9), false))
	}
	// identical leaves (same version and script) at several positions
	for k := 0; k < g.N(40, 400); k++ {
		n := 2 + r.Intn(12)
		ls := strings.Split(mk(n, true), ",")
		for d := 0; d < 1+r.Intn(3); d++ {
			ls[r.Intn(n)] = ls[r.Intn(n)]
		}
		gc(g, "tap-dup", true, "C16 tap "+key()+" "+strings.Join(ls, ","))
	}
}
