package p16

import (
	"strconv"
	"strings"

	"github.com/btcsuite/btcd/address/v2"
	"github.com/btcsuite/btcd/btcec/v2"
	"github.com/btcsuite/btcd/btcutil/v2"
	"github.com/btcsuite/btcd/btcutil/v2/hdkeychain"
	"github.com/btcsuite/btcd/chaincfg/v2"
	"verifharness/core"
)

func showXKey(k *hdkeychain.ExtendedKey) string {
	var bits strings.Builder
	for _, n := range nets() {
		if k.IsForNet(n.p) {
			bits.WriteByte('1')
		} else {
			bits.WriteByte('0')
		}
	}
	p := "0"
	if k.IsPrivate() {
		p = "1"
	}
	return k.String() + " " + p + " " + strconv.Itoa(int(k.Depth())) + " " +
		strconv.FormatUint(uint64(k.ChildIndex()), 10) + " " + bits.String()
}

func neuterStr(k *hdkeychain.ExtendedKey) (*hdkeychain.ExtendedKey, string) {
	n, err := k.Neuter()
	if err != nil {
		return nil, "err"
	}
	return n, n.String()
}

func execKeys(op string, a []string) (string, bool) {
	switch op {
	case "wife":
		priv, _ := btcec.PrivKeyFromBytes(unhx(a[2]))
		w, err := btcutil.NewWIF(priv, &chaincfg.Params{PrivateKeyID: unhx(a[0])[0]}, a[1] == "1")
		if err != nil {
			return "err", true
		}
		return w.String(), true
	case "wifd":
		w, err := btcutil.DecodeWIF(string(unhx(a[0])))
		if err != nil {
			switch err {
			case btcutil.ErrMalformedPrivateKey:
				return "err:malformed", true
			case address.ErrChecksumMismatch:
				return "err:checksum", true
			}
			return "err:other", true
		}
		var bits strings.Builder
		var id byte
		found := false
		for _, n := range nets() {
			if w.IsForNet(n.p) {
				bits.WriteByte('1')
			} else {
				bits.WriteByte('0')
			}
		}
		// the net id byte is not exported: recover it through IsForNet over all 256 values
		for v := 0; v < 256; v++ {
			if w.IsForNet(&chaincfg.Params{PrivateKeyID: byte(v)}) {
				id, found = byte(v), true
			}
		}
		if !found {
			return "err:noid", true
		}
		c := "0"
		if w.CompressPubKey {
			c = "1"
		}
		return "ok " + hx([]byte{id}) + " " + c + " " + hx(w.PrivKey.Serialize()) + " " + bits.String() + " " + w.String(), true
	case "xkd":
		k, err := hdkeychain.NewKeyFromString(string(unhx(a[0])))
		if err != nil {
			switch err {
			case hdkeychain.ErrInvalidKeyLen:
				return "err:keylen", true
			case hdkeychain.ErrBadChecksum:
				return "err:checksum", true
			case hdkeychain.ErrUnusableSeed:
				return "err:unusable", true
			}
			return "err:pubkey", true
		}
		return "ok " + showXKey(k), true
	case "xke":
		depth, _ := strconv.Atoi(a[1])
		cn, _ := strconv.ParseUint(a[3], 10, 32)
		k := hdkeychain.NewExtendedKey(unhx(a[0]), unhx(a[6]), unhx(a[4]), unhx(a[2]), uint8(depth), uint32(cn), a[5] == "1")
		return k.String(), true
	case "drv":
		m, err := hdkeychain.NewMaster(unhx(a[1]), netOf(a[0]))
		if err != nil {
			return "err:seed", true
		}
		pub, ps := neuterStr(m)
		out := []string{m.String() + "|" + ps}
		k := m
		if a[2] != "-" {
			for _, t := range strings.Split(a[2], ",") {
				i64, _ := strconv.ParseUint(t, 10, 32)
				i := uint32(i64)
				c, err := k.Derive(i)
				if err != nil {
					out = append(out, "err")
					break
				}
				nc, ncs := neuterStr(c)
				pstr := "-"
				if pub != nil {
					pc, err := pub.Derive(i)
					switch {
					case err == nil:
						pub, pstr = pc, pc.String()
					case err == hdkeychain.ErrDeriveHardFromPublic:
						pub, pstr = nc, "err:hard"
					default:
						pub, pstr = nil, "err"
					}
				}
				out = append(out, c.String()+"|"+ncs+"|"+pstr)
				k = c
			}
		}
		return strings.Join(out, " "), true
	}
	return execTap(op, a)
}

func validScalarBytes(r *core.Rand) []byte {
	b := r.Bytes(32)
	b[0] &= 0x7f
	if r.Chance(1, 8) { // leading zero bytes
		for i := 0; i < 1+r.Intn(3); i++ {
			b[i] = 0
		}
	}
	b[31] |= 1
	return b
}

var secpNBytes = []byte{0xFF, 0xFF, 0xFF, 0xFF, 0xFF, 0xFF, 0xFF, 0xFF, 0xFF, 0xFF, 0xFF, 0xFF, 0xFF, 0xFF, 0xFF, 0xFE,
	0xBA, 0xAE, 0xDC, 0xE6, 0xAF, 0x48, 0xA0, 0x3B, 0xBF, 0xD2, 0x5E, 0x8C, 0xD0, 0x36, 0x41, 0x41}

func genKeys(g *core.Gen) {
	r := g.R
	ns := nets()
	// WIF
	for k := 0; k < g.N(300, 4000); k++ {
		key := validScalarBytes(r)
		id := byte(r.Intn(256))
		if r.Chance(2, 3) {
			id = ns[r.Intn(len(ns))].p.PrivateKeyID
		}
		c := strconv.Itoa(r.Intn(2))
		gc(g, "wife", true, "C16 wife "+hx([]byte{id})+" "+c+" "+hx(key))
		priv, _ := btcec.PrivKeyFromBytes(key)
		w, _ := btcutil.NewWIF(priv, &chaincfg.Params{PrivateKeyID: id}, c == "1")
		s := []byte(w.String())
		gc(g, "wifd-valid", true, "C16 wifd "+hx(s))
		gc(g, "wifd-mut", true, "C16 wifd "+hx(mutate(r, s, 1+r.Intn(4), b58alpha)))
	}
	// WIF with raw payloads: zero key, key = n, n-1, n+1, wrong compress byte, wrong lengths (checksum valid)
	mk := func(body []byte) []byte { return []byte(base58CheckRaw(body)) }
	nm1 := append([]byte{}, secpNBytes...)
	nm1[31]--
	np1 := append([]byte{}, secpNBytes...)
	np1[31]++
	for _, key := range [][]byte{make([]byte, 32), secpNBytes, nm1, np1, {31: 1}} {
		for _, tail := range [][]byte{nil, {1}, {0}, {2}, {1, 1}} {
			body := append(append([]byte{0x80}, key...), tail...)
			gc(g, "wifd-edge", true, "C16 wifd "+hx(mk(body)))
		}
	}
	for _, l := range []int{0, 1, 31, 32, 33, 34, 35, 36, 40} {
		gc(g, "wifd-len", true, "C16 wifd "+hx(mk(r.Bytes(l))))
	}
	// extended keys: encode with arbitrary fields; decode valid / mutated / edge keys
	for k := 0; k < g.N(200, 3000); k++ {
		n := ns[r.Intn(len(ns))]
		priv := r.Bool()
		ver := n.p.HDPublicKeyID[:]
		var key []byte
		if priv {
			ver = n.p.HDPrivateKeyID[:]
			key = validScalarBytes(r)
			if r.Chance(1, 6) { // stored without leading zeros, as Derive does
				key[0] = 0
				key = key[1:]
			}
		} else {
			key = pubKeys(r)[0]
		}
		if r.Chance(1, 8) {
			ver = r.Bytes(4)
		}
		depth := r.Intn(256)
		cn := r.U32()
		if r.Chance(1, 4) {
			cn = uint32(r.Pick(0, 1, 0x7fffffff, 0x80000000, 0xffffffff))
		}
		p := "0"
		if priv {
			p = "1"
		}
		line := "C16 xke " + hx(ver) + " " + strconv.Itoa(depth) + " " + hx(r.Bytes(4)) + " " +
			strconv.FormatUint(uint64(cn), 10) + " " + hx(r.Bytes(32)) + " " + p + " " + hx(key)
		gc(g, "xke", true, line)
		ek := hdkeychain.NewExtendedKey(ver, key, r.Bytes(32), r.Bytes(4), uint8(depth), cn, priv)
		s := []byte(ek.String())
		gc(g, "xkd-valid", true, "C16 xkd "+hx(s))
		gc(g, "xkd-mut", true, "C16 xkd "+hx(mutate(r, s, 1+r.Intn(4), b58alpha)))
	}
	for _, kd := range [][]byte{append([]byte{0}, make([]byte, 32)...), append([]byte{0}, secpNBytes...), append([]byte{0}, nm1...),
		append([]byte{4}, make([]byte, 32)...), append([]byte{2}, make([]byte, 32)...), append([]byte{1}, r.Bytes(32)...),
		append([]byte{3}, secpNBytes...)} {
		body := append(append(append([]byte{0x04, 0x88, 0xad, 0xe4, 3}, r.Bytes(4)...), r.Bytes(4+32)...), kd...)
		gc(g, "xkd-edge", true, "C16 xkd "+hx(mk(body)))
	}
	for _, l := range []int{0, 77, 78, 79, 81, 82} {
		gc(g, "xkd-len", true, "C16 xkd "+hx(mk(r.Bytes(l))))
	}
	// derivation walks: seeds of every legal / illegal length, paths with hardened mix
	for k := 0; k < g.N(40, 600); k++ {
		n := ns[r.Intn(len(ns))]
		sl := 16 + r.Intn(49)
		if r.Chance(1, 10) {
			sl = int(r.Pick(0, 15, 65, 80))
		}
		seed := r.Bytes(sl)
		depth := r.Intn(6)
		var path []string
		for d := 0; d < depth; d++ {
			i := r.U32() & 0x7fffffff
			if r.Chance(1, 3) {
				i = uint32(r.Pick(0, 1, 2, 0x7fffffff))
			}
			if r.Chance(1, 3) {
				i |= 0x80000000
			}
			path = append(path, strconv.FormatUint(uint64(i), 10))
		}
		ps := "-"
		if len(path) > 0 {
			ps = strings.Join(path, ",")
		}
		gc(g, "drv", depth > 0, "C16 drv "+n.name+" "+hx(seed)+" "+ps)
	}
	// parents whose private key has leading zero bytes (stored stripped by Derive): hardened and normal children
	found := 0
	for tries := 0; tries < 40000 && found < g.N(3, 12); tries++ {
		seed := r.Bytes(16)
		m, err := hdkeychain.NewMaster(seed, &chaincfg.MainNetParams)
		if err != nil {
			continue
		}
		i := r.U32()
		c, err := m.Derive(i)
		if err != nil || !c.IsAffectedByIssue172() {
			continue
		}
		found++
		for _, j := range []uint32{0x80000000, 0x80000001 + r.U32()&0xffff, 0, 1 + r.U32()&0xffff} {
			gc(g, "drv-shortkey", true, "C16 drv mainnet "+hx(seed)+" "+strconv.FormatUint(uint64(i), 10)+","+
				strconv.FormatUint(uint64(j), 10)+","+strconv.FormatUint(uint64(r.U32()), 10))
		}
	}
	gc(g, "drv-bip32-tv1", true, "C16 drv mainnet 000102030405060708090a0b0c0d0e0f 2147483648,1,2147483650,2,1000000000")
	gc(g, "drv-bip32-tv3", true, "C16 drv mainnet 4b381541583be4423346c643850da4b320e46a87ae3d2a4e6da11eba819cd4acba45d239319ac14f863b8d5ab5a0d0c64d2e8a1e7d1457df2e5a3c51c73235be 2147483648")
	genTap(g)
}
