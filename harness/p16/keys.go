package p16

import "verifharness/core"

func execKeys(op string, a []string) (string, bool) { return "", false }

func genKeys(g *core.Gen) {}
