package p16

// Hardening round: secondary entry points, "results are values", concurrency, configuration change, boundaries.

import (
	"bytes"
	"encoding/binary"
	"hash/fnv"
	"os"
	"strconv"
	"strings"
	"sync"

	"github.com/btcsuite/btcd/address/v2"
	"github.com/btcsuite/btcd/address/v2/bech32"
	"github.com/btcsuite/btcd/btcec/v2"
	"github.com/btcsuite/btcd/btcec/v2/schnorr"
	"github.com/btcsuite/btcd/btcutil/v2"
	"github.com/btcsuite/btcd/btcutil/v2/hdkeychain"
	"github.com/btcsuite/btcd/chaincfg/v2"
	"github.com/btcsuite/btcd/txscript/v2"
	"github.com/btcsuite/btcd/wire/v2"
	"verifharness/core"
)

// allLines collects every generated line so that `conc` cases can be assembled from them.
var allLines []string

func gc(g *core.Gen, class string, nontrivial bool, line string) {
	g.Case(class, nontrivial, line)
	allLines = append(allLines, line)
}

func bit(b bool) string {
	if b {
		return "1"
	}
	return "0"
}

func scramble(b []byte) {
	for i := range b {
		b[i] = 0xAA ^ byte(i)
	}
}

func addrExtras(a address.Address) string {
	switch t := a.(type) {
	case *address.AddressPubKeyHash:
		return "h160=" + hx(t.Hash160()[:])
	case *address.AddressScriptHash:
		return "h160=" + hx(t.Hash160()[:])
	case *address.AddressWitnessPubKeyHash:
		return "hrp=" + ascii(t.Hrp()) + " wv=" + strconv.Itoa(int(t.WitnessVersion())) + " wp=" + hx(t.WitnessProgram()) +
			" h160=" + hx(t.Hash160()[:])
	case *address.AddressWitnessScriptHash:
		return "hrp=" + ascii(t.Hrp()) + " wv=" + strconv.Itoa(int(t.WitnessVersion())) + " wp=" + hx(t.WitnessProgram())
	case *address.AddressTaproot:
		return "hrp=" + ascii(t.Hrp()) + " wv=" + strconv.Itoa(int(t.WitnessVersion())) + " wp=" + hx(t.WitnessProgram())
	case *address.AddressPayToAnchor:
		return "-"
	case *address.AddressPubKey:
		f := t.Format()
		s := "fmt=" + strconv.Itoa(int(f)) + " pkh=" + t.AddressPubKeyHash().String()
		t.SetFormat(address.PKFCompressed)
		s += " c=" + hx(t.ScriptAddress())
		t.SetFormat(address.PKFUncompressed)
		s += " u=" + hx(t.ScriptAddress())
		t.SetFormat(f)
		if t.PubKey() == nil {
			s += " nilkey"
		}
		return s
	}
	return "?"
}

func scriptFlags(s []byte) string {
	ms, _ := txscript.IsMultisigScript(s)
	_, _, werr := txscript.ExtractWitnessProgramInfo(s)
	if (werr == nil) != txscript.IsWitnessProgram(s) {
		return "inconsistent-witness-program"
	}
	return bit(txscript.IsPayToPubKey(s)) + bit(txscript.IsPayToPubKeyHash(s)) + bit(txscript.IsPayToScriptHash(s)) +
		bit(txscript.IsPayToWitnessPubKeyHash(s)) + bit(txscript.IsPayToWitnessScriptHash(s)) + bit(txscript.IsPayToTaproot(s)) +
		bit(txscript.IsPayToAnchorScript(s)) + bit(txscript.IsWitnessProgram(s)) + bit(ms) + bit(txscript.IsNullData(s)) +
		bit(txscript.IsPushOnlyScript(s))
}

func showBech(hrp string, data []byte, ver bech32.Version, err error, withVer bool) string {
	if err != nil {
		return bechErr(err)
	}
	s := "ok:" + hx([]byte(hrp)) + ":" + hx(data)
	if withVer {
		v := "?"
		switch ver {
		case bech32.Version0:
			v = "0"
		case bech32.VersionM:
			v = "m"
		}
		s += ":" + v
	}
	return s
}

func obsXKey(k *hdkeychain.ExtendedKey) string {
	str := k.String()
	if str == "zeroed extended key" {
		return "zeroed"
	}
	ad, err := k.Address(&chaincfg.MainNetParams)
	as := "err"
	if err == nil {
		as = ad.String()
	}
	pub := "err"
	if pk, err := k.ECPubKey(); err == nil {
		pub = hx(pk.SerializeCompressed())
	}
	priv := "-"
	if sk, err := k.ECPrivKey(); err == nil {
		priv = hx(sk.Serialize())
	}
	return strings.Join([]string{str, strconv.Itoa(int(k.Depth())), strconv.FormatUint(uint64(k.ChildIndex()), 10),
		strconv.FormatUint(uint64(k.ParentFingerprint()), 10), hx(k.ChainCode()), hx(k.Version()), bit(k.IsPrivate()),
		as, pub, priv}, "/")
}

func deriveErr(err error) string {
	switch err {
	case hdkeychain.ErrDeriveBeyondMaxDepth:
		return "err:maxdepth"
	case hdkeychain.ErrDeriveHardFromPublic:
		return "err:hardfrompub"
	case hdkeychain.ErrInvalidChild:
		return "err:invalid"
	}
	return "err:other"
}

func tapLine(internal *btcec.PublicKey, leaves []txscript.TapLeaf) (string, *txscript.IndexedTapScriptTree, []byte, [][]byte) {
	tree := txscript.AssembleTaprootScriptTree(leaves...)
	root := tree.RootNode.TapHash()
	outKey := txscript.ComputeTaprootOutputKey(internal, root[:])
	prog := schnorr.SerializePubKey(outKey)
	var parts []string
	var cbs [][]byte
	for i, leaf := range leaves {
		cb := tree.LeafMerkleProofs[i].ToControlBlock(internal)
		cbBytes, err := cb.ToBytes()
		if err != nil {
			parts = append(parts, "err")
			cbs = append(cbs, nil)
			continue
		}
		cbs = append(cbs, cbBytes)
		res := "ok"
		parsed, err := txscript.ParseControlBlock(cbBytes)
		if err != nil {
			res = "fail"
		} else if txscript.VerifyTaprootLeafCommitment(parsed, prog, leaf.Script) != nil {
			res = "fail"
		}
		parts = append(parts, res)
	}
	return strconv.Itoa(len(prog)) + " | " + strings.Join(parts, ","), tree, root[:], cbs
}

var dynMu sync.Mutex

func execHard(op string, a []string) (string, bool) {
	switch op {
	case "encv":
		net := netOf(a[1])
		p := unhx(a[2])
		ad, err := mkAddr(a[0], net, p)
		if err != nil {
			return "err", true
		}
		s1 := showAddr(ad)
		scramble(p) // the caller reuses its buffer
		sa := append([]byte{}, ad.ScriptAddress()...)
		ex := addrExtras(ad)
		_ = ad.IsForNet(net)
		_ = ad.EncodeAddress()
		same := " same"
		if s2 := showAddr(ad); s2 != s1 {
			same = " CHANGED:" + s2
		}
		// the value observed first is what counts for the accessor outputs too
		ad2, _ := mkAddr(a[0], net, unhx(a[2]))
		if same == " same" {
			sa = append([]byte{}, ad2.ScriptAddress()...)
			ex = addrExtras(ad2)
		}
		return "ok " + s1 + same + " sa=" + hx(sa) + " " + ex, true
	case "xtrv":
		net := netOf(a[0])
		buf := unhx(a[1])
		orig := append([]byte{}, buf...)
		class, addrs, _, err := txscript.ExtractPkScriptAddrs(buf, net)
		if err != nil {
			return "err", true
		}
		var before []string
		for _, ad := range addrs {
			before = append(before, ad.String())
		}
		scramble(buf) // the caller reuses the script buffer
		same := " same"
		for i, ad := range addrs {
			if ad.String() != before[i] {
				same = " CHANGED"
			}
		}
		wpi := "-"
		if v, p, err := txscript.ExtractWitnessProgramInfo(orig); err == nil {
			wpi = strconv.Itoa(v) + ":" + hx(p)
		}
		ms := "-"
		if n, m, err := txscript.CalcMultiSigStats(orig); err == nil {
			ms = strconv.Itoa(n) + ":" + strconv.Itoa(m)
		}
		rc := "rc=bad"
		if c2, err := txscript.NewScriptClass(class.String()); err == nil && *c2 == class {
			rc = "rc=ok"
		}
		pd := "err"
		if ds, err := txscript.PushedData(orig); err == nil {
			pd = "none"
			var hs []string
			for _, d := range ds {
				hs = append(hs, hx(d))
			}
			if len(hs) > 0 {
				pd = strings.Join(hs, ":")
			}
		}
		return showXtr(orig, net) + same + " flags=" + scriptFlags(orig) + " wpi=" + wpi + " ms=" + ms + " " + rc + " pd=" + pd, true
	case "shs":
		net := netOf(a[0])
		ad, err := address.NewAddressScriptHash(unhx(a[1]), net)
		if err != nil {
			return "err", true
		}
		return "ok " + showAddr(ad) + " " + hx(address.Hash160(unhx(a[1]))), true
	case "gseed":
		n, _ := strconv.Atoi(a[0])
		seed, err := hdkeychain.GenerateSeed(uint8(n))
		if err != nil {
			return "err", true
		}
		return "ok " + strconv.Itoa(len(seed)), true
	case "bdec2":
		s := string(unhx(a[0]))
		h1, d1, v1, e1 := bech32.DecodeGeneric(s)
		h2, d2, v2, e2 := bech32.DecodeNoLimitWithVersion(s)
		h3, d3, e3 := bech32.Decode(s)
		h4, d4, e4 := bech32.DecodeNoLimit(s)
		h5, d5, e5 := bech32.DecodeToBase256(s)
		b256 := bechErr(e5)
		if e5 == nil {
			b256 = "ok:" + hx([]byte(h5)) + ":" + hx(d5)
		}
		return "g=" + showBech(h1, d1, v1, e1, true) + " nl=" + showBech(h2, d2, v2, e2, true) + " d=" + showBech(h3, d3, 0, e3, false) +
			" dn=" + showBech(h4, d4, 0, e4, false) + " b256=" + b256, true
	case "benc2":
		s, err := bech32.EncodeFromBase256(string(unhx(a[0])), unhx(a[1]))
		if err != nil {
			return bechErr(err), true
		}
		return "ok " + hx([]byte(s)), true
	case "wif2":
		priv, _ := btcec.PrivKeyFromBytes(unhx(a[2]))
		w, err := btcutil.NewWIF(priv, &chaincfg.Params{PrivateKeyID: unhx(a[0])[0]}, a[1] == "1")
		if err != nil {
			return "err", true
		}
		str := w.String()
		pub := hx(w.SerializePubKey())
		var bits strings.Builder
		for _, n := range nets() {
			bits.WriteString(bit(w.IsForNet(n.p)))
		}
		rt := "err"
		if w2, err := btcutil.DecodeWIF(str); err == nil {
			rt = bit(w2.String() == str && w2.CompressPubKey == w.CompressPubKey &&
				bytes.Equal(w2.PrivKey.Serialize(), w.PrivKey.Serialize()) && hx(w2.SerializePubKey()) == pub)
		}
		return str + " " + pub + " " + bits.String() + " " + rt, true
	case "xk":
		k0, err := hdkeychain.NewKeyFromString(string(unhx(a[0])))
		if err != nil {
			return "err:parse", true
		}
		return xkWalk(k0, a[1]), true
	case "xkn":
		depth, _ := strconv.Atoi(a[1])
		cn, _ := strconv.ParseUint(a[3], 10, 32)
		k0 := hdkeychain.NewExtendedKey(unhx(a[0]), unhx(a[6]), unhx(a[4]), unhx(a[2]), uint8(depth), uint32(cn), a[5] == "1")
		return xkWalk(k0, a[7]), true
	case "pcb":
		raw := unhx(a[0])
		cb, err := txscript.ParseControlBlock(raw)
		if err != nil {
			switch {
			case txscript.IsErrorCode(err, txscript.ErrControlBlockTooSmall):
				return "err:toosmall", true
			case txscript.IsErrorCode(err, txscript.ErrControlBlockTooLarge):
				return "err:toolarge", true
			case txscript.IsErrorCode(err, txscript.ErrControlBlockInvalidLength):
				return "err:badlength", true
			}
			return "err:pubkey", true
		}
		back, _ := cb.ToBytes()
		return "ok " + hx([]byte{byte(cb.LeafVersion)}) + " " + bit(cb.OutputKeyYIsOdd) + " " +
			hx(schnorr.SerializePubKey(cb.InternalKey)) + " " + strconv.Itoa(len(cb.InclusionProof)/32) + " " +
			hx(cb.RootHash(unhx(a[1]))) + " " + bit(bytes.Equal(back, raw)), true
	case "tap2":
		priv, internal := btcec.PrivKeyFromBytes(unhx(a[0]))
		leaves := parseLeaves(a[1])
		base, tree, root, cbs := tapLine(internal, leaves)
		prog := schnorr.SerializePubKey(txscript.ComputeTaprootOutputKey(internal, root))
		noscript := schnorr.SerializePubKey(txscript.ComputeTaprootKeyNoScript(internal))
		p2tr, _ := txscript.PayToTaprootScript(txscript.ComputeTaprootOutputKey(internal, root))
		tw := txscript.TweakTaprootPrivKey(*priv, root)
		match := bit(bytes.Equal(schnorr.SerializePubKey(tw.PubKey()), prog))
		var idx []string
		for _, l := range leaves { // any index of an identical leaf is admissible
			j, ok := tree.LeafProofIndex[l.TapHash()]
			idx = append(idx, bit(ok && j < len(leaves) && leaves[j].LeafVersion == l.LeafVersion && bytes.Equal(leaves[j].Script, l.Script)))
		}
		again := "same"
		for i := len(leaves) - 1; i >= 0; i-- { // sibling accessors in another order, then re-observe
			cb := tree.LeafMerkleProofs[i].ToControlBlock(internal)
			b, _ := cb.ToBytes()
			if !bytes.Equal(b, cbs[i]) {
				again = "CHANGED"
			}
		}
		if base2, _, _, _ := tapLine(internal, leaves); base2 != base {
			again = "CHANGED"
		}
		return base + " | noscript=" + hx(noscript) + " p2tr=" + bit(bytes.Equal(p2tr, append([]byte{0x51, 0x20}, prog...))) + " tweak=" + match +
			" idx=" + strings.Join(idx, ",") + " again=" + again, true
	case "nds":
		s, err := txscript.NullDataScript(unhx(a[1]))
		if err != nil {
			return "err", true
		}
		return "ok " + hx(s) + " " + showXtr(s, netOf(a[0])), true
	case "mss":
		net := netOf(a[0])
		nreq, _ := strconv.Atoi(a[1])
		var keys []*address.AddressPubKey
		if a[2] != "-" {
			for _, h := range strings.Split(a[2], ":") {
				k, err := address.NewAddressPubKey(unhx(h), net)
				if err != nil {
					return "err:key", true
				}
				keys = append(keys, k)
			}
		}
		s, err := txscript.MultiSigScript(keys, nreq)
		if err != nil {
			return "err", true
		}
		return "ok " + hx(s) + " " + showXtr(s, net), true
	case "cpk":
		var wit wire.TxWitness
		if a[1] != "-" {
			for _, h := range strings.Split(a[1], ":") {
				wit = append(wit, unhx(h))
			}
		}
		ps, err := txscript.ComputePkScript(unhx(a[0]), wit)
		if err != nil {
			return "err", true
		}
		return "ok " + ps.Class().String() + " " + hx(ps.Script()), true
	case "dynreg":
		hrp := string(unhx(a[0]))
		conv, _ := bech32.ConvertBits(unhx(a[1]), 8, 5, true)
		s, _ := bech32.EncodeM(hrp, append([]byte{1}, conv...))
		h := fnv.New64a()
		h.Write([]byte(hrp))
		id := h.Sum64()
		p := &chaincfg.Params{Name: "dyn" + hrp, Net: wire.BitcoinNet(0xd0000000 | uint32(id)&0x0fffffff), Bech32HRPSegwit: hrp,
			PubKeyHashAddrID: 0x30, ScriptHashAddrID: 0x32, PrivateKeyID: 0xb0}
		binary.BigEndian.PutUint32(p.HDPrivateKeyID[:], 0xd1000000|uint32(id>>32)&0x00ffffff)
		binary.BigEndian.PutUint32(p.HDPublicKeyID[:], 0xd2000000|uint32(id>>32)&0x00ffffff)
		dec := func() string {
			ad, err := address.DecodeAddress(s, &chaincfg.MainNetParams)
			if err != nil {
				return showDec(s, &chaincfg.MainNetParams)
			}
			return "ok:" + kindOf(ad) + ":" + ascii(ad.String()) + ":" + bit(ad.IsForNet(p)) + bit(ad.IsForNet(&chaincfg.MainNetParams))
		}
		dynMu.Lock()
		defer dynMu.Unlock()
		before := dec()
		if err := chaincfg.Register(p); err != nil {
			return "err:register", true
		}
		return ascii(s) + " before=" + before + " after=" + dec(), true
	case "conc":
		subs := strings.Split(a[0], ";")
		lines := make([]string, len(subs))
		for i, s := range subs {
			lines[i] = "C16 " + strings.Join(strings.Split(s, "/"), " ")
		}
		const workers = 16
		const rounds = 8
		res := make([][]string, rounds)
		for r := range res {
			res[r] = make([]string, len(lines))
		}
		var wg sync.WaitGroup
		for w := 0; w < workers; w++ {
			wg.Add(1)
			go func(w int) {
				defer wg.Done()
				for r := 0; r < rounds; r++ {
					// every worker walks the whole list, starting at a different offset
					for j := 0; j < len(lines); j++ {
						i := (j + w*7 + r*3) % len(lines)
						if i%workers != w {
							continue
						}
						func() {
							defer func() {
								if recover() != nil {
									res[r][i] = "panic"
								}
							}()
							res[r][i] = P{}.Exec(lines[i])
						}()
					}
				}
			}(w)
		}
		wg.Wait()
		for r := 1; r < rounds; r++ {
			for i := range lines {
				if res[r][i] != res[0][i] {
					res[0][i] = "NONDET(" + res[0][i] + " / " + res[r][i] + ")"
				}
			}
		}
		return strings.Join(res[0], " ;; "), true
	}
	return "", false
}

// xkWalk runs the operations of an `xk` / `xkn` line on k0; keys are values: every key is re-observed at the end.
func xkWalk(k0 *hdkeychain.ExtendedKey, opsArg string) string {
	keys := []*hdkeychain.ExtendedKey{k0}
	expected := []string{obsXKey(k0)}
	out := []string{expected[0]}
	cur := 0
	var ops []string
	if opsArg != "-" {
		ops = strings.Split(opsArg, ",")
	}
	for _, o := range ops {
		arg := o[1:]
		k := keys[cur]
		push := func(c *hdkeychain.ExtendedKey, err error) {
			if err != nil {
				out = append(out, deriveErr(err))
				return
			}
			keys = append(keys, c)
			expected = append(expected, obsXKey(c))
			out = append(out, expected[len(expected)-1])
			cur = len(keys) - 1
		}
		switch o[0] {
		case 'D':
			i, _ := strconv.ParseUint(arg, 10, 32)
			push(k.Derive(uint32(i)))
		case 'N':
			i, _ := strconv.ParseUint(arg, 10, 32)
			push(k.DeriveNonStandard(uint32(i)))
		case 'U':
			n, err := k.Neuter()
			if err != nil {
				out = append(out, "err:neuter")
			} else if k.IsPrivate() {
				push(n, nil)
			} else {
				out = append(out, obsXKey(n))
			}
		case 'C':
			c, err := k.CloneWithVersion(unhx(arg))
			if err != nil {
				out = append(out, "err:clone")
			} else {
				push(c, nil)
			}
		case 'S':
			k.SetNet(netOf(arg))
			expected[cur] = obsXKey(k)
			out = append(out, expected[cur])
		case 'Z':
			j, _ := strconv.Atoi(arg)
			keys[j].Zero()
			expected[j] = "zeroed"
			out = append(out, "zero"+arg)
		case 'R':
			c, err := hdkeychain.NewKeyFromString(k.String())
			if err != nil {
				out = append(out, "err")
			} else {
				push(c, nil)
			}
		case 'K':
			j, _ := strconv.Atoi(arg)
			cur = j
			out = append(out, "use"+arg)
		}
	}
	res := " same"
	for j, k := range keys {
		if obsXKey(k) != expected[j] {
			res = " CHANGED:" + strconv.Itoa(j)
			break
		}
	}
	return strings.Join(out, " ") + res
}

// ---------------------------------------------------------------- generators

func slashLine(line string) string { return strings.Join(strings.Fields(line)[1:], "/") }

func genHard(g *core.Gen) {
	r := g.R
	ns := nets()
	// encv: every kind x every net, caller's buffer reused afterwards
	for _, n := range ns {
		for _, kind := range []string{"pkh", "sh", "wpkh", "wsh", "tr"} {
			l := map[string]int{"pkh": 20, "sh": 20, "wpkh": 20, "wsh": 32, "tr": 32}[kind]
			for k := 0; k < g.N(2, 10); k++ {
				gc(g, "encv-"+kind, true, "C16 encv "+kind+" "+n.name+" "+hx(r.Bytes(l)))
			}
		}
		gc(g, "encv-p2a", true, "C16 encv p2a "+n.name+" -")
		for _, pk := range pubKeys(r) {
			gc(g, "encv-pk", true, "C16 encv pk "+n.name+" "+hx(pk))
		}
	}
	// xtrv: re-use a sample of the script lines
	cnt := 0
	for _, l := range allLines {
		if strings.HasPrefix(l, "C16 xtr ") && cnt < g.N(500, 6000) {
			cnt++
			gc(g, "xtrv", true, "C16 xtrv "+l[len("C16 xtr "):])
		}
	}
	for k := 0; k < g.N(20, 200); k++ {
		gc(g, "shs", true, "C16 shs "+ns[r.Intn(len(ns))].name+" "+hx(r.Bytes(r.Intn(80))))
	}
	for _, l := range []int{0, 15, 16, 17, 32, 63, 64, 65, 255} {
		gc(g, "gseed", true, "C16 gseed "+strconv.Itoa(l))
	}
	// empty pushes through every push opcode (PushedData reports them, OP_0 is not a data push)
	for _, sc := range [][]byte{{0x00}, {0x4c, 0x00}, {0x4d, 0x00, 0x00}, {0x4e, 0, 0, 0, 0}, {0x00, 0x4c, 0x00, 0x51, 0x01, 0x07}, {0x4c}, {0x4e, 1, 0, 0}} {
		gc(g, "xtrv-pushes", true, "C16 xtrv mainnet "+hx(sc))
	}
	// witness-program boundaries: push lengths 1,2,3 / 39,40,41, non-canonical pushes, every version opcode
	for _, l := range []int{1, 2, 3, 39, 40, 41} {
		for _, v := range []byte{0x00, 0x4f, 0x50, 0x51, 0x60, 0x61} {
			s := append([]byte{v, byte(l)}, r.Bytes(l)...)
			gc(g, "xtrv-witprog", true, "C16 xtrv mainnet "+hx(s))
			gc(g, "xtrv-witprog", true, "C16 xtrv mainnet "+hx(append([]byte{v, 0x4c, byte(l)}, r.Bytes(l)...)))
		}
	}
	// null data 74..81 bytes with every push form; NullDataScript builder at the limit
	for l := 0; l <= 82; l++ {
		d := r.Bytes(l)
		if l == 1 {
			d = []byte{byte(r.Intn(20))}
		}
		gc(g, "nds", true, "C16 nds "+ns[r.Intn(len(ns))].name+" "+hx(d))
		if l >= 74 {
			gc(g, "xtrv-nulldata", true, "C16 xtrv mainnet "+hx(append([]byte{0x6a, 0x4c, byte(l)}, d...)))
			gc(g, "xtrv-nulldata", true, "C16 xtrv mainnet "+hx(append([]byte{0x6a, 0x4d, byte(l), 0}, d...)))
			if l <= 75 {
				gc(g, "xtrv-nulldata", true, "C16 xtrv mainnet "+hx(append([]byte{0x6a, byte(l)}, d...)))
			}
		}
	}
	for _, b := range []byte{0x00, 0x01, 0x10, 0x11, 0x4f, 0x80, 0x81, 0x82, 0xff} { // one-byte payloads: OP_0, OP_1..16, OP_1NEGATE forms
		gc(g, "nds-1byte", true, "C16 nds mainnet "+hx([]byte{b}))
	}
	// MultiSigScript: 0..20 keys (small-int opcodes end at 16), nreq below / at / above the key count
	var pool [][]byte
	for i := 0; i < 8; i++ {
		pool = append(pool, pubKeys(r)...)
	}
	for n := 0; n <= 20; n++ {
		for _, nreq := range []int{0, 1, n - 1, n, n + 1} {
			if nreq < 0 {
				continue
			}
			var ks []string
			for i := 0; i < n; i++ {
				ks = append(ks, hx(pool[r.Intn(len(pool))]))
			}
			kl := "-"
			if n > 0 {
				kl = strings.Join(ks, ":")
			}
			gc(g, "mss", true, "C16 mss "+ns[r.Intn(len(ns))].name+" "+strconv.Itoa(nreq)+" "+kl)
		}
	}
	// bech32 secondary decoders / base-256 helpers: valid, > 90 chars (only the NoLimit variants accept), minimal lengths
	for k := 0; k < g.N(150, 2000); k++ {
		hrp := randHrp(r)
		n := r.Intn(60)
		if r.Chance(1, 4) {
			n = 80 + r.Intn(60)
		}
		d := rand5(r, n)
		var s string
		if r.Bool() {
			s, _ = bech32.Encode(hrp, d)
		} else {
			s, _ = bech32.EncodeM(hrp, d)
		}
		gc(g, "bdec2", true, "C16 bdec2 "+hx([]byte(s)))
		if r.Chance(1, 3) {
			gc(g, "bdec2-mut", true, "C16 bdec2 "+hx(mutate(r, []byte(s), 1+r.Intn(3), bechCharset+"1b")))
		}
		gc(g, "benc2", true, "C16 benc2 "+hx([]byte(hrp))+" "+hx(r.Bytes(r.Intn(50))))
	}
	for _, hl := range []int{1, 2} { // total lengths 7, 8, 9 and 89, 90, 91
		for _, dl := range []int{0, 1, 90 - hl - 8, 90 - hl - 7, 90 - hl - 6} {
			s, _ := bech32.Encode(strings.Repeat("a", hl), rand5(r, dl))
			gc(g, "bdec2-len", true, "C16 bdec2 "+hx([]byte(s)))
			gc(g, "bdec-len", true, "C16 bdec "+hx([]byte(s)))
		}
	}
	gc(g, "bdec2-len", true, "C16 bdec2 "+hx([]byte("a1qqqqq")))
	// the separator must leave at least six characters: 5 / 6 / 7 characters after the last '1', HRP of 0 / 1 / 2 chars
	for _, hl := range []int{0, 1, 2, 5} {
		for _, dl := range []int{4, 5, 6, 7} {
			s := strings.Repeat("a", hl) + "1" + string(randB58(r, 0)) + strings.Repeat("q", dl)
			gc(g, "bdec-sep", true, "C16 bdec "+hx([]byte(s)))
			gc(g, "bdec-sep", true, "C16 bdec2 "+hx([]byte(s)))
			gc(g, "bdec-sep", true, "C16 dec mainnet "+hx([]byte("bc1"+strings.Repeat("q", dl))))
		}
	}
	// WIF with the derived public key
	for k := 0; k < g.N(40, 400); k++ {
		id := ns[r.Intn(len(ns))].p.PrivateKeyID
		gc(g, "wif2", true, "C16 wif2 "+hx([]byte{id})+" "+strconv.Itoa(r.Intn(2))+" "+hx(validScalarBytes(r)))
	}
	// extended keys as values: derive / non-standard derive / neuter / clone / SetNet / Zero in random orders
	for k := 0; k < g.N(60, 700); k++ {
		n := ns[r.Intn(len(ns))]
		depth := r.Intn(250)
		if r.Chance(1, 4) {
			depth = int(r.Pick(253, 254, 255))
		}
		priv := r.Chance(3, 4)
		var ek *hdkeychain.ExtendedKey
		if priv {
			key := validScalarBytes(r)
			ek = hdkeychain.NewExtendedKey(n.p.HDPrivateKeyID[:], key, r.Bytes(32), r.Bytes(4), uint8(depth), r.U32(), true)
		} else {
			ek = hdkeychain.NewExtendedKey(n.p.HDPublicKeyID[:], pubKeys(r)[0], r.Bytes(32), r.Bytes(4), uint8(depth), r.U32(), false)
		}
		// generator-side simulation of which operations create a key (so that Z/K indexes always exist)
		type sim struct {
			priv, verOK bool
			depth       int
		}
		keys := []sim{{priv, true, depth}}
		cur := 0
		zeroed := map[int]bool{}
		var ops []string
		for s := 0; s < 2+r.Intn(6); s++ {
			k := keys[cur]
			switch c := r.Intn(9); {
			case c <= 2:
				i := r.U32() & 0x7fffffff
				if r.Chance(1, 4) {
					i = uint32(r.Pick(0, 0x7fffffff))
				}
				if r.Chance(1, 3) {
					i |= 0x80000000
				}
				op := "D"
				if r.Chance(1, 4) {
					op = "N"
				}
				ops = append(ops, op+strconv.FormatUint(uint64(i), 10))
				if k.depth < 255 && !(i >= 0x80000000 && !k.priv) {
					keys = append(keys, sim{k.priv, k.verOK, k.depth + 1})
					cur = len(keys) - 1
				}
			case c == 3:
				ops = append(ops, "U")
				if k.priv && k.verOK {
					keys = append(keys, sim{false, true, k.depth})
					cur = len(keys) - 1
				}
			case c == 4:
				v := ns[r.Intn(len(ns))].p.HDPublicKeyID[:]
				if r.Chance(1, 3) {
					v = ns[r.Intn(len(ns))].p.HDPrivateKeyID[:]
				}
				ok := true
				if r.Chance(1, 5) {
					v = r.Bytes(int(r.Pick(3, 5)))
					ok = false
				}
				ops = append(ops, "C"+hx(v))
				if ok {
					known := false
					for _, n := range ns {
						if n.name != "signet" && bytes.Equal(v, n.p.HDPrivateKeyID[:]) {
							known = true
						}
					}
					keys = append(keys, sim{k.priv, known, k.depth})
					cur = len(keys) - 1
				}
			case c == 5:
				ops = append(ops, "S"+ns[r.Intn(len(ns))].name)
				keys[cur].verOK = true
			case c == 6 && len(keys) > 1: // zero an earlier key that is not the current one
				j := r.Intn(len(keys))
				if j != cur && !zeroed[j] {
					zeroed[j] = true
					ops = append(ops, "Z"+strconv.Itoa(j))
				}
			case c == 7 && len(keys) > 1:
				j := r.Intn(len(keys))
				if !zeroed[j] {
					cur = j
					ops = append(ops, "K"+strconv.Itoa(j))
				}
			}
		}
		_ = cur
		gc(g, "xk", true, "C16 xk "+hx([]byte(ek.String()))+" "+strings.Join(append(ops, "U"), ","))
	}
	// parents whose stored private key is short (Derive strips EVERY leading zero byte): 28..32 bytes and a few tiny
	// ones, built directly with NewExtendedKey; hardened / normal / non-standard children, the same children after a
	// String() -> NewKeyFromString round trip of the parent (R), and the public side
	for _, kl := range []int{1, 2, 16, 28, 29, 30, 31, 32} {
		for k := 0; k < g.N(2, 8); k++ {
			n := ns[r.Intn(len(ns))]
			key := r.Bytes(kl)
			key[0] |= 1 // stored stripped: first byte non-zero
			if k%2 == 1 && kl > 1 {
				key[0] = 0 // also a short key that still has a leading zero
			}
			h1 := strconv.FormatUint(uint64(0x80000000|r.U32()), 10)
			n1 := strconv.FormatUint(uint64(r.U32()&0x7fffffff), 10)
			ops := "D" + h1 + ",K0,D" + n1 + ",K0,N" + h1 + ",K0,N" + n1 + ",K0,R,D" + h1 + ",K" + "5" + ",D" + n1 + ",K0,U,D" + n1 + ",K0,D2147483648,K0,D4294967295"
			gc(g, "xkn-shortkey", true, "C16 xkn "+hx(n.p.HDPrivateKeyID[:])+" "+strconv.Itoa(r.Intn(200))+" "+hx(r.Bytes(4))+" "+
				strconv.FormatUint(uint64(r.U32()), 10)+" "+hx(r.Bytes(32))+" 1 "+hx(key)+" "+ops)
		}
	}
	// a known node with two leading zero bytes: seed 00..0007, m/11135H (private key 000030e1d856…), then children
	seed7 := make([]byte, 32)
	seed7[31] = 7
	for _, tail := range []string{"2147483648", "2147483649", "2147483692", "4294967295", "0", "5", "2147483647"} {
		gc(g, "drv-shortkey2", true, "C16 drv mainnet "+hx(seed7)+" 2147494783,"+tail+",2147483648")
	}
	// control blocks: every size class around the limits
	x := pubKeys(r)[0][1:33]
	for _, size := range []int{0, 1, 32, 33, 34, 64, 65, 66, 97, 33 + 32*127, 33 + 32*128, 33 + 32*128 + 1, 33 + 32*129} {
		b := r.Bytes(size)
		if size >= 33 {
			copy(b[1:33], x)
		}
		gc(g, "pcb-size", true, "C16 pcb "+hx(b)+" "+hx(r.Bytes(1+r.Intn(30))))
	}
	for k := 0; k < g.N(40, 400); k++ {
		np := r.Intn(6)
		b := r.Bytes(33 + 32*np)
		if r.Chance(5, 6) {
			copy(b[1:33], pubKeys(r)[0][1:33])
		}
		if r.Chance(1, 6) {
			for i := 1; i < 33; i++ {
				b[i] = 0xff // x >= p
			}
		}
		gc(g, "pcb", true, "C16 pcb "+hx(b)+" "+hx(r.Bytes(r.Intn(40))))
	}
	// taproot with the secondary APIs; every tree size 1..17 (odd merges 3,5,7,…) in quick, duplicates included
	for n := 1; n <= 17; n++ {
		for k := 0; k < g.N(2, 8); k++ {
			var ls []string
			for i := 0; i < n; i++ {
				ls = append(ls, leafStr(0xc0, r.Bytes(1+r.Intn(20))))
			}
			if k > 0 && n > 1 {
				ls[r.Intn(n)] = ls[r.Intn(n)]
			}
			gc(g, "tap2", true, "C16 tap2 "+hx(validScalarBytes(r))+" "+strings.Join(ls, ","))
		}
	}
	// compact-size boundaries of the leaf encoding: 252 / 253 / 254 and 65535 / 65536 byte scripts
	for _, l := range []int{252, 253, 254, 65535, 65536} {
		gc(g, "tap-bigleaf", true, "C16 tap2 "+hx(validScalarBytes(r))+" "+leafStr(0xc0, r.Bytes(l))+","+leafStr(0xc0, r.Bytes(3)))
	}
	// ComputePkScript: P2PKH / P2SH signature scripts around the length window 44..108, witnesses of 1..3 items
	for k := 0; k < g.N(80, 800); k++ {
		pk := pubKeys(r)[0]
		sigLen := 8 + r.Intn(66)
		if r.Chance(1, 3) {
			sigLen = int(r.Pick(7, 8, 9, 71, 72, 73, 74))
		}
		sig := append(push(r.Bytes(sigLen)), push(pk)...)
		switch r.Intn(6) {
		case 0:
			sig = append(push(r.Bytes(sigLen)), push(r.Bytes(33))...) // last push not a compressed key
		case 1:
			sig = append(sig, 0xac) // not push-only
		case 2:
			sig = append([]byte{0x00}, append(push(r.Bytes(72)), push(r.Bytes(20+r.Intn(60)))...)...) // P2SH multisig-like
		case 3:
			sig = sig[:len(sig)-1] // malformed last push
		}
		gc(g, "cpk-sig", true, "C16 cpk "+hx(sig)+" -")
		var w []string
		for i := 0; i < 1+r.Intn(3); i++ {
			w = append(w, hx(r.Bytes(1+r.Intn(72))))
		}
		if r.Bool() {
			w[len(w)-1] = hx(pk)
		}
		gc(g, "cpk-wit", true, "C16 cpk - "+strings.Join(w, ":"))
	}
	gc(g, "cpk-wit", true, "C16 cpk - -")
	// seeds at 15/16/17 and 63/64/65 bytes; hardened boundary indexes
	for _, sl := range []int{15, 16, 17, 63, 64, 65} {
		gc(g, "drv-seedlen", true, "C16 drv mainnet "+hx(r.Bytes(sl))+" 2147483647,2147483648")
	}
	// strings of exactly 66 / 130 characters are first tried as hex public keys: segwit and Base58Check strings of
	// those lengths must still take their own branch (or fail in it)
	for _, hrp := range []string{"bc", "tb", "sb", "vn"} {
		for _, l := range []int{34, 35, 36} {
			s := segwitString(r, hrp, 1, r.Bytes(l), true)
			gc(g, "dec-len66", len(s) == 66, "C16 dec "+ns[r.Intn(len(ns))].name+" "+hx(s))
		}
	}
	for tries, found := 0, 0; tries < 400 && found < 6; tries++ {
		n := ns[r.Intn(len(ns))]
		s := []byte(base58CheckRaw(append([]byte{n.p.PubKeyHashAddrID}, r.Bytes(42+r.Intn(4))...)))
		if len(s) == 66 {
			found++
			gc(g, "dec-len66", true, "C16 dec "+n.name+" "+hx(s))
		}
	}
	// mixed case, exhaustively: every valid segwit address kind in upper-case form with exactly ONE character lower-cased
	// (every position), and in lower-case form with exactly one upper-cased; all must be rejected
	flipOne := func(str []byte, toLower bool, class string, op string) {
		for i := range str {
			t := append([]byte{}, str...)
			switch {
			case toLower && t[i] >= 'A' && t[i] <= 'Z':
				t[i] += 32
			case !toLower && t[i] >= 'a' && t[i] <= 'z':
				t[i] -= 32
			default:
				continue
			}
			gc(g, class, true, "C16 "+op+" "+hx(t))
		}
	}
	for ki, kind := range []string{"wpkh", "wsh", "tr", "p2a"} {
		n := ns[(ki*2+1)%len(ns)]
		l := map[string]int{"wpkh": 20, "wsh": 32, "tr": 32, "p2a": 0}[kind]
		if ad, err := mkAddr(kind, n.p, r.Bytes(l)); err == nil {
			str := []byte(ad.String())
			flipOne(upper(str), true, "dec-onelower", "dec "+n.name)
			flipOne(str, false, "dec-oneupper", "dec "+n.name)
		}
	}
	// every charset symbol once in the data part (so every letter of the charset, a..z boundary letters included,
	// appears as the single odd-case character), for both checksum variants
	all32 := make([]byte, 32)
	for i := range all32 {
		all32[i] = byte(i)
	}
	for _, m := range []bool{false, true} {
		var str string
		if m {
			str, _ = bech32.EncodeM("az", all32)
		} else {
			str, _ = bech32.Encode("az", all32)
		}
		flipOne(upper([]byte(str)), true, "bdec-onelower", "bdec")
		flipOne([]byte(str), false, "bdec-oneupper", "bdec")
		flipOne(upper([]byte(str)), true, "bdec-onelower", "bdec2")
	}
	// HRP characters at the edges of the letter ranges: a z A Z are letters, their neighbours ` { @ [ are not
	for _, hrp := range []string{"a", "z", "az", "`", "{", "@", "[", "`{@[", "a`z{", "y", "b"} {
		d := rand5(r, 8)
		lo, _ := bech32.Encode(hrp, d) // Encode lower-cases the HRP
		gc(g, "bdec-hrp-edge", true, "C16 bdec "+hx([]byte(lo)))
		gc(g, "bdec-hrp-edge", true, "C16 bdec "+hx(upper([]byte(lo))))
		one := strings.LastIndexByte(lo, '1')
		// HRP in one case, data part in the other
		gc(g, "bdec-hrp-edge", true, "C16 bdec "+hx([]byte(strings.ToUpper(lo[:one])+lo[one:])))
		gc(g, "bdec-hrp-edge", true, "C16 bdec "+hx([]byte(lo[:one]+strings.ToUpper(lo[one:]))))
	}
	// configuration change: the same string before and after its network is registered
	for k := 0; k < g.N(6, 40); k++ {
		hrp := "z" + strings.ToLower(strconv.FormatUint(r.U64()&0xffffffff, 36))
		hrp = strings.ReplaceAll(hrp, "1", "x")
		gc(g, "dynreg", true, "C16 dynreg "+hx([]byte(hrp))+" "+hx(r.Bytes(32)))
	}
	// concurrency: 16 goroutines, 8 rounds with shifted start offsets, over samples of everything generated so far
	var pool2 []string
	for _, l := range allLines {
		if len(l) < 1500 && !strings.HasPrefix(l, "C16 dynreg") && !strings.HasPrefix(l, "C16 conc") &&
			!strings.Contains(l, "/") && !strings.Contains(l, ";") {
			pool2 = append(pool2, l)
		}
	}
	var poolDec []string // string decoders share the most helper code: half of the conc cases use only them
	for _, l := range pool2 {
		if strings.HasPrefix(l, "C16 dec ") || strings.HasPrefix(l, "C16 bdec") || strings.HasPrefix(l, "C16 enc") ||
			strings.HasPrefix(l, "C16 chkd") || strings.HasPrefix(l, "C16 wifd") || strings.HasPrefix(l, "C16 xkd") {
			poolDec = append(poolDec, l)
		}
	}
	for k := 0; k < g.N(12, 60); k++ {
		var subs []string
		src := pool2
		if k%2 == 1 {
			src = poolDec
		}
		for i := 0; i < 96; i++ {
			subs = append(subs, slashLine(src[r.Intn(len(src))]))
		}
		g.Case("conc", true, "C16 conc "+strings.Join(subs, ";"))
		allLines = append(allLines, "C16 conc "+strings.Join(subs, ";"))
	}
	if f := os.Getenv("C16_DUMP"); f != "" { // debugging aid: all generated lines
		os.WriteFile(f, []byte(strings.Join(allLines, "\n")+"\n"), 0o644)
	}
	allLines = nil
}
