// Package p16: correspondence for C16 (address / key / script-template encodings).
//
// Strings travel on the protocol line as the hex of their bytes, so that malformed
// (non-ASCII, empty) strings can be expressed; "-" is the empty string.
package p16

import (
	"encoding/hex"
	"regexp"
	"strings"

	"github.com/btcsuite/btcd/address/v2/base58"
	"verifharness/core"
)

type P struct{}

func (P) ID() string { return "C16" }

func hx(b []byte) string {
	if len(b) == 0 {
		return "-"
	}
	return hex.EncodeToString(b)
}

func unhx(s string) []byte {
	if s == "-" {
		return nil
	}
	b, err := hex.DecodeString(s)
	if err != nil {
		panic("bad hex " + s)
	}
	return b
}

// ---------------------------------------------------------------- exec (real code)

// errClass strips the kind of a rejection: the property only says "rejected"; which error value a decoder returns
// (and hence the order of its internal checks) is not part of the observation.
var errClass = regexp.MustCompile(`err:[a-z0-9]+`)

func (p P) Exec(line string) string { return errClass.ReplaceAllString(p.exec(line), "err") }

func (P) exec(line string) string {
	f := strings.Fields(line)
	if len(f) < 2 || f[0] != "C16" {
		return "bad-op"
	}
	a := f[2:]
	switch f[1] {
	case "b58e":
		return hx([]byte(base58.Encode(unhx(a[0]))))
	case "b58d":
		return hx(base58.Decode(string(unhx(a[0]))))
	case "chke":
		return hx([]byte(base58.CheckEncode(unhx(a[1]), unhx(a[0])[0])))
	case "chkd":
		p, v, err := base58.CheckDecode(string(unhx(a[0])))
		switch err {
		case nil:
			return "ok " + hx([]byte{v}) + " " + hx(p)
		case base58.ErrChecksum:
			return "err:checksum"
		case base58.ErrInvalidFormat:
			return "err:format"
		}
		return "err:other"
	}
	if r, ok := execMore(f[1], a); ok {
		return r
	}
	return "bad-op"
}

// ---------------------------------------------------------------- generators

const b58alpha = "123456789ABCDEFGHJKLMNPQRSTUVWXYZabcdefghijkmnopqrstuvwxyz"

func randB58(r *core.Rand, n int) []byte {
	s := make([]byte, n)
	for i := range s {
		s[i] = b58alpha[r.Intn(58)]
	}
	return s
}

// mutate returns s at edit distance ≤ k (substitute / insert / delete / transpose), using alphabet alpha.
func mutate(r *core.Rand, s []byte, k int, alpha string) []byte {
	t := append([]byte{}, s...)
	for i := 0; i < k; i++ {
		switch op := r.Intn(4); {
		case op == 0 && len(t) > 0: // substitute
			t[r.Intn(len(t))] = alpha[r.Intn(len(alpha))]
		case op == 1: // insert
			p := r.Intn(len(t) + 1)
			t = append(t[:p], append([]byte{alpha[r.Intn(len(alpha))]}, t[p:]...)...)
		case op == 2 && len(t) > 0: // delete
			p := r.Intn(len(t))
			t = append(t[:p], t[p+1:]...)
		case len(t) > 1: // transpose
			p := r.Intn(len(t) - 1)
			t[p], t[p+1] = t[p+1], t[p]
		}
	}
	return t
}

func genBase58(g *core.Gen) {
	r := g.R
	// encode: lengths 0..80 with leading zeros, all-zero, all-ff, chunk boundaries of 58^10
	for n := 0; n <= 80; n++ {
		for k := 0; k < g.N(3, 20); k++ {
			b := r.Bytes(n)
			for z := 0; z < r.Intn(4) && z < n; z++ {
				b[z] = 0
			}
			gc(g, "b58e", n > 0, "C16 b58e "+hx(b))
		}
		gc(g, "b58e-zero", n > 0, "C16 b58e "+hx(make([]byte, n)))
		ff := make([]byte, n)
		for i := range ff {
			ff[i] = 0xff
		}
		gc(g, "b58e-ff", n > 0, "C16 b58e "+hx(ff))
	}
	// values around 58^k (digit-count boundaries; 58^10 is the chunk size of the Go loops)
	for k := 1; k <= 24; k++ {
		v := pow58(k)
		for d := -2; d <= 2; d++ {
			w := addSmall(v, d)
			gc(g, "b58e-pow", true, "C16 b58e "+hx(w))
			gc(g, "b58e-pow", true, "C16 b58e 00"+hex.EncodeToString(w))
		}
	}
	// decode: valid strings of every length 0..60 (leading '1's), invalid characters
	for n := 0; n <= 60; n++ {
		for k := 0; k < g.N(4, 30); k++ {
			s := randB58(r, n)
			for z := 0; z < r.Intn(4) && z < n; z++ {
				s[z] = '1'
			}
			gc(g, "b58d", n > 0, "C16 b58d "+hx(s))
		}
		ones := []byte(strings.Repeat("1", n))
		gc(g, "b58d-ones", n > 0, "C16 b58d "+hx(ones))
		zs := []byte(strings.Repeat("z", n))
		gc(g, "b58d-z", n > 0, "C16 b58d "+hx(zs))
	}
	for c := 0; c < 256; c++ { // every byte value at a random position of a valid string
		s := randB58(r, 1+r.Intn(30))
		s[r.Intn(len(s))] = byte(c)
		gc(g, "b58d-anybyte", true, "C16 b58d "+hx(s))
		gc(g, "b58d-anybyte", true, "C16 b58d "+hx([]byte{byte(c)}))
	}
	for k := 0; k < g.N(100, 2000); k++ { // multi-byte UTF-8 / invalid UTF-8 inside, also at chunk cuts
		s := randB58(r, 5+r.Intn(30))
		p := r.Intn(len(s))
		ins := [][]byte{{0xc3, 0xa9}, {0xe2, 0x82, 0xac}, {0xff}, {0xc3}, {0xf0, 0x9f, 0x98, 0x80}, {0x80}}[r.Intn(6)]
		s = append(s[:p], append(append([]byte{}, ins...), s[p:]...)...)
		gc(g, "b58d-utf8", true, "C16 b58d "+hx(s))
	}
	// check-encode / check-decode
	for k := 0; k < g.N(300, 5000); k++ {
		n := []int{0, 1, 19, 20, 21, 32, 33, 34, 73, 74}[r.Intn(10)]
		if r.Chance(1, 4) {
			n = r.Intn(90)
		}
		p := r.Bytes(n)
		if r.Chance(1, 5) && n > 0 {
			p[0] = 0
		}
		v := byte(r.Intn(256))
		if r.Chance(1, 3) {
			v = 0
		}
		gc(g, "chke", true, "C16 chke "+hx([]byte{v})+" "+hx(p))
		s := []byte(base58.CheckEncode(p, v))
		gc(g, "chkd-valid", true, "C16 chkd "+hx(s))
		gc(g, "chkd-mut", true, "C16 chkd "+hx(mutate(r, s, 1+r.Intn(4), b58alpha)))
	}
	// short decodings: < 5 bytes, exactly 5 bytes
	for n := 0; n <= 6; n++ {
		for k := 0; k < 6; k++ {
			b := r.Bytes(n)
			gc(g, "chkd-short", true, "C16 chkd "+hx([]byte(base58.Encode(b))))
		}
	}
	gc(g, "chkd-short", true, "C16 chkd "+hx([]byte(base58.CheckEncode(nil, 0))))
}

func pow58(k int) []byte {
	// big-endian bytes of 58^k (schoolbook, no math/big needed but keep it simple)
	v := []byte{1}
	for i := 0; i < k; i++ {
		carry := 0
		for j := len(v) - 1; j >= 0; j-- {
			x := int(v[j])*58 + carry
			v[j] = byte(x)
			carry = x >> 8
		}
		for carry > 0 {
			v = append([]byte{byte(carry)}, v...)
			carry >>= 8
		}
	}
	return v
}

func addSmall(v []byte, d int) []byte {
	w := append([]byte{0}, v...)
	i := len(w) - 1
	x := int(w[i]) + d
	for {
		if x < 0 {
			w[i] = byte(x + 256)
			i--
			x = int(w[i]) - 1
		} else if x > 255 {
			w[i] = byte(x - 256)
			i--
			x = int(w[i]) + 1
		} else {
			w[i] = byte(x)
			break
		}
	}
	for len(w) > 1 && w[0] == 0 {
		w = w[1:]
	}
	return w
}

func (P) Generate(g *core.Gen) {
	genBase58(g)
	genMore(g)
}

func b58enc(b []byte) string { return base58.Encode(b) }
