package p16

import "verifharness/core"

func execMore(op string, a []string) (string, bool) { return "", false }

func genMore(g *core.Gen) {}
