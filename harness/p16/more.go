package p16

import (
	"encoding/hex"
	"errors"
	"strconv"
	"strings"

	"github.com/btcsuite/btcd/address/v2"
	"github.com/btcsuite/btcd/address/v2/base58"
	"github.com/btcsuite/btcd/address/v2/bech32"
	"github.com/btcsuite/btcd/btcec/v2"
	"github.com/btcsuite/btcd/btcutil/v2/hdkeychain"
	"github.com/btcsuite/btcd/chaincfg/v2"
	"github.com/btcsuite/btcd/txscript/v2"
	"verifharness/core"
)

// ---------------------------------------------------------------- networks / facts

type netT struct {
	name string
	p    *chaincfg.Params
}

// customNet is a network registered at run time through chaincfg.Register (the registry is part of the
// property: "every registered network"); its prefixes collide with no shipped network.
var customNet = chaincfg.Params{
	Name: "verifnet", Net: 0x76657266, Bech32HRPSegwit: "vn",
	PubKeyHashAddrID: 0x30, ScriptHashAddrID: 0x32, PrivateKeyID: 0xb0,
	HDPrivateKeyID: [4]byte{0x01, 0x9d, 0x9c, 0xfe}, HDPublicKeyID: [4]byte{0x01, 0x9d, 0xa4, 0x62},
}

func init() {
	if err := chaincfg.Register(&customNet); err != nil {
		panic(err)
	}
}

func nets() []netT {
	return []netT{
		{"verifnet", &customNet},
		{"mainnet", &chaincfg.MainNetParams}, {"testnet3", &chaincfg.TestNet3Params},
		{"testnet4", &chaincfg.TestNet4Params}, {"signet", &chaincfg.SigNetParams},
		{"regtest", &chaincfg.RegressionNetParams}, {"simnet", &chaincfg.SimNetParams},
	}
}

func netOf(name string) *chaincfg.Params {
	for _, n := range nets() {
		if n.name == name {
			return n.p
		}
	}
	panic("unknown net " + name)
}

func bytesI64(b []byte) []int64 {
	out := make([]int64, len(b))
	for i, x := range b {
		out[i] = int64(x)
	}
	return out
}

func (P) Facts() []core.Fact {
	var fs []core.Fact
	for i, n := range nets() {
		k := "net" + strconv.Itoa(i)
		fs = append(fs,
			core.Fact{Name: k + "_pkh", Value: int64(n.p.PubKeyHashAddrID)},
			core.Fact{Name: k + "_sh", Value: int64(n.p.ScriptHashAddrID)},
			core.Fact{Name: k + "_wif", Value: int64(n.p.PrivateKeyID)},
			core.Fact{Name: k + "_hrp", Value: bytesI64([]byte(n.p.Bech32HRPSegwit))},
			core.Fact{Name: k + "_hdPriv", Value: bytesI64(n.p.HDPrivateKeyID[:])},
			core.Fact{Name: k + "_hdPub", Value: bytesI64(n.p.HDPublicKeyID[:])},
			core.Fact{Name: k + "_hrpKnown", Value: chaincfg.IsBech32SegwitPrefix(n.p.Bech32HRPSegwit + "1")},
		)
	}
	// prefix registries: which version bytes are known as P2PKH / P2SH ids, and the private -> public HD id map
	var pkhIDs, shIDs []int64
	for id := 0; id < 256; id++ {
		if chaincfg.IsPubKeyHashAddrID(byte(id)) {
			pkhIDs = append(pkhIDs, int64(id))
		}
		if chaincfg.IsScriptHashAddrID(byte(id)) {
			shIDs = append(shIDs, int64(id))
		}
	}
	fs = append(fs, core.Fact{Name: "pkhIDs", Value: pkhIDs}, core.Fact{Name: "shIDs", Value: shIDs})
	for i, n := range nets() {
		pub, err := chaincfg.HDPrivateKeyToPublicKeyID(n.p.HDPrivateKeyID[:])
		if err != nil {
			pub = nil
		}
		fs = append(fs, core.Fact{Name: "net" + strconv.Itoa(i) + "_hdPrivToPub", Value: bytesI64(pub)})
	}
	_, errUnknown := chaincfg.HDPrivateKeyToPublicKeyID([]byte{1, 2, 3, 4})
	_, errLen := chaincfg.HDPrivateKeyToPublicKeyID([]byte{1, 2, 3})
	fs = append(fs, core.Fact{Name: "hdUnknownRejected", Value: errUnknown != nil && errLen != nil},
		core.Fact{Name: "hdRegisterBadLen", Value: chaincfg.RegisterHDKeyID([]byte{1, 2, 3}, []byte{1, 2, 3, 4}) != nil})
	fs = append(fs,
		core.Fact{Name: "bech32Const", Value: int64(bech32.Version0Const)},
		core.Fact{Name: "bech32mConst", Value: int64(bech32.VersionMConst)},
		core.Fact{Name: "payToAnchorScript", Value: bytesI64(txscript.PayToAnchorScript)},
		core.Fact{Name: "maxDataCarrierSize", Value: int64(txscript.MaxDataCarrierSize)},
		core.Fact{Name: "secpN", Value: btcec.S256().N},
		core.Fact{Name: "hardenedKeyStart", Value: int64(hdkeychain.HardenedKeyStart)},
		core.Fact{Name: "minSeedBytes", Value: int64(hdkeychain.MinSeedBytes)},
		core.Fact{Name: "maxSeedBytes", Value: int64(hdkeychain.MaxSeedBytes)},
		core.Fact{Name: "baseLeafVersion", Value: int64(txscript.BaseLeafVersion)},
	)
	return fs
}

// ---------------------------------------------------------------- exec

func bechErr(err error) string {
	var e1 bech32.ErrInvalidLength
	var e2 bech32.ErrInvalidCharacter
	var e3 bech32.ErrMixedCase
	var e4 bech32.ErrInvalidSeparatorIndex
	var e5 bech32.ErrNonCharsetChar
	var e6 bech32.ErrInvalidChecksum
	var e7 bech32.ErrInvalidDataByte
	var e8 bech32.ErrInvalidBitGroups
	var e9 bech32.ErrInvalidIncompleteGroup
	switch {
	case errors.As(err, &e1):
		return "err:length"
	case errors.As(err, &e2):
		return "err:char"
	case errors.As(err, &e3):
		return "err:mixed"
	case errors.As(err, &e4):
		return "err:sep"
	case errors.As(err, &e5):
		return "err:noncharset"
	case errors.As(err, &e6):
		return "err:checksum"
	case errors.As(err, &e7):
		return "err:databyte"
	case errors.As(err, &e8):
		return "err:bitgroups"
	case errors.As(err, &e9):
		return "err:incomplete"
	}
	return "err:other"
}

func ascii(s string) string {
	if s == "" {
		return "-"
	}
	return s
}

func kindOf(a address.Address) string {
	switch a.(type) {
	case *address.AddressPubKeyHash:
		return "pkh"
	case *address.AddressScriptHash:
		return "sh"
	case *address.AddressPubKey:
		return "pk"
	case *address.AddressWitnessPubKeyHash:
		return "wpkh"
	case *address.AddressWitnessScriptHash:
		return "wsh"
	case *address.AddressTaproot:
		return "tr"
	case *address.AddressPayToAnchor:
		return "p2a"
	}
	return "unknown"
}

func showAddr(a address.Address) string {
	script, err := txscript.PayToAddrScript(a)
	sc := hx(script)
	if err != nil {
		sc = "err"
	}
	var bits strings.Builder
	for _, n := range nets() {
		if a.IsForNet(n.p) {
			bits.WriteByte('1')
		} else {
			bits.WriteByte('0')
		}
	}
	return kindOf(a) + " " + ascii(a.String()) + " " + ascii(a.EncodeAddress()) + " " + sc + " " + bits.String()
}

func showDec(s string, net *chaincfg.Params) string {
	a, err := address.DecodeAddress(s, net)
	if err != nil {
		var e1 address.UnsupportedWitnessVerError
		var e2 address.UnsupportedWitnessProgLenError
		switch {
		case errors.As(err, &e1):
			return "err:witver"
		case errors.As(err, &e2):
			return "err:proglen"
		case err == address.ErrChecksumMismatch:
			return "err:checksum"
		case err == address.ErrUnknownAddressType:
			return "err:unknowntype"
		case err == address.ErrAddressCollision:
			return "err:collision"
		}
		return "err:other"
	}
	return "ok " + showAddr(a)
}

func showXtr(script []byte, net *chaincfg.Params) string {
	class, addrs, nreq, err := txscript.ExtractPkScriptAddrs(script, net)
	if err != nil {
		return "err"
	}
	var as []string
	for _, a := range addrs {
		as = append(as, ascii(a.String()))
	}
	al := "-"
	if len(as) > 0 {
		al = strings.Join(as, ",")
	}
	return class.String() + " " + txscript.GetScriptClass(script).String() + " " + strconv.Itoa(nreq) + " " + al
}

func mkAddr(kind string, net *chaincfg.Params, p []byte) (address.Address, error) {
	switch kind {
	case "pkh":
		return address.NewAddressPubKeyHash(p, net)
	case "sh":
		return address.NewAddressScriptHashFromHash(p, net)
	case "pk":
		return address.NewAddressPubKey(p, net)
	case "wpkh":
		return address.NewAddressWitnessPubKeyHash(p, net)
	case "wsh":
		return address.NewAddressWitnessScriptHash(p, net)
	case "tr":
		return address.NewAddressTaproot(p, net)
	case "p2a":
		return address.NewAddressPayToAnchor(net)
	}
	return nil, errors.New("kind")
}

func execMore(op string, a []string) (string, bool) {
	switch op {
	case "cb":
		f, _ := strconv.Atoi(a[0])
		t, _ := strconv.Atoi(a[1])
		r, err := bech32.ConvertBits(unhx(a[3]), uint8(f), uint8(t), a[2] == "1")
		if err != nil {
			return bechErr(err), true
		}
		return "ok " + hx(r), true
	case "benc":
		var s string
		var err error
		if a[0] == "m" {
			s, err = bech32.EncodeM(string(unhx(a[1])), unhx(a[2]))
		} else {
			s, err = bech32.Encode(string(unhx(a[1])), unhx(a[2]))
		}
		if err != nil {
			return bechErr(err), true
		}
		return "ok " + hx([]byte(s)), true
	case "bdec":
		hrp, data, ver, err := bech32.DecodeGeneric(string(unhx(a[0])))
		if err != nil {
			return bechErr(err), true
		}
		v := "?"
		switch ver {
		case bech32.Version0:
			v = "0"
		case bech32.VersionM:
			v = "m"
		}
		return "ok " + hx([]byte(hrp)) + " " + hx(data) + " " + v, true
	case "dec":
		return showDec(string(unhx(a[1])), netOf(a[0])), true
	case "xtr":
		return showXtr(unhx(a[1]), netOf(a[0])), true
	case "pks":
		ps, err := txscript.ParsePkScript(unhx(a[1]))
		if err != nil {
			if err == txscript.ErrUnsupportedScriptType {
				return "err:unsupported", true
			}
			return "err", true
		}
		ad, err := ps.Address(netOf(a[0]))
		as := "noaddr"
		if err == nil {
			as = ad.String()
		}
		return "ok " + ps.Class().String() + " " + hx(ps.Script()) + " " + as, true
	case "enc":
		net := netOf(a[1])
		ad, err := mkAddr(a[0], net, unhx(a[2]))
		if err != nil {
			return "err", true
		}
		script, _ := txscript.PayToAddrScript(ad)
		return "ok " + showAddr(ad) + " | " + showXtr(script, net) + " | " + showDec(ad.String(), net), true
	}
	return execKeys(op, a)
}

// ---------------------------------------------------------------- generators

const bechCharset = "qpzry9x8gf2tvdw0s3jn54khce6mua7l"

func rand5(r *core.Rand, n int) []byte {
	b := make([]byte, n)
	for i := range b {
		b[i] = byte(r.Intn(32))
	}
	return b
}

func randHrp(r *core.Rand) string {
	switch r.Intn(8) {
	case 0:
		return "bc"
	case 1:
		return "tb"
	case 2:
		return "bcrt"
	case 3:
		return "sb"
	}
	n := 1 + r.Intn(10)
	b := make([]byte, n)
	for i := range b {
		c := byte(33 + r.Intn(94))
		if c >= 'A' && c <= 'Z' {
			c += 32
		}
		b[i] = c
	}
	return string(b)
}

func upper(s []byte) []byte { return []byte(strings.ToUpper(string(s))) }

// pubkeys in every format for a few scalars
func pubKeys(r *core.Rand) [][]byte {
	var out [][]byte
	sc := r.Bytes(32)
	sc[0] &= 0x7f
	priv, pub := btcec.PrivKeyFromBytes(sc)
	_ = priv
	c := pub.SerializeCompressed()
	u := pub.SerializeUncompressed()
	h := append([]byte{}, u...)
	h[0] = 0x06 | (u[64] & 1)
	out = append(out, c, u, h)
	return out
}

func segwitString(r *core.Rand, hrp string, ver byte, prog []byte, m bool) []byte {
	conv, _ := bech32.ConvertBits(prog, 8, 5, true)
	data := append([]byte{ver}, conv...)
	var s string
	if m {
		s, _ = bech32.EncodeM(hrp, data)
	} else {
		s, _ = bech32.Encode(hrp, data)
	}
	return []byte(s)
}

func genBech(g *core.Gen) {
	r := g.R
	// ConvertBits: every width pair, both pad modes; 8->5 and 5->8 at every length 0..70
	for f := 0; f <= 9; f++ {
		for t := 0; t <= 9; t++ {
			for k := 0; k < g.N(2, 12); k++ {
				d := r.Bytes(r.Intn(12))
				for _, pad := range []string{"0", "1"} {
					gc(g, "cb-any", len(d) > 0, "C16 cb "+strconv.Itoa(f)+" "+strconv.Itoa(t)+" "+pad+" "+hx(d))
				}
			}
		}
	}
	for n := 0; n <= 70; n++ {
		d := r.Bytes(n)
		gc(g, "cb-8to5", n > 0, "C16 cb 8 5 1 "+hx(d))
		gc(g, "cb-8to5", n > 0, "C16 cb 8 5 0 "+hx(d))
		c, _ := bech32.ConvertBits(d, 8, 5, true)
		gc(g, "cb-5to8", n > 0, "C16 cb 5 8 0 "+hx(c))
		gc(g, "cb-5to8", n > 0, "C16 cb 5 8 1 "+hx(c))
		if len(c) > 0 { // non-zero padding bits, or a spare group
			c2 := append([]byte{}, c...)
			c2[len(c2)-1] |= 1
			gc(g, "cb-5to8-badpad", true, "C16 cb 5 8 0 "+hx(c2))
			gc(g, "cb-5to8-badpad", true, "C16 cb 5 8 0 "+hx(append(c2, 0)))
			gc(g, "cb-5to8-badpad", true, "C16 cb 5 8 0 "+hx(append(append([]byte{}, c...), 0)))
		}
		x := rand5(r, n)
		gc(g, "cb-5to8-rand", n > 0, "C16 cb 5 8 0 "+hx(x))
	}
	// bech32 encode / decode
	for k := 0; k < g.N(400, 6000); k++ {
		hrp := randHrp(r)
		n := r.Intn(70)
		if r.Chance(1, 6) { // around the 90-char limit
			n = 90 - len(hrp) - 7 + r.Intn(3) - 1
		}
		d := rand5(r, n)
		ver := []string{"0", "m"}[r.Intn(2)]
		if r.Chance(1, 20) && n > 0 {
			d[r.Intn(n)] = byte(32 + r.Intn(224))
		}
		h := hrp
		if r.Chance(1, 8) {
			h = strings.ToUpper(hrp)
		}
		gc(g, "benc", true, "C16 benc "+ver+" "+hx([]byte(h))+" "+hx(d))
		var s string
		var err error
		if ver == "m" {
			s, err = bech32.EncodeM(hrp, d)
		} else {
			s, err = bech32.Encode(hrp, d)
		}
		if err != nil {
			continue
		}
		gc(g, "bdec-valid", true, "C16 bdec "+hx([]byte(s)))
		gc(g, "bdec-upper", true, "C16 bdec "+hx(upper([]byte(s))))
		m := []byte(s)
		if len(m) > 0 { // mixed case: upper-case one letter
			for tries := 0; tries < 20; tries++ {
				p := r.Intn(len(m))
				if m[p] >= 'a' && m[p] <= 'z' {
					m[p] -= 32
					break
				}
			}
			gc(g, "bdec-mixed", true, "C16 bdec "+hx(m))
		}
		gc(g, "bdec-mut", true, "C16 bdec "+hx(mutate(r, []byte(s), 1+r.Intn(4), bechCharset+"1b")))
		if r.Chance(1, 10) {
			t := []byte(s)
			t[r.Intn(len(t))] = byte(r.Intn(256))
			gc(g, "bdec-anybyte", true, "C16 bdec "+hx(t))
		}
	}
	for _, s := range []string{"", "1", "a1", "1qqqqqq", "a1qqqqqq", "11qqqqqq", "a1qqqqq", "a12uel5l", "A12UEL5L", "a1lqfn3a", "abcdef1qpzry9x8gf2tvdw0s3jn54khce6mua7lmqqqxw"} {
		gc(g, "bdec-fixed", true, "C16 bdec "+hx([]byte(s)))
	}
}

func genAddr(g *core.Gen) {
	r := g.R
	ns := nets()
	// constructors: every kind x every network x legal and illegal payload lengths
	for _, n := range ns {
		for _, kind := range []string{"pkh", "sh", "wpkh", "wsh", "tr"} {
			for _, l := range []int{0, 19, 20, 21, 31, 32, 33} {
				for k := 0; k < g.N(2, 20); k++ {
					p := r.Bytes(l)
					if k == 0 && l > 0 {
						p = make([]byte, l) // all zero: leading '1's in base58
					}
					gc(g, "enc-"+kind, l == 20 || l == 32, "C16 enc "+kind+" "+n.name+" "+hx(p))
				}
			}
		}
		gc(g, "enc-p2a", true, "C16 enc p2a "+n.name+" -")
		for k := 0; k < g.N(3, 30); k++ {
			for _, pk := range pubKeys(r) {
				gc(g, "enc-pk", true, "C16 enc pk "+n.name+" "+hx(pk))
				bad := append([]byte{}, pk...)
				switch r.Intn(4) {
				case 0:
					bad[1+r.Intn(len(bad)-1)] ^= byte(1 << r.Intn(8))
				case 1:
					bad[0] ^= 1 // wrong parity tag / 04<->05
				case 2:
					bad = bad[:len(bad)-1]
				case 3:
					bad[0] = byte(r.Intn(256))
				}
				gc(g, "enc-pk-bad", true, "C16 enc pk "+n.name+" "+hx(bad))
				// as DecodeAddress input: hex string in either case
				hs := hex.EncodeToString(pk)
				if r.Bool() {
					hs = strings.ToUpper(hs)
				}
				gc(g, "dec-pkhex", true, "C16 dec "+n.name+" "+hx([]byte(hs)))
				gc(g, "dec-pkhex-bad", true, "C16 dec "+n.name+" "+hx([]byte(hex.EncodeToString(bad))))
			}
		}
	}
	// decode: every version 0..17 x program lengths x both checksum variants x every hrp, on every default net
	hrps := []string{"bc", "tb", "bcrt", "sb", "vn", "VN", "BC", "TB", "xy", "b", "bc1", "tb1tb", "ltc", "v"}
	for ver := 0; ver <= 17; ver++ {
		for _, l := range []int{0, 1, 2, 3, 16, 19, 20, 21, 31, 32, 33, 39, 40, 41} {
			for _, m := range []bool{false, true} {
				for k := 0; k < g.N(1, 6); k++ {
					hrp := hrps[r.Intn(len(hrps))]
					if k == 0 {
						hrp = []string{"bc", "tb", "bcrt", "sb", "vn"}[r.Intn(5)]
					}
					prog := r.Bytes(l)
					if l == 2 && r.Bool() {
						prog = []byte{0x4e, 0x73}
					}
					s := segwitString(r, hrp, byte(ver), prog, m)
					net := ns[r.Intn(len(ns))]
					gc(g, "dec-segwit", true, "C16 dec "+net.name+" "+hx(s))
					if r.Chance(1, 3) {
						gc(g, "dec-segwit-upper", true, "C16 dec "+net.name+" "+hx(upper(s)))
					}
					if r.Chance(1, 3) {
						gc(g, "dec-segwit-mut", true, "C16 dec "+net.name+" "+hx(mutate(r, s, 1+r.Intn(4), bechCharset+"1b")))
					}
				}
			}
		}
	}
	// every segwit kind on every network: the valid string in upper case and lower case, decoded under every network
	for _, n := range ns {
		for _, kind := range []string{"wpkh", "wsh", "tr", "p2a"} {
			l := map[string]int{"wpkh": 20, "wsh": 32, "tr": 32, "p2a": 0}[kind]
			ad, err := mkAddr(kind, n.p, r.Bytes(l))
			if err != nil {
				continue
			}
			str := []byte(ad.String())
			other := ns[r.Intn(len(ns))]
			gc(g, "dec-valid-upper", true, "C16 dec "+other.name+" "+hx(upper(str)))
			gc(g, "dec-valid-lower", true, "C16 dec "+other.name+" "+hx(str))
			mixed := append([]byte{}, str...)
			mixed[0] -= 32
			gc(g, "dec-valid-mixed", true, "C16 dec "+other.name+" "+hx(mixed))
		}
	}
	// pay-to-anchor look-alikes: v1 two-byte programs next to 4e73, and 4e73 under other versions / variants
	for _, prog := range [][]byte{{0x4e, 0x73}, {0x4e, 0x74}, {0x4f, 0x73}, {0x4e, 0x00}, {0x73, 0x4e}, {0x4e}, {0x4e, 0x73, 0x00}} {
		for ver := 0; ver <= 2; ver++ {
			for _, m := range []bool{false, true} {
				hrp := []string{"bc", "tb", "bcrt", "sb", "vn"}[r.Intn(5)]
				gc(g, "dec-p2a-near", true, "C16 dec "+ns[r.Intn(len(ns))].name+" "+hx(segwitString(r, hrp, byte(ver), prog, m)))
			}
		}
	}
	// padding violations inside otherwise valid segwit strings
	for k := 0; k < g.N(60, 1000); k++ {
		hrp := []string{"bc", "tb", "bcrt", "sb", "vn"}[r.Intn(5)]
		ver := byte(r.Intn(2))
		prog := r.Bytes([]int{20, 32}[r.Intn(2)])
		conv, _ := bech32.ConvertBits(prog, 8, 5, true)
		switch r.Intn(3) {
		case 0:
			conv[len(conv)-1] |= 1
		case 1:
			conv = append(conv, 0)
		case 2:
			conv = append(conv, byte(r.Intn(32)), byte(r.Intn(32)))
		}
		data := append([]byte{ver}, conv...)
		var s string
		if ver == 0 {
			s, _ = bech32.Encode(hrp, data)
		} else {
			s, _ = bech32.EncodeM(hrp, data)
		}
		gc(g, "dec-segwit-pad", true, "C16 dec "+ns[r.Intn(len(ns))].name+" "+hx([]byte(s)))
	}
	// base58 addresses: every netID byte against every default net; wrong lengths; edit distance 1..4
	for id := 0; id < 256; id++ {
		h := r.Bytes(20)
		s := []byte(base58.CheckEncode(h, byte(id)))
		for _, n := range ns {
			relevant := byte(id) == n.p.PubKeyHashAddrID || byte(id) == n.p.ScriptHashAddrID
			if relevant || r.Chance(1, 6) {
				gc(g, "dec-b58-netid", relevant, "C16 dec "+n.name+" "+hx(s))
			}
		}
	}
	for k := 0; k < g.N(300, 6000); k++ {
		n := ns[r.Intn(len(ns))]
		id := []byte{n.p.PubKeyHashAddrID, n.p.ScriptHashAddrID}[r.Intn(2)]
		l := 20
		if r.Chance(1, 5) {
			l = []int{0, 1, 19, 21, 32}[r.Intn(5)]
		}
		h := r.Bytes(l)
		if r.Chance(1, 6) && l > 0 {
			h[0] = 0
		}
		s := []byte(base58.CheckEncode(h, id))
		gc(g, "dec-b58", l == 20, "C16 dec "+n.name+" "+hx(s))
		gc(g, "dec-b58-mut", true, "C16 dec "+n.name+" "+hx(mutate(r, s, 1+r.Intn(4), b58alpha)))
		other := ns[r.Intn(len(ns))]
		gc(g, "dec-b58-othernet", true, "C16 dec "+other.name+" "+hx(s))
	}
	for _, s := range []string{"", "1", "bc1", "tb1", "bc1q", "1111111111111111111114oLvT2", "3", strings.Repeat("0", 66), strings.Repeat("g", 66), strings.Repeat("1", 130)} {
		gc(g, "dec-fixed", true, "C16 dec mainnet "+hx([]byte(s)))
	}
}

func push(b []byte) []byte {
	switch {
	case len(b) <= 75:
		return append([]byte{byte(len(b))}, b...)
	case len(b) <= 255:
		return append([]byte{0x4c, byte(len(b))}, b...)
	}
	return append([]byte{0x4d, byte(len(b)), byte(len(b) >> 8)}, b...)
}

func genScripts(g *core.Gen) {
	r := g.R
	ns := nets()
	tmpl := func() []byte {
		switch r.Intn(12) {
		case 0:
			return append(append([]byte{0x76, 0xa9, 0x14}, r.Bytes(20)...), 0x88, 0xac)
		case 1:
			return append(append([]byte{0xa9, 0x14}, r.Bytes(20)...), 0x87)
		case 2:
			pk := pubKeys(r)[r.Intn(3)]
			return append(push(pk), 0xac)
		case 3:
			return append([]byte{0x00, 0x14}, r.Bytes(20)...)
		case 4:
			return append([]byte{0x00, 0x20}, r.Bytes(32)...)
		case 5:
			return append([]byte{0x51, 0x20}, r.Bytes(32)...)
		case 6:
			return []byte{0x51, 0x02, 0x4e, 0x73}
		case 7: // multisig m-of-n with mixed key formats and a few junk keys
			n := 1 + r.Intn(4)
			m := 1 + r.Intn(n)
			s := []byte{byte(0x50 + m)}
			for i := 0; i < n; i++ {
				pk := pubKeys(r)[r.Intn(3)]
				if r.Chance(1, 6) {
					pk = r.Bytes([]int{33, 65, 32, 1}[r.Intn(4)])
				}
				s = append(s, push(pk)...)
			}
			cnt := n
			if r.Chance(1, 8) {
				cnt = n + 1
			}
			return append(s, byte(0x50+cnt), 0xae)
		case 8: // null data
			d := r.Bytes([]int{0, 1, 20, 75, 76, 80, 81}[r.Intn(7)])
			if r.Chance(1, 6) {
				return []byte{0x6a}
			}
			if r.Chance(1, 6) {
				return []byte{0x6a, byte(0x51 + r.Intn(16))}
			}
			return append([]byte{0x6a}, push(d)...)
		case 9: // witness program of another version / length
			l := 2 + r.Intn(39)
			return append([]byte{byte(0x50 + r.Intn(17)), byte(l)}, r.Bytes(l)...)
		case 10: // witness template whose last byte is OP_CHECKMULTISIG / looks like other templates
			s := append([]byte{[]byte{0x00, 0x51}[r.Intn(2)], 0x20}, r.Bytes(32)...)
			s[33] = 0xae
			return s
		}
		return r.Bytes(r.Intn(40))
	}
	for k := 0; k < g.N(1200, 20000); k++ {
		s := tmpl()
		n := ns[r.Intn(len(ns))]
		gc(g, "xtr-template", true, "C16 xtr "+n.name+" "+hx(s))
		if r.Chance(1, 2) {
			gc(g, "pks", true, "C16 pks "+n.name+" "+hx(s))
		}
		if r.Chance(1, 2) { // near misses: flip / truncate / extend
			t := append([]byte{}, s...)
			switch r.Intn(3) {
			case 0:
				if len(t) > 0 {
					t[r.Intn(len(t))] ^= byte(1 << r.Intn(8))
				}
			case 1:
				if len(t) > 0 {
					t = t[:len(t)-1]
				}
			case 2:
				t = append(t, byte(r.Intn(256)))
			}
			gc(g, "xtr-nearmiss", len(t) > 0, "C16 xtr "+n.name+" "+hx(t))
		}
	}
}

func genMore(g *core.Gen) {
	genBech(g)
	genAddr(g)
	genScripts(g)
	genKeys(g)
	genHard(g)
}
