package p19

import (
	"fmt"
	"io"
	"net"
	"strings"
	"sync"
	"time"

	"github.com/btcsuite/btcd/chaincfg/v2"
	"github.com/btcsuite/btcd/peer"
	"github.com/btcsuite/btcd/wire/v2"
)

// ---------------------------------------------------------------- peer/peer.go on top of the transport

// memConn is one end of a buffered in-memory duplex connection.
type memConn struct {
	rd, wr *memPipe
	port   int
}

type memPipe struct {
	mu     sync.Mutex
	cond   *sync.Cond
	buf    []byte
	closed bool
	total  int
}

func newMemPipe() *memPipe { p := &memPipe{}; p.cond = sync.NewCond(&p.mu); return p }

func newMemConnPair() (*memConn, *memConn) {
	ab, ba := newMemPipe(), newMemPipe()
	return &memConn{rd: ba, wr: ab, port: 18444}, &memConn{rd: ab, wr: ba, port: 18555}
}

func (c *memConn) Read(p []byte) (int, error) {
	c.rd.mu.Lock()
	defer c.rd.mu.Unlock()
	for len(c.rd.buf) == 0 && !c.rd.closed {
		c.rd.cond.Wait()
	}
	if len(c.rd.buf) == 0 {
		return 0, io.EOF
	}
	n := copy(p, c.rd.buf)
	c.rd.buf = c.rd.buf[n:]
	return n, nil
}

func (c *memConn) Write(p []byte) (int, error) {
	c.wr.mu.Lock()
	defer c.wr.mu.Unlock()
	if c.wr.closed {
		return 0, io.ErrClosedPipe
	}
	c.wr.buf = append(c.wr.buf, p...)
	c.wr.total += len(p)
	c.wr.cond.Broadcast()
	return len(p), nil
}

func (c *memConn) Close() error {
	for _, p := range []*memPipe{c.rd, c.wr} {
		p.mu.Lock()
		p.closed = true
		p.cond.Broadcast()
		p.mu.Unlock()
	}
	return nil
}

func (c *memConn) LocalAddr() net.Addr { return &net.TCPAddr{IP: net.IPv4(127, 0, 0, 1), Port: c.port} }
func (c *memConn) RemoteAddr() net.Addr {
	return &net.TCPAddr{IP: net.IPv4(127, 0, 0, 1), Port: c.port + 1}
}
func (c *memConn) SetDeadline(time.Time) error      { return nil }
func (c *memConn) SetReadDeadline(time.Time) error  { return nil }
func (c *memConn) SetWriteDeadline(time.Time) error { return nil }

func paramsOf(name string) *chaincfg.Params {
	switch name {
	case "main":
		return &chaincfg.MainNetParams
	case "test3":
		return &chaincfg.TestNet3Params
	case "reg":
		return &chaincfg.RegressionNetParams
	case "sim":
		return &chaincfg.SimNetParams
	}
	panic("unknown net " + name)
}

// execPeerhs connects a real outbound peer.Peer to a real inbound peer.Peer
// (peer/peer.go: negotiateOutboundProtocol / negotiateInboundProtocol,
// readMessage / writeMessage over the v2 transport, v1 detection via
// ReceivedPrefix, downgrade signalling) and reports what each side reached.
func execPeerhs(outV2, inV2 bool, outNet, inNet string, pings int) string {
	type side struct {
		verack, pong chan struct{}
		p            *peer.Peer
	}
	mk := func(v2 bool, netName string, inbound bool) *side {
		s := &side{verack: make(chan struct{}, 4), pong: make(chan struct{}, 64)}
		services := wire.SFNodeNetwork
		if v2 {
			services |= wire.SFNodeP2PV2
		}
		cfg := &peer.Config{
			Listeners: peer.MessageListeners{
				OnVerAck: func(*peer.Peer, *wire.MsgVerAck) { s.verack <- struct{}{} },
				OnPong:   func(*peer.Peer, *wire.MsgPong) { s.pong <- struct{}{} },
			},
			UserAgentName:    "verif",
			UserAgentVersion: "1.0",
			AllowSelfConns:   true,
			ChainParams:      paramsOf(netName),
			Services:         services,
			UsingV2Conn:      v2,
			TrickleInterval:  time.Second,
		}
		if inbound {
			s.p = peer.NewInboundPeer(cfg)
		} else {
			var err error
			s.p, err = peer.NewOutboundPeer(cfg, "127.0.0.1:18445")
			if err != nil {
				panic(err)
			}
		}
		return s
	}
	in, out := mk(inV2, inNet, true), mk(outV2, outNet, false)
	ca, cb := newMemConnPair()
	in.p.AssociateConnection(ca)
	out.p.AssociateConnection(cb)

	wait := func(ch chan struct{}, d time.Duration) int {
		select {
		case <-ch:
			return 1
		case <-time.After(d):
			return 0
		}
	}
	// a failed negotiation disconnects at once; only a success needs the full wait
	disc := make(chan struct{}, 2)
	go func() { in.p.WaitForDisconnect(); disc <- struct{}{} }()
	go func() { out.p.WaitForDisconnect(); disc <- struct{}{} }()
	res := [2]int{}
	deadline := time.After(25 * time.Second)
	got := 0
loop:
	for got < 2 {
		select {
		case <-in.verack:
			res[0] = 1
			got++
		case <-out.verack:
			res[1] = 1
			got++
		case <-disc:
			// give the other side a moment to notice, then stop waiting
			select {
			case <-disc:
			case <-time.After(2 * time.Second):
			}
			break loop
		case <-deadline:
			break loop
		}
	}
	pongs := 0
	if res[0] == 1 && res[1] == 1 {
		for i := 0; i < pings; i++ {
			out.p.QueueMessage(wire.NewMsgPing(uint64(1000+i)), nil)
			in.p.QueueMessage(wire.NewMsgPing(uint64(2000+i)), nil)
			pongs += wait(out.pong, 15*time.Second) + wait(in.pong, 15*time.Second)
		}
	}
	b := func(v bool) int {
		if v {
			return 1
		}
		return 0
	}
	inV2Now := b(in.p.StatsSnapshot().V2Connection)
	outV2Now := b(out.p.StatsSnapshot().V2Connection)
	dg := b(out.p.ShouldDowngradeToV1())
	in.p.Disconnect()
	out.p.Disconnect()
	in.p.WaitForDisconnect()
	out.p.WaitForDisconnect()
	return strings.Join([]string{
		fmt.Sprintf("in=%d,v2:%d", res[0], inV2Now),
		fmt.Sprintf("out=%d,v2:%d", res[1], outV2Now),
		fmt.Sprintf("pongs=%d", pongs),
		fmt.Sprintf("downgrade=%d", dg),
	}, " ")
}
