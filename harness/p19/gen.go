package p19

import (
	"fmt"
	"math/big"
	"os"
	"strings"
	"time"

	"verifharness/core"
)

var magics = []string{"d9b4bef9", "0709110b", "dab5bffa", "283f161c", "40cf030a"}

func pickMagic(r *core.Rand) string {
	if r.Chance(1, 6) {
		return fmt.Sprintf("%x", r.U32())
	}
	return magics[r.Intn(len(magics))]
}

func (P) Generate(g *core.Gen) {
	genCiphers(g)
	genEllswift(g)
	genSched(g)
	genIO(g)
	genPk(g)
	genEp(g)
	genConc(g)
	genPeer(g)
	genLoop(g)
	if g.Thorough() {
		for _, l := range bigVectors {
			kase(g, "vec-big", true, l)
		}
	}
}

// ---------------------------------------------------------------- ellswift

var curveN, _ = new(big.Int).SetString("fffffffffffffffffffffffffffffffebaaedce6af48a03bbfd25e8cd0364141", 16)

func edgeField(r *core.Rand) string {
	p := fieldP
	switch r.Intn(10) {
	case 0:
		return "0"
	case 1:
		return "1"
	case 2:
		return p.Text(16) // = 0 mod p
	case 3:
		return new(big.Int).Sub(p, big.NewInt(1)).Text(16)
	case 4:
		return new(big.Int).Add(p, big.NewInt(int64(r.Intn(5)))).Text(16) // overflowing encodings
	case 5:
		return strings.Repeat("f", 64)
	case 6:
		return fmt.Sprintf("%x", r.Intn(16))
	}
	return hx(r.Bytes(32))
}

func randCurveX(r *core.Rand) string {
	b := hx(r.Bytes(32))
	return guarded(strings.Repeat("0", 63)+"1", func() string {
		return hx(privFromHex(b).PubKey().SerializeCompressed()[1:])
	})
}

func genEllswift(g *core.Gen) {
	r := g.R
	seven := big.NewInt(7)
	for i := 0; i < g.N(400, 20000); i++ {
		u, t := hx(r.Bytes(32)), hx(r.Bytes(32))
		cls := "xswift-rand"
		switch r.Intn(4) {
		case 0:
			u, cls = edgeField(r), "xswift-edge"
		case 1:
			t, cls = edgeField(r), "xswift-edge"
		case 2:
			// g(u) = -t^2: the branch t'' = 2t'
			ub, _ := new(big.Int).SetString(u, 16)
			gu := new(big.Int).Exp(ub, big.NewInt(3), fieldP)
			gu.Add(gu, seven).Neg(gu).Mod(gu, fieldP)
			if s := new(big.Int).ModSqrt(gu, fieldP); s != nil {
				if r.Bool() {
					s.Sub(fieldP, s)
				}
				t, cls = s.Text(16), "xswift-double-t"
			}
		}
		kase(g, cls, true, "C19 xswift "+u+" "+t)
	}
	for i := 0; i < g.N(150, 3000); i++ {
		u, x := hx(r.Bytes(32)), randCurveX(r)
		cls := "xswiftinv"
		switch r.Intn(8) {
		case 0:
			u, cls = edgeField(r), "xswiftinv-edge-u"
		case 1:
			x, cls = hx(r.Bytes(32)), "xswiftinv-any-x"
		case 2:
			u, cls = x, "xswiftinv-u-eq-x"
		}
		for c := 0; c < 8; c++ {
			kase(g, cls, true, fmt.Sprintf("C19 xswiftinv %s %s %d", u, x, c))
		}
	}
	// r = 0 in the case&2 branch of XSwiftECInv: s = -4 g(u) / (3 u^2), x = u + s
	for i := 0; i < g.N(20, 500); i++ {
		u := new(big.Int).SetBytes(r.Bytes(32))
		u.Mod(u, fieldP)
		gu := new(big.Int).Exp(u, big.NewInt(3), fieldP)
		gu.Add(gu, seven).Mul(gu, big.NewInt(4)).Neg(gu)
		den := new(big.Int).Mul(u, u)
		den.Mul(den, big.NewInt(3)).Mod(den, fieldP)
		if den.Sign() == 0 {
			continue
		}
		sv := new(big.Int).Mul(gu, new(big.Int).ModInverse(den, fieldP))
		x := new(big.Int).Add(u, sv)
		x.Mod(x, fieldP)
		for c := 0; c < 8; c++ {
			kase(g, "xswiftinv-r-zero", true, fmt.Sprintf("C19 xswiftinv %s %s %d", u.Text(16), x.Text(16), c))
		}
	}
	for i := 0; i < g.N(60, 3000); i++ {
		priv := hx(r.Bytes(32))
		if r.Chance(1, 10) {
			priv = new(big.Int).Add(curveN, big.NewInt(int64(1+r.Intn(9)))).Text(16)
		}
		ellT, ellO := r.Bytes(64), r.Bytes(64)
		if r.Chance(1, 4) {
			copy(ellT[r.Intn(2)*32:], unhx(fmt.Sprintf("%064s", edgeField(r)))[:32])
		}
		kase(g, "ecdh", true, fmt.Sprintf("C19 ecdh %s %s %s %d", priv, hx(ellT), hx(ellO), r.Intn(2)))
	}
	for i := 0; i < g.N(60, 3000); i++ {
		pre := "-"
		if r.Chance(1, 5) {
			// private key >= n (reduced by btcec), u >= p
			pre = strings.Repeat("f", 64) + strings.Repeat("f", 64) + "07"
		}
		// the encoding chosen by EllswiftCreate is the sender's free choice: read it back and let
		// the reference validate it (it must decode to the public key of the private key)
		seed := hx(r.Bytes(16))
		got := strings.Fields(guarded("", func() string { return execCreate(unhx(pre), unhx(seed)) }))
		if len(got) < 2 {
			got = []string{"-", "-"}
		}
		kase(g, "create", true, "C19 create "+pre+" "+seed+" "+got[0]+" "+got[1])
	}
}

func genIO(g *core.Gen) {
	r := g.R
	for i := 0; i < g.N(60, 1000); i++ {
		inp := r.Bytes(int(r.Pick(0, 1, 3, 16, 64, 100, 300)))
		var ns []string
		for j := r.Intn(6); j >= 0; j-- {
			ns = append(ns, fmt.Sprint(r.Pick(0, 1, 3, 16, 17, 64, int64(len(inp)), int64(len(inp)+1), int64(r.Intn(80)))))
		}
		var sends []string
		for j := r.Intn(4); j > 0; j-- {
			l := int(r.Pick(0, 1, 2, 16, 80, 4159))
			sends = append(sends, fmt.Sprintf("%d:%d", l, r.Pick(0, 1, int64(l-1), int64(l), int64(l+1), 1<<20)))
		}
		for k, sd := range sends {
			if strings.Contains(sd, ":-") {
				sends[k] = strings.Split(sd, ":")[0] + ":0"
			}
		}
		kase(g, "rwio", true, fmt.Sprintf("C19 rwio %d %s %s %s", r.Pick(0, 1, 2, 7, 1000), hx(inp), strings.Join(ns, ","), joinOr(sends, ",")))
	}
	for i := 0; i < g.N(40, 1500); i++ {
		x, seed := randCurveX(r), hx(r.Bytes(16))
		got := strings.Fields(guarded("", func() string { return execXell(x, nil, unhx(seed)) }))
		if len(got) < 1 {
			got = []string{"-"}
		}
		kase(g, "xell", true, "C19 xell "+x+" - "+seed+" "+got[0])
	}
}

func genSched(g *core.Gen) {
	r := g.R
	// heterogeneous sessions from ONE secret: every network and both roles back to back (a key
	// cache keyed too coarsely would hand out the first session's keys)
	for i := 0; i < g.N(2, 30); i++ {
		sec := hx(r.Bytes(32))
		for _, m := range magics {
			for ini := 0; ini < 2; ini++ {
				kase(g, "sched-same-secret", true, fmt.Sprintf("C19 sched %s %s %d", sec, m, ini))
			}
		}
	}
	for i := 0; i < g.N(60, 2000); i++ {
		kase(g, "sched", true, fmt.Sprintf("C19 sched %s %s %d", hx(r.Bytes(32)), pickMagic(r), r.Intn(2)))
	}
}

// ---------------------------------------------------------------- packet layer

type pkt struct {
	ln, seed, aad int
	ign           bool
	raw           int // >= 256: raw header byte raw-256 (pk op only); ign must equal raw-256 >= 128
}

func (p pkt) String() string {
	ig := 0
	if p.ign {
		ig = 1
	}
	if p.raw >= 256 {
		ig = p.raw
	}
	return fmt.Sprintf("%d:%d:%d:%d", p.ln, p.seed, ig, p.aad)
}

func (p pkt) wireLen() int { return 3 + 1 + p.ln + 16 }

func randLen(r *core.Rand, big int) int {
	switch r.Intn(10) {
	case 0:
		return 0
	case 1:
		return int(r.Pick(1, 2, 15, 16, 17, 31, 32, 33, 62, 63, 64, 65, 127, 128, 255, 256, 257))
	case 2:
		return r.Intn(2000)
	case 3:
		if big > 0 {
			return int(r.Pick(65535, 65536, 65537, int64(r.Intn(big))))
		}
	}
	return r.Intn(48)
}

func randPkts(r *core.Rand, n, big int, firstAad bool) []pkt {
	ps := make([]pkt, n)
	for i := range ps {
		ps[i] = pkt{ln: randLen(r, big), seed: r.Intn(256), ign: r.Chance(1, 5)}
		if big > 0 && n > 50 {
			ps[i].ln = r.Intn(24) // long runs: keep the packets small
			if r.Chance(1, 40) {
				ps[i].ln = randLen(r, 0)
			}
		}
	}
	if n > 0 && firstAad {
		ps[0].aad = int(r.Pick(1, 15, 16, 17, 100, 4095))
	}
	return ps
}

func joinPkts(ps []pkt) string {
	if len(ps) == 0 {
		return "-"
	}
	ss := make([]string, len(ps))
	for i, p := range ps {
		ss[i] = p.String()
	}
	return strings.Join(ss, ";")
}

// recvPlan: one V2ReceivePacket call per non-ignored packet (the first call
// carries the AAD of the first packet), plus optionally one more call.
func recvPlan(ps []pkt, extra int) string {
	var rs []string
	first := true
	for _, p := range ps {
		if first && !p.ign && len(rs) == 0 {
			// the AAD belongs to the first packet on the wire only
		}
		if !p.ign {
			a := "0:0"
			if len(rs) == 0 && ps[0].aad > 0 {
				a = fmt.Sprintf("%d:%d", ps[0].aad, (ps[0].seed+1)%100000)
			}
			rs = append(rs, a)
		}
		first = false
	}
	for i := 0; i < extra; i++ {
		rs = append(rs, "0:0")
	}
	if len(rs) == 0 {
		return "-"
	}
	return strings.Join(rs, ";")
}

// tamperOps derives one tampering of a wire made of the given packets.
func tamperOp(r *core.Rand, ps []pkt) (string, string) {
	total, offs := 0, make([]int, len(ps)+1)
	for i, p := range ps {
		offs[i] = total
		total += p.wireLen()
	}
	offs[len(ps)] = total
	k := r.Intn(len(ps))
	mask := 1 << r.Intn(8)
	if r.Chance(1, 4) {
		mask = 1 + r.Intn(255)
	}
	switch r.Intn(12) {
	case 0:
		return "flip-len", fmt.Sprintf("f%d:%d", offs[k]+r.Intn(3), mask)
	case 1:
		return "flip-header", fmt.Sprintf("f%d:%d", offs[k]+3, mask)
	case 2:
		return "flip-body", fmt.Sprintf("f%d:%d", offs[k]+3+r.Intn(1+ps[k].ln), mask)
	case 3:
		return "flip-tag", fmt.Sprintf("f%d:%d", offs[k+1]-1-r.Intn(16), mask)
	case 4:
		return "truncate", fmt.Sprintf("t%d", r.Intn(total+1))
	case 5:
		return "drop-packet", fmt.Sprintf("d%d:%d", offs[k], ps[k].wireLen())
	case 6:
		return "dup-packet", fmt.Sprintf("u%d:%d", offs[k], ps[k].wireLen())
	case 7:
		if k+1 < len(ps) {
			return "swap-packets", fmt.Sprintf("x%d:%d:%d", offs[k], ps[k].wireLen(), ps[k+1].wireLen())
		}
		return "replay-first", fmt.Sprintf("i%d:%s", total, "00")
	case 8:
		return "drop-bytes", fmt.Sprintf("d%d:%d", r.Intn(total), 1+r.Intn(20))
	case 9:
		return "insert-bytes", fmt.Sprintf("i%d:%s", r.Intn(total+1), hx(r.Bytes(1+r.Intn(24))))
	case 10:
		return "two-flips", fmt.Sprintf("f%d:%d,f%d:%d", r.Intn(total), mask, r.Intn(total), 1+r.Intn(255))
	}
	return "flip-any", fmt.Sprintf("f%d:%d", r.Intn(total), mask)
}

func genPk(g *core.Gen) {
	r := g.R
	pkLine := func(sec []byte, magic string, ini int, ps []pkt, tam, recvs string) string {
		return fmt.Sprintf("C19 pk %s %s %d %s %s %s", hx(sec), magic, ini, joinPkts(ps), tam, recvs)
	}
	// in-order delivery across rekey boundaries
	for i := 0; i < g.N(24, 300); i++ {
		n := int(r.Pick(1, 5, 223, 224, 225, 230, 448, 449, 700, 900)) + r.Intn(3)
		ps := randPkts(r, n, g.N(20000, 200000), r.Chance(1, 3))
		kase(g, "pk-stream", true, pkLine(r.Bytes(32), pickMagic(r), r.Intn(2), ps, "-", recvPlan(ps, r.Intn(2))))
	}
	for i := 0; i < g.N(200, 3000); i++ {
		ps := randPkts(r, 1+r.Intn(6), 0, r.Chance(1, 2))
		kase(g, "pk-short", true, pkLine(r.Bytes(32), pickMagic(r), r.Intn(2), ps, "-", recvPlan(ps, r.Intn(2))))
	}
	// size sweep
	sizes := []int{0, 1, 2, 3, 4094, 4095, 4096, 65535, 65536, 65537, 100000}
	if g.Thorough() {
		sizes = append(sizes, 1<<20, 1<<22, 1<<24-2, 1<<24-1)
	}
	for _, sz := range sizes {
		ps := []pkt{{ln: sz, seed: r.Intn(256), ign: r.Bool()}, {ln: 5, seed: 1}}
		kase(g, "pk-size", true, pkLine(r.Bytes(32), pickMagic(r), r.Intn(2), ps, "-", recvPlan(ps, 0)))
	}
	// header bytes with other bits set: only bit 7 matters to the receiver
	for i := 0; i < g.N(60, 1000); i++ {
		ps := randPkts(r, 1+r.Intn(5), 0, r.Chance(1, 3))
		for j := range ps {
			if r.Chance(1, 2) {
				ps[j].raw = 256 + int(r.Pick(0, 1, 2, 3, 64, 127, 128, 129, 130, 192, 255, int64(r.Intn(256))))
				ps[j].ign = ps[j].raw-256 >= 128
			}
		}
		kase(g, "pk-raw-header", true, pkLine(r.Bytes(32), pickMagic(r), r.Intn(2), ps, "-", recvPlan(ps, r.Intn(2))))
	}
	// every value of the one-byte header (only bit 7 matters), at the first, a middle and the last
	// position of a short stream
	{
		sec, magic, ini := r.Bytes(32), pickMagic(r), r.Intn(2)
		for h := 0; h < 256; h++ {
			ps := randPkts(r, 3, 0, false)
			for j := range ps {
				ps[j].ln = r.Intn(6)
			}
			k := h % 3
			ps[k].raw, ps[k].ign = 256+h, h >= 128
			kase(g, "pk-header-sweep", true, pkLine(sec, magic, ini, ps, "-", recvPlan(ps, 0)))
		}
	}
	// wrong AAD on the first packet
	for i := 0; i < g.N(60, 1000); i++ {
		ps := randPkts(r, 1+r.Intn(4), 0, r.Bool())
		ps[0].ign = r.Chance(1, 3)
		rp := strings.Split(recvPlan(ps, 0), ";")
		if rp[0] == "-" {
			continue
		}
		rp[0] = fmt.Sprintf("%d:%d", int(r.Pick(0, 1, 16, int64(ps[0].aad))), r.Intn(256))
		kase(g, "pk-wrong-aad", true, pkLine(r.Bytes(32), pickMagic(r), r.Intn(2), ps, "-", strings.Join(rp, ";")))
	}
	// corruption campaign: every single-byte position of a 3-packet stream, then random ops
	for i := 0; i < g.N(2, 20); i++ {
		ps := randPkts(r, 3, 0, r.Bool())
		for j := range ps {
			ps[j].ln = r.Intn(12)
		}
		sec, magic, ini := r.Bytes(32), pickMagic(r), r.Intn(2)
		total := 0
		for _, p := range ps {
			total += p.wireLen()
		}
		for off := 0; off < total; off++ {
			kase(g, "pk-flip-every-byte", true, pkLine(sec, magic, ini, ps, fmt.Sprintf("f%d:%d", off, 1<<r.Intn(8)), recvPlan(ps, 0)))
		}
		for off := 0; off <= total; off++ {
			kase(g, "pk-truncate-every", true, pkLine(sec, magic, ini, ps, fmt.Sprintf("t%d", off), recvPlan(ps, 0)))
		}
	}
	for i := 0; i < g.N(800, 20000); i++ {
		n := 1 + r.Intn(6)
		if r.Chance(1, 30) {
			n = 222 + r.Intn(6) // tampering around a rekey boundary
		}
		ps := randPkts(r, n, 0, r.Chance(1, 3))
		if n > 50 {
			for j := range ps {
				ps[j].ln = r.Intn(8)
			}
		}
		cls, op := tamperOp(r, ps)
		kase(g, "pk-"+cls, true, pkLine(r.Bytes(32), pickMagic(r), r.Intn(2), ps, op, recvPlan(ps, r.Intn(2))))
	}
}

// ---------------------------------------------------------------- endpoints (real handshake, scripted input)

type epCfg struct {
	flags       string // optional "+flags" of the role token
	role, magic string
	pre, seed   []byte
	gLen        int
	decoys      []string
}

func joinOr(ss []string, sep string) string {
	if len(ss) == 0 {
		return "-"
	}
	return strings.Join(ss, sep)
}

func (c epCfg) roleTok() string {
	if c.flags != "" {
		return c.role + "+" + c.flags
	}
	return c.role
}

func (c epCfg) flag(f string) epCfg { c.flags = f; return c }

// line emits the case. The endpoint is run once here (handshake only) to read back the choices
// BIP324 leaves to the sender: its private key / ElligatorSwift encoding, the garbage bytes and
// the decoy contents; they go on the line as <priv> <handshake bytes written>.
func (c epCfg) line(inp []byte, acts []string) string {
	func() {
		defer func() { recover() }()
		runEp(c.roleTok(), c.magic, c.pre, c.seed, c.gLen, c.decoys, inp, nil)
	}()
	return fmt.Sprintf("C19 ep %s %s %s %s %d %s %s %s %s %s", c.roleTok(), c.magic, hx(c.pre), hx(c.seed), c.gLen,
		joinOr(c.decoys, ","), hx(inp), joinOr(acts, ";"), hx(lastPriv), hx(lastHs))
}

// written runs the real endpoint to record what it writes. A panic of the code
// under test must not kill the generator: the case is still emitted (with
// whatever was recorded) and Exec will report the panic against the model.
func (c epCfg) written(inp []byte, acts []string) (w []byte) {
	return unhx(guarded("-", func() string {
		_, w := runEp(c.roleTok(), c.magic, c.pre, c.seed, c.gLen, c.decoys, inp, acts)
		return hx(w)
	}))
}

func (c epCfg) decoyWire() int {
	n := 0
	for _, d := range c.decoys {
		n += 3 + 1 + atoi(d) + 16
	}
	return n + 20 // + version packet
}

func randEp(r *core.Rand, role, magic string) epCfg {
	c := epCfg{role: role, magic: magic, seed: r.Bytes(16)}
	switch r.Intn(6) {
	case 0:
		c.gLen = int(r.Pick(0, 1, 4094, 4095))
	case 1:
		c.gLen = r.Intn(4096)
	default:
		c.gLen = r.Intn(64)
	}
	for i := r.Intn(4) - 1; i > 0; i-- {
		c.decoys = append(c.decoys, fmt.Sprint(int(r.Pick(0, 1, 8, 100, int64(r.Intn(600))))))
	}
	return c
}

func sendActs(ps []pkt) []string {
	var a []string
	for _, p := range ps {
		ig := 0
		if p.ign {
			ig = 1
		}
		a = append(a, fmt.Sprintf("s:%d:%d:%d:%d", p.ln, p.seed, ig, p.aad))
	}
	return a
}

func recvActs(ps []pkt, extra int) []string {
	var a []string
	for _, p := range ps {
		if !p.ign {
			a = append(a, "r:0:0")
		}
	}
	for i := 0; i < extra; i++ {
		a = append(a, "r:0:0")
	}
	return a
}

// loopback runs two real peers against each other (each endpoint's output is
// a function of its random stream and of what it has read, so the exchange
// can be replayed one endpoint at a time) and returns both complete streams.
func loopback(a, b epCfg, pa, pb []pkt) (wa, wb []byte) {
	wa1 := a.written(nil, nil)         // ellswift + garbage of the initiator
	wbhs := b.written(wa1, nil)        // responder: key, garbage, terminator, decoys, version
	wa = a.written(wbhs, sendActs(pa)) // initiator completes, sends its packets
	wb = b.written(wa, sendActs(pb))   // responder completes, sends its packets
	return wa, wb
}

func genEp(g *core.Gen) {
	r := g.R
	type sess struct {
		a, b   epCfg
		pa, pb []pkt
		wa, wb []byte
	}
	mk := func(ga, gb int, np int, big int) sess {
		magic := pickMagic(r)
		s := sess{a: randEp(r, "i", magic), b: randEp(r, "r", magic)}
		if ga >= 0 {
			s.a.gLen = ga
		}
		if gb >= 0 {
			s.b.gLen = gb
		}
		s.pa, s.pb = randPkts(r, np, big, false), randPkts(r, np+r.Intn(3), big, false)
		s.wa, s.wb = loopback(s.a, s.b, s.pa, s.pb)
		return s
	}
	// a request above the content limit is refused and must not disturb the stream
	oversize := func(acts []string) []string {
		if len(acts) == 0 || !r.Chance(1, 3) {
			return acts
		}
		k := r.Intn(len(acts) + 1)
		big := fmt.Sprintf("s:%d:%d:%d:0", 1<<24+r.Intn(2), r.Intn(256), r.Intn(2))
		return append(append(append([]string(nil), acts[:k]...), big), acts[k:]...)
	}
	_ = oversize
	emit := func(cls string, s sess) {
		kase(g, cls+"-initiator", true, s.a.line(s.wb, append(oversize(sendActs(s.pa)), recvActs(s.pb, r.Intn(2))...)))
		kase(g, cls+"-responder", true, s.b.line(s.wa, append(oversize(sendActs(s.pb)), recvActs(s.pa, r.Intn(2))...)))
	}
	// garbage-length grid {0,1,4094,4095} x {0,1,4094,4095}
	grid := []int{0, 1, 4094, 4095}
	for _, ga := range grid {
		for _, gb := range grid {
			if g.Thorough() || ga == gb || ga == 4095 || gb == 4095 || r.Chance(1, 3) {
				emit("ep-garbage-grid", mk(ga, gb, r.Intn(4), 0))
			}
		}
	}
	for i := 0; i < g.N(8, 150); i++ {
		emit("ep-valid", mk(-1, -1, r.Intn(8), g.N(3000, 100000)))
	}
	// every option a caller can pass: responder admission (rejecting the first / second CPU phase,
	// admitting, admitting with a nil release), an installed logger, a different network argument
	// in the second call (configuration changes between the two handshake calls)
	for i := 0; i < g.N(2, 40); i++ {
		s := mk(-1, -1, r.Intn(3), 0)
		actsA := append(sendActs(s.pa), recvActs(s.pb, 0)...)
		actsB := append(sendActs(s.pb), recvActs(s.pa, 0)...)
		for _, a := range []string{"A1", "A2", "A3", "A4"} {
			kase(g, "ep-admission-responder", true, s.b.flag(a).line(s.wa, actsB))
		}
		kase(g, "ep-admission-initiator", true, s.a.flag("A"+fmt.Sprint(1+r.Intn(4))).line(s.wb, actsA))
		kase(g, "ep-logger", true, s.a.flag("L").line(s.wb, actsA))
		kase(g, "ep-logger", true, s.b.flag("L,A4").line(s.wa, actsB))
		other := pickMagic(r)
		kase(g, "ep-net-changes-between-calls", true, s.a.flag("N"+other).line(s.wb, actsA))
		kase(g, "ep-net-changes-between-calls", true, s.b.flag("N"+other).line(s.wa, actsB))
		// admission on the paths that stop early
		c := randEp(r, "r", s.a.magic)
		v1 := append(unhx(fmt.Sprintf("%08s", c.magic)), []byte("version\x00\x00\x00\x00\x00")...)
		v1[0], v1[1], v1[2], v1[3] = v1[3], v1[2], v1[1], v1[0]
		kase(g, "ep-admission-v1", true, c.flag("A"+fmt.Sprint(1+r.Intn(4))).line(append(v1, r.Bytes(30)...), nil))
		kase(g, "ep-admission-short", true, c.flag("A"+fmt.Sprint(2+r.Intn(3))).line(take(s.wa, 20+r.Intn(40)), nil))
		c.gLen = 4096
		kase(g, "ep-admission-garbage-too-large", true, c.flag("A4").line(s.wa, nil))
	}
	// a fragmenting network: the connection delivers 1, 2 or 7 bytes per Read during the whole session
	for i := 0; i < g.N(2, 30); i++ {
		s := mk(int(r.Pick(-1, 0, 4095)), int(r.Pick(-1, 0, 4095)), 1+r.Intn(3), 0)
		actsA := append(sendActs(s.pa), recvActs(s.pb, 1)...)
		actsB := append(sendActs(s.pb), recvActs(s.pa, 1)...)
		for _, c := range []string{"R1", "R2", "R7"} {
			kase(g, "ep-fragmented-reads", true, s.a.flag(c).line(s.wb, actsA))
			kase(g, "ep-fragmented-reads", true, s.b.flag(c).line(s.wa, actsB))
		}
	}
	// rare shapes of the garbage: it contains false starts of the peer's own terminator (its first
	// 15 bytes, repeated; the terminator shifted by one) or even the complete terminator. The
	// garbage does not influence the keys, so the terminator learnt from a first exchange is still
	// the peer's terminator when the exchange is repeated with the crafted garbage.
	for i := 0; i < g.N(3, 40); i++ {
		gB := 40 + r.Intn(60)
		s0 := mk(-1, gB, 1+r.Intn(2), 0)
		if len(s0.wb) < 64+gB+16 {
			continue
		}
		term := s0.wb[64+gB : 64+gB+16]
		for v := 0; v < 3; v++ {
			garb := r.Bytes(gB)
			cls := "ep-garbage-false-starts"
			switch v {
			case 0: // first 15 bytes of the terminator, back to back, up to the very end of the garbage
				for k := 0; k+15 <= gB; k += 15 {
					copy(garb[k:], term[:15])
				}
				copy(garb[gB-15:], term[:15])
			case 1: // the terminator shifted by one byte at the end of the garbage (overlapping match)
				copy(garb[gB-17:], term[1:])
				garb[gB-1] = term[0]
			case 2: // the complete terminator inside the garbage: the scan legitimately stops there
				copy(garb[r.Intn(gB-16):], term)
				cls = "ep-garbage-contains-terminator"
			}
			s := s0
			s.b = s0.b.flag("G" + hx(garb))
			s.wa, s.wb = loopback(s.a, s.b, s.pa, s.pb)
			kase(g, cls, true, s.a.line(s.wb, append(sendActs(s.pa), recvActs(s.pb, 0)...)))
			kase(g, cls, true, s.b.line(s.wa, append(sendActs(s.pb), recvActs(s.pa, 0)...)))
		}
	}
	// long sessions: >= 700 packets each way (3 rekeys)
	for i := 0; i < g.N(1, 8); i++ {
		emit("ep-long", mk(-1, -1, 700+r.Intn(30), 2000))
	}
	// local garbage too large
	for _, gl := range []int{4096, 5000} {
		c := randEp(r, "i", pickMagic(r))
		c.gLen = gl
		kase(g, "ep-garbage-too-large", true, c.line(r.Bytes(200), nil))
		c.role = "r"
		kase(g, "ep-garbage-too-large", true, c.line(r.Bytes(200), nil))
	}
	// short / empty inputs
	for i := 0; i < g.N(8, 100); i++ {
		c := randEp(r, []string{"i", "r"}[r.Intn(2)], pickMagic(r))
		n := int(r.Pick(0, 1, 15, 16, 17, 63, 64, 65, 79, 80, 81))
		kase(g, "ep-short-input", true, c.line(r.Bytes(n), nil))
	}
	// v1 detection on the responder
	for i := 0; i < g.N(24, 300); i++ {
		c := randEp(r, "r", pickMagic(r))
		v1 := append(unhx(fmt.Sprintf("%08s", c.magic)), []byte("version\x00\x00\x00\x00\x00")...)
		// magic is little-endian on the wire
		v1[0], v1[1], v1[2], v1[3] = v1[3], v1[2], v1[1], v1[0]
		inp := append(append([]byte(nil), v1...), r.Bytes(int(r.Pick(0, 8, 48, 100)))...)
		cls := "ep-v1-full-prefix"
		switch r.Intn(5) {
		case 0: // k matching bytes, then a mismatch
			k := r.Intn(16)
			inp[k] ^= byte(1 + r.Intn(255))
			cls = "ep-v1-partial-prefix"
		case 1: // other network's v1 version message
			inp[r.Intn(4)] ^= byte(1 + r.Intn(255))
			cls = "ep-v1-wrong-net"
		case 2: // input ends inside the prefix
			inp = inp[:r.Intn(16)]
			cls = "ep-v1-short"
		}
		kase(g, cls, true, c.line(inp, nil))
	}
	// every position of the first mismatch with the v1 prefix (0..15), valid v2 traffic otherwise:
	// the responder must treat the stream as v2 and complete the handshake
	for k := 0; k < 16; k++ {
		c := randEp(r, "r", pickMagic(r))
		v1 := append(unhx(fmt.Sprintf("%08s", c.magic)), []byte("version\x00\x00\x00\x00\x00")...)
		v1[0], v1[1], v1[2], v1[3] = v1[3], v1[2], v1[1], v1[0]
		inp := append(append([]byte(nil), v1...), r.Bytes(48+r.Intn(40))...)
		inp[k] ^= byte(1 + r.Intn(255))
		kase(g, "ep-v1-mismatch-at-k", true, c.line(inp, nil))
	}
	// tampering with the handshake part of the input stream
	for i := 0; i < g.N(5, 60); i++ {
		s := mk(int(r.Pick(-1, 0, 3, 4095)), int(r.Pick(-1, 0, 3, 4095)), 1+r.Intn(3), 0)
		for side := 0; side < 2; side++ {
			me, peer, inp, mine, theirs := s.a, s.b, s.wb, s.pa, s.pb
			if side == 1 {
				me, peer, inp, mine, theirs = s.b, s.a, s.wa, s.pb, s.pa
			}
			acts := append(sendActs(mine), recvActs(theirs, 0)...)
			g0, t0 := 64, 64+peer.gLen
			p0 := t0 + 16
			hsEnd := p0 + peer.decoyWire()
			var ops [][2]string
			add := func(cls, op string) { ops = append(ops, [2]string{cls, op}) }
			add("flip-ellswift", fmt.Sprintf("f%d:%d", r.Intn(64), 1<<r.Intn(8)))
			if peer.gLen > 0 {
				add("flip-garbage(wrong-aad)", fmt.Sprintf("f%d:%d", g0+r.Intn(peer.gLen), 1+r.Intn(255)))
				add("drop-garbage-byte", fmt.Sprintf("d%d:1", g0+r.Intn(peer.gLen)))
			}
			add("insert-garbage-byte", fmt.Sprintf("i%d:%s", g0+r.Intn(peer.gLen+1), hx(r.Bytes(1))))
			add("flip-terminator", fmt.Sprintf("f%d:%d", t0+r.Intn(16), 1<<r.Intn(8)))
			add("flip-first-packet", fmt.Sprintf("f%d:%d", p0+r.Intn(hsEnd-p0), 1<<r.Intn(8)))
			add("truncate-handshake", fmt.Sprintf("t%d", int(r.Pick(int64(g0), int64(t0), int64(t0+15), int64(p0), int64(p0+3), int64(hsEnd-1), int64(r.Intn(hsEnd))))))
			add("drop-terminator", fmt.Sprintf("d%d:16", t0))
			add("dup-terminator", fmt.Sprintf("u%d:16", t0))
			add("drop-version-packet", fmt.Sprintf("d%d:20", hsEnd-20))
			if len(theirs) > 0 && len(inp) > hsEnd {
				add("flip-later-packet", fmt.Sprintf("f%d:%d", hsEnd+r.Intn(len(inp)-hsEnd), 1<<r.Intn(8)))
				add("dup-version-packet(replay)", fmt.Sprintf("u%d:20", hsEnd-20))
				add("truncate-later", fmt.Sprintf("t%d", hsEnd+r.Intn(len(inp)-hsEnd)))
			}
			k := g.N(4, len(ops))
			for j := 0; j < k && len(ops) > 0; j++ {
				x := r.Intn(len(ops))
				kase(g, "ep-"+ops[x][0], true, me.line(tamper(inp, ops[x][1]), acts))
				ops = append(ops[:x], ops[x+1:]...)
			}
		}
	}
	// every single-byte flip in a window around the garbage terminator and first packets
	{
		s := mk(5, 3, 1, 0)
		acts := append(sendActs(s.pa), recvActs(s.pb, 0)...)
		lo, hi := 64, 64+3+16+20+8
		if !g.Thorough() {
			lo, hi = 64+3-2, 64+3+16+6
		}
		for off := lo; off < hi; off++ {
			kase(g, "ep-flip-window", true, s.a.line(tamper(s.wb, fmt.Sprintf("f%d:%d", off, 1<<r.Intn(8))), acts))
		}
	}
}

// kase records a case; with VERIF_C19_DUMP=<file> the generated lines are also
// written there as "class<TAB>line" (debugging / corpus extraction).
func kase(g *core.Gen, class string, nontrivial bool, line string) {
	if f := os.Getenv("VERIF_C19_DUMP"); f != "" {
		if fh, err := os.OpenFile(f, os.O_APPEND|os.O_CREATE|os.O_WRONLY, 0o644); err == nil {
			fmt.Fprintf(fh, "%s\t%s\n", class, line)
			fh.Close()
		}
	}
	g.Case(class, nontrivial, line)
}

// ---------------------------------------------------------------- concurrent schedules (exploration)

// genConc: K independent cipher pairs / sessions run CONCURRENTLY in
// goroutines, each in a different rekey epoch, crossing many rekey boundaries
// at the same time. Every session is deterministic on its own, so the Lean
// reference (computed sequentially) must be reproduced under every
// interleaving: cipher instances must not share mutable state.
func genConc(g *core.Gen) {
	r := g.R
	for i := 0; i < g.N(2, 12); i++ {
		k := 8 + r.Intn(5)
		var ss []string
		for j := 0; j < k; j++ {
			epoch := j<<20 + r.Intn(1000)
			switch j {
			case 0:
				epoch = r.Intn(3)
			case 1: // crosses 2^32 during the run (upper half of the LE64 rekey counter)
				epoch = 1<<32 - 600 + r.Intn(100)
			case 2:
				epoch = 1<<40 + r.Intn(1000)
			}
			ss = append(ss, fmt.Sprintf("%s:%d:%d:%d", hx(r.Bytes(32)), epoch, g.N(1200, 6000), r.Intn(256)))
		}
		kase(g, "conc-skip", true, "C19 conc skip "+strings.Join(ss, ";"))
	}
	for i := 0; i < g.N(1, 4); i++ {
		var ss []string
		for j := 0; j < 8; j++ {
			sec := hx(r.Bytes(32))
			for d := 0; d < 2; d++ { // both directions of one connection
				warm := ((2*j+d)%4)*224 + r.Intn(10)
				ss = append(ss, fmt.Sprintf("%s:%d:%d:%d:%d", sec, d, warm, 224*3+r.Intn(5), r.Intn(256)))
			}
		}
		kase(g, "conc-peer", true, "C19 conc peer "+strings.Join(ss, ";"))
	}
}

// genPeer: peer/peer.go on top of the transport - v2<->v2, v1 initiator against a v2-capable
// responder (v1 detection + ReceivedPrefix hand-over), v2 initiator against a v1-only responder
// (downgrade signalling), v1<->v1, wrong network.
func genPeer(g *core.Gen) {
	r := g.R
	nets := []string{"main", "test3", "reg", "sim"}
	combos := [][3]int{{1, 1, 1}, {0, 1, 1}, {1, 0, 1}, {0, 0, 1}, {0, 1, 0}, {1, 0, 0}}
	for rep := 0; rep < g.N(1, 6); rep++ {
		for _, c := range combos {
			on := nets[r.Intn(len(nets))]
			in := on
			if c[2] == 0 {
				for in == on {
					in = nets[r.Intn(len(nets))]
				}
			}
			kase(g, fmt.Sprintf("peer-out%d-in%d-samenet%d", c[0], c[1], c[2]), true,
				fmt.Sprintf("C19 peerhs %d %d %s %s %d", c[0], c[1], on, in, 1+r.Intn(2)))
		}
	}
}

// genLoop: whole sessions at property level (see execLoop).
func genLoop(g *core.Gen) {
	r := g.R
	for i := 0; i < g.N(6, 200); i++ {
		gl := func() int {
			if r.Chance(1, 3) {
				return int(r.Pick(0, 1, 4094, 4095))
			}
			return r.Intn(4096)
		}
		dec := func() string {
			var d []string
			for j := r.Intn(4); j > 0; j-- {
				d = append(d, fmt.Sprint(r.Pick(0, 1, 16, int64(r.Intn(300)))))
			}
			return joinOr(d, ",")
		}
		pk := func() string {
			var p []string
			for j := r.Intn(7); j > 0; j-- {
				p = append(p, fmt.Sprintf("%d:%d:%d", randLen(r, 0), r.Intn(256), r.Intn(5)/4))
			}
			return joinOr(p, ";")
		}
		kase(g, "loop", true, fmt.Sprintf("C19 loop %s %s %s %d %d %s %s %s %s", pickMagic(r), hx(r.Bytes(16)), hx(r.Bytes(16)),
			gl(), gl(), dec(), dec(), pk(), pk()))
	}
}

// guarded runs real code on behalf of the GENERATOR: a panic or a hang of the (possibly mutated)
// code under test must not take the generator down; the fallback value is used instead and the
// emitted case will show the problem when it is executed against the reference.
func guarded(fallback string, f func() string) (out string) {
	done := make(chan string, 1)
	go func() {
		defer func() {
			if r := recover(); r != nil {
				done <- fallback
			}
		}()
		done <- f()
	}()
	select {
	case out = <-done:
		return out
	case <-time.After(20 * time.Second):
		return fallback
	}
}
