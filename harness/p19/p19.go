// Package p19: correspondence for C19 (BIP324 v2 transport).
package p19

import (
	"crypto/sha256"
	"encoding/hex"
	"fmt"
	"strconv"
	"strings"

	"github.com/btcsuite/btcd/v2transport"
	"verifharness/core"
)

type P struct{}

func (P) ID() string { return "C19" }

// ---------------------------------------------------------------- facts (T2)

func (P) Facts() []core.Fact {
	var fs []core.Fact
	for k, v := range v2transport.VerifConstsC19() {
		fs = append(fs, core.Fact{Name: k, Value: v})
	}
	return fs
}

// ---------------------------------------------------------------- helpers

func hx(b []byte) string {
	if len(b) == 0 {
		return "-"
	}
	return hex.EncodeToString(b)
}

func unhx(s string) []byte {
	if s == "-" {
		return nil
	}
	b, err := hex.DecodeString(s)
	if err != nil {
		panic("bad hex")
	}
	return b
}

func atoi(s string) int {
	v, err := strconv.Atoi(s)
	if err != nil {
		panic(err)
	}
	return v
}

// fill is the deterministic filler shared with the Lean driver.
func fill(seed, n int) []byte {
	b := make([]byte, n)
	for i := range b {
		b[i] = byte((seed + 131*i + 7*(i/256)) % 256)
	}
	return b
}

func digest(b []byte) string {
	h := sha256.Sum256(b)
	return fmt.Sprintf("%d:%x", len(b), h[:])
}

func splitList(s, sep string) []string {
	if s == "-" {
		return nil
	}
	return strings.Split(s, sep)
}

// ---------------------------------------------------------------- exec (real code)

func (P) Exec(line string) string {
	f := strings.Fields(line)
	if len(f) < 2 || f[0] != "C19" {
		return "bad-op"
	}
	switch f[1] {
	case "fsc":
		return execFsc(unhx(f[2]), splitList(f[3], ","))
	case "fsp":
		return execFsp(unhx(f[2]), splitList(f[3], ","))
	}
	return "bad-op"
}

func execFsc(key []byte, chunks []string) string {
	c, err := v2transport.NewFSChaCha20(append([]byte(nil), key...))
	if err != nil {
		return "bad-op"
	}
	var out []byte
	for _, ch := range chunks {
		p := strings.Split(ch, ":")
		o, err := c.Crypt(fill(atoi(p[1]), atoi(p[0])))
		if err != nil {
			return "err"
		}
		out = append(out, o...)
	}
	return digest(out) + " " + hx(fscKey(c))
}

func execFsp(key []byte, msgs []string) string {
	s, err := v2transport.NewFSChaCha20Poly1305(append([]byte(nil), key...))
	if err != nil {
		return "bad-op"
	}
	r, _ := v2transport.NewFSChaCha20Poly1305(append([]byte(nil), key...))
	var out []byte
	for _, m := range msgs {
		p := strings.Split(m, ":")
		ln, seed, aadLen := atoi(p[0]), atoi(p[1]), atoi(p[2])
		aad := fill(seed+1, aadLen)
		o, err := s.Encrypt(aad, fill(seed, ln))
		if err != nil {
			return "err"
		}
		pt, err := r.Decrypt(aad, o)
		if err != nil || string(pt) != string(fill(seed, ln)) {
			return "bad-op"
		}
		out = append(out, o...)
	}
	return digest(out) + " " + hx(fspKey(s))
}

// ---------------------------------------------------------------- generate

func (P) Generate(g *core.Gen) {
	genCiphers(g)
}

func genCiphers(g *core.Gen) {
	r := g.R
	for i := 0; i < g.N(40, 400); i++ {
		n := int(r.Pick(0, 1, 223, 224, 225, 447, 448, 449, 700)) + r.Intn(3)
		var cs []string
		for j := 0; j < n; j++ {
			ln := 3
			if r.Chance(1, 4) {
				ln = int(r.Pick(0, 1, 2, 4, 61, 63, 64, 65, 127, 128, 129, 300))
			}
			cs = append(cs, fmt.Sprintf("%d:%d", ln, r.Intn(256)))
		}
		line := "C19 fsc " + hx(r.Bytes(32)) + " " + strings.Join(cs, ",")
		if n == 0 {
			line = "C19 fsc " + hx(r.Bytes(32)) + " -"
		}
		g.Case("fsc", n > 0, line)
	}
	for i := 0; i < g.N(40, 400); i++ {
		n := int(r.Pick(1, 2, 223, 224, 225, 447, 448, 449, 700)) + r.Intn(3)
		var cs []string
		for j := 0; j < n; j++ {
			ln := r.Intn(40)
			if r.Chance(1, 8) {
				ln = int(r.Pick(0, 1, 15, 16, 17, 31, 32, 33, 63, 64, 65, 127, 128, 129, 255, 256, 257, 1000))
			}
			aad := 0
			if r.Chance(1, 6) {
				aad = int(r.Pick(1, 15, 16, 17, 100))
			}
			cs = append(cs, fmt.Sprintf("%d:%d:%d", ln, r.Intn(256), aad))
		}
		g.Case("fsp", true, "C19 fsp "+hx(r.Bytes(32))+" "+strings.Join(cs, ","))
	}
}

func fscKey(c *v2transport.FSChaCha20) []byte         { return c.VerifKey() }
func fspKey(c *v2transport.FSChaCha20Poly1305) []byte { return c.VerifKey() }
