// Package p19: correspondence for C19 (BIP324 v2 transport).
package p19

import (
	"bytes"
	"crypto/rand"
	"crypto/sha256"
	"encoding/binary"
	"encoding/hex"
	"errors"
	"fmt"
	"io"
	"math/big"
	"strconv"
	"strings"
	"sync"
	"time"

	"github.com/btcsuite/btcd/btcec/v2"
	"github.com/btcsuite/btcd/btcec/v2/ellswift"
	"github.com/btcsuite/btcd/v2transport"
	"github.com/btcsuite/btclog"
	"verifharness/core"
)

type P struct{}

func (P) ID() string { return "C19" }

// ---------------------------------------------------------------- facts (T2)

func (P) Facts() []core.Fact {
	var fs []core.Fact
	for k, v := range v2transport.VerifConstsC19() {
		fs = append(fs, core.Fact{Name: k, Value: v})
	}
	var v1 []int64
	for _, b := range v2transport.VerifV1Prefix(0xd9b4bef9) {
		v1 = append(v1, int64(b))
	}
	fs = append(fs, core.Fact{Name: "v1PrefixMainnet", Value: v1})
	return fs
}

// ---------------------------------------------------------------- helpers

func hx(b []byte) string {
	if len(b) == 0 {
		return "-"
	}
	return hex.EncodeToString(b)
}

func unhx(s string) []byte {
	if s == "-" {
		return nil
	}
	b, err := hex.DecodeString(s)
	if err != nil {
		panic("bad hex")
	}
	return b
}

func atoi(s string) int {
	v, err := strconv.Atoi(s)
	if err != nil {
		panic(err)
	}
	return v
}

// fill is the deterministic filler shared with the Lean driver.
func fill(seed, n int) []byte {
	b := make([]byte, n)
	for i := range b {
		b[i] = byte((seed + 131*i + 7*(i/256)) % 256)
	}
	return b
}

func digest(b []byte) string {
	h := sha256.Sum256(b)
	return fmt.Sprintf("%d:%x", len(b), h[:])
}

func splitList(s, sep string) []string {
	if s == "-" {
		return nil
	}
	return strings.Split(s, sep)
}

// ---------------------------------------------------------------- exec (real code)

// Exec runs one case under a watchdog: real code that blocks or loops (on a mutated tree) must not
// hang the run; the case then answers "timeout" (a mismatch with the reference).
func (p P) Exec(line string) string {
	done := make(chan string, 1)
	go func() {
		defer func() {
			if r := recover(); r != nil {
				done <- "panic"
			}
		}()
		done <- p.exec(line)
	}()
	select {
	case out := <-done:
		return out
	case <-time.After(120 * time.Second):
		return "timeout"
	}
}

func (P) exec(line string) string {
	f := strings.Fields(line)
	if len(f) < 2 || f[0] != "C19" {
		return "bad-op"
	}
	switch f[1] {
	case "fsc":
		return execFsc(unhx(f[2]), splitList(f[3], ","))
	case "fsp":
		return execFsp(unhx(f[2]), splitList(f[3], ","))
	case "xswift":
		return execXSwift(f[2], f[3])
	case "xswiftinv":
		return execXSwiftInv(f[2], f[3], atoi(f[4]))
	case "ecdh":
		return execEcdh(f[2], unhx(f[3]), unhx(f[4]), f[5] == "1")
	case "create":
		return execCreate(unhx(f[2]), unhx(f[3]))
	case "sched":
		return execSched(unhx(f[2]), f[3], f[4] == "1")
	case "vec":
		return execVec(unhx(f[2]), f[3], f[4] == "1", atoi(f[5]), unhx(f[6]), atoi(f[7]), unhx(f[8]), f[9] == "1")
	case "loop":
		return execLoop(f[2], unhx(f[3]), unhx(f[4]), atoi(f[5]), atoi(f[6]), splitList(f[7], ","), splitList(f[8], ","),
			splitList(f[9], ";"), splitList(f[10], ";"))
	case "peerhs":
		return execPeerhs(f[2] == "1", f[3] == "1", f[4], f[5], atoi(f[6]))
	case "rwio":
		return execRwio(atoi(f[2]), unhx(f[3]), splitList(f[4], ","), splitList(f[5], ","))
	case "xell":
		return execXell(f[2], unhx(f[3]), unhx(f[4]))
	case "conc":
		return execConc(f[2], strings.Split(f[3], ";"))
	case "pk":
		return execPk(unhx(f[2]), f[3], f[4] == "1", splitList(f[5], ";"), f[6], splitList(f[7], ";"))
	case "ep":
		return execEp(f[2], f[3], unhx(f[4]), unhx(f[5]), atoi(f[6]), splitList(f[7], ","), unhx(f[8]), splitList(f[9], ";"))
	}
	return "bad-op"
}

func execFsc(key []byte, chunks []string) string {
	// inputs are values: ONE key slice is handed to three cipher instances and must be unchanged
	key0 := append([]byte(nil), key...)
	c, err := v2transport.NewFSChaCha20(key)
	if err != nil {
		return "bad-op"
	}
	c2, _ := v2transport.NewFSChaCha20(key)
	c3, _ := v2transport.NewFSChaCha20(key)
	var out []byte
	for _, ch := range chunks {
		p := strings.Split(ch, ":")
		in := fill(atoi(p[1]), atoi(p[0]))
		in0 := append([]byte(nil), in...)
		o, err := c.Crypt(in)
		if err != nil {
			return "err"
		}
		// the second instance decrypts, the third re-encrypts: all from the same key slice
		d, _ := c2.Crypt(o)
		o3, _ := c3.Crypt(in)
		if !bytes.Equal(d, in0) || !bytes.Equal(o3, o) || !bytes.Equal(in, in0) {
			return "instances-disagree-or-input-changed"
		}
		out = append(out, o...)
	}
	if !bytes.Equal(key, key0) {
		return "key-slice-changed"
	}
	return digest(out) + " " + hx(fscKey(c))
}

func execFsp(key []byte, msgs []string) string {
	key0 := append([]byte(nil), key...)
	s, err := v2transport.NewFSChaCha20Poly1305(key)
	if err != nil {
		return "bad-op"
	}
	r, _ := v2transport.NewFSChaCha20Poly1305(key)
	var out []byte
	defer func() { _ = key0 }()
	for _, m := range msgs {
		p := strings.Split(m, ":")
		ln, seed, aadLen := atoi(p[0]), atoi(p[1]), atoi(p[2])
		aad := fill(seed+1, aadLen)
		o, err := s.Encrypt(aad, fill(seed, ln))
		if err != nil {
			return "err"
		}
		// a corrupted copy must be rejected and must leave the receiver usable
		bad := append([]byte(nil), o...)
		bad[(seed+ln)%len(bad)] ^= byte(1 + seed%255)
		if _, err := r.Decrypt(aad, bad); err == nil {
			return "accepted-corrupted"
		}
		pt, err := r.Decrypt(aad, o)
		if err != nil || string(pt) != string(fill(seed, ln)) {
			return "bad-op"
		}
		out = append(out, o...)
	}
	if !bytes.Equal(key, key0) {
		return "key-slice-changed"
	}
	return digest(out) + " " + hx(fspKey(s))
}

// ---------------------------------------------------------------- generate

func genCiphers(g *core.Gen) {
	r := g.R
	for i := 0; i < g.N(40, 400); i++ {
		n := int(r.Pick(0, 1, 223, 224, 225, 447, 448, 449, 700)) + r.Intn(3)
		var cs []string
		for j := 0; j < n; j++ {
			ln := 3
			if r.Chance(1, 4) {
				ln = int(r.Pick(0, 1, 2, 4, 61, 63, 64, 65, 127, 128, 129, 300))
			}
			cs = append(cs, fmt.Sprintf("%d:%d", ln, r.Intn(256)))
		}
		line := "C19 fsc " + hx(r.Bytes(32)) + " " + strings.Join(cs, ",")
		if n == 0 {
			line = "C19 fsc " + hx(r.Bytes(32)) + " -"
		}
		kase(g, "fsc", n > 0, line)
	}
	for i := 0; i < g.N(16, 400); i++ {
		n := int(r.Pick(1, 2, 223, 224, 225, 447, 448, 449, 700)) + r.Intn(3)
		var cs []string
		for j := 0; j < n; j++ {
			ln := r.Intn(40)
			if r.Chance(1, 8) {
				ln = int(r.Pick(0, 1, 15, 16, 17, 31, 32, 33, 63, 64, 65, 127, 128, 129, 255, 256, 257, 1000))
			}
			aad := 0
			if r.Chance(1, 6) {
				aad = int(r.Pick(1, 15, 16, 17, 100))
			}
			cs = append(cs, fmt.Sprintf("%d:%d:%d", ln, r.Intn(256), aad))
		}
		kase(g, "fsp", true, "C19 fsp "+hx(r.Bytes(32))+" "+strings.Join(cs, ","))
	}
}

func fscKey(c *v2transport.FSChaCha20) []byte         { return c.VerifKey() }
func fspKey(c *v2transport.FSChaCha20Poly1305) []byte { return c.VerifKey() }

// ---------------------------------------------------------------- ellswift

var fieldP, _ = new(big.Int).SetString("fffffffffffffffffffffffffffffffffffffffffffffffffffffffefffffc2f", 16)

// fieldVal parses big-endian hex (any size) and reduces it mod p, as
// EllswiftECDHXOnly does for the two halves of an encoding.
func fieldVal(h string) *btcec.FieldVal {
	n, ok := new(big.Int).SetString(h, 16)
	if !ok {
		panic("bad hex")
	}
	n.Mod(n, fieldP)
	var b [32]byte
	n.FillBytes(b[:])
	var fv btcec.FieldVal
	fv.SetBytes(&b)
	return &fv
}

func fvHex(fv *btcec.FieldVal) string {
	b := new(btcec.FieldVal).Set(fv).Normalize().Bytes()
	return hex.EncodeToString(b[:])
}

func execXSwift(u, t string) string {
	x, err := ellswift.XSwiftEC(fieldVal(u), fieldVal(t))
	if err != nil {
		return "err"
	}
	return fvHex(x)
}

func execXSwiftInv(u, x string, c int) string {
	t := ellswift.XSwiftECInv(fieldVal(u), fieldVal(x), c)
	if t == nil {
		return "none"
	}
	return fvHex(t)
}

func privFromHex(h string) *btcec.PrivateKey {
	n, ok := new(big.Int).SetString(h, 16)
	if !ok {
		panic("bad hex")
	}
	var b [32]byte
	n.FillBytes(b[:])
	k, _ := btcec.PrivKeyFromBytes(b[:])
	return k
}

func execEcdh(priv string, ellT, ellO []byte, ini bool) string {
	var t, o [64]byte
	copy(t[:], ellT)
	copy(o[:], ellO)
	k := privFromHex(priv)
	x, err := ellswift.EllswiftECDHXOnly(t, k)
	xs := "none"
	if err == nil {
		xs = hx(x[:])
	}
	sec, err := ellswift.V2Ecdh(k, t, o, ini)
	ss := "none"
	if err == nil {
		ss = hx(sec[:])
	}
	return xs + " " + ss
}

// detReader replaces crypto/rand.Reader during an Exec: prefix bytes, then
// SHA-256(seed || LE32 i) for i = 0,1,...
type detReader struct {
	buf  []byte
	seed []byte
	ctr  uint32
	gov  []byte // if set: a request of exactly this length is answered with these bytes (the garbage)
}

// randGarbage is consulted by withRand: the garbage override of the current ep case (if any).
var randGarbage []byte

func (d *detReader) Read(p []byte) (int, error) {
	if len(d.gov) >= 33 && len(p) == len(d.gov) {
		return copy(p, d.gov), nil
	}
	for len(d.buf) < len(p) {
		var c [4]byte
		binary.LittleEndian.PutUint32(c[:], d.ctr)
		d.ctr++
		h := sha256.Sum256(append(append([]byte(nil), d.seed...), c[:]...))
		d.buf = append(d.buf, h[:]...)
	}
	n := copy(p, d.buf)
	d.buf = d.buf[n:]
	return n, nil
}

func withRand(pre, seed []byte, f func()) {
	old := rand.Reader
	rand.Reader = &detReader{buf: append([]byte(nil), pre...), seed: seed, gov: randGarbage}
	defer func() { rand.Reader = old }()
	f()
}

func execCreate(pre, seed []byte) (out string) {
	withRand(pre, seed, func() {
		k, ell, err := ellswift.EllswiftCreate()
		if err != nil {
			out = "err"
			return
		}
		kb := k.Serialize()
		var u, t btcec.FieldVal
		u.SetByteSlice(ell[:32])
		t.SetByteSlice(ell[32:])
		x, err := ellswift.XSwiftEC(&u, &t)
		xs := "none"
		if err == nil {
			xs = fvHex(x)
		}
		px := k.PubKey().SerializeCompressed()[1:]
		out = hx(kb) + " " + hx(ell[:]) + " " + xs + " " + hx(px)
	})
	return
}

// ---------------------------------------------------------------- schedule / vectors

func netOf(h string) v2transport.BitcoinNet {
	v, err := strconv.ParseUint(h, 16, 32)
	if err != nil {
		panic(err)
	}
	return v2transport.BitcoinNet(v)
}

func execSched(secret []byte, magic string, ini bool) string {
	p := v2transport.NewPeer()
	if err := p.VerifCreateV2Ciphers(secret, ini, netOf(magic)); err != nil {
		return "err"
	}
	s := p.VerifSession()
	return strings.Join([]string{hx(s.SessionID), hx(s.InitiatorL), hx(s.InitiatorP), hx(s.ResponderL),
		hx(s.ResponderP), hx(s.SendGarbageTerm), hx(s.RecvGarbageTerm)}, " ")
}

func execVec(secret []byte, magic string, ini bool, idx int, contents []byte, mult int, aad []byte, ign bool) string {
	p := v2transport.NewPeer()
	var w bytes.Buffer
	p.UseReadWriter(&w)
	if err := p.VerifCreateV2Ciphers(secret, ini, netOf(magic)); err != nil {
		return "err"
	}
	for i := 0; i < idx; i++ {
		if _, _, err := p.V2EncPacket([]byte{}, []byte{}, false); err != nil {
			return "err"
		}
	}
	b, _, err := p.V2EncPacket(bytes.Repeat(contents, mult), aad, ign)
	if err != nil {
		return "err:" + v2transport.VerifErrClassC19(err)
	}
	if len(b) <= 200 {
		return hx(b)
	}
	return digest(b) + ":" + hx(b[len(b)-32:])
}

// ---------------------------------------------------------------- one endpoint on a scripted input

type scriptRW struct {
	r     *bytes.Reader
	w     bytes.Buffer
	adm   *admission // when set: note network I/O performed while a lease is outstanding
	chunk int        // >0: at most this many bytes per Read (a slow / fragmenting network)
}

func (s *scriptRW) Read(p []byte) (int, error) {
	s.adm.noteIO()
	if s.chunk > 0 && len(p) > s.chunk {
		p = p[:s.chunk]
	}
	return s.r.Read(p)
}

func (s *scriptRW) Write(p []byte) (int, error) {
	s.adm.noteIO()
	return s.w.Write(p)
}

func keysDigest(p *v2transport.Peer) string {
	s := p.VerifSession()
	var all []byte
	for _, b := range [][]byte{s.SendLKey, s.SendPKey, s.RecvLKey, s.RecvPKey, s.SendGarbageTerm, s.RecvGarbageTerm} {
		all = append(all, b...)
	}
	h := sha256.Sum256(all)
	return fmt.Sprintf("%x,%d,%d,%d,%d", h[:8], s.SendLCtr, s.SendPCtr, s.RecvLCtr, s.RecvPCtr)
}

func ints(ss []string) []int {
	var out []int
	for _, s := range ss {
		out = append(out, atoi(s))
	}
	return out
}

// epFlags are the optional flags after "+" in the role token of an ep line.
type epFlags struct {
	adm    int    // 0 none, 1 first Acquire fails, 2 second Acquire fails, 3 admits with nil release, 4 admits
	logger bool   // run with a trace-level logger installed (must not change anything)
	net2   string // network passed to CompleteHandshake ("" = same)
	chunk  int    // >0: the connection delivers at most this many bytes per Read
	gov    []byte // garbage override: returned by the random source for the garbage request
}

func parseRole(tok string) (string, epFlags, bool) {
	var fl epFlags
	parts := strings.SplitN(tok, "+", 2)
	if parts[0] != "i" && parts[0] != "r" {
		return "", fl, false
	}
	if len(parts) == 2 {
		for _, t := range strings.Split(parts[1], ",") {
			switch {
			case t == "L":
				fl.logger = true
			case strings.HasPrefix(t, "A"):
				fl.adm = atoi(t[1:])
			case strings.HasPrefix(t, "N"):
				fl.net2 = t[1:]
			case strings.HasPrefix(t, "R"):
				fl.chunk = atoi(t[1:])
			case strings.HasPrefix(t, "G"):
				fl.gov = unhx(t[1:])
			default:
				return "", fl, false
			}
		}
	}
	return parts[0], fl, true
}

var errAdmission = errors.New("admission rejected")

// admission counts Acquire and release calls and rejects the n-th Acquire.
type admission struct {
	mode     int
	acq, rel int
	out      int // leases currently outstanding
	heldIO   int // 1 if the connection was read or written while a lease was outstanding
}

func (a *admission) noteIO() {
	if a != nil && a.out > 0 {
		a.heldIO = 1
	}
}

func (a *admission) Acquire() (func(), error) {
	a.acq++
	if a.mode == a.acq && a.mode <= 2 {
		return nil, errAdmission
	}
	if a.mode == 3 {
		a.rel++ // a nil release func counts as released
		return nil, nil
	}
	a.out++
	return func() { a.rel++; a.out-- }, nil
}

func errClass(err error) string {
	if errors.Is(err, errAdmission) {
		return "admission"
	}
	return v2transport.VerifErrClassC19(err)
}

// handshake runs the real handshake of one role with deterministic randomness.
func handshake(p *v2transport.Peer, role string, net, net2 v2transport.BitcoinNet, pre, seed []byte, gLen int, decoys []int) (err error) {
	withRand(pre, seed, func() {
		if role == "i" {
			err = p.InitiateV2Handshake(gLen)
		} else {
			err = p.RespondV2Handshake(gLen, net)
		}
	})
	if err != nil {
		return err
	}
	return p.CompleteHandshake(role == "i", decoys, net2)
}

func execEp(role, magic string, pre, seed []byte, gLen int, decoys []string, inp []byte, acts []string) string {
	s, _ := runEp(role, magic, pre, seed, gLen, decoys, inp, acts)
	return s
}

// lastHs / lastPriv: what the most recent runEp wrote during the handshake and the private key it
// used (read back by the generator, which puts them on the protocol line: the reference validates
// the sender's free choices - ElligatorSwift encoding, garbage bytes, decoy contents - instead of
// predicting them).
var lastHs, lastPriv []byte

func runEp(roleTok, magic string, pre, seed []byte, gLen int, decoys []string, inp []byte, acts []string) (string, []byte) {
	lastHs, lastPriv = nil, nil
	role, fl, ok := parseRole(roleTok)
	if !ok {
		return "bad-op", nil
	}
	adm := &admission{mode: fl.adm}
	var p *v2transport.Peer
	if fl.adm != 0 {
		// the option value is created ONCE and reused for every peer of the run; it forwards to the
		// admission of the current case
		currentAdm = adm
		p = v2transport.NewPeerWithOptions(sharedAdmOption)
	} else {
		p = v2transport.NewPeer()
	}
	if fl.logger {
		l := btclog.NewBackend(io.Discard).Logger("V2TR")
		l.SetLevel(btclog.LevelTrace)
		v2transport.UseLogger(l)
		defer v2transport.DisableLog()
	}
	rw := &scriptRW{r: bytes.NewReader(inp), adm: adm, chunk: fl.chunk}
	randGarbage = fl.gov
	defer func() { randGarbage = nil }()
	p.UseReadWriter(rw)
	net2 := netOf(magic)
	if fl.net2 != "" {
		net2 = netOf(fl.net2)
	}
	// inputs are values: the decoy-length slice is ONE object per distinct argument, reused by every
	// case of the run, and must be unchanged after each call
	dl := sharedInts(strings.Join(decoys, ","))
	err := handshake(p, role, netOf(magic), net2, pre, seed, gLen, dl)
	if fmt.Sprint(dl) != fmt.Sprint(ints(decoys)) {
		return "decoy-slice-changed", nil
	}
	lastHs = append([]byte(nil), rw.w.Bytes()...)
	lastPriv = p.VerifSession().PrivOurs
	dg := 0
	if p.ShouldDowngradeToV1() {
		dg = 1
	}
	if fl.adm == 3 {
		adm.rel = adm.acq // nil release funcs: nothing to count
	}
	// ReceivedPrefix is observed only where peer.go uses it: after ErrUseV1Protocol
	pfx := "-"
	if errors.Is(err, v2transport.ErrUseV1Protocol) {
		pfx = hx(p.ReceivedPrefix())
	}
	common := fmt.Sprintf("pfx=%s dg=%d adm=%d,%d,%d", pfx, dg, adm.acq, adm.rel, adm.heldIO)
	if err != nil {
		return "hs=err:" + errClass(err) + " " + common + " w=" + digest(rw.w.Bytes()), rw.w.Bytes()
	}
	sid0, pfx0 := hx(p.VerifSession().SessionID), hx(p.ReceivedPrefix())
	out := []string{"hs=ok", common, "sid=" + sid0}
	failed := false
loop:
	for _, a := range acts {
		f := strings.Split(a, ":")
		switch f[0] {
		case "s":
			ln, sd, aadLen := atoi(f[1]), atoi(f[2]), atoi(f[4])
			c, a := fill(sd, ln), fill(sd+1, aadLen)
			if ln == 0 && sd%2 == 1 {
				c = nil // nil and empty-but-non-nil contents are the same packet
			}
			if aadLen == 0 && sd%3 == 0 {
				a = nil
			}
			_, _, err := p.V2EncPacket(c, a, f[3] == "1")
			if err != nil {
				out = append(out, "tx=err:"+v2transport.VerifErrClassC19(err))
			}
		case "r":
			c, err := p.V2ReceivePacket(fill(atoi(f[2]), atoi(f[1])))
			if err != nil {
				out = append(out, "rx=err:"+v2transport.VerifErrClassC19(err))
				failed = true
				break loop
			}
			out = append(out, "rx="+digest(c))
		default:
			return "bad-op", nil
		}
	}
	if !failed {
		out = append(out, "k="+keysDigest(p))
	}
	// results are values: session id and received prefix observed after the handshake
	// must read the same after any amount of traffic
	if hx(p.VerifSession().SessionID) != sid0 || hx(p.ReceivedPrefix()) != pfx0 {
		return "observed-value-changed", rw.w.Bytes()
	}
	out = append(out, "w="+digest(rw.w.Bytes()))
	return strings.Join(out, " "), rw.w.Bytes()
}

var _ = io.EOF

// ---------------------------------------------------------------- tampering (shared semantics with the Lean driver)

func take(w []byte, n int) []byte {
	if n > len(w) {
		n = len(w)
	}
	return w[:n]
}

func drop(w []byte, n int) []byte {
	if n > len(w) {
		n = len(w)
	}
	return w[n:]
}

func cat(parts ...[]byte) []byte {
	var out []byte
	for _, p := range parts {
		out = append(out, p...)
	}
	return out
}

func tamper(w []byte, ops string) []byte {
	if ops == "-" {
		return w
	}
	for _, op := range strings.Split(ops, ",") {
		a := strings.Split(op[1:], ":")
		switch op[0] {
		case 'f':
			off, mask := atoi(a[0]), atoi(a[1])
			if off < len(w) {
				w = cat(w[:off], []byte{w[off] ^ byte(mask)}, w[off+1:])
			}
		case 't':
			w = cat(take(w, atoi(a[0])))
		case 'd':
			off, n := atoi(a[0]), atoi(a[1])
			w = cat(take(w, off), drop(w, off+n))
		case 'u':
			off, n := atoi(a[0]), atoi(a[1])
			w = cat(take(w, off+n), take(drop(w, off), n), drop(w, off+n))
		case 'x':
			off, l1, l2 := atoi(a[0]), atoi(a[1]), atoi(a[2])
			w = cat(take(w, off), take(drop(w, off+l1), l2), take(drop(w, off), l1), drop(w, off+l1+l2))
		case 'i':
			off := atoi(a[0])
			w = cat(take(w, off), unhx(a[1]), drop(w, off))
		default:
			panic("bad tamper op")
		}
	}
	return w
}

// ---------------------------------------------------------------- packet layer between two real peers

func execPk(secret []byte, magic string, ini bool, pkts []string, tam string, recvs []string) string {
	snd, rcv := v2transport.NewPeer(), v2transport.NewPeer()
	var wire bytes.Buffer
	var kept [][]byte
	var keptSum [][32]byte
	snd.UseReadWriter(&wire)
	if snd.VerifCreateV2Ciphers(secret, ini, netOf(magic)) != nil || rcv.VerifCreateV2Ciphers(secret, !ini, netOf(magic)) != nil {
		return "bad-op"
	}
	for _, pk := range pkts {
		f := strings.Split(pk, ":")
		ln, sd, aadLen := atoi(f[0]), atoi(f[1]), atoi(f[3])
		if h := atoi(f[2]); h >= 256 {
			if snd.VerifEncRawC19(byte(h-256), fill(sd, ln), fill(sd+1, aadLen)) != nil {
				return "bad-op"
			}
		} else if b, _, err := snd.V2EncPacket(fill(sd, ln), fill(sd+1, aadLen), h == 1); err != nil {
			return "bad-op"
		} else {
			kept = append(kept, b)
			keptSum = append(keptSum, sha256.Sum256(b))
		}
	}
	w := append([]byte(nil), wire.Bytes()...)
	out := []string{"w=" + digest(w)}
	// results are values: what V2EncPacket / V2ReceivePacket returned earlier must not change
	stable := func() bool {
		for i, b := range kept {
			if sha256.Sum256(b) != keptSum[i] {
				return false
			}
		}
		return true
	}
	rcv.UseReadWriter(&scriptRW{r: bytes.NewReader(tamper(w, tam))})
	for _, r := range recvs {
		f := strings.Split(r, ":")
		c, err := rcv.V2ReceivePacket(fill(atoi(f[1]), atoi(f[0])))
		if err != nil {
			out = append(out, "rx=err:"+v2transport.VerifErrClassC19(err))
			return strings.Join(out, " ")
		}
		out = append(out, "rx="+digest(c))
		kept = append(kept, c)
		keptSum = append(keptSum, sha256.Sum256(c))
	}
	if !stable() {
		return "returned-value-changed"
	}
	ss, rs := snd.VerifSession(), rcv.VerifSession()
	eq := bytes.Equal(ss.SendLKey, rs.RecvLKey) && bytes.Equal(ss.SendPKey, rs.RecvPKey) &&
		ss.SendLCtr == rs.RecvLCtr && ss.SendPCtr == rs.RecvPCtr
	out = append(out, fmt.Sprintf("st=%d,%d,%d,%v", rs.RecvLCtr, rs.RecvPCtr, ss.SendPCtr, eq))
	return strings.Join(out, " ")
}

// ---------------------------------------------------------------- concurrent schedules

// execConc runs every session of the line in its own goroutine, all released
// at the same moment. Each session is deterministic on its own (so the answer
// is), only the interleaving varies: cipher instances must share no state.
func execConc(mode string, sessions []string) string {
	// every session is run by `reps` goroutines at once (replicas must all give
	// the same answer; more goroutines = more interleavings at no cost for the
	// reference, which computes each session once)
	const reps = 5
	res := make([][reps]string, len(sessions))
	var wg sync.WaitGroup
	start := make(chan struct{})
	for i, t := range sessions {
		for k := 0; k < reps; k++ {
			wg.Add(1)
			go func(i, k int, f []string) {
				defer wg.Done()
				defer func() {
					if r := recover(); r != nil {
						res[i][k] = "panic"
					}
				}()
				<-start
				switch mode {
				case "skip":
					res[i][k] = concSkip(unhx(f[0]), uint64(atoi(f[1])), atoi(f[2]), atoi(f[3]))
				case "peer":
					res[i][k] = concPeer(unhx(f[0]), f[1] == "1", atoi(f[2]), atoi(f[3]), atoi(f[4]))
				default:
					res[i][k] = "bad-op"
				}
			}(i, k, strings.Split(t, ":"))
		}
	}
	close(start)
	wg.Wait()
	out := make([]string, len(sessions))
	for i := range res {
		out[i] = res[i][0]
		for k := 1; k < reps; k++ {
			if res[i][k] != res[i][0] {
				out[i] = "replicas-differ"
			}
		}
	}
	return strings.Join(out, "|")
}

func concSkip(key []byte, epoch uint64, rounds, seed int) string {
	key0 := append([]byte(nil), key...)
	s, err1 := v2transport.NewFSChaCha20Poly1305(key)
	r, err2 := v2transport.NewFSChaCha20Poly1305(key)
	if err1 != nil || err2 != nil {
		return "bad-op"
	}
	s.VerifAdvanceCtr(epoch * 224)
	r.VerifAdvanceCtr(epoch * 224)
	h := sha256.New()
	total := 0
	for i := 0; i < rounds; i++ {
		s.VerifAdvanceCtr(222)
		r.VerifAdvanceCtr(222)
		msgs := [][]byte{fill(seed+2*i, 1+(seed+i)%40), fill(seed+2*i+1, 1+(seed+3*i)%40)}
		for _, m := range msgs {
			ct, err := s.Encrypt(nil, m)
			if err != nil {
				return "err"
			}
			pt, err := r.Decrypt(nil, ct)
			if err != nil || !bytes.Equal(pt, m) {
				return fmt.Sprintf("lost-sync@%d", i)
			}
			h.Write(ct)
			total += len(ct)
		}
	}
	if !bytes.Equal(s.VerifKey(), r.VerifKey()) || s.VerifCtr() != r.VerifCtr() {
		return "desync"
	}
	if !bytes.Equal(key, key0) {
		return "key-slice-changed"
	}
	return fmt.Sprintf("%d:%x,%s,%d", total, h.Sum(nil), hx(s.VerifKey()), s.VerifCtr())
}

func concPeer(secret []byte, ini bool, warm, n, seed int) string {
	snd, rcv := v2transport.NewPeer(), v2transport.NewPeer()
	var wire bytes.Buffer // sender writes, receiver reads; both in this goroutine
	snd.UseReadWriter(&wire)
	rcv.UseReadWriter(&wire)
	if snd.VerifCreateV2Ciphers(secret, ini, 0xd9b4bef9) != nil || rcv.VerifCreateV2Ciphers(secret, !ini, 0xd9b4bef9) != nil {
		return "bad-op"
	}
	h := sha256.New()
	total := 0
	for i := 0; i < warm+n; i++ {
		m := fill(seed+i, 1+(seed+7*i)%40)
		ign := i%5 == 4 && i+1 < warm+n
		b, _, err := snd.V2EncPacket(m, nil, ign)
		if err != nil {
			return "err"
		}
		h.Write(b)
		total += len(b)
		if !ign {
			pt, err := rcv.V2ReceivePacket(nil)
			if err != nil || !bytes.Equal(pt, m) {
				return fmt.Sprintf("lost-sync@%d", i)
			}
		}
	}
	ss, rs := snd.VerifSession(), rcv.VerifSession()
	if !bytes.Equal(ss.SendPKey, rs.RecvPKey) || !bytes.Equal(ss.SendLKey, rs.RecvLKey) || ss.SendPCtr != rs.RecvPCtr {
		return "desync"
	}
	return fmt.Sprintf("%d:%x,%s,%d", total, h.Sum(nil), hx(ss.SendPKey), ss.SendPCtr)
}

// ---------------------------------------------------------------- raw I/O, XElligatorSwift

type chunkRW struct {
	data  []byte
	chunk int
	cap   int
}

func (c *chunkRW) Read(p []byte) (int, error) {
	if len(c.data) == 0 {
		return 0, io.EOF
	}
	n := len(p)
	if c.chunk > 0 && n > c.chunk {
		n = c.chunk
	}
	if n > len(c.data) {
		n = len(c.data)
	}
	copy(p, c.data[:n])
	c.data = c.data[n:]
	return n, nil
}

func (c *chunkRW) Write(p []byte) (int, error) {
	if len(p) > c.cap {
		return c.cap, nil
	}
	return len(p), nil
}

func execRwio(chunk int, inp []byte, ns, sends []string) string {
	p := v2transport.NewPeer()
	rw := &chunkRW{data: inp, chunk: chunk}
	p.UseReadWriter(rw)
	var out []string
	for _, n := range ns {
		b, k, err := p.Receive(atoi(n))
		if err != nil {
			out = append(out, fmt.Sprintf("rx=err:%s:%d", v2transport.VerifErrClassC19(err), k))
		} else {
			out = append(out, "rx="+hx(b))
		}
	}
	for _, sd := range sends {
		f := strings.Split(sd, ":")
		rw.cap = atoi(f[1])
		n, err := p.Send(make([]byte, atoi(f[0])))
		out = append(out, fmt.Sprintf("tx=%d:%s", n, v2transport.VerifErrClassC19(err)))
	}
	return strings.Join(out, " ")
}

func execXell(x string, pre, seed []byte) (out string) {
	withRand(pre, seed, func() {
		u, t, err := ellswift.XElligatorSwift(fieldVal(x))
		if err != nil {
			out = "err"
			return
		}
		ub, tb := u.Bytes(), t.Bytes()
		dx, err := ellswift.XSwiftEC(u, t)
		ds := "none"
		if err == nil {
			ds = fvHex(dx)
		}
		okx := "bad"
		if err == nil && dx.Equals(fieldVal(x)) {
			okx = "ok"
		}
		out = hex.EncodeToString(ub[:]) + hex.EncodeToString(tb[:]) + " " + ds + " " + okx
	})
	return
}

// ---------------------------------------------------------------- shared input objects (inputs are values)

var sharedIntsCache = map[string][]int{}

func sharedInts(key string) []int {
	if v, ok := sharedIntsCache[key]; ok {
		return v
	}
	var v []int
	if key != "" {
		v = ints(strings.Split(key, ","))
	}
	sharedIntsCache[key] = v
	return v
}

type admForward struct{}

var currentAdm *admission

func (admForward) Acquire() (func(), error) { return currentAdm.Acquire() }

var sharedAdmOption = v2transport.WithResponderHandshakeAdmission(admForward{})
