package p19

import (
	"fmt"
	"strings"
)

// execLoop: a whole session between two REAL endpoints (initiator A, responder B), replayed
// endpoint by endpoint inside this Exec, reported at the level the property speaks about: both
// handshakes complete, the session ids agree, and every non-ignored packet arrives with identical
// contents in order in both directions. Nothing on the line depends on how the code consumes
// randomness or fills garbage/decoys, so such lines are stable corpus entries.
//
//	C19 loop <magic> <seedA> <seedB> <gA> <gB> <decoysA> <decoysB> <pktsA> <pktsB>   (pkts: len:seed:ign;...)
func execLoop(magic string, seedA, seedB []byte, gA, gB int, dA, dB, pktsA, pktsB []string) string {
	a := epCfg{role: "i", magic: magic, seed: seedA, gLen: gA, decoys: dA}
	b := epCfg{role: "r", magic: magic, seed: seedB, gLen: gB, decoys: dB}
	toPkts := func(ss []string) []pkt {
		var ps []pkt
		for _, s := range ss {
			f := strings.Split(s, ":")
			ps = append(ps, pkt{ln: atoi(f[0]), seed: atoi(f[1]), ign: f[2] == "1"})
		}
		return ps
	}
	pa, pb := toPkts(pktsA), toPkts(pktsB)
	// packets above the content limit are refused by the sender: nothing to receive for them
	sent := func(ps []pkt) []pkt {
		var out []pkt
		for _, p := range ps {
			if p.ln <= 1<<24-1 {
				out = append(out, p)
			}
		}
		return out
	}
	wa, wb := loopback(a, b, pa, pb)
	ra, _ := runEp(a.roleTok(), a.magic, a.pre, a.seed, a.gLen, a.decoys, wb, append(sendActs(pa), recvActs(sent(pb), 0)...))
	rb, _ := runEp(b.roleTok(), b.magic, b.pre, b.seed, b.gLen, b.decoys, wa, append(sendActs(pb), recvActs(sent(pa), 0)...))
	pick := func(res, key string) []string {
		var out []string
		for _, t := range strings.Fields(res) {
			if strings.HasPrefix(t, key) {
				out = append(out, t[len(key):])
			}
		}
		return out
	}
	sidEq := 0
	if sa, sb := pick(ra, "sid="), pick(rb, "sid="); len(sa) == 1 && len(sb) == 1 && sa[0] == sb[0] {
		sidEq = 1
	}
	return fmt.Sprintf("A:hs=%s B:hs=%s sid-eq=%d A-rx=%s B-rx=%s", strings.Join(pick(ra, "hs="), ","),
		strings.Join(pick(rb, "hs="), ","), sidEq, joinOr(pick(ra, "rx="), ","), joinOr(pick(rb, "rx="), ","))
}
