package p01

// fault.go: a database.DB wrapper that can make ONE read transaction fail while the node is inside its connect
// checks — a transient backing-store failure (I/O error while the utxo cache reads from disk).  The fault is
// addressed by WHERE it happens (a View issued below checkConnectBlock), not by the ordinal of an internal call;
// after it the harness lets the node retry and compares the state reached after recovery.

import (
	"errors"
	"runtime"
	"strings"
	"sync/atomic"

	"github.com/btcsuite/btcd/database"
)

type faultDB struct {
	database.DB
	armed *int32 // 1: the next View below checkConnectBlock fails
	fired *int32
}

func newFaultDB(db database.DB) faultDB {
	return faultDB{DB: db, armed: new(int32), fired: new(int32)}
}

var errTransient = errors.New("transient backing store failure (injected)")

func insideConnectChecks() bool {
	pcs := make([]uintptr, 64)
	n := runtime.Callers(3, pcs)
	frames := runtime.CallersFrames(pcs[:n])
	for {
		f, more := frames.Next()
		if strings.HasSuffix(f.Function, ".checkConnectBlock") {
			return true
		}
		if !more {
			return false
		}
	}
}

func (f faultDB) View(fn func(tx database.Tx) error) error {
	if atomic.LoadInt32(f.armed) == 1 && insideConnectChecks() {
		atomic.StoreInt32(f.armed, 0)
		atomic.AddInt32(f.fired, 1)
		return errTransient
	}
	return f.DB.View(fn)
}

func (f faultDB) arm() { atomic.StoreInt32(f.armed, 1) }
func (f faultDB) disarm() bool {
	atomic.StoreInt32(f.armed, 0)
	return atomic.SwapInt32(f.fired, 0) > 0
}
