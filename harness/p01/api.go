package p01

// api.go: the stand-alone exported checks of the anchor files (validate.go, weight.go, chain.go, merkle.go,
// scriptval.go) called directly on the candidate, nothing delivered.  Op `C01 api …`.

import (
	"bytes"
	"fmt"
	"sort"
	"strings"
	"time"

	"github.com/btcsuite/btcd/blockchain"
	"github.com/btcsuite/btcd/btcutil/v2"
	"github.com/btcsuite/btcd/txscript/v2"
	"github.com/btcsuite/btcd/wire/v2"
)

// hctx is the harness's own HeaderCtx over a path (all scaffold blocks carry the regtest pow-limit bits).
type hctx struct {
	p *path
	h int32
}

func (c hctx) Height() int32    { return c.h }
func (c hctx) Bits() uint32     { return 0x207fffff }
func (c hctx) Timestamp() int64 { return c.p.times[c.h] }
func (c hctx) Parent() blockchain.HeaderCtx {
	if c.h == 0 {
		return nil
	}
	return hctx{c.p, c.h - 1}
}
func (c hctx) RelativeAncestorCtx(d int32) blockchain.HeaderCtx {
	if d < 0 || d > c.h {
		return nil
	}
	return hctx{c.p, c.h - d}
}

func clsOrOk(mode string, err error) string {
	if err == nil {
		return "ok"
	}
	cls, ok := ruleClass(err)
	if !ok {
		return "internal"
	}
	if mode != "VC" {
		return "rej"
	}
	return cls
}

func cls(err error) string {
	if err == nil {
		return "ok"
	}
	c, ok := ruleClass(err)
	if !ok {
		return "internal"
	}
	return c
}

func joinC(l []string) string {
	if len(l) == 0 {
		return "~"
	}
	return strings.Join(l, ",")
}

// specFlags are the script flags the protocol enforces at the candidate (the harness's own derivation).
func (sc *scenario) specFlags() txscript.ScriptFlags {
	v := sc.v
	h := sc.parent.height + 1
	seg := active(v.segH, h)
	var f txscript.ScriptFlags
	if sc.cand.Header.Timestamp.Unix() >= bip16Switch || seg {
		f |= txscript.ScriptBip16
	}
	if h >= v.bip66H {
		f |= txscript.ScriptVerifyDERSignatures
	}
	if h >= v.bip65H {
		f |= txscript.ScriptVerifyCheckLockTimeVerify
	}
	if active(v.csvH, h) {
		f |= txscript.ScriptVerifyCheckSequenceVerify
	}
	if seg {
		f |= txscript.ScriptVerifyWitness | txscript.ScriptStrictMultiSig
	}
	if active(v.tapH, h) {
		f |= txscript.ScriptVerifyTaproot
	}
	return f
}

func (sc *scenario) api() string {
	in, e := acquire(sc)
	if in == nil {
		return e
	}
	defer release(in)
	return sc.apiOn(in)
}

// apiOn calls the stand-alone checks against an instance that holds the scaffold (nothing is delivered).
func (sc *scenario) apiOn(in *inst) string {
	chain := in.chain
	params := chain.ChainParams()
	v := sc.v
	height := sc.parent.height + 1
	blk := btcutil.NewBlock(sc.cand)
	blk.SetHeight(height)
	clock := newClock(v.now())
	hdr := &sc.cand.Header

	sanity := clsOrOk(sc.mode, blockchain.CheckBlockSanity(blk, params.PowLimit, clock))
	hs := clsOrOk(sc.mode, blockchain.CheckBlockHeaderSanity(hdr, params.PowLimit, clock, blockchain.BFNone))
	pow := clsOrOk(sc.mode, blockchain.CheckProofOfWork(blk, params.PowLimit))
	hc := clsOrOk(sc.mode, blockchain.CheckBlockHeaderContext(hdr, hctx{sc.parent, sc.parent.height}, blockchain.BFNone, chain, true))
	// with the checkpoint tests included (no checkpoints are configured) the answer must be the same
	if hc2 := clsOrOk(sc.mode, blockchain.CheckBlockHeaderContext(hdr, hctx{sc.parent, sc.parent.height}, blockchain.BFNone, chain, false)); hc2 != hc {
		hc += "/" + hc2
	}

	cutoff := hdr.Timestamp
	if active(v.csvH, height) {
		cutoff = time.Unix(sc.parent.mtp(), 0)
	}
	mtp := time.Unix(sc.parent.mtp(), 0)
	flags := sc.specFlags()
	sigCache, hashCache := sharedSigCache, sharedHashCache
	// inputs are values: the parameter object, the block object and each utxo view are created once, used for
	// every call below, and must read the same afterwards
	val := "ok"
	paramsBefore := fmt.Sprint(params.CoinbaseMaturity, params.SubsidyReductionInterval, params.BIP0034Height,
		params.BIP0065Height, params.BIP0066Height, params.PowLimit, params.PowLimitBits, params.EnforceBIP94)
	bytesBefore := serialize(sc.cand)

	var txS, fin, sl, ins, so, scr, p2 []string
	var cost [4][]string
	txs := blk.Transactions()
	for i, tx := range txs {
		// the class of a per-transaction failure is compared only on lines where exactly one rule class is violated
		// in the whole block (mode VC): with several defects in one transaction the order of the checks is btcd's
		// business, not the property's
		txS = append(txS, clsOrOk(sc.mode, blockchain.CheckTransactionSanity(tx)))
		fin = append(fin, fmt.Sprint(b2i(blockchain.IsFinalizedTransaction(tx, height, cutoff))))
		so = append(so, fmt.Sprint(blockchain.CountSigOps(tx)))

		// the utxo view this transaction sees inside the block, built with the exported API only
		view, err := chain.FetchUtxoView(tx)
		if err != nil {
			return "err:view"
		}
		for j := 0; j < i; j++ {
			if !blockchain.IsCoinBase(txs[j]) {
				for _, tin := range txs[j].MsgTx().TxIn {
					if en := view.LookupEntry(tin.PreviousOutPoint); en != nil {
						en.Spend()
					}
				}
			}
			view.AddTxOuts(txs[j], height)
		}
		viewBefore := viewDigest(view)
		isCb := blockchain.IsCoinBase(tx)
		unavailable := false
		for _, tin := range tx.MsgTx().TxIn {
			if isNullOut(tin.PreviousOutPoint) {
				continue
			}
			if en := view.LookupEntry(tin.PreviousOutPoint); en == nil || en.IsSpent() {
				unavailable = true
			}
		}
		csvNow, csvTip := active(v.csvH, height), active(v.csvH, height-1)
		if unavailable || csvNow != csvTip {
			// at the activation height the exported helper looks at the tip's deployment state: not compared
			sl = append(sl, "-")
		} else if lock, err := chain.CalcSequenceLock(tx, view, false); err != nil {
			sl = append(sl, cls(err))
		} else {
			sl = append(sl, fmt.Sprint(b2i(blockchain.SequenceLockActive(lock, height, mtp))))
		}
		fee, err := blockchain.CheckTransactionInputs(tx, height, view, params)
		if err != nil {
			ins = append(ins, clsOrOk(sc.mode, err))
		} else {
			ins = append(ins, fmt.Sprintf("fee:%d", fee))
		}
		for k := 0; k < 2; k++ {
			// the same arguments again: the same answer
			if f2, e2 := blockchain.CheckTransactionInputs(tx, height, view, params); f2 != fee || (e2 == nil) != (err == nil) {
				val = "inputs-unstable"
			}
		}
		if unavailable || hasNull(tx.MsgTx()) && !isCb {
			p2 = append(p2, "-") // how a stand-alone helper reports a missing input is not part of the property
		} else if n, err := blockchain.CountP2SHSigOps(tx, isCb, view); err != nil {
			p2 = append(p2, cls(err))
		} else {
			p2 = append(p2, fmt.Sprint(n))
		}
		for k := 0; k < 4; k++ {
			if unavailable || hasNull(tx.MsgTx()) && !isCb {
				cost[k] = append(cost[k], "-")
				continue
			}
			n, err := blockchain.GetSigOpCost(tx, isCb, view, k&2 != 0, k&1 != 0)
			if err != nil {
				cost[k] = append(cost[k], cls(err))
			} else {
				cost[k] = append(cost[k], fmt.Sprint(n))
			}
		}
		switch {
		case isCb || unavailable || hasNull(tx.MsgTx()):
			scr = append(scr, "-")
		default:
			scr = append(scr, fmt.Sprint(b2i(blockchain.ValidateTransactionScripts(tx, view, flags, sigCache, hashCache) == nil)))
		}
		if viewDigest(view) != viewBefore {
			val = "view-mutated"
		}
	}
	if fmt.Sprint(params.CoinbaseMaturity, params.SubsidyReductionInterval, params.BIP0034Height,
		params.BIP0065Height, params.BIP0066Height, params.PowLimit, params.PowLimitBits, params.EnforceBIP94) != paramsBefore {
		val = "params-mutated"
	}
	cbh, wc := "-", ""
	if len(txs) > 0 && len(txs[0].MsgTx().TxIn) > 0 {
		cbh = cls(blockchain.CheckSerializedHeight(txs[0], height))
	}
	wc = cls(blockchain.ValidateWitnessCommitment(blk))
	return fmt.Sprintf("sanity=%s hs=%s pow=%s hc=%s tx=%s fin=%s sl=%s in=%s so=%s c00=%s c01=%s c10=%s c11=%s w=%d cbh=%s wc=%s sub=%d sc=%s p2=%s hv=%d val=%s",
		sanity, hs, pow, hc, joinC(txS), joinC(fin), joinC(sl), joinC(ins), joinC(so),
		joinC(cost[0]), joinC(cost[1]), joinC(cost[2]), joinC(cost[3]),
		blockchain.GetBlockWeight(blk), cbh, wc, blockchain.CalcBlockSubsidy(height, params), joinC(scr), joinC(p2),
		b2i(blockchain.ShouldHaveSerializedBlockHeight(hdr)), valAfter(val, sc, blk, bytesBefore))
}

// valAfter: the block value and the block object read the same after all the calls.
func valAfter(val string, sc *scenario, blk *btcutil.Block, before []byte) string {
	if !bytes.Equal(serialize(sc.cand), before) {
		return "block-mutated"
	}
	if len(sc.cand.Transactions) > 0 && len(sc.cand.Transactions[0].TxIn) > 0 {
		if bb, err := blk.Bytes(); err != nil || !bytes.Equal(bb, before) {
			return "block-object-mutated"
		}
	}
	return val
}

// viewDigest renders what a utxo view says, in a fixed order.
func viewDigest(view *blockchain.UtxoViewpoint) string {
	var ks []string
	for op, e := range view.Entries() {
		if e == nil {
			ks = append(ks, fmt.Sprintf("%v:nil", op))
		} else {
			ks = append(ks, fmt.Sprintf("%v:%d:%v:%d:%v", op, e.Amount(), e.IsSpent(), e.BlockHeight(), e.IsCoinBase()))
		}
	}
	sort.Strings(ks)
	return strings.Join(ks, "|")
}

func hasNull(t *wire.MsgTx) bool {
	for _, in := range t.TxIn {
		if isNullOut(in.PreviousOutPoint) {
			return true
		}
	}
	return false
}
