// Package p01: correspondence for C01 (a block is connected iff it satisfies
// every consensus rule in its context).
//
// factory.go: synthetic parameter variants, keys and script classes, the
// harness's OWN bookkeeping of a block path (utxo fold, timestamps, heights),
// transaction and block construction.
package p01

import (
	"bytes"
	"crypto/sha256"
	"encoding/binary"
	"math"
	"sort"
	"time"

	"github.com/btcsuite/btcd/address/v2"
	"github.com/btcsuite/btcd/blockchain"
	"github.com/btcsuite/btcd/btcec/v2"
	"github.com/btcsuite/btcd/btcec/v2/schnorr"
	"github.com/btcsuite/btcd/chaincfg/v2"
	"github.com/btcsuite/btcd/chainhash/v2"
	"github.com/btcsuite/btcd/txscript/v2"
	"github.com/btcsuite/btcd/wire/v2"
)

// ---------------------------------------------------------------- parameter variants

// variant is a synthetic consensus parameter set (regtest-like).
type variant struct {
	id        int
	maturity  int32
	bip34H    int32
	bip65H    int32
	bip66H    int32
	csvH      int32 // 0 = never
	segH      int32
	tapH      int32
	bip94     bool
	bpr       int32 // blocks per retarget (only matters for BIP94)
	subsidyIv int32
	early     bool // block timestamps start right after the 2011 genesis (before the BIP16 switch time)
	bip34Hash bool // configure BIP0034Hash = the base chain's block at bip34H (BIP30 exemption)
}

const never = int32(100000000)

var variants = []variant{
	// 0: everything active from height 1 (regtest as shipped), small maturity
	{id: 0, maturity: 3, bip34H: 1, bip65H: 1, bip66H: 1, csvH: 1, segH: 1, tapH: 1, bpr: 2016, subsidyIv: 150},
	// 1: nothing active: pre-BIP34 rules (BIP30 matters), no CSV/segwit/taproot
	{id: 1, maturity: 2, bip34H: never, bip65H: never, bip66H: never, csvH: 0, segH: 0, tapH: 0, bpr: 2016, subsidyIv: 150},
	// 2: the candidate height sits exactly on the activation heights (set per scenario: see candHeight)
	{id: 2, maturity: 4, bip34H: 9, bip65H: 9, bip66H: 9, csvH: 9, segH: 9, tapH: 9, bpr: 2016, subsidyIv: 150},
	// 3: one past: rules activate one block after the candidate
	{id: 3, maturity: 4, bip34H: 10, bip65H: 10, bip66H: 10, csvH: 10, segH: 10, tapH: 10, bpr: 2016, subsidyIv: 150},
	// 4: BIP94 on, retarget period = candidate height, halving at the candidate height
	{id: 4, maturity: 4, bip34H: 1, bip65H: 1, bip66H: 1, csvH: 1, segH: 1, tapH: 0, bip94: true, bpr: 9, subsidyIv: 9},
	// 5: segwit on, csv off, taproot off, long maturity
	{id: 5, maturity: 20, bip34H: 1, bip65H: 3, bip66H: 2, csvH: 0, segH: 1, tapH: 0, bpr: 2016, subsidyIv: 150},
	// 6: BIP34 active with matching BIP34 hash (BIP30 check exempted)
	{id: 6, maturity: 3, bip34H: 1, bip65H: 1, bip66H: 1, csvH: 1, segH: 1, tapH: 1, bpr: 2016, subsidyIv: 150, bip34Hash: true},
	// 7: regtest as shipped with timestamps right after the 2011 genesis (F-C01-a territory)
	{id: 7, maturity: 3, bip34H: 1, bip65H: 1, bip66H: 1, csvH: 1, segH: 1, tapH: 1, bpr: 2016, subsidyIv: 150, early: true},
	// 8: 2011 timestamps and no segwit: BIP16 is keyed on the block time alone
	{id: 8, maturity: 3, bip34H: 1, bip65H: 1, bip66H: 1, csvH: 0, segH: 0, tapH: 0, bpr: 2016, subsidyIv: 150, early: true},
}

const (
	baseTimeLate  = 1356998400 // 2013-01-01
	blockSpacing  = 600
	nowOffsetSecs = 400 * blockSpacing
)

func (v variant) baseTime() int64 {
	if v.early {
		return chaincfg.RegressionNetParams.GenesisBlock.Header.Timestamp.Unix() + blockSpacing
	}
	return baseTimeLate
}

// now is the fixed adjusted time of the validating node.
func (v variant) now() int64 {
	if v.early {
		return bip16Switch + 86400 // so that a block may carry a time on either side of the BIP16 switch
	}
	return v.baseTime() + nowOffsetSecs
}

const bip16Switch = 1333238400

func deployment(bit uint8, h int32) chaincfg.ConsensusDeployment {
	d := chaincfg.ConsensusDeployment{
		BitNumber: bit,
		// never starts by time: the state stays "defined" unless forced
		DeploymentStarter: chaincfg.NewMedianTimeDeploymentStarter(time.Unix(math.MaxInt32, 0)),
		DeploymentEnder:   chaincfg.NewMedianTimeDeploymentEnder(time.Time{}),
	}
	if h > 0 {
		d.AlwaysActiveHeight = uint32(h)
	}
	return d
}

// params builds a FRESH Params value (deployment starters hold per-chain state).
func (v variant) params() *chaincfg.Params {
	p := chaincfg.RegressionNetParams
	p.Checkpoints = nil
	p.CoinbaseMaturity = uint16(v.maturity)
	p.BIP0034Height = v.bip34H
	p.BIP0065Height = v.bip65H
	p.BIP0066Height = v.bip66H
	p.BIP0034Hash = nil
	p.SubsidyReductionInterval = v.subsidyIv
	p.EnforceBIP94 = v.bip94
	p.TargetTimePerBlock = time.Minute * 10
	p.TargetTimespan = time.Duration(v.bpr) * p.TargetTimePerBlock
	p.PoWNoRetargeting = true
	for i := range p.Deployments {
		p.Deployments[i] = deployment(p.Deployments[i].BitNumber, 0)
	}
	p.Deployments[chaincfg.DeploymentCSV] = deployment(0, v.csvH)
	p.Deployments[chaincfg.DeploymentSegwit] = deployment(1, v.segH)
	p.Deployments[chaincfg.DeploymentTaproot] = deployment(2, v.tapH)
	return &p
}

func active(h, height int32) bool { return h != 0 && height >= h }

// ---------------------------------------------------------------- keys and script classes

type kind int

const (
	kTrue     kind = iota // OP_TRUE, anyone can spend
	kP2PKH                // legacy signature
	kP2SH                 // P2SH( 1 <pub> 1 CHECKMULTISIG )
	kP2WPKH               // native segwit v0 key hash
	kP2WSH                // P2WSH( <pub> CHECKSIG )
	kP2TR                 // taproot key spend
	kMulti                // bare 1-of-1 multisig
	kCLTV                 // <lock> CLTV DROP OP_TRUE
	kCSV                  // <rel> CSV DROP OP_TRUE
	kWDrop                // P2WSH( OP_DROP OP_TRUE ): witness = [padding, script]
	kP2SHWPKH             // P2SH( 0 <keyhash> ): nested segwit, the deepest wrapping the rules know
	numKinds
)

func privKey(i int) *btcec.PrivateKey {
	h := sha256.Sum256([]byte{'c', '0', '1', '-', 'k', 'e', 'y', byte(i), byte(i >> 8)})
	k, _ := btcec.PrivKeyFromBytes(h[:])
	return k
}

var theKey = privKey(1)
var thePub = theKey.PubKey().SerializeCompressed()

func hash160(b []byte) []byte { return address.Hash160(b) }

func push(b []byte) []byte {
	s, err := txscript.NewScriptBuilder().AddData(b).Script()
	if err != nil {
		panic(err)
	}
	return s
}

func scriptNum(n int64) []byte {
	s, err := txscript.NewScriptBuilder().AddInt64(n).Script()
	if err != nil {
		panic(err)
	}
	return s
}

func cat(parts ...[]byte) []byte { return bytes.Join(parts, nil) }

var (
	redeemMulti   = cat([]byte{txscript.OP_1}, push(thePub), []byte{txscript.OP_1, txscript.OP_CHECKMULTISIG})
	witnessScript = cat(push(thePub), []byte{txscript.OP_CHECKSIG})
	dropScript    = []byte{txscript.OP_DROP, txscript.OP_TRUE}
)

// cltvLock / csvLock are the operands baked into the kCLTV / kCSV outputs.
const cltvLock = 5 // height lock: satisfied by a tx whose nLockTime >= 5
const csvLock = 2  // relative height lock: needs nSequence >= 2 (and tx version >= 2)

func pkScriptOf(k kind) []byte {
	switch k {
	case kTrue:
		return []byte{txscript.OP_TRUE}
	case kP2PKH:
		return cat([]byte{txscript.OP_DUP, txscript.OP_HASH160}, push(hash160(thePub)),
			[]byte{txscript.OP_EQUALVERIFY, txscript.OP_CHECKSIG})
	case kP2SH:
		return cat([]byte{txscript.OP_HASH160}, push(hash160(redeemMulti)), []byte{txscript.OP_EQUAL})
	case kP2WPKH:
		return cat([]byte{txscript.OP_0}, push(hash160(thePub)))
	case kP2WSH:
		h := sha256.Sum256(witnessScript)
		return cat([]byte{txscript.OP_0}, push(h[:]))
	case kP2TR:
		out := txscript.ComputeTaprootKeyNoScript(theKey.PubKey())
		return cat([]byte{txscript.OP_1}, push(schnorr.SerializePubKey(out)))
	case kMulti:
		return redeemMulti
	case kWDrop:
		h := sha256.Sum256(dropScript)
		return cat([]byte{txscript.OP_0}, push(h[:]))
	case kP2SHWPKH:
		return cat([]byte{txscript.OP_HASH160}, push(hash160(pkScriptOf(kP2WPKH))), []byte{txscript.OP_EQUAL})
	case kCLTV:
		return cat(scriptNum(cltvLock), []byte{txscript.OP_CHECKLOCKTIMEVERIFY, txscript.OP_DROP, txscript.OP_TRUE})
	case kCSV:
		return cat(scriptNum(csvLock), []byte{txscript.OP_CHECKSEQUENCEVERIFY, txscript.OP_DROP, txscript.OP_TRUE})
	}
	panic("kind")
}

// ---------------------------------------------------------------- the harness's own view of a block path

type coin struct {
	amount   int64
	script   []byte
	k        kind
	height   int32
	coinbase bool
}

// path is the harness's own fold over the blocks from genesis to a tip.
type path struct {
	v      variant
	height int32
	tip    chainhash.Hash
	times  []int64 // timestamps, genesis first
	hashes []chainhash.Hash
	blocks []*wire.MsgBlock // the blocks above genesis, in order
	utxo   map[wire.OutPoint]coin
}

func newPath(v variant) *path {
	g := chaincfg.RegressionNetParams.GenesisBlock
	return &path{v: v, height: 0, tip: g.BlockHash(), times: []int64{g.Header.Timestamp.Unix()},
		hashes: []chainhash.Hash{g.BlockHash()}, utxo: map[wire.OutPoint]coin{}}
}

func (p *path) clone() *path {
	q := &path{v: p.v, height: p.height, tip: p.tip, times: append([]int64(nil), p.times...),
		hashes: append([]chainhash.Hash(nil), p.hashes...), blocks: append([]*wire.MsgBlock(nil), p.blocks...),
		utxo: make(map[wire.OutPoint]coin, len(p.utxo))}
	for k, c := range p.utxo {
		q.utxo[k] = c
	}
	return q
}

// mtpAt is the median time past of the block at height h on this path (own arithmetic).
func (p *path) mtpAt(h int32) int64 {
	if h < 0 {
		h = 0
	}
	lo := int(h) - 10
	if lo < 0 {
		lo = 0
	}
	ts := append([]int64(nil), p.times[lo:int(h)+1]...)
	sort.Slice(ts, func(i, j int) bool { return ts[i] < ts[j] })
	return ts[len(ts)/2]
}

func (p *path) mtp() int64 { return p.mtpAt(p.height) }

// isUnspendable mirrors the protocol's provably-unspendable test (OP_RETURN or oversized script).
func isUnspendable(s []byte) bool {
	return (len(s) > 0 && s[0] == txscript.OP_RETURN) || len(s) > 10000
}

// apply folds a (valid) block into the path.
func (p *path) apply(b *wire.MsgBlock) {
	p.height++
	for ti, tx := range b.Transactions {
		if ti > 0 {
			for _, in := range tx.TxIn {
				delete(p.utxo, in.PreviousOutPoint)
			}
		}
		h := tx.TxHash()
		for oi, o := range tx.TxOut {
			if isUnspendable(o.PkScript) {
				continue
			}
			p.utxo[wire.OutPoint{Hash: h, Index: uint32(oi)}] = coin{amount: o.Value, script: o.PkScript,
				k: classify(o.PkScript), height: p.height, coinbase: ti == 0}
		}
	}
	p.tip = b.BlockHash()
	p.times = append(p.times, b.Header.Timestamp.Unix())
	p.hashes = append(p.hashes, p.tip)
	p.blocks = append(p.blocks, b)
}

func classify(s []byte) kind {
	for k := kind(0); k < numKinds; k++ {
		if bytes.Equal(s, pkScriptOf(k)) {
			return k
		}
	}
	return kTrue
}

// ---------------------------------------------------------------- transactions

// inNote is what the builder knows about an input's script pair by construction.
type inNote struct {
	failsAlways bool
	failsUnder  int
}

const (
	fP2SH    = 1
	fDERSIG  = 2
	fCLTV    = 4
	fCSV     = 8
	fWITNESS = 16
	fTAPROOT = 32
)

// notes: script verdict annotations keyed by (tx pointer, input index).
type noteKey struct {
	tx  *wire.MsgTx
	idx int
}

type builder struct {
	notes map[noteKey]inNote
}

func newBuilder() *builder { return &builder{notes: map[noteKey]inNote{}} }

type spend struct {
	op   wire.OutPoint
	c    coin
	seq  uint32
	bad  string // "", "sig" (corrupt signature), "nonder", "dummy", "nowit"
	pad  int    // kWDrop: length of the padding witness item
	miss bool   // the outpoint does not exist (c is a guess used for signing)
}

// mkTx builds and signs a transaction spending `ins` into `outs`.
func (b *builder) mkTx(version int32, lockTime uint32, ins []spend, outs []*wire.TxOut) *wire.MsgTx {
	tx := wire.NewMsgTx(version)
	tx.LockTime = lockTime
	prev := map[wire.OutPoint]*wire.TxOut{}
	for _, s := range ins {
		tx.AddTxIn(&wire.TxIn{PreviousOutPoint: s.op, Sequence: s.seq})
		prev[s.op] = &wire.TxOut{Value: s.c.amount, PkScript: s.c.script}
	}
	for _, o := range outs {
		tx.AddTxOut(o)
	}
	b.sign(tx, ins, prev)
	return tx
}

// sign (re)creates the unlocking data of every input and records the script notes.
func (b *builder) sign(tx *wire.MsgTx, ins []spend, prev map[wire.OutPoint]*wire.TxOut) {
	fetcher := txscript.NewMultiPrevOutFetcher(prev)
	for i := range tx.TxIn {
		tx.TxIn[i].SignatureScript = nil
		tx.TxIn[i].Witness = nil
	}
	sh := txscript.NewTxSigHashes(tx, fetcher)
	for i, s := range ins {
		note := inNote{}
		in := tx.TxIn[i]
		pk := s.c.script
		switch s.c.k {
		case kTrue:
			if s.bad == "sig" {
				in.SignatureScript = []byte{txscript.OP_0, txscript.OP_VERIFY}
				note.failsAlways = true
			}
			if s.bad == "emptywit" {
				// a witness stack holding one EMPTY item: present (not nil), so it counts as witness data
				in.Witness = wire.TxWitness{[]byte{}}
				note.failsUnder |= fWITNESS // witness data on a non-witness program
			}
		case kCLTV:
			// fails under CLTV unless the tx lock time satisfies the operand
			if !(tx.LockTime >= cltvLock && tx.LockTime < txscript.LockTimeThreshold && s.seq != wire.MaxTxInSequenceNum) {
				note.failsUnder |= fCLTV
			}
		case kCSV:
			ok := uint32(tx.Version) >= 2 && s.seq&wire.SequenceLockTimeDisabled == 0 &&
				s.seq&wire.SequenceLockTimeIsSeconds == 0 && s.seq&wire.SequenceLockTimeMask >= csvLock
			if !ok {
				note.failsUnder |= fCSV
			}
		case kP2PKH:
			sig, err := txscript.RawTxInSignature(tx, i, pk, txscript.SigHashAll, theKey)
			if err != nil {
				panic(err)
			}
			switch s.bad {
			case "sig":
				sig[10] ^= 0x01
				note.failsAlways = true
			case "nonder":
				sig = nonDER(sig)
				note.failsUnder |= fDERSIG
			}
			in.SignatureScript = cat(push(sig), push(thePub))
		case kMulti, kP2SH:
			sub := redeemMulti
			sig, err := txscript.RawTxInSignature(tx, i, sub, txscript.SigHashAll, theKey)
			if err != nil {
				panic(err)
			}
			dummy := []byte{txscript.OP_0}
			switch s.bad {
			case "sig":
				sig[10] ^= 0x01
				note.failsAlways = true
			case "dummy":
				dummy = []byte{txscript.OP_1}
				note.failsUnder |= fWITNESS // NULLDUMMY rides on the segwit package
			}
			if s.c.k == kMulti {
				in.SignatureScript = cat(dummy, push(sig))
			} else {
				in.SignatureScript = cat(dummy, push(sig), push(redeemMulti))
				if s.bad == "sig" {
					// the redeem script itself hashes correctly: only P2SH evaluation fails
					note.failsAlways = false
					note.failsUnder |= fP2SH
				}
				if s.bad == "dummy" {
					// NULLDUMMY inside the redeem script is only evaluated when P2SH is
					note.failsUnder = 0
					note.failsAlways = false
					panic("dummy on p2sh not supported")
				}
			}
		case kP2WPKH:
			sub := pkScriptOf(kP2PKH)
			sig, err := txscript.RawTxInWitnessSignature(tx, sh, i, s.c.amount, sub, txscript.SigHashAll, theKey)
			if err != nil {
				panic(err)
			}
			switch s.bad {
			case "sig":
				sig[10] ^= 0x01
				note.failsUnder |= fWITNESS // anyone-can-spend before segwit
			case "nowit":
				sig = nil
				note.failsUnder |= fWITNESS
			}
			if sig != nil {
				in.Witness = wire.TxWitness{sig, thePub}
			}
		case kP2WSH:
			sig, err := txscript.RawTxInWitnessSignature(tx, sh, i, s.c.amount, witnessScript, txscript.SigHashAll, theKey)
			if err != nil {
				panic(err)
			}
			switch s.bad {
			case "sig":
				sig[10] ^= 0x01
				note.failsUnder |= fWITNESS
			case "nowit":
				sig = nil
				note.failsUnder |= fWITNESS
			}
			if sig != nil {
				in.Witness = wire.TxWitness{sig, witnessScript}
			}
		case kWDrop:
			in.Witness = wire.TxWitness{make([]byte, s.pad), dropScript}
		case kP2SHWPKH:
			sub := pkScriptOf(kP2PKH)
			sig, err := txscript.RawTxInWitnessSignature(tx, sh, i, s.c.amount, sub, txscript.SigHashAll, theKey)
			if err != nil {
				panic(err)
			}
			in.SignatureScript = push(pkScriptOf(kP2WPKH))
			switch s.bad {
			case "sig":
				sig[10] ^= 0x01
				note.failsUnder |= fWITNESS // without segwit the redeem script 0 <20 bytes> just leaves a true value
			case "nowit":
				sig = nil
				note.failsUnder |= fWITNESS
			}
			if sig != nil {
				in.Witness = wire.TxWitness{sig, thePub}
			}
		case kP2TR:
			sig, err := txscript.RawTxInTaprootSignature(tx, sh, i, s.c.amount, pk, nil, txscript.SigHashDefault, theKey)
			if err != nil {
				panic(err)
			}
			switch s.bad {
			case "sig":
				sig[10] ^= 0x01
				note.failsUnder |= fTAPROOT // v1 programs are anyone-can-spend before taproot
			case "nowit":
				sig = nil
				note.failsUnder |= fTAPROOT
			}
			if sig != nil {
				in.Witness = wire.TxWitness{sig}
			}
		}
		b.notes[noteKey{tx, i}] = note
	}
}

// nonDER re-encodes a DER signature with a superfluous leading zero in R
// (valid for the pre-BIP66 lax parser, rejected by strict DER).
func nonDER(sig []byte) []byte {
	ht := sig[len(sig)-1]
	der := sig[:len(sig)-1]
	// 0x30 len 0x02 rlen R 0x02 slen S
	rlen := int(der[3])
	r := der[4 : 4+rlen]
	rest := der[4+rlen:]
	out := []byte{0x30, byte(len(der) - 2 + 1), 0x02, byte(rlen + 1), 0x00}
	out = append(out, r...)
	out = append(out, rest...)
	return append(out, ht)
}

func txOut(v int64, k kind) *wire.TxOut { return &wire.TxOut{Value: v, PkScript: pkScriptOf(k)} }

// ---------------------------------------------------------------- blocks

var witnessMagic = []byte{txscript.OP_RETURN, txscript.OP_DATA_36, 0xaa, 0x21, 0xa9, 0xed}

func dsha(b []byte) [32]byte {
	a := sha256.Sum256(b)
	return sha256.Sum256(a[:])
}

// merkleRoot is the harness's own (naive) merkle tree over 32-byte leaves.
func merkleRoot(leaves [][32]byte) [32]byte {
	if len(leaves) == 0 {
		return [32]byte{}
	}
	lvl := leaves
	for len(lvl) > 1 {
		var next [][32]byte
		for i := 0; i < len(lvl); i += 2 {
			l := lvl[i]
			r := l
			if i+1 < len(lvl) {
				r = lvl[i+1]
			}
			next = append(next, dsha(append(append([]byte{}, l[:]...), r[:]...)))
		}
		lvl = next
	}
	return lvl[0]
}

func txidRoot(txs []*wire.MsgTx) chainhash.Hash {
	ls := make([][32]byte, len(txs))
	for i, t := range txs {
		ls[i] = t.TxHash()
	}
	return merkleRoot(ls)
}

func wtxidRoot(txs []*wire.MsgTx) chainhash.Hash {
	ls := make([][32]byte, len(txs))
	for i, t := range txs {
		if i > 0 {
			ls[i] = t.WitnessHash()
		}
	}
	return merkleRoot(ls)
}

// heightScript is the minimal BIP34 push of `h` followed by an extra-nonce push.
func heightScript(h int32, extra uint32) []byte {
	var e [4]byte
	binary.LittleEndian.PutUint32(e[:], extra)
	return cat(scriptNum(int64(h)), push(e[:]))
}

// mkCoinbase pays `outs`; sigScript given explicitly.
func mkCoinbase(sigScript []byte, outs []*wire.TxOut) *wire.MsgTx {
	tx := wire.NewMsgTx(1)
	tx.AddTxIn(&wire.TxIn{PreviousOutPoint: *wire.NewOutPoint(&chainhash.Hash{}, wire.MaxPrevOutIndex),
		SignatureScript: sigScript, Sequence: wire.MaxTxInSequenceNum})
	for _, o := range outs {
		tx.AddTxOut(o)
	}
	return tx
}

// addCommitment appends the witness commitment output and the witness nonce to the coinbase.
func addCommitment(txs []*wire.MsgTx) {
	cb := txs[0]
	nonce := make([]byte, 32)
	cb.TxIn[0].Witness = wire.TxWitness{nonce}
	root := wtxidRoot(txs)
	c := dsha(append(append([]byte{}, root[:]...), nonce...))
	cb.AddTxOut(&wire.TxOut{Value: 0, PkScript: cat(witnessMagic, c[:])})
}

// solve grinds the nonce until the header hash meets its own target.
func solve(h *wire.BlockHeader) {
	target := blockchain.CompactToBig(h.Bits)
	if target.Sign() <= 0 {
		return
	}
	for n := uint32(0); n < 1<<24; n++ {
		h.Nonce = n
		hash := h.BlockHash()
		if blockchain.HashToBig(&hash).Cmp(target) <= 0 {
			return
		}
	}
}

// unsolve grinds the nonce until the header hash EXCEEDS the target.
func unsolve(h *wire.BlockHeader) {
	target := blockchain.CompactToBig(h.Bits)
	for n := uint32(0); n < 1<<24; n++ {
		h.Nonce = n
		hash := h.BlockHash()
		if blockchain.HashToBig(&hash).Cmp(target) > 0 {
			return
		}
	}
}

func subsidyOf(height int32, interval int32) int64 {
	if interval == 0 {
		return 50e8
	}
	q := height / interval
	if q >= 64 {
		return 0
	}
	return int64(50e8) >> uint(q)
}

// versionFor gives the lowest-numbered block version acceptable at every height of variant v.
const blockVersion = 0x20000000

// assemble makes a block on top of path p from txs (coinbase first), fixing merkle root and PoW.
func assemble(p *path, ts int64, txs []*wire.MsgTx) *wire.MsgBlock {
	var mb wire.MsgBlock
	for _, t := range txs {
		mb.AddTransaction(t)
	}
	mb.Header = wire.BlockHeader{
		Version:    blockVersion,
		PrevBlock:  p.tip,
		MerkleRoot: txidRoot(txs),
		Timestamp:  time.Unix(ts, 0),
		Bits:       chaincfg.RegressionNetParams.PowLimitBits,
	}
	solve(&mb.Header)
	return &mb
}
