package p01

// p01.go: delivery contexts, Exec (the real btcd code), Generate, Facts.

import (
	"bytes"
	"encoding/hex"
	"fmt"
	"math"
	"os"
	"strings"
	"sync"
	"time"

	"github.com/btcsuite/btcd/blockchain"
	"github.com/btcsuite/btcd/btcutil/v2"
	"github.com/btcsuite/btcd/chaincfg/v2"
	"github.com/btcsuite/btcd/chainhash/v2"
	"github.com/btcsuite/btcd/database"
	_ "github.com/btcsuite/btcd/database/ffldb"
	"github.com/btcsuite/btcd/txscript/v2"
	"github.com/btcsuite/btcd/wire/v2"

	"verifharness/core"
)

type P struct{}

func (P) ID() string { return "C01" }

func timeUnix(t int64) time.Time { return time.Unix(t, 0) }

// fixedClock is the node's (adjusted) time: a constant, so that the "too far in the future" rule is decidable.
type fixedClock struct{ t *int64 }

func newClock(t int64) fixedClock { return fixedClock{&t} }

func (f fixedClock) AdjustedTime() time.Time         { return time.Unix(*f.t, 0) }
func (f fixedClock) AddTimeSample(string, time.Time) {}
func (f fixedClock) Offset() time.Duration           { return 0 }

// ---------------------------------------------------------------- scenario = deliveries around one candidate

type delivery struct {
	blk    *wire.MsgBlock
	watch  bool // the candidate or a descendant: a rule error here is the candidate's verdict
	hdr    bool // deliver only the header (ProcessBlockHeader)
	faulty bool // one database read below the connect checks fails during this delivery
	again  bool // a repeated delivery: "already have it" is an admissible answer
}

type scenario struct {
	nowAdd   int            // clock context: seconds the clock is advanced before the second delivery
	sideCoin *wire.OutPoint // an output created on the candidate's own side branch (reorg contexts)
	op       string         // blk | api
	parent   *path          // the candidate's parent path (harness's own fold)
	r        recipe
	v        variant
	bs       *base
	dels     []delivery
	cand     *wire.MsgBlock
	facts    string
	mode     string
	bip34    *chainhash.Hash
}

// plainBlock is a valid coinbase-only block on path p (p is advanced).
func plainBlock(p *path, extra uint32, dt int64) *wire.MsgBlock {
	h := p.height + 1
	cb := mkCoinbase(heightScript(h, extra), []*wire.TxOut{txOut(subsidyOf(h, p.v.subsidyIv), kTrue)})
	blk := assemble(p, p.times[len(p.times)-1]+dt, []*wire.MsgTx{cb})
	p.apply(blk)
	return blk
}

// caseNonce makes the late parent block of the orphan contexts unique per case (instances are shared).
func caseNonce(r recipe) uint32 {
	h := uint32(2166136261)
	for _, c := range []byte(r.String()) {
		h = (h ^ uint32(c)) * 16777619
	}
	return h % 1000000 * 1000
}

func findMutator(name string) *mutator {
	for i := range mutators {
		if mutators[i].name == name {
			return &mutators[i]
		}
	}
	return nil
}

func buildScenario(r recipe) *scenario {
	v := variants[r.variant]
	m := findMutator(r.mut)
	if m == nil {
		return nil
	}
	if r.ctx == "reorgW" && r.mut == "timenew" && v.bip94 {
		return nil // the block above the candidate would be a period's first block far behind its parent's claimed time
	}
	bs := buildBase(v)
	sc := &scenario{r: r, v: v, bs: bs}
	for _, b := range bs.blocks {
		sc.dels = append(sc.dels, delivery{blk: b})
	}
	n := bs.n
	if v.bip34Hash {
		h := bs.p.hashes[v.bip34H]
		sc.bip34 = &h
	}
	parent := bs.p.clone()
	var s scen
	var after []delivery
	var sibsBefore, sibsAfter []*wire.MsgBlock // sibling orphans delivered before / after the candidate
	switch r.ctx {
	case "tip", "hdr", "restart", "tmpltip":
		s = scen{n + 1, n, 1, 0, 1, 0}
	case "fault":
		// a transient backing-store failure while the reorganisation validates the candidate: the main chain has
		// one more block, the candidate is its sibling; its child triggers the reorganisation and ONE database read
		// below the connect checks fails; then the fault is gone, the child is offered again and a grandchild
		// arrives.  What counts is the state after recovery.
		main := bs.p.clone()
		m1 := plainBlock(main, 201, blockSpacing+7)
		sc.dels = append(sc.dels, delivery{blk: m1})
		s = scen{n + 3, n + 1, 1, 0, 1, 0}
	case "faulttip":
		// the same failure while the candidate itself is checked as an extension of the tip; afterwards a child
		// arrives (the candidate is then validated on the reorganisation path)
		s = scen{n + 2, n, 1, 0, 1, 0}
	case "clock":
		// the clock moves: a block that is too far in the future now is delivered again two seconds later
		// (the first rejection must leave no trace)
		sc.nowAdd = 2
		s = scen{n + 1, n, 1, 0, 1, 2}
	case "nopow":
		// ProcessBlock with BFNoPoWCheck: everything but the hash-vs-target comparison
		s = scen{n + 1, n, 1, 1, 1, 0}
	case "tmpl":
		// CheckConnectBlockTemplate on the tip: nothing is stored, proof of work is not checked
		s = scen{n, n, 0, 1, 0, 0}
	case "side2":
		// main chain: two more blocks; side chain: a plain block, then the candidate, then a child that wins
		main := bs.p.clone()
		m1 := plainBlock(main, 211, blockSpacing+7)
		m2 := plainBlock(main, 212, blockSpacing)
		s1 := plainBlock(parent, 213, blockSpacing+3)
		sc.dels = append(sc.dels, delivery{blk: m1}, delivery{blk: m2}, delivery{blk: s1})
		s = scen{n + 3, n + 2, 1, 0, 1, 0}
	case "reorgW":
		// as reorgX, but the candidate is the SECOND block of the nine-block attach list: one plain side block
		// below it, seven plain blocks above it, the last of which triggers the reorganisation
		main := bs.p.clone()
		for i := 0; i < 6; i++ {
			sc.dels = append(sc.dels, delivery{blk: plainBlock(main, uint32(221+i), 3600)})
		}
		side := newPath(v)
		for _, b := range bs.blocks[:n-2] {
			side.apply(b)
		}
		parent = side
		sc.dels = append(sc.dels, delivery{blk: plainBlock(parent, 240, blockSpacing)})
		s = scen{n + 7, n + 6, 1, 0, 1, 0}
	case "reorgX", "reorgY", "reorgZ":
		// A long reorganisation in which everything context dependent DIFFERS between the competing branch and
		// the candidate's own ancestors: the fork is two blocks below the base tip (heights, maturities and the
		// utxo set differ: base blocks n-1 and n exist only on the branch that gets detached), one branch runs on
		// timestamps an hour apart (X, Y: the main branch, so its median time is far ahead; Z: the side branch),
		// and the second side block spends an output (and creates one) that the main branch never touches.
		// X, Z: the candidate is the LAST block of a nine-block attach list and triggers the reorganisation itself;
		// Y: it is the last but one and a child triggers it.  All earlier side blocks are stored without checks.
		main := bs.p.clone()
		mainDt, sideDt := int64(3600), int64(blockSpacing)
		if r.ctx == "reorgZ" {
			mainDt, sideDt = blockSpacing, 3600
		}
		for i := 0; i < 6; i++ {
			sc.dels = append(sc.dels, delivery{blk: plainBlock(main, uint32(221+i), mainDt)})
		}
		side := newPath(v)
		for _, b := range bs.blocks[:n-2] {
			side.apply(b)
		}
		parent = side
		k := 8
		if r.ctx == "reorgY" {
			k = 7
		}
		for i := 0; i < k; i++ {
			var blk *wire.MsgBlock
			if i == 1 {
				// spends X = an output of the fan-out tx, creates Y
				x := bs.fanOp(fanTrue2 + 1)
				cx := parent.utxo[x]
				t := bs.b.mkTx(1, 0, []spend{{op: x, c: cx, seq: wire.MaxTxInSequenceNum}}, []*wire.TxOut{txOut(cx.amount-fee, kTrue)})
				h := parent.height + 1
				cb := mkCoinbase(heightScript(h, uint32(240+i)), []*wire.TxOut{txOut(subsidyOf(h, v.subsidyIv)+fee, kTrue)})
				blk = assemble(parent, parent.times[len(parent.times)-1]+sideDt, []*wire.MsgTx{cb, t})
				parent.apply(blk)
				y := wire.OutPoint{Hash: t.TxHash(), Index: 0}
				sc.sideCoin = &y
			} else {
				blk = plainBlock(parent, uint32(240+i), sideDt)
			}
			sc.dels = append(sc.dels, delivery{blk: blk})
		}
		s = scen{n + 7, n + 6, 1, 0, 1, 0}
	case "orphan2":
		// the candidate itself takes the orphan path: its parent X is a sibling of the tip that arrives later,
		// so the candidate is then connected by processOrphans through a reorganisation
		side := newPath(v)
		for _, b := range bs.blocks[:n-1] {
			side.apply(b)
		}
		parent = side
		x := plainBlock(parent, 400+caseNonce(r), blockSpacing+11)
		after = append(after, delivery{blk: x, watch: true})
		s = scen{n + 1, n, 1, 0, 1, 0}
	case "orphan3":
		// as orphan2, but the late parent X extends the tip: the candidate is connected by processOrphans directly
		x := plainBlock(parent, 400+caseNonce(r), blockSpacing+11)
		after = append(after, delivery{blk: x, watch: true})
		s = scen{n + 2, n + 1, 1, 0, 1, 0}
	case "orphan4", "orphan5":
		// several sibling orphans wait for ONE missing parent X (which extends the tip and arrives last):
		// orphan4: a valid sibling, the candidate, another valid sibling; orphan5: three valid siblings, then the
		// candidate.  A child of the candidate waits as an orphan of the candidate.  When X arrives the first
		// sibling becomes the tip, the others are side blocks, and the candidate's child then wins by reorganisation.
		x := plainBlock(parent, 400+caseNonce(r), blockSpacing+11)
		k := 1
		if r.ctx == "orphan5" {
			k = 3
		}
		for i := 0; i < k; i++ {
			q := parent.clone()
			sibsBefore = append(sibsBefore, plainBlock(q, uint32(500+i)+caseNonce(r), blockSpacing+int64(i)))
		}
		if r.ctx == "orphan4" {
			q := parent.clone()
			sibsAfter = append(sibsAfter, plainBlock(q, 510+caseNonce(r), blockSpacing+5))
		}
		after = append(after, delivery{blk: x, watch: true})
		s = scen{n + 3, n + 2, 1, 0, 1, 0}
	case "fork":
		// an unrelated side chain of equal length off block n-2, plus an unrelated orphan, come first
		side := newPath(v)
		for _, b := range bs.blocks[:n-2] {
			side.apply(b)
		}
		f1 := plainBlock(side, 101, blockSpacing+1)
		f2 := plainBlock(side, 102, blockSpacing)
		f3 := plainBlock(side, 103, blockSpacing)
		f4 := plainBlock(side, 104, blockSpacing)
		_ = f3
		sc.dels = append(sc.dels, delivery{blk: f1}, delivery{blk: f2}, delivery{blk: f4})
		s = scen{n + 1, n, 1, 0, 1, 0}
	case "side":
		// the main chain gets one more block first; the candidate is its sibling and wins with a child
		main := bs.p.clone()
		m1 := plainBlock(main, 201, blockSpacing+7)
		sc.dels = append(sc.dels, delivery{blk: m1})
		s = scen{n + 2, n + 1, 1, 0, 1, 0}
	case "orphan", "shuffle":
		s = scen{n + 2, n, 1, 0, 1, 0}
	default:
		return nil
	}
	c := newCand(bs, parent)
	c.sideCoin = sc.sideCoin
	if !m.applies(v, c.height) {
		return nil
	}
	m.f(c, r.arg)
	sc.cand = c.block()
	sc.parent = parent
	sc.mode = c.mode
	sc.facts = describe(parent, bs.b, sc.cand, v.bip34Hash, s)
	// a child of the candidate (valid given a valid candidate)
	child := func() *wire.MsgBlock {
		q := parent.clone()
		q.height++
		q.tip = sc.cand.BlockHash()
		q.times = append(q.times, parent.times[len(parent.times)-1]+blockSpacing)
		return plainBlock(q, 301, blockSpacing)
	}
	switch r.ctx {
	case "shuffle":
		// base chain, candidate and a child of the candidate, all delivered in a permutation fixed by the recipe
		// (blocks whose parents are missing wait in the orphan pool); an error anywhere is the candidate's verdict
		all := []delivery{{blk: sc.cand, watch: true}, {blk: child(), watch: true}}
		for _, d := range sc.dels {
			all = append(all, delivery{blk: d.blk, watch: true})
		}
		x := uint64(caseNonce(r))*2654435761 + 12345
		for i := len(all) - 1; i > 0; i-- {
			x = x*6364136223846793005 + 1442695040888963407
			j := int((x >> 33) % uint64(i+1))
			all[i], all[j] = all[j], all[i]
		}
		sc.dels = all
	case "hdr":
		// headers first: the header is offered before the block
		sc.dels = append(sc.dels, delivery{blk: sc.cand, watch: true, hdr: true}, delivery{blk: sc.cand, watch: true})
	case "orphan4", "orphan5":
		for _, b := range sibsBefore {
			sc.dels = append(sc.dels, delivery{blk: b, watch: true})
		}
		sc.dels = append(sc.dels, delivery{blk: sc.cand, watch: true})
		for _, b := range sibsAfter {
			sc.dels = append(sc.dels, delivery{blk: b, watch: true})
		}
		sc.dels = append(sc.dels, delivery{blk: child(), watch: true})
	case "fault":
		c1 := child()
		q := parent.clone()
		q.apply(sc.cand)
		q.times[len(q.times)-1] = parent.times[len(parent.times)-1] + blockSpacing
		q.apply(c1)
		c2 := plainBlock(q, 302, blockSpacing)
		sc.dels = append(sc.dels, delivery{blk: sc.cand, watch: true}, delivery{blk: c1, watch: true, faulty: true},
			delivery{blk: c1, watch: true, again: true}, delivery{blk: c2, watch: true})
	case "faulttip":
		sc.dels = append(sc.dels, delivery{blk: sc.cand, watch: true, faulty: true}, delivery{blk: child(), watch: true})
	case "reorgW":
		sc.dels = append(sc.dels, delivery{blk: sc.cand, watch: true})
		q := parent.clone()
		q.apply(sc.cand)
		// the blocks above run on their own ordinary clock, whatever time the candidate claims
		q.times[len(q.times)-1] = parent.times[len(parent.times)-1] + blockSpacing
		for i := 0; i < 7; i++ {
			sc.dels = append(sc.dels, delivery{blk: plainBlock(q, uint32(260+i), blockSpacing), watch: true})
		}
	case "tip", "fork", "tmpl", "orphan2", "orphan3", "nopow", "restart", "tmpltip", "clock":
		sc.dels = append(sc.dels, delivery{blk: sc.cand, watch: true})
	case "reorgX", "reorgZ":
		sc.dels = append(sc.dels, delivery{blk: sc.cand, watch: true})
	case "side", "side2", "reorgY":
		sc.dels = append(sc.dels, delivery{blk: sc.cand, watch: true}, delivery{blk: child(), watch: true})
	case "orphan":
		sc.dels = append(sc.dels, delivery{blk: child(), watch: true}, delivery{blk: sc.cand, watch: true})
	}
	sc.dels = append(sc.dels, after...)
	return sc
}

func (sc *scenario) line() string { return "C01 " + sc.body() }

func hexBlock(b *wire.MsgBlock) string { return hex.EncodeToString(serialize(b)) }

func depTok(bit int, h int32) string {
	return fmt.Sprintf("%d:%d:-:0:0:%d", bit, int64(math.MaxInt32), h)
}

// rawBody renders the raw form of the case: network parameters as chaincfg has them, the clock, the scenario
// expectations, the script oracle bits, the serialized candidate and its serialized ancestor chain.
func (sc *scenario) rawBody() string {
	v := sc.v
	p := chaincfg.RegressionNetParams
	var sb strings.Builder
	bh := "-"
	if sc.bip34 != nil {
		bh = hex.EncodeToString(sc.bip34[:])
	}
	fmt.Fprintf(&sb, "rblk %s %s %d,%d,%d,%d,%d,%d,%x,%x,1,%d,%d,%d,%d,%d,%d,%d,%s", sc.mode, sc.r.String(),
		v.bip34H, v.bip65H, v.bip66H, b2i(v.bip94), v.maturity, v.subsidyIv, p.PowLimit, p.PowLimitBits,
		b2i(p.ReduceMinDifficulty), int64(p.MinDiffReductionTime/time.Second), int64(v.bpr)*600, 600,
		p.RetargetAdjustmentFactor, p.MinerConfirmationWindow, p.RuleChangeActivationThreshold, bh)
	fmt.Fprintf(&sb, " %s %s %s %d", depTok(0, v.csvH), depTok(1, v.segH), depTok(2, v.tapH), v.now()+int64(sc.nowAdd))
	// the S token is the fifth token of the facts
	sb.WriteString(" " + strings.Fields(sc.facts)[4] + " ")
	for ti, t := range sc.cand.Transactions {
		if ti > 0 {
			sb.WriteString("/")
		}
		if len(t.TxIn) == 0 {
			sb.WriteString("~")
		}
		for ii := range t.TxIn {
			if ii > 0 {
				sb.WriteString(",")
			}
			n := sc.bs.b.notes[noteKey{t, ii}]
			fmt.Fprintf(&sb, "%d.%d", b2i(n.failsAlways), n.failsUnder)
		}
	}
	if len(sc.cand.Transactions) == 0 {
		sb.WriteString("~")
	}
	sb.WriteString(" " + hexBlock(sc.cand))
	sb.WriteString(" " + hexBlock(chaincfg.RegressionNetParams.GenesisBlock))
	for _, b := range sc.parent.blocks {
		sb.WriteString(" " + hexBlock(b))
	}
	return sb.String()
}

func (sc *scenario) body() string {
	op := sc.op
	if op == "" {
		op = "blk"
	}
	if op == "rblk" {
		return sc.rawBody()
	}
	if op == "rcmp" {
		// facts and raw data side by side
		raw := strings.SplitN(sc.rawBody(), " ", 4)[3] // drop "rblk mode recipe"
		return fmt.Sprintf("rcmp %s %s %s # %s", sc.mode, sc.r.String(), sc.facts, raw)
	}
	return fmt.Sprintf("%s %s %s %s", op, sc.mode, sc.r.String(), sc.facts)
}

// ---------------------------------------------------------------- Exec: the real code

// tmpRoot prefers a memory-backed directory (the databases live for milliseconds).
func tmpRoot() string {
	if st, err := os.Stat("/dev/shm"); err == nil && st.IsDir() {
		return "/dev/shm"
	}
	return ""
}

var classOf = map[blockchain.ErrorCode]string{
	blockchain.ErrUnexpectedDifficulty:      "difficulty",
	blockchain.ErrHighHash:                  "highhash",
	blockchain.ErrTimeTooOld:                "time-old",
	blockchain.ErrTimeTooNew:                "time-new",
	blockchain.ErrTimewarpAttack:            "timewarp",
	blockchain.ErrBlockVersionTooOld:        "version",
	blockchain.ErrNoTransactions:            "notx",
	blockchain.ErrBlockTooBig:               "size",
	blockchain.ErrBlockWeightTooHigh:        "size",
	blockchain.ErrTxTooBig:                  "size",
	blockchain.ErrFirstTxNotCoinbase:        "coinbase-pos",
	blockchain.ErrMultipleCoinbases:         "coinbase-pos",
	blockchain.ErrNoTxInputs:                "tx-empty",
	blockchain.ErrNoTxOutputs:               "tx-empty",
	blockchain.ErrBadTxOutValue:             "value",
	blockchain.ErrSpendTooHigh:              "spend",
	blockchain.ErrDuplicateTxInputs:         "dup-inputs",
	blockchain.ErrBadCoinbaseScriptLen:      "cb-script-len",
	blockchain.ErrBadTxInput:                "null-prevout",
	blockchain.ErrBadMerkleRoot:             "merkle",
	blockchain.ErrDuplicateTx:               "dup-tx",
	blockchain.ErrTooManySigOps:             "sigops",
	blockchain.ErrUnfinalizedTx:             "nonfinal",
	blockchain.ErrMissingCoinbaseHeight:     "bip34",
	blockchain.ErrBadCoinbaseHeight:         "bip34",
	blockchain.ErrUnexpectedWitness:         "witness",
	blockchain.ErrInvalidWitnessCommitment:  "witness",
	blockchain.ErrWitnessCommitmentMismatch: "witness",
	blockchain.ErrOverwriteTx:               "bip30",
	blockchain.ErrMissingTxOut:              "missing",
	blockchain.ErrImmatureSpend:             "immature",
	blockchain.ErrBadFees:                   "fees",
	blockchain.ErrBadCoinbaseValue:          "cb-value",
	blockchain.ErrScriptMalformed:           "script",
	blockchain.ErrScriptValidation:          "script",
}

// inst is a chain instance that several cases may share: it holds the scaffold of one
// (variant, cache mode, context) and is reused as long as the active tip is still the scaffold tip,
// i.e. after candidates that were rejected.  (That a rejected block leaves no trace which could
// change a later verdict is part of the property; a replayed line always starts from a fresh instance.)
type inst struct {
	key       string
	chain     *blockchain.BlockChain
	db        database.DB
	dir       string
	delivered map[chainhash.Hash]bool
	tip       chainhash.Hash
	clock     fixedClock
	fault     faultDB
}

func (i *inst) close() {
	i.db.Close()
	os.RemoveAll(i.dir)
}

var pool []*inst // most recently used last

const poolMax = 12

// sweepStale removes the database directories left behind by earlier runs: a directory is named
// c01-<pid>-… and is stale once that process is gone (or, for the old naming, after half an hour).
func sweepStale() {
	root := tmpRoot()
	if root == "" {
		root = os.TempDir()
	}
	ents, _ := os.ReadDir(root)
	for _, e := range ents {
		if !strings.HasPrefix(e.Name(), "c01-") {
			continue
		}
		f := strings.Split(e.Name(), "-")
		if len(f) >= 3 {
			if _, err := os.Stat("/proc/" + f[1]); err == nil {
				continue // still running
			}
			os.RemoveAll(root + "/" + e.Name())
			continue
		}
		if fi, err := e.Info(); err == nil && time.Since(fi.ModTime()) > 30*time.Minute {
			os.RemoveAll(root + "/" + e.Name())
		}
	}
}

var swept bool

var nInst int

func newInst(sc *scenario, key string) (*inst, string) {
	nInst++
	if os.Getenv("VERIF_DEBUG") != "" && nInst%50 == 0 {
		fmt.Fprintf(os.Stderr, "c01: %d chain instances so far\n", nInst)
	}
	if !swept {
		swept = true
		sweepStale()
	}
	p := sc.v.params()
	if sc.bip34 != nil {
		p.BIP0034Hash = sc.bip34
	}
	root := tmpRoot()
	if root == "" {
		root = os.TempDir()
	}
	dir, err := os.MkdirTemp(root, fmt.Sprintf("c01-%d-", os.Getpid()))
	if err != nil {
		return nil, "err:tmp"
	}
	db, err := database.Create("ffldb", dir, p.Net)
	if err != nil {
		os.RemoveAll(dir)
		return nil, "err:db"
	}
	clock := newClock(sc.v.now())
	fdb := newFaultDB(db)
	chain, err := blockchain.New(chainConfig(sc, fdb, p, sc.r.cache, clock))
	if err != nil {
		db.Close()
		os.RemoveAll(dir)
		return nil, "err:new"
	}
	return &inst{key: key, chain: chain, db: db, dir: dir, delivered: map[chainhash.Hash]bool{}, clock: clock, fault: fdb}, ""
}

var instMu sync.Mutex

const parRepeat = 15

// scaffold delivers the scenario's unwatched blocks to a fresh instance (and, in the restart context, closes the
// database WITHOUT flushing the utxo cache and reopens it with the other cache size).
func scaffold(sc *scenario, key string) (*inst, string) {
	instMu.Lock()
	in, e := newInst(sc, key)
	instMu.Unlock()
	if in == nil {
		return nil, e
	}
	for i, d := range sc.dels {
		if d.watch {
			continue
		}
		if _, _, err := in.chain.ProcessBlock(btcutil.NewBlock(d.blk), blockchain.BFNone); err != nil {
			in.close()
			if re, ok := err.(blockchain.RuleError); ok {
				return nil, fmt.Sprintf("err:scaffold@%d:%v", i, re.ErrorCode)
			}
			return nil, fmt.Sprintf("err:internal@%d", i)
		}
		in.delivered[d.blk.BlockHash()] = true
	}
	if sc.r.ctx == "restart" {
		if e := in.reopen(sc); e != "" {
			in.close()
			return nil, e
		}
	}
	in.tip = in.chain.BestSnapshot().Hash
	return in, ""
}

// one signature cache and one sighash cache for ALL chain instances and stand-alone script checks of the run:
// option objects are created once and reused, sequentially and from concurrent goroutines
var (
	sharedSigCache  = txscript.NewSigCache(20000)
	sharedHashCache = txscript.NewHashCache(20000)
)

func chainConfig(sc *scenario, db database.DB, p *chaincfg.Params, cacheMode int, clock fixedClock) *blockchain.Config {
	cache := uint64(0)
	if cacheMode == 1 {
		cache = 4 << 20
	}
	return &blockchain.Config{
		DB: db, ChainParams: p, TimeSource: clock, UtxoCacheMaxSize: cache,
		SigCache: sharedSigCache, HashCache: sharedHashCache,
	}
}

// reopen simulates a new life of the node on the same data with a different configuration.
func (in *inst) reopen(sc *scenario) string {
	in.db.Close()
	p := sc.v.params()
	if sc.bip34 != nil {
		p.BIP0034Hash = sc.bip34
	}
	db, err := database.Open("ffldb", in.dir, p.Net)
	if err != nil {
		return "err:reopen-db"
	}
	in.db = db
	in.fault = newFaultDB(db)
	chain, err := blockchain.New(chainConfig(sc, in.fault, p, 1-sc.r.cache, in.clock))
	if err != nil {
		return "err:reopen-chain"
	}
	in.chain = chain
	return ""
}

// acquire returns an instance with the scenario's scaffold delivered.
func acquire(sc *scenario) (*inst, string) {
	key := fmt.Sprintf("v%d.c%d.%s", sc.r.variant, sc.r.cache, sc.r.ctx)
	for k, in := range pool {
		if in.key != key {
			continue
		}
		pool = append(pool[:k], pool[k+1:]...)
		fresh := true
		for _, d := range sc.dels {
			if d.watch && in.delivered[d.blk.BlockHash()] {
				fresh = false
			}
		}
		if fresh && os.Getenv("VERIF_C01_NOREUSE") == "" {
			return in, ""
		}
		in.close()
		break
	}
	return scaffold(sc, key)
}

func release(in *inst) {
	if in.chain.BestSnapshot().Hash != in.tip {
		in.close()
		return
	}
	pool = append(pool, in)
	if len(pool) > poolMax {
		pool[0].close()
		pool = pool[1:]
	}
}

func ruleClass(err error) (string, bool) {
	re, ok := err.(blockchain.RuleError)
	if !ok {
		return "", false
	}
	cls, ok := classOf[re.ErrorCode]
	if !ok {
		cls = "other-" + re.ErrorCode.String()
	}
	return cls, true
}

func serialize(b *wire.MsgBlock) []byte {
	var buf bytes.Buffer
	b.Serialize(&buf)
	return buf.Bytes()
}

type entrySnap struct {
	e      *blockchain.UtxoEntry
	amount int64
	spent  bool
	height int32
}

func (sc *scenario) run() string {
	in, e := acquire(sc)
	if in == nil {
		return e
	}
	out, reusable := sc.runOn(in)
	if reusable {
		release(in)
	} else {
		in.close()
	}
	return out
}

// runOn delivers the watched blocks to an instance that already holds the scaffold.
func (sc *scenario) runOn(in *inst) (string, bool) {
	chain := in.chain
	// "results are values": things observed BEFORE the deliveries must read the same AFTER them
	value := ""
	candBytes := serialize(sc.cand)
	snapPtr := chain.BestSnapshot()
	snapCopy := *snapPtr
	var snaps []entrySnap
	if len(sc.cand.Transactions) > 1 {
		if view, err := chain.FetchUtxoView(btcutil.NewTx(sc.cand.Transactions[1])); err == nil {
			for _, e := range view.Entries() {
				if e != nil {
					snaps = append(snaps, entrySnap{e, e.Amount(), e.IsSpent(), e.BlockHeight()})
				}
			}
		}
	}
	verdict := ""
	note := func(err error, i int) bool {
		if err == nil {
			return true
		}
		cls, ok := ruleClass(err)
		if !ok {
			verdict = fmt.Sprintf("err:internal@%d", i)
			return false
		}
		if verdict == "" {
			verdict = cls
		}
		return true
	}
	for i, d := range sc.dels {
		if !d.watch {
			continue
		}
		in.delivered[d.blk.BlockHash()] = true
		var err error
		switch {
		case sc.r.ctx == "tmpl":
			err = chain.CheckConnectBlockTemplate(btcutil.NewBlock(d.blk))
		case d.hdr:
			_, err = chain.ProcessBlockHeader(&d.blk.Header, blockchain.BFNone, false)
		case sc.r.ctx == "nopow":
			_, _, err = chain.ProcessBlock(btcutil.NewBlock(d.blk), blockchain.BFNoPoWCheck)
		case sc.r.ctx == "tmpltip":
			// the template check first, twice, then the delivery: all three must agree
			// ONE block object for all three calls (it caches hashes, bytes and the height)
			same := btcutil.NewBlock(d.blk)
			t1, t2 := chain.CheckConnectBlockTemplate(same), chain.CheckConnectBlockTemplate(same)
			_, _, err = chain.ProcessBlock(same, blockchain.BFNone)
			c1, _ := ruleClass(t1)
			c2, _ := ruleClass(t2)
			c3, _ := ruleClass(err)
			if (t1 == nil) != (err == nil) || (t2 == nil) != (err == nil) || c1 != c3 || c2 != c3 {
				value = "template:" + c1 + "/" + c2 + "/" + c3
			}
		case sc.r.ctx == "clock":
			_, _, err = chain.ProcessBlock(btcutil.NewBlock(d.blk), blockchain.BFNone)
			if c, ok := ruleClass(err); err != nil && ok && c == "time-new" {
				*in.clock.t += int64(sc.nowAdd)
				_, _, err = chain.ProcessBlock(btcutil.NewBlock(d.blk), blockchain.BFNone)
				*in.clock.t -= int64(sc.nowAdd)
			}
		case d.faulty:
			in.fault.arm()
			_, _, err = chain.ProcessBlock(btcutil.NewBlock(d.blk), blockchain.BFNone)
			if fired := in.fault.disarm(); fired && err != nil {
				if _, isRule := err.(blockchain.RuleError); !isRule {
					err = nil // the injected failure surfaced as a non-rule error: admissible, the node retries later
				}
			}
		case d.again:
			_, _, err = chain.ProcessBlock(btcutil.NewBlock(d.blk), blockchain.BFNone)
			if re, ok := err.(blockchain.RuleError); ok && re.ErrorCode == blockchain.ErrDuplicateBlock {
				err = nil
			}
		default:
			_, _, err = chain.ProcessBlock(btcutil.NewBlock(d.blk), blockchain.BFNone)
		}
		if !note(err, i) {
			return verdict, false
		}
	}
	if !bytes.Equal(candBytes, serialize(sc.cand)) {
		value = "block-mutated"
	}
	if sc.r.ctx != "tmpl" && *snapPtr != snapCopy {
		value = "snapshot-mutated"
	}
	for _, s := range snaps {
		if s.e.Amount() != s.amount || s.e.IsSpent() != s.spent || s.e.BlockHeight() != s.height {
			value = "view-mutated"
		}
	}
	best := chain.BestSnapshot()
	ch := sc.cand.BlockHash()
	inMain := b2i(chain.MainChainHasBlock(&ch))
	have, _ := chain.HaveBlock(&ch)
	tail := fmt.Sprintf("in=%d h=%d st=%d", inMain, best.Height, b2i(have))
	if value != "" {
		tail += " value=" + value
	}
	reusable := best.Hash == in.tip
	if verdict == "" {
		return "accept " + tail, reusable
	}
	if sc.mode == "VC" {
		return "reject:" + verdict + " " + tail, reusable
	}
	return "reject " + tail, reusable
}

var scMemo = map[string]*scenario{}

// scenarioOf rebuilds (or fetches) the scenario of the case whose tokens start at tok[0] = op.
func scenarioOf(tok []string) (*scenario, string) {
	if len(tok) < 3 || (tok[0] != "blk" && tok[0] != "api" && tok[0] != "rblk" && tok[0] != "rcmp") {
		return nil, "bad-op"
	}
	r, ok := parseRecipe(tok[2])
	if !ok {
		return nil, "bad-op"
	}
	key := tok[0] + ":" + tok[2]
	sc := scMemo[key]
	delete(scMemo, key)
	if sc == nil {
		sc = buildScenario(r)
		if sc != nil {
			sc.op = tok[0]
		}
	}
	if sc == nil {
		return nil, "bad-op"
	}
	// the facts on the line must be the ones this recipe yields (keeps corpus lines honest)
	if sc.body() != strings.Join(tok, " ") {
		return nil, "facts-mismatch"
	}
	return sc, ""
}

func (P) Exec(line string) string {
	tok := strings.Fields(line)
	if len(tok) < 2 || tok[0] != "C01" {
		return "bad-op"
	}
	switch tok[1] {
	case "par":
		return execPar(tok[2:])
	case "txs":
		return execTxs(tok[2:])
	case "cbh":
		return execCbh(tok[2:])
	case "sub":
		return execSub(tok[2:])
	}
	sc, e := scenarioOf(tok[1:])
	if sc == nil {
		return e
	}
	if sc.op == "api" {
		return sc.api()
	}
	if sc.op == "rcmp" {
		return "same" // the line is what this recipe yields (checked above); Lean compares the two descriptions
	}
	return sc.run()
}

// execPar runs the cases of a `par` line concurrently, each on its own fresh chain instance, started at
// different offsets; the answers are joined in line order.
func execPar(tok []string) string {
	var groups [][]string
	cur := []string{}
	for _, t := range tok {
		if t == "|" {
			groups = append(groups, cur)
			cur = []string{}
		} else {
			cur = append(cur, t)
		}
	}
	groups = append(groups, cur)
	scs := make([]*scenario, len(groups))
	outs := make([]string, len(groups))
	for i, g := range groups {
		sc, e := scenarioOf(g)
		if sc == nil {
			outs[i] = e
		}
		scs[i] = sc
	}
	var wg sync.WaitGroup
	for i, sc := range scs {
		if sc == nil {
			continue
		}
		wg.Add(1)
		go func(i int, sc *scenario) {
			defer wg.Done()
			defer func() {
				if r := recover(); r != nil {
					outs[i] = "panic"
				}
			}()
			time.Sleep(time.Duration(i%4) * 3 * time.Millisecond)
			in, e := scaffold(sc, "par")
			if in == nil {
				outs[i] = e
				return
			}
			defer in.close()
			if sc.op == "api" {
				// a pure function of the candidate: asked repeatedly while the other goroutines do the same,
				// every answer must be the first one
				outs[i] = sc.apiOn(in)
				for k := 0; k < parRepeat; k++ {
					if again := sc.apiOn(in); again != outs[i] {
						outs[i] = "unstable"
						break
					}
				}
				return
			}
			outs[i], _ = sc.runOn(in)
		}(i, sc)
	}
	wg.Wait()
	return strings.Join(outs, " | ")
}

// ---------------------------------------------------------------- Generate

func (P) Generate(g *core.Gen) {
	generate(g.R, g.Thorough(), g.Case)
}

// Lines is the generated case list (for the debugging command).
func Lines(seed uint64, thorough bool) []string {
	var out []string
	generate(core.NewRand(seed), thorough, func(_ string, _ bool, l string) { out = append(out, l) })
	return out
}

// rawWanted: a third of the deliveries go out in raw form (all of them in the thorough tier for small candidates);
// big candidates stay in fact form (the script walkers of the sibling models recurse per opcode).
func rawWanted(R *core.Rand, thorough bool, sc *scenario) bool {
	if !rawOk(sc) {
		return false
	}
	return thorough && R.Chance(1, 2) || R.Chance(1, 3)
}

func rawOk(sc *scenario) bool {
	if sc.cand.SerializeSize() > 40000 || len(sc.cand.Transactions) == 0 {
		return false
	}
	for _, t := range sc.cand.Transactions {
		if len(t.TxIn) == 0 {
			return false // not serializable unambiguously
		}
	}
	return true
}

// contextSensitive: mutators about rules that read the candidate's own ancestors (times, heights, utxo set).
var contextSensitive = map[string]bool{"valid": true, "bip68t": true, "bip68h": true, "locktime": true, "timeold": true,
	"maturity": true, "maturity2": true, "respend": true, "otherbranch": true, "sidecoin": true, "cbvalue": true,
	"bip34": true, "doublespend": true, "seqbits": true}

func generate(R *core.Rand, thorough bool, emit func(class string, nontrivial bool, line string)) {
	genSolo(R.Fork(), thorough, emit)
	var parPool []string    // bodies of blk cases that may be bundled into concurrent runs
	var stressPool []string // bodies of api cases on many-transaction candidates (deep merkle trees, many scripts)
	defer func() {
		// `par` stress: 8 stand-alone-check cases at a time, each repeated while the others run
		lines := 1
		if thorough {
			lines = 3
		}
		for k := 0; k < lines && len(stressPool) >= 8; k++ {
			var bodies []string
			for j := 0; j < 8; j++ {
				bodies = append(bodies, stressPool[(k*8+j)%len(stressPool)])
			}
			emit("par-api", true, "C01 par "+strings.Join(bodies, " | "))
		}
		// `par`: 8 cases per line, each on its own fresh instance, run concurrently
		n := 6
		if thorough {
			n = 40
		}
		for k := 0; k < n && len(parPool) >= 8; k++ {
			var bodies []string
			seen := map[string]bool{}
			for len(bodies) < 8 {
				b := parPool[R.Intn(len(parPool))]
				if !seen[b] {
					seen[b] = true
					bodies = append(bodies, b)
				}
			}
			emit("par", true, "C01 par "+strings.Join(bodies, " | "))
		}
	}()
	ctxs := []string{"tip", "side", "orphan", "fork", "side2", "tmpl", "orphan2", "orphan3", "hdr", "shuffle", "nopow", "restart", "tmpltip", "reorgX", "reorgY", "reorgZ", "reorgW", "clock", "orphan4", "orphan5", "fault", "faulttip"}
	for vi, v := range variants {
		for _, m := range mutators {
			if !m.applies(v, v.baseLen()+1) {
				continue
			}
			for ai, a := range m.args {
				if m.name == "combo" || m.name == "pos" {
					// pairs of mutators / moved violations: a seeded sample, one context each
					// (quick: 12 pairs and 16 moves per variant, thorough: 60 and 60)
					lim := 12
					if m.name == "pos" {
						lim = 16
					}
					if thorough {
						lim = 60
					}
					if ai >= lim {
						break
					}
					a = m.args[R.Intn(len(m.args))]
					r := recipe{vi, ctxs[R.Intn(len(ctxs))], R.Intn(2), m.name, a}
					if sc := buildScenario(r); sc != nil && (m.name == "pos" || r.ctx != "tmpltip") {
						if _, dup := scMemo["blk:"+r.String()]; !dup {
							scMemo["blk:"+r.String()] = sc
							emit(m.name+"/"+r.ctx, true, sc.line())
						}
					}
					continue
				}
				// quick: every (variant, mutator, arg) in two or three different contexts, cache mode by the seed chosen by the seed; thorough: all contexts x both cache modes
				var picks []recipe
				if thorough {
					// every context class, each for two thirds of the (variant, mutator, argument) triples
					for _, c := range ctxs {
						if R.Chance(2, 3) {
							picks = append(picks, recipe{vi, c, R.Intn(2), m.name, a})
						}
					}
				} else {
					// one context, a second different one a third of the time
					k := R.Intn(len(ctxs))
					picks = append(picks, recipe{vi, ctxs[k], R.Intn(2), m.name, a})
					if R.Chance(1, 3) {
						k2 := (k + 1 + R.Intn(len(ctxs)-1)) % len(ctxs)
						picks = append(picks, recipe{vi, ctxs[k2], R.Intn(2), m.name, a})
					}
				}
				if m.name == "manytx" && !thorough && vi != 0 && vi != 1 && vi != 5 {
					continue // 250 transactions per candidate: keep the quick tier quick
				}
				if m.name != "combo" && m.name != "pos" && (thorough || m.name == "manytx" || R.Chance(1, 3)) {
					r := recipe{vi, "tip", R.Intn(2), m.name, a}
					if sc := buildScenario(r); sc != nil {
						sc.op = "api"
						scMemo["api:"+r.String()] = sc
						emit("api/"+m.name, true, sc.line())
						if m.name != "manytx" && rawOk(sc) && (thorough || R.Chance(1, 4)) {
							sc2 := *sc
							sc2.op = "rcmp"
							scMemo["rcmp:"+r.String()] = &sc2
							emit("rcmp/"+m.name, true, sc2.line())
						}
						if m.name == "manytx" {
							stressPool = append(stressPool, sc.body())
						}
					}
				}
				if !thorough && contextSensitive[m.name] && (vi == 0 || vi == 1 || vi == 4 || vi == 5) {
					// rules whose verdict depends on the block's own ancestors: always through a long reorganisation;
					// the relations the seeded changes C01-a / C01-b live on, through all four of them
					reorgs := []string{"reorgX", "reorgY", "reorgZ", "reorgW"}
					if (m.name == "bip68t" || m.name == "respend" || m.name == "otherbranch") && (vi == 0 || vi == 5) {
						for _, c := range reorgs {
							picks = append(picks, recipe{vi, c, R.Intn(2), m.name, a})
						}
					} else {
						picks = append(picks, recipe{vi, reorgs[R.Intn(4)], R.Intn(2), m.name, a})
					}
				}
				if !thorough && m.name == "valid" {
					// delivery-order completeness: the valid candidate among several sibling orphans of one parent
					picks = append(picks, recipe{vi, "orphan4", R.Intn(2), m.name, a}, recipe{vi, "orphan5", R.Intn(2), m.name, a})
				}
				if !thorough && (m.name == "valid" || m.name == "badsig" || m.name == "maturity") && (vi == 0 || vi == 1 || vi == 5) {
					// recovery from a transient read failure inside the connect checks
					picks = append(picks, recipe{vi, "fault", 0, m.name, a}, recipe{vi, "faulttip", 0, m.name, a})
				}
				if !thorough && m.name == "timenew" {
					picks = append(picks, recipe{vi, "clock", R.Intn(2), m.name, a}) // the clock context is about this rule
				}
				for _, r := range picks {
					if r.ctx == "tmpltip" && (m.name == "highhash" || (m.name == "bits" && (a == 0x1d00ffff || a == 0 || a == 0x20800001))) {
						continue // template check and delivery differ by design on the hash comparison
					}
					if (m.name == "weight" || m.name == "basesize") && !thorough && vi != 0 && vi != 1 && vi != 2 {
						continue
					}
					sc := buildScenario(r)
					if sc == nil {
						continue
					}
					if rawWanted(R, thorough, sc) {
						// the same delivery, the description derived by Lean from the raw bytes
						sc.op = "rblk"
						scMemo["rblk:"+r.String()] = sc
						emit("raw/"+m.name+"/"+r.ctx, m.name != "valid", sc.line())
						continue
					}
					scMemo["blk:"+r.String()] = sc
					emit(m.name+"/"+r.ctx, m.name != "valid", sc.line())
					if len(sc.facts) < 4000 && r.ctx != "tmpltip" {
						parPool = append(parPool, sc.body())
					}
				}
			}
		}
	}
}

// ---------------------------------------------------------------- Facts (T2)

func (P) Facts() []core.Fact {
	c := blockchain.VerifConstsC01()
	return []core.Fact{
		{Name: "baseSubsidy", Value: c["baseSubsidy"]},
		{Name: "medianTimeBlocks", Value: c["medianTimeBlocks"]},
		{Name: "maxTimeWarpSecs", Value: c["maxTimeWarpSecs"]},
		{Name: "serializedHeightVersion", Value: c["serializedHeightVersion"]},
		{Name: "bip34ReenableBIP30Height", Value: c["bip34ReenableBIP30Height"]},
		{Name: "coinbaseWitnessDataLen", Value: blockchain.CoinbaseWitnessDataLen},
		{Name: "coinbaseWitnessPkScriptLength", Value: blockchain.CoinbaseWitnessPkScriptLength},
		{Name: "maxBlockBaseSize", Value: blockchain.MaxBlockBaseSize},
		{Name: "maxBlockWeight", Value: blockchain.MaxBlockWeight},
		{Name: "maxBlockSigOpsCost", Value: blockchain.MaxBlockSigOpsCost},
		{Name: "witnessScaleFactor", Value: blockchain.WitnessScaleFactor},
		{Name: "maxTimeOffsetSeconds", Value: blockchain.MaxTimeOffsetSeconds},
		{Name: "minCoinbaseScriptLen", Value: blockchain.MinCoinbaseScriptLen},
		{Name: "maxCoinbaseScriptLen", Value: blockchain.MaxCoinbaseScriptLen},
		{Name: "maxSatoshi", Value: int64(btcutil.MaxSatoshi)},
		{Name: "lockTimeThreshold", Value: int64(txscript.LockTimeThreshold)},
		{Name: "bip16Activation", Value: txscript.Bip16Activation.Unix()},
		{Name: "sequenceLockTimeDisabled", Value: int64(wire.SequenceLockTimeDisabled)},
		{Name: "sequenceLockTimeIsSeconds", Value: int64(wire.SequenceLockTimeIsSeconds)},
		{Name: "sequenceLockTimeMask", Value: int64(wire.SequenceLockTimeMask)},
		{Name: "sequenceLockTimeGranularity", Value: int64(wire.SequenceLockTimeGranularity)},
		{Name: "maxTxInSequenceNum", Value: int64(wire.MaxTxInSequenceNum)},
		{Name: "regtestPowLimitBits", Value: int64(chaincfg.RegressionNetParams.PowLimitBits)},
	}
}

// LineOf renders the protocol line of one recipe ("" if the recipe does not apply).
func LineOf(rs string) string {
	op := ""
	if i := strings.Index(rs, ":"); i > 0 {
		op, rs = rs[:i], rs[i+1:]
	}
	r, ok := parseRecipe(rs)
	if !ok {
		return ""
	}
	sc := buildScenario(r)
	if sc == nil {
		return ""
	}
	sc.op = op
	return sc.line()
}
