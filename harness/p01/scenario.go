package p01

// scenario.go: base chain, the valid candidate, the rule mutators and the
// delivery contexts.  A recipe (variant, context, cache mode, mutator, arg)
// determines everything; Generate and Exec both rebuild from the recipe.

import (
	"fmt"
	"strconv"
	"strings"

	"github.com/btcsuite/btcd/btcutil/v2"
	"github.com/btcsuite/btcd/chainhash/v2"
	"github.com/btcsuite/btcd/txscript/v2"
	"github.com/btcsuite/btcd/wire/v2"
)

type recipe struct {
	variant int
	ctx     string // tip | side | orphan | fork
	cache   int    // 0 = flush every block, 1 = never
	mut     string
	arg     int64
}

func (r recipe) String() string {
	return fmt.Sprintf("v%d.%s.c%d.%s.%d", r.variant, r.ctx, r.cache, r.mut, r.arg)
}

func parseRecipe(s string) (recipe, bool) {
	f := strings.Split(s, ".")
	if len(f) != 5 || len(f[0]) < 2 || len(f[2]) != 2 {
		return recipe{}, false
	}
	v, e1 := strconv.Atoi(f[0][1:])
	c, e2 := strconv.Atoi(f[2][1:])
	a, e3 := strconv.ParseInt(f[4], 10, 64)
	if e1 != nil || e2 != nil || e3 != nil || v < 0 || v >= len(variants) {
		return recipe{}, false
	}
	return recipe{v, f[1], c, f[3], a}, true
}

// ---------------------------------------------------------------- base chain

const fee = 1000

type base struct {
	v      variant
	n      int32 // base chain length; the candidate is at n+1
	blocks []*wire.MsgBlock
	p      *path
	b      *builder
	cbTx   map[int32]chainhash.Hash // height -> coinbase txid
	fan    chainhash.Hash           // fan-out txid (non-coinbase outputs), confirmed at fanH
	fanH   int32
}

func (v variant) baseLen() int32 {
	n := v.maturity + 4
	if n < 8 {
		n = 8
	}
	return n
}

// every coinbase of the base chain pays one output per script kind, in kind order
func splitOuts(total int64) []*wire.TxOut {
	outs := make([]*wire.TxOut, 0, numKinds)
	each := total / int64(numKinds)
	for k := kind(0); k < numKinds; k++ {
		a := each
		if k == 0 {
			a = total - each*int64(numKinds-1)
		}
		outs = append(outs, txOut(a, k))
	}
	return outs
}

// fan-out outputs: one per kind, then three more P2WPKH (for sigop-cost tuning) and four more OP_TRUE
func fanOuts(total int64) []*wire.TxOut {
	n := int64(numKinds) + 7
	each := total / n
	var outs []*wire.TxOut
	for k := kind(0); k < numKinds; k++ {
		outs = append(outs, txOut(each, k))
	}
	for i := 0; i < 3; i++ {
		outs = append(outs, txOut(each, kP2WPKH))
	}
	for i := 0; i < 4; i++ {
		outs = append(outs, txOut(each, kTrue))
	}
	return outs
}

const (
	fanWPKH2 = int(numKinds)     // indices of the extra P2WPKH outputs
	fanTrue2 = int(numKinds) + 3 // indices of the extra OP_TRUE outputs
)

var baseMemo = map[int]*base{}

// buildBase is deterministic per variant; the result is shared (nobody mutates its blocks).
func buildBase(v variant) *base {
	if b, ok := baseMemo[v.id]; ok {
		return b
	}
	// two passes: the second shifts the timestamps from the block that is the tip's median-time block onwards by
	// less than 512 s, so that (tip MTP - MTP before the fan-out block + 1) is a multiple of 512: a BIP68 time
	// lock can then EQUAL the median time past to the second (the `>=` in SequenceLockActive)
	b := buildBase0(v, 0, 0)
	n := b.n
	w := int32(11)
	if n+1 < w {
		w = n + 1
	}
	pivot := n - w + 1 + w/2
	have := b.p.mtp() - b.p.mtpAt(b.fanH-1)
	shift := (511 - have%512 + 512) % 512
	if shift != 0 {
		b = buildBase0(v, pivot, shift)
	}
	baseMemo[v.id] = b
	return b
}

func buildBase0(v variant, pivot int32, shift int64) *base {
	bs := &base{v: v, n: v.baseLen(), p: newPath(v), b: newBuilder(), cbTx: map[int32]chainhash.Hash{}}
	bs.fanH = v.maturity + 1
	for h := int32(1); h <= bs.n; h++ {
		ts := v.baseTime() + int64(h)*blockSpacing
		if shift != 0 && h >= pivot {
			ts += shift
		}
		var txs []*wire.MsgTx
		fees := int64(0)
		if h == bs.fanH {
			// spend the OP_TRUE output of block 1's coinbase into non-coinbase outputs of every kind
			op := wire.OutPoint{Hash: bs.cbTx[1], Index: uint32(kTrue)}
			c := bs.p.utxo[op]
			f := bs.b.mkTx(2, 0, []spend{{op: op, c: c, seq: wire.MaxTxInSequenceNum}}, fanOuts(c.amount-fee))
			bs.fan = f.TxHash()
			txs = append(txs, f)
			fees = c.amount - sumOuts(f)
		}
		cb := mkCoinbase(heightScript(h, 0), splitOuts(subsidyOf(h, v.subsidyIv)+fees))
		txs = append([]*wire.MsgTx{cb}, txs...)
		blk := assemble(bs.p, ts, txs)
		bs.cbTx[h] = cb.TxHash()
		bs.p.apply(blk)
		bs.blocks = append(bs.blocks, blk)
	}
	return bs
}

func sumOuts(t *wire.MsgTx) int64 {
	s := int64(0)
	for _, o := range t.TxOut {
		s += o.Value
	}
	return s
}

// ---------------------------------------------------------------- candidate

// cand is the knob set a mutator turns.
type cand struct {
	bs        *base
	p         *path // path of the candidate's parent
	height    int32
	time      int64
	version   int32
	bits      uint32
	cbScript  []byte
	cbDelta   int64 // added to the exact subsidy+fees payout
	cbOuts    []*wire.TxOut
	txs       []*wire.MsgTx // non-coinbase transactions
	commit    string        // auto | none | force | badnonce | mismatch
	rawFirst  []*wire.MsgTx // if set, replaces the coinbase position entirely
	post      func(*wire.MsgBlock)
	highHash  bool
	badMerkle bool
	mode      string
	sideCoin  *wire.OutPoint // an output created by a side-branch ancestor of the candidate (reorg contexts)
}

func (bs *base) coinAt(op wire.OutPoint) coin { return bs.p.utxo[op] }

func (bs *base) cbOp(h int32, k kind) wire.OutPoint {
	return wire.OutPoint{Hash: bs.cbTx[h], Index: uint32(k)}
}
func (bs *base) fanOp(i int) wire.OutPoint { return wire.OutPoint{Hash: bs.fan, Index: uint32(i)} }

func (c *cand) sp(op wire.OutPoint) spend {
	return spend{op: op, c: c.p.utxo[op], seq: wire.MaxTxInSequenceNum}
}

// cbAt is output 0 (OP_TRUE) of the coinbase at height h on the candidate's own path.
func (c *cand) cbAt(h int32) wire.OutPoint {
	for op, cn := range c.p.utxo {
		if cn.height == h && cn.coinbase && op.Index == 0 {
			return op
		}
	}
	return wire.OutPoint{}
}

// pay spends the given inputs into one OP_TRUE output, leaving `fee`.
func (c *cand) pay(version int32, lockTime uint32, ins ...spend) *wire.MsgTx {
	total := int64(0)
	for _, s := range ins {
		total += s.c.amount
	}
	return c.bs.b.mkTx(version, lockTime, ins, []*wire.TxOut{txOut(total-fee, kTrue)})
}

// newCand makes the valid baseline candidate on top of path p (p must extend the base chain).
func newCand(bs *base, p *path) *cand {
	v := bs.v
	c := &cand{bs: bs, p: p, height: p.height + 1, version: blockVersion, bits: 0x207fffff, commit: "auto", mode: "VC"}
	c.time = p.times[len(p.times)-1] + blockSpacing
	c.cbScript = heightScript(c.height, 7)
	seg := active(v.segH, c.height)
	tap := active(v.tapH, c.height)
	// T1: legacy spend of a mature coinbase P2PKH
	t1 := c.pay(1, 0, c.sp(bs.cbOp(1, kP2PKH)))
	// T2: P2SH + bare multisig from a coinbase
	t2 := c.pay(1, 0, c.sp(bs.cbOp(1, kP2SH)), c.sp(bs.cbOp(1, kMulti)))
	// T3: non-coinbase inputs of the fan-out tx
	ins := []spend{c.sp(bs.fanOp(int(kP2PKH))), c.sp(bs.fanOp(int(kTrue)))}
	if seg {
		ins = append(ins, c.sp(bs.fanOp(int(kP2WPKH))), c.sp(bs.fanOp(int(kP2WSH))))
	}
	if tap {
		ins = append(ins, c.sp(bs.fanOp(int(kP2TR))))
	}
	t3 := c.pay(2, 0, ins...)
	// T4: spends T1's output inside the block
	op := wire.OutPoint{Hash: t1.TxHash(), Index: 0}
	t4 := c.bs.b.mkTx(1, 0, []spend{{op: op, c: coin{amount: t1.TxOut[0].Value, script: t1.TxOut[0].PkScript, k: kTrue}, seq: wire.MaxTxInSequenceNum}},
		[]*wire.TxOut{txOut(t1.TxOut[0].Value-fee, kTrue)})
	c.txs = []*wire.MsgTx{t1, t2, t3, t4}
	return c
}

// feesOf is the harness's own fee arithmetic over the candidate's transactions
// (a transaction with a null, missing or already-spent input contributes nothing).
func (c *cand) feesOf() int64 {
	view := map[wire.OutPoint]int64{}
	spent := map[wire.OutPoint]bool{}
	total := int64(0)
	for _, t := range c.txs {
		in := int64(0)
		ok := true
		for _, i := range t.TxIn {
			o := i.PreviousOutPoint
			if spent[o] {
				ok = false
			} else if a, f := view[o]; f {
				in += a
			} else if cn, f := c.p.utxo[o]; f {
				in += cn.amount
			} else {
				ok = false
			}
		}
		if ok {
			total += in - sumOuts(t)
			for _, i := range t.TxIn {
				spent[i.PreviousOutPoint] = true
			}
		}
		h := t.TxHash()
		for oi, o := range t.TxOut {
			view[wire.OutPoint{Hash: h, Index: uint32(oi)}] = o.Value
		}
	}
	return total
}

// block assembles the candidate.
func (c *cand) block() *wire.MsgBlock {
	v := c.bs.v
	var txs []*wire.MsgTx
	if c.rawFirst != nil {
		txs = append(txs, c.rawFirst...)
	} else {
		pay := subsidyOf(c.height, v.subsidyIv) + c.feesOf() + c.cbDelta
		outs := append([]*wire.TxOut{txOut(pay, kTrue)}, c.cbOuts...)
		txs = append(txs, mkCoinbase(c.cbScript, outs))
	}
	txs = append(txs, c.txs...)
	anyWit := false
	for _, t := range txs {
		if t.HasWitness() {
			anyWit = true
		}
	}
	switch c.commit {
	case "auto":
		if active(v.segH, c.height) && anyWit {
			addCommitment(txs)
		}
	case "force":
		addCommitment(txs)
	case "badnonce":
		addCommitment(txs)
		txs[0].TxIn[0].Witness = wire.TxWitness{make([]byte, 31)}
	case "twononce":
		addCommitment(txs)
		txs[0].TxIn[0].Witness = wire.TxWitness{make([]byte, 32), make([]byte, 32)}
	case "mismatch":
		addCommitment(txs)
		s := txs[0].TxOut[len(txs[0].TxOut)-1].PkScript
		s[len(s)-1] ^= 1
	case "none":
	}
	var mb wire.MsgBlock
	for _, t := range txs {
		mb.AddTransaction(t)
	}
	mb.Header = wire.BlockHeader{Version: c.version, PrevBlock: c.p.tip, MerkleRoot: txidRoot(txs),
		Timestamp: timeUnix(c.time), Bits: c.bits}
	if c.badMerkle {
		mb.Header.MerkleRoot[5] ^= 0x40
	}
	if c.post != nil {
		c.post(&mb)
	}
	if c.highHash {
		unsolve(&mb.Header)
	} else {
		solve(&mb.Header)
	}
	return &mb
}

// ---------------------------------------------------------------- mutators

type mutator struct {
	name string
	args []int64 // each arg is one case (limit / one past …)
	// applies reports whether the mutator makes sense for the variant
	applies func(v variant, h int32) bool
	f       func(c *cand, arg int64)
}

func always(variant, int32) bool     { return true }
func segOn(v variant, h int32) bool  { return active(v.segH, h) }
func segOff(v variant, h int32) bool { return !active(v.segH, h) }
func csvOn(v variant, h int32) bool  { return active(v.csvH, h) }

func opReturnPad(n int) *wire.TxOut {
	s := make([]byte, n)
	s[0] = txscript.OP_RETURN
	return &wire.TxOut{Value: 0, PkScript: s}
}

var mutators = []mutator{
	{"valid", []int64{0}, always, func(c *cand, a int64) {}},
	// coinbase value: exactly subsidy+fees (ok) / one satoshi more
	{"cbvalue", []int64{0, 1, -1}, always, func(c *cand, a int64) { c.cbDelta = a }},
	// coinbase script length 1 / 2 / 100 / 101 (BIP34 off: free-form; on: height push padded)
	{"cblen", []int64{1, 2, 3, 99, 100, 101}, always, func(c *cand, a int64) {
		s := append([]byte{}, scriptNum(int64(c.height))...)
		if c.bs.v.bip34H > c.height {
			s = nil
		}
		for int64(len(s)) < a {
			s = append(s, txscript.OP_NOP)
		}
		if int64(len(s)) > a {
			// the height push alone is longer than the wanted length: BIP34 breaks too
			s = s[:a]
			c.mode = "V"
		}
		c.cbScript = s
	}},
	// timestamp = MTP (reject) / MTP+1 (ok)
	{"timeold", []int64{-1, 0, 1}, always, func(c *cand, a int64) {
		c.time = c.p.mtp() + a
		if c.bs.v.bip94 && c.height%c.bs.v.bpr == 0 {
			c.mode = "V" // that far back also trips the BIP94 bound on a period's first block
		}
	}},
	// timestamp = now+2h (ok) / now+2h+1 (reject)
	{"timenew", []int64{7199, 7200, 7201}, always, func(c *cand, a int64) { c.time = c.bs.v.now() + a }},
	// wrong merkle root
	{"merkle", []int64{0}, always, func(c *cand, a int64) { c.badMerkle = true }},
	// hash above target
	{"highhash", []int64{0}, always, func(c *cand, a int64) { c.highHash = true }},
	// bits: valid target but not the expected one / target above the limit / zero / negative
	{"bits", []int64{0x207ffffe, 0x2100ffff, 0x1d00ffff, 0, 0x20800001}, always, func(c *cand, a int64) {
		c.bits = uint32(a)
		if a == 0 || a == 0x20800001 {
			c.mode = "V" // a non-positive target also fails the hash comparison
		}
		if a == 0x1d00ffff {
			// mainnet difficulty cannot be ground here: the hash rule breaks as well
			c.highHash = true
			c.mode = "V"
		}
	}},
	// block version 1..4 against the BIP34/66/65 heights
	{"version", []int64{1, 2, 3, 4}, always, func(c *cand, a int64) {
		c.version = int32(a)
	}},
	// BIP34 height field: off by one, non-minimal, missing
	{"bip34", []int64{1, -1, 1000, 2000}, always, func(c *cand, a int64) {
		switch a {
		case 1000: // non-minimal encoding (padded with a zero byte)
			c.cbScript = cat([]byte{2, byte(c.height), 0}, []byte{txscript.OP_NOP})
		case 2000: // truncated push
			c.cbScript = []byte{4, byte(c.height), 0}
		default:
			c.cbScript = heightScript(c.height+int32(a), 7)
		}
	}},
	// two coinbases / first tx not a coinbase
	{"twocb", []int64{0}, always, func(c *cand, a int64) {
		c.txs = append(c.txs, mkCoinbase(heightScript(c.height, 99), []*wire.TxOut{txOut(0, kTrue)}))
	}},
	{"firstnotcb", []int64{0}, always, func(c *cand, a int64) {
		c.rawFirst = []*wire.MsgTx{}
		c.commit = "none"
		// without a coinbase the remaining rules about it are moot: verdict only
		c.mode = "V"
	}},
	// duplicate transaction (same tx twice)
	{"duptx", []int64{0}, always, func(c *cand, a int64) {
		c.txs = append(c.txs, c.txs[0])
		c.mode = "V"
	}},
	// double spend inside the block (two txs spend the same output)
	{"doublespend", []int64{0}, always, func(c *cand, a int64) {
		c.txs = append(c.txs, c.bs.b.mkTx(1, 7, []spend{c.sp(c.bs.cbOp(1, kP2PKH))}, []*wire.TxOut{txOut(5, kTrue)}))
	}},
	// spend of an output that does not exist
	{"missing", []int64{0}, always, func(c *cand, a int64) {
		op := wire.OutPoint{Hash: chainhash.Hash{0xee, 1}, Index: 0}
		c.txs = append(c.txs, c.bs.b.mkTx(1, 0, []spend{{op: op, c: coin{amount: 5000, script: pkScriptOf(kTrue), k: kTrue}, seq: wire.MaxTxInSequenceNum, miss: true}},
			[]*wire.TxOut{txOut(1, kTrue)}))
	}},
	// spend of an output created LATER in the same block
	{"forwardref", []int64{0}, always, func(c *cand, a int64) {
		n := len(c.txs)
		c.txs[n-1], c.txs[0] = c.txs[0], c.txs[n-1]
	}},
	// coinbase maturity: exactly mature (ok) / one block short
	{"maturity", []int64{-1, 0, 1}, always, func(c *cand, a int64) {
		h := c.height - c.bs.v.maturity + int32(a)
		c.txs = append(c.txs, c.pay(1, 0, c.sp(c.cbAt(h))))
	}},
	// relations BETWEEN blocks: an output that an ancestor on the candidate's own branch may already have spent
	// (valid elsewhere), an output that exists only on the other branch (base block n-1: detached in the long
	// reorganisations), an output created by an ancestor on the candidate's own side branch (valid there)
	{"respend", []int64{0}, always, func(c *cand, a int64) {
		op := c.bs.fanOp(fanTrue2 + 1)
		s := c.sp(op)
		if _, ok := c.p.utxo[op]; !ok {
			s = spend{op: op, c: coin{amount: c.bs.p.utxo[op].amount, script: pkScriptOf(kTrue), k: kTrue}, seq: wire.MaxTxInSequenceNum, miss: true}
		}
		c.txs = append(c.txs, c.pay(1, 1, s)) // lock time 1: not the same transaction as the ancestor's
	}},
	{"otherbranch", []int64{0}, always, func(c *cand, a int64) {
		op := c.bs.cbOp(c.bs.n-1, kTrue)
		s := c.sp(op)
		if _, ok := c.p.utxo[op]; !ok {
			s = spend{op: op, c: coin{amount: c.bs.p.utxo[op].amount, script: pkScriptOf(kTrue), k: kTrue}, seq: wire.MaxTxInSequenceNum, miss: true}
		}
		c.txs = append(c.txs, c.pay(1, 0, s))
	}},
	{"sidecoin", []int64{0}, always, func(c *cand, a int64) {
		if c.sideCoin != nil {
			c.txs = append(c.txs, c.pay(1, 0, c.sp(*c.sideCoin)))
		}
	}},
	// heterogeneous inputs: three inputs that differ in script class, origin (coinbase / not), age and lock type,
	// exactly one of them in violation, at the first / middle / last position.
	//   kind 0: BIP68 (height lock, time lock, disabled flag; the violating one is a height lock unmet by one)
	//   kind 1: maturity (one immature coinbase output among a mature coinbase output and a non-coinbase output)
	//   kind 2: bad signature on one of P2PKH / P2SH-multisig / nested P2WPKH
	{"hetero", []int64{0, 1, 2, 10, 11, 12, 20, 21, 22}, always, func(c *cand, a int64) {
		kindOf, pos := a/10, int(a%10)
		place := func(bad spend, ok1, ok2 spend) []spend {
			out := []spend{ok1, ok2}
			return append(out[:pos:pos], append([]spend{bad}, out[pos:]...)...)
		}
		switch kindOf {
		case 0:
			age := uint32(c.height - c.bs.fanH)
			bad := c.sp(c.bs.fanOp(fanTrue2))
			bad.seq = age + 1 // unmet by one block
			ok1 := c.sp(c.bs.fanOp(fanTrue2 + 2))
			ok1.seq = wire.SequenceLockTimeIsSeconds | 1 // 512 s: long met
			ok2 := c.sp(c.bs.cbOp(2, kTrue))
			ok2.seq = wire.SequenceLockTimeDisabled | 0xffff
			c.txs = append(c.txs, c.pay(2, 0, place(bad, ok2, ok1)...)) // the input with the disable flag comes first
		case 1:
			bad := c.sp(c.cbAt(c.height - c.bs.v.maturity + 1))
			ok1 := c.sp(c.bs.cbOp(2, kTrue))
			ok2 := c.sp(c.bs.fanOp(fanTrue2 + 2))
			c.txs = append(c.txs, c.pay(1, 0, place(bad, ok1, ok2)...))
		case 2:
			if !active(c.bs.v.segH, c.height) {
				c.mode = "V" // the nested-segwit input carries witness data: before segwit that alone is a violation
			}
			kinds := []kind{kP2PKH, kP2SH, kP2SHWPKH}
			var ins []spend
			for i, k := range kinds {
				s := c.sp(c.bs.cbOp(2, k))
				if i == pos {
					s.bad = "sig"
				}
				ins = append(ins, s)
			}
			c.txs = append(c.txs, c.pay(1, 0, ins...))
		}
	}},
	// rare shapes: a witness stack that is present but holds one empty item; nested segwit spent correctly
	{"emptywit", []int64{0}, always, func(c *cand, a int64) {
		s := c.sp(c.bs.cbOp(2, kTrue))
		s.bad = "emptywit"
		c.txs = append(c.txs, c.pay(1, 0, s))
	}},
	{"nested", []int64{0, 1}, always, func(c *cand, a int64) {
		s := c.sp(c.bs.cbOp(2, kP2SHWPKH))
		if a == 1 {
			s.bad = "nowit"
		}
		c.txs = append(c.txs, c.pay(1, 0, s))
	}},
	// witness data before segwit on the SECOND input only
	{"prewit2", []int64{0}, segOff, func(c *cand, a int64) {
		c.txs = append(c.txs, c.pay(1, 0, c.sp(c.bs.cbOp(2, kTrue)), c.sp(c.bs.cbOp(2, kP2WPKH))))
	}},
	// many small transactions, each spending the previous one inside the block: the transaction count crosses the
	// one-byte compact-size limit (252 / 253 / 254 in total, coinbase included) and the merkle tree gets deep and odd
	{"manytx", []int64{6, 7, 8, 12, 252, 253, 254}, always, func(c *cand, a int64) {
		prev := c.txs[len(c.txs)-1] // T4: one OP_TRUE output
		for int64(len(c.txs))+1 < a {
			op := wire.OutPoint{Hash: prev.TxHash(), Index: 0}
			v := prev.TxOut[0].Value
			t := c.bs.b.mkTx(1, 0, []spend{{op: op, c: coin{amount: v, script: pkScriptOf(kTrue), k: kTrue}, seq: wire.MaxTxInSequenceNum}},
				[]*wire.TxOut{txOut(v-1, kTrue)})
			c.txs = append(c.txs, t)
			prev = t
		}
	}},
	// the same through an output that is NOT the first of its coinbase (the coinbase flag is per output)
	{"maturity2", []int64{-1, 0, 1}, always, func(c *cand, a int64) {
		h := c.height - c.bs.v.maturity + int32(a)
		op := c.cbAt(h)
		if _, ok := c.p.utxo[c.bs.cbOp(h, kP2PKH)]; ok {
			op = c.bs.cbOp(h, kP2PKH)
		}
		c.txs = append(c.txs, c.pay(1, 0, c.sp(op)))
	}},
	// a transaction spending an output of this very block's coinbase (immature by definition); output 0 / output 1
	{"owncb", []int64{0, 1}, always, func(c *cand, a int64) {
		var keep []*wire.MsgTx
		for _, t := range c.txs {
			if !t.HasWitness() {
				keep = append(keep, t) // without witness data there is no commitment, so the coinbase id is fixed
			}
		}
		c.txs = keep
		c.commit = "none"
		c.cbOuts = append(c.cbOuts, txOut(5000, kTrue))
		c.cbDelta = -5000
		cb := c.block().Transactions[0]
		op := wire.OutPoint{Hash: cb.TxHash(), Index: uint32(a)}
		v := cb.TxOut[a].Value
		c.txs = append(c.txs, c.bs.b.mkTx(1, 0, []spend{{op: op, c: coin{amount: v, script: pkScriptOf(kTrue), k: kTrue}, seq: wire.MaxTxInSequenceNum}},
			[]*wire.TxOut{txOut(v, kTrue)}))
	}},
	// output value: MaxSatoshi+1, negative; sum of outputs > MaxSatoshi
	{"outvalue", []int64{btcutil.MaxSatoshi + 1, -1, 1}, always, func(c *cand, a int64) {
		t := c.txs[1]
		if a == 1 {
			t.TxOut = append(t.TxOut, txOut(btcutil.MaxSatoshi, kTrue), txOut(1, kTrue))
		} else {
			t.TxOut = append(t.TxOut, txOut(a, kTrue))
		}
		c.resign(1)
		if a != -1 {
			c.mode = "V" // the tx then also spends more than its inputs
		}
	}},
	// spends more than its inputs by one satoshi / exactly its inputs (zero fee)
	{"spend", []int64{0, 1}, always, func(c *cand, a int64) {
		c.txs[1].TxOut[0].Value += fee + a
		c.resign(1)
	}},
	// duplicate inputs inside one transaction
	{"dupinputs", []int64{0, 1}, always, func(c *cand, a int64) {
		s := c.sp(c.bs.cbOp(2, kTrue))
		ins := []spend{s, s}
		if a == 1 {
			// the two references are the FIRST and the LAST of three inputs
			ins = []spend{s, c.sp(c.bs.cbOp(2, kMulti)), s}
		}
		c.txs = append(c.txs, c.bs.b.mkTx(1, 0, ins, []*wire.TxOut{txOut(s.c.amount, kTrue)}))
		c.mode = "V" // the second reference is also a double spend
	}},
	// null prevout in a non-coinbase transaction
	{"nullprev", []int64{0}, always, func(c *cand, a int64) {
		s := c.sp(c.bs.cbOp(2, kTrue))
		n := spend{op: *wire.NewOutPoint(&chainhash.Hash{}, wire.MaxPrevOutIndex), c: coin{script: pkScriptOf(kTrue)}, seq: wire.MaxTxInSequenceNum}
		c.txs = append(c.txs, c.bs.b.mkTx(1, 0, []spend{s, n}, []*wire.TxOut{txOut(s.c.amount-fee, kTrue)}))
	}},
	// transaction without inputs / block without transactions
	{"noinputs", []int64{0}, always, func(c *cand, a int64) {
		c.txs = append(c.txs, c.bs.b.mkTx(1, 0, nil, []*wire.TxOut{txOut(0, kTrue)}))
	}},
	{"notx", []int64{0}, always, func(c *cand, a int64) {
		c.rawFirst = []*wire.MsgTx{}
		c.txs = nil
		c.commit = "none"
	}},
	// transaction without outputs
	{"nooutputs", []int64{0}, always, func(c *cand, a int64) {
		c.txs = append(c.txs, c.bs.b.mkTx(1, 0, []spend{c.sp(c.bs.cbOp(2, kTrue))}, nil))
	}},
	// non-final transaction: lock time = height (non-final) / height-1 (final); by time: = cutoff / cutoff-1
	{"locktime", []int64{0, -1, 1, 10, 9, 11}, always, func(c *cand, a int64) {
		s := c.sp(c.bs.cbOp(2, kTrue))
		s.seq = 0xfffffffe
		var lt int64
		switch a {
		case 0, -1, 1:
			lt = int64(c.height) + a
		default:
			cut := c.time
			if active(c.bs.v.csvH, c.height) {
				cut = c.p.mtp()
			}
			lt = cut + (a - 10)
		}
		c.txs = append(c.txs, c.pay(1, uint32(lt), s))
	}},
	// the lock-time type switches at 500 000 000: 499 999 999 is a (far-away) height, 500 000 000 a time in 1985
	{"ltthreshold", []int64{499999999, 500000000, 500000001}, always, func(c *cand, a int64) {
		s := c.sp(c.bs.cbOp(2, kTrue))
		s.seq = 0xfffffffe
		c.txs = append(c.txs, c.pay(1, uint32(a), s))
	}},
	// sequence-number bits of BIP68: disable flag (bit 31), a stray bit 16 above the mask, all mask bits set
	{"seqbits", []int64{0, 1, 2, 3, 4}, always, func(c *cand, a int64) {
		s := c.sp(c.bs.fanOp(fanTrue2))
		age := uint32(c.height - c.bs.fanH)
		switch a {
		case 0:
			s.seq = wire.SequenceLockTimeDisabled | (age + 5) // disabled: not a lock
		case 1:
			s.seq = 0x00010000 | (age + 1) // bit 16 is outside the mask: the lock is age+1, unmet
		case 2:
			s.seq = 0x00010000 // masked value 0: met
		case 3:
			s.seq = 0x7fbfffff // every bit but "disable" and "type": lock of 65535 blocks, unmet
		case 4:
			s.seq = 0x7fffffff // every bit but "disable": a time lock of 65535*512 s, unmet
		}
		c.txs = append(c.txs, c.pay(2, 0, s))
	}},
	// non-final lock time but every sequence is final: accepted
	{"locktimefinalseq", []int64{0}, always, func(c *cand, a int64) {
		c.txs = append(c.txs, c.pay(1, uint32(c.height)+100, c.sp(c.bs.cbOp(2, kTrue))))
	}},
	// BIP68 height lock on the fan-out output: met exactly / unmet by one (inert when CSV is off or tx version 1)
	{"bip68h", []int64{-1, 0, 1, 101, 201}, always, func(c *cand, a int64) {
		s := c.sp(c.bs.fanOp(fanTrue2))
		age := c.height - c.bs.fanH // blocks since confirmation
		ver := int32(2)
		if a == 101 {
			ver, a = 1, 1
		}
		if a == 201 {
			ver, a = -1, 1 // version 0xffffffff read as unsigned is >= 2: the lock applies
		}
		s.seq = uint32(int64(age) + a)
		c.txs = append(c.txs, c.pay(ver, 0, s))
	}},
	// BIP68 time lock: 512-second units against the MTPs
	{"bip68t", []int64{-1, 0, 1}, always, func(c *cand, a int64) {
		s := c.sp(c.bs.fanOp(fanTrue2))
		have := c.p.mtp() - c.p.mtpAt(c.bs.fanH-1)
		// lock of u units is met iff originMTP + u*512 - 1 < mtp  iff  u*512 <= have
		u := have/512 + a
		s.seq = wire.SequenceLockTimeIsSeconds | uint32(u)
		c.txs = append(c.txs, c.pay(2, 0, s))
	}},
	// bad signature on each script class
	{"badsig", []int64{int64(kP2PKH), int64(kP2SH), int64(kMulti), int64(kP2WPKH), int64(kP2WSH), int64(kP2TR), int64(kTrue)}, always, func(c *cand, a int64) {
		s := c.sp(c.bs.cbOp(2, kind(a)))
		s.bad = "sig"
		c.txs = append(c.txs, c.pay(1, 0, s))
	}},
	// non-DER signature (BIP66), non-null multisig dummy (BIP147), CLTV / CSV operand failures
	{"nonder", []int64{0}, always, func(c *cand, a int64) {
		s := c.sp(c.bs.cbOp(2, kP2PKH))
		s.bad = "nonder"
		c.txs = append(c.txs, c.pay(1, 0, s))
	}},
	{"dummy", []int64{0}, always, func(c *cand, a int64) {
		s := c.sp(c.bs.cbOp(2, kMulti))
		s.bad = "dummy"
		c.txs = append(c.txs, c.pay(1, 0, s))
	}},
	{"cltv", []int64{0, 1}, always, func(c *cand, a int64) {
		s := c.sp(c.bs.cbOp(2, kCLTV))
		s.seq = 0xfffffffe
		lt := uint32(cltvLock - 1)
		if a == 1 {
			lt = cltvLock
		}
		c.txs = append(c.txs, c.pay(1, lt, s))
	}},
	{"csv", []int64{0, 1}, always, func(c *cand, a int64) {
		s := c.sp(c.bs.cbOp(2, kCSV))
		s.seq = uint32(csvLock - 1 + a)
		c.txs = append(c.txs, c.pay(2, 0, s))
	}},
	// witness commitment: missing although witness data present / wrong / bad nonce / present without witness txs
	{"commit", []int64{0, 1, 2, 3, 4}, segOn, func(c *cand, a int64) {
		c.commit = []string{"none", "mismatch", "badnonce", "force", "twononce"}[a]
	}},
	// BIP16 switch time: a bad P2SH redeem script in a block timed one second before / exactly at the switch
	{"bip16time", []int64{-1, 0, 1}, func(v variant, h int32) bool { return v.early }, func(c *cand, a int64) {
		c.time = bip16Switch + a
		s := c.sp(c.bs.cbOp(2, kP2SH))
		s.bad = "sig"
		c.txs = append(c.txs, c.pay(1, 0, s))
	}},
	// witness data before segwit is active (nothing can commit to it) / the same output spent without witness
	{"prewit", []int64{0, 1}, segOff, func(c *cand, a int64) {
		s := c.sp(c.bs.cbOp(2, kP2WPKH))
		if a == 1 {
			s.bad = "nowit"
		}
		c.txs = append(c.txs, c.pay(1, 0, s))
	}},
	// legacy sigops: total cost exactly 80000 / 80004 through bare CHECKMULTISIG outputs
	{"sigops", []int64{79999, 80000, 80001, 80004}, always, func(c *cand, a int64) { c.tuneSigops(a) }},
	// block weight exactly 4000000 / 4000001 (segwit) or stripped size 1000000 / 1000001
	{"weight", []int64{3999999, 4000000, 4000001}, segOn, func(c *cand, a int64) { c.tuneWeight(a) }},
	{"basesize", []int64{999999, 1000000, 1000001}, segOff, func(c *cand, a int64) { c.tuneBase(a) }},
	// BIP94 time warp: first block of a period 600 s / 601 s before its parent
	{"timewarp", []int64{599, 600, 601}, func(v variant, h int32) bool { return v.bip94 && h%v.bpr == 0 }, func(c *cand, a int64) {
		c.time = c.p.times[len(c.p.times)-1] - a
	}},
	// BIP30: coinbase identical to an earlier, unspent one
	{"bip30", []int64{0}, func(v variant, h int32) bool { return v.bip34H > h }, func(c *cand, a int64) {
		c.rawFirst = []*wire.MsgTx{c.bs.blocks[1].Transactions[0].Copy()}
		c.commit = "none"
	}},
}

// combo applies two mutators, chosen by the argument, one after the other (verdict-only comparison).
func init() {
	type pick struct {
		m *mutator
		a int64
	}
	var flat []pick
	for i := range mutators {
		m := &mutators[i]
		switch m.name {
		case "valid", "firstnotcb", "notx", "bip30", "weight", "basesize", "sigops", "pos":
			continue // replace the coinbase or tune the whole block: not composable
		}
		for _, a := range m.args {
			flat = append(flat, pick{m, a})
		}
	}
	n := int64(len(flat))
	args := make([]int64, 0, 400)
	for k := int64(0); k < 400; k++ {
		args = append(args, k)
	}
	var movable []pick
	for _, p := range flat {
		switch p.m.name {
		case "manytx", "owncb", "duptx", "forwardref", "twocb", "outvalue", "spend", "cbvalue", "cblen", "bip34", "version",
			"timeold", "timenew", "merkle", "highhash", "bits", "commit", "timewarp":
			continue // no appended transaction, or one that depends on its place
		}
		movable = append(movable, p)
	}
	pargs := make([]int64, 0, 2*len(movable))
	for k := range movable {
		pargs = append(pargs, int64(2*k), int64(2*k+1))
	}
	// pos: the transactions a mutator appends are moved right behind the coinbase (even arg) or into the
	// middle of the block (odd arg): the violating element is then first / in the middle instead of last
	mutators = append(mutators, mutator{"pos", pargs, always, func(c *cand, a int64) {
		p := movable[a/2]
		if !p.m.applies(c.bs.v, c.height) {
			return
		}
		base := len(c.txs)
		p.m.f(c, p.a)
		if len(c.txs) <= base {
			return
		}
		added := append([]*wire.MsgTx(nil), c.txs[base:]...)
		at := 0
		if a%2 == 1 {
			at = 2
		}
		rest := append([]*wire.MsgTx(nil), c.txs[:base]...)
		c.txs = append(append(append([]*wire.MsgTx(nil), rest[:at]...), added...), rest[at:]...)
	}})
	mutators = append(mutators, mutator{"combo", args, always, func(c *cand, a int64) {
		x := uint64(a)*0x9E3779B97F4A7C15 + 77
		x ^= x >> 29
		i := int64(x % uint64(n))
		j := int64((x / uint64(n)) % uint64(n))
		for _, p := range []pick{flat[i], flat[j]} {
			if p.m.applies(c.bs.v, c.height) {
				p.m.f(c, p.a)
			}
		}
		c.mode = "V"
	}})
}

// resign re-signs candidate transaction i after its outputs changed.
func (c *cand) resign(i int) {
	t := c.txs[i]
	var ins []spend
	prev := map[wire.OutPoint]*wire.TxOut{}
	for _, in := range t.TxIn {
		cn := c.p.utxo[in.PreviousOutPoint]
		ins = append(ins, spend{op: in.PreviousOutPoint, c: cn, seq: in.Sequence})
		prev[in.PreviousOutPoint] = &wire.TxOut{Value: cn.amount, PkScript: cn.script}
	}
	c.bs.b.sign(t, ins, prev)
}

// ownCost is the harness's own sigop-cost arithmetic for the candidate as it stands.
func (c *cand) ownCost(blk *wire.MsgBlock) int64 {
	v := c.bs.v
	seg := active(v.segH, c.height)
	p2sh := c.time >= 1333238400 || seg
	cost := int64(0)
	view := map[wire.OutPoint][]byte{}
	for ti, t := range blk.Transactions {
		for _, in := range t.TxIn {
			cost += 4 * int64(sigops(in.SignatureScript, false))
		}
		for _, o := range t.TxOut {
			cost += 4 * int64(sigops(o.PkScript, false))
		}
		if ti > 0 {
			for _, in := range t.TxIn {
				pk, ok := view[in.PreviousOutPoint]
				if !ok {
					cn, ok2 := c.p.utxo[in.PreviousOutPoint]
					if !ok2 {
						continue
					}
					pk = cn.script
				}
				if p2sh {
					cost += 4 * int64(p2shSigops(in.SignatureScript, pk))
				}
				if seg {
					cost += int64(witnessSigops(in.SignatureScript, pk, in.Witness))
				}
			}
		}
		h := t.TxHash()
		for oi, o := range t.TxOut {
			view[wire.OutPoint{Hash: h, Index: uint32(oi)}] = o.PkScript
		}
	}
	return cost
}

// tuneSigops adds outputs/inputs so that the block's total sigop cost is `target`.
func (c *cand) tuneSigops(target int64) {
	seg := active(c.bs.v.segH, c.height)
	if target%4 != 0 && !seg {
		// cost granularity is 4 without witness sigops: use the next multiple
		target += 4 - target%4
	}
	// witness sigops fix the remainder mod 4 (each extra P2WPKH input costs 1)
	for tries := 0; tries < 8; tries++ {
		cur := c.ownCost(c.block())
		if (target-cur)%4 == 0 {
			break
		}
		i := fanWPKH2 + tries
		if tries >= 3 {
			break
		}
		c.txs = append(c.txs, c.pay(2, 0, c.sp(c.bs.fanOp(i))))
	}
	cur := c.ownCost(c.block())
	need := (target - cur) / 4 // legacy sigops to add
	var outs []*wire.TxOut
	for ; need >= 20; need -= 20 {
		outs = append(outs, &wire.TxOut{Value: 0, PkScript: []byte{txscript.OP_CHECKMULTISIG}})
	}
	for ; need > 0; need-- {
		outs = append(outs, &wire.TxOut{Value: 0, PkScript: []byte{txscript.OP_CHECKSIG}})
	}
	c.cbOuts = append(c.cbOuts, outs...)
}

func weightOf(b *wire.MsgBlock) int64 {
	return int64(b.SerializeSizeStripped())*3 + int64(b.SerializeSize())
}

// tuneWeight pads the coinbase with an OP_RETURN output (4 weight units per byte) and the
// witness of a P2WSH(OP_DROP OP_TRUE) spend (1 per byte) until the block weight is exactly `target`.
func (c *cand) tuneWeight(target int64) {
	pad, wpad := 1000, 4
	c.cbOuts = append(c.cbOuts, opReturnPad(pad))
	idx := len(c.cbOuts) - 1
	c.txs = append(c.txs, nil)
	ti := len(c.txs) - 1
	for tries := 0; tries < 20; tries++ {
		s := c.sp(c.bs.fanOp(int(kWDrop)))
		s.pad = wpad
		c.txs[ti] = c.pay(2, 0, s)
		c.cbOuts[idx] = opReturnPad(pad)
		d := target - weightOf(c.block())
		if d == 0 {
			return
		}
		q := d / 4
		r := d - 4*q
		if wpad+int(r) < 1 {
			q--
			r += 4
		}
		if wpad+int(r) > 500 {
			q++
			r -= 4
		}
		pad += int(q)
		wpad += int(r)
	}
	panic("tuneWeight: no fit")
}

func (c *cand) tuneBase(target int64) {
	pad := 1000
	c.cbOuts = append(c.cbOuts, opReturnPad(pad))
	idx := len(c.cbOuts) - 1
	for tries := 0; tries < 10; tries++ {
		d := target - int64(c.block().SerializeSizeStripped())
		if d == 0 {
			return
		}
		pad += int(d)
		c.cbOuts[idx] = opReturnPad(pad)
	}
	panic("tuneBase: no fit")
}
