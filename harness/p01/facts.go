package p01

// facts.go: the harness's independent derivation of the block description
// (the facts the Lean spec decides on).  Nothing here calls btcd's validation
// functions: sizes come from serialisation lengths, the merkle root from the
// harness's own tree, sigops from the harness's own counters, input facts
// from the harness's own utxo fold, script verdicts from the builder's notes.

import (
	"bytes"
	"fmt"
	"math/big"
	"strings"

	"github.com/btcsuite/btcd/chaincfg/v2"
	"github.com/btcsuite/btcd/txscript/v2"
	"github.com/btcsuite/btcd/wire/v2"
)

func b2i(b bool) int {
	if b {
		return 1
	}
	return 0
}

// ---------------------------------------------------------------- own script walking / sigop counters

type op struct {
	code byte
	data []byte
}

// parseScript splits a script into opcodes; ok=false at the first truncated push (ops so far are returned).
func parseScript(s []byte) (ops []op, ok bool) {
	for i := 0; i < len(s); {
		c := s[i]
		i++
		n := -1
		switch {
		case c >= 1 && c <= 75:
			n = int(c)
		case c == txscript.OP_PUSHDATA1:
			if i+1 > len(s) {
				return ops, false
			}
			n = int(s[i])
			i++
		case c == txscript.OP_PUSHDATA2:
			if i+2 > len(s) {
				return ops, false
			}
			n = int(s[i]) | int(s[i+1])<<8
			i += 2
		case c == txscript.OP_PUSHDATA4:
			if i+4 > len(s) {
				return ops, false
			}
			n = int(s[i]) | int(s[i+1])<<8 | int(s[i+2])<<16 | int(s[i+3])<<24
			i += 4
		}
		if n >= 0 {
			if n < 0 || i+n > len(s) {
				return ops, false
			}
			ops = append(ops, op{c, s[i : i+n]})
			i += n
		} else {
			ops = append(ops, op{c, nil})
		}
	}
	return ops, true
}

// sigops counts CHECKSIG(VERIFY)=1, CHECKMULTISIG(VERIFY)=20, or =n when precise and preceded by OP_1..OP_16.
// Streaming: counting stops at the first truncated push.
func sigops(s []byte, precise bool) int {
	n := 0
	last := byte(0xff)
	for i := 0; i < len(s); {
		c := s[i]
		i++
		skip := 0
		switch {
		case c >= 1 && c <= 75:
			skip = int(c)
		case c == txscript.OP_PUSHDATA1:
			if i+1 > len(s) {
				return n
			}
			skip = int(s[i])
			i++
		case c == txscript.OP_PUSHDATA2:
			if i+2 > len(s) {
				return n
			}
			skip = int(s[i]) | int(s[i+1])<<8
			i += 2
		case c == txscript.OP_PUSHDATA4:
			if i+4 > len(s) {
				return n
			}
			skip = int(s[i]) | int(s[i+1])<<8 | int(s[i+2])<<16 | int(s[i+3])<<24
			i += 4
		case c == txscript.OP_CHECKSIG || c == txscript.OP_CHECKSIGVERIFY:
			n++
		case c == txscript.OP_CHECKMULTISIG || c == txscript.OP_CHECKMULTISIGVERIFY:
			if precise && last >= txscript.OP_1 && last <= txscript.OP_16 {
				n += int(last - (txscript.OP_1 - 1))
			} else {
				n += 20
			}
		}
		if skip < 0 || i+skip > len(s) {
			return n
		}
		i += skip
		last = c
	}
	return n
}

func isP2SH(s []byte) bool {
	return len(s) == 23 && s[0] == txscript.OP_HASH160 && s[1] == 20 && s[22] == txscript.OP_EQUAL
}

// witnessProgram returns (version, program) when s is a witness program.
func witnessProgram(s []byte) (int, []byte, bool) {
	if len(s) < 4 || len(s) > 42 {
		return 0, nil, false
	}
	if s[0] != txscript.OP_0 && (s[0] < txscript.OP_1 || s[0] > txscript.OP_16) {
		return 0, nil, false
	}
	if int(s[1]) != len(s)-2 || s[1] < 2 || s[1] > 40 {
		return 0, nil, false
	}
	v := 0
	if s[0] != txscript.OP_0 {
		v = int(s[0] - (txscript.OP_1 - 1))
	}
	return v, s[2:], true
}

// lastPush is the data of the final opcode of a push-only script (nil otherwise).
func lastPush(s []byte) []byte {
	ops, ok := parseScript(s)
	if !ok || len(ops) == 0 {
		return nil
	}
	for _, o := range ops {
		if o.code > txscript.OP_16 {
			return nil
		}
	}
	return ops[len(ops)-1].data
}

func p2shSigops(sigScript, pkScript []byte) int {
	if !isP2SH(pkScript) {
		return 0
	}
	return sigops(lastPush(sigScript), true)
}

func witnessSigopsProg(v int, prog []byte, wit wire.TxWitness) int {
	if v != 0 {
		return 0
	}
	if len(prog) == 20 {
		return 1
	}
	if len(prog) == 32 && len(wit) > 0 {
		return sigops(wit[len(wit)-1], true)
	}
	return 0
}

func witnessSigops(sigScript, pkScript []byte, wit wire.TxWitness) int {
	if v, prog, ok := witnessProgram(pkScript); ok {
		return witnessSigopsProg(v, prog, wit)
	}
	if isP2SH(pkScript) {
		if v, prog, ok := witnessProgram(lastPush(sigScript)); ok {
			ops, _ := parseScript(sigScript)
			if len(ops) == 1 {
				return witnessSigopsProg(v, prog, wit)
			}
		}
	}
	return 0
}

// ---------------------------------------------------------------- BIP34 height field

// minimalNum is the canonical script encoding of n (what a height push must look like).
func minimalNum(n int64) []byte {
	if n == 0 {
		return []byte{txscript.OP_0}
	}
	if n >= 1 && n <= 16 {
		return []byte{byte(txscript.OP_1 - 1 + n)}
	}
	neg := n < 0
	if neg {
		n = -n
	}
	var b []byte
	for n > 0 {
		b = append(b, byte(n))
		n >>= 8
	}
	if b[len(b)-1]&0x80 != 0 {
		if neg {
			b = append(b, 0x80)
		} else {
			b = append(b, 0)
		}
	} else if neg {
		b[len(b)-1] |= 0x80
	}
	return append([]byte{byte(len(b))}, b...)
}

// coinbaseHeight: the height h such that the script starts with the minimal encoding of h, or -1.
func coinbaseHeight(s []byte) int64 {
	if len(s) == 0 {
		return -1
	}
	var v int64
	c := s[0]
	switch {
	case c == txscript.OP_0:
		v = 0
	case c >= txscript.OP_1 && c <= txscript.OP_16:
		v = int64(c - (txscript.OP_1 - 1))
	case c >= 1 && c <= 4:
		if len(s) < 1+int(c) {
			return -1
		}
		for i := int(c); i >= 1; i-- {
			v = v<<8 | int64(s[i])
		}
		if v >= 1<<31 {
			return -1
		}
	default:
		return -1
	}
	if !bytes.HasPrefix(s, minimalNum(v)) {
		return -1
	}
	return v
}

// ---------------------------------------------------------------- compact bits (only to print the target-independent tokens)

func isNullOut(o wire.OutPoint) bool {
	return o.Index == 0xffffffff && o.Hash == [32]byte{}
}

// ---------------------------------------------------------------- the description

type scen struct {
	hOk, hFail int32
	inOk       int // is the candidate on the active chain at the end when it is valid
	skipPow    int // the delivery does not compare the hash with the target
	store      int // the delivery stores blocks (0 for a template check)
	nowAdd     int // seconds the node's clock is advanced before the verdict that counts (clock context)
}

// describe renders the fact tokens "P C H B S tx…" for candidate `blk` on top of path `p`.
func describe(p *path, b *builder, blk *wire.MsgBlock, bip34HashOk bool, s scen) string {
	v := p.v
	height := p.height + 1
	var sb strings.Builder

	powLimit := chaincfg.RegressionNetParams.PowLimit
	fmt.Fprintf(&sb, "%d,%d,%d,%d,%d,%d,%d,%d,%d,%x,%d,%d", v.bip34H, v.bip65H, v.bip66H, v.csvH, v.segH, v.tapH,
		b2i(v.bip94), v.maturity, v.subsidyIv, powLimit, v.bpr, b2i(bip34HashOk))

	// context
	fmt.Fprintf(&sb, " %d,%d,%d,%x,%d", height, p.mtp(), p.times[len(p.times)-1],
		chaincfg.RegressionNetParams.PowLimitBits, v.now()+int64(s.nowAdd))

	// header
	hh := blk.Header.BlockHash()
	var rev [32]byte
	for i := range hh {
		rev[i] = hh[31-i]
	}
	fmt.Fprintf(&sb, " %d,%x,%d,%x", blk.Header.Version, blk.Header.Bits, blk.Header.Timestamp.Unix(),
		new(big.Int).SetBytes(rev[:]))

	// block level
	txs := blk.Transactions
	merkleOk := blk.Header.MerkleRoot == txidRoot(txs)
	seen := map[[32]byte]bool{}
	dup := false
	for _, t := range txs {
		h := t.TxHash()
		if seen[h] {
			dup = true
		}
		seen[h] = true
	}
	commit := 0
	cbH := int64(-1)
	if len(txs) > 0 && len(txs[0].TxIn) > 0 {
		cbH = coinbaseHeight(txs[0].TxIn[0].SignatureScript)
		commit = commitStatus(txs)
	}
	fmt.Fprintf(&sb, " %d,%d,%d,%d,%d,%d", blk.SerializeSizeStripped(), blk.SerializeSize(), b2i(merkleOk), b2i(dup), commit, cbH)
	fmt.Fprintf(&sb, " %d,%d,%d,%d,%d,%d", s.hOk, s.hFail, s.inOk, s.skipPow, s.store, s.nowAdd)

	// transactions, against the utxo set as it evolves inside the block
	view := map[wire.OutPoint]coin{}
	spent := map[wire.OutPoint]bool{}
	lookup := func(o wire.OutPoint) (coin, bool) {
		if spent[o] {
			return coin{}, false
		}
		if c, ok := view[o]; ok {
			return c, true
		}
		c, ok := p.utxo[o]
		return c, ok
	}
	for _, t := range txs {
		txid := t.TxHash()
		overw := false
		for oi := range t.TxOut {
			if _, ok := lookup(wire.OutPoint{Hash: txid, Index: uint32(oi)}); ok {
				overw = true
			}
		}
		dupIn := false
		inSeen := map[wire.OutPoint]bool{}
		for _, in := range t.TxIn {
			if inSeen[in.PreviousOutPoint] {
				dupIn = true
			}
			inSeen[in.PreviousOutPoint] = true
		}
		legacy := 0
		for _, in := range t.TxIn {
			legacy += sigops(in.SignatureScript, false)
		}
		for _, o := range t.TxOut {
			legacy += sigops(o.PkScript, false)
		}
		s0 := 0
		if len(t.TxIn) > 0 {
			s0 = len(t.TxIn[0].SignatureScript)
		}
		fmt.Fprintf(&sb, " %d;%d;%d;%d;%d;%d;%d;%d;", uint32(t.Version), t.LockTime, t.SerializeSizeStripped(),
			b2i(dupIn), s0, legacy, b2i(t.HasWitness()), b2i(overw))
		// outputs (run-length compressed)
		if len(t.TxOut) == 0 {
			sb.WriteString("~")
		}
		for i := 0; i < len(t.TxOut); {
			j := i
			for j < len(t.TxOut) && t.TxOut[j].Value == t.TxOut[i].Value {
				j++
			}
			if i > 0 {
				sb.WriteString("_")
			}
			if j-i > 1 {
				fmt.Fprintf(&sb, "%d*%d", t.TxOut[i].Value, j-i)
			} else {
				fmt.Fprintf(&sb, "%d", t.TxOut[i].Value)
			}
			i = j
		}
		sb.WriteString(";")
		if len(t.TxIn) == 0 {
			sb.WriteString("~")
		}
		isCbShape := len(t.TxIn) == 1 && isNullOut(t.TxIn[0].PreviousOutPoint)
		for ii, in := range t.TxIn {
			if ii > 0 {
				sb.WriteString("/")
			}
			null := isNullOut(in.PreviousOutPoint)
			c, ok := coin{}, false
			if !null {
				c, ok = lookup(in.PreviousOutPoint)
			}
			note := b.notes[noteKey{t, ii}]
			ps, ws := 0, 0
			var opm int64
			if ok {
				ps = p2shSigops(in.SignatureScript, c.script)
				ws = witnessSigops(in.SignatureScript, c.script, in.Witness)
				if c.height > height-1 {
					// created earlier in this very block
					opm = p.mtpAt(height - 1)
				} else {
					opm = p.mtpAt(c.height - 1)
				}
			}
			fmt.Fprintf(&sb, "%d:%d:%d:%d:%d:%d:%d:%d:%d:%d:%d", b2i(null), in.Sequence, b2i(ok), b2i(ok && c.coinbase),
				c.height, opm, c.amount, ps, ws, b2i(note.failsAlways), note.failsUnder)
		}
		// fold this transaction into the in-block view (a coinbase-shaped tx spends nothing)
		if !isCbShape {
			for _, in := range t.TxIn {
				if _, ok := lookup(in.PreviousOutPoint); ok {
					spent[in.PreviousOutPoint] = true
				}
			}
		}
		for oi, o := range t.TxOut {
			if isUnspendable(o.PkScript) {
				continue
			}
			op := wire.OutPoint{Hash: txid, Index: uint32(oi)}
			delete(spent, op)
			view[op] = coin{amount: o.Value, script: o.PkScript, k: classify(o.PkScript), height: height, coinbase: isCbShape}
		}
	}
	return sb.String()
}

// commitStatus: 0 absent, 1 present and valid, 2 present and invalid (own recomputation).
func commitStatus(txs []*wire.MsgTx) int {
	cb := txs[0]
	var commitment []byte
	for i := len(cb.TxOut) - 1; i >= 0; i-- {
		s := cb.TxOut[i].PkScript
		if len(s) >= 38 && bytes.HasPrefix(s, witnessMagic) {
			commitment = s[6:38]
			break
		}
	}
	if commitment == nil {
		return 0
	}
	w := cb.TxIn[0].Witness
	if len(w) != 1 || len(w[0]) != 32 {
		return 2
	}
	root := wtxidRoot(txs)
	c := dsha(append(append([]byte{}, root[:]...), w[0]...))
	if !bytes.Equal(c[:], commitment) {
		return 2
	}
	return 1
}
