package p01

// solo.go: ops that need no chain.
//   C01 txs <height> <cutoff> <txhex> <totalSize> <txfacts>   CheckTransactionSanity, IsCoinBaseTx, CountSigOps,
//        IsFinalizedTransaction, GetTransactionWeight on one stand-alone transaction at its value boundaries
//   C01 cbh <scripthex> <want>   ExtractCoinbaseHeight / CheckSerializedHeight on a coinbase script
//   C01 sub <height> <interval>  CalcBlockSubsidy

import (
	"bytes"
	"encoding/hex"
	"fmt"
	"math"
	"strconv"
	"strings"
	"time"

	"github.com/btcsuite/btcd/blockchain"
	"github.com/btcsuite/btcd/btcutil/v2"
	"github.com/btcsuite/btcd/chaincfg/v2"
	"github.com/btcsuite/btcd/chainhash/v2"
	"github.com/btcsuite/btcd/txscript/v2"
	"github.com/btcsuite/btcd/wire/v2"

	"verifharness/core"
)

// soloTxFacts renders the tx token of the description for a transaction without any chain behind it.
func soloTxFacts(t *wire.MsgTx) string {
	var sb strings.Builder
	dupIn := false
	seen := map[wire.OutPoint]bool{}
	for _, in := range t.TxIn {
		if seen[in.PreviousOutPoint] {
			dupIn = true
		}
		seen[in.PreviousOutPoint] = true
	}
	legacy := 0
	for _, in := range t.TxIn {
		legacy += sigops(in.SignatureScript, false)
	}
	for _, o := range t.TxOut {
		legacy += sigops(o.PkScript, false)
	}
	s0 := 0
	if len(t.TxIn) > 0 {
		s0 = len(t.TxIn[0].SignatureScript)
	}
	fmt.Fprintf(&sb, "%d;%d;%d;%d;%d;%d;%d;0;", uint32(t.Version), t.LockTime, t.SerializeSizeStripped(),
		b2i(dupIn), s0, legacy, b2i(t.HasWitness()))
	for i, o := range t.TxOut {
		if i > 0 {
			sb.WriteString("_")
		}
		fmt.Fprintf(&sb, "%d", o.Value)
	}
	if len(t.TxOut) == 0 {
		sb.WriteString("~")
	}
	sb.WriteString(";")
	for i, in := range t.TxIn {
		if i > 0 {
			sb.WriteString("/")
		}
		fmt.Fprintf(&sb, "%d:%d:0:0:0:0:0:0:0:0:0", b2i(isNullOut(in.PreviousOutPoint)), in.Sequence)
	}
	if len(t.TxIn) == 0 {
		sb.WriteString("~")
	}
	return sb.String()
}

func txsLine(t *wire.MsgTx, height int32, cutoff int64) string {
	var buf bytes.Buffer
	t.Serialize(&buf)
	return fmt.Sprintf("C01 txs %d %d %s %d %s", height, cutoff, hex.EncodeToString(buf.Bytes()), t.SerializeSize(), soloTxFacts(t))
}

func execTxs(tok []string) string {
	if len(tok) != 5 {
		return "bad-op"
	}
	h, e1 := strconv.ParseInt(tok[0], 10, 32)
	cut, e2 := strconv.ParseInt(tok[1], 10, 64)
	raw, e3 := hex.DecodeString(tok[2])
	if e1 != nil || e2 != nil || e3 != nil {
		return "bad-op"
	}
	var t wire.MsgTx
	if err := t.Deserialize(bytes.NewReader(raw)); err != nil {
		return "malformed"
	}
	if tok[3] != strconv.Itoa(t.SerializeSize()) || tok[4] != soloTxFacts(&t) {
		return "facts-mismatch"
	}
	tx := btcutil.NewTx(&t)
	san := "ok" // several defects at once are the rule here: only accept/reject is compared
	if blockchain.CheckTransactionSanity(tx) != nil {
		san = "rej"
	}
	return fmt.Sprintf("san=%s cb=%d so=%d fin=%d w=%d", san,
		b2i(blockchain.IsCoinBaseTx(&t)), blockchain.CountSigOps(tx),
		b2i(blockchain.IsFinalizedTransaction(tx, int32(h), time.Unix(cut, 0))), blockchain.GetTransactionWeight(tx))
}

func execCbh(tok []string) string {
	if len(tok) != 2 {
		return "bad-op"
	}
	script := []byte{}
	if tok[0] != "-" {
		var err error
		if script, err = hex.DecodeString(tok[0]); err != nil {
			return "bad-op"
		}
	}
	want, err := strconv.ParseInt(tok[1], 10, 32)
	if err != nil {
		return "bad-op"
	}
	tx := btcutil.NewTx(mkCoinbase(script, []*wire.TxOut{txOut(0, kTrue)}))
	ext := ""
	if h, err := blockchain.ExtractCoinbaseHeight(tx); err != nil {
		re, ok := err.(blockchain.RuleError)
		// missing vs malformed height are one rule class (BIP34) for the property
		if ok && (re.ErrorCode == blockchain.ErrMissingCoinbaseHeight || re.ErrorCode == blockchain.ErrBadCoinbaseHeight) {
			ext = "rej"
		} else {
			ext = "internal"
		}
	} else {
		ext = fmt.Sprintf("h:%d", h)
	}
	return fmt.Sprintf("%s chk=%s", ext, cls(blockchain.CheckSerializedHeight(tx, int32(want))))
}

func execSub(tok []string) string {
	if len(tok) != 2 {
		return "bad-op"
	}
	h, e1 := strconv.ParseInt(tok[0], 10, 32)
	iv, e2 := strconv.ParseInt(tok[1], 10, 32)
	if e1 != nil || e2 != nil {
		return "bad-op"
	}
	p := chaincfg.RegressionNetParams
	p.SubsidyReductionInterval = int32(iv)
	return fmt.Sprint(blockchain.CalcBlockSubsidy(int32(h), &p))
}

// ---------------------------------------------------------------- generators

var valueEdges = []int64{0, 1, 5000, btcutil.MaxSatoshi - 1, btcutil.MaxSatoshi, btcutil.MaxSatoshi + 1,
	btcutil.MaxSatoshi / 2, btcutil.MaxSatoshi/2 + 1, -1, math.MinInt64, math.MaxInt64, 1 << 62}

func genSolo(R *core.Rand, thorough bool, emit func(class string, nontrivial bool, line string)) {
	n := 250
	if thorough {
		n = 4000
	}
	const height, cutoff = 700000, 1600000000
	lockEdges := []uint32{0, height - 1, height, height + 1, 499999999, 500000000, 500000001,
		cutoff - 1, cutoff, cutoff + 1, math.MaxUint32}
	seqEdges := []uint32{0, 1, wire.MaxTxInSequenceNum - 1, wire.MaxTxInSequenceNum}
	scripts := [][]byte{{txscript.OP_TRUE}, {txscript.OP_CHECKSIG}, {txscript.OP_CHECKMULTISIG}, pkScriptOf(kP2PKH),
		{txscript.OP_1, txscript.OP_CHECKMULTISIG, txscript.OP_CHECKSIGVERIFY}, {0x4c}, {}}
	for i := 0; i < n; i++ {
		t := wire.NewMsgTx(int32(R.Pick(1, 2, -1)))
		t.LockTime = lockEdges[R.Intn(len(lockEdges))]
		if R.Chance(1, 4) {
			// coinbase shaped, script length at its limits
			l := int(R.Pick(0, 1, 2, 3, 50, 99, 100, 101, 102))
			t.AddTxIn(&wire.TxIn{PreviousOutPoint: *wire.NewOutPoint(&chainhash.Hash{}, wire.MaxPrevOutIndex),
				SignatureScript: bytes.Repeat([]byte{txscript.OP_NOP}, l), Sequence: seqEdges[R.Intn(len(seqEdges))]})
		} else {
			k := 1 + R.Intn(3)
			for j := 0; j < k; j++ {
				op := wire.OutPoint{Hash: chainhash.Hash{byte(1 + R.Intn(2))}, Index: uint32(R.Intn(2))}
				if R.Chance(1, 8) {
					op = *wire.NewOutPoint(&chainhash.Hash{}, wire.MaxPrevOutIndex) // null prevout among others
				}
				if R.Chance(1, 16) {
					op.Index = wire.MaxPrevOutIndex // max index with a non-zero hash is NOT null
				}
				t.AddTxIn(&wire.TxIn{PreviousOutPoint: op, SignatureScript: scripts[R.Intn(len(scripts))],
					Sequence: seqEdges[R.Intn(len(seqEdges))]})
			}
		}
		k := 1 + R.Intn(3)
		if R.Chance(1, 20) {
			k = 0
		}
		for j := 0; j < k; j++ {
			t.AddTxOut(&wire.TxOut{Value: valueEdges[R.Intn(len(valueEdges))], PkScript: scripts[R.Intn(len(scripts))]})
		}
		emit("txs", true, txsLine(t, height, cutoff))
	}
	// BIP34 height scripts: every encoding boundary, canonical and not
	hs := []int64{0, 1, 2, 15, 16, 17, 127, 128, 129, 255, 256, 32767, 32768, 65535, 65536, 8388607, 8388608,
		16777215, 16777216, 2147483646, 2147483647}
	for _, h := range hs {
		canon := minimalNum(h)
		for _, want := range []int64{h, h + 1, h - 1} {
			if want < 0 || want > math.MaxInt32 {
				continue
			}
			emit("cbh", true, fmt.Sprintf("C01 cbh %s %d", hex.EncodeToString(append(append([]byte{}, canon...), 0x51, 0x52)), want))
		}
		emit("cbh", true, fmt.Sprintf("C01 cbh %s %d", hex.EncodeToString(canon), h))
		// non-minimal: padded with a zero byte; as a raw push of 1..4 bytes even when a small-int opcode exists
		var le []byte
		for v := h; v > 0; v >>= 8 {
			le = append(le, byte(v))
		}
		for pad := 0; pad <= 2 && len(le)+pad <= 5; pad++ {
			b := append(append([]byte{}, le...), make([]byte, pad)...)
			if len(b) == 0 {
				continue
			}
			emit("cbh", true, fmt.Sprintf("C01 cbh %s %d", hex.EncodeToString(append([]byte{byte(len(b))}, b...)), h))
		}
		// truncated push
		if len(canon) > 1 {
			emit("cbh", true, fmt.Sprintf("C01 cbh %s %d", hex.EncodeToString(canon[:len(canon)-1]), h))
		}
	}
	for _, s := range []string{"-", "4f", "0181", "04ffffffff", "04ffffff7f", "0500000000 01", "4c0109", "ff", "61", "0100", "020000", "028000", "0180"} {
		emit("cbh", true, fmt.Sprintf("C01 cbh %s %d", strings.ReplaceAll(s, " ", ""), 128))
	}
	// every value of the first script byte (the discriminator between small-int opcodes, direct pushes and the rest)
	for b := 0; b < 256; b++ {
		emit("cbh", true, fmt.Sprintf("C01 cbh %02x0900000000 %d", b, 9))
	}
	for i := 0; i < n/4; i++ {
		emit("cbh", true, fmt.Sprintf("C01 cbh %s %d", hex.EncodeToString(R.Bytes(1+R.Intn(6))), R.Intn(300)))
	}
	// subsidy: every halving boundary +-1 for small intervals, shift counts 63/64/65
	for _, iv := range []int64{0, 1, 2, 9, 150, 210000} {
		for _, q := range []int64{0, 1, 2, 32, 33, 62, 63, 64, 65, 100} {
			for _, d := range []int64{-1, 0, 1} {
				h := q*iv + d
				if iv == 0 {
					h = q + d
				}
				if h >= 0 && h <= math.MaxInt32 {
					emit("sub", true, fmt.Sprintf("C01 sub %d %d", h, iv))
				}
			}
		}
	}
}
