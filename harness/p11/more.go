package p11

import "verifharness/core"

func execMore(op string, a []string) string {
	return "bad-op"
}

func genMore(g *core.Gen) {}
