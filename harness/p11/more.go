package p11

import (
	"fmt"
	"math/big"

	"github.com/btcsuite/btcd/btcec/v2"
	"github.com/btcsuite/btcd/btcec/v2/ecdsa"
	"github.com/btcsuite/btcd/btcec/v2/schnorr"
	"github.com/btcsuite/btcd/chainhash/v2"
	"verifharness/core"
)

func b01(b bool) string {
	if b {
		return "1"
	}
	return "0"
}

func showJ(j *btcec.JacobianPoint) string {
	if (j.X.IsZero() && j.Y.IsZero()) || j.Z.IsZero() {
		return "inf"
	}
	j.ToAffine()
	return hx(btcec.NewPublicKey(&j.X, &j.Y).SerializeCompressed())
}

func privFrom(s string) *btcec.PrivateKey {
	b := unhex(s)
	if len(b) != 32 {
		panic("bad priv")
	}
	k, _ := btcec.PrivKeyFromBytes(b)
	return k
}

func execMore(op string, a []string) string {
	switch {
	case op == "ssig" && len(a) == 1:
		sig, err := schnorr.ParseSignature(unhex(a[0]))
		if err != nil {
			return "err"
		}
		return "ok " + hx(sig.Serialize())
	case op == "xonly" && len(a) == 1:
		pk, err := schnorr.ParsePubKey(unhex(a[0]))
		if err != nil {
			return "err"
		}
		return fmt.Sprintf("ok %x %x", pk.SerializeCompressed(), schnorr.SerializePubKey(pk))
	case op == "pub" && len(a) == 1:
		pk, err := btcec.ParsePubKey(unhex(a[0]))
		if err != nil {
			return "err"
		}
		return fmt.Sprintf("ok %x %x", pk.SerializeCompressed(), pk.SerializeUncompressed())
	case op == "mulchk" && len(a) == 2:
		pk, err := btcec.ParsePubKey(unhex(a[1]))
		if err != nil {
			return "err"
		}
		var k btcec.ModNScalar
		k.SetByteSlice(unhex(a[0]))
		var pj, res btcec.JacobianPoint
		pk.AsJacobian(&pj)
		btcec.ScalarMultNonConst(&k, &pj, &res)
		s := showJ(&res)
		return s + " " + s
	case op == "ecdsav" && len(a) == 4:
		var sig *ecdsa.Signature
		var err error
		if a[0] == "d" {
			sig, err = ecdsa.ParseDERSignature(unhex(a[2]))
		} else {
			sig, err = ecdsa.ParseSignature(unhex(a[2]))
		}
		if err != nil {
			return "err"
		}
		pk, err := btcec.ParsePubKey(unhex(a[3]))
		if err != nil {
			return "err"
		}
		return b01(sig.Verify(unhex(a[1]), pk))
	case op == "ecdsas" && len(a) == 2:
		k := privFrom(a[0])
		msg := unhex(a[1])
		sig := ecdsa.Sign(k, msg)
		return fmt.Sprintf("%x %s", sig.Serialize(), b01(sig.Verify(msg, k.PubKey())))
	case op == "compact" && len(a) == 3:
		k := privFrom(a[0])
		msg := unhex(a[1])
		cs := ecdsa.SignCompact(k, msg, a[2] == "1")
		pk, wc, err := ecdsa.RecoverCompact(cs, msg)
		if err != nil {
			return fmt.Sprintf("%x err", cs)
		}
		return fmt.Sprintf("%x %x %s", cs, pk.SerializeCompressed(), b01(wc))
	case op == "rec" && len(a) == 2:
		pk, wc, err := ecdsa.RecoverCompact(unhex(a[0]), unhex(a[1]))
		if err != nil {
			return "err"
		}
		return fmt.Sprintf("ok %x %s", pk.SerializeCompressed(), b01(wc))
	case op == "schv" && len(a) == 3:
		sig, err := schnorr.ParseSignature(unhex(a[1]))
		if err != nil {
			return "err"
		}
		pk, err := schnorr.ParsePubKey(unhex(a[2]))
		if err != nil {
			return "err"
		}
		return b01(sig.Verify(unhex(a[0]), pk))
	case op == "schs" && len(a) == 3:
		k := privFrom(a[0])
		msg := unhex(a[1])
		var opts []schnorr.SignOption
		if a[2] != "rfc" {
			var aux [32]byte
			ab := unhex(a[2])
			if len(ab) != 32 {
				return "bad-op"
			}
			copy(aux[:], ab)
			opts = append(opts, schnorr.CustomNonce(aux))
		}
		sig, err := schnorr.Sign(k, msg, opts...)
		if err != nil {
			return "err"
		}
		if a[2] == "rfc" {
			// The default (RFC6979-based) nonce derivation is an implementation choice, not fixed by BIP340:
			// the property only demands that the signature verifies, so the bytes are NOT part of the
			// observation (membership: Go's verdict here + Lean's Spec verdict on generator-signed triples).
			return "rfc " + b01(sig.Verify(msg, k.PubKey()))
		}
		return fmt.Sprintf("%x %s", sig.Serialize(), b01(sig.Verify(msg, k.PubKey())))
	case op == "ecdh" && len(a) == 2:
		pk, err := btcec.ParsePubKey(unhex(a[1]))
		if err != nil {
			return "err"
		}
		return hx(btcec.GenerateSharedSecret(privFrom(a[0]), pk))
	case op == "ecdh2" && len(a) == 2:
		ka, kb := privFrom(a[0]), privFrom(a[1])
		return fmt.Sprintf("%x %x", btcec.GenerateSharedSecret(ka, kb.PubKey()), btcec.GenerateSharedSecret(kb, ka.PubKey()))
	}
	return execMusig(op, a)
}

// ---------------------------------------------------------------- generators

func edgePrivs() []*big.Int {
	return []*big.Int{big.NewInt(1), big.NewInt(2), big.NewInt(3), add(curveN, -1), add(curveN, -2), halfN, add(halfN, 1), add(halfN, -1)}
}

func randPriv(r *core.Rand) *big.Int {
	if r.Chance(1, 6) {
		e := edgePrivs()
		return e[r.Intn(len(e))]
	}
	return add(randBelow(r, add(curveN, -1)), 1)
}

func pubOf(d *big.Int) *btcec.PublicKey {
	_, pk := btcec.PrivKeyFromBytes(b32(d))
	return pk
}

func hybrid(pk *btcec.PublicKey) []byte {
	b := pk.SerializeUncompressed()
	b[0] = 0x06 | (b[64] & 1)
	return b
}

// pubFormats: the same point in every accepted encoding.
func pubFormats(pk *btcec.PublicKey) [][]byte {
	return [][]byte{pk.SerializeCompressed(), pk.SerializeUncompressed(), hybrid(pk)}
}

func genPub(g *core.Gen) {
	r := g.R.Fork()
	emit := func(class string, b []byte) {
		g.Case("pub:"+class, len(b) == 33 || len(b) == 65, "C11 pub "+hx(b))
	}
	fieldEdges := []*big.Int{big.NewInt(0), big.NewInt(1), big.NewInt(2), add(curveP, -1), curveP, add(curveP, 1), add(curveP, 2),
		add(curveP, 7), curveN, new(big.Int).Sub(new(big.Int).Lsh(big.NewInt(1), 256), big.NewInt(1))}
	for i := 0; i < g.N(120, 2000); i++ {
		pk := pubOf(randPriv(r))
		for _, b := range pubFormats(pk) {
			emit("valid", b)
		}
		// every prefix byte on the valid bodies
		comp, unc := pk.SerializeCompressed(), pk.SerializeUncompressed()
		pre := byte(r.Intn(256))
		if i < 9 {
			pre = byte(i)
		}
		c2 := append([]byte{pre}, comp[1:]...)
		emit("prefix33", c2)
		u2 := append([]byte{pre}, unc[1:]...)
		emit("prefix65", u2)
		// hybrid with the wrong parity
		h := hybrid(pk)
		h[0] ^= 1
		emit("hybrid-parity", h)
		// other compressed parity (valid: the negated point)
		c3 := append([]byte{}, comp...)
		c3[0] ^= 1
		emit("valid-neg", c3)
		// uncompressed with negated y (valid) and with y off by one / swapped coordinates (off curve)
		y := new(big.Int).SetBytes(unc[33:])
		ny := new(big.Int).Sub(curveP, y)
		emit("valid-negy", append(append([]byte{4}, unc[1:33]...), b32(ny)...))
		emit("offcurve-y1", append(append([]byte{byte(r.Pick(4, 6, 7))}, unc[1:33]...), b32(add(y, 1))...))
		emit("offcurve-swap", append(append([]byte{4}, unc[33:]...), unc[1:33]...))
		// y + p (same residue, out of range) where it fits in 32 bytes
		yp := new(big.Int).Add(y, curveP)
		if yp.BitLen() <= 256 {
			emit("y-ge-p", append(append([]byte{4}, unc[1:33]...), b32(yp)...))
		}
		x := new(big.Int).SetBytes(unc[1:33])
		xp := new(big.Int).Add(x, curveP)
		if xp.BitLen() <= 256 {
			emit("x-ge-p", append([]byte{comp[0]}, b32(xp)...))
			emit("x-ge-p", append(append([]byte{4}, b32(xp)...), unc[33:]...))
		}
		// wrong lengths
		switch r.Intn(6) {
		case 0:
			emit("len", comp[:32])
		case 1:
			emit("len", append(comp, 0))
		case 2:
			emit("len", unc[:64])
		case 3:
			emit("len", append(unc, 0))
		case 4:
			emit("len", comp[1:])
		case 5:
			emit("len", unc[1:])
		}
		// random x (about half are on the curve)
		emit("random-x", append([]byte{byte(2 + r.Intn(2))}, r.Bytes(32)...))
		emit("random-xy", append([]byte{byte(r.Pick(4, 6, 7))}, r.Bytes(64)...))
	}
	for _, e := range fieldEdges {
		for _, pre := range []byte{2, 3} {
			emit("edge-x", append([]byte{pre}, b32(e)...))
		}
		for _, e2 := range fieldEdges {
			emit("edge-xy", append(append([]byte{byte(r.Pick(4, 6, 7))}, b32(e)...), b32(e2)...))
		}
	}
	emit("len", nil)
	// x-only keys
	emitX := func(class string, b []byte) {
		g.Case("xonly:"+class, len(b) == 32, "C11 xonly "+hx(b))
	}
	for i := 0; i < g.N(150, 2000); i++ {
		pk := pubOf(randPriv(r))
		xb := schnorr.SerializePubKey(pk)
		emitX("valid", xb)
		emitX("random", r.Bytes(32))
		x := new(big.Int).SetBytes(xb)
		if xp := new(big.Int).Add(x, curveP); xp.BitLen() <= 256 {
			emitX("x-ge-p", b32(xp))
		}
		if i%10 == 0 {
			emitX("len", xb[:31])
			emitX("len", append(append([]byte{}, xb...), 0))
			emitX("len", pk.SerializeCompressed())
		}
	}
	for _, e := range fieldEdges {
		emitX("edge", b32(e))
	}
	emitX("len", nil)
}

func genSchnorrSigParse(g *core.Gen) {
	r := g.R.Fork()
	edges := edgeInts()
	fit := func(v *big.Int) []byte {
		if v.BitLen() > 256 {
			v = new(big.Int).Sub(new(big.Int).Lsh(big.NewInt(1), 256), big.NewInt(1))
		}
		return b32(v)
	}
	emit := func(class string, b []byte) {
		g.Case("ssig:"+class, len(b) == 64, "C11 ssig "+hx(b))
	}
	for _, e := range edges {
		emit("edge-r", append(fit(e), fit(randScalarish(r, edges))...))
		emit("edge-s", append(r.Bytes(32), fit(e)...))
		for _, e2 := range edges {
			if r.Chance(1, 8) {
				emit("edge-rs", append(fit(e), fit(e2)...))
			}
		}
	}
	for i := 0; i < g.N(300, 3000); i++ {
		emit("random", r.Bytes(64))
		if i%20 == 0 {
			emit("len", r.Bytes(int(r.Pick(0, 1, 32, 63, 65, 96))))
		}
	}
}

func randMsg(r *core.Rand) []byte {
	switch r.Intn(12) {
	case 0:
		return make([]byte, 32)
	case 1:
		return bytesOf(0xff, 32)
	case 2:
		return b32(curveN) // message integer = n: reduces to 0
	case 3:
		return b32(add(curveN, 1))
	}
	return r.Bytes(32)
}

func bytesOf(b byte, n int) []byte {
	out := make([]byte, n)
	for i := range out {
		out[i] = b
	}
	return out
}

func genSignVerify(g *core.Gen) {
	r := g.R.Fork()
	edges := edgeInts()
	// ECDSA: sign (RFC6979), compact sign + recover
	for i := 0; i < g.N(60, 1500); i++ {
		d, msg := randPriv(r), randMsg(r)
		g.Case("ecdsa-sign", true, fmt.Sprintf("C11 ecdsas %x %x", b32(d), msg))
		if i%3 == 0 {
			g.Case("compact", true, fmt.Sprintf("C11 compact %x %x %d", b32(d), msg, r.Intn(2)))
		}
	}
	// ECDSA verify on (message, signature, key) triples: right and wrong ones
	for i := 0; i < g.N(60, 1500); i++ {
		d, msg := randPriv(r), randMsg(r)
		priv, pk := btcec.PrivKeyFromBytes(b32(d))
		sig := ecdsa.Sign(priv, msg)
		rs, ss := sig.R(), sig.S()
		rv, sv := new(big.Int).SetBytes(bytesArr(rs.Bytes())), new(big.Int).SetBytes(bytesArr(ss.Bytes()))
		der := func(rv, sv *big.Int) []byte {
			return derShape{seqTag: 0x30, rTag: 2, sTag: 2, rBody: minimalBody(rv), sBody: minimalBody(sv)}.bytes()
		}
		fm := pubFormats(pk)
		emit := func(class, mode string, m, s, p []byte) {
			g.Case("ecdsa-verify:"+class, true, fmt.Sprintf("C11 ecdsav %s %x %x %x", mode, m, s, p))
		}
		emit("valid", "d", msg, der(rv, sv), fm[r.Intn(3)])
		emit("valid-high-s", "d", msg, der(rv, new(big.Int).Sub(curveN, sv)), fm[r.Intn(3)])
		emit("valid-lax", "l", msg, derShape{seqTag: 0x30, rTag: 2, sTag: 2, rBody: append(make([]byte, r.Intn(3)), minimalBody(rv)...), sBody: append(make([]byte, r.Intn(50)), minimalBody(sv)...)}.bytes(), fm[r.Intn(3)])
		switch i % 6 {
		case 0:
			m2 := append([]byte{}, msg...)
			m2[r.Intn(32)] ^= 1 << uint(r.Intn(8))
			emit("wrong-msg", "d", m2, der(rv, sv), fm[0])
		case 1:
			emit("wrong-key", "d", msg, der(rv, sv), pubOf(randPriv(r)).SerializeCompressed())
		case 2:
			emit("wrong-r", "d", msg, der(add(rv, 1), sv), fm[0])
		case 3:
			emit("wrong-s", "d", msg, der(rv, add(sv, 1)), fm[0])
		case 4:
			neg := append([]byte{}, fm[0]...)
			neg[0] ^= 1
			emit("negated-key", "d", msg, der(rv, sv), neg)
		case 5:
			emit("edge-rs", "l", msg, der(randScalarish(r, edges), randScalarish(r, edges)), fm[0])
		}
	}
	// compact recovery on arbitrary input
	for i := 0; i < g.N(40, 1000); i++ {
		d, msg := randPriv(r), randMsg(r)
		priv, _ := btcec.PrivKeyFromBytes(b32(d))
		cs := ecdsa.SignCompact(priv, msg, r.Bool())
		switch r.Intn(5) {
		case 0:
			cs[0] = byte(r.Pick(26, 27, 30, 31, 34, 35, 0, 255))
		case 1:
			cs[0] ^= byte(1 + r.Intn(3))
		case 2:
			e := edges[r.Intn(len(edges))]
			if e.BitLen() <= 256 {
				copy(cs[1:33], b32(e))
			}
		case 3:
			e := edges[r.Intn(len(edges))]
			if e.BitLen() <= 256 {
				copy(cs[33:], b32(e))
			}
		case 4:
			if r.Bool() {
				cs = cs[:64]
			} else {
				cs = append(cs, 0)
			}
		}
		g.Case("recover", true, fmt.Sprintf("C11 rec %s %x", hx(cs), msg))
	}
	// Schnorr: sign with aux randomness (BIP340) and with RFC6979
	for i := 0; i < g.N(80, 2000); i++ {
		d, msg := randPriv(r), randMsg(r)
		aux := "rfc"
		if i%2 == 0 {
			a := r.Bytes(32)
			if i%10 == 0 {
				a = make([]byte, 32)
			}
			aux = hx(a)
		}
		g.Case("schnorr-sign", true, fmt.Sprintf("C11 schs %x %x %s", b32(d), msg, aux))
	}
	g.Case("schnorr-sign-edge", true, fmt.Sprintf("C11 schs %x %x rfc", b32(big.NewInt(0)), r.Bytes(32)))
	g.Case("schnorr-sign-edge", true, fmt.Sprintf("C11 schs %x %x rfc", b32(curveN), r.Bytes(32)))
	g.Case("schnorr-sign-edge", true, fmt.Sprintf("C11 schs %x %x rfc", b32(big.NewInt(5)), r.Bytes(31)))
	g.Case("schnorr-sign-edge", true, fmt.Sprintf("C11 schs %x %x %x", b32(big.NewInt(5)), r.Bytes(33), r.Bytes(32)))
	// Schnorr verify triples
	for i := 0; i < g.N(80, 2000); i++ {
		d, msg := randPriv(r), randMsg(r)
		priv, pk := btcec.PrivKeyFromBytes(b32(d))
		sig, err := schnorr.Sign(priv, msg, schnorr.FastSign()) // FastSign: a generator must never spin in the signer's retry loop
		if err != nil {
			continue
		}
		sb := sig.Serialize()
		xb := schnorr.SerializePubKey(pk)
		emit := func(class string, m, s, p []byte) {
			g.Case("schnorr-verify:"+class, true, fmt.Sprintf("C11 schv %s %s %s", hx(m), hx(s), hx(p)))
		}
		emit("valid", msg, sb, xb)
		s2 := append([]byte{}, sb...)
		switch i % 8 {
		case 0:
			m2 := append([]byte{}, msg...)
			m2[r.Intn(32)] ^= 1 << uint(r.Intn(8))
			emit("wrong-msg", m2, sb, xb)
		case 1:
			emit("wrong-key", msg, sb, schnorr.SerializePubKey(pubOf(randPriv(r))))
		case 2:
			// negated s
			sv := new(big.Int).SetBytes(sb[32:])
			copy(s2[32:], b32(new(big.Int).Sub(curveN, sv)))
			emit("neg-s", msg, s2, xb)
		case 3:
			s2[r.Intn(64)] ^= 1 << uint(r.Intn(8))
			emit("flip", msg, s2, xb)
		case 4:
			// a signature whose R has odd y / whose key was not negated: must be rejected
			emit("odd-R", msg, oddSchnorr(d, msg, r, true), xb)
		case 5:
			emit("odd-P", msg, oddSchnorr(d, msg, r, false), xb)
		case 6:
			e := edges[r.Intn(len(edges))]
			if e.BitLen() <= 256 {
				copy(s2[32*r.Intn(2):], b32(e))
			}
			emit("edge-rs", msg, s2, xb)
		case 7:
			emit("msg-len", msg[:r.Intn(32)], sb, xb)
		}
	}
	// ECDH
	for i := 0; i < g.N(40, 1000); i++ {
		a, b := randPriv(r), randPriv(r)
		g.Case("ecdh2", true, fmt.Sprintf("C11 ecdh2 %x %x", b32(a), b32(b)))
		fm := pubFormats(pubOf(b))
		g.Case("ecdh", true, fmt.Sprintf("C11 ecdh %x %x", b32(a), fm[r.Intn(3)]))
	}
	// scalar multiplication cross-check (fast path vs textbook vs btcec)
	for i := 0; i < g.N(25, 400); i++ {
		k := randScalarish(r, edges)
		if k.BitLen() > 256 {
			continue
		}
		g.Case("mulchk", true, fmt.Sprintf("C11 mulchk %x %x", b32(k), pubOf(randPriv(r)).SerializeCompressed()))
	}
}

func bytesArr(a [32]byte) []byte { return a[:] }

// oddSchnorr builds a BIP340-shaped signature that skips one of the two negation rules, using btcec's own
// scalar arithmetic: oddR => the nonce is chosen so that R has odd y and is NOT negated; otherwise the key
// d is chosen/used without negation although P has odd y (falls back to a plain valid signature when P
// happens to have even y).
func oddSchnorr(d *big.Int, msg []byte, r *core.Rand, oddR bool) []byte {
	var ds, ks btcec.ModNScalar
	ds.SetByteSlice(b32(d))
	pk := pubOf(d)
	pkOdd := pk.SerializeCompressed()[0] == 3
	if oddR && pkOdd {
		ds.Negate()
	}
	for {
		ks.SetByteSlice(b32(randPriv(r)))
		var R btcec.JacobianPoint
		btcec.ScalarBaseMultNonConst(&ks, &R)
		R.ToAffine()
		if oddR != R.Y.IsOdd() {
			continue
		}
		rx := R.X.Bytes()
		e := chainhash.TaggedHash(chainhash.TagBIP0340Challenge, rx[:], schnorr.SerializePubKey(pk), msg)
		var es btcec.ModNScalar
		es.SetByteSlice(e[:])
		s := new(btcec.ModNScalar).Mul2(&es, &ds).Add(&ks)
		sb := s.Bytes()
		return append(rx[:], sb[:]...)
	}
}

