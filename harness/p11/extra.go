package p11

import (
	"bytes"
	"fmt"
	"math/big"
	"sort"
	"strconv"
	"strings"

	"github.com/btcsuite/btcd/btcec/v2"
	"github.com/btcsuite/btcd/btcec/v2/ecdsa"
	"github.com/btcsuite/btcd/btcec/v2/schnorr"
	"github.com/btcsuite/btcd/btcec/v2/schnorr/musig2"
	"github.com/btcsuite/btcd/chainhash/v2"
	"verifharness/core"
)

func jacBytes(j btcec.JacobianPoint) string { return hx(btcec.JacobianToByteSlice(j)) }

// execExtra: the remaining exported entry points of the anchor files (hardening round A1).
func execExtra(op string, a []string) string {
	switch {
	case op == "lows" && len(a) == 1:
		if ecdsa.VerifyLowS(unhex(a[0])) != nil {
			return "err"
		}
		return "ok"
	case op == "jac" && len(a) == 2:
		p1, err := btcec.ParseJacobian(unhex(a[0]))
		if err != nil {
			return "err"
		}
		p2, err := btcec.ParseJacobian(unhex(a[1]))
		if err != nil {
			return "err"
		}
		before := jacBytes(p1) + jacBytes(p2)
		var sum, dbl, gen btcec.JacobianPoint
		btcec.AddNonConst(&p1, &p2, &sum)
		btcec.DoubleNonConst(&p1, &dbl)
		btcec.GeneratorJacobian(&gen)
		mk := btcec.MakeJacobianPoint(&p1.X, &p1.Y, &p1.Z)
		out := fmt.Sprintf("add=%s dbl=%s g=%s mk=%s", jacBytes(sum), jacBytes(dbl), jacBytes(gen), jacBytes(mk))
		if before != jacBytes(p1)+jacBytes(p2) {
			return "UNSTABLE " + out
		}
		return out
	case op == "decy" && len(a) == 2:
		var x, y btcec.FieldVal
		if x.SetByteSlice(unhex(a[0])) {
			return "ovf"
		}
		if !btcec.DecompressY(&x, a[1] == "1", &y) {
			return "err"
		}
		y.Normalize()
		yb := y.Bytes()
		return fmt.Sprintf("%x", yb[:])
	case op == "pkutil" && len(a) == 1:
		b := unhex(a[0])
		c := b01(btcec.IsCompressedPubKey(b))
		pk, err := btcec.ParsePubKey(b)
		if err != nil {
			return "c=" + c + " err"
		}
		sk := btcec.ToSerialized(pk)
		pk2, err := sk.ToPubKey()
		if err != nil || !pk2.IsEqual(pk) {
			return "c=" + c + " roundtrip-broken"
		}
		xo := sk.SchnorrSerialized()
		cp := sk.CopyBytes()
		cp2 := sk.CopyBytes()
		cp2[0] ^= 0xff // CopyBytes must return a copy
		unc := pk.SerializeUncompressed()
		var fx, fy btcec.FieldVal
		fx.SetByteSlice(unc[1:33])
		fy.SetByteSlice(unc[33:])
		np := btcec.NewPublicKey(&fx, &fy)
		off := btcec.NewPublicKey(&fy, &fx) // swapped coordinates: not on the curve
		_ = cp2
		return fmt.Sprintf("c=%s ok %x %x %x oc=%s off=%s", c, sk.CopyBytes(), xo[:], cp, b01(np.IsOnCurve()), b01(off.IsOnCurve()))
	case op == "psdec" && len(a) == 1:
		var ps musig2.PartialSignature
		if err := ps.Decode(bytes.NewReader(unhex(a[0]))); err != nil {
			return "err"
		}
		var w bytes.Buffer
		if err := ps.Encode(&w); err != nil {
			return "err"
		}
		return "ok " + hx(w.Bytes())
	case op == "rfc" && len(a) == 5:
		it, err := strconv.Atoi(a[4])
		if err != nil || it < 0 || it > 3 {
			return "bad-op"
		}
		k := btcec.NonceRFC6979(unhex(a[0]), unhex(a[1]), unhex(a[2]), unhex(a[3]), uint32(it))
		kb := k.Bytes()
		return fmt.Sprintf("%x", kb[:])
	case op == "keyaggx" && len(a) == 6:
		keys := parseKeys(a[1])
		idx, err := strconv.Atoi(a[4])
		if err != nil || idx < -1 || idx >= len(keys) {
			return "bad-op"
		}
		pre := []musig2.KeyAggOption{musig2.WithKeysHash(unhex(a[3])), musig2.WithUniqueKeyIndex(idx)}
		opts := append(pre, parseTweakOpt(a[2]).keyAgg()...)
		if a[5] == "r" { // the other option order
			opts = append(parseTweakOpt(a[2]).keyAgg(), pre...)
		}
		agg, gacc, tacc, err := musig2.AggregateKeys(keys, a[0] == "1", opts...)
		if err != nil {
			return "err"
		}
		return fmt.Sprintf("ok %x %x %s %s", agg.FinalKey.SerializeCompressed(), agg.PreTweakedKey.SerializeCompressed(),
			scalarHex(gacc), scalarHex(tacc))
	case op == "optreuse" && len(a) == 5:
		return optReuse(a[0] == "1", parseTweakOpt(a[1]), a[2], msg32(unhex(a[3])), a[4])
	case op == "conc" && len(a) == 1:
		return execConc(a[0])
	}
	return "bad-op"
}

// execConc runs the sub-lines ("op/arg/arg;op/arg…") in parallel goroutines, three rounds each, all started
// together: any package-level scratch state shared between calls shows up as a changed answer.
func execConc(arg string) string {
	subs := strings.Split(arg, ";")
	rounds := 8
	same := true
	for _, s := range subs {
		same = same && strings.SplitN(s, "/", 2)[0] == strings.SplitN(subs[0], "/", 2)[0]
	}
	if same {
		rounds = 40 // one code path hammered from every goroutine
	}
	outs := make([][]string, len(subs))
	for i := range outs {
		outs[i] = make([]string, rounds)
	}
	start := make(chan struct{})
	done := make(chan int, len(subs))
	for i, s := range subs {
		go func(i int, s string) {
			defer func() {
				if r := recover(); r != nil {
					outs[i][0] = "panic"
				}
				done <- i
			}()
			<-start
			for k := 0; k < rounds; k++ {
				outs[i][k] = exec1("C11 " + strings.ReplaceAll(s, "/", " "))
			}
		}(i, s)
	}
	close(start)
	for range subs {
		<-done
	}
	res := make([]string, len(subs))
	for i := range subs {
		res[i] = outs[i][0]
		for k := 1; k < rounds; k++ {
			if outs[i][k] != outs[i][0] && outs[i][0] != "panic" {
				res[i] = "UNSTABLE(" + outs[i][0] + "|" + outs[i][k] + ")"
			}
		}
		res[i] = strings.ReplaceAll(res[i], " ", "/")
	}
	return strings.Join(res, ";")
}

// ctxSession2: the incremental Context API (WithNumSigners + RegisterSigner), keys always sorted (each signer
// lists itself first, so only sorted aggregation is order independent). Also observes the sibling accessors.
func ctxSession2(msg [32]byte, tw tweakOpt, signersS string) string {
	var privs []*btcec.PrivateKey
	var rands [][]byte
	for _, s := range strings.Split(signersS, ",") {
		kv := strings.Split(s, ":")
		privs, rands = append(privs, privFrom(kv[0])), append(rands, unhex(kv[1]))
	}
	n := len(privs)
	var sessions []*musig2.Session
	var ctxs []*musig2.Context
	for i, priv := range privs {
		opts := append(tw.ctx(), musig2.WithNumSigners(n))
		c, err := musig2.NewContext(priv, true, opts...)
		if err != nil {
			return "err:ctx"
		}
		if _, err := c.CombinedKey(); n > 1 && err == nil {
			return "err:early-key"
		}
		for j, o := range privs {
			if j == i {
				continue
			}
			if _, err := c.RegisterSigner(o.PubKey()); err != nil {
				return "err:keyagg"
			}
		}
		if n == 1 {
			// a lone signer never triggers combineSignerKeys through RegisterSigner
			return "single"
		}
		if c.NumRegisteredSigners() != n || len(c.SigningKeys()) != n {
			return "err:count"
		}
		if _, err := c.RegisterSigner(privs[0].PubKey()); err == nil || c.NumRegisteredSigners() != n {
			return "err:extra-signer-allowed"
		}
		pk := c.PubKey()
		if !pk.IsEqual(priv.PubKey()) {
			return "err:pubkey"
		}
		nn, err := musig2.GenNonces(musig2.WithCustomRand(bytes.NewReader(rands[i])), musig2.WithPublicKey(priv.PubKey()))
		if err != nil {
			return "err:noncegen"
		}
		s, err := c.NewSession(musig2.WithPreGeneratedNonce(nn))
		if err != nil {
			return "err:session"
		}
		ctxs, sessions = append(ctxs, c), append(sessions, s)
	}
	agg, err := ctxs[0].CombinedKey()
	if err != nil {
		return "err:keyagg"
	}
	head := fmt.Sprintf("agg=%x", agg.SerializeCompressed())
	if ik, err := ctxs[0].TaprootInternalKey(); err == nil {
		head += fmt.Sprintf(" int=%x", ik.SerializeCompressed())
	} else {
		head += " int=-"
	}
	for i, s := range sessions {
		for j, o := range sessions {
			if i != j {
				if _, err := s.RegisterPubNonce(o.PublicNonce()); err != nil {
					return head + " err:nonceagg"
				}
			}
		}
		if s.NumRegisteredNonces() != n {
			return head + " err:count"
		}
		if _, err := s.RegisterPubNonce(sessions[0].PublicNonce()); err == nil || s.NumRegisteredNonces() != n {
			return head + " err:extra-nonce-allowed"
		}
	}
	cn, err := sessions[0].CombinedNonce()
	if err != nil {
		return head + " err:nonceagg"
	}
	head += fmt.Sprintf(" nonce=%x", cn[:])
	var ps []*musig2.PartialSignature
	for _, s := range sessions {
		p, err := s.Sign(msg)
		if err != nil {
			return head + " err:sign"
		}
		if _, err := s.Sign(msg); err == nil {
			return head + " err:nonce-reuse-allowed"
		}
		ps = append(ps, p)
	}
	for j := 1; j < len(ps); j++ {
		if _, err := sessions[0].CombineSig(ps[j]); err != nil {
			return head + " err:combine"
		}
	}
	final := sessions[0].FinalSig()
	if final == nil {
		return head + " err:nofinal"
	}
	if _, err := sessions[0].CombineSig(ps[len(ps)-1]); err == nil {
		return head + " err:extra-sig-allowed"
	}
	if f2 := sessions[0].FinalSig(); f2 == nil || !f2.IsEqual(final) {
		return "UNSTABLE " + head
	}
	agg2, _ := ctxs[0].CombinedKey()
	if !agg2.IsEqual(agg) {
		return "UNSTABLE " + head
	}
	return fmt.Sprintf("%s sig=%x", head, final.Serialize())
}

// ---------------------------------------------------------------- generators (hardening round)

func genExtra(g *core.Gen) {
	r := g.R.Fork()
	edges := edgeInts()
	fit := func(v *big.Int) []byte {
		if v.BitLen() > 256 {
			v = new(big.Int).Sub(new(big.Int).Lsh(big.NewInt(1), 256), big.NewInt(1))
		}
		return b32(v)
	}
	inf := make([]byte, 33)
	// curve.go: ParseJacobian / AddNonConst / DoubleNonConst / GeneratorJacobian / MakeJacobianPoint / JacobianToByteSlice
	for i := 0; i < g.N(60, 1000); i++ {
		p1 := pubOf(randPriv(r)).SerializeCompressed()
		p2 := pubOf(randPriv(r)).SerializeCompressed()
		class := "random"
		switch i % 10 {
		case 0:
			p2 = p1
			class = "same"
		case 1:
			p2 = append([]byte{}, p1...)
			p2[0] ^= 1
			class = "negation"
		case 2:
			p1 = inf
			class = "inf-left"
		case 3:
			p2 = inf
			class = "inf-right"
		case 4:
			p1, p2 = inf, inf
			class = "inf-inf"
		case 5:
			p1 = append([]byte{0}, r.Bytes(32)...)
			class = "bad-infinity"
			if r.Bool() { // all zero except ONE byte somewhere (every position gets hit over a run)
				p1 = make([]byte, 33)
				p1[1+r.Intn(32)] = byte(1 + r.Intn(255))
				class = "bad-infinity-1byte"
			}
		case 6:
			p2 = append([]byte{byte(r.Pick(1, 4, 5, 6, 7))}, p2[1:]...)
			class = "bad-prefix"
		case 7:
			p1 = append([]byte{2}, r.Bytes(32)...)
			class = "random-x"
		}
		g.Case("jac:"+class, true, fmt.Sprintf("C11 jac %x %x", p1, p2))
	}
	for pos := 1; pos <= 32; pos++ { // the infinity encoding with exactly one non-zero byte, every position
		b := make([]byte, 33)
		b[pos] = byte(1 + r.Intn(255))
		g.Case("jac:bad-infinity-sweep", true, fmt.Sprintf("C11 jac %x %x", b, pubOf(randPriv(r)).SerializeCompressed()))
	}
	// DecompressY
	for i := 0; i < g.N(80, 1000); i++ {
		x := r.Bytes(32)
		switch i % 4 {
		case 0:
			x = pubOf(randPriv(r)).SerializeCompressed()[1:]
		case 1:
			x = fit(edges[r.Intn(len(edges))])
		}
		g.Case("decy", true, fmt.Sprintf("C11 decy %x %d", x, r.Intn(2)))
	}
	// pubkey.go helpers: IsCompressedPubKey / ToSerialized / SerializedKey / NewPublicKey
	for i := 0; i < g.N(80, 1000); i++ {
		pk := pubOf(randPriv(r))
		b := pubFormats(pk)[r.Intn(3)]
		switch r.Intn(8) {
		case 0:
			b = append([]byte{byte(r.Intn(256))}, b[1:]...)
		case 1:
			b = b[:len(b)-1]
		case 2:
			b = append(b, 0)
		case 3:
			b = append([]byte{byte(2 + r.Intn(2))}, r.Bytes(32)...)
		}
		g.Case("pkutil", len(b) == 33 || len(b) == 65, "C11 pkutil "+hx(b))
	}
	// every small prefix byte on a 33-byte and a 65-byte body (format-bit masks)
	{
		pk := pubOf(randPriv(r))
		for pre := 0; pre < 16; pre++ {
			g.Case("pkutil:prefix", true, fmt.Sprintf("C11 pkutil %02x%x", pre, pk.SerializeCompressed()[1:]))
			g.Case("pkutil:prefix", true, fmt.Sprintf("C11 pkutil %02x%x", pre, pk.SerializeUncompressed()[1:]))
		}
	}
	// PartialSignature Encode/Decode
	for _, e := range edges {
		g.Case("psdec:edge", true, fmt.Sprintf("C11 psdec %x", fit(e)))
	}
	for i := 0; i < g.N(40, 500); i++ {
		g.Case("psdec:len", true, "C11 psdec "+hx(r.Bytes(int(r.Pick(0, 1, 31, 32, 33, 64)))))
	}
	// NonceRFC6979 with every optional argument
	for i := 0; i < g.N(60, 1000); i++ {
		extra, version := "-", "-"
		switch r.Intn(4) {
		case 0:
			extra = hx(r.Bytes(32))
		case 1:
			extra = hx(r.Bytes(int(r.Pick(31, 33, 16))))
		}
		switch r.Intn(4) {
		case 0:
			version = hx(r.Bytes(16))
		case 1:
			version = hx(r.Bytes(int(r.Pick(15, 17, 32))))
		}
		g.Case("rfc6979", true, fmt.Sprintf("C11 rfc %x %x %s %s %d", b32(randPriv(r)), randMsg(r), extra, version, r.Intn(3)))
	}
	// AggregateKeys with caller-supplied WithKeysHash / WithUniqueKeyIndex, both option orders
	for i := 0; i < g.N(40, 600); i++ {
		n := r.Intn(5) + 1
		var pks []*btcec.PublicKey
		for _, d := range signerSet(r, n) {
			pks = append(pks, pubOf(d))
		}
		srt := r.Bool()
		ordered := append([]*btcec.PublicKey{}, pks...)
		if srt {
			sort.SliceStable(ordered, func(a, b int) bool {
				return bytes.Compare(ordered[a].SerializeCompressed(), ordered[b].SerializeCompressed()) < 0
			})
		}
		var cat []byte
		idx := -1
		for j, k := range ordered {
			cat = append(cat, k.SerializeCompressed()...)
			if idx == -1 && !k.IsEqual(ordered[0]) {
				idx = j
			}
		}
		kh := chainhash.TaggedHash(musig2.KeyAggTagList, cat)[:]
		class := "consistent"
		switch r.Intn(6) {
		case 0:
			idx = -1
			class = "idx=-1"
		case 1:
			idx = r.Intn(n)
			class = "idx-other"
		case 2:
			kh = r.Bytes(32)
			class = "hash-other"
		}
		var ks []string
		for _, k := range pks {
			ks = append(ks, hx(k.SerializeCompressed()))
		}
		ord := "f"
		if r.Bool() {
			ord = "r"
		}
		g.Case("keyaggx:"+class, true, fmt.Sprintf("C11 keyaggx %s %s %s %x %d %s", b01(srt), strings.Join(ks, ","), randTweaks(r, 2), kh, idx, ord))
	}
	// every functional option value made once and reused (same / other key sets, sequential and concurrent)
	for i := 0; i < g.N(24, 400); i++ {
		var sets []string
		nsig := r.Intn(3) + 1
		ds := signerSet(r, nsig)
		var ss []string
		for _, d := range ds {
			ss = append(ss, fmt.Sprintf("%x:%x", b32(d), r.Bytes(32)))
		}
		for k := 0; k < 3; k++ {
			var ks []string
			for _, d := range signerSet(r, r.Intn(4)+1) {
				ks = append(ks, hx(pubOf(d).SerializeCompressed()))
			}
			sets = append(sets, strings.Join(ks, ","))
		}
		tws := randTweaks(r, 3)
		if i%2 == 0 {
			tws = "t:" + hx(r.Bytes(32))
		}
		if strings.Contains(tws, hx(b32(curveN))) {
			tws = "b"
		}
		g.Case("optreuse:"+tws[:1], true, fmt.Sprintf("C11 optreuse %d %s %s %x %s", r.Intn(2), tws, strings.Join(sets, "|"), randMsg(r), strings.Join(ss, ",")))
	}
	// concurrency: >= 8 independent deterministic computations at once, three rounds each
	for i := 0; i < g.N(12, 80); i++ {
		var subs []string
		for j := 0; j < 8+r.Intn(5); j++ {
			d, m := b32(randPriv(r)), randMsg(r)
			switch (i + j) % 9 {
			case 0:
				subs = append(subs, fmt.Sprintf("schs/%x/%x/rfc", d, m))
			case 1:
				subs = append(subs, fmt.Sprintf("schs/%x/%x/%x", d, m, r.Bytes(32)))
			case 2:
				subs = append(subs, fmt.Sprintf("ecdsas/%x/%x", d, m))
			case 3:
				subs = append(subs, fmt.Sprintf("compact/%x/%x/%d", d, m, r.Intn(2)))
			case 4:
				subs = append(subs, fmt.Sprintf("ecdh2/%x/%x", d, b32(randPriv(r))))
			case 5:
				subs = append(subs, fmt.Sprintf("musig/%d/%x/%s/%x:%x,%x:%x", r.Intn(2), m, randTweaks(r, 2), d, r.Bytes(32), b32(randPriv(r)), r.Bytes(32)))
			case 6:
				subs = append(subs, fmt.Sprintf("keyagg/%d/%x,%x,%x/%s", r.Intn(2), pubOf(randPriv(r)).SerializeCompressed(),
					pubOf(randPriv(r)).SerializeCompressed(), pubOf(randPriv(r)).SerializeCompressed(), randTweaks(r, 2)))
			case 7:
				subs = append(subs, fmt.Sprintf("noncegen/%x/%x/%x/-/%x/%x", r.Bytes(32), pubOf(randPriv(r)).SerializeCompressed(), d, m, r.Bytes(5)))
			case 8:
				subs = append(subs, fmt.Sprintf("mulchk/%x/%x", d, pubOf(randPriv(r)).SerializeUncompressed()))
			}
		}
		g.Case("conc", true, "C11 conc "+strings.Join(subs, ";"))
	}
	// the same code path from 12 goroutines at once with different inputs (key aggregation with 6..8 keys,
	// nonce aggregation, DER/pubkey parsing): a package-level scratch buffer is hit with high probability
	for i := 0; i < g.N(6, 30); i++ {
		var subs []string
		for j := 0; j < 12; j++ {
			switch i % 3 {
			case 0:
				var ks []string
				for k := 0; k < 6+r.Intn(3); k++ {
					ks = append(ks, hx(pubOf(randPriv(r)).SerializeCompressed()))
				}
				subs = append(subs, fmt.Sprintf("keyagg/%d/%s/%s", r.Intn(2), strings.Join(ks, ","), randTweaks(r, 2)))
			case 1:
				var ns []string
				for k := 0; k < 4+r.Intn(3); k++ {
					ns = append(ns, hx(append(pubOf(randPriv(r)).SerializeCompressed(), pubOf(randPriv(r)).SerializeCompressed()...)))
				}
				subs = append(subs, "nonceagg/"+strings.Join(ns, ","))
			case 2:
				if j%2 == 0 {
					subs = append(subs, fmt.Sprintf("ser/%x/%x", b32(randPriv(r)), b32(randPriv(r))))
				} else {
					subs = append(subs, fmt.Sprintf("pub/%x", pubFormats(pubOf(randPriv(r)))[r.Intn(3)]))
				}
			}
		}
		g.Case("conc:same-path", true, "C11 conc "+strings.Join(subs, ";"))
	}
}

// ---------------------------------------------------------------- option VALUES are reused (seed C11-d)

func keysHex(ks []*btcec.PublicKey) []string {
	out := make([]string, len(ks))
	for i, k := range ks {
		out[i] = hx(k.SerializeCompressed())
	}
	return out
}

// optReuse creates every functional option value ONCE and applies it to several calls, sequentially and from
// concurrent goroutines; every call must give the answer of a call made with a fresh option, and the caller's
// inputs (script root, tweak descriptors, key lists) must read the same afterwards.
func optReuse(srt bool, tw tweakOpt, keysetsS string, msg [32]byte, signersS string) string {
	var keysets [][]*btcec.PublicKey
	for _, ks := range strings.Split(keysetsS, "|") {
		keysets = append(keysets, parseKeys(ks))
	}
	rootBefore := append([]byte{}, tw.root...)
	tweaksBefore := append([]musig2.KeyTweakDesc{}, tw.tweaks...)
	var before [][]string
	for _, ks := range keysets {
		before = append(before, keysHex(ks))
	}
	// the option values, made once (WithKeyTweaks gets the caller's slice itself)
	var ka []musig2.KeyAggOption
	switch tw.kind {
	case "b":
		ka = []musig2.KeyAggOption{musig2.WithBIP86KeyTweak()}
	case "t":
		ka = []musig2.KeyAggOption{musig2.WithTaprootKeyTweak(tw.root)}
	case "p":
		ka = []musig2.KeyAggOption{musig2.WithKeyTweaks(tw.tweaks...)}
	}
	agg1 := func(ks []*btcec.PublicKey) string {
		agg, _, _, err := musig2.AggregateKeys(ks, srt, ka...)
		if err != nil {
			return "err"
		}
		return hx(agg.FinalKey.SerializeCompressed())
	}
	var seq []string
	for _, idx := range []int{0, 0, 1 % len(keysets), 2 % len(keysets), 0} {
		seq = append(seq, agg1(keysets[idx])) // the caller's own slices on purpose
	}
	cc := make([]string, 6)
	done := make(chan struct{}, len(cc))
	start := make(chan struct{})
	for j := range cc {
		go func(j int) {
			defer func() {
				if r := recover(); r != nil {
					cc[j] = "panic"
				}
				done <- struct{}{}
			}()
			<-start
			for k := 0; k < 3; k++ {
				out := agg1(copyKeys(keysets[j%len(keysets)]))
				if k > 0 && out != cc[j] {
					out = "UNSTABLE"
				}
				cc[j] = out
			}
		}(j)
	}
	close(start)
	for range cc {
		<-done
	}
	// sign / verify / combine / context option values, made once
	var privs []*btcec.PrivateKey
	var pubs []*btcec.PublicKey
	var rands [][]byte
	for _, sg := range strings.Split(signersS, ",") {
		kv := strings.Split(sg, ":")
		priv := privFrom(kv[0])
		privs, pubs, rands = append(privs, priv), append(pubs, priv.PubKey()), append(rands, unhex(kv[1]))
	}
	so := tw.sign1(srt)
	msg2 := msg
	msg2[0] ^= 1
	session1 := func(m [32]byte, co []musig2.CombineOption) (string, string) {
		var ns []*musig2.Nonces
		var pn [][musig2.PubNonceSize]byte
		for i, priv := range privs {
			n, err := musig2.GenNonces(musig2.WithCustomRand(bytes.NewReader(rands[i])), musig2.WithPublicKey(priv.PubKey()))
			if err != nil {
				return "err", "err"
			}
			ns, pn = append(ns, n), append(pn, n.PubNonce)
		}
		an, err := musig2.AggregateNonces(pn)
		if err != nil {
			return "err", "err"
		}
		var ps []*musig2.PartialSignature
		for i, priv := range privs {
			p, err := musig2.Sign(ns[i].SecNonce, priv, an, copyKeys(pubs), m, so...)
			if err != nil {
				return "err", "err"
			}
			if !p.Verify(pn[i], an, copyKeys(pubs), priv.PubKey(), m, so...) {
				return "err:pverify", "err:pverify"
			}
			ps = append(ps, p)
		}
		f1 := musig2.CombineSigs(ps[0].R, ps, co...)
		f2 := musig2.CombineSigs(ps[0].R, ps, co...) // the same CombineOption values again
		return hx(f1.Serialize()), hx(f2.Serialize())
	}
	sa, sa2 := session1(msg, tw.combine(msg, copyKeys(pubs), srt))
	sb, _ := session1(msg2, tw.combine(msg2, copyKeys(pubs), srt))
	// Context options made once, used for every signer's Context and for two successive signing rounds
	shared := copyKeys(pubs)
	co := append([]musig2.ContextOption{musig2.WithKnownSigners(shared)}, tw.ctx()...)
	ctxRound := func(m [32]byte) string {
		if len(privs) == 1 {
			return "single"
		}
		var ss []*musig2.Session
		for i, priv := range privs {
			c, err := musig2.NewContext(priv, srt, co...)
			if err != nil {
				return "err"
			}
			n, err := musig2.GenNonces(musig2.WithCustomRand(bytes.NewReader(rands[i])), musig2.WithPublicKey(priv.PubKey()))
			if err != nil {
				return "err"
			}
			s, err := c.NewSession(musig2.WithPreGeneratedNonce(n))
			if err != nil {
				return "err"
			}
			ss = append(ss, s)
		}
		for i, s := range ss {
			for j, o := range ss {
				if i != j {
					if _, err := s.RegisterPubNonce(o.PublicNonce()); err != nil {
						return "err"
					}
				}
			}
		}
		var ps []*musig2.PartialSignature
		for _, s := range ss {
			p, err := s.Sign(m)
			if err != nil {
				return "err"
			}
			ps = append(ps, p)
		}
		for j := 1; j < len(ps); j++ {
			if _, err := ss[0].CombineSig(ps[j]); err != nil {
				return "err"
			}
		}
		if f := ss[0].FinalSig(); f != nil {
			return hx(f.Serialize())
		}
		return "err"
	}
	ca, cb := ctxRound(msg), ctxRound(msg2)
	// schnorr sign options made once: CustomNonce(aux) and FastSign, used for three signatures
	var aux [32]byte
	copy(aux[:], rands[0])
	sopts := []schnorr.SignOption{schnorr.CustomNonce(aux), schnorr.FastSign()}
	var bs []string
	for _, m := range [][32]byte{msg, msg2, msg} {
		sg, err := schnorr.Sign(privs[0], m[:], sopts...)
		if err != nil {
			bs = append(bs, "err")
		} else {
			bs = append(bs, hx(sg.Serialize()))
		}
	}
	// inputs unchanged (key lists: AggregateKeys with sort=true sorts the caller's slice in place - documented
	// btcd behaviour, so only the multiset is required to survive in that case)
	in := bytes.Equal(rootBefore, tw.root) && len(tweaksBefore) == len(tw.tweaks)
	for i := range tweaksBefore {
		in = in && tweaksBefore[i] == tw.tweaks[i]
	}
	for i, ks := range keysets {
		after := keysHex(ks)
		if srt {
			sort.Strings(after)
			sort.Strings(before[i])
		}
		in = in && strings.Join(after, ",") == strings.Join(before[i], ",")
	}
	return fmt.Sprintf("ka=%s cc=%s sa=%s sa2=%s sb=%s ca=%s cb=%s bs=%s in=%s", strings.Join(seq, ","), strings.Join(cc, ","),
		sa, sa2, sb, ca, cb, strings.Join(bs, ","), b01(in))
}
