package p11

import "verifharness/core"

func execMusig(op string, a []string) string { return "bad-op" }

func genMusig(g *core.Gen) {}
