package p11

import (
	"bytes"
	"fmt"
	"math/big"
	"os"
	"strings"

	"github.com/btcsuite/btcd/btcec/v2"
	"github.com/btcsuite/btcd/btcec/v2/schnorr"
	"github.com/btcsuite/btcd/btcec/v2/schnorr/musig2"
	"github.com/btcsuite/btcd/chainhash/v2"
	"verifharness/core"
)

type tweakOpt struct {
	kind   string // "-", "b", "t", "p"
	root   []byte
	tweaks []musig2.KeyTweakDesc
}

func parseTweakOpt(s string) tweakOpt {
	switch {
	case s == "-":
		return tweakOpt{kind: "-"}
	case s == "b":
		return tweakOpt{kind: "b"}
	case strings.HasPrefix(s, "t:"):
		return tweakOpt{kind: "t", root: unhex(s[2:])}
	}
	var out tweakOpt
	out.kind = "p"
	for _, part := range strings.Split(s, ",") {
		kv := strings.Split(part, ":")
		if len(kv) != 2 || (kv[0] != "x" && kv[0] != "p") {
			panic("bad tweak")
		}
		var d musig2.KeyTweakDesc
		b := unhex(kv[1])
		if len(b) != 32 {
			panic("bad tweak")
		}
		copy(d.Tweak[:], b)
		d.IsXOnly = kv[0] == "x"
		out.tweaks = append(out.tweaks, d)
	}
	return out
}

func (t tweakOpt) keyAgg() []musig2.KeyAggOption {
	switch t.kind {
	case "b":
		return []musig2.KeyAggOption{musig2.WithBIP86KeyTweak()}
	case "t":
		return []musig2.KeyAggOption{musig2.WithTaprootKeyTweak(t.root)}
	case "p":
		// AggregateKeys mutates opts.tweaks[0] only in taproot mode; copy anyway
		return []musig2.KeyAggOption{musig2.WithKeyTweaks(append([]musig2.KeyTweakDesc{}, t.tweaks...)...)}
	}
	return nil
}

// sign returns the functional options in one of the two possible orders (tweak option first or last): the
// result must not depend on it.
func (t tweakOpt) sign(sort bool) []musig2.SignOption {
	o := t.sign1(sort)
	if optFlip = !optFlip; optFlip && len(o) == 2 {
		o[0], o[1] = o[1], o[0]
	}
	return o
}

var optFlip bool

func (t tweakOpt) sign1(sort bool) []musig2.SignOption {
	var o []musig2.SignOption
	if sort {
		o = append(o, musig2.WithSortedKeys())
	}
	switch t.kind {
	case "b":
		o = append(o, musig2.WithBip86SignTweak())
	case "t":
		o = append(o, musig2.WithTaprootSignTweak(t.root))
	case "p":
		o = append(o, musig2.WithTweaks(append([]musig2.KeyTweakDesc{}, t.tweaks...)...))
	}
	return o
}

func (t tweakOpt) combine(msg [32]byte, keys []*btcec.PublicKey, sort bool) []musig2.CombineOption {
	switch t.kind {
	case "b":
		return []musig2.CombineOption{musig2.WithBip86TweakedCombine(msg, keys, sort)}
	case "t":
		return []musig2.CombineOption{musig2.WithTaprootTweakedCombine(msg, keys, t.root, sort)}
	case "p":
		return []musig2.CombineOption{musig2.WithTweakedCombine(msg, keys, append([]musig2.KeyTweakDesc{}, t.tweaks...), sort)}
	}
	return nil
}

func parseKeys(s string) []*btcec.PublicKey {
	var out []*btcec.PublicKey
	for _, h := range strings.Split(s, ",") {
		pk, err := btcec.ParsePubKey(unhex(h))
		if err != nil {
			panic("bad key in line")
		}
		out = append(out, pk)
	}
	return out
}

// copyKeys: musig2 sorts the caller's slice in place; every call gets its own copy in the line's order.
func copyKeys(k []*btcec.PublicKey) []*btcec.PublicKey { return append([]*btcec.PublicKey{}, k...) }

func scalarHex(s *btcec.ModNScalar) string {
	b := s.Bytes()
	return fmt.Sprintf("%x", b[:])
}

func msg32(b []byte) (m [32]byte) {
	if len(b) != 32 {
		panic("msg must be 32 bytes")
	}
	copy(m[:], b)
	return
}

func nonce66(b []byte) (n [musig2.PubNonceSize]byte) {
	if len(b) != musig2.PubNonceSize {
		panic("nonce must be 66 bytes")
	}
	copy(n[:], b)
	return
}

func execMusig(op string, a []string) string {
	switch {
	case op == "keyagg" && len(a) == 3:
		keys := parseKeys(a[1])
		agg, gacc, tacc, err := musig2.AggregateKeys(keys, a[0] == "1", parseTweakOpt(a[2]).keyAgg()...)
		if err != nil {
			return "err"
		}
		return fmt.Sprintf("ok %x %x %s %s", agg.FinalKey.SerializeCompressed(), agg.PreTweakedKey.SerializeCompressed(),
			scalarHex(gacc), scalarHex(tacc))
	case op == "noncegen" && len(a) == 6:
		pk, err := btcec.ParsePubKey(unhex(a[1]))
		if err != nil {
			return "bad-op"
		}
		opts := []musig2.NonceGenOption{musig2.WithCustomRand(bytes.NewReader(unhex(a[0]))), musig2.WithPublicKey(pk)}
		if a[2] != "-" {
			sk, _ := btcec.PrivKeyFromBytes(unhex(a[2]))
			opts = append(opts, musig2.WithNonceSecretKeyAux(sk))
		}
		if a[3] != "-" {
			ak, err := schnorr.ParsePubKey(unhex(a[3]))
			if err != nil {
				return "bad-op"
			}
			opts = append(opts, musig2.WithNonceCombinedKeyAux(ak))
		}
		if a[4] != "none" {
			opts = append(opts, musig2.WithNonceMessageAux(msg32(unhex(a[4]))))
		}
		if a[5] != "-" {
			opts = append(opts, musig2.WithNonceAuxInput(unhex(a[5])))
		}
		n, err := musig2.GenNonces(opts...)
		if err != nil {
			return "err"
		}
		return fmt.Sprintf("%x %x", n.SecNonce[:], n.PubNonce[:])
	case op == "nonceagg" && len(a) == 1:
		var ns [][musig2.PubNonceSize]byte
		for _, h := range strings.Split(a[0], ",") {
			b := unhex(h)
			if len(b) != musig2.PubNonceSize {
				return "bad-op"
			}
			ns = append(ns, nonce66(b))
		}
		out, err := musig2.AggregateNonces(ns)
		if err != nil {
			return "err"
		}
		return hx(out[:])
	case op == "musig" && len(a) == 4:
		return session(a[0] == "1", msg32(unhex(a[1])), parseTweakOpt(a[2]), a[3])
	case op == "msign" && len(a) == 7:
		priv := privFrom(a[0])
		var sec [musig2.SecNonceSize]byte
		sb := unhex(a[1])
		if len(sb) != musig2.SecNonceSize {
			return "bad-op"
		}
		copy(sec[:], sb)
		so := parseTweakOpt(a[6]).sign(strings.HasPrefix(a[5], "1"))
		if strings.HasSuffix(a[5], "f") {
			so = append(so, musig2.WithFastSign())
		}
		ps, err := musig2.Sign(sec, priv, nonce66(unhex(a[2])), parseKeys(a[3]), msg32(unhex(a[4])), so...)
		if err != nil {
			return "err"
		}
		return fmt.Sprintf("s=%s r=%x", scalarHex(ps.S), ps.R.SerializeCompressed())
	case op == "ctx" && len(a) == 4:
		return ctxSession(a[0] == "1", msg32(unhex(a[1])), parseTweakOpt(a[2]), a[3])
	case op == "ctx2" && len(a) == 4:
		return ctxSession2(msg32(unhex(a[1])), parseTweakOpt(a[2]), a[3])
	case op == "pverify" && len(a) == 8:
		var s btcec.ModNScalar
		if s.SetByteSlice(unhex(a[0])) {
			return "bad-op"
		}
		pk, err := btcec.ParsePubKey(unhex(a[4]))
		if err != nil {
			return "0"
		}
		ps := musig2.NewPartialSignature(&s, nil)
		vo := parseTweakOpt(a[7]).sign(strings.HasPrefix(a[6], "1"))
		if strings.HasSuffix(a[6], "f") {
			vo = append(vo, musig2.WithFastSign()) // must not change the verdict of a verification
		}
		return b01(ps.Verify(nonce66(unhex(a[1])), nonce66(unhex(a[2])), parseKeys(a[3]), pk, msg32(unhex(a[5])), vo...))
	}
	return execExtra(op, a)
}

func session(sort bool, msg [32]byte, tw tweakOpt, signersS string) string {
	type signer struct {
		priv  *btcec.PrivateKey
		pub   *btcec.PublicKey
		nonce *musig2.Nonces
	}
	var signers []signer
	var keys []*btcec.PublicKey
	for _, s := range strings.Split(signersS, ",") {
		kv := strings.Split(s, ":")
		priv := privFrom(kv[0])
		signers = append(signers, signer{priv: priv, pub: priv.PubKey()})
		keys = append(keys, priv.PubKey())
		_ = kv
	}
	agg, _, _, err := musig2.AggregateKeys(copyKeys(keys), sort, tw.keyAgg()...)
	if err != nil {
		return "err:keyagg"
	}
	var pubNonces [][musig2.PubNonceSize]byte
	for i, s := range strings.Split(signersS, ",") {
		kv := strings.Split(s, ":")
		n, err := musig2.GenNonces(musig2.WithCustomRand(bytes.NewReader(unhex(kv[1]))), musig2.WithPublicKey(signers[i].pub))
		if err != nil {
			return "err:noncegen"
		}
		signers[i].nonce = n
		pubNonces = append(pubNonces, n.PubNonce)
	}
	aggNonce, err := musig2.AggregateNonces(pubNonces)
	if err != nil {
		return "err:nonceagg"
	}
	head := fmt.Sprintf("agg=%x nonce=%x", agg.FinalKey.SerializeCompressed(), aggNonce[:])
	var ps []*musig2.PartialSignature
	for _, s := range signers {
		p, err := musig2.Sign(s.nonce.SecNonce, s.priv, aggNonce, copyKeys(keys), msg, tw.sign(sort)...)
		if err != nil {
			return head + " err:sign"
		}
		ps = append(ps, p)
	}
	var ss, pv, xv, yv []string
	one := new(btcec.ModNScalar).SetInt(1)
	for i, p := range ps {
		ss = append(ss, scalarHex(p.S))
		pv = append(pv, b01(p.Verify(pubNonces[i], aggNonce, copyKeys(keys), signers[i].pub, msg, tw.sign(sort)...)))
		xv = append(xv, b01(p.Verify(pubNonces[(i+1)%len(ps)], aggNonce, copyKeys(keys), signers[i].pub, msg, tw.sign(sort)...)))
		s1 := new(btcec.ModNScalar).Set(p.S).Add(one)
		p1 := musig2.NewPartialSignature(s1, p.R)
		yv = append(yv, b01(p1.Verify(pubNonces[i], aggNonce, copyKeys(keys), signers[i].pub, msg, tw.sign(sort)...)))
	}
	final := musig2.CombineSigs(ps[0].R, ps, tw.combine(msg, copyKeys(keys), sort)...)
	// results are values: everything observed earlier must read the same after all later calls
	stable := head == fmt.Sprintf("agg=%x nonce=%x", agg.FinalKey.SerializeCompressed(), aggNonce[:])
	for i, p := range ps {
		stable = stable && ss[i] == scalarHex(p.S) && bytes.Equal(pubNonces[i][:], signers[i].nonce.PubNonce[:])
	}
	agg2, _, _, err2 := musig2.AggregateKeys(copyKeys(keys), sort, tw.keyAgg()...)
	stable = stable && err2 == nil && agg2.FinalKey.IsEqual(agg.FinalKey) && agg2.PreTweakedKey.IsEqual(agg.PreTweakedKey)
	if !stable {
		head = "UNSTABLE " + head
	}
	return fmt.Sprintf("%s s=%s pv=%s xv=%s yv=%s sig=%x v=%s", head, strings.Join(ss, ","), strings.Join(pv, ","),
		strings.Join(xv, ","), strings.Join(yv, ","), final.Serialize(), b01(final.Verify(msg[:], agg.FinalKey)))
}

func (t tweakOpt) ctx() []musig2.ContextOption {
	switch t.kind {
	case "b":
		return []musig2.ContextOption{musig2.WithBip86TweakCtx()}
	case "t":
		return []musig2.ContextOption{musig2.WithTaprootTweakCtx(t.root)}
	case "p":
		return []musig2.ContextOption{musig2.WithTweakedContext(append([]musig2.KeyTweakDesc{}, t.tweaks...)...)}
	}
	return nil
}

// ctxSession runs the same session through the Context / Session API of context.go (every signer has its
// own Context with the full signer list, a pre-generated deterministic nonce, registers the other nonces,
// signs; signer 0 combines). Observation: aggregate key and final signature (or the failing stage).
func ctxSession(sort bool, msg [32]byte, tw tweakOpt, signersS string) string {
	var privs []*btcec.PrivateKey
	var keys []*btcec.PublicKey
	var rands [][]byte
	for _, s := range strings.Split(signersS, ",") {
		kv := strings.Split(s, ":")
		priv := privFrom(kv[0])
		privs, keys, rands = append(privs, priv), append(keys, priv.PubKey()), append(rands, unhex(kv[1]))
	}
	var sessions []*musig2.Session
	var agg *btcec.PublicKey
	for i, priv := range privs {
		opts := append([]musig2.ContextOption{musig2.WithKnownSigners(copyKeys(keys))}, tw.ctx()...)
		c, err := musig2.NewContext(priv, sort, opts...)
		if err != nil {
			return "err:keyagg"
		}
		k, err := c.CombinedKey()
		if err != nil {
			return "err:keyagg"
		}
		agg = k
		n, err := musig2.GenNonces(musig2.WithCustomRand(bytes.NewReader(rands[i])), musig2.WithPublicKey(priv.PubKey()))
		if err != nil {
			return "err:noncegen"
		}
		s, err := c.NewSession(musig2.WithPreGeneratedNonce(n))
		if err != nil {
			return "err:session"
		}
		sessions = append(sessions, s)
	}
	head := fmt.Sprintf("agg=%x", agg.SerializeCompressed())
	for i, s := range sessions {
		for j, o := range sessions {
			if i == j {
				continue
			}
			if _, err := s.RegisterPubNonce(o.PublicNonce()); err != nil {
				return head + " err:nonceagg"
			}
		}
	}
	var ps []*musig2.PartialSignature
	for _, s := range sessions {
		var so []musig2.SignOption // like a real caller: no explicit WithSortedKeys, the Context owns the flag
		if len(sessions) == 1 {
			// a single signer never calls RegisterPubNonce, so the combined nonce is registered explicitly
			an, err := musig2.AggregateNonces([][musig2.PubNonceSize]byte{s.PublicNonce()})
			if err != nil {
				return head + " err:nonceagg"
			}
			if err := s.RegisterCombinedNonce(an); err != nil {
				return head + " err:nonceagg"
			}
		}
		p, err := s.Sign(msg, so...)
		if err != nil {
			return head + " err:sign"
		}
		ps = append(ps, p)
	}
	for j := 1; j < len(ps); j++ {
		if _, err := sessions[0].CombineSig(ps[j]); err != nil {
			return head + " err:combine"
		}
	}
	final := sessions[0].FinalSig()
	if final == nil {
		if len(ps) == 1 {
			return head + " single"
		}
		return head + " err:nofinal"
	}
	return fmt.Sprintf("%s sig=%x", head, final.Serialize())
}

// forgedInfNonce: single signer d, no tweak. Computes b, R, e, a, g from exported pieces and returns the
// pverify line with s = e*a*g*d and a public nonce 00||junk, 00||junk.
func forgedInfNonce(r *core.Rand, d *big.Int, aggN [musig2.PubNonceSize]byte, msg [32]byte, sort bool) (string, bool) {
	pk := pubOf(d)
	comp := pk.SerializeCompressed()
	agg, gacc, _, err := musig2.AggregateKeys([]*btcec.PublicKey{pk}, sort)
	if err != nil {
		return "", false
	}
	qx := schnorr.SerializePubKey(agg.FinalKey)
	bh := chainhash.TaggedHash(musig2.NonceBlindTag, aggN[:], qx, msg[:])
	var bs btcec.ModNScalar
	bs.SetByteSlice(bh[:])
	r1, e1 := btcec.ParseJacobian(aggN[:33])
	r2, e2 := btcec.ParseJacobian(aggN[33:])
	if e1 != nil || e2 != nil {
		return "", false
	}
	var R btcec.JacobianPoint
	btcec.ScalarMultNonConst(&bs, &r2, &r2)
	btcec.AddNonConst(&r1, &r2, &R)
	if (R.X.IsZero() && R.Y.IsZero()) || R.Z.IsZero() {
		return "", false
	}
	R.ToAffine()
	rx := R.X.Bytes()
	eh := chainhash.TaggedHash(musig2.ChallengeHashTag, rx[:], qx, msg[:])
	l := chainhash.TaggedHash(musig2.KeyAggTagList, comp)
	ah := chainhash.TaggedHash(musig2.KeyAggTagCoeff, append(append([]byte{}, l[:]...), comp...))
	var es, as, dsc btcec.ModNScalar
	es.SetByteSlice(eh[:])
	as.SetByteSlice(ah[:])
	dsc.SetByteSlice(b32(d))
	gq := new(btcec.ModNScalar).SetInt(1)
	if agg.FinalKey.SerializeCompressed()[0] == 3 {
		gq.Negate()
	}
	s := es.Mul(&as).Mul(gq).Mul(gacc).Mul(&dsc)
	junk := func() []byte { return append([]byte{0}, r.Bytes(32)...) }
	pn := append(junk(), junk()...)
	if r.Chance(1, 3) {
		pn = make([]byte, 66) // canonical infinity encoding in both halves: also not a valid individual nonce
	}
	sortS := "0"
	if sort {
		sortS = "1"
	}
	sb := s.Bytes()
	return fmt.Sprintf("C11 pverify %x %x %x %x %x %x %s -", sb[:], pn, aggN[:], comp, comp, msg[:], sortS), true
}

// ---------------------------------------------------------------- generators

func randTweaks(r *core.Rand, maxLen int) string {
	switch r.Intn(8) {
	case 0:
		return "-"
	case 1:
		return "b"
	case 2:
		return "t:" + hx(r.Bytes(32))
	}
	n := r.Intn(maxLen) + 1
	var parts []string
	for i := 0; i < n; i++ {
		k := "p"
		if r.Bool() {
			k = "x"
		}
		t := add(randBelow(r, add(curveN, -1)), 1)
		switch r.Intn(25) {
		case 0:
			t = big.NewInt(0)
		case 1:
			t = add(curveN, -1)
		case 2:
			t = curveN // overflow: rejected
		case 3:
			t = big.NewInt(1)
		}
		parts = append(parts, k+":"+hx(b32(t)))
	}
	return strings.Join(parts, ",")
}

func signerSet(r *core.Rand, n int) []*big.Int {
	var ds []*big.Int
	for i := 0; i < n; i++ {
		if i > 0 && r.Chance(1, 5) {
			ds = append(ds, ds[r.Intn(len(ds))]) // duplicate signer
		} else {
			ds = append(ds, randPriv(r))
		}
	}
	if n > 1 && r.Chance(1, 12) { // all keys equal
		for i := range ds {
			ds[i] = ds[0]
		}
	}
	return ds
}

func genMusig(g *core.Gen) {
	r := g.R.Fork()
	// key aggregation alone: any key format, duplicates, negated keys, sort on/off, tweak chains
	for i := 0; i < g.N(60, 1200); i++ {
		n := r.Intn(8) + 1
		var ks []string
		for _, d := range signerSet(r, n) {
			pk := pubOf(d)
			b := pk.SerializeCompressed()
			if r.Chance(1, 10) {
				b[0] ^= 1 // the negated key
			}
			ks = append(ks, hx(b))
		}
		g.Case(fmt.Sprintf("keyagg:n=%d", n), true, fmt.Sprintf("C11 keyagg %d %s %s", r.Intn(2), strings.Join(ks, ","), randTweaks(r, 4)))
	}
	// tweak that cancels the aggregate key (single signer d: Q = a*d*G is known only to the model; use the
	// simpler all-equal two-key case is not solvable either) -> covered by corpus line built below when possible
	// nonce generation with every optional field
	for i := 0; i < g.N(60, 1000); i++ {
		d := randPriv(r)
		pk := pubOf(d)
		sk, ak, msg, aux := "-", "-", "none", "-"
		if r.Bool() {
			sk = hx(b32(randPriv(r)))
		}
		if r.Bool() {
			ak = hx(schnorr.SerializePubKey(pubOf(randPriv(r))))
		}
		if r.Bool() {
			msg = hx(r.Bytes(32))
		}
		if r.Bool() {
			aux = hx(r.Bytes(r.Intn(70) + 1))
			if r.Chance(1, 4) { // length-prefix boundaries of the 4-byte aux length
				aux = hx(r.Bytes(int(r.Pick(255, 256, 257, 65535, 65536))))
			}
		}
		g.Case("noncegen", true, fmt.Sprintf("C11 noncegen %x %x %s %s %s %s", r.Bytes(32), pk.SerializeCompressed(), sk, ak, msg, aux))
	}
	// nonce aggregation incl. cancelling nonces (infinity), invalid points, 00-prefixed entries
	for i := 0; i < g.N(60, 1500); i++ {
		n := r.Intn(6) + 1
		var ns [][]byte
		for j := 0; j < n; j++ {
			ns = append(ns, append(pubOf(randPriv(r)).SerializeCompressed(), pubOf(randPriv(r)).SerializeCompressed()...))
		}
		class := "valid"
		switch r.Intn(6) {
		case 0: // first halves cancel
			if n >= 2 {
				copy(ns[1][:33], ns[0][:33])
				ns[1][0] ^= 1
				if n > 2 {
					ns = ns[:2]
				}
				class = "cancel1"
			}
		case 1:
			if n >= 2 {
				copy(ns[1][33:], ns[0][33:])
				ns[1][33] ^= 1
				if r.Bool() {
					ns = ns[:2]
				}
				class = "cancel2"
			}
		case 2:
			k := r.Intn(n)
			off := 33 * r.Intn(2)
			ns[k][off] = byte(r.Pick(0, 0, 1, 4, 5, 6))
			class = "prefix"
		case 3:
			k := r.Intn(n)
			copy(ns[k][1+33*r.Intn(2):], r.Bytes(32))
			class = "random-x"
		case 4:
			k := r.Intn(n)
			off := 33 * r.Intn(2)
			for z := 0; z < 33; z++ {
				ns[k][off+z] = 0
			}
			class = "zero-entry"
		}
		var hs []string
		for _, b := range ns {
			hs = append(hs, hx(b))
		}
		g.Case("nonceagg:"+class, true, "C11 nonceagg "+strings.Join(hs, ","))
	}
	// a plain tweak that cancels the aggregate key of a single signer (Q = a*d*G with a = H(L || P)):
	// the tweaked key is the point at infinity and must be rejected
	for i := 0; i < g.N(6, 60); i++ {
		d := randPriv(r)
		pk := pubOf(d)
		comp := pk.SerializeCompressed()
		l := chainhash.TaggedHash(musig2.KeyAggTagList, comp)
		a := chainhash.TaggedHash(musig2.KeyAggTagCoeff, append(append([]byte{}, l[:]...), comp...))
		ad := new(big.Int).Mul(new(big.Int).SetBytes(a[:]), d)
		ad.Mod(ad, curveN)
		neg := new(big.Int).Sub(curveN, ad)
		g.Case("keyagg:inf-tweak", true, fmt.Sprintf("C11 keyagg %d %x p:%x", r.Intn(2), comp, b32(neg)))
		// x-only variant: one of the two cancels depending on the parity of Q
		g.Case("keyagg:inf-tweak", true, fmt.Sprintf("C11 keyagg %d %x x:%x", r.Intn(2), comp, b32(neg)))
		g.Case("keyagg:inf-tweak", true, fmt.Sprintf("C11 keyagg %d %x x:%x", r.Intn(2), comp, b32(ad)))
		g.Case("keyagg:inf-tweak", true, fmt.Sprintf("C11 keyagg %d %x p:%x,p:%x", r.Intn(2), comp, b32(big.NewInt(5)), b32(add(neg, -5))))
	}
	// partial signature verification on its own: a real session's data with one field changed
	for i := 0; i < g.N(32, 400); i++ {
		n := r.Intn(4) + 1
		ds := signerSet(r, n)
		sort := r.Bool()
		tws := randTweaks(r, 2)
		if strings.Contains(tws, hx(b32(curveN))) {
			tws = "-"
		}
		tw := parseTweakOpt(tws)
		msg := msg32(randMsg(r))
		var keys []*btcec.PublicKey
		var privs []*btcec.PrivateKey
		var nonces []*musig2.Nonces
		var pubNonces [][musig2.PubNonceSize]byte
		var ks []string
		for _, d := range ds {
			priv, pub := btcec.PrivKeyFromBytes(b32(d))
			privs, keys = append(privs, priv), append(keys, pub)
			ks = append(ks, hx(pub.SerializeCompressed()))
			nn, err := musig2.GenNonces(musig2.WithCustomRand(bytes.NewReader(r.Bytes(32))), musig2.WithPublicKey(pub))
			if err != nil {
				panic(err)
			}
			nonces, pubNonces = append(nonces, nn), append(pubNonces, nn.PubNonce)
		}
		aggN, err := musig2.AggregateNonces(pubNonces)
		if err != nil {
			continue
		}
		who := r.Intn(n)
		ps, err := musig2.Sign(nonces[who].SecNonce, privs[who], aggN, copyKeys(keys), msg, tw.sign(sort)...)
		if err != nil {
			continue
		}
		sb := ps.S.Bytes()
		sv := new(big.Int).SetBytes(sb[:])
		pn := append([]byte{}, pubNonces[who][:]...)
		an := append([]byte{}, aggN[:]...)
		pk := keys[who].SerializeCompressed()
		keyList := strings.Join(ks, ",")
		sortS, m := "0", append([]byte{}, msg[:]...)
		if sort {
			sortS = "1"
		}
		class := "valid"
		switch r.Intn(10) {
		case 0:
			sv = new(big.Int).Mod(add(sv, 1), curveN)
			class = "s+1"
		case 1:
			sv = new(big.Int).Mod(new(big.Int).Sub(curveN, sv), curveN)
			class = "neg-s"
		case 2:
			pn[0] ^= 1
			class = "nonce-negated"
		case 3:
			pn[33*r.Intn(2)] = 0
			class = "nonce-00"
		case 4:
			an[33*r.Intn(2)] = 0
			class = "aggnonce-00"
		case 5:
			pk = pubOf(randPriv(r)).SerializeCompressed()
			class = "other-key"
		case 6:
			m[r.Intn(32)] ^= 0x40
			class = "other-msg"
		case 7:
			if sortS == "1" {
				sortS = "0"
			} else {
				sortS = "1"
			}
			class = "sort-flag"
		case 8:
			tws = randTweaks(r, 2)
			if strings.Contains(tws, hx(b32(curveN))) {
				tws = "-"
			}
			class = "other-tweaks"
		}
		// F-C11-b trigger: a "partial signature" s = e*a*g*d made WITHOUT any nonce verifies against a public
		// nonce whose halves merely start with 0x00 (taken as infinity before the fix; BIP327 rejects it)
		if i%3 == 0 {
			if line, ok := forgedInfNonce(r, randPriv(r), aggN, msg, sort); ok {
				g.Case("pverify:inf-pubnonce", true, line)
				if os.Getenv("C11_DUMP") != "" {
					fmt.Fprintln(os.Stderr, "DUMP "+line)
				}
			}
		}
		// Sign on its own against an arbitrary (possibly adversarial) aggregate nonce
		{
			an2 := append([]byte{}, aggN[:]...)
			cls := "agg"
			switch r.Intn(6) {
			case 0:
				an2 = make([]byte, 66) // both halves infinite: R is replaced by G
				cls = "inf-inf"
			case 1:
				for z := 0; z < 33; z++ {
					an2[z] = 0
				}
				cls = "inf-first"
			case 2:
				for z := 33; z < 66; z++ {
					an2[z] = 0
				}
				cls = "inf-second"
			case 3:
				copy(an2[1:33], r.Bytes(32))
				cls = "random-x"
			case 4:
				for z := 0; z < 33; z++ {
					an2[z] = 0
				}
				an2[1+r.Intn(32)] = 1 // almost the infinity encoding
				cls = "inf-first-1byte"
			}
			// the secret nonce as GenNonces makes it, or with one of Sign's entry conditions violated
			sec := append([]byte{}, nonces[who].SecNonce[:]...)
			kl := keyList
			switch r.Intn(8) {
			case 0:
				for z := 0; z < 32; z++ {
					sec[z] = 0
				}
				cls += "+k1=0"
			case 1:
				for z := 32; z < 64; z++ {
					sec[z] = 0
				}
				cls += "+k2=0"
			case 2:
				copy(sec[64:], pubOf(randPriv(r)).SerializeCompressed())
				cls += "+foreign-secnonce"
			case 3:
				kl = hx(pubOf(randPriv(r)).SerializeCompressed())
				cls += "+not-a-signer"
			case 4:
				copy(sec[:32], b32(curveN)) // k1 = n reduces to 0
				cls += "+k1=n"
			}
			fs := sortS
			if r.Bool() {
				fs += "f" // WithFastSign: no self-verification inside Sign
				cls += "+fast"
			}
			g.Case("msign:"+cls, true, fmt.Sprintf("C11 msign %x %x %x %s %x %s %s", b32(ds[who]), sec, an2, kl, msg[:], fs, tws))
		}
		if r.Chance(1, 3) {
			sortS += "f"
		}
		g.Case("pverify:"+class, true, fmt.Sprintf("C11 pverify %x %x %x %s %x %x %s %s", b32(sv), pn, an, keyList, pk, m, sortS, tws))
	}
	// full sessions
	for i := 0; i < g.N(32, 900); i++ {
		n := r.Intn(8) + 1
		if r.Chance(1, 3) {
			n = r.Intn(3) + 1
		}
		ds := signerSet(r, n)
		if r.Bool() { // shuffle
			for j := len(ds) - 1; j > 0; j-- {
				k := r.Intn(j + 1)
				ds[j], ds[k] = ds[k], ds[j]
			}
		}
		var ss []string
		for _, d := range ds {
			ss = append(ss, fmt.Sprintf("%x:%x", b32(d), r.Bytes(32)))
		}
		line := fmt.Sprintf("%d %x %s %s", r.Intn(2), randMsg(r), randTweaks(r, 3), strings.Join(ss, ","))
		g.Case(fmt.Sprintf("musig:n=%d", n), true, "C11 musig "+line)
		if i%2 == 0 {
			g.Case(fmt.Sprintf("ctx:n=%d", n), true, "C11 ctx "+line)
		} else {
			g.Case(fmt.Sprintf("ctx2:n=%d", n), true, "C11 ctx2 "+line)
		}
	}
}
