package p11

import (
	"fmt"
	"os"
	"math/big"

	"verifharness/core"
)

// ---------------------------------------------------------------- value pools

func bigHex(s string) *big.Int {
	v, _ := new(big.Int).SetString(s, 16)
	return v
}

func add(v *big.Int, d int64) *big.Int { return new(big.Int).Add(v, big.NewInt(d)) }

// edgeInts: values around every limit the parsers know about.
func edgeInts() []*big.Int {
	two256 := new(big.Int).Lsh(big.NewInt(1), 256)
	out := []*big.Int{}
	for _, base := range []*big.Int{big.NewInt(0), big.NewInt(0x80), big.NewInt(0x100), big.NewInt(0x8000),
		halfN, curveN, curveP, new(big.Int).Sub(curveP, curveN), two256, new(big.Int).Lsh(big.NewInt(1), 255),
		new(big.Int).Lsh(big.NewInt(1), 248), new(big.Int).Lsh(big.NewInt(1), 247)} {
		for d := int64(-2); d <= 2; d++ {
			v := add(base, d)
			if v.Sign() >= 0 {
				out = append(out, v)
			}
		}
	}
	return out
}

func randBelow(r *core.Rand, lim *big.Int) *big.Int {
	v := new(big.Int).SetBytes(r.Bytes(40))
	return v.Mod(v, lim)
}

// randScalarish: mostly valid scalars of assorted byte lengths, sometimes an edge value.
func randScalarish(r *core.Rand, edges []*big.Int) *big.Int {
	switch r.Intn(10) {
	case 0, 1:
		return edges[r.Intn(len(edges))]
	case 2, 3:
		n := r.Intn(32) + 1
		b := r.Bytes(n)
		if r.Bool() {
			b[0] |= 0x80
		} else {
			b[0] &= 0x7f
		}
		return new(big.Int).SetBytes(b)
	default:
		return add(randBelow(r, add(curveN, -1)), 1)
	}
}

// ---------------------------------------------------------------- DER shapes

type derShape struct {
	seqTag, rTag, sTag byte
	rBody, sBody       []byte
	totalDelta         int // added to the sequence length byte
	rLenDelta          int
	sLenDelta          int
	trailing           []byte
	longForm           bool
}

func minimalBody(v *big.Int) []byte {
	b := v.Bytes()
	if len(b) == 0 {
		return []byte{0}
	}
	if b[0]&0x80 != 0 {
		b = append([]byte{0}, b...)
	}
	return b
}

func (d derShape) bytes() []byte {
	inner := []byte{d.rTag, byte(len(d.rBody) + d.rLenDelta)}
	inner = append(inner, d.rBody...)
	inner = append(inner, d.sTag, byte(len(d.sBody)+d.sLenDelta))
	inner = append(inner, d.sBody...)
	out := []byte{d.seqTag}
	if d.longForm {
		out = append(out, 0x81)
	}
	out = append(out, byte(len(inner)+d.totalDelta))
	out = append(out, inner...)
	return append(out, d.trailing...)
}

func genDER(g *core.Gen) {
	r := g.R.Fork()
	edges := edgeInts()
	emit := func(class string, b []byte) {
		nt := len(b) >= 8
		g.Case("der:"+class, nt, fmt.Sprintf("C11 der %s", hx(b)))
		g.Case("lax:"+class, nt, fmt.Sprintf("C11 lax %s", hx(b)))
		if class == "shape-ok" || class == "edge-s" || class == "edge-s-raw" || class == "trail" || class == "pads" || class == "len-sweep" {
			g.Case("lows:"+class, nt, fmt.Sprintf("C11 lows %s", hx(b)))
		}
	}
	base := func() derShape {
		return derShape{seqTag: 0x30, rTag: 2, sTag: 2,
			rBody: minimalBody(randScalarish(r, edges)), sBody: minimalBody(randScalarish(r, edges))}
	}
	// valid-shaped (values may be out of range: edges)
	for i := 0; i < g.N(600, 6000); i++ {
		emit("shape-ok", base().bytes())
	}
	// every edge value in r and in s
	for _, e := range edges {
		d := base()
		d.rBody = minimalBody(e)
		emit("edge-r", d.bytes())
		d = base()
		d.sBody = minimalBody(e)
		emit("edge-s", d.bytes())
		// raw (unsigned) body: high bit may make it "negative"
		if e.Sign() > 0 {
			d = base()
			d.rBody = e.Bytes()
			emit("edge-r-raw", d.bytes())
			d = base()
			d.sBody = e.Bytes()
			emit("edge-s-raw", d.bytes())
		}
	}
	// single-field lies
	for i := 0; i < g.N(150, 1500); i++ {
		for _, mut := range []string{"seqtag", "rtag", "stag", "total", "rlen", "slen", "padr", "pads", "unpadr", "unpads",
			"emptyr", "emptys", "trail", "trunc", "long", "flip", "total-wrap", "longpad", "random"} {
			d := base()
			b := []byte(nil)
			switch mut {
			case "seqtag":
				d.seqTag = byte(r.Pick(0x31, 0x20, 0x00, 0x02, 0xb0, int64(r.Intn(256))))
			case "rtag":
				d.rTag = byte(r.Pick(0x03, 0x00, 0x82, 0x22, int64(r.Intn(256))))
			case "stag":
				d.sTag = byte(r.Pick(0x03, 0x00, 0x82, 0x22, int64(r.Intn(256))))
			case "total":
				d.totalDelta = int(r.Pick(-3, -2, -1, 1, 2, 3, 100, -int64(len(d.rBody))))
			case "rlen":
				d.rLenDelta = int(r.Pick(-2, -1, 1, 2, 3, int64(len(d.sBody)), int64(len(d.sBody))+1, int64(len(d.sBody))+2, -int64(len(d.rBody)), 200))
			case "slen":
				d.sLenDelta = int(r.Pick(-2, -1, 1, 2, 3, -int64(len(d.sBody)), 200))
			case "padr":
				d.rBody = append(make([]byte, r.Intn(3)+1), d.rBody...)
			case "pads":
				d.sBody = append(make([]byte, r.Intn(3)+1), d.sBody...)
			case "unpadr":
				d.rBody[0] |= 0x80
			case "unpads":
				d.sBody[0] |= 0x80
			case "emptyr":
				d.rBody = nil
			case "emptys":
				d.sBody = nil
			case "trail":
				d.trailing = r.Bytes(r.Intn(4) + 1)
				if r.Chance(1, 4) {
					if k := 72 - len(d.bytes()) + r.Intn(3) - 1; k > 0 {
						d.trailing = r.Bytes(k)
					}
				}
			case "trunc":
				b = d.bytes()
				b = b[:len(b)-1-r.Intn(len(b)-1)]
			case "long":
				d.longForm = true
			case "flip":
				b = d.bytes()
				b[r.Intn(len(b))] ^= 1 << uint(r.Intn(8))
			case "total-wrap":
				// sequence length byte 0xfe/0xff with a long input: siglen+2 wraps in byte arithmetic
				b = d.bytes()
				b = append(b, make([]byte, 300)...)
				b[1] = byte(r.Pick(0xfe, 0xff, 0xfd, 0xfc))
			case "longpad":
				// more than 72 bytes in total through zero padding (lax accepts, strict must not)
				d.rBody = append(make([]byte, r.Intn(120)+30), d.rBody...)
				if r.Bool() {
					d.sBody = append(make([]byte, r.Intn(90)), d.sBody...)
				}
			case "random":
				b = r.Bytes(r.Intn(80))
				if len(b) > 2 && r.Bool() {
					b[0] = 0x30
					b[1] = byte(len(b) - 2)
				}
			}
			if b == nil {
				b = d.bytes()
			}
			emit(mut, b)
		}
	}
	// sequence length byte 0xfc..0xff where the declared length is EXACTLY right without byte wrap-around:
	// Go computes siglen+2 in a byte (252+2=254, 253+2=255, 254+2 -> 0, 255+2 -> 1)
	for _, sl := range []int{250, 251, 252, 253, 254, 255} {
		for k := 0; k < 3; k++ {
			rv, sv := minimalBody(randScalarish(r, edges)), minimalBody(randScalarish(r, edges))
			pad := sl - 4 - len(rv) - len(sv)
			pr := r.Intn(pad + 1)
			if len(rv)+pr > 255 || len(sv)+pad-pr > 255 {
				pr = pad / 2
			}
			d := derShape{seqTag: 0x30, rTag: 2, sTag: 2, rBody: append(make([]byte, pr), rv...), sBody: append(make([]byte, pad-pr), sv...)}
			emit("wrap-exact", d.bytes())
		}
	}
	// lengths around the limits
	for l := 0; l <= 80; l++ {
		b := make([]byte, l)
		if l >= 8 {
			// a well-formed signature stretched with padding to exactly l bytes
			rl := (l - 6) / 2
			sl := l - 6 - rl
			d := derShape{seqTag: 0x30, rTag: 2, sTag: 2, rBody: append(make([]byte, rl-1), 1), sBody: append(make([]byte, sl-1), 1)}
			b = d.bytes()
		}
		emit("len-sweep", b)
	}
	// serialiser
	for i := 0; i < g.N(300, 3000); i++ {
		rv, sv := randScalarish(r, edges), randScalarish(r, edges)
		if rv.Cmp(curveN) >= 0 || sv.Cmp(curveN) >= 0 {
			continue
		}
		g.Case("ser", rv.Sign() > 0 && sv.Sign() > 0, fmt.Sprintf("C11 ser %x %x", b32(rv), b32(sv)))
	}
}

func (P) Generate(g *core.Gen) {
	only := os.Getenv("C11_ONLY") // debugging aid: run a single generator
	run := func(name string, f func(*core.Gen)) {
		if only != "" && only != name {
			return
		}
		// generators call btcd's own constructors/signers; on a mutated tree such a call may panic: the
		// cases emitted so far are kept and the run goes on with the next generator
		defer func() {
			if r := recover(); r != nil {
				g.Case("generator-panic:"+name, true, "C11 genpanic "+name)
			}
		}()
		f(g)
	}
	run("der", genDER)
	run("pub", genPub)
	run("ssig", genSchnorrSigParse)
	run("signverify", genSignVerify)
	run("musig", genMusig)
	run("extra", genExtra)
}
