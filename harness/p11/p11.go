// Package p11: correspondence for C11 (secp256k1 parsers, ECDSA / BIP340 / MuSig2 sign+verify, ECDH).
//
// Exec runs the REAL btcec code through its public API; the Lean driver answers the same line from the
// byte-level parser models and the executable secp256k1 reference.
package p11

import (
	"bytes"
	"encoding/hex"
	"fmt"
	"math/big"
	"strings"
	"time"

	"github.com/btcsuite/btcd/btcec/v2"
	"github.com/btcsuite/btcd/btcec/v2/ecdsa"
	"github.com/btcsuite/btcd/btcec/v2/schnorr"
	"github.com/btcsuite/btcd/btcec/v2/schnorr/musig2"
	"github.com/btcsuite/btcd/chainhash/v2"
	"verifharness/core"
)

type P struct{}

func (P) ID() string { return "C11" }

// ---------------------------------------------------------------- facts (T2)

func (P) Facts() []core.Fact {
	c := btcec.S256()
	return []core.Fact{
		{Name: "curveP", Value: c.P},
		{Name: "curveN", Value: c.N},
		{Name: "curveB", Value: c.B},
		{Name: "curveGx", Value: c.Gx},
		{Name: "curveGy", Value: c.Gy},
		{Name: "curveBitSize", Value: c.BitSize},
		{Name: "ecdsaMinSigLen", Value: ecdsa.MinSigLen},
		{Name: "ecdsaMaxSigLen", Value: ecdsa.MaxSigLen},
		{Name: "schnorrSignatureSize", Value: schnorr.SignatureSize},
		{Name: "schnorrPubKeyBytesLen", Value: schnorr.PubKeyBytesLen},
		{Name: "pubKeyBytesLenCompressed", Value: btcec.PubKeyBytesLenCompressed},
		{Name: "privKeyBytesLen", Value: btcec.PrivKeyBytesLen},
		{Name: "musigPubNonceSize", Value: musig2.PubNonceSize},
		{Name: "musigSecNonceSize", Value: musig2.SecNonceSize},
		{Name: "tagKeyAggList", Value: string(musig2.KeyAggTagList)},
		{Name: "tagKeyAggCoeff", Value: string(musig2.KeyAggTagCoeff)},
		{Name: "tagNonceAux", Value: string(musig2.NonceAuxTag)},
		{Name: "tagNonceGen", Value: string(musig2.NonceGenTag)},
		{Name: "tagNonceBlind", Value: string(musig2.NonceBlindTag)},
		{Name: "tagChallenge", Value: string(musig2.ChallengeHashTag)},
		{Name: "tagBIP340Challenge", Value: string(chainhash.TagBIP0340Challenge)},
		{Name: "tagBIP340Aux", Value: string(chainhash.TagBIP0340Aux)},
		{Name: "tagBIP340Nonce", Value: string(chainhash.TagBIP0340Nonce)},
		{Name: "tagTapTweak", Value: string(chainhash.TagTapTweak)},
	}
}

// ---------------------------------------------------------------- helpers

var (
	curveN = btcec.S256().N
	curveP = btcec.S256().P
	halfN  = new(big.Int).Rsh(btcec.S256().N, 1)
)

func unhex(s string) []byte {
	if s == "-" {
		return []byte{}
	}
	b, err := hex.DecodeString(s)
	if err != nil {
		panic("bad hex")
	}
	return b
}

func hx(b []byte) string {
	if len(b) == 0 {
		return "-"
	}
	return hex.EncodeToString(b)
}

func b32(v *big.Int) []byte {
	var out [32]byte
	v.FillBytes(out[:])
	return out[:]
}

func showECDSA(sig *ecdsa.Signature, err error) string {
	if err != nil {
		return "err"
	}
	r, s := sig.R(), sig.S()
	rb, sb := r.Bytes(), s.Bytes()
	return fmt.Sprintf("ok %x %x %x", rb[:], sb[:], sig.Serialize())
}

// ---------------------------------------------------------------- exec (real code)

// Exec runs one line with a watchdog: a signer that never terminates (its self-verification failing on every
// retry) must surface as a disagreement, not as a hung check.
func (P) Exec(line string) string {
	op := ""
	if f := strings.Fields(line); len(f) > 1 {
		op = f[1]
	}
	if hungOps[op] {
		return "timeout" // this op already hung once in this run: do not start another spinning goroutine
	}
	ch := make(chan string, 1)
	go func() {
		defer func() {
			if r := recover(); r != nil {
				ch <- "panic"
			}
		}()
		ch <- exec1(line)
	}()
	select {
	case out := <-ch:
		return out
	case <-time.After(20 * time.Second):
		hungOps[op] = true
		return "timeout"
	}
}

var hungOps = map[string]bool{}

func exec1(line string) string {
	f := strings.Fields(line)
	if len(f) < 2 || f[0] != "C11" {
		return "bad-op"
	}
	op, a := f[1], f[2:]
	switch {
	case op == "genpanic":
		return "generator-panicked" // never equal to the Lean answer: a crashed generator is a visible failure
	case op == "der" && len(a) == 1:
		return showECDSA(ecdsa.ParseDERSignature(unhex(a[0])))
	case op == "lax" && len(a) == 1:
		return showECDSA(ecdsa.ParseSignature(unhex(a[0])))
	case op == "ser" && len(a) == 2:
		var r, s btcec.ModNScalar
		if r.SetByteSlice(unhex(a[0])) || s.SetByteSlice(unhex(a[1])) {
			return "bad-op"
		}
		return hx(ecdsa.NewSignature(&r, &s).Serialize())
	}
	return execMore(op, a)
}

// ---------------------------------------------------------------- known findings

// ClassifyMismatch recognises F-C11-a: ParseDERSignature accepts bytes after the end of the DER
// sequence (total length <= 72). Exactly: op der, Go accepted, the spec rejected, the declared sequence
// length is shorter than the input, and Go gives the very same answer on the input cut at the declared
// length (so the ONLY non-canonical feature is the trailing data).
func (P) ClassifyMismatch(line, goOut, leanOut string) string {
	f := strings.Fields(line)
	if len(f) != 3 || (f[1] != "der" && f[1] != "lows") || !strings.HasPrefix(goOut, "ok") || leanOut != "err" {
		return ""
	}
	b := unhex(f[2])
	if len(b) < 8 || len(b) > 72 || int(b[1])+2 >= len(b) { // 72: the documented strict maximum (literal on purpose)
		return ""
	}
	cut := b[:int(b[1])+2]
	sig, err := ecdsa.ParseDERSignature(cut)
	if err != nil {
		return ""
	}
	if f[1] == "der" && showECDSA(sig, nil) != goOut {
		return ""
	}
	if f[1] == "lows" && ecdsa.VerifyLowS(cut) != nil { // VerifyLowS = the same strict parser + low-S
		return ""
	}
	// the cut input must itself be canonical: re-serialising (without low-S normalisation) gives it back
	if rr, ss := sig.R(), sig.S(); rr.IsZero() || ss.IsZero() {
		return ""
	}
	if !bytes.Equal(canonDER(sig), cut) {
		return ""
	}
	return "F-C11-a"
}

// canonDER is an independent minimal DER encoder (no low-S normalisation).
func canonDER(sig *ecdsa.Signature) []byte {
	r, s := sig.R(), sig.S()
	enc := func(v [32]byte) []byte {
		b := append([]byte{0}, v[:]...)
		for len(b) > 1 && b[0] == 0 && b[1]&0x80 == 0 {
			b = b[1:]
		}
		return b
	}
	rb, sb := enc(r.Bytes()), enc(s.Bytes())
	out := []byte{0x30, byte(4 + len(rb) + len(sb)), 0x02, byte(len(rb))}
	out = append(out, rb...)
	out = append(out, 0x02, byte(len(sb)))
	return append(out, sb...)
}
