// Package p09: correspondence for C09 (PoW target, work, retarget, MTP, subsidy).
package p09

import (
	"encoding/hex"
	"fmt"
	"math/big"
	"strconv"
	"strings"
	"sync"
	"sync/atomic"
	"time"

	"github.com/btcsuite/btcd/blockchain"
	"github.com/btcsuite/btcd/btcutil/v2"
	"github.com/btcsuite/btcd/chaincfg/v2"
	"github.com/btcsuite/btcd/chainhash/v2"
	"github.com/btcsuite/btcd/wire/v2"
	"verifharness/core"
)

type P struct{}

func (P) ID() string { return "C09" }

// ---------------------------------------------------------------- facts (T2)

func netParams() map[string]*chaincfg.Params {
	return map[string]*chaincfg.Params{
		"main": &chaincfg.MainNetParams, "test3": &chaincfg.TestNet3Params,
		"test4": &chaincfg.TestNet4Params, "sig": &chaincfg.SigNetParams,
		"reg": &chaincfg.RegressionNetParams, "sim": &chaincfg.SimNetParams,
	}
}

func (P) Facts() []core.Fact {
	var fs []core.Fact
	for k, v := range blockchain.VerifConstsC09() {
		if k == "similarTimeSecs" {
			continue // only gates a log warning: not observable, not a fact of the property
		}
		fs = append(fs, core.Fact{Name: k, Value: v})
	}
	for name, p := range netParams() {
		fs = append(fs,
			core.Fact{Name: name + "_powLimit", Value: p.PowLimit},
			core.Fact{Name: name + "_powLimitBits", Value: p.PowLimitBits},
			core.Fact{Name: name + "_subsidyInterval", Value: p.SubsidyReductionInterval},
			core.Fact{Name: name + "_targetTimespan", Value: int64(p.TargetTimespan / time.Second)},
			core.Fact{Name: name + "_targetTimePerBlock", Value: int64(p.TargetTimePerBlock / time.Second)},
			core.Fact{Name: name + "_adjFactor", Value: p.RetargetAdjustmentFactor},
			core.Fact{Name: name + "_minDiffReductionTime", Value: int64(p.MinDiffReductionTime / time.Second)},
			core.Fact{Name: name + "_noRetarget", Value: p.PoWNoRetargeting},
			core.Fact{Name: name + "_reduceMinDiff", Value: p.ReduceMinDifficulty},
			core.Fact{Name: name + "_enforceBIP94", Value: p.EnforceBIP94},
			core.Fact{Name: name + "_genesisBits", Value: p.GenesisBlock.Header.Bits},
			core.Fact{Name: name + "_genesisTime", Value: p.GenesisBlock.Header.Timestamp.Unix()},
		)
	}
	fs = append(fs, core.Fact{Name: "maxTimeOffsetSeconds", Value: int64(blockchain.MaxTimeOffsetSeconds)})
	return fs
}

// ---------------------------------------------------------------- exec (real code)

type hdr struct {
	height int32
	bits   uint32
	ts     int64
	parent *hdr
}

func (h *hdr) Height() int32    { return h.height }
func (h *hdr) Bits() uint32     { return h.bits }
func (h *hdr) Timestamp() int64 { return h.ts }
func (h *hdr) Parent() blockchain.HeaderCtx {
	if h.parent == nil {
		return nil
	}
	return h.parent
}
func (h *hdr) RelativeAncestorCtx(d int32) blockchain.HeaderCtx {
	if d < 0 || d > h.height {
		return nil
	}
	n := h
	for i := int32(0); i < d && n != nil; i++ {
		n = n.parent
	}
	if n == nil {
		return nil
	}
	return n
}

type cctx struct{ p *chaincfg.Params }

func (c cctx) ChainParams() *chaincfg.Params { return c.p }
func (c cctx) BlocksPerRetarget() int32 {
	return int32(int64(c.p.TargetTimespan/time.Second) / int64(c.p.TargetTimePerBlock/time.Second))
}
func (c cctx) MinRetargetTimespan() int64 {
	return int64(c.p.TargetTimespan/time.Second) / c.p.RetargetAdjustmentFactor
}
func (c cctx) MaxRetargetTimespan() int64 {
	return int64(c.p.TargetTimespan/time.Second) * c.p.RetargetAdjustmentFactor
}
func (c cctx) VerifyCheckpoint(int32, *chainhash.Hash) bool             { return true }
func (c cctx) FindPreviousCheckpoint() (blockchain.HeaderCtx, error) { return nil, nil }

func signedHex(n *big.Int) string {
	if n.Sign() < 0 {
		return "-" + new(big.Int).Abs(n).Text(16)
	}
	return n.Text(16)
}

func parseSignedHex(s string) *big.Int {
	n, ok := new(big.Int).SetString(s, 16)
	if !ok {
		panic("bad hex " + s)
	}
	return n
}

func u32hex(s string) uint32 {
	v, err := strconv.ParseUint(s, 16, 32)
	if err != nil {
		panic(err)
	}
	return uint32(v)
}

func i64(s string) int64 {
	v, err := strconv.ParseInt(s, 10, 64)
	if err != nil {
		panic(err)
	}
	return v
}

func b01(s string) bool { return s == "1" }

// Exec runs one case under a watchdog: a loop in the real code that does not terminate (e.g. the `for` of
// calcEasiestDifficulty) must surface as a disagreement, not as a check that never finishes.
var hangs sync.Map // op -> *int32

func (p P) Exec(line string) string {
	f := strings.Fields(line)
	op := ""
	if len(f) > 1 {
		op = f[1]
	}
	cnt, _ := hangs.LoadOrStore(op, new(int32))
	if atomic.LoadInt32(cnt.(*int32)) >= 3 {
		return "hang"
	}
	type res struct {
		s  string
		pv any
	}
	ch := make(chan res, 1)
	go func() {
		defer func() {
			if r := recover(); r != nil {
				ch <- res{pv: r}
			}
		}()
		ch <- res{s: p.exec(line)}
	}()
	timer := time.NewTimer(90 * time.Second)
	defer timer.Stop()
	select {
	case r := <-ch:
		if r.pv != nil {
			panic(r.pv)
		}
		return r.s
	case <-timer.C:
		atomic.AddInt32(cnt.(*int32), 1)
		return "hang"
	}
}

func (P) exec(line string) string {
	f := strings.Fields(line)
	if len(f) < 2 || f[0] != "C09" {
		return "bad-op"
	}
	switch f[1] {
	case "c2b":
		// results are values: obtain a result, make further calls (same and different input), mutate
		// their results, then re-observe the FIRST result; finally mutate it and ask again
		c := u32hex(f[2])
		a := blockchain.CompactToBig(c)
		s := signedHex(a)
		b := blockchain.CompactToBig(c ^ 0x00000101)
		b.Add(b, big.NewInt(12345))
		b2 := blockchain.CompactToBig(c)
		b2.Neg(b2).Add(b2, big.NewInt(7))
		if signedHex(a) != s {
			return "aliased"
		}
		a.Add(a, big.NewInt(12345))
		if signedHex(blockchain.CompactToBig(c)) != s {
			return "aliased"
		}
		return s
	case "b2c":
		n := parseSignedHex(f[2])
		keep := new(big.Int).Set(n)
		c := blockchain.BigToCompact(n)
		if n.Cmp(keep) != 0 {
			return "input-mutated"
		}
		if blockchain.BigToCompact(n) != c {
			return "unstable"
		}
		return fmt.Sprintf("%08x", c)
	case "work":
		c := u32hex(f[2])
		a := blockchain.CalcWork(c)
		s := a.Text(16)
		b := blockchain.CalcWork(c ^ 0x00010000)
		b.Lsh(b, 1).Add(b, big.NewInt(1))
		b2 := blockchain.CalcWork(c)
		b2.Add(b2, big.NewInt(3))
		if a.Text(16) != s {
			return "aliased"
		}
		a.Lsh(a, 1).Add(a, big.NewInt(1))
		if blockchain.CalcWork(c).Text(16) != s {
			return "aliased"
		}
		return s
	case "pow":
		// f[2] = 80-byte header, f[3] = powLimit
		raw, _ := hex.DecodeString(f[2])
		var h wire.BlockHeader
		if err := h.Deserialize(strings.NewReader(string(raw))); err != nil {
			return "bad-op"
		}
		blk := btcutil.NewBlock(&wire.MsgBlock{Header: h})
		err := blockchain.CheckProofOfWork(blk, parseSignedHex(f[3]))
		if err == nil {
			return "ok"
		}
		if re, ok := err.(blockchain.RuleError); ok {
			switch re.ErrorCode {
			case blockchain.ErrUnexpectedDifficulty:
				return "badTarget"
			case blockchain.ErrHighHash:
				return "highHash"
			}
		}
		return "err"
	case "next":
		p := chaincfg.Params{
			PowLimit: parseSignedHex(f[2]), PowLimitBits: u32hex(f[3]),
			PoWNoRetargeting: b01(f[4]), ReduceMinDifficulty: b01(f[5]),
			MinDiffReductionTime:     time.Duration(i64(f[6])) * time.Second,
			TargetTimespan:           time.Duration(i64(f[7])) * time.Second,
			TargetTimePerBlock:       time.Duration(i64(f[8])) * time.Second,
			RetargetAdjustmentFactor: i64(f[9]), EnforceBIP94: b01(f[10]),
		}
		newTime := i64(f[11])
		hs := f[12:]
		// tip first on the line; build from genesis
		var tip *hdr
		for i := len(hs) - 1; i >= 0; i-- {
			tb := strings.Split(hs[i], ":")
			tip = &hdr{height: int32(len(hs) - 1 - i), bits: u32hex(tb[1]), ts: i64(tb[0]), parent: tip}
		}
		var last blockchain.HeaderCtx
		if tip != nil {
			last = tip
		}
		bits, err := blockchain.VerifCalcNextRequiredDifficulty(last, subSecond(newTime), cctx{&p})
		if err != nil {
			return "assert"
		}
		return fmt.Sprintf("%08x", bits)
	case "mtp":
		ts := f[2:]
		var tip *hdr
		for i := len(ts) - 1; i >= 0; i-- {
			tip = &hdr{height: int32(len(ts) - 1 - i), ts: i64(ts[i]), parent: tip}
		}
		return strconv.FormatInt(blockchain.CalcPastMedianTime(tip).Unix(), 10)
	case "warp":
		ok := blockchain.VerifAssertNoTimeWarp(int32(i64(f[2])), int32(i64(f[3])),
			time.Unix(i64(f[4]), 0), time.Unix(i64(f[5]), 0))
		if ok {
			return "1"
		}
		return "0"
	case "subsidy":
		p := chaincfg.Params{SubsidyReductionInterval: int32(i64(f[3]))}
		return strconv.FormatInt(blockchain.CalcBlockSubsidy(int32(i64(f[2])), &p), 10)
	}
	return execHard(f)
}

// ---------------------------------------------------------------- generation

func paramsLine(p *chaincfg.Params) string {
	b := func(x bool) string {
		if x {
			return "1"
		}
		return "0"
	}
	return fmt.Sprintf("%s %x %s %s %d %d %d %d %s", p.PowLimit.Text(16), p.PowLimitBits,
		b(p.PoWNoRetargeting), b(p.ReduceMinDifficulty), int64(p.MinDiffReductionTime/time.Second),
		int64(p.TargetTimespan/time.Second), int64(p.TargetTimePerBlock/time.Second),
		p.RetargetAdjustmentFactor, b(p.EnforceBIP94))
}

// synthetic parameter sets with short retarget intervals
func synthParams(r *core.Rand) *chaincfg.Params {
	base := []*chaincfg.Params{&chaincfg.MainNetParams, &chaincfg.TestNet3Params, &chaincfg.TestNet4Params,
		&chaincfg.SigNetParams, &chaincfg.RegressionNetParams, &chaincfg.SimNetParams}[r.Intn(6)]
	p := *base
	per := r.Pick(1, 2, 5, 10, 60, 600)
	blocks := r.Pick(1, 2, 3, 4, 8, 16, 25)
	p.TargetTimePerBlock = time.Duration(per) * time.Second
	p.TargetTimespan = time.Duration(per*blocks) * time.Second
	p.RetargetAdjustmentFactor = r.Pick(1, 2, 4, 4, 4, 7)
	p.PoWNoRetargeting = r.Chance(1, 8)
	p.ReduceMinDifficulty = r.Bool()
	p.MinDiffReductionTime = time.Duration(r.Pick(0, 1, 2*per, 3*per)) * time.Second
	p.EnforceBIP94 = r.Bool()
	if r.Chance(1, 6) {
		// PowLimitBits need not be the compact form of PowLimit in a synthetic set: the cap uses PowLimit,
		// the genesis / min-difficulty / no-retarget rules use PowLimitBits
		p.PowLimitBits = blockchain.BigToCompact(new(big.Int).Rsh(p.PowLimit, uint(1+r.Intn(12))))
	}
	return &p
}

var edgeMantissas = []uint32{0, 1, 2, 0x7f, 0x80, 0xff, 0x100, 0x7fff, 0x8000, 0xffff, 0x10000,
	0x7fffff, 0x800000, 0x800001, 0x80ffff, 0xffffff, 0x00ffff, 0x0377ae, 0x123456, 0x400000, 0x3fffff}

// Generate never crashes on a (mutated) tree: generators call the real code only to shape inputs; if such a
// call panics outside the per-call guards, the cases emitted so far are kept and a marker case makes the
// run fail with a concrete line instead of a crashed harness.
func (P) Generate(g *core.Gen) {
	for i, gen := range []func(*core.Gen){generateBase, generateHard} {
		name := []string{"base", "hard"}[i]
		func() {
			defer func() {
				if r := recover(); r != nil {
					g.Case("generator-panic", true, fmt.Sprintf("C09 genpanic %s", name))
				}
			}()
			gen(g)
		}()
	}
}

func generateBase(g *core.Gen) {
	r := g.R
	// compact -> big / work: all 256 exponents x edge mantissas (exhaustive grid), then random
	for e := uint32(0); e < 256; e++ {
		for _, m := range edgeMantissas {
			c := e<<24 | m
			g.Case("c2b-grid", m&0x7fffff != 0, fmt.Sprintf("C09 c2b %x", c))
			if e < 40 || e%16 == 0 {
				g.Case("work-grid", m&0x7fffff != 0 && m&0x800000 == 0, fmt.Sprintf("C09 work %x", c))
			}
		}
	}
	for i := 0; i < g.N(3000, 200000); i++ {
		c := r.U32()
		if r.Chance(1, 2) {
			c = uint32(r.Intn(36))<<24 | c&0xffffff
		}
		g.Case("c2b-rand", true, fmt.Sprintf("C09 c2b %x", c))
		g.Case("work-rand", true, fmt.Sprintf("C09 work %x", c))
	}
	// big -> compact: random widths 0..40 bytes, top byte forced to edges, both signs
	for i := 0; i < g.N(4000, 300000); i++ {
		n := new(big.Int).SetBytes(r.Bytes(r.Intn(41)))
		switch r.Intn(6) {
		case 0: // high bit of top byte set -> mantissa sign-bit branch
			if n.BitLen() > 0 {
				n.SetBit(n, (n.BitLen()+7)/8*8-1, 1)
			}
		case 1: // exactly 2^k or 2^k - 1
			k := uint(r.Intn(300))
			n = new(big.Int).Lsh(big.NewInt(1), k)
			if r.Bool() {
				n.Sub(n, big.NewInt(1))
			}
		case 2: // round trip of a compact
			n = blockchain.CompactToBig(r.U32()&0x24ffffff | uint32(r.Intn(36))<<24)
		}
		if r.Chance(1, 5) {
			n.Neg(n)
		}
		g.Case("b2c", n.Sign() != 0, "C09 b2c "+signedHex(n))
	}
	for _, s := range []string{"0", "1", "-1", "7f", "80", "ff", "100", "7fff", "8000", "7fffff", "800000", "ffffff", "1000000", "-800000",
		"ffff0000000000000000000000000000000000000000000000000000"} {
		g.Case("b2c-edge", true, "C09 b2c "+s)
	}
	// proof-of-work check on real headers with targets around the hash
	for i := 0; i < g.N(1500, 60000); i++ {
		h := wire.BlockHeader{Version: int32(r.U32()), Timestamp: time.Unix(int64(r.U32()), 0), Nonce: r.U32()}
		copy(h.PrevBlock[:], r.Bytes(32))
		copy(h.MerkleRoot[:], r.Bytes(32))
		lim := []*big.Int{chaincfg.MainNetParams.PowLimit, chaincfg.RegressionNetParams.PowLimit, chaincfg.SigNetParams.PowLimit}[r.Intn(3)]
		switch r.Intn(5) {
		case 0:
			h.Bits = r.U32()
		case 1:
			h.Bits = 0x207fffff
		case 2:
			h.Bits = 0x20000000 | r.U32()&0xffffff
		case 3:
			h.Bits = 0x21000000 | r.U32()&0xffff
		case 4:
			h.Bits = blockchain.BigToCompact(lim) + uint32(r.Intn(3)) - 1
		}
		var sb strings.Builder
		h.Serialize(&sb)
		g.Case("pow", true, fmt.Sprintf("C09 pow %s %s", hex.EncodeToString([]byte(sb.String())), lim.Text(16)))
	}
	// next required difficulty
	for i := 0; i < g.N(2500, 60000); i++ {
		p := synthParams(r)
		c := cctx{p}
		bpr := int(c.BlocksPerRetarget())
		n := r.Intn(3*bpr+3) + 1
		if r.Chance(1, 2) { // land exactly on / next to a retarget boundary
			n = bpr*(1+r.Intn(3)) + int(r.Pick(-1, 0, 0, 0, 1))
			if n < 1 {
				n = 1
			}
		}
		ts := int64(1600000000)
		per := int64(p.TargetTimePerBlock / time.Second)
		bits := p.PowLimitBits
		if r.Bool() {
			bits = blockchain.BigToCompact(new(big.Int).Rsh(p.PowLimit, uint(r.Intn(40))))
		}
		hs := make([]string, n)
		var lastTs int64
		for j := 0; j < n; j++ {
			switch r.Intn(6) {
			case 0:
				ts += per * r.Range(0, 12)
			case 1:
				ts -= r.Range(0, per)
			default:
				ts += r.Range(0, 2*per)
			}
			b := bits
			if p.ReduceMinDifficulty && r.Chance(1, 3) {
				b = p.PowLimitBits
			}
			hs[n-1-j] = fmt.Sprintf("%d:%x", ts, b)
			lastTs = ts
		}
		red := int64(p.MinDiffReductionTime / time.Second)
		newTime := lastTs + r.Pick(red-1, red, red+1, 0, 1, per, -5)
		g.Case("next", n >= bpr, fmt.Sprintf("C09 next %s %d %s", paramsLine(p), newTime, strings.Join(hs, " ")))
	}
	// real-network parameters across a full 2016 interval with clamp-edge timespans
	nets := []*chaincfg.Params{&chaincfg.MainNetParams, &chaincfg.TestNet3Params, &chaincfg.TestNet4Params, &chaincfg.SigNetParams}
	for i := 0; i < g.N(24, 400); i++ {
		p := nets[i%len(nets)]
		T := int64(p.TargetTimespan / time.Second)
		span := []int64{T / 4, T/4 - 1, T/4 + 1, T * 4, T*4 - 1, T*4 + 1, T, r.Range(0, T*5), -100}[r.Intn(9)]
		n := 2016
		hs := make([]string, n)
		t0 := int64(1700000000)
		bits := blockchain.BigToCompact(new(big.Int).Rsh(p.PowLimit, uint(r.Intn(30))))
		for j := 0; j < n; j++ {
			t := t0 + span*int64(j)/int64(n-1)
			b := bits
			if j == 0 && r.Bool() {
				b = p.PowLimitBits
			}
			hs[n-1-j] = fmt.Sprintf("%d:%x", t, b)
		}
		g.Case("next-realnet", true, fmt.Sprintf("C09 next %s %d %s", paramsLine(p), t0+span+600, strings.Join(hs, " ")))
	}
	// median time past
	for i := 0; i < g.N(1500, 50000); i++ {
		n := r.Intn(15) + 1
		ts := make([]string, n)
		for j := range ts {
			ts[j] = strconv.FormatInt(1500000000+r.Range(-50, 50)*int64(r.Pick(1, 1, 600)), 10)
		}
		g.Case("mtp", n > 1, "C09 mtp "+strings.Join(ts, " "))
	}
	// BIP94 time-warp rule
	for i := 0; i < g.N(600, 20000); i++ {
		bpr := r.Pick(1, 2, 4, 2016)
		h := bpr*r.Range(0, 3) + r.Pick(0, 0, 0, 1, -1)
		pt := int64(1700000000)
		ht := pt - 600 + r.Range(-2, 2)
		if r.Chance(1, 4) {
			ht = pt + r.Range(-2000, 2000)
		}
		g.Case("warp", h%bpr == 0, fmt.Sprintf("C09 warp %d %d %d %d", h, bpr, ht, pt))
	}
	// subsidy: every halving boundary ±1 for the shipped intervals, random heights incl. negative
	for _, iv := range []int64{210000, 150, 1, 2, 0, 7} {
		for k := int64(0); k <= 66; k++ {
			for _, d := range []int64{-1, 0, 1} {
				h := k*iv + d
				if h > 2147483647 || h < -2147483648 {
					continue
				}
				g.Case("subsidy-boundary", true, fmt.Sprintf("C09 subsidy %d %d", h, iv))
			}
		}
	}
	for i := 0; i < g.N(1500, 50000); i++ {
		iv := r.Pick(210000, 150, 1, 3, 0, 1000, 2147483647, -5)
		h := int64(int32(r.U32()))
		if r.Bool() {
			h = r.Range(-10, 70) * iv
			if h > 2147483647 || h < -2147483648 {
				h = 0
			}
		}
		g.Case("subsidy-rand", true, fmt.Sprintf("C09 subsidy %d %d", h, iv))
	}
}

// subSecond returns a time.Time inside the second `sec` with a non-zero, input-derived nanosecond part.
// The next block's header carries whole seconds (wire truncates), so the protocol-defined required
// difficulty for a candidate time depends on its second only; callers such as the block-template code
// pass wall-clock times with a fractional part (seed C09-g: a time.After comparison differs exactly at
// prev + MinDiffReductionTime).
func subSecond(sec int64) time.Time {
	ns := int64((uint64(sec)*2654435761)%999999999) + 1
	return time.Unix(sec, ns)
}
